SPEC = {
    "props": "Props/C11.v",
    "check_vo": ["Model/FsmCheck.vo"],
    "driver": "c11",
    "driver_timeout": 2400,
    "component": "pppoe.LCPStateMachine/IPCPStateMachine/IPV6CPStateMachine",
    "clauses": {0: "opened-only-on-mutual-ack: Opened => we acked the peer's latest Configure-Request and the peer acked ours",
                1: "leaves-opened: renegotiation / terminate / Down / Close leave Opened",
                2: "reply echoes the request's identifier",
                3: "ack repeats the request's options; nak/reject list only offending options",
                4: "IPCP acknowledges only the address assigned to the session",
                5: "silent peer: at most the configured number of requests in a run of timer expiries",
                6: "always terminates: a retransmitting state has a running restart timer"},
    "rule": "a case = one real automaton (LCP, IPCP or IPv6CP; random configuration incl. MaxConfigure/MaxRetransmit <= 0, "
            "PeerIP set/unset, crypto/rand replaced by the case's byte stream) driven by an event sequence "
            "(Up/Down/Open/Close/ReceivePacket bytes/SendEchoRequest/timer expiry fresh or stale via VerifTimeout); after every "
            "event the packets sent and a snapshot (state, restartCount, identifier, lastIdentifier, timer set, local option "
            "state) are compared with the Model and judged by the monitor. Streams: bfs = breadth-first over abstract "
            "fingerprints of the implementation (state, timer set, fresh/stale expiry available, restartCount class, ack "
            "bits) x 32 event kinds, one case per edge; random = sequences to depth 8 (thorough 24); silent = Open+Up, "
            "0-3 packets, then only expiries; optsweep = enumerated option lists of a Configure-Request (each numeric option over "
            "{min-1,min,min+1,default,max-1,max,max+1,0,0xFFFF}, every length around the coded one, values equal/adjacent to our own "
            "magic number / interface id / assigned address, unknown types, data-less last option, duplicated and reordered options) "
            "x the states that answer a request, plus the value rules of a received Configure-Nak; reneg = negotiation, Down/Up or "
            "Close/Open cycle, second negotiation (IPCP mostly with a static address), and identifier wrap 255->0; exhaust = "
            "protocol x configured count x 22 configure/terminate phase paths, then expiries to the end; live = the random, silent, "
            "exhaust and reneg generators with the always-terminates clause switched on. distinct = distinct Coq case terms",
    "assumptions": [
        "timer expiry is delivered by calling timeout() through the verif hook (RestartTimer = 1h, never fires by itself): "
        "the scheduling of time.AfterFunc goroutines is modelled by explicit EFire tokens, not executed",
        "crypto/rand never fails (generateMagicNumber / generateInterfaceID error branches are not modelled)",
        "IPCPConfig.IPPool = nil (pool allocation in Up/Down is C01/C05's subject); addresses are IPv4",
        "LCP negotiated.Peer*/AuthProtocol/CHAPAlgorithm and failureCount are written but never read by the automaton and are not observed",
        "NCP copies ignore Code-Reject/Protocol-Reject (RFC 1661 RXJ-); the property text does not name them, T2 covers them for LCP only",
        "identifier is 8 bit: an Ack for the request 256 requests ago is indistinguishable from a current one (protocol, not code)",
        "the monitor's 'offending' for LCP Magic-Number / IPv6CP Interface-Identifier compares with our value before and after the "
        "event; the theorems (T4x) use the value current when the option is examined (a collision regenerates it in mid-list): the two "
        "differ only for a request with two such options whose second equals the freshly generated value; the Nak suggestion for "
        "these two options is proved as '4 / 8 bytes' (its value is the crypto/rand oracle)",
    ],
    "modelled": ["pkg/pppoe/protocol.go ParseLCPPacket, ParseLCPOptions, SerializeLCPOptions, LCPPacket.Serialize",
                 "pkg/pppoe/lcp.go, ipcp.go, ipv6cp.go: New*, Up, Down, Open, Close, closeInternal, ReceivePacket and every receive*/send* "
                 "handler, processConfigureOptions, timeout, start/stopTimer (as tokens), SendEchoRequest"],
}

MANIFEST = {
    "text": "One Rocq transition function models the RFC 1661 automaton as it is coded three times (LCP, IPCP, IPv6CP), on raw "
            "received bytes, with restart counter, identifiers, explicit timer tokens (regular and stale expiry) and the three "
            "option processors. Proved for every option processor, configuration and event sequence: Opened implies mutual "
            "acknowledgement of the latest requests (stale expiries included, after fix 9b2a861/8c383e7); every renegotiation/"
            "terminate/down event leaves Opened; every reply echoes the request identifier; for every option list of a "
            "Configure-Request, at value level (MRU bounds, magic number zero/own, address zero/assigned/other, DNS, interface id "
            "zero/own, lengths, unknown types): a Reject lists exactly the unknown/malformed options, otherwise an Ack repeats the "
            "option bytes iff every option is acceptable, otherwise a Nak lists exactly the offending options in order with the coded "
            "suggestion, and the automaton moves (Ack-Rcvd to Opened) by that same predicate, which is also the one the trace monitor "
            "uses; IPCP acks only the assigned address when one is assigned, after every history incl. Down/Up cycles (refuted "
            "without an assignment: known finding K11c); Open+Up then silence sends exactly max(count,1) requests and stops; "
            "silence in any state terminates if and only if the state is 'live' (terminal or restart timer running): refuted in "
            "general (known finding K11b), with a theorem that only five receive handlers can lose the guard. "
            "Every run drives the real state machines (timer expiry through a verif hook, crypto/rand scripted) over a "
            "breadth-first exploration of their abstract state graph plus random and silent-peer sequences, an enumerated sweep of "
            "option values at their acceptance boundaries in every state, renegotiation across Down/Up and Close/Open, identifier "
            "wrap and restart-counter exhaustion in every phase, and compares packets, "
            "state, counters, identifiers and timer flag with the Model inside Coq; a trace monitor of the property judges the "
            "implementation's traces.",
    "note": "Theorems are about the hand-written Model; the tie to pkg/pppoe is the differential run (sampled / abstract-graph "
            "exhaustive in the thorough tier). Goroutine scheduling of time.AfterFunc is represented by EFire tokens, not executed. "
            "IPPool allocation, negotiated peer options and CHAP/PAP are outside this Model.",
    "technique": "Rocq proof (case analysis over the automaton, induction over event lists and over the restart counter) + "
                 "differential correspondence on raw packets with vm_compute evaluation of the Model and a trace monitor",
    "design_ref": "DESIGN.md §8 C11",
}
