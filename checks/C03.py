import json, os, glob, sys
sys.path.insert(0, os.path.join(os.path.dirname(os.path.abspath(__file__)), "..", "lib"))
import verif

SPEC = {
    "props": "Props/C03.v",
    "check_vo": ["Model/XdpDhcpCheck.vo", "Model/XdpDhcpWire.vo"],
    "driver": "c03",
    "component": "bpf/dhcp_fastpath.c + ebpf.Loader + dhcp.Server cache maintenance",
    "driver_args": ["-shard", "25"],
    "driver_timeout": 2400,
    "clauses": {0: "a transmitted reply is a well-formed Ethernet/IPv4/UDP/BOOTP frame (checksum, lengths, END option)",
                1: "the reply echoes xid/htype/hlen/chaddr and is OFFER for DISCOVER, ACK for REQUEST",
                2: "userspace answers the same request with the same kind of message",
                3: "the reply carries the userspace reply's client address, server id, mask, router, DNS, lease time",
                4: "no reply => XDP_PASS and the frame is byte-identical",
                5: "no reply for a released / declined / expired lease"},
    "rule": "a case = one real dhcp.Server history on real kernel maps (or harness-written maps) with request frames after its messages (life: two after every message; lens: every length; hw: every hlen); after every message the kernel maps, the lease table and the circuit-ID index are compared with the Model (digest); per frame: kernel BPF_PROG_TEST_RUN and native run of the compiled program, Model xdp, and the real userspace server's reply to the same request in the same state; distinct = distinct case terms",
    "assumptions": [
        "the kernel clock cannot be scripted: kernel runs use the measured CLOCK_MONOTONIC second; the expiry sweep is done in the native runner (same C file, helpers re-implemented)",
        "Server.Start is not executed: SetServerConfig is called with the arguments Start would use",
        "time passes = the C02 ageing hook on the lease table plus the same shift applied to the cache entries' lease_expiry",
        "bpf_xdp_adjust_tail semantics are those of BPF_PROG_TEST_RUN; real XDP_TX / NIC offloads / generic XDP are not exercised",
        "frames shorter than 2^16 bytes, IPv4 version nibble 4 (the program does not test it; not generated)",
    ],
    "modelled": ["bpf/dhcp_fastpath.c: dhcp_fastpath_prog with parse_packet_headers, get_dhcp_msg_type, extract_circuit_id_fixed, setup_reply_l2_headers, build_dhcp_options, prefix_to_mask, ip_checksum, adjust_tail",
                 "pkg/ebpf/loader.go: PoolAssignment/IPPool/ServerConfig marshalling, IPToUint32, MACToUint64, MakeCircuitIDKey",
                 "pkg/dhcp/pool.go AddPool sync, pkg/dhcp/server.go updateFastPathCache + circuit-id entry of handleRequest, cache deletes of handleRelease/handleDecline/cleanupExpiredLeases",
                 "pkg/dhcp/server.go lease table and circuit-ID index bookkeeping of handleRequest (ACK branch; whether a REQUEST is ACKed is observed), dropCircuitIDBindings, handleRelease, handleDecline, cleanupExpiredLeases (slow_step)"],
    "trusted_extra": ["clang 14 (BPF and x86-64), Linux BPF verifier/JIT under BPF_PROG_TEST_RUN, cilium/ebpf v0.12.3, cbpf shim headers and native runner (docs/BPF.md)",
                      "insomniacslk/dhcp codec used to hand requests to the real server and to decode its replies"],
}

MANIFEST = {
    "text": "The compiled dhcp_fastpath_prog (kernel BPF_PROG_TEST_RUN and native build) is compared byte for byte with a Rocq model of the program on raw map bytes; the maps are written by the real dhcp.Server / PoolManager / ebpf.Loader into real kernel maps (verif hook injects the map handles) and compared byte for byte with a model of the Go side; the lease-table layer (lease table keyed by the hlen-byte hardware address, circuit-ID index, dropCircuitIDBindings, RELEASE / DECLINE / expiry) is modelled too and compared with the real lease table, index and maps after every handled message; request frames are sent through the program after every message of a lease life cycle (grant, renew, move to another circuit, release and decline with every option 50 / ciaddr combination, NAK, ageing, sweep) and every reply is judged against what the real userspace server answers to the same request in the same state; hlen 0..255 with non-zero chaddr padding, and IP identifications steered onto the folding boundaries of the reply header sum, are swept every run; the driver re-verifies the IP header checksum of every transmitted reply on the emitted bytes. Theorems over all maps, frames and clocks: an unanswered frame is passed unchanged; every transmitted reply has consistent lengths, a valid IP header checksum (for every header content), untouched xid/chaddr/htype/hlen/VLAN tags, yiaddr and options exactly as the maps say; released/declined/swept leases are not answered, and stay unanswered through any later cache events that do not ACK the same key; over every history of handled messages each subscriber_pools entry belongs to a lease of the lease table, so a client without lease is not answered. Refuted with recorded witnesses (replayed on the real program every run) and proved under decidable guards: byte order of the cached addresses (K03a), lease expiry in Unix seconds compared with seconds since boot (K03c), ACK for a REQUEST the slow path NAKs (K03f), message type misread by the fixed-offset scan (K03g), missing server_config (K03h); recorded with markers: six-byte cache key vs hlen-byte lease key (K03j), circuit-id looked up before the MAC in the kernel only (K03k). Fixed on the way: IHL != 5 (4ab203e), DECLINE leaving the cache entry (94fa48d).",
    "note": "The history theorems cover untagged requests without circuit-id (the circuit-ID index invariant is not proved). Theorems are about the hand-written Model; the tie to bpf/dhcp_fastpath.c, pkg/ebpf/loader.go and pkg/dhcp is the differential run (sampled). The kernel clock is not scriptable (native runner does the expiry sweep). Server.Start is not executed. The monitor's executable wellformed function is not itself the subject of a theorem (its conjuncts are, in tx_facts).",
    "technique": "Rocq proof (byte-level rd/upd algebra, RFC 1071 checksum arithmetic, case analysis of the program) + three-way differential correspondence (kernel program / Model / real userspace server) with vm_compute evaluation inside Coq and a trace monitor",
    "design_ref": "DESIGN.md §8 C03, docs/C03.md",
}


def run(ctx):
    rc0, out = verif.sh([os.path.join(verif.VERIF, "bin", "setup-bpf")], env={"VERIF_REPO": ctx.repo}, timeout=600)
    bpfdir = out.strip().splitlines()[-1] if out.strip() else ""
    os.environ["VERIF_BPF_DIR"] = bpfdir
    os.environ["VERIF_ROOT"] = verif.VERIF
    rc = verif.standard_check(ctx, SPEC)
    return bpf_post(ctx, rc, bpfdir, "dhcp_fastpath")


def bpf_post(ctx, rc, bpfdir, obj):
    agg = {"kernel_bpf": None, "verifier_ok": None, "kernel_test_runs": 0, "native_runs": 0,
           "kernel_native_compared": 0, "kernel_native_disagree": 0, "native_faults": 0,
           "slow_path_replies": 0, "slow_path_silent": 0, "tx_bad_ip_checksum": 0, "tx_checksum_second_fold": 0}
    first = ""
    for d in ("run", "replay"):
        for mf in glob.glob(os.path.join(ctx.work, d, "*.meta.json")):
            m = json.load(open(mf))
            if "kernel_bpf" not in m:
                continue
            agg["kernel_bpf"] = m["kernel_bpf"]; agg["verifier_ok"] = m.get("verifier_ok")
            for k in ("kernel_test_runs", "native_runs", "kernel_native_compared", "kernel_native_disagree",
                      "native_faults", "slow_path_replies", "slow_path_silent", "tx_bad_ip_checksum", "tx_checksum_second_fold"):
                agg[k] = max(agg[k], m.get(k, 0))
            first = first or m.get("kernel_native_disagree_first", "")
    agg["bpf_object_dir"] = bpfdir
    agg["bpf_build_ok"] = os.path.exists(os.path.join(bpfdir, obj + ".o")) and os.path.exists(os.path.join(bpfdir, obj + ".native"))
    agg["refuted_clauses"] = ["C03_yiaddr_agrees", "C03_type_agrees", "C03_request_confirmed", "C03_expired_silent"]
    if agg["kernel_native_disagree"]:
        rp = verif.write_replay(ctx, "%d-kernel-native" % ctx.seed, {"property": ctx.pid, "kind": "broken-obligation",
             "no_longer_checks": ["corr:kernel test-run and native run of %s disagree" % obj], "first": first})
        print("VIOLATION property=%s replay=%s no-failing-input-found" % (ctx.pid, rp))
        rc = 1
    ev = verif.evidence_path(ctx)
    if not ctx.replay and os.path.exists(ev):
        e = json.load(open(ev))
        e["coverage"].update(agg)
        if rc and not e["violations"]:
            e["violations"] = 1
        json.dump(e, open(ev, "w"), indent=1)
    return rc
