SPEC = {
    "props": "Props/C14.v",
    "check_vo": ["Model/FailoverCheck.vo"],
    "driver": "c14",
    "component": "ha.FailoverController",
    "clauses": {0: "role_changes_only_after_callback_ok",
                1: "failback_only_if_partner_healthy (at execution start)",
                2: "promotion_requires_sustained_down",
                3: "one_completed_event_per_promotion",
                4: "never_stuck (in_progress/pending states always have a transition pending)",
                5: "failback_completes_healthy",
                9: "malformed observation"},
    "rule": "a case = one event sequence (health checks, clock moves, fresh/stale timer-function runs, control-loop ticks, operator commands, callback returns ok/error) run on a real FailoverController + HealthMonitor under a driver-owned virtual clock, observed after every event; distinct = distinct case terms",
    "assumptions": [
        "timer closures are reached through a hook that calls the same function with the same argument; the delay handed to time.AfterFunc is checked only through failoverTime/failbackTime",
        "goroutine scheduling and the Timer.Stop race are represented by explicit events (StaleFO/StaleFB, any number of outstanding callbacks); the Go scheduler itself is outside the Model",
        "HealthMonitor thresholds are 1/1 in the harness; HTTP probing is not exercised (health checks are injected through recordFailure/recordSuccess)",
        "guards of the _partial theorems: not_stale (clause 2), at most one outstanding callback (clause 3), no health failure reported during a failback callback (clause 5)",
    ],
    "modelled": ["pkg/ha/failover.go: handleHealthEvent, evaluateState, ForceFailover/initiateFailover, ForceFailback/initiateFailback, executeFailover, executeFailback, Stats, events",
                 "pkg/ha/health_monitor.go: recordFailure/recordSuccess transitions with thresholds 1/1, IsPartnerHealthy"],
}

MANIFEST = {
    "text": "The failover controller is a Gallina state machine with an explicit clock, explicit time.AfterFunc timers (including timers that were already due when stopped and run anyway), executions split at the role-change callback, and any number of executions outstanding. Over ALL event sequences: the reported role changes only when a callback returned nil; a failback starts only while the partner is healthy; in_progress/pending states always have a transition pending (after fix 7b78a27 of ForceFailover, which used to leave the controller stuck in_progress); a timer-started promotion needs the partner down for the full delay (proved in the timer-atomic semantics, refuted by a stale timer: known finding K14b); one completed event per promotion (proved while callbacks do not overlap, refuted otherwise: K14c); failback completing after the partner went down again: K14d. The same monitor runs on traces of the real controller (driver-owned virtual clock) on every run.",
    "note": "Theorems are about the hand-written Model; the tie to pkg/ha is the differential run (state-fingerprint breadth-first exploration + random + guarded + defect streams). Timer closures are called through a hook; goroutine scheduling is represented by explicit stale-fire and overlap events.",
    "technique": "Rocq proof (monitor state = projection of Model state; per-step clause lemmas + invariants lifted over all event lists) + differential correspondence with vm_compute evaluation of Model and monitor",
    "design_ref": "DESIGN.md §8 C14",
}
