SPEC = {
    "props": "Props/C14.v",
    "check_vo": ["Model/FailoverCheck.vo"],
    "driver": "c14",
    "component": "ha.FailoverController",
    "clauses": {0: "role_changes_only_after_callback_ok",
                1: "failback_only_if_partner_healthy (at execution start)",
                2: "promotion_requires_sustained_down",
                3: "one_completed_event_per_promotion",
                4: "never_stuck (in_progress/pending states always have a transition pending)",
                5: "failback_completes_healthy",
                6: "partner_down_only_after_threshold (health report changes only as FailureThreshold / RecoveryThreshold consecutive check results allow)",
                9: "malformed observation"},
    "rule": "a case = one event sequence (individual health-check results, clock moves, fresh/stale timer-function runs, control-loop ticks, operator commands, callback returns ok/error) run on a real FailoverController + HealthMonitor under a driver-owned virtual clock, observed after every event; distinct = distinct case terms",
    "assumptions": [
        "timer closures are reached through a hook that calls the same function with the same argument; the delay handed to time.AfterFunc is checked only through failoverTime/failbackTime",
        "goroutine scheduling and the Timer.Stop race are represented by explicit events (StaleFO/StaleFB, any number of outstanding callbacks); the Go scheduler itself is outside the Model",
        "health-check results reach the real HealthMonitor through recordFailure/recordSuccess (hook) or through real CheckNow HTTP checks against a scripted partner (ok / 500 / 204 / undecodable / status degraded / dropped connection); request timeouts and concurrent checks (CheckNow beside the monitor loop) are not exercised; thresholds 0..4 (negative thresholds behave as 0 in the code and are not generated); SetPartner (unused by cmd/bng) is not modelled",
        "real-time stream: model time is the measured real time rounded down and the timer-pending flags are filled from State() (probing would re-arm the real timer)",
        "guards of the _partial theorems: not_stale (clause 2 and its history form), at most one outstanding callback (clause 3), partner not reported down during a failback callback (clause 5)",
    ],
    "modelled": ["pkg/ha/failover.go: handleHealthEvent, evaluateState, ForceFailover/initiateFailover, ForceFailback/initiateFailback, executeFailover, executeFailback, Stats, events",
                 "pkg/ha/health_monitor.go: recordFailure/recordSuccess (ConsecutiveFailures/ConsecutiveSuccesses, FailureThreshold/RecoveryThreshold, Healthy flag, partner_down/partner_up/check_failed/check_succeeded notifications), IsPartnerHealthy, Health(); performCheck's classification of an answer only through the tie"],
}

MANIFEST = {
    "text": "The health monitor's check bookkeeping (consecutive-failure / -success counters, FailureThreshold / RecoveryThreshold, notifications) and the failover controller are ONE Gallina state machine whose inputs are the individual health-check results. Over ALL sequences of check results interleaved with all other events and all thresholds: the monitor is exactly the documented hysteresis (down at a failed check completing >= FailureThreshold consecutive failures, healthy again at a successful check completing >= RecoveryThreshold consecutive successes; down iff such a failure run was followed by no such success run), and - composition, timer-atomic semantics - a timer-started promotion happens only after such a failed check, with the partner down at every step since and the failover delay elapsed since that check. The controller part is a Gallina state machine with an explicit clock, explicit time.AfterFunc timers (including timers that were already due when stopped and run anyway), executions split at the role-change callback, and any number of executions outstanding. Over ALL event sequences: the reported role changes only when a callback returned nil; a failback starts only while the partner is healthy; in_progress/pending states always have a transition pending (after fix 7b78a27 of ForceFailover, which used to leave the controller stuck in_progress); a timer-started promotion needs the partner down for the full delay (proved in the timer-atomic semantics, refuted by a stale timer: known finding K14b); one completed event per promotion (proved while callbacks do not overlap, refuted otherwise: K14c); failback completing after the partner went down again: K14d. The same trace monitor (which derives 'reported down' from the check results itself, never from the implementation's flag) runs on traces of the real HealthMonitor + FailoverController on every run: driver-owned virtual clock, every check-result sequence up to length 5/8 for four threshold pairs, real HTTP health checks against a scripted partner, and a real-time stream in which the controller's own time.AfterFunc timers fire.",
    "note": "Theorems are about the hand-written Model; the tie to pkg/ha is the differential run (state-fingerprint breadth-first exploration + exhaustive check-result sequences + random + threshold-boundary + guarded + defect + real-time streams). In the virtual-clock streams timer closures are called through a hook; the real-time stream lets the real timers fire; goroutine scheduling is represented by explicit stale-fire and overlap events.",
    "technique": "Rocq proof (monitor state = projection of Model state; per-step clause lemmas + invariants lifted over all event lists) + differential correspondence with vm_compute evaluation of Model and monitor",
    "design_ref": "DESIGN.md §8 C14",
}
