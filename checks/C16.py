import json, os, glob, sys
sys.path.insert(0, os.path.join(os.path.dirname(os.path.abspath(__file__)), "..", "lib"))
import verif

SPEC = {
    "props": "Props/C16.v",
    "check_vo": ["Model/TeardownCheck.vo"],
    "driver": "c16",
    "component": "session teardown (dhcp.Server + nat/qos managers + ebpf.Loader, pppoe.Server/SessionTeardown, subscriber.Manager)",
    "clauses": {0: "the session's address is back in the pool",
                1: "its NAT block is removed",
                2: "its QoS policy is removed",
                3: "no fast-path cache entry by MAC / VLAN pair / circuit-id is left",
                4: "exactly one Accounting-Stop was issued if a Start was",
                5: "ending a session that already ended has no further effect; a failed ending attempt leaves the session endable by another path (never stuck)"},
    "rule": "a case = one configuration and one history of establishment / ending operations run on the real objects "
            "(dhcp.Server with real NAT/QoS managers and loader on kernel maps and a recording RADIUS server; pppoe.Server "
            "frames + SessionTeardown; subscriber.Manager) and on the Model, comparing the full resource snapshot after "
            "every operation; distinct = distinct Coq case terms",
    "assumptions": [
        "overlapping PPPoE terminations are modelled sequentially (POverlap = first path, then second, with TerminateAll reading its session list before the held path removed the session); the interleaving is forced on the real code by gates (eBPF callback, withheld Accounting-Response) and validated, not proved",
        "fault injection = a kernel hash map of the same key/value size with max_entries 1 whose slot is taken: Put of a new key fails with E2BIG, updates and deletes work; other map errors (EPERM, ENOMEM) are assumed to take the same error branches",
        "concurrency is validated, not proved: the sequential Model takes the number r of concurrent TerminateSession callers that got through as an oracle observed on the real code (forced interleaving through a barrier in the harness allocator); Go scheduler and memory model are outside the Model",
        "guards of the theorems are decidable predicates on the state in which the session ends (pool bookkeeping intact, no manager state without manager, no earlier Stop); they fail on reachable states only through defects owned by C02/C20 (circuit-ID index shared between MACs, DECLINE of another client's address, circuit-id hash/key collisions); generators use one circuit-id per client",
        "C16_dhcp_expiry is about the per-lease body of cleanupExpiredLeases; the fold over several expired leases is tied by the differential run (oracle: map iteration order)",
        "Server.Start of dhcp/pppoe/nat/qos is not executed (sockets, interface attach); shutdown of dhcp.Server and pppoe.Server is assessed by reading (socket close only); RADIUS authentication of DHCP clients is off, accounting on",
        "QoS default policies are loaded by the harness (cmd/bng/main.go does not load them, so production never finds handleRequest's default policy)",
    ],
    "modelled": ["pkg/dhcp/server.go handleDiscover/handleRequest (resource effects only), handleRelease, releaseSessionServices, handleDecline, cleanupExpiredLeases; pkg/dhcp/pool.go Allocate/Reserve/Release/MarkUnavailable",
                 "pkg/nat/manager.go AllocateNAT/DeallocateNAT and pkg/qos/manager.go SetSubscriberPolicy/RemoveSubscriberQoS as membership of the private address (capacity included)",
                 "pkg/ebpf/loader.go Add/Remove of subscriber_pools, circuit_id_map, circuit_id_subscribers, vlan_subscriber_pools as key sets",
                 "pkg/pppoe/server.go handlePADR/handleLCPConfigAck/handlePAP/handleIPCPConfigAck/handlePADT/handleLCPTermRequest, IPPool; pkg/pppoe/session.go SessionManager Create/Remove/CleanupExpired; pkg/pppoe/teardown.go HandleClientPADT/TerminateSession/TerminateAll/cleanup",
                 "pkg/subscriber/manager.go CreateSession/Authenticate/AssignAddress/ActivateSession/TerminateSession/cleanupExpiredSessions/Stop"],
}

MANIFEST = {
    "text": "Every way a session ends is a transition of a resource-accounting Model (DHCP: RELEASE, DECLINE, lease expiry, after renewals that drop or change the Circuit-ID and under full kernel maps (a Put failing between the two writes of a QoS policy, of a NAT block, of each cache entry), with kernel maps emptied behind the managers' back mid-session, and with the owner returning in the window between lease expiry and the reaper's pass; PPPoE: PADT, LCP Terminate-Request, authentication failure, idle cleanup, SessionTeardown (admin/RADIUS disconnect, TerminateAll = shutdown), also two of these at once with the first held inside cleanup at the eBPF callback or at the Accounting-Response; subscriber.Manager: TerminateSession on a live / cancelled / expired caller context and with a failing allocator release, timeouts, concurrent terminations, Stop) that removes exactly what the code removes on that path. Theorems state, for each path, that the summary function 'held' of the ended session (fixed before the end) is empty afterwards — address back in the pool, NAT block, QoS policy, cache entries by MAC/circuit-id/VLAN gone, one Stop per Start — and that a second ending operation returns the state unchanged with no accounting record; the clauses the code does not satisfy are refuted by vm_compute witnesses that the check replays on the real code as known findings (DECLINE of another address, offered-only sessions, PPPoE idle cleanup, shutdown, teardown after the server already ended the session). The Model is evaluated inside Coq on full before/after resource snapshots recorded from the real dhcp.Server with real NAT/QoS managers and loader on kernel eBPF maps and a recording RADIUS server, the real pppoe.Server + SessionTeardown, and the real subscriber.Manager, on every run. Six defects were repaired in the repository (81d6b2b, b42d48d, f58f3aa, fe50cc3, ac242d7, c878197).",
    "note": "Theorems are about the hand-written resource-level Model (it abstracts resource contents); the tie is the differential run (sampled + enumerated paths x prefixes x pairs). Guards are decidable state predicates (bookkeeping intact), exhibited on reachable states and kept by the guarded streams, not derived from a history invariant. Concurrent termination is validated by forced interleaving, not proved. DHCP/PPPoE server shutdown is by reading.",
    "technique": "Rocq proof (association-list / filter reasoning over a composition model, fold invariants, vm_compute refutation witnesses) + differential correspondence on real objects with kernel eBPF maps and a recording RADIUS server + trace monitor",
    "design_ref": "DESIGN.md §8 C16, docs/C16.md",
}


def _expand_known():
    """A finding that leaves several resources behind is rejected at whichever of its clauses comes first:
    an entry may list "clauses"; it is expanded to one entry per clause (same id, same marker)."""
    orig = verif.load_known
    if getattr(orig, "_c16", False):
        return
    def load(pid):
        out = []
        for k in orig(pid):
            for c in k.get("clauses", [k.get("clause")]):
                out.append(dict(k, clause=c))
        return out
    load._c16 = True
    verif.load_known = load


def run(ctx):
    _expand_known()
    rc0, out = verif.sh([os.path.join(verif.VERIF, "bin", "setup-bpf")], env={"VERIF_REPO": ctx.repo}, timeout=600)
    bpfdir = out.strip().splitlines()[-1] if out.strip() else ""
    os.environ["VERIF_BPF_DIR"] = bpfdir
    os.environ["VERIF_ROOT"] = verif.VERIF
    rc = verif.standard_check(ctx, SPEC)
    # kernel-map facts of the run -> evidence
    ev = verif.evidence_path(ctx)
    if not ctx.replay and os.path.exists(ev):
        e = json.load(open(ev))
        for mf in glob.glob(os.path.join(ctx.work, "run", "*.meta.json")):
            m = json.load(open(mf))
            if "kernel_bpf" in m:
                e["coverage"]["kernel_bpf"] = m["kernel_bpf"]
                e["coverage"]["verifier_ok"] = m.get("verifier_ok")
                break
        e["coverage"]["bpf_object_dir"] = bpfdir
        json.dump(e, open(ev, "w"), indent=1)
    return rc
