SPEC = {
    "props": "Props/C09.v",
    "check_vo": ["Model/CodecCheck.vo"],
    "driver": "c09",
    "component": "network decoders and handler glue (pppoe incl. the receive-loop body and the session table, dhcpv6 incl. lease state, dhcp option 82, ztp option 43, ha SSE, nat ALG)",
    "driver_timeout": 2400,
    "clauses": {0: "no-panic: no call ends in a recovered panic (index / slice bounds violation)",
                1: "no-hang: every call returns (bound linear in the input length; the session-id scan within 65537 probes)"},
    "rule": "a case = one call of one entry point of the REAL code under recover() (+ wall-clock limit for stateful entry points) on (protocol state parameters, byte string, bytes left in the spare buffer capacity), compared with the Model on outcome class ok/error/PANIC/HANG and on the projected result (parsed structure, frames sent, counters); an exhaustive case is a whole block (all byte strings of one length for one entry point) compared on class counts and a checksum of every result; distinct = distinct case terms. meta.impl_only_inputs counts further inputs executed on the implementation only (any PANIC/HANG among them becomes a case)",
    "assumptions": [
        "third-party decoders are oracles assumed panic-free and are outside the Model: insomniacslk/dhcp (DHCPv4 packet and option parsing in front of parseOption82 / ztp option 43), layeh.com/radius (RADIUS responses in pkg/radius/client.go), encoding/json (HA sync messages), regexp and bufio.Scanner (NAT ALG matching)",
        "NAT ALG: the Model covers the pass-through path only; whether a payload was rewritten is reported by the harness (oracle), the rewritten bytes are not compared",
        "RADIUS CoA/Disconnect datagrams (pkg/radius/coa.go) are modelled and proved under C15 (Model/Coa.v), not here",
        "LCP/IPCP/IPv6CP ReceivePacket: the Model covers decoding, guarded option reads, Echo-Reply and Code-Reject construction, the close path of critical Code-Reject / Protocol-Reject of LCP (state + Terminate-Request) and unknown-code-leaves-state; the other state transitions are C11's subject (harness reads state and lastIdentifier from the real object); every call plus a follow-up GetState() runs under a 2 s limit",
        "CreateSession: the session table is modelled as a Go map = key list without duplicates whose length is len(m.sessions) (NoDup is the representation invariant of a map); the pigeonhole fact table_wf is a theorem (C09_table_pigeonhole), so termination, capacity and the PADR-flood theorems hold for every table state. The tie reaches near-full tables through the verif fill hook (entries 9 and 14), not through 65534 real PADRs",
        "nil pointers: a Go pointer that may be nil is an option in the Model and every dereference is deref (Panic on None); which pointers can be nil (ParseDUID's result, map lookups, buildReply/buildAdvertise results, GetOption results) was read off the code by hand",
        "DHCPv6 handlers with lease state (entry 28): the lease state is reached with real datagrams only; pool membership of a confirmed address and pool exhaustion do not change the projected counters (the Model dereferences the lease for every well-formed IAAddr, i.e. is stricter than the code)",
        "PPPoE receive loop (entry 15): frames are injected through a verif socket into the real receiveLoop; the frame's source MAC is the session owner's (as for entries 7/8)",
        "handlers behind third-party decoders have no Model and are fuzzed on the implementation only under recover() + time limit (entry 40: dhcpv4.FromBytes -> dhcp.Server.handleDHCP on one shared server with a /28 pool; entry 41: ha handleSSEData); not covered at all: pkg/slaac RS handler, pkg/dns upstream replies, pkg/routing ICMP probe replies, pkg/pool peer HTTP handlers (C17), ha HTTP handlers, ZTP/agent bootstrap HTTP bodies (encoding/json), cmd/bng demo API",
        "memory exhaustion and Go runtime behaviour are outside the Model; wall-clock limits (3-8 s per stateful call) stand in for 'completes within a bound' on the implementation side",
        "pure decoders are called without a timeout: a hang there would stall the driver, which the check reports as a failed run",
    ],
    "modelled": ["pkg/pppoe/protocol.go ParsePPPoEHeader ParseTags ParseLCPPacket ParseLCPOptions (+serializers)",
                 "pkg/pppoe/server.go handleDiscovery handlePADI/PADR/PADT (projection), handleSession handleLCP handlePAP handleIPCP (projection)",
                 "pkg/pppoe/lcp.go ipcp.go ipv6cp.go ReceivePacket decoding paths", "pkg/pppoe/auth.go receivePAP handlePAPAuthRequest receiveCHAP handleCHAPResponse",
                 "pkg/pppoe/keepalive.go ParseEchoPacket", "pkg/pppoe/teardown.go ParsePADT", "pkg/pppoe/session.go CreateSession (every table state; sequences of calls; handlePADR on a table)",
                 "pkg/pppoe/server.go receiveLoop body (runt check, Ethernet header slicing, destination filter, EtherType dispatch)",
                 "pkg/dhcpv6/server.go handleSolicit/Request/Confirm/Renew/Rebind/Release/Decline/InformationRequest with lease state and nil-pointer semantics (ParseDUID result, lease lookup, buildReply/buildAdvertise result)",
                 "pkg/dhcpv6/protocol.go ParseMessage ParseOptions ParseIANA ParseIAPD ParseIAAddress ParseIAPrefix ParseDUID", "pkg/dhcpv6/server.go receiveLoop body + handleMessage dispatch and option walks",
                 "pkg/dhcp/server.go parseOption82", "pkg/ztp/client.go parseVendorOptions", "pkg/ha/sync.go connectToStream line slicing", "pkg/nat/alg.go pass-through path"],
}

MANIFEST = {
    "text": "Byte-level Models with Go slice semantics (index and slice expressions can Panic, loops have fuel and an iteration counter, spare buffer capacity is explicit) of every network-facing decoder and handler anchored by C09: PPPoE header/tag/LCP packet/option parsers, the PPPoE server's discovery and session frame glue incl. PAP, ParsePADT, ParseEchoPacket, ReceivePacket of the LCP/IPCP/IPv6CP automata in every state, PAP/CHAP, the session-id allocator, DHCPv6 message/option/IA_NA/IA_PD/IAAddr/IAPrefix/DUID parsers and the server's datagram glue, DHCP option 82, ZTP option 43, the HA SSE line reader, NAT ALG pass-through; and of the handler glue between decoder and state change: the PPPoE receive-loop body on a raw Ethernet frame, the DHCPv6 handlers with lease state where every pointer that can be nil is an option and every dereference can Panic, the session table as a Go map. Theorems, for every byte string and every state parameter: no Panic and no Hang for every entry point (one dispatcher theorem plus named ones), results independent of bytes outside the input where a receive buffer is re-sliced, loop iterations bounded linearly in the input length; the session-id scan terminates within 65537 probes, issues only free non-zero ids and issues one whenever fewer than 65535 are live, for EVERY table state (pigeonhole proved, no hypothesis on the table) and for PADR floods of any length. Six defects reproduced on the real code (five slice panics from one malformed length field each, one unbounded scan) were repaired by one-line fix commits; their witnesses stay in the corpus. Every run calls the real code under recover() on exhaustive short inputs, boundary-value mutations of valid encodings (truncation at every offset, every length-field position at 0,1,2,3,len-1,len,len+1,0xFFFF), containers nested in themselves to depth 9, random strings up to 2 KiB, every LCP code in every automaton state, every optional DHCPv6 option absent/empty/short/valid in every message type against servers with and without lease state and with exhausted pools, session tables filled to every boundary by a fast-forward hook, and compares outcome class and parsed structure with the Model evaluated inside Coq; handlers behind third-party parsers (DHCPv4 handleDHCP, HA handleSSEData) are fuzzed on the implementation only.",
    "note": "Theorems are about the hand-written Models (as the code stands after the fix commits); the tie to the Go code is the differential run (sampled + exhaustive for inputs of length <= 2, 3 on the implementation in the thorough tier). Third-party parsers (insomniacslk/dhcp, layeh radius, encoding/json, regexp) are oracles. CoA datagrams are covered by C15. State transitions of the automata are C11's subject. Which Go pointers can be nil is read off the code by hand. Not covered: slaac, dns, routing probes, pool peer HTTP, HA HTTP handlers, bootstrap HTTP bodies (see docs/C09.md inventory).",
    "technique": "Rocq proof (checked-access monad, fuel induction with linear step bounds, tail-independence lemmas) + differential correspondence under recover() with vm_compute evaluation of the Model, exhaustive small input spaces",
    "design_ref": "DESIGN.md §8 C09",
}


def run(ctx):
    """standard pipeline, then add the driver's implementation-only volume to the evidence"""
    import json, os, glob, sys
    sys.path.insert(0, os.path.join(os.path.dirname(os.path.dirname(os.path.abspath(__file__))), "lib"))
    import verif
    rc = verif.standard_check(ctx, SPEC)
    ev = verif.evidence_path(ctx)
    if not ctx.replay and os.path.exists(ev):
        e = json.load(open(ev))
        impl_only, blocks, by_gen = 0, 0, {}
        for mf in glob.glob(os.path.join(ctx.work, "run", "*.meta.json")):
            m = json.load(open(mf))
            impl_only += int(m.get("impl_only_inputs", 0) or 0)
            for k, v in (m.get("impl_only_by_generator") or {}).items():
                by_gen[k] = by_gen.get(k, 0) + v
            if m.get("exhaustive"):
                blocks += m["cases"]
        e["coverage"]["impl_only_inputs"] = impl_only
        e["coverage"]["impl_only_by_generator"] = by_gen
        e["coverage"]["exhaustive_blocks"] = blocks
        e["coverage"]["exhaustive"] = True
        e["coverage"]["exhaustive_note"] = "all byte strings of length <= 2 per entry point (session glue, receive loop and SSE reader <= 1), evaluated on the real code and on the Model"
        json.dump(e, open(ev, "w"), indent=1)
    return rc
