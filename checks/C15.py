SPEC = {
    "props": "Props/C15.v",
    "check_vo": ["Model/CoaCheck.vo"],
    "driver": "c15",
    "component": "radius.CoAServer(receiveLoop)",
    "clauses": {0: "only-if: a handler call or a response happens only for a complete CoA/Disconnect request whose Request Authenticator verifies under the shared secret",
                1: "if: a complete, well-formed, verifying request gets exactly one response and exactly one call of the installed handler of its kind",
                2: "response: request's identifier, ACK/NAK code of the request's kind, correct Length, Response Authenticator verifies against the request",
                3: "no crash: the listener goroutine does not panic (a crash is an effect: it ends the process)",
                4: "observable: the driver's independent crypto/md5 verdict 'complete and verifies' equals the monitor's",
                9: "oracle: a digest the monitor needs is missing from the case's table (harness defect)"},
    "rule": "a case = one real CoAServer on a loopback UDP socket (random secret, handlers installed or not) and a trace of datagrams; every datagram is followed by a signed sync request whose response marks the end of processing; observed per datagram: handler calls (kind + parsed request), datagrams sent back, panic. distinct = distinct Coq case terms. evaluations counts cases; the number of datagrams is in input_distribution (datagrams, datagrams_handled, datagrams_dropped)",
    "assumptions": [
        "the digest is a parameter H of every theorem (all H); the tie evaluates the Model with H := the table of crypto/md5 results the driver computed for that case (a request outside the table is reported as a mismatch, never defaulted), and with H := an MD5 written in Gallina on all corpus cases and the first 6 steps of every 25th case, where the table entries are also checked against it",
        "'complete RADIUS packet' is read as: at least 20 bytes, 20 <= Length <= bytes received (<= 4096); code 40/43 is part of being a CoA/Disconnect request; an authentic request whose attribute area does not parse may be dropped or handled by the monitor (the code drops it; the Model decides it exactly, incl. the ignored lone trailing byte)",
        "handlers' session logic (coa_handler.go) is outside the property: the handler's answer (Success, ErrorCause, Message) is an arbitrary function in the theorems and an observed value in the tie; the dispatch, the parsed request handed to the handler and the response bytes are compared",
        "replay protection (Event-Timestamp) and the cryptographic strength of MD5 are not part of the property",
        "loopback UDP between two sockets is assumed not to lose or reorder the two datagrams in flight",
        "Reply-Message longer than 253 bytes makes sendResponse write a wrapped attribute-length octet (observed with the repository's CoAProcessor and a 250-byte Acct-Session-Id); Length and Response Authenticator stay correct, so it is outside C15; the Model reproduces it",
    ],
    "trusted_extra": [
        "MD5 is not modelled in the theorems; for evaluation: crypto/md5 results shipped as a per-case table, cross-checked on a sample against a Gallina MD5 (Model/CoaCheck.v) that no theorem depends on",
        "verif hook pkg/radius/verif_c15_hooks.go: runs the unmodified receiveLoop in a goroutine with recover (same socket setup as Start); the e2e stream uses the plain Start() in a child process",
    ],
    "modelled": ["pkg/radius/coa.go: receiveLoop body (length checks, slices of the 4096-byte buffer), verifyRequestAuthenticator, parseAttributes, parseCoARequest, parseDisconnectRequest, handleCoARequest/handleDisconnectRequest dispatch and nil-handler defaults, sendCoAResponse/sendDisconnectResponse/sendResponse",
                 "pkg/radius/coa_handler.go: not modelled (handler answer is an oracle); exercised end to end in the 'processor' stream with counting session callbacks"],
}

MANIFEST = {
    "text": "Model of one receiveLoop iteration of pkg/radius/coa.go over Go slices with capacity (every content-dependent slice/index is a checked operation, Panic is an outcome), the digest abstracted as a parameter H. Theorems for all H, secrets, handler behaviours, stale buffer contents and datagrams: the Model equals a reference semantics on plain lists; a handler is dispatched and an ACK/NAK sent iff the datagram is complete (20 <= Length <= received), its Request Authenticator equals H(hdr ++ 0^16 ++ attrs ++ secret), its attributes parse and its code is 40/43; every other datagram is dropped; every response carries the request identifier, the right ACK/NAK code, a correct Length and Response Authenticator H(resp hdr ++ request authenticator ++ resp attrs ++ secret); no datagram panics; stale buffer content is irrelevant. The pre-fix tree is refuted (Length < 20 => slice panic that killed the process; fixed in ce0927a, witness kept in corpus). Tie: real CoAServer on loopback UDP with counting handlers (recover-safe hook and plain Start() in a child process), exhaustive single-bit/byte/length-field/truncation sweeps of signed requests with 0-6 attributes, wrong secrets, other codes, random datagrams; Model and trace monitor evaluated inside Coq with crypto/md5 digests as oracle table and a Gallina MD5 cross-check.",
    "note": "Theorems are about the hand-written Model; the tie to coa.go is the differential run (exhaustive for the listed single mutations of the generated base requests, sampled otherwise). MD5 itself is an oracle. Handler session logic, replay protection and concurrency with SetCoAHandler are outside.",
    "technique": "Rocq proof (refinement of a checked-slice model to list semantics; induction over the attribute parser with fuel) + differential correspondence with vm_compute evaluation of Model and trace monitor",
    "design_ref": "DESIGN.md §8 C15, §9 row 6",
}
