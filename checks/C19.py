import os, sys
_d = os.path.dirname(os.path.abspath(__file__))
while not os.path.exists(os.path.join(_d, "lib", "verif.py")):
    _d = os.path.dirname(_d)
sys.path.insert(0, os.path.join(_d, "lib"))
import verif, verif_bpf

SPEC = {
    "props": "Props/C19.v",
    "check_vo": ["Model/TcQosCheck.vo"],
    "driver": "c19",
    "driver_args": ["-shard", "20"],
    "component": "bpf/qos_ratelimit.c + qos.Manager",
    "clauses": {0: "upper bound: bytes admitted in any window <= burst + rate*window",
                1: "no starvation: credit discarded while the subscriber is being refused stays within burst + one max packet",
                2: "rate 0 means unlimited",
                3: "the policy set through the control plane is the one enforced"},
    "rule": "a case = a configuration (raw bucket values, or SetSubscriberQoS/SetSubscriberPolicy/RemoveSubscriberQoS executed by the real qos.Manager on real kernel maps, or a life cycle of the plan table - AddPolicy / re-definition / RemovePolicy / LoadDefaultPolicies / GetPolicy / ListPolicies on the real radius.PolicyManager with SetSubscriberPolicy after each change) and an arrival sequence; packets are run by the natively compiled qos_ratelimit.c under a scripted clock, or by the object loaded in the kernel (BPF_PROG_TEST_RUN) and then replayed natively with the clock value the kernel used; distinct = distinct case terms",
    "assumptions": [
        "'always has a packet waiting' is read for a policer (no queue) as: offered and refused at consecutive arrivals; idle time is never charged (docs/C19.md)",
        "the default burst when BurstBytes = 0 is the documented one (1 s of traffic, 64 KiB..10 MiB) without the uint32 truncation",
        "statistics map, Start()/TC attachment, a failing map Put (half-written policy, error returned), the manager's subscriber tracking map, and concurrent CPUs updating one bucket (plain read-modify-write in C) are outside the Model",
        "a plan that is re-defined but not re-applied changes no subscriber's contract (the code does not push plans to subscribers); LoadDefaultPolicies is a control-plane call like AddPolicy: it replaces operator plans that carry built-in names",
        "the kernel clock cannot be scripted: clause 1 is exercised natively; kernel runs cover lookup, verdict, priority and map write-back with the observed clock",
    ],
    "trusted_extra": ["clang 14 (BPF and x86-64 back ends), shim bpf_helpers.h, native runner cbpf/native/runner.c (scripted bpf_ktime_get_ns), Linux 6.18 BPF verifier/interpreter under BPF_PROG_TEST_RUN, cilium/ebpf v0.12.3 loader and map marshalling (measured through real kernel maps)"],
    "modelled": ["bpf/qos_ratelimit.c token_bucket_check, qos_egress_prog, qos_ingress_prog", "pkg/qos/manager.go SetSubscriberQoS, SetSubscriberPolicy, RemoveSubscriberQoS, ipToKey", "pkg/radius/policy.go PolicyManager (AddPolicy, GetPolicy, RemovePolicy, ListPolicies, LoadDefaultPolicies), DefaultPolicies table"],
}

MANIFEST = {
    "text": "Model of token_bucket_check exactly as coded (elapsed mod 2^64, (elapsed*(rate/8)) mod 2^64 / 10^9, cap, spend, last_update always advanced) and of both TC programs, plus what qos.Manager writes. Theorems over every arrival sequence with a non-decreasing 64-bit clock, every rate and burst, tokens <= burst: bytes admitted in any window <= burst + (rate/8)*window/10^9 (full); rate 0 passes everything (full, bucket and program). No-starvation is refuted on the faithful Model: per-packet truncation starves a backlogged low-rate subscriber forever (general lemma + 70000-packet witness) and the 64-bit product wraps (100 Gbit/s, 1.4757 s gap); it is proved under the decidable guard 'every gap is a whole number of token periods, no wrap'. Policy-enforced is refuted (bucket stored under the byte-reversed address; ingress burst ignores the policy) and proved for palindromic addresses with default burst (download alone: any rate and explicit burst). The plan table of radius.PolicyManager is modelled: for every history of control-plane calls the table binds a name to its last definition (full), that binding is what GetPolicy returns and SetSubscriberPolicy writes (full), and under the byte-order guard the whole TC program, run over any arrival sequence with the map threaded through, admits in every window at most the burst plus rate times window of the contract set directly or through a plan after any history of re-definitions (end to end); rate 0 set that way passes everything. The monitor accepts the Model on every history of control-plane calls (full). All refutations are replayed on the real code as known findings. Every run recompiles the C, loads it in the kernel (verifier), lets the real Manager write real kernel maps, drives plan life cycles (define, apply, re-define, re-apply, defaults over operator plans and back, remove) and measures after each application what the program enforces, runs the native build under a scripted clock and the kernel build under test-run; every kernel run is replayed natively with the observed clock and must agree in verdict, priority and map contents.",
    "note": "Theorems are about the hand-written Model; the tie is sampled. The clause-1 monitor embodies one reading of 'always has a packet waiting' for a policer (docs/C19.md). Concurrent CPUs on one bucket are not modelled.",
    "technique": "Rocq proof (induction over arrival lists, floor-sum and wrap lemmas, lockstep simulation of monitor and bucket) + differential correspondence: native scripted-clock execution and kernel BPF_PROG_TEST_RUN of the compiled C against vm_compute evaluation of the Model, with an exact-arithmetic trace monitor",
    "design_ref": "DESIGN.md §8 C19, docs/C19.md, docs/BPF.md",
}


def run(ctx):
    bpfdir = verif_bpf.setup(ctx)
    rc = verif.standard_check(ctx, SPEC)
    asan = None if ctx.replay else verif_bpf.asan_run(ctx, SPEC, "VERIF_C19_ASAN")
    return verif_bpf.post(ctx, rc, bpfdir, ["qos_ratelimit"], asan)
