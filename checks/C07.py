import json, os, glob, sys
sys.path.insert(0, os.path.join(os.path.dirname(os.path.abspath(__file__)), "..", "..", "lib"))
sys.path.insert(0, os.path.join(os.path.dirname(os.path.abspath(__file__)), "..", "lib"))
import verif

SPEC = {
    "props": "Props/C07.v",
    "check_vo": ["Model/PktCheck.vo"],
    "driver": "c07",
    "component": "bpf/{antispoof,qos_ratelimit,nat44,dhcp_fastpath}.c",
    "driver_timeout": 3000,
    "clauses": {0: "no access outside [data, data_end) (guard-page fault / Model OOB)",
                1: "terminates with a verdict defined for its hook",
                2: "a pass verdict leaves the frame as given unless the program's act predicate holds"},
    "rule": "one case = one program run on one frame with one map state: natively with the frame end flush against a PROT_NONE page "
            "(plus kernel BPF_PROG_TEST_RUN, ASan build and start-flush placement, each emitted as its own case when it differs), "
            "and on the Model; distinct = distinct (program, scenario, variant, length, execution)",
    "trusted_extra": [
        "clang 14 (BPF and x86-64 back ends), cbpf shim headers and native runner (guard pages, helper re-implementations), cilium/ebpf v0.12.3 loader",
        "the in-kernel BPF verifier accepted the freshly compiled objects (recorded as supporting evidence: an independent proof of in-bounds access for the actual bytecode; trusted, not reproduced)",
    ],
    "modelled": [
        "the C programs are hand-modelled as packet-access skeletons (Model/*Pkt.v); statistics, log records and the map updates of a run are left out (not packet memory)",
        "bpf_xdp_adjust_tail: refuses < 14 bytes and growth beyond e_maxlen; cut / zero-extend otherwise (as the native runner and bpf_prog_test_run_xdp)",
        "map lookups: arbitrary function (theorems) / dumped raw bytes incl. LPM longest-prefix match (tie)",
        "JIT, per-CPU races on map values, non-linear skbs are outside the model",
    ],
    "assumptions": [
        "dhcp fast path clause 2 is proved for frames shorter than 64 KiB (dhcp_guard); beyond that it is refuted in the Model (u16 truncation of the frame length before bpf_xdp_adjust_tail) - no XDP hook sees such a frame, neither runner can build one, so nothing reproduces on the real code",
        "kernel test-run refuses TC frames with an IPv4/IPv6 ethertype and an incomplete IP header and all frames below 14 bytes: those lengths are covered by the native runner only",
    ],
}

MANIFEST = {
    "text": "Every XDP/TC program of bpf/*.c (antispoof_ingress, qos_egress_prog, qos_ingress_prog, nat44_egress, nat44_ingress, "
            "nat44_hairpin_xdp, dhcp_fastpath_prog) is modelled in a checked-access monad that keeps each data_end test of the C; Rocq proves, "
            "for every frame of any length and content and every map content: no out-of-frame access, a defined verdict, and pass => frame "
            "untouched unless the act predicate holds (NAT flow / subscriber_nat entry; antispoof, qos, hairpin never store at all; DHCP: "
            "every XDP_PASS hands up the original request, for frames < 64 KiB). The tie runs the same C natively with the frame flush against "
            "a PROT_NONE page for every length 0..1600 of structured and random families (VLAN/QinQ, IHL 0..15, IPv6, truncation at every "
            "byte), in the kernel via BPF_PROG_TEST_RUN and under ASan, and compares verdict and resulting bytes with the Model.",
    "note": "fix committed: /repo c10bfec (dhcp fast path tested the reply's options room after rewriting the frame; requests with 12..63 "
            "option bytes were passed up mangled). Residual, Model only: frames >= 64 KiB (refuted theorem + partial under length guard).",
    "technique": "Rocq proof over a checked-access monad + differential execution (native guard-page runner, kernel test-run, ASan) against the Model",
}


def run(ctx):
    rc0, out = verif.sh([os.path.join(verif.VERIF, "bin", "setup-bpf")], env={"VERIF_REPO": ctx.repo}, timeout=900)
    bpfdir = out.strip().splitlines()[-1] if out.strip() else ""
    os.environ["VERIF_BPF_DIR"] = bpfdir
    os.environ["VERIF_ROOT"] = verif.VERIF
    rc = verif.standard_check(ctx, SPEC)
    return post(ctx, rc, bpfdir)


def post(ctx, rc, bpfdir):
    """runner counters from the stream metas -> evidence; a kernel/native disagreement that the acceptor did not
    already turn into a violation is a broken correspondence."""
    agg = {"kernel_bpf": None, "verifier_ok": None, "kernel_test_runs": 0, "native_runs": 0, "asan_runs": 0,
           "guard_start_runs": 0, "kernel_native_compared": 0, "kernel_native_disagree": 0, "native_faults": 0,
           "kernel_refused_short_tc": 0, "asan_alignment_aborts_ignored": 0}
    first = ""
    for d in ("run", "replay"):
        for mf in glob.glob(os.path.join(ctx.work, d, "*.meta.json")):
            m = json.load(open(mf))
            if "kernel_bpf" not in m:
                continue
            agg["kernel_bpf"] = m["kernel_bpf"]; agg["verifier_ok"] = m.get("verifier_ok")
            for k in list(agg):
                if isinstance(agg[k], int) and not isinstance(agg[k], bool):
                    agg[k] = max(agg[k], m.get(k, 0))
            first = first or m.get("kernel_native_disagree_first", "")
    agg["bpf_object_dir"] = bpfdir
    agg["bpf_build_ok"] = all(os.path.exists(os.path.join(bpfdir, o + e)) for o in ("antispoof", "qos_ratelimit", "nat44", "dhcp_fastpath")
                              for e in (".o", ".native"))
    ev = verif.evidence_path(ctx)
    if agg["kernel_native_disagree"] and rc == 0:
        rp = verif.write_replay(ctx, "%d-kernel-native" % ctx.seed, {"property": ctx.pid, "kind": "broken-obligation",
             "no_longer_checks": ["corr:kernel test-run and native run disagree"], "first": first})
        print("VIOLATION property=%s replay=%s no-failing-input-found" % (ctx.pid, rp))
        rc = 1
    bad = [k for k, v in (agg["verifier_ok"] or {}).items() if not v]
    if bad and agg["kernel_bpf"] and rc == 0:
        rp = verif.write_replay(ctx, "%d-verifier" % ctx.seed, {"property": ctx.pid, "kind": "broken-obligation",
             "no_longer_checks": ["corr:the in-kernel verifier no longer accepts %s.o" % ", ".join(bad)]})
        print("VIOLATION property=%s replay=%s no-failing-input-found" % (ctx.pid, rp))
        rc = 1
    if not ctx.replay and os.path.exists(ev):
        e = json.load(open(ev))
        e["coverage"].update(agg)
        if rc and not e["violations"]:
            e["violations"] = 1
        json.dump(e, open(ev, "w"), indent=1)
    return rc
