SPEC = {
    "props": "Props/C04.v",
    "check_vo": ["Model/PPPoESrvCheck.vo"],
    "driver": "c04",
    "component": "pppoe.Server(frame handlers)",
    "driver_timeout": 2400,
    "clauses": {0: "established-after-auth: a session is shown Established only after a PAP accept for that same session (by RADIUS when one is configured)",
                1: "clientip-after-auth: a session holds a client address only after a PAP accept for that same session",
                2: "ipcp-ack-after-auth: an IPCP Configure-Ack is sent only on a session with an earlier PAP accept",
                3: "mac-ownership: a frame whose source MAC is not the session's owner leaves that session's record unchanged"},
    "rule": "a case = one configuration (RADIUS configured or not, pool /29, /30 or none, DNS, PAP or CHAP offered) and one sequence of Ethernet frames pushed through the real receiveLoop of a pppoe.Server on an in-memory raw socket (RADIUS = the real radius.Client against a scripted loopback server); after every frame the frames sent, the RADIUS answer and the session table / MAC index / pool are compared with the Model and fed to the monitor. exhaustive stream: all sequences over the 76-symbol alphabet of the property (2 peers x session ids {1,2,7}) to depth 4 (quick) / 5 (thorough), a prefix being extended only when it reached a new server state; random stream: depth <= 40. distinct = distinct Coq case terms",
    "assumptions": [
        "PPPoE header Length consistent with the frame and parsable discovery tags (the byte-level bounds of handleDiscovery/handleSession are C09's); the PPP payload is arbitrary bytes",
        "the goroutine handlePADR starts (startLCPNegotiation) has sent its Configure-Request before the next frame is handled (the driver waits for it); the Model is sequential",
        "session expiry (cleanupLoop / CleanupExpired) is time-driven, not frame-driven, and outside the Model",
        "Session.SessionID (random hex) is assumed unique per session; the Model uses the creation index",
        "server.go dispatches no CHAP: a 'chap' server offers CHAP in LCP but only PAP can authenticate; the standalone Authenticator / IPCPStateMachine of auth.go / ipcp.go are not instantiated by the server and not part of this Model",
    ],
    "modelled": ["pkg/pppoe/server.go: receiveLoop destination filter, handleDiscovery dispatch, handlePADI, handlePADR, handlePADT, handleSession, startLCPNegotiation, handleLCP*, handlePAP, startIPCPNegotiation, handleIPCP*, handleIPPacket, sendPPPPacket counters, IPPool.Allocate/Release",
                 "pkg/pppoe/session.go: NewSession (fields observed), SessionManager.CreateSession id search, GetSession, RemoveSession, MAC index",
                 "pkg/pppoe/protocol.go: ParseLCPPacket, ParseLCPOptions, LCPPacket.Serialize, SerializeLCPOptions, FindTag (PPPoE header and tag parsing arrive decoded)"],
}

MANIFEST = {
    "text": "The Model of pppoe.Server's frame handlers (discovery, session dispatch, the LCP/PAP/IPCP handlers as server.go uses them, SessionManager, IPPool, RADIUS as an oracle) carries theorems over every frame sequence from any set of peers and every configuration: a session is shown Established, holds a client address, or gets an IPCP Configure-Ack only if an output of the history is a PAP accept of that same session (with RADIUS Access-Accept when RADIUS is configured), and a frame whose source MAC differs from a session's owner leaves that session's record exactly as it was; the monitor run on the real server's traces provably never rejects the Model. Reading predicted two defects; the check reproduced them and a third (Session.ClientMAC aliased the receive buffer) on the real code; three minimal fix commits close them, the theorems are proved at full strength on the corrected Model, and each repair is shown necessary by a vm_compute witness replayed from corpus/C04. Every run pushes exhaustive (depth 4/5, 2 peers, state-pruned) and random (depth 40) frame sequences through the real receiveLoop with a real radius.Client against a scripted RADIUS server and compares sent frames, RADIUS answers and the session table after every frame with the Model.",
    "note": "Theorems are about the hand-written Model; the tie to pkg/pppoe is the differential run (exhaustive to a bounded depth + sampled). Decoded PPPoE headers/tags are assumed (C09 covers the byte level); expiry by timer, the PADR goroutine's scheduling and CHAP (not implemented by server.go) are outside the Model.",
    "technique": "Rocq proof (per-session handler specification by case analysis + table invariant by induction over frame sequences + simulation of the monitor) + differential correspondence on the real receiveLoop with vm_compute evaluation of the Model and a trace monitor",
    "design_ref": "DESIGN.md §8 C04",
}
