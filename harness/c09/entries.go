// C09 driver, part 1: calling the REAL decoders / handlers under recover() and projecting what
// they did onto rows of numbers (the same projection Model/Codec*.v computes).
package main

import (
	"context"
	"encoding/binary"
	"fmt"
	"net"
	"net/http"
	"net/http/httptest"
	"strings"
	"sync"
	"time"

	"github.com/codelaboratoryltd/bng/pkg/dhcp"
	"github.com/codelaboratoryltd/bng/pkg/dhcpv6"
	"github.com/codelaboratoryltd/bng/pkg/ebpf"
	"github.com/codelaboratoryltd/bng/pkg/ha"
	"github.com/codelaboratoryltd/bng/pkg/nat"
	"github.com/codelaboratoryltd/bng/pkg/pppoe"
	"github.com/codelaboratoryltd/bng/pkg/ztp"
	"github.com/insomniacslk/dhcp/dhcpv4"
	"go.uber.org/zap"
	"go.uber.org/zap/zapcore"
	"go.uber.org/zap/zaptest/observer"
)

// Entry point numbers (shared with Model/CodecCheck.v).
const (
	EHeader     = 1
	ETags       = 2
	ELcpPacket  = 3
	ELcpOptions = 4
	EPADT       = 5
	EEcho       = 6
	EDiscovery  = 7  // params [sid_live]
	ESession    = 8  // params [sid_live; authenticated]
	ECreate     = 9  // params [zero_used; next; free ids...]
	ELcpRecv    = 10 // params [state; last_id]
	EIpcpRecv   = 11 // params [state; last_id]
	EIp6cpRecv  = 12 // params [state; last_id]
	EAuthRecv   = 13 // params [proto; chap_id]
	ECreateSeq  = 14 // params [mode (0 CreateSession, 1 PADR through handleDiscovery); n; zero_used; next; free ids...]
	ERecvFrame  = 15 // params [sid_live; authenticated]; d = Ethernet frame through the real receiveLoop, t = stale bytes behind it in the receive buffer
	ED6Message  = 20
	ED6Options  = 21
	ED6IANA     = 22
	ED6IAPD     = 23
	ED6IAAddr   = 24
	ED6IAPrefix = 25
	ED6DUID     = 26
	ED6Handle   = 27 // params = serialized server DUID
	ED6HandleSt = 28 // case params = setup [hit; IA_NA in the setup; IA_PD in the setup; pools exhausted]; Model params are derived at run time (effP)
	EDhcp4      = 40 // implementation only: raw DHCPv4 datagram -> dhcpv4.FromBytes (third-party oracle) -> dhcp.Server.handleDHCP
	ESseData    = 41 // implementation only: ha.HASyncer.handleSSEData on one payload (encoding/json is an oracle)
	EOpt82      = 30
	EVendor     = 31
	ESse        = 32
	EFtpOut     = 33
	EFtpIn      = 34
	ESipOut     = 35
)

var entryNames = map[int]string{
	EHeader: "pppoe.ParsePPPoEHeader", ETags: "pppoe.ParseTags", ELcpPacket: "pppoe.ParseLCPPacket",
	ELcpOptions: "pppoe.ParseLCPOptions", EPADT: "pppoe.ParsePADT", EEcho: "pppoe.ParseEchoPacket",
	EDiscovery: "pppoe.Server.handleDiscovery", ESession: "pppoe.Server.handleSession",
	ECreate: "pppoe.SessionManager.CreateSession", ELcpRecv: "pppoe.LCPStateMachine.ReceivePacket",
	EIpcpRecv: "pppoe.IPCPStateMachine.ReceivePacket", EIp6cpRecv: "pppoe.IPV6CPStateMachine.ReceivePacket",
	EAuthRecv: "pppoe.Authenticator.ReceivePacket", ECreateSeq: "pppoe.SessionManager.CreateSession(sequence)",
	ERecvFrame: "pppoe.Server.receiveLoop", ED6HandleSt: "dhcpv6.Server.handleMessage(lease state)",
	EDhcp4: "dhcp.Server.handleDHCP", ESseData: "ha.HASyncer.handleSSEData", ED6Message: "dhcpv6.ParseMessage", ED6Options: "dhcpv6.ParseOptions",
	ED6IANA: "dhcpv6.ParseIANA", ED6IAPD: "dhcpv6.ParseIAPD", ED6IAAddr: "dhcpv6.ParseIAAddress",
	ED6IAPrefix: "dhcpv6.ParseIAPrefix", ED6DUID: "dhcpv6.ParseDUID", ED6Handle: "dhcpv6.Server.handleMessage",
	EOpt82: "dhcp.parseOption82", EVendor: "ztp.parseVendorOptions", ESse: "ha.HASyncer.connectToStream",
	EFtpOut: "nat.FTPALG.ProcessOutbound", EFtpIn: "nat.FTPALG.ProcessInbound", ESipOut: "nat.SIPALG.ProcessOutbound",
}

// Out is the projected outcome of one call.
type Out struct {
	Class int // 0 ok, 1 error, 2 PANIC, 3 HANG
	Rows  [][]uint64
	Note  string // panic text (not compared)
}

const (
	COk = iota
	CErr
	CPanic
	CHang
)

func ok(rows ...[]uint64) Out { return Out{Class: COk, Rows: rows} }
func errOut() Out             { return Out{Class: CErr} }

func b2r(b []byte) []uint64 {
	r := make([]uint64, len(b))
	for i, x := range b {
		r[i] = uint64(x)
	}
	return r
}

// withTail returns a slice whose visible part is d and whose spare capacity holds tail
// (Go re-slicing past len reads those bytes).
func withTail(d, tail []byte) []byte {
	buf := make([]byte, len(d)+len(tail))
	copy(buf, d)
	copy(buf[len(d):], tail)
	return buf[:len(d)]
}

var nop = zap.NewNop()
var clientMAC = net.HardwareAddr{0x02, 0xaa, 0xbb, 0xcc, 0xdd, 0x01}
var serverMAC = net.HardwareAddr{0x02, 0x00, 0x00, 0x00, 0x00, 0x01}

// protect runs f under recover.
func protect(f func() Out) (o Out) {
	defer func() {
		if r := recover(); r != nil {
			o = Out{Class: CPanic, Note: fmt.Sprint(r)}
		}
	}()
	return f()
}

// guarded runs f under recover and a wall-clock limit; a call that does not return is a HANG
// (its goroutine is abandoned).
func guarded(limit time.Duration, f func() Out) Out {
	ch := make(chan Out, 1)
	go func() { ch <- protect(f) }()
	select {
	case o := <-ch:
		return o
	case <-time.After(limit):
		return Out{Class: CHang, Note: "no return within " + limit.String()}
	}
}

func tagsRows(tags []pppoe.Tag) [][]uint64 {
	var rows [][]uint64
	for _, t := range tags {
		rows = append(rows, append([]uint64{uint64(t.Type), uint64(t.Length)}, b2r(t.Value)...))
	}
	return rows
}

func lcpOptRows(opts []pppoe.LCPOption) [][]uint64 {
	var rows [][]uint64
	for _, o := range opts {
		rows = append(rows, append([]uint64{uint64(o.Type), uint64(o.Length)}, b2r(o.Data)...))
	}
	return rows
}

func d6OptRows(opts []dhcpv6.Option) [][]uint64 {
	var rows [][]uint64
	for _, o := range opts {
		rows = append(rows, append([]uint64{uint64(o.Code), uint64(o.Length)}, b2r(o.Data)...))
	}
	return rows
}

// ---- PPPoE server glue

type srvEnv struct {
	srv  *pppoe.Server
	sock *pppoe.VerifC09Socket
	base int
}

func waitFrames(sock *pppoe.VerifC09Socket, n int) {
	dl := time.Now().Add(2 * time.Second)
	for sock.Count() < n && time.Now().Before(dl) {
		time.Sleep(20 * time.Microsecond)
	}
}

func hdrBytes(code byte, sid int, payload []byte) []byte {
	h := &pppoe.PPPoEHeader{VerType: 0x11, Code: code, SessionID: uint16(sid), Length: uint16(len(payload))}
	return append(h.Serialize(), payload...)
}

func validPADR() []byte {
	tags := pppoe.SerializeTags([]pppoe.Tag{{Type: pppoe.TagServiceName, Value: []byte("internet")}, {Type: pppoe.TagACCookie, Value: []byte("0123456789abcdef")}})
	h := &pppoe.PPPoEHeader{VerType: 0x11, Code: pppoe.CodePADR, Length: uint16(len(tags))}
	return append(h.Serialize(), tags...)
}

// newSrv builds a server; with sidLive != 0 one session (id 1) is opened by a valid PADR first.
func newSrv(sidLive uint64, authed bool) *srvEnv {
	srv, sock, err := pppoe.VerifC09NewServer(pppoe.ServerConfig{Interface: "verif0", ServerIP: "10.0.0.1"}, serverMAC, nop)
	if err != nil {
		panic(err)
	}
	e := &srvEnv{srv: srv, sock: sock}
	if sidLive != 0 {
		srv.VerifC09HandleDiscovery(clientMAC, validPADR())
		waitFrames(sock, 2) // PADS + the asynchronous LCP Configure-Request
		if srv.VerifC09Sessions().GetSession(uint16(sidLive)) == nil {
			panic("setup: PADR did not create the expected session id")
		}
		if authed { // a valid PAP Authenticate-Request (no RADIUS client: accepted)
			pap := cp(1, 1, []byte{1, 'u', 1, 'p'})
			srv.VerifC09HandleSession(clientMAC, hdrBytes(0, int(sidLive), append([]byte{0xc0, 0x23}, pap...)))
			waitFrames(sock, 3)
		}
	}
	e.base = sock.Count()
	return e
}

// frameRows projects the frames sent after the baseline.
func (e *srvEnv) frameRows() [][]uint64 {
	var rows [][]uint64
	fr := e.sock.Frames()
	for _, f := range fr[e.base:] {
		if len(f) < 20 {
			rows = append(rows, []uint64{999})
			continue
		}
		et := binary.BigEndian.Uint16(f[12:14])
		code := uint64(f[15])
		sid := uint64(binary.BigEndian.Uint16(f[16:18]))
		plen := int(binary.BigEndian.Uint16(f[18:20]))
		pl := f[20:]
		if plen <= len(pl) {
			pl = pl[:plen]
		}
		if et == pppoe.EtherTypePPPoEDiscovery {
			tags, _ := pppoe.ParseTags(pl)
			row := []uint64{code, sid, uint64(len(tags))}
			if hu := pppoe.FindTag(tags, pppoe.TagHostUniq); hu != nil {
				row = append(row, b2r(hu.Value)...)
			}
			rows = append(rows, row)
			continue
		}
		if len(pl) < 6 {
			rows = append(rows, []uint64{998})
			continue
		}
		proto := uint64(binary.BigEndian.Uint16(pl[0:2]))
		pc, id := uint64(pl[2]), uint64(pl[3])
		data := pl[6:]
		if proto == pppoe.ProtocolLCP && pc == pppoe.LCPCodeConfigRequest { // server-originated: identifier and magic projected out
			rows = append(rows, []uint64{proto, pc, 0})
			continue
		}
		if proto == pppoe.ProtocolLCP && pc == pppoe.LCPCodeEchoReply { // magic projected out
			rows = append(rows, []uint64{proto, pc, id})
			continue
		}
		rows = append(rows, append([]uint64{proto, pc, id}, b2r(data)...))
	}
	return rows
}

func runDiscovery(p []uint64, d, tail []byte, session bool) Out {
	return runFrame(p, d, tail, session, false)
}

// runFrame delivers d to handleDiscovery / handleSession directly, or (loop) as a whole Ethernet
// frame through the real receiveLoop (hook VerifC09ReceiveFrames).
func runFrame(p []uint64, d, tail []byte, session, loop bool) Out {
	sid := uint64(0)
	if len(p) > 0 {
		sid = p[0]
	}
	e := newSrv(sid, len(p) > 1 && p[1] != 0)
	in := withTail(d, tail)
	if loop {
		session = !(len(d) >= 14 && d[12] == 0x88 && d[13] == 0x63)
	}
	return guarded(5*time.Second, func() Out {
		before := e.sock.Count()
		if loop {
			e.srv.VerifC09ReceiveFrames([][]byte{append([]byte(nil), d...)}, [][]byte{append([]byte(nil), tail...)})
			fr := e.sock.Frames()
			if !session && len(fr) > before && len(fr[before]) > 15 && fr[before][15] == pppoe.CodePADS {
				waitFrames(e.sock, before+2)
			}
		} else if session {
			e.srv.VerifC09HandleSession(clientMAC, in)
		} else {
			e.srv.VerifC09HandleDiscovery(clientMAC, in)
			// an accepted PADR starts LCP asynchronously: wait for that frame so it is not lost
			fr := e.sock.Frames()
			if len(fr) > before && len(fr[before]) > 15 && fr[before][15] == pppoe.CodePADS {
				waitFrames(e.sock, before+2)
			}
		}
		rows := e.frameRows()
		if !session { // drop the asynchronous LCP frame from the projection
			var r2 [][]uint64
			for _, r := range rows {
				if len(r) == 3 && r[0] == pppoe.ProtocolLCP {
					continue
				}
				r2 = append(r2, r)
			}
			rows = r2
		}
		rows = append(rows, []uint64{uint64(e.srv.GetSessionCount())})
		return ok(rows...)
	})
}

// ---- session id allocator

func runCreate(p []uint64) Out {
	if len(p) < 2 {
		return Out{Class: CErr}
	}
	m := pppoe.NewSessionManager()
	free := make([]uint16, 0, len(p)-2)
	for _, f := range p[2:] {
		free = append(free, uint16(f))
	}
	m.VerifC09Fill(1, 65535, free, uint16(p[1]))
	if p[0] != 0 {
		m.VerifC09Fill(0, 0, nil, uint16(p[1]))
	}
	return guarded(3*time.Second, func() Out {
		s, err := m.CreateSession(clientMAC, serverMAC)
		if err != nil {
			return errOut()
		}
		return ok([]uint64{uint64(s.ID), uint64(m.VerifC09NextID())})
	})
}

// runCreateSeq fills the session table to a boundary with the hook, then issues n more
// CreateSession calls (mode 0) or n ordinary PADRs through handleDiscovery (mode 1) under the time
// limit. One row per attempt: [1; id issued; cursor afterwards] or [0] (refused: table full).
func runCreateSeq(p []uint64) Out {
	if len(p) < 4 {
		return Out{Class: CErr}
	}
	mode, n, q := p[0], int(p[1]), p[2:]
	var m *pppoe.SessionManager
	var env *srvEnv
	if mode == 1 {
		env = newSrv(0, false)
		m = env.srv.VerifC09Sessions()
	} else {
		m = pppoe.NewSessionManager()
	}
	free := make([]uint16, 0, len(q)-2)
	for _, f := range q[2:] {
		free = append(free, uint16(f))
	}
	m.VerifC09Fill(1, 65535, free, uint16(q[1]))
	if q[0] != 0 {
		m.VerifC09Fill(0, 0, nil, uint16(q[1]))
	}
	return guarded(3*time.Second, func() Out {
		var rows [][]uint64
		for i := 0; i < n; i++ {
			mac := net.HardwareAddr{0x02, 0xaa, 0xbb, 0xcc, 0xee, byte(i + 1)}
			if mode == 0 {
				s, err := m.CreateSession(mac, serverMAC)
				if err != nil {
					rows = append(rows, []uint64{0})
				} else {
					rows = append(rows, []uint64{1, uint64(s.ID), uint64(m.VerifC09NextID())})
				}
				continue
			}
			before := env.sock.Count()
			env.srv.VerifC09HandleDiscovery(mac, validPADR())
			fr := env.sock.Frames()
			if len(fr) > before && len(fr[before]) >= 18 && fr[before][15] == pppoe.CodePADS {
				waitFrames(env.sock, before+2) // the asynchronous LCP Configure-Request
				rows = append(rows, []uint64{1, uint64(binary.BigEndian.Uint16(fr[before][16:18])), uint64(m.VerifC09NextID())})
			} else {
				rows = append(rows, []uint64{0})
			}
		}
		return ok(rows...)
	})
}

// ---- the three automata

type sentPkt struct {
	proto uint16
	data  []byte
}

type recorder struct {
	mu   sync.Mutex
	pkts []sentPkt
}

func (r *recorder) send(proto uint16, data []byte) {
	r.mu.Lock()
	r.pkts = append(r.pkts, sentPkt{proto, append([]byte(nil), data...)})
	r.mu.Unlock()
}

func cp(code, id byte, data []byte) []byte {
	return (&pppoe.LCPPacket{Code: code, Identifier: id, Data: data}).Serialize()
}

// ownMagic is the LCP magic number the harness configures (so that "own magic" packets exist).
const ownMagic = 0x5a5a0001

type automaton interface {
	Up()
	Open()
	Close()
	ReceivePacket([]byte) error
	VerifC09LastIdentifier() uint8
	VerifC09StopTimers()
}

// driveTo brings a fresh automaton to the RFC 1661 state number st (0..9) by a fixed event prefix.
func driveTo(a automaton, st int) {
	ack := func() { a.ReceivePacket(cp(2, a.VerifC09LastIdentifier(), nil)) }
	req := func() { a.ReceivePacket(cp(1, 0x55, nil)) } // empty option list: acknowledged
	switch st {
	case 0:
	case 1:
		a.Open()
	case 2:
		a.Up()
	case 3:
		a.Up()
		a.Open()
		a.ReceivePacket(cp(5, 1, nil))
	case 4:
		a.Up()
		a.Open()
		a.Close()
	case 5:
		a.Up()
		a.Open()
		req()
		ack()
		a.ReceivePacket(cp(5, 1, nil))
	case 6:
		a.Up()
		a.Open()
	case 7:
		a.Up()
		a.Open()
		ack()
	case 8:
		a.Up()
		a.Open()
		req()
	case 9:
		a.Up()
		a.Open()
		req()
		ack()
	}
}

func runAutomaton(e int, p []uint64, d []byte) Out {
	st := 9
	if len(p) > 0 {
		st = int(p[0])
	}
	rec := &recorder{}
	var a automaton
	var state func() int
	switch e {
	case ELcpRecv:
		cfg := pppoe.DefaultLCPConfig()
		cfg.RestartTimer = time.Hour
		cfg.MagicNumber = ownMagic
		m, err := pppoe.NewLCPStateMachine(cfg, rec.send, nop)
		if err != nil {
			panic(err)
		}
		a, state = m, func() int { return int(m.GetState()) }
	case EIpcpRecv:
		cfg := pppoe.DefaultIPCPConfig()
		cfg.RestartTimer = time.Hour
		cfg.PeerIP = net.ParseIP("10.0.0.77")
		m := pppoe.NewIPCPStateMachine(cfg, "s1", rec.send, nop)
		a, state = m, func() int { return int(m.GetState()) }
	default:
		cfg, err := pppoe.DefaultIPV6CPConfig()
		if err != nil {
			panic(err)
		}
		cfg.RestartTimer = time.Hour
		m, err := pppoe.NewIPV6CPStateMachine(cfg, rec.send, nop)
		if err != nil {
			panic(err)
		}
		a, state = m, func() int { return int(m.GetState()) }
	}
	defer a.VerifC09StopTimers()
	driveTo(a, st)
	if state() != st {
		panic(fmt.Sprintf("setup: automaton %d reached state %d, wanted %d", e, state(), st))
	}
	if len(p) > 1 && uint64(a.VerifC09LastIdentifier()) != p[1] {
		panic(fmt.Sprintf("setup: lastIdentifier %d, case says %d", a.VerifC09LastIdentifier(), p[1]))
	}
	rec.mu.Lock()
	base := len(rec.pkts)
	rec.mu.Unlock()
	in := append([]byte(nil), d...)
	return guarded(2*time.Second, func() Out {
		err := a.ReceivePacket(in)
		// follow-up call on the same machine inside the time limit: a handler that returned but
		// left the automaton's lock held (or deadlocked on it) shows up as a HANG here
		after := state()
		if err != nil {
			return errOut()
		}
		var rows [][]uint64
		rec.mu.Lock()
		defer rec.mu.Unlock()
		if e == ELcpRecv {
			for _, pk := range rec.pkts[base:] {
				if len(pk.data) >= 4 && pk.data[0] == pppoe.LCPCodeTermRequest { // identifier projected out
					rows = append(rows, append([]uint64{5}, b2r(pk.data[4:])...))
				}
			}
		}
		stateRow := len(in) > 0 && ((e == ELcpRecv && (in[0] == 7 || in[0] == 8)) ||
			(e == EIpcpRecv && (in[0] == 0 || in[0] > 6)) || (e == EIp6cpRecv && (in[0] == 0 || in[0] > 6)))
		if e == ELcpRecv {
			for _, pk := range rec.pkts[base:] {
				if len(pk.data) >= 4 && pk.data[0] == pppoe.LCPCodeEchoReply {
					rows = append(rows, []uint64{10, uint64(pk.data[1])})
					pl := pk.data[4:]
					if len(pl) >= 4 {
						pl = pl[4:] // our magic number projected out
					}
					rows = append(rows, b2r(pl))
				}
				if len(pk.data) >= 4 && pk.data[0] == pppoe.LCPCodeCodeReject {
					rows = append(rows, []uint64{7})
					rows = append(rows, b2r(pk.data[4:]))
				}
			}
		}
		if stateRow {
			rows = append(rows, []uint64{99, uint64(after)})
		}
		return ok(rows...)
	})
}

// lastIDFor returns the lastIdentifier a fresh automaton has after driveTo(st) (deterministic).
func lastIDFor(e, st int) uint64 {
	rec := &recorder{}
	var a automaton
	switch e {
	case ELcpRecv:
		cfg := pppoe.DefaultLCPConfig()
		cfg.RestartTimer = time.Hour
		cfg.MagicNumber = ownMagic
		m, _ := pppoe.NewLCPStateMachine(cfg, rec.send, nop)
		a = m
	case EIpcpRecv:
		cfg := pppoe.DefaultIPCPConfig()
		cfg.RestartTimer = time.Hour
		a = pppoe.NewIPCPStateMachine(cfg, "s1", rec.send, nop)
	default:
		cfg, _ := pppoe.DefaultIPV6CPConfig()
		cfg.RestartTimer = time.Hour
		m, _ := pppoe.NewIPV6CPStateMachine(cfg, rec.send, nop)
		a = m
	}
	defer a.VerifC09StopTimers()
	driveTo(a, st)
	return uint64(a.VerifC09LastIdentifier())
}

// ---- PAP / CHAP

func runAuth(p []uint64, d []byte) Out {
	proto := uint16(pppoe.ProtocolPAP)
	if len(p) > 0 {
		proto = uint16(p[0])
	}
	rec := &recorder{}
	cfg := pppoe.DefaultAuthConfig()
	if proto == pppoe.ProtocolCHAP {
		cfg.Protocol = pppoe.ProtocolCHAP
	}
	a := pppoe.NewAuthenticator(cfg, nil, rec.send, nop)
	if err := a.Start(); err != nil {
		panic(err)
	}
	if len(p) > 1 && uint64(a.VerifC09ChapID()) != p[1] {
		panic("setup: chap id differs from the case")
	}
	base := len(rec.pkts)
	in := append([]byte(nil), d...)
	return guarded(5*time.Second, func() Out {
		err := a.ReceivePacket(proto, in)
		_ = a.GetState() // follow-up call: the authenticator's lock must be free again
		if err != nil {
			return errOut()
		}
		var rows [][]uint64
		rec.mu.Lock()
		defer rec.mu.Unlock()
		for _, pk := range rec.pkts[base:] {
			if len(pk.data) >= 2 {
				rows = append(rows, []uint64{uint64(pk.data[0]), uint64(pk.data[1])})
				rows = append(rows, b2r([]byte(a.GetUsername())))
			}
		}
		return ok(rows...)
	})
}

// ---- DHCPv6 server glue

var d6ClosedConn *net.UDPConn

func d6Server() *dhcpv6.Server {
	s, err := dhcpv6.NewServer(dhcpv6.ServerConfig{Interface: "lo", AddressPool: "2001:db8:1::/64", PrefixPool: "2001:db8:100::/40",
		DelegationLength: 56, DNSServers: []string{"2001:4860:4860::8888"}}, nop)
	if err != nil {
		panic(err)
	}
	if d6ClosedConn == nil {
		c, err := net.ListenUDP("udp4", &net.UDPAddr{IP: net.IPv4(127, 0, 0, 1)})
		if err != nil {
			panic(err)
		}
		c.Close() // replies fail with "use of closed network connection": nothing reaches the network
		d6ClosedConn = c
	}
	s.VerifC09SetConn(d6ClosedConn)
	return s
}

var d6DUID []byte

func serverDUID() []byte {
	if d6DUID == nil {
		d6DUID = d6Server().VerifC09ServerDUID()
	}
	return d6DUID
}

// d6Shared is reused where the outcome cannot depend on earlier datagrams (inputs shorter than a
// message header, implementation-only sweeps where only PANIC/HANG is looked at); every compared
// case gets a fresh server (NewServer does a netlink interface lookup, which is slow).
var d6Shared *dhcpv6.Server

func runD6Handle(d []byte, fresh bool) Out {
	var s *dhcpv6.Server
	if fresh && len(d) >= 4 {
		s = d6Server()
	} else {
		if d6Shared == nil {
			d6Shared = d6Server()
		}
		s = d6Shared
	}
	in := append([]byte(nil), d...)
	return guarded(5*time.Second, func() Out {
		b := s.GetStats()
		if !s.VerifC09HandleDatagram(in, &net.UDPAddr{IP: net.IPv4(127, 0, 0, 9), Port: 546}) {
			return errOut()
		}
		a := s.GetStats()
		return ok([]uint64{a["advertises_sent"] - b["advertises_sent"], a["replies_sent"] - b["replies_sent"]})
	})
}

// effP holds the Model parameters of the last ED6HandleSt call (derived from the real server).
var effP []uint64

var d6Prepared = []byte{0, 1, 0xaa, 0xbb}
var d6StServers = map[string]*dhcpv6.Server{}

func d6msg(ty byte, parts ...[]byte) []byte {
	o := []byte{ty, 9, 9, 9}
	for _, p := range parts {
		o = append(o, p...)
	}
	return o
}

func d6o(code int, data []byte) []byte {
	return append([]byte{byte(code >> 8), byte(code), byte(len(data) >> 8), byte(len(data))}, data...)
}

// runD6HandleSt puts a real server into the lease state described by setup
// [hit; IA_NA; IA_PD; exhausted] using real datagrams only, then delivers d.
func runD6HandleSt(setup []uint64, d []byte) Out {
	g := func(i int) bool { return len(setup) > i && setup[i] != 0 }
	hit, wantA, wantP, exh := g(0), g(1), g(2), g(3)
	cfg := dhcpv6.ServerConfig{Interface: "lo", AddressPool: "2001:db8:1::/64", PrefixPool: "2001:db8:100::/40",
		DelegationLength: 56, DNSServers: []string{"2001:4860:4860::8888"}}
	if exh {
		cfg.AddressPool, cfg.PrefixPool = "2001:db8:1::/126", "2001:db8:100::/54" // 3 addresses, 4 prefixes
	}
	// implementation-only sweeps (only PANIC / HANG is looked at) reuse one server per setup and
	// replay the setup datagrams before each input; every compared case gets a fresh server
	key := fmt.Sprint(hit, wantA, wantP, exh)
	s := d6StServers[key]
	if s == nil || !implOnlyMode {
		var err error
		s, err = dhcpv6.NewServer(cfg, nop)
		if err != nil {
			panic(err)
		}
		if d6ClosedConn == nil {
			d6Server()
		}
		s.VerifC09SetConn(d6ClosedConn)
		if implOnlyMode {
			d6StServers[key] = s
		}
	}
	peer := &net.UDPAddr{IP: net.IPv4(127, 0, 0, 9), Port: 546}
	sd := s.VerifC09ServerDUID()
	iana := d6o(3, make([]byte, 12))
	iapd := d6o(25, make([]byte, 12))
	if exh { // four other clients take every address and prefix
		for k := 0; k < 4; k++ {
			s.VerifC09HandleDatagram(d6msg(3, d6o(1, []byte{0xee, 0xee, byte(k)}), d6o(2, sd), iana, iapd), peer)
		}
	}
	if hit {
		parts := [][]byte{d6o(1, d6Prepared), d6o(2, sd)}
		if wantA {
			parts = append(parts, iana)
		}
		if wantP {
			parts = append(parts, iapd)
		}
		s.VerifC09HandleDatagram(d6msg(3, parts...), peer)
	}
	b2u := func(b bool) uint64 {
		if b {
			return 1
		}
		return 0
	}
	nl := s.GetStats()["active_leases"]
	effP = append([]uint64{b2u(hit), b2u(hit && wantA && !exh), b2u(hit && wantP && !exh), nl, b2u(exh), uint64(len(sd))}, append(b2r(sd), b2r(d6Prepared)...)...)
	in := append([]byte(nil), d...)
	return guarded(5*time.Second, func() Out {
		b := s.GetStats()
		if !s.VerifC09HandleDatagram(in, peer) {
			return errOut()
		}
		a := s.GetStats()
		return ok([]uint64{a["advertises_sent"] - b["advertises_sent"], a["replies_sent"] - b["replies_sent"], a["active_leases"]})
	})
}

// ---- DHCPv4 handler glue behind the third-party parser (implementation only)

var dhcp4Srv *dhcp.Server

func dhcp4Server() *dhcp.Server {
	if dhcp4Srv != nil {
		return dhcp4Srv
	}
	loader, err := ebpf.NewLoader("lo", nop) // never Load()ed: its map calls fail and are logged
	if err != nil {
		panic(err)
	}
	pm := dhcp.NewPoolManager(nil, nop)
	p, err := dhcp.NewPool(dhcp.PoolConfig{ID: 1, Name: "p", Network: "192.0.2.0/28", Gateway: "192.0.2.1",
		DNSServers: []string{"192.0.2.53"}, LeaseTime: time.Hour})
	if err != nil {
		panic(err)
	}
	if err := pm.AddPool(p); err != nil {
		panic(err)
	}
	s, err := dhcp.NewServer(dhcp.ServerConfig{Interface: "lo", ServerIP: net.IPv4(192, 0, 2, 1)}, loader, pm, nop)
	if err != nil {
		panic(err)
	}
	dhcp4Srv = s
	return s
}

// runDhcp4: the datagram goes through insomniacslk's parser (oracle); what parses is handed to the
// real handleDHCP (one shared server: the lease table fills up and empties as the stream goes on,
// the /28 pool is exhausted most of the time).
func runDhcp4(d []byte) Out {
	s := dhcp4Server()
	in := append([]byte(nil), d...)
	return guarded(5*time.Second, func() Out {
		req, err := dhcpv4.FromBytes(in)
		if err != nil {
			return errOut()
		}
		replies, _, _ := s.VerifC02Handle(req, &net.UDPAddr{IP: net.IPv4(192, 0, 2, 200), Port: 68})
		return ok([]uint64{uint64(len(replies))})
	})
}

var sseDataSyncer *ha.HASyncer

func runSseData(d []byte) Out {
	if sseDataSyncer == nil {
		cfg := ha.DefaultSyncConfig()
		cfg.NodeID = "standby"
		cfg.Role = ha.RoleStandby
		sseDataSyncer = ha.NewHASyncer(cfg, &memStore{m: map[string]ha.SessionState{}}, nop)
	}
	in := append([]byte(nil), d...)
	return guarded(5*time.Second, func() Out {
		if err := sseDataSyncer.VerifC09HandleSSEData(in); err != nil {
			return errOut()
		}
		_ = sseDataSyncer.VerifC09MessagesReceived() // follow-up call: the syncer's lock must be free
		return ok()
	})
}

// ---- HA SSE reader

type memStore struct {
	mu sync.Mutex
	m  map[string]ha.SessionState
}

func (s *memStore) GetSession(id string) (*ha.SessionState, bool) {
	s.mu.Lock()
	defer s.mu.Unlock()
	v, ok := s.m[id]
	return &v, ok
}
func (s *memStore) GetAllSessions() []ha.SessionState { return nil }
func (s *memStore) PutSession(x *ha.SessionState) error {
	s.mu.Lock()
	s.m[x.SessionID] = *x
	s.mu.Unlock()
	return nil
}
func (s *memStore) DeleteSession(id string) error {
	s.mu.Lock()
	delete(s.m, id)
	s.mu.Unlock()
	return nil
}
func (s *memStore) GetSessionCount() int { return len(s.m) }

func runSse(d []byte) Out {
	body := append([]byte(nil), d...)
	ts := httptest.NewServer(http.HandlerFunc(func(w http.ResponseWriter, r *http.Request) {
		w.Header().Set("Content-Type", "text/event-stream")
		w.WriteHeader(200)
		w.Write(body)
	}))
	defer ts.Close()
	core, logs := observer.New(zapcore.WarnLevel)
	cfg := ha.DefaultSyncConfig()
	cfg.NodeID = "standby"
	cfg.Role = ha.RoleStandby
	cfg.Partner = &ha.PartnerInfo{NodeID: "active", Endpoint: strings.TrimPrefix(ts.URL, "http://")}
	cfg.RequestTimeout = 5 * time.Second
	sy := ha.NewHASyncer(cfg, &memStore{m: map[string]ha.SessionState{}}, zap.New(core))
	return guarded(8*time.Second, func() Out {
		sy.VerifC09ConnectToStream()
		n := sy.VerifC09MessagesReceived()
		n += uint64(logs.FilterMessage("Failed to handle SSE data").Len())
		return ok([]uint64{n})
	})
}

// ---- NAT ALG

var algOnce sync.Once
var algH *nat.ALGHandler

func algHandler() *nat.ALGHandler {
	algOnce.Do(func() {
		m, err := nat.NewManager(nat.ManagerConfig{Interface: "verif0"}, nop)
		if err != nil {
			panic(err)
		}
		algH = nat.NewALGHandler(m, nop)
	})
	return algH
}

func runAlg(e int, d []byte) Out {
	h := algHandler()
	conn := &nat.ALGConnection{SubscriberID: 1, PrivateIP: net.IPv4(10, 0, 0, 5), PrivatePort: 40000, PublicIP: net.IPv4(203, 0, 113, 7),
		PublicPort: 2000, DestIP: net.IPv4(198, 51, 100, 1), DestPort: 21, Protocol: 6}
	in := append([]byte(nil), d...)
	return guarded(5*time.Second, func() Out {
		var out []byte
		var err error
		switch e {
		case EFtpOut:
			out, err = h.ProcessPacket(nat.ALGTypeFTP, conn, in, true)
		case EFtpIn:
			out, err = h.ProcessPacket(nat.ALGTypeFTP, conn, in, false)
		default:
			out, err = h.ProcessPacket(nat.ALGTypeSIP, conn, in, true)
		}
		if err != nil {
			return errOut()
		}
		return ok(b2r(out))
	})
}

// ---- dispatcher

// implOnlyMode is set while the driver sweeps inputs on the implementation only.
var implOnlyMode bool

// what the driver is executing right now (read by the watchdog in main.go)
var curMu sync.Mutex
var curDesc *Desc
var curSince time.Time

// Call runs entry e of the real code on (params, d, tail).
func Call(e int, p []uint64, d, tail []byte) Out {
	curMu.Lock()
	curDesc = &Desc{E: e, P: p, D: append([]byte(nil), d...), T: append([]byte(nil), tail...)}
	curSince = time.Now()
	curMu.Unlock()
	defer func() { curMu.Lock(); curDesc = nil; curMu.Unlock() }()
	return call1(e, p, d, tail)
}

func call1(e int, p []uint64, d, tail []byte) Out {
	switch e {
	case EDiscovery:
		return runDiscovery(p, d, tail, false)
	case ESession:
		return runDiscovery(p, d, tail, true)
	case ECreate:
		return runCreate(p)
	case ECreateSeq:
		return runCreateSeq(p)
	case ERecvFrame:
		return runFrame(p, d, tail, false, true)
	case ED6HandleSt:
		return runD6HandleSt(p, d)
	case EDhcp4:
		return runDhcp4(d)
	case ESseData:
		return runSseData(d)
	case ELcpRecv, EIpcpRecv, EIp6cpRecv:
		return runAutomaton(e, p, d)
	case EAuthRecv:
		return runAuth(p, d)
	case ED6Handle:
		return runD6Handle(d, !implOnlyMode)
	case ESse:
		return runSse(d)
	case EFtpOut, EFtpIn, ESipOut:
		return runAlg(e, d)
	}
	in := withTail(d, tail)
	return protect(func() Out { return callPure(e, in) })
}

// callPure: the stateless decoders, called on the driver's own goroutine (no per-call goroutine);
// the watchdog in main.go turns a call that does not return within 10 s into a HANG case.
func callPure(e int, in []byte) Out {
	switch e {
	case EHeader:
		h, err := pppoe.ParsePPPoEHeader(in)
		if err != nil {
			return errOut()
		}
		return ok([]uint64{uint64(h.VerType), uint64(h.Code), uint64(h.SessionID), uint64(h.Length)})
	case ETags:
		t, err := pppoe.ParseTags(in)
		if err != nil {
			return errOut()
		}
		return ok(tagsRows(t)...)
	case ELcpPacket:
		p, err := pppoe.ParseLCPPacket(in)
		if err != nil {
			return errOut()
		}
		return ok([]uint64{uint64(p.Code), uint64(p.Identifier), uint64(p.Length)}, b2r(p.Data))
	case ELcpOptions:
		o, err := pppoe.ParseLCPOptions(in)
		if err != nil {
			return errOut()
		}
		return ok(lcpOptRows(o)...)
	case EPADT:
		sid, tags, err := pppoe.ParsePADT(in)
		if err != nil {
			return errOut()
		}
		return ok(append([][]uint64{{uint64(sid)}}, tagsRows(tags)...)...)
	case EEcho:
		magic, pl, err := pppoe.ParseEchoPacket(in)
		if err != nil {
			return errOut()
		}
		return ok([]uint64{uint64(magic)}, b2r(pl))
	case ED6Message:
		m, err := dhcpv6.ParseMessage(in)
		if err != nil {
			return errOut()
		}
		return ok(append([][]uint64{{uint64(m.Type), uint64(m.TransactionID[0]), uint64(m.TransactionID[1]), uint64(m.TransactionID[2])}}, d6OptRows(m.Options)...)...)
	case ED6Options:
		o, err := dhcpv6.ParseOptions(in)
		if err != nil {
			return errOut()
		}
		return ok(d6OptRows(o)...)
	case ED6IANA:
		x, err := dhcpv6.ParseIANA(in)
		if err != nil {
			return errOut()
		}
		return ok(append([][]uint64{{uint64(x.IAID), uint64(x.T1), uint64(x.T2)}}, d6OptRows(x.Options)...)...)
	case ED6IAPD:
		x, err := dhcpv6.ParseIAPD(in)
		if err != nil {
			return errOut()
		}
		return ok(append([][]uint64{{uint64(x.IAID), uint64(x.T1), uint64(x.T2)}}, d6OptRows(x.Options)...)...)
	case ED6IAAddr:
		x, err := dhcpv6.ParseIAAddress(in)
		if err != nil {
			return errOut()
		}
		return ok(append([][]uint64{append(b2r(x.Address), uint64(x.PreferredLifetime), uint64(x.ValidLifetime))}, d6OptRows(x.Options)...)...)
	case ED6IAPrefix:
		x, err := dhcpv6.ParseIAPrefix(in)
		if err != nil {
			return errOut()
		}
		return ok(append([][]uint64{append([]uint64{uint64(x.PreferredLifetime), uint64(x.ValidLifetime), uint64(x.PrefixLength)}, b2r(x.Prefix)...)}, d6OptRows(x.Options)...)...)
	case ED6DUID:
		x, err := dhcpv6.ParseDUID(in)
		if err != nil {
			return errOut()
		}
		return ok([]uint64{uint64(x.Type)}, b2r(x.Data))
	case EOpt82:
		c, r, present := dhcp.VerifC09ParseOption82(in)
		if !present {
			return ok([]uint64{0})
		}
		return ok([]uint64{1}, b2r(c), b2r(r))
	case EVendor:
		return ok(b2r([]byte(ztp.VerifC09ParseVendorOptions(in))))
	}
	panic(fmt.Sprintf("unknown entry %d", e))
}

var _ = context.Background
