// C09 correspondence driver: every network-facing decoder / handler of the anchored packages is
// called on the REAL code under recover() (and a wall-clock limit where it has state or loops that
// do not consume input); outcome class (ok / error / PANIC / HANG) and the projected result are
// written as Coq cases and compared with Model/Codec*.v by Model/CodecCheck.v.
//
// Volume: most generated inputs are executed on the implementation only (a PANIC or HANG there is
// emitted as an ordinary replayable case, which the Model then contradicts); a sample of every
// generator class plus all exhaustive small spaces go through the Model as well.
package main

import (
	"encoding/binary"
	"fmt"
	"os"
	"sort"
	"strings"
	"time"

	"verifharness/vh"

	"github.com/codelaboratoryltd/bng/pkg/dhcpv6"
	"github.com/codelaboratoryltd/bng/pkg/pppoe"
)

type Exh struct {
	Len    int    `json:"len"`
	Prefix []byte `json:"prefix"`
}

type Desc struct {
	E int      `json:"e"`
	P []uint64 `json:"p,omitempty"`
	D []byte   `json:"d"`
	T []byte   `json:"t,omitempty"`
	X *Exh     `json:"x,omitempty"`
}

func nlist(p []uint64) string {
	s := make([]string, len(p))
	for i, x := range p {
		s[i] = vh.N(x)
	}
	return "[" + strings.Join(s, ";") + "]"
}

func outCoq(o Out) string {
	switch o.Class {
	case CErr:
		return "OErr"
	case CPanic:
		return "OPanic"
	case CHang:
		return "OHang"
	}
	rows := make([]string, len(o.Rows))
	for i, r := range o.Rows {
		rows[i] = nlist(r)
	}
	return "OOk [" + strings.Join(rows, ";") + "]"
}

func r2b(r []uint64) []byte {
	b := make([]byte, len(r))
	for i, x := range r {
		b[i] = byte(x)
	}
	return b
}

var className = []string{"ok", "error", "PANIC", "HANG"}

// fingerprint of an outcome, folded into the checksum of an exhaustive block (same in CodecCheck.v)
func fp(o Out) uint64 {
	const mask = 0xffffffff
	h := uint64(o.Class)
	if o.Class == COk {
		for _, r := range o.Rows {
			h = (h*31 + uint64(len(r)) + 7) & mask
			for _, x := range r {
				h = (h*31 + x) & mask
			}
		}
	}
	return h
}

// exhaust runs entry e on every byte string of length x.Len that starts with x.Prefix (lexicographic order).
func exhaust(e int, p []uint64, x Exh) (Out, []Desc) {
	var cnt [4]uint64
	var sum uint64
	var bad []Desc
	buf := make([]byte, x.Len)
	copy(buf, x.Prefix)
	var rec func(i int)
	rec = func(i int) {
		if i == x.Len {
			o := Call(e, p, buf, nil)
			if (e == EFtpOut || e == EFtpIn || e == ESipOut) && o.Class == COk && (len(o.Rows) != 1 || string(r2b(o.Rows[0])) != string(buf)) {
				o.Rows = [][]uint64{{777}} // modified payload inside an exhaustive block: shows up as a checksum difference
			}
			cnt[o.Class]++
			sum = (sum*1000003 + fp(o)) & 0xffffffff
			if o.Class >= CPanic && len(bad) < 3 {
				bad = append(bad, Desc{E: e, P: p, D: append([]byte(nil), buf...)})
			}
			return
		}
		for v := 0; v < 256; v++ {
			buf[i] = byte(v)
			rec(i + 1)
		}
	}
	rec(len(x.Prefix))
	return ok([]uint64{cnt[0], cnt[1], cnt[2], cnt[3], sum}), bad
}

func run(d Desc) vh.Case {
	name := entryNames[d.E]
	if d.X != nil {
		o, _ := exhaust(d.E, d.P, *d.X)
		coq := fmt.Sprintf("(Exhaust %d %s %d %s, %s)", d.E, nlist(d.P), d.X.Len, vh.Bytes(d.X.Prefix), outCoq(o))
		return vh.Case{Coq: "[" + coq + "]", Desc: d, Tags: []string{"entry:" + name, "gen:exhaustive"}}
	}
	o := Call(d.E, d.P, d.D, d.T)
	p := d.P
	if d.E == ED6HandleSt { // the Model's parameters (lease count, server DUID) are read from the real server
		p = effP
	}
	if d.E == EFtpOut || d.E == EFtpIn || d.E == ESipOut {
		// regexp / header matching and the rewriting it triggers are an oracle: the Model is told
		// whether the payload was modified and covers the pass-through path only
		p = []uint64{0}
		if o.Class == COk && (len(o.Rows) != 1 || string(r2b(o.Rows[0])) != string(d.D)) {
			p = []uint64{1}
			o.Rows = nil
		}
	}
	coq := fmt.Sprintf("(Call %d %s %s %s, %s)", d.E, nlist(p), vh.Bytes(d.D), vh.Bytes(d.T), outCoq(o))
	return vh.Case{Coq: "[" + coq + "]", Desc: d, Tags: []string{"entry:" + name, "outcome:" + className[o.Class]}}
}

// ---------------------------------------------------------------- generators

func be16(v int) []byte { return []byte{byte(v >> 8), byte(v)} }
func be32(v uint32) []byte {
	b := make([]byte, 4)
	binary.BigEndian.PutUint32(b, v)
	return b
}
func cat(parts ...[]byte) []byte {
	var o []byte
	for _, p := range parts {
		o = append(o, p...)
	}
	return o
}

func randTags(r *vh.Rng) []pppoe.Tag {
	types := []uint16{pppoe.TagServiceName, pppoe.TagACName, pppoe.TagHostUniq, pppoe.TagACCookie, pppoe.TagVendorSpecific, pppoe.TagRelaySessionID, pppoe.TagGenericErr, 0x7777}
	var t []pppoe.Tag
	for i, n := 0, r.Intn(5); i < n; i++ {
		ty := types[r.Intn(len(types))]
		v := r.Bytes(r.Intn(9))
		if ty == pppoe.TagServiceName && r.Chance(2, 3) {
			v = []byte("internet")
			if r.Chance(1, 4) {
				v = nil
			}
		}
		t = append(t, pppoe.Tag{Type: ty, Value: v})
	}
	if r.Chance(1, 6) {
		t = append(t, pppoe.Tag{Type: pppoe.TagEndOfList})
		t = append(t, pppoe.Tag{Type: pppoe.TagHostUniq, Value: r.Bytes(3)})
	}
	return t
}

func randLcpOpts(r *vh.Rng, kind int) []byte {
	var opts []pppoe.LCPOption
	for i, n := 0, r.Intn(5); i < n; i++ {
		switch kind {
		case 0: // LCP
			switch r.Intn(7) {
			case 0:
				opts = append(opts, pppoe.LCPOption{Type: 1, Data: be16([]int{1492, 1500, 63, 64, 296}[r.Intn(5)])})
			case 1:
				opts = append(opts, pppoe.LCPOption{Type: 5, Data: r.Bytes(4)})
			case 2:
				opts = append(opts, pppoe.LCPOption{Type: 3, Data: []byte{0xc0, 0x23}})
			case 3:
				opts = append(opts, pppoe.LCPOption{Type: 3, Data: []byte{0xc2, 0x23, 5}})
			case 4:
				opts = append(opts, pppoe.LCPOption{Type: 7})
			case 5:
				opts = append(opts, pppoe.LCPOption{Type: 8})
			default:
				opts = append(opts, pppoe.LCPOption{Type: byte(r.Intn(256)), Data: r.Bytes(r.Intn(6))})
			}
		case 1: // IPCP
			switch r.Intn(5) {
			case 0:
				opts = append(opts, pppoe.LCPOption{Type: 3, Data: []byte{0, 0, 0, 0}})
			case 1:
				opts = append(opts, pppoe.LCPOption{Type: 3, Data: []byte{10, 0, 0, 77}})
			case 2:
				opts = append(opts, pppoe.LCPOption{Type: 129, Data: r.Bytes(4)})
			case 3:
				opts = append(opts, pppoe.LCPOption{Type: 131, Data: []byte{0, 0, 0, 0}})
			default:
				opts = append(opts, pppoe.LCPOption{Type: byte(r.Intn(256)), Data: r.Bytes(r.Intn(6))})
			}
		default: // IPv6CP
			switch r.Intn(3) {
			case 0:
				opts = append(opts, pppoe.LCPOption{Type: 1, Data: r.Bytes(8)})
			case 1:
				opts = append(opts, pppoe.LCPOption{Type: 1, Data: make([]byte, 8)})
			default:
				opts = append(opts, pppoe.LCPOption{Type: byte(r.Intn(4)), Data: r.Bytes(r.Intn(10))})
			}
		}
	}
	return pppoe.SerializeLCPOptions(opts)
}

func hdr(code byte, sid int, payload []byte) []byte {
	return cat([]byte{0x11, code}, be16(sid), be16(len(payload)), payload)
}

func d6opt(code int, data []byte) []byte { return cat(be16(code), be16(len(data)), data) }

func randD6Opts(r *vh.Rng, depth int) []byte {
	var o []byte
	for i, n := 0, r.Intn(5); i < n; i++ {
		switch r.Intn(9) {
		case 0:
			o = append(o, d6opt(dhcpv6.OptClientID, cat(be16(1), r.Bytes(r.Intn(10))))...)
		case 1:
			if r.Bool() {
				o = append(o, d6opt(dhcpv6.OptServerID, serverDUID())...)
			} else {
				o = append(o, d6opt(dhcpv6.OptServerID, r.Bytes(r.Intn(6)))...)
			}
		case 2:
			inner := []byte{}
			if depth > 0 && r.Bool() {
				inner = d6opt(dhcpv6.OptIAAddr, cat(r.Bytes(16), be32(3600), be32(7200), randD6Opts(r, 0)))
			}
			o = append(o, d6opt(dhcpv6.OptIANA, cat(be32(uint32(r.Intn(9))), be32(1800), be32(2880), inner))...)
		case 3:
			inner := []byte{}
			if depth > 0 && r.Bool() {
				inner = d6opt(dhcpv6.OptIAPrefix, cat(be32(3600), be32(7200), []byte{56}, r.Bytes(16)))
			}
			o = append(o, d6opt(dhcpv6.OptIAPD, cat(be32(uint32(r.Intn(9))), be32(1800), be32(2880), inner))...)
		case 4:
			o = append(o, d6opt(dhcpv6.OptRapidCommit, nil)...)
		case 5:
			o = append(o, d6opt(dhcpv6.OptORO, cat(be16(23), be16(24)))...)
		case 6:
			o = append(o, d6opt(dhcpv6.OptIANA, r.Bytes(r.Intn(14)))...)
		default:
			o = append(o, d6opt(r.Intn(100), r.Bytes(r.Intn(8)))...)
		}
	}
	return o
}

func tlv8(r *vh.Rng, types []int) []byte {
	var o []byte
	for i, n := 0, r.Intn(5); i < n; i++ {
		v := r.Bytes(r.Intn(8))
		o = append(o, byte(types[r.Intn(len(types))]), byte(len(v)))
		o = append(o, v...)
	}
	return o
}

var sseLines = []string{"data: {\"type\":\"heartbeat\",\"node_id\":\"a\"}\n", "data: \n", "\n", ": keepalive\n", "event: x\n", "data:{}\n", "data: {bad\n",
	"data: {\"type\":\"add\",\"sessions\":[{\"session_id\":\"s1\",\"mac\":\"m\",\"ip\":\"10.0.0.2\"}]}\n", "data: ", "data", "data: x\r\n", "data: data: \n",
	// every prefix of a data line followed by the newline (the reader slices line[6:len-1])
	"d\n", "da\n", "dat\n", "data\n", "data:\n", "data:x\n", "data:  \n", "data: \r\n"}
var ftpLines = []string{"PORT 10,0,0,5,4,1", "port 1,2,3,4,5,6", "PORT 999,0,0,5,4,1", "EPRT |1|10.0.0.5|1234|", "EPRT |1|nonsense|80|", "EPRT |2|::1|80|",
	"227 Entering Passive Mode (198,51,100,1,19,136)", "229 Entering Extended Passive Mode (|||6446|)", "USER anonymous", "", "PORT 1,2,3", "\r", "\n",
	"PORT 99999999999999999999,0,0,0,0,0", "229 x (|||99999999999999999999|)"}
var sipLines = []string{"INVITE sip:bob@example.com SIP/2.0", "Via: SIP/2.0/UDP 10.0.0.5:5060", "Contact: <sip:alice@10.0.0.5>", "c=IN IP4 10.0.0.5", "o=- 1 1 IN IP4 10.0.0.5",
	"From: <sip:alice@10.0.0.5>", "", "v=0", "VIA: 10.0.0.5", "m=audio 49170 RTP/AVP 0"}

func joinLines(r *vh.Rng, pool []string, seps []string) []byte {
	var sb strings.Builder
	for i, n := 0, r.Intn(6); i < n; i++ {
		sb.WriteString(pool[r.Intn(len(pool))])
		sb.WriteString(seps[r.Intn(len(seps))])
	}
	return []byte(sb.String())
}

// params for the stateful entries
func paramsFor(e int, r *vh.Rng) []uint64 {
	switch e {
	case EDiscovery:
		if r.Chance(1, 3) {
			return []uint64{1}
		}
		return []uint64{0}
	case ESession:
		if r.Chance(5, 6) {
			return []uint64{1, uint64(r.Intn(2))}
		}
		return []uint64{0, 0}
	case ELcpRecv, EIpcpRecv, EIp6cpRecv:
		st := r.Intn(10)
		if e == ELcpRecv && r.Chance(1, 3) {
			st = 9
		}
		return []uint64{uint64(st), lastIDFor(e, st)}
	case EAuthRecv:
		if r.Bool() {
			return []uint64{pppoe.ProtocolCHAP, 1}
		}
		return []uint64{pppoe.ProtocolPAP, 0}
	case ED6Handle:
		return b2r(serverDUID())
	case ERecvFrame:
		if r.Chance(2, 3) {
			return []uint64{1, uint64(r.Intn(2))}
		}
		return []uint64{0, 0}
	case ED6HandleSt:
		return []uint64{uint64(r.Intn(2)), uint64(r.Intn(2)), uint64(r.Intn(2)), uint64(r.Intn(4) / 3)}
	}
	return nil
}

func ether(dst []byte, et int, payload []byte) []byte {
	return cat(dst, clientMAC, be16(et), payload)
}

var dstMACs = [][]byte{{0xff, 0xff, 0xff, 0xff, 0xff, 0xff}, serverMAC, {2, 0, 0, 0, 0, 7}}

func dhcp4Base(r *vh.Rng) []byte {
	mac := []byte{2, 0x44, 0, 0, 0, byte(r.Intn(24))}
	b := make([]byte, 236)
	b[0], b[1], b[2] = 1, 1, 6
	copy(b[4:8], r.Bytes(4))
	if r.Chance(1, 3) {
		copy(b[24:28], []byte{192, 0, 2, 1}) // giaddr: relayed
	}
	copy(b[28:34], mac)
	b = append(b, 99, 130, 83, 99)
	b = append(b, 53, 1, []byte{1, 3, 3, 7, 4, 8, 2, 0}[r.Intn(8)])
	if r.Bool() {
		b = append(b, 50, 4, 192, 0, 2, byte(r.Intn(20)))
	}
	if r.Bool() {
		b = append(b, 54, 4, 192, 0, 2, byte(1+r.Intn(2)))
	}
	if r.Chance(2, 3) {
		o := tlv8(r, []int{1, 2, 1, 2, 5, 9})
		b = append(b, 82, byte(len(o)))
		b = append(b, o...)
	}
	if r.Bool() {
		b = append(b, 61, 7, 1)
		b = append(b, mac...)
	}
	if r.Chance(1, 4) {
		b = append(b, 12, byte(3), 'c', 'p', 'e')
	}
	return append(b, 255)
}

var sseDataSamples = []string{`{"type":"heartbeat","node_id":"a"}`, `{"type":"add","sessions":[{"session_id":"s1","mac":"m","ip":"10.0.0.2"}]}`,
	`{"type":"update","sessions":[{"session_id":"s1"},{"session_id":""}]}`, `{"type":"delete","sessions":[{"session_id":"s1"}]}`, `{"type":"delete","sessions":null}`,
	`{"type":"full","sessions":[{"session_id":"s2","mac":"m"}]}`, `{"type":"full"}`, `{"type":"nonsense","sessions":[null]}`, `{"type":"add","sessions":[null,null]}`, `{}`, `null`, `[]`, `{"type":7}`,
	`{"type":"add","sequence":18446744073709551615,"sessions":[{"session_id":"s3","vlan":-1}]}`}


// valid (or nearly valid) encoding for an entry
func base(e int, p []uint64, r *vh.Rng) []byte {
	switch e {
	case EHeader:
		return hdr(byte(r.Intn(256)), r.Intn(65536), r.Bytes(r.Intn(6)))
	case ETags:
		return pppoe.SerializeTags(randTags(r))
	case ELcpPacket:
		return cp(byte(r.Intn(13)), byte(r.Intn(256)), randLcpOpts(r, 0))
	case ELcpOptions:
		return randLcpOpts(r, r.Intn(3))
	case EPADT:
		code := byte(pppoe.CodePADT)
		if r.Chance(1, 8) {
			code = pppoe.CodePADI
		}
		return hdr(code, r.Intn(4), pppoe.SerializeTags(randTags(r)))
	case EEcho:
		return r.Bytes(r.Intn(12))
	case EDiscovery:
		code := []byte{pppoe.CodePADI, pppoe.CodePADR, pppoe.CodePADT, pppoe.CodePADO, 0}[r.Intn(5)]
		tags := randTags(r)
		if code == pppoe.CodePADR && r.Chance(3, 4) {
			tags = append([]pppoe.Tag{{Type: pppoe.TagACCookie, Value: r.Bytes(16)}}, tags...)
		}
		return hdr(code, r.Intn(3), pppoe.SerializeTags(tags))
	case ESession:
		proto := []int{pppoe.ProtocolLCP, pppoe.ProtocolPAP, pppoe.ProtocolIPCP, pppoe.ProtocolIP, pppoe.ProtocolCHAP, pppoe.ProtocolIPv6CP}[r.Intn(6)]
		var pl []byte
		switch proto {
		case pppoe.ProtocolLCP:
			pl = cp([]byte{1, 2, 3, 5, 9, 10, 4, 12}[r.Intn(8)], byte(r.Intn(256)), randLcpOpts(r, 0))
		case pppoe.ProtocolPAP:
			u, pw := r.Bytes(r.Intn(6)), r.Bytes(r.Intn(6))
			pl = cp(byte(1+r.Intn(8)/7), byte(r.Intn(256)), cat([]byte{byte(len(u))}, u, []byte{byte(len(pw))}, pw))
		case pppoe.ProtocolIPCP:
			pl = cp(byte(1+r.Intn(3)), byte(r.Intn(256)), randLcpOpts(r, 1))
		default:
			pl = r.Bytes(r.Intn(10))
		}
		sid := 1
		if r.Chance(1, 8) {
			sid = r.Intn(4)
		}
		return hdr(0, sid, cat(be16(proto), pl))
	case ELcpRecv, EIpcpRecv, EIp6cpRecv:
		id := byte(r.Intn(256))
		if len(p) > 1 && r.Chance(2, 3) {
			id = byte(p[1])
		}
		code := byte(r.Intn(14))
		data := randLcpOpts(r, e-ELcpRecv)
		if e == ELcpRecv && (code == 9 || code == 10 || code == 7 || code == 8) && r.Bool() {
			data = r.Bytes(r.Intn(9))
		}
		return cp(code, id, data)
	case EAuthRecv:
		if len(p) > 0 && p[0] == pppoe.ProtocolCHAP {
			v, name := r.Bytes(r.Intn(17)), r.Bytes(r.Intn(8))
			id := byte(1)
			if r.Chance(1, 5) {
				id = byte(r.Intn(256))
			}
			return cp(byte(2-r.Intn(8)/7), id, cat([]byte{byte(len(v))}, v, name))
		}
		u, pw := r.Bytes(r.Intn(8)), r.Bytes(r.Intn(8))
		return cp(byte(1+r.Intn(8)/7), byte(r.Intn(256)), cat([]byte{byte(len(u))}, u, []byte{byte(len(pw))}, pw))
	case ED6Message, ED6Handle:
		ty := byte(1 + r.Intn(13))
		return cat([]byte{ty}, r.Bytes(3), randD6Opts(r, 1))
	case ED6Options:
		return randD6Opts(r, 1)
	case ED6IANA, ED6IAPD:
		return cat(be32(uint32(r.Intn(100))), be32(1800), be32(2880), randD6Opts(r, 1))
	case ED6IAAddr:
		return cat(r.Bytes(16), be32(3600), be32(7200), randD6Opts(r, 0))
	case ED6IAPrefix:
		return cat(be32(3600), be32(7200), []byte{byte(r.Intn(129))}, r.Bytes(16), randD6Opts(r, 0))
	case ED6DUID:
		return cat(be16(1+r.Intn(4)), r.Bytes(r.Intn(12)))
	case EOpt82:
		return tlv8(r, []int{1, 2, 1, 2, 5, 9})
	case EVendor:
		return tlv8(r, []int{1, 2, 3, 1})
	case ERecvFrame:
		dst := dstMACs[[]int{0, 1, 1, 1, 2}[r.Intn(5)]]
		wrap := func(et int, pl []byte) []byte {
			f := ether(dst, et, pl)
			if r.Chance(1, 4) { // a station that does not own the live session
				f[11] = 9
			}
			return f
		}
		switch r.Intn(5) {
		case 0, 1:
			if r.Chance(1, 3) { // PADT for the live session
				return wrap(0x8863, hdr(pppoe.CodePADT, 1, nil))
			}
			return wrap(0x8863, base(EDiscovery, nil, r))
		case 2, 3:
			return wrap(0x8864, base(ESession, nil, r))
		}
		return ether(dst, []int{0x0800, 0x8863, 0x8864, 0x88a8, 0}[r.Intn(5)], r.Bytes(r.Intn(12)))
	case ED6HandleSt:
		ty := byte(1 + r.Intn(11))
		cid := d6opt(dhcpv6.OptClientID, d6Prepared)
		if r.Chance(1, 5) {
			cid = d6opt(dhcpv6.OptClientID, cat(be16(1), r.Bytes(r.Intn(6))))
		}
		var sid []byte
		if r.Chance(3, 4) {
			sid = d6opt(dhcpv6.OptServerID, serverDUID())
		}
		return cat([]byte{ty}, r.Bytes(3), cid, sid, randD6Opts(r, 1))
	case EDhcp4:
		return dhcp4Base(r)
	case ESseData:
		return []byte(sseDataSamples[r.Intn(len(sseDataSamples))])
	case ESse:
		return joinLines(r, sseLines, []string{"", "", "\n"})
	case EFtpOut, EFtpIn:
		return joinLines(r, ftpLines, []string{"\r\n", "\r\n", "\n", ""})
	case ESipOut:
		return joinLines(r, sipLines, []string{"\r\n", "\n", "\r\n"})
	}
	return nil
}

var special8 = []int{0, 1, 2, 3, 4, 5, 6, 7, 8, 254, 255}

// mutations of one encoding: truncation at every offset; every single-byte and big-endian 16-bit
// field position set to the boundary values (relative to the bytes that follow it); bit flips.
func mutations(b []byte, r *vh.Rng, budget int) [][]byte {
	var out [][]byte
	for i := 0; i <= len(b); i++ {
		out = append(out, append([]byte(nil), b[:i]...))
	}
	n := len(b)
	if n > 96 {
		n = 96
	}
	for i := 0; i < n; i++ {
		rest := len(b) - i - 1
		vals := append([]int{rest - 1, rest, rest + 1, rest + 2, len(b) - 1, len(b), len(b) + 1}, special8...)
		for _, v := range vals {
			if v < 0 || v > 255 || int(b[i]) == v {
				continue
			}
			m := append([]byte(nil), b...)
			m[i] = byte(v)
			out = append(out, m)
		}
		if i+1 < len(b) {
			rest2 := len(b) - i - 2
			for _, v := range []int{0, 1, 2, 3, rest2 - 1, rest2, rest2 + 1, rest2 + 2, rest2 + 4, len(b) - 1, len(b), len(b) + 1, 255, 256, 1494, 1502, 1503, 1508, 1509, 65529, 65530, 65534, 65535} {
				if v < 0 || v > 65535 {
					continue
				}
				m := append([]byte(nil), b...)
				m[i], m[i+1] = byte(v>>8), byte(v)
				out = append(out, m)
			}
		}
	}
	for k := 0; k < 16 && len(b) > 0; k++ {
		m := append([]byte(nil), b...)
		m[r.Intn(len(m))] ^= 1 << uint(r.Intn(8))
		out = append(out, m)
	}
	// reordering / nesting: duplicate the body after itself, and the body inside itself
	if len(b) > 8 && len(b) < 200 {
		out = append(out, cat(b, b[len(b)/2:]), cat(b[:len(b)/2], b, b[len(b)/2:]))
	}
	if budget > 0 && len(out) > budget {
		for i := len(out) - 1; i > 0; i-- {
			j := r.Intn(i + 1)
			out[i], out[j] = out[j], out[i]
		}
		out = out[:budget]
	}
	return out
}

// specialPackets: for codes 1..11 and an unknown code, the payload values the handlers branch on.
func specialPackets(e int, lid byte) [][]byte {
	var out [][]byte
	ids := []byte{lid, lid + 1}
	own, zero, other := be32(ownMagic), be32(0), be32(0x01020304)
	// Configure-Request / Ack / Nak / Reject with matching and stale identifiers
	var optsets [][]byte
	switch e {
	case ELcpRecv:
		optsets = [][]byte{nil, cat([]byte{1, 4}, be16(1492)), cat([]byte{5, 6}, own), cat([]byte{5, 6}, zero), cat([]byte{5, 6}, other),
			{3, 4, 0xc0, 0x23}, {3, 5, 0xc2, 0x23, 5}, {7, 2}, {8, 2}, cat([]byte{1, 4}, be16(10)), {1, 3, 0}, {5, 3, 0}, {3, 3, 0xc2}}
	case EIpcpRecv:
		optsets = [][]byte{nil, {3, 6, 0, 0, 0, 0}, {3, 6, 10, 0, 0, 77}, {3, 6, 10, 0, 0, 78}, {129, 6, 0, 0, 0, 0}, {131, 6, 8, 8, 8, 8}, {2, 4, 0, 0x2d}, {3, 3, 1}}
	default:
		optsets = [][]byte{nil, cat([]byte{1, 10}, make([]byte, 8)), {1, 10, 1, 2, 3, 4, 5, 6, 7, 8}, {1, 4, 1, 2}, {2, 2}}
	}
	for code := byte(1); code <= 4; code++ {
		for _, id := range ids {
			for _, o := range optsets {
				out = append(out, cp(code, id, o))
			}
		}
	}
	// Terminate-Request / Ack
	for code := byte(5); code <= 6; code++ {
		for _, id := range ids {
			out = append(out, cp(code, id, nil), cp(code, id, []byte("bye")))
		}
	}
	// Code-Reject: every rejected code 0..12 (1..4 critical), with and without the rest of the packet
	for rc := 0; rc <= 12; rc++ {
		out = append(out, cp(7, 9, []byte{byte(rc)}), cp(7, 9, cat([]byte{byte(rc), 1}, be16(4))))
	}
	out = append(out, cp(7, 9, nil))
	// Protocol-Reject: rejected protocol LCP itself (critical), the NCPs, the auth protocols, other; short
	for _, pr := range []int{0xC021, 0x8021, 0x8057, 0xC023, 0xC223, 0x0021, 0x1234, 0xC020, 0xC121} {
		out = append(out, cp(8, 9, be16(pr)), cp(8, 9, cat(be16(pr), []byte{1, 2, 3})))
	}
	out = append(out, cp(8, 9, nil), cp(8, 9, []byte{0xC0}))
	// Echo-Request / Echo-Reply / Discard-Request: magic own, zero, other; with payload; short
	for code := byte(9); code <= 11; code++ {
		for _, m := range [][]byte{own, zero, other} {
			out = append(out, cp(code, 3, m), cp(code, 3, cat(m, []byte("ping"))))
		}
		out = append(out, cp(code, 3, nil), cp(code, 3, []byte{1, 2, 3}))
	}
	// unknown codes
	for _, code := range []byte{0, 12, 13, 200, 255} {
		out = append(out, cp(code, 3, nil), cp(code, 3, []byte{1, 2, 3, 4, 5}))
	}
	return out
}

func d6Family() []Desc {
	sd := serverDUID()
	p := b2r(sd)
	cids := [][]byte{nil, d6opt(1, nil), d6opt(1, []byte{7}), d6opt(1, []byte{0, 1, 0xaa, 0xbb})}
	sids := [][]byte{nil, d6opt(2, nil), d6opt(2, []byte{0}), d6opt(2, sd[:2]), d6opt(2, append(append([]byte{}, sd[:2]...), 9)),
		d6opt(2, sd), d6opt(2, []byte{0, 1, 1, 2, 3, 4}), cat(be16(2), be16(40), sd)}
	iaaddr := cat(make([]byte, 15), []byte{1}, be32(3600), be32(7200))
	iapfx := cat(be32(3600), be32(7200), []byte{56}, make([]byte, 16))
	ia := func(code int, inner []byte) []byte { return d6opt(code, cat(be32(1), be32(0), be32(0), inner)) }
	inpool := cat([]byte{0x20, 0x01, 0x0d, 0xb8, 0, 1, 0, 0, 0, 0, 0, 0, 0, 0, 0, 5}, be32(3600), be32(7200)) // an address inside the server's pool
	ianas := [][]byte{nil, d6opt(3, nil), d6opt(3, []byte{1}), d6opt(3, make([]byte, 11)), ia(3, nil), ia(3, d6opt(5, iaaddr)), ia(3, d6opt(5, inpool)),
		ia(3, cat(d6opt(5, iaaddr), d6opt(5, inpool), d6opt(13, []byte{0, 0}))),
		ia(3, d6opt(5, iaaddr[:23])), ia(3, d6opt(5, nil)), ia(3, cat(be16(5), be16(24), iaaddr[:10])), cat(be16(3), be16(12), make([]byte, 5))}
	iapds := [][]byte{nil, d6opt(25, nil), d6opt(25, []byte{1}), d6opt(25, make([]byte, 11)), ia(25, nil), ia(25, d6opt(26, iapfx)),
		ia(25, d6opt(26, iapfx[:24])), ia(25, d6opt(26, nil)), cat(be16(25), be16(12), make([]byte, 5))}
	var out []Desc
	add := func(ty int, parts ...[]byte) {
		out = append(out, Desc{E: ED6Handle, P: p, D: cat(append([][]byte{{byte(ty), 1, 2, 3}}, parts...)...)})
	}
	for ty := 0; ty <= 14; ty++ {
		for _, c := range cids {
			for _, sv := range sids {
				add(ty, c, sv)
				if ty == 3 {
					add(ty, sv, c) // Server ID first
					add(ty, c, sv, ia(3, nil), ia(25, nil))
				}
			}
		}
		for _, a := range ianas {
			for _, d := range iapds {
				add(ty, cids[3], d6opt(2, sd), a, d)
			}
		}
		add(ty, cids[3], d6opt(2, sd), d6opt(14, nil), ia(3, d6opt(5, iaaddr)))
		add(ty, cids[3], d6opt(14, nil))                // rapid commit and nothing else
		add(ty, d6opt(14, nil), ia(3, nil))             // rapid commit without a Client ID
		add(ty, cids[3], d6opt(2, sd), ia(3, d6opt(5, inpool)), ia(25, d6opt(26, iapfx)), d6opt(6, []byte{0, 23}))
	}
	return out
}

func createSeqFamily() [][]uint64 {
	frees := [][]uint64{{}, {65535}, {65534}, {1}, {32768}, {65534, 65535}, {1, 65535}, {1, 2}, {65533, 65534, 65535}, {2, 65534}}
	nexts := []uint64{1, 65534, 65535, 0}
	var out [][]uint64
	k := 0
	for _, f := range frees {
		for _, nx := range nexts {
			for _, zero := range []uint64{0, 1} {
				if zero == 1 && (len(f) != 1 || nx == 65534) { // the id-0 corner only with a few shapes
					continue
				}
				mode := uint64(k % 2)
				k++
				out = append(out, append([]uint64{mode, 3, zero, nx}, f...))
			}
		}
	}
	return out
}

func isPure(e int) bool {
	for _, x := range pureEntries {
		if x == e {
			return true
		}
	}
	return false
}

func tailFor(e int, r *vh.Rng) []byte {
	if e == EPADT || e == EDiscovery || e == ESession || e == ERecvFrame {
		switch r.Intn(3) {
		case 0:
			return nil
		case 1: // stale bytes of an earlier, longer frame: a well-formed tag
			return cat(be16(pppoe.TagHostUniq), be16(4), []byte("OLD!"), r.Bytes(r.Intn(6)))
		default:
			return r.Bytes(1 + r.Intn(24))
		}
	}
	return nil
}

var pureEntries = []int{EHeader, ETags, ELcpPacket, ELcpOptions, EPADT, EEcho, ED6Message, ED6Options, ED6IANA, ED6IAPD, ED6IAAddr, ED6IAPrefix, ED6DUID, EOpt82, EVendor}
var statefulEntries = []int{EDiscovery, ESession, ELcpRecv, EIpcpRecv, EIp6cpRecv, EAuthRecv, ED6Handle, EFtpOut, EFtpIn, ESipOut}

// entry points driven by the streams only (no exhaustive block of their own, or a shorter one)
var streamOnlyEntries = []int{ERecvFrame, ED6HandleSt, EDhcp4, ESseData}

// implOnlyEntry: handlers behind a third-party decoder (oracle); they have no Model, every input
// runs on the real code under recover() + time limit and only a PANIC / HANG becomes a case
func implOnlyEntry(e int) bool { return e == EDhcp4 || e == ESseData }

// nestings: the same container nested in itself to depth 1..9 (and one level cut short)
func nestings() []Desc {
	var out []Desc
	sd := serverDUID()
	for depth := 1; depth <= 9; depth++ {
		// DHCPv6: IA_NA > IAAddr > options > IA_NA > ...
		inner := []byte{}
		for k := 0; k < depth; k++ {
			if k%2 == 0 {
				inner = d6opt(5, cat(make([]byte, 16), be32(1), be32(2), inner))
			} else {
				inner = d6opt(3, cat(be32(1), be32(0), be32(0), inner))
			}
		}
		iana := d6opt(3, cat(be32(1), be32(0), be32(0), inner))
		for _, ty := range []byte{1, 3, 4, 5} {
			for _, cut := range []int{0, 1, 5} {
				body := cat(d6opt(1, d6Prepared), d6opt(2, sd), iana)
				body = body[:len(body)-cut]
				out = append(out, Desc{E: ED6Handle, P: b2r(sd), D: cat([]byte{ty, 1, 2, 3}, body)},
					Desc{E: ED6HandleSt, P: []uint64{1, 1, 0, 0}, D: cat([]byte{ty, 1, 2, 3}, body)})
			}
		}
		out = append(out, Desc{E: ED6IANA, D: iana[4:]}, Desc{E: ED6IAAddr, D: inner[4:]})
		// PPPoE tags whose value is a tag list
		tg := []byte{}
		for k := 0; k < depth; k++ {
			tg = cat(be16(0x0105), be16(len(tg)), tg)
		}
		out = append(out, Desc{E: ETags, D: tg}, Desc{E: EDiscovery, P: []uint64{0}, D: hdr(pppoe.CodePADI, 0, tg)},
			Desc{E: ERecvFrame, P: []uint64{0, 0}, D: ether(dstMACs[0], 0x8863, hdr(pppoe.CodePADR, 0, cat(d6opt(0x0104, []byte("c")), tg)))})
		// LCP Code-Reject carrying a Code-Reject carrying ...
		pk := cp(1, 1, nil)
		for k := 0; k < depth; k++ {
			pk = cp(7, byte(k), pk)
		}
		out = append(out, Desc{E: ELcpRecv, P: []uint64{9, lastIDFor(ELcpRecv, 9)}, D: pk},
			Desc{E: ESession, P: []uint64{1, 1}, D: hdr(0, 1, cat(be16(pppoe.ProtocolLCP), pk))},
			Desc{E: ERecvFrame, P: []uint64{1, 1}, D: ether(serverMAC, 0x8864, hdr(0, 1, cat(be16(pppoe.ProtocolLCP), pk)))})
		// option 82 / option 43 sub-options holding sub-options
		o := []byte{}
		for k := 0; k < depth && len(o) < 250; k++ {
			o = cat([]byte{1, byte(len(o))}, o)
		}
		out = append(out, Desc{E: EOpt82, D: o}, Desc{E: EVendor, D: o})
	}
	return out
}

func main() {
	cfg := vh.ParseFlags()
	// watchdog: a decoder that does not return is a finding (HANG), not a stuck check
	go func() {
		for {
			time.Sleep(250 * time.Millisecond)
			curMu.Lock()
			d, since := curDesc, curSince
			curMu.Unlock()
			if d != nil && time.Since(since) > 10*time.Second {
				coq := fmt.Sprintf("(Call %d %s %s %s, OHang)", d.E, nlist(d.P), vh.Bytes(d.D), vh.Bytes(d.T))
				hang := vh.Case{Coq: "[" + coq + "]", Desc: *d, Tags: []string{"entry:" + entryNames[d.E], "outcome:HANG", "gen:watchdog"}}
				vh.Emit(cfg, "hang", header, footer, []vh.Case{hang}, map[string]interface{}{"note": "the driver stopped here: this call did not return within 10 s"})
				os.Exit(0)
			}
		}
	}()

	if cfg.Replay != "" {
		var d Desc
		if err := vh.LoadReplay(cfg.Replay, &d); err != nil {
			panic(err)
		}
		vh.Emit(cfg, "cases", header, footer, []vh.Case{run(d)}, nil)
		return
	}
	var corpus []vh.Case
	for _, f := range vh.CorpusFiles(cfg) {
		var d Desc
		if err := vh.LoadReplay(f, &d); err != nil {
			panic(err)
		}
		corpus = append(corpus, run(d))
	}
	if len(corpus) > 0 {
		vh.Emit(cfg, "corpus", header, footer, corpus, nil)
	}

	r := vh.NewRng(cfg.Seed)
	thorough := cfg.Thorough()
	implOnly := 0
	perClass := map[string]int{}
	var cases []vh.Case
	hangs := map[int]int{}
	emit := func(d Desc, tag string) {
		if hangs[d.E] >= 2 { // two HANG cases of an entry point are enough; each costs its time limit
			return
		}
		c := run(d)
		for _, t := range c.Tags {
			if t == "outcome:HANG" {
				hangs[d.E]++
			}
		}
		if os.Getenv("C09_PROBE") != "" && !strings.Contains(c.Coq, "OOk") && !strings.Contains(c.Coq, "OErr") {
			o := Call(d.E, d.P, d.D, d.T)
			fmt.Fprintf(os.Stderr, "PROBE %s %s p=%v d=%x t=%x :: %s\n", entryNames[d.E], className[o.Class], d.P, d.D, d.T, o.Note)
		}
		c.Tags = append(c.Tags, "gen:"+tag)
		cases = append(cases, c)
	}
	// probe: run on the implementation only; a PANIC / HANG becomes a case
	probe := func(d Desc, tag string) {
		if hangs[d.E] >= 2 {
			return
		}
		implOnly++
		perClass[tag]++
		implOnlyMode = true
		o := Call(d.E, d.P, d.D, d.T)
		implOnlyMode = false
		if o.Class >= CPanic {
			if o.Class == CHang {
				hangs[d.E]++
			}
			emit(d, tag+"-impl-sweep")
		}
	}

	// 1. exhaustive small spaces (all byte strings of length <= 2 per entry point)
	var exh []vh.Case
	allE := append(append([]int{}, pureEntries...), statefulEntries...)
	for _, e := range allE {
		var ps [][]uint64
		switch e {
		case EDiscovery:
			ps = [][]uint64{{0}}
		case ESession:
			ps = [][]uint64{{1, 1}}
		case ELcpRecv, EIpcpRecv, EIp6cpRecv:
			ps = [][]uint64{{9, lastIDFor(e, 9)}}
		case EAuthRecv:
			ps = [][]uint64{{pppoe.ProtocolPAP, 0}, {pppoe.ProtocolCHAP, 1}}
		case ED6Handle:
			ps = [][]uint64{b2r(serverDUID())}
		default:
			ps = [][]uint64{nil}
		}
		for _, p := range ps {
			maxLen := 2
			if e == ESession { // a session is opened per input: keep the block at 257 inputs
				maxLen = 1
			}
			for l := 0; l <= maxLen; l++ {
				exh = append(exh, run(Desc{E: e, P: p, X: &Exh{Len: l}}))
			}
			if thorough { // length 3: four first-byte blocks through the Model; all 2^24 strings on the implementation for the stateless decoders
				for k := 0; k < 4 && e != ESession; k++ {
					exh = append(exh, run(Desc{E: e, P: p, X: &Exh{Len: 3, Prefix: []byte{byte(r.Intn(256))}}}))
				}
				if isPure(e) {
					_, bad := exhaust(e, p, Exh{Len: 3})
					implOnly += 1 << 24
					for _, b := range bad {
						emit(b, "exhaustive3-impl-sweep")
					}
				}
			}
		}
	}
	// SSE reader: one HTTP exchange per input, so only lengths 0 and 1; the receive loop opens a server per input
	for l := 0; l <= 1; l++ {
		exh = append(exh, run(Desc{E: ESse, X: &Exh{Len: l}}))
		exh = append(exh, run(Desc{E: ERecvFrame, P: []uint64{1, 1}, X: &Exh{Len: l}}))
	}
	ecfg := cfg
	ecfg.Shard = 12
	vh.Emit(ecfg, "exhaustive", header, footer, exh, map[string]interface{}{"exhaustive": true,
		"note": "each case is a whole block: all byte strings of the given length (and prefix) for one entry point; the Model recomputes class counts and a checksum of every parsed result"})

	// 2. structured + malformed streams
	nb, sample, nrand := 6, 15, 30
	if thorough {
		nb, sample, nrand = 40, 40, 300
	}
	for _, e := range append(append([]int{}, allE...), streamOnlyEntries...) {
		for b := 0; b < nb; b++ {
			rr := r.Fork()
			p := paramsFor(e, rr)
			bs := base(e, p, rr)
			if implOnlyEntry(e) {
				probe(Desc{E: e, P: p, D: bs}, "valid")
			} else {
				emit(Desc{E: e, P: p, D: bs, T: tailFor(e, rr)}, "valid")
			}
			budget := 0
			if e == EDhcp4 { // ~300-byte datagrams: cap the mutation fan-out
				budget = 600
			}
			muts := mutations(bs, rr, budget)
			// every mutation on the implementation; a sample through the Model too
			step := len(muts)/sample + 1
			off := rr.Intn(step)
			for i, m := range muts {
				d := Desc{E: e, P: p, D: m, T: tailFor(e, rr)}
				if (e == ERecvFrame || e == EDiscovery || e == ESession || e == EPADT) && len(m) < len(bs) && string(bs[:len(m)]) == string(m) && rr.Bool() {
					d.T = append([]byte(nil), bs[len(m):]...) // a truncated frame lying on top of the earlier, complete one: the stale bytes continue it
				}
				if i%step == off && !implOnlyEntry(e) {
					emit(d, "mutated")
				} else {
					probe(d, "mutated")
				}
			}
		}
		for k := 0; k < nrand; k++ {
			rr := r.Fork()
			n := rr.Intn(64)
			if k%4 == 0 {
				n = rr.Intn(2049)
			}
			d := Desc{E: e, P: paramsFor(e, rr), D: rr.Bytes(n), T: tailFor(e, rr)}
			if k%3 == 0 && !implOnlyEntry(e) {
				emit(d, "random")
			} else {
				probe(d, "random")
			}
		}
	}
	// every code in every automaton state, with short / empty / long data
	for _, e := range []int{ELcpRecv, EIpcpRecv, EIp6cpRecv} {
		for st := 0; st < 10; st++ {
			lid := lastIDFor(e, st)
			for code := 0; code < 16; code++ {
				for _, dl := range []int{0, 1, 3, 4, 5, 9} {
					for _, id := range []byte{byte(lid), byte(lid + 1)} {
						d := Desc{E: e, P: []uint64{uint64(st), lid}, D: cp(byte(code), id, r.Bytes(dl))}
						if (code+dl+st)%12 == 0 || (e == ELcpRecv && st == 9 && code == 9) {
							emit(d, "state-x-code")
						} else {
							probe(d, "state-x-code")
						}
					}
				}
			}
		}
	}
	// semantically special packets: every code in every state with the field values the handlers
	// branch on (rejected protocol / rejected code / magic own, zero, other / matching and stale ids)
	for _, e := range []int{ELcpRecv, EIpcpRecv, EIp6cpRecv} {
		for st := 0; st < 10; st++ {
			lid := lastIDFor(e, st)
			for k, pk := range specialPackets(e, byte(lid)) {
				d := Desc{E: e, P: []uint64{uint64(st), lid}, D: pk}
				// every packet runs on the real automaton under the time limit; through the Model go all
				// LCP Code-Reject / Protocol-Reject / Echo / Discard / unknown-code packets and a quarter of the rest
				if (e == ELcpRecv && (pk[0] >= 7 || pk[0] == 0)) || (k+st)%4 == 0 {
					emit(d, "state-x-special")
				} else {
					probe(d, "state-x-special")
				}
			}
		}
	}
	// DHCPv6 datagram glue: for every message type, each option the handlers read (Client ID,
	// Server ID, IA_NA, IA_PD and the nested IAAddr / IAPrefix) absent / zero-length / 1 byte /
	// truncated / valid, through the real receiveLoop body (hook) under recover
	for k, d := range d6Family() {
		if d.D[0] == 3 || k%4 == 0 { // all Request datagrams and a quarter of the rest through the Model too
			emit(d, "dhcpv6-option-family")
		} else {
			probe(d, "dhcpv6-option-family")
		}
	}
	// session-id table filled to every boundary (65533 / 65534 / 65535 live, and the id-0 corner),
	// cursor at 1 / 0xFFFE / 0xFFFF / 0, then three more CreateSession calls or ordinary PADRs
	for _, p := range createSeqFamily() {
		emit(Desc{E: ECreateSeq, P: p}, "session-table-boundary")
	}
	// the same DHCPv6 option family against a server WITH lease state: the client has no lease /
	// a lease without address / with address / with address and prefix / pools exhausted
	setups := [][]uint64{{0, 0, 0, 0}, {1, 0, 0, 0}, {1, 1, 0, 0}, {1, 1, 1, 0}, {1, 1, 1, 1}, {0, 0, 0, 1}}
	for k, d := range d6Family() {
		if len(d.D) < 8 || d.D[4] != 0 || d.D[5] != 1 || d.D[7] != 4 { // only datagrams that start with the prepared Client ID
			continue
		}
		st := setups[k%len(setups)]
		d2 := Desc{E: ED6HandleSt, P: st, D: d.D}
		if d.D[0] == 3 || d.D[0] == 4 || d.D[0] == 5 || d.D[0] == 8 || k%5 == 0 {
			emit(d2, "dhcpv6-lease-state")
		} else {
			probe(d2, "dhcpv6-lease-state")
		}
	}
	// containers nested in themselves
	for _, d := range nestings() {
		emit(d, "nesting-depth")
	}
	// SSE reader
	nsse := 25
	if thorough {
		nsse = 200
	}
	for k := 0; k < nsse; k++ {
		rr := r.Fork()
		d := Desc{E: ESse, D: base(ESse, nil, rr)}
		if k%5 == 4 {
			d.D = rr.Bytes(rr.Intn(300))
		}
		emit(d, "sse")
	}
	// session-id allocator: table shapes around the wrap and the full table
	creates := [][]uint64{
		{0, 1}, {0, 65535, 65535}, {0, 65535, 1}, {0, 0, 7}, {0, 0}, {1, 1}, {1, 1, 65535}, {0, 5, 4}, {0, 5, 5}, {0, 65535, 65534, 3}, {1, 0, 9}, {1, 65535, 2},
	}
	for k := 0; k < 8; k++ {
		var free []uint64
		for i, n := 0, 1+r.Intn(4); i < n; i++ {
			free = append(free, uint64(1+r.Intn(65535)))
		}
		sort.Slice(free, func(i, j int) bool { return free[i] < free[j] })
		var ded []uint64
		for i, f := range free {
			if i == 0 || f != free[i-1] {
				ded = append(ded, f)
			}
		}
		creates = append(creates, append([]uint64{uint64(r.Intn(2)), uint64(r.Intn(65536))}, ded...))
	}
	for _, p := range creates {
		if hangs[ECreate] >= 2 {
			break
		}
		c := run(Desc{E: ECreate, P: p})
		for _, t := range c.Tags {
			if t == "outcome:HANG" {
				hangs[ECreate]++
			}
		}
		c.Tags = append(c.Tags, "gen:session-table")
		cases = append(cases, c)
	}

	vh.Emit(cfg, "cases", header, footer, cases, map[string]interface{}{"impl_only_inputs": implOnly, "impl_only_by_generator": perClass,
		"note": "impl_only_inputs were executed on the real code only (outcome class checked: any PANIC/HANG is emitted as a case)"})
}

const header = `From Coq Require Import NArith List. Import ListNotations.
From Verif Require Import Model.CodecBase Model.CodecSpec Model.CodecCheck.
Local Open Scope N_scope.
Definition cases : list case := [
`
const footer = `
].
Definition R := Eval vm_compute in run_cases cases.
Print R.
`
