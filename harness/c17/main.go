// C17 correspondence driver: real pool.PeerPool vs Model/Rendezvous.v.
package main

import (
	"context"
	"errors"
	"flag"
	"fmt"
	"net/http"
	"net/http/httptest"
	"os"
	"runtime"
	"time"

	"verifharness/vh"

	"github.com/codelaboratoryltd/bng/pkg/pool"
)

type NodeCfg struct {
	ID    []byte   `json:"id"`
	Peers [][]byte `json:"peers"`
}
type Op struct {
	K string `json:"k"` // add rm health owner local ranked howner alloc
	N int    `json:"n"`
	P []byte `json:"p"`
	H bool   `json:"h,omitempty"`
	M string `json:"m,omitempty"` // check: up | err | 500
}
type Case struct {
	Nodes []NodeCfg `json:"nodes,omitempty"`
	Ops   []Op      `json:"ops,omitempty"`
	Race  *RaceDesc `json:"race,omitempty"` // a case of stream `race` (race.go)
}

var namePool = []string{"bng-1", "bng-2", "bng-3", "bng-10", "bng-11", "a", "ab", "abc", "b", "", "node-east", "node-west", "\x00", "\xff\xfe", "olt-7"}

func genName(r *vh.Rng) []byte {
	if r.Chance(1, 6) {
		return r.Bytes(1 + r.Intn(6))
	}
	return []byte(namePool[r.Intn(len(namePool))])
}

func perm(r *vh.Rng, l [][]byte) [][]byte {
	o := append([][]byte(nil), l...)
	for i := len(o) - 1; i > 0; i-- {
		j := r.Intn(i + 1)
		o[i], o[j] = o[j], o[i]
	}
	return o
}

var safePool = []string{"bng-1", "bng-2", "bng-3", "bng-10", "node-east", "node-west", "olt-7", "a", "ab", "10.0.0.5:8081", "bng-1:8081", "core.example"}

func genCase(r *vh.Rng, maxOps int) Case {
	np := 1 + r.Intn(6)
	e2e := r.Chance(1, 3) // end-to-end family: URL-safe distinct names, Allocate through the HTTP handlers
	var set [][]byte
	for i := 0; i < np; i++ {
		if e2e {
			set = append(set, []byte(safePool[r.Intn(len(safePool))]))
		} else {
			set = append(set, genName(r))
		}
	}
	if e2e { // distinct names
		seen := map[string]bool{}
		var d [][]byte
		for _, x := range set {
			if !seen[string(x)] {
				seen[string(x)] = true
				d = append(d, x)
			}
		}
		set = d
		np = len(set)
	}
	nn := 1 + r.Intn(3)
	if e2e && nn > np {
		nn = np
	}
	var c Case
	ids := perm(r, set)
	for i := 0; i < nn; i++ {
		id := set[r.Intn(len(set))]
		if e2e {
			id = ids[i]
		}
		peers := perm(r, set)
		if r.Chance(1, 5) { // omit self from configured list: NewPeerPool appends it
			var p2 [][]byte
			for _, p := range peers {
				if string(p) != string(id) {
					p2 = append(p2, p)
				}
			}
			peers = p2
		}
		c.Nodes = append(c.Nodes, NodeCfg{ID: id, Peers: peers})
	}
	keys := [][]byte{[]byte("sub-1"), []byte("sub-2"), []byte("aa:bb:cc:dd:ee:01"), r.Bytes(4), {}}
	nops := 1 + r.Intn(maxOps)
	for i := 0; i < nops; i++ {
		n := r.Intn(nn)
		k := keys[r.Intn(len(keys))]
		if r.Chance(1, 8) {
			k = r.Bytes(1 + r.Intn(12))
		}
		if e2e && r.Chance(1, 3) {
			sub := []byte(fmt.Sprintf("sub-%d", r.Intn(6)))
			for m := 0; m < nn; m++ {
				c.Ops = append(c.Ops, Op{K: "alloc", N: m, P: sub})
			}
			continue
		}
		switch x := r.Intn(20); {
		case x < 2:
			c.Ops = append(c.Ops, Op{K: "add", N: n, P: genName(r)})
		case x < 4:
			p := genName(r)
			if r.Bool() {
				p = set[r.Intn(len(set))]
			}
			c.Ops = append(c.Ops, Op{K: "rm", N: n, P: p})
		case x < 7:
			p := set[r.Intn(len(set))]
			h := r.Chance(1, 3)
			if e2e {
				p = ids[r.Intn(len(ids))]
			}
			if r.Chance(1, 2) { // shared health vector: same change at every node
				for m := 0; m < nn; m++ {
					c.Ops = append(c.Ops, Op{K: "health", N: m, P: p, H: h})
				}
			} else {
				c.Ops = append(c.Ops, Op{K: "health", N: n, P: p, H: h})
			}
		case x < 11: // ask every node the same question
			for m := 0; m < nn; m++ {
				c.Ops = append(c.Ops, Op{K: "owner", N: m, P: k})
			}
		case x < 13: // GetOwner first: clause 0 relates IsLocalOwner to the owner answers recorded for the same (set, key)
			c.Ops = append(c.Ops, Op{K: "owner", N: n, P: k}, Op{K: "local", N: n, P: k})
		case x < 16:
			c.Ops = append(c.Ops, Op{K: "ranked", N: n, P: k})
		default:
			for m := 0; m < nn; m++ {
				c.Ops = append(c.Ops, Op{K: "howner", N: m, P: k})
			}
		}
	}
	return c
}

func strs(l [][]byte) []string {
	o := make([]string, len(l))
	for i, b := range l {
		o[i] = string(b)
	}
	return o
}

// route forwards peer HTTP requests to the in-process handler of the pool whose node id equals the host.
type route struct {
	muxes map[string]*http.ServeMux
}

func (rt *route) RoundTrip(req *http.Request) (*http.Response, error) {
	m, ok := rt.muxes[req.URL.Host]
	if !ok {
		return nil, fmt.Errorf("no such host %q", req.URL.Host)
	}
	rec := httptest.NewRecorder()
	m.ServeHTTP(rec, req)
	return rec.Result(), nil
}

// hcRoute is the transport of the health-check client: on "up" the status request reaches the peer's
// real handler through the in-process router, otherwise it fails the way the script says.
type hcRoute struct {
	rt   *route
	mode string
}

func (h *hcRoute) RoundTrip(req *http.Request) (*http.Response, error) {
	switch h.mode {
	case "err":
		return nil, errors.New("scripted transport failure")
	case "500":
		rec := httptest.NewRecorder()
		rec.WriteHeader(http.StatusInternalServerError)
		return rec.Result(), nil
	}
	return h.rt.RoundTrip(req)
}

func run(c Case) vh.Case {
	var pools []*pool.PeerPool
	var cfgs []string
	rt := &route{muxes: map[string]*http.ServeMux{}}
	hc := &hcRoute{rt: rt}
	for _, n := range c.Nodes {
		p, err := pool.NewPeerPool(pool.PeerPoolConfig{NodeID: string(n.ID), Peers: strs(n.Peers), Network: "10.0.0.0/24", Gateway: "10.0.0.1"})
		if err != nil {
			panic(err)
		}
		pools = append(pools, p)
		if _, dup := rt.muxes[string(n.ID)]; !dup {
			mux := http.NewServeMux()
			p.RegisterHandlers(mux)
			rt.muxes[string(n.ID)] = mux
		}
		p.VerifSetHTTPClient(&http.Client{Transport: rt, Timeout: 2 * time.Second})
		p.VerifSetHealthCheckClient(&http.Client{Transport: hc, Timeout: 2 * time.Second})
		var ps []string
		for _, q := range n.Peers {
			ps = append(ps, vh.Bytes(q))
		}
		cfgs = append(cfgs, vh.Pair(vh.Bytes(n.ID), vh.List(ps)))
	}
	var tr []string
	tags := map[string]bool{}
	for _, o := range c.Ops {
		p := pools[o.N]
		n := vh.N(uint64(o.N))
		var op, out string
		switch o.K {
		case "add":
			p.AddPeer(string(o.P))
			op, out = fmt.Sprintf("AddPeer %s %s", n, vh.Bytes(o.P)), "ONone"
		case "rm":
			p.RemovePeer(string(o.P))
			op, out = fmt.Sprintf("RemovePeer %s %s", n, vh.Bytes(o.P)), "ONone"
		case "health":
			p.VerifSetPeerHealth(string(o.P), o.H)
			op, out = fmt.Sprintf("SetHealth %s %s %s", n, vh.Bytes(o.P), vh.Bool(o.H)), "ONone"
		case "owner":
			op, out = fmt.Sprintf("GetOwner %s %s", n, vh.Bytes(o.P)), "OStr "+vh.Str(p.GetOwner(string(o.P)))
		case "local":
			op, out = fmt.Sprintf("IsLocal %s %s", n, vh.Bytes(o.P)), "OBool "+vh.Bool(p.IsLocalOwner(string(o.P)))
		case "ranked":
			var l []string
			for _, s := range p.VerifRanked(string(o.P)) {
				l = append(l, vh.Str(s))
			}
			op, out = fmt.Sprintf("Ranked %s %s", n, vh.Bytes(o.P)), "OList "+vh.List(l)
		case "alloc":
			resp, err := p.Allocate(context.Background(), string(o.P), nil)
			if err != nil {
				op, out = fmt.Sprintf("Alloc %s %s", n, vh.Bytes(o.P)), "OErr"
			} else {
				op, out = fmt.Sprintf("Alloc %s %s", n, vh.Bytes(o.P)), "OServed "+vh.Str(resp.NodeID)+" "+vh.Str(resp.SubscriberID)
			}
		case "release":
			op = fmt.Sprintf("Release %s %s", n, vh.Bytes(o.P))
			if err := p.Release(context.Background(), string(o.P)); err != nil {
				if os.Getenv("C17_DEBUG") != "" {
					fmt.Fprintf(os.Stderr, "release %d %q: %v\n", o.N, o.P, err)
				}
				out = "OErr"
			} else {
				out = "ONone"
			}
		case "get":
			_, found := p.Get(string(o.P))
			op, out = fmt.Sprintf("Get %s %s", n, vh.Bytes(o.P)), "OBool "+vh.Bool(found)
		case "holds":
			var hs []string
			for i, q := range pools {
				if q.VerifLocalHolds(string(o.P)) {
					hs = append(hs, vh.N(uint64(i)))
				}
			}
			op, out = fmt.Sprintf("Holds %s", vh.Bytes(o.P)), "OHold "+vh.List(hs)
		case "check":
			hc.mode = o.M
			p.VerifCheckPeer(context.Background(), string(o.P))
			h, f := p.VerifPeerHealth(string(o.P))
			op = fmt.Sprintf("CheckPeer %s %s %s", n, vh.Bytes(o.P), vh.Bool(o.M == "up"))
			out = fmt.Sprintf("OHealth %s %d", vh.Bool(h), f)
		case "howner":
			op, out = fmt.Sprintf("HealthyOwner %s %s", n, vh.Bytes(o.P)), "OStr "+vh.Str(p.VerifHealthyOwner(string(o.P)))
		}
		tags["op:"+o.K] = true
		tr = append(tr, vh.Pair(op, out))
	}
	var tl []string
	for t := range tags {
		tl = append(tl, t)
	}
	nb := len(c.Nodes)
	if nb > 8 {
		nb = 9 // "nodes:9" = more than 8
	}
	tl = append(tl, fmt.Sprintf("nodes:%d", nb), fmt.Sprintf("peers:%d", len(c.Nodes[0].Peers)))
	return vh.Case{Coq: "(" + vh.List(cfgs) + ",\n  " + vh.List(tr) + ")", Desc: c, Tags: tl}
}

// ---------------------------------------------------------------- exhaustive streams

func bs(l ...string) [][]byte {
	o := make([][]byte, len(l))
	for i, s := range l {
		o[i] = []byte(s)
	}
	return o
}

// allPerms returns every permutation of l (Heap's algorithm, deterministic order).
func allPerms(l [][]byte) [][][]byte {
	var out [][][]byte
	a := append([][]byte(nil), l...)
	var rec func(k int)
	rec = func(k int) {
		if k <= 1 {
			out = append(out, append([][]byte(nil), a...))
			return
		}
		for i := 0; i < k; i++ {
			rec(k - 1)
			if k%2 == 0 {
				a[i], a[k-1] = a[k-1], a[i]
			} else {
				a[0], a[k-1] = a[k-1], a[0]
			}
		}
	}
	rec(len(a))
	return out
}

var permKeys = [][]byte{[]byte("sub-1"), []byte("aa:bb:cc:dd:ee:01"), {}}

// permCases: for one peer set (size <= 5) one node per permutation of the configured order (chunks of
// 24 nodes), node ids cycling through the set; every node is asked the same questions. A second family
// starts every node from its own id only and AddPeers the others in every order.
func permCases(set [][]byte, keys [][]byte) []Case {
	var cs []Case
	perms := allPerms(set)
	for at := 0; at < len(perms); at += 24 {
		end := at + 24
		if end > len(perms) {
			end = len(perms)
		}
		var c Case
		for i, pm := range perms[at:end] {
			c.Nodes = append(c.Nodes, NodeCfg{ID: set[(at+i)%len(set)], Peers: pm})
		}
		for ki, k := range keys {
			for m := range c.Nodes {
				c.Ops = append(c.Ops, Op{K: "owner", N: m, P: k})
			}
			c.Ops = append(c.Ops, Op{K: "ranked", N: 0, P: k}, Op{K: "ranked", N: len(c.Nodes) - 1, P: k})
			if ki == 0 { // with no health marks the healthy owner is the owner: one key is enough here
				for m := range c.Nodes {
					c.Ops = append(c.Ops, Op{K: "howner", N: m, P: k})
				}
			}
			c.Ops = append(c.Ops, Op{K: "local", N: len(c.Nodes) / 2, P: k})
		}
		cs = append(cs, c)
	}
	if len(set) >= 2 && len(set) <= 5 { // AddPeer in every order (the other n-1 names), start from {id}
		rest := allPerms(set[1:])
		for at := 0; at < len(rest); at += 24 {
			end := at + 24
			if end > len(rest) {
				end = len(rest)
			}
			var c Case
			for range rest[at:end] {
				c.Nodes = append(c.Nodes, NodeCfg{ID: set[0], Peers: [][]byte{set[0]}})
			}
			for m, pm := range rest[at:end] {
				for _, p := range pm {
					c.Ops = append(c.Ops, Op{K: "add", N: m, P: p})
				}
			}
			for _, k := range keys[:2] {
				for m := range c.Nodes {
					c.Ops = append(c.Ops, Op{K: "owner", N: m, P: k})
				}
				c.Ops = append(c.Ops, Op{K: "ranked", N: 0, P: k})
			}
			cs = append(cs, c)
		}
	}
	return cs
}

// healthCases: for one peer set (size <= 5) with the first m names instantiated as nodes:
//
//	(a) one case per health vector (all 2^n subsets), the vector applied at every node, then every node asked;
//	(b) one walk through all vectors over the non-instantiated peers in Gray-code order (one peer flips per
//	    step at every node) with every node asked after each step (minimal-disruption clause);
//	(c) as (b) but the peers are marked through the real checkPeer: three scripted failures / one success.
func healthCases(set [][]byte, m int, keys [][]byte) []Case {
	n := len(set)
	mk := func() Case {
		var c Case
		for i := 0; i < m; i++ {
			c.Nodes = append(c.Nodes, NodeCfg{ID: set[i], Peers: append([][]byte(nil), set...)})
		}
		return c
	}
	ask := func(c *Case) {
		for _, k := range keys {
			for i := 0; i < m; i++ {
				c.Ops = append(c.Ops, Op{K: "howner", N: i, P: k})
			}
		}
	}
	var cs []Case
	for v := 0; v < 1<<n; v++ {
		c := mk()
		ask(&c)
		for b := 0; b < n; b++ {
			if v>>b&1 == 1 {
				for i := 0; i < m; i++ {
					c.Ops = append(c.Ops, Op{K: "health", N: i, P: set[b], H: false})
				}
			}
		}
		ask(&c)
		cs = append(cs, c)
	}
	free := n - m
	if free > 0 {
		for variant := 0; variant < 2; variant++ {
			c := mk()
			ask(&c)
			prev := 0
			for s := 1; s < 1<<free; s++ {
				g := s ^ (s >> 1)
				flip := g ^ prev
				prev = g
				b := 0
				for flip>>b&1 == 0 {
					b++
				}
				down := g>>b&1 == 1
				for i := 0; i < m; i++ {
					if variant == 0 {
						c.Ops = append(c.Ops, Op{K: "health", N: i, P: set[m+b], H: !down})
					} else if down {
						for t := 0; t < 3; t++ {
							c.Ops = append(c.Ops, Op{K: "check", N: i, P: set[m+b], M: []string{"err", "500", "up"}[t]})
						}
					} else {
						// the peer is not instantiated, so a real check can only fail: recover through the hook
						c.Ops = append(c.Ops, Op{K: "health", N: i, P: set[m+b], H: true})
					}
				}
				ask(&c)
			}
			cs = append(cs, c)
		}
	}
	return cs
}

// checkSeqCases: every sequence of check outcomes (ok / fail) up to length maxLen against one
// instantiated peer, observing the peer's record after every check and the routing decision at the end.
func checkSeqCases(maxLen int) []Case {
	set := bs("bng-1", "bng-2", "bng-3")
	var cs []Case
	for l := 1; l <= maxLen; l++ {
		for v := 0; v < 1<<l; v++ {
			var c Case
			for i := 0; i < 2; i++ {
				c.Nodes = append(c.Nodes, NodeCfg{ID: set[i], Peers: append([][]byte(nil), set...)})
			}
			for t := 0; t < l; t++ {
				mode := "up"
				if v>>t&1 == 1 {
					mode = []string{"err", "500"}[(t+v)%2]
				}
				c.Ops = append(c.Ops, Op{K: "check", N: 0, P: set[1], M: mode})
			}
			c.Ops = append(c.Ops, Op{K: "howner", N: 0, P: []byte("sub-1")}, Op{K: "howner", N: 0, P: []byte("sub-2")},
				Op{K: "howner", N: 0, P: []byte("sub-4")})
			cs = append(cs, c)
		}
	}
	return cs
}

// ---------------------------------------------------------------- pool stream (end to end)

// subscriber ids for the end-to-end stream: plain ones and ids with URL-significant characters (the
// release handler of a peer takes the id from the URL path), and ids that are not valid UTF-8 (a
// forwarded Allocate carries the id in a JSON body, K17d) together with what those turn into.
var subPool = []string{"sub-1", "sub-2", "sub-3", "aa:bb:cc:dd:ee:01", "a/b", "a//b", "a/../b", "a/./b", ".", "..", "...",
	"a?b", "a?", "?", "a#b", "#", "a%41", "aA", "a%2Fb", "a%2fb", "a%zz", "%", "a b", "a+b", "a&b=c", "a;b", "a@b:c", "/sub", "sub/",
	"ü日", "a\x00b", "a\x7fb", "a\nb", "", "a", "b", "a\"b", "a<b>", "a\\b", "[x]", "~a_b-c.d", "a%252F",
	"\xff", "\xfe1", "sub\xc3", "\xed\xa0\x80", "\xc0\xaf", "\xf4\x90\x80\x80", "a\xe2\x82", "\xef\xbf\xbd", "\xef\xbf\xbd1", "sub\xef\xbf\xbd", "\xf0\x9f\x98\x80"}

func genPoolCase(r *vh.Rng, maxOps int) Case {
	names := append([]string(nil), safePool...)
	for i := len(names) - 1; i > 0; i-- {
		j := r.Intn(i + 1)
		names[i], names[j] = names[j], names[i]
	}
	np := 2 + r.Intn(4)
	if !r.Chance(1, 12) { // mostly no "X" / "X:8081" pair (K17b) in one set
		var d []string
		for _, x := range names {
			ok := true
			for _, y := range d {
				if x == y+":8081" || y == x+":8081" {
					ok = false
				}
			}
			if ok {
				d = append(d, x)
			}
		}
		names = d
	}
	set := bs(names[:np]...)
	nn := 2 + r.Intn(3)
	if nn > np {
		nn = np
	}
	var c Case
	for i := 0; i < nn; i++ {
		peers := perm(r, set)
		if r.Chance(1, 10) {
			var p2 [][]byte
			for _, p := range peers {
				if string(p) != string(set[i]) {
					p2 = append(p2, p)
				}
			}
			peers = p2
		}
		if r.Chance(1, 25) && len(peers) > 1 { // a node with a different view
			peers = peers[:len(peers)-1]
		}
		c.Nodes = append(c.Nodes, NodeCfg{ID: set[i], Peers: peers})
	}
	subs := make([][]byte, 0, 4)
	for i := 0; i < 4; i++ {
		subs = append(subs, []byte(subPool[r.Intn(len(subPool))]))
	}
	// failover family: one instantiated node is marked unhealthy at every node (itself included) and no
	// request enters there afterwards; its subscribers must move to, and be released from, one fallback pool
	fo := -1
	if r.Chance(1, 4) {
		fo = r.Intn(nn)
		for m := 0; m < nn; m++ {
			c.Ops = append(c.Ops, Op{K: "health", N: m, P: set[fo], H: false})
		}
	}
	entry := func() int {
		n := r.Intn(nn)
		if n == fo {
			n = (n + 1) % nn
		}
		return n
	}
	nops := 2 + r.Intn(maxOps)
	for i := 0; i < nops; i++ {
		n := entry()
		k := subs[r.Intn(len(subs))]
		switch x := r.Intn(24); {
		case x < 8:
			c.Ops = append(c.Ops, Op{K: "alloc", N: n, P: k})
			if r.Chance(1, 2) {
				c.Ops = append(c.Ops, Op{K: "alloc", N: entry(), P: k})
			}
			c.Ops = append(c.Ops, Op{K: "holds", P: k})
		case x < 13:
			c.Ops = append(c.Ops, Op{K: "release", N: n, P: k}, Op{K: "holds", P: k})
		case x < 15:
			for m := 0; m < nn; m++ {
				c.Ops = append(c.Ops, Op{K: "get", N: m, P: k})
			}
		case x < 17:
			c.Ops = append(c.Ops, Op{K: "holds", P: k})
		case x < 18:
			for m := 0; m < nn; m++ {
				c.Ops = append(c.Ops, Op{K: "owner", N: m, P: k})
			}
		case x < 19:
			for m := 0; m < nn; m++ {
				if m != fo {
					c.Ops = append(c.Ops, Op{K: "howner", N: m, P: k})
				}
			}
		case x < 21: // shared health change on a peer that is not a node of this case (inside the K17a guard), sometimes any
			p := set[r.Intn(len(set))]
			if nn < np && !r.Chance(1, 6) {
				p = set[nn+r.Intn(np-nn)]
			}
			h := r.Chance(1, 3)
			for m := 0; m < nn; m++ {
				if string(c.Nodes[m].ID) == string(p) && r.Chance(5, 6) {
					continue
				}
				c.Ops = append(c.Ops, Op{K: "health", N: m, P: p, H: h})
			}
		case x < 22:
			p := set[r.Intn(len(set))]
			if string(p) != string(c.Nodes[n].ID) {
				c.Ops = append(c.Ops, Op{K: "check", N: n, P: p, M: []string{"up", "err", "500"}[r.Intn(3)]})
			}
		case x < 23:
			p := []byte(safePool[r.Intn(len(safePool))])
			for m := 0; m < nn; m++ {
				c.Ops = append(c.Ops, Op{K: "add", N: m, P: p})
			}
		default:
			p := set[r.Intn(len(set))]
			for m := 0; m < nn; m++ {
				if string(c.Nodes[m].ID) != string(p) {
					c.Ops = append(c.Ops, Op{K: "rm", N: m, P: p})
				}
			}
		}
	}
	return c
}

const header = `From Coq Require Import NArith List. Import ListNotations.
From Verif Require Import Base.Word Model.Rendezvous Model.RendezvousSpec Model.RendezvousCheck.
Local Open Scope N_scope.
Definition cases : list case := [
`
const footer = `
].
Definition R := Eval vm_compute in run_cases cases.
Print R.
`

func emit(cfg vh.Config, stream string, shard int, cases []vh.Case, extra map[string]interface{}) {
	c2 := cfg
	c2.Shard = shard
	vh.Emit(c2, stream, header, footer, cases, extra)
}

func main() {
	only := flag.String("only", "", "run this stream only (the thorough tier runs `race` again under the race detector)")
	cfg := vh.ParseFlags()
	if cfg.Replay != "" {
		var c Case
		if err := vh.LoadReplay(cfg.Replay, &c); err != nil {
			panic(err)
		}
		if c.Race != nil {
			vh.Emit(cfg, "race", raceHeader, raceFooter, []vh.Case{runRace(*c.Race)}, nil)
			return
		}
		vh.Emit(cfg, "cases", header, footer, []vh.Case{run(c)}, nil)
		return
	}
	r := vh.NewRng(cfg.Seed)
	// concurrent rounds on one PeerPool (first: it forks its own generator, the other streams keep theirs)
	rcfg := cfg
	rcfg.Shard = 2
	vh.Emit(rcfg, "race", raceHeader, raceFooter, raceCases(vh.NewRng(cfg.Seed^0x17c3), cfg.Thorough()), map[string]interface{}{
		"sampled_schedules": true, "gomaxprocs": runtime.GOMAXPROCS(0)})
	if *only == "race" {
		return
	}
	var corpus []vh.Case
	for _, f := range vh.CorpusFiles(cfg) {
		var c Case
		if err := vh.LoadReplay(f, &c); err != nil {
			panic(err)
		}
		corpus = append(corpus, run(c))
	}
	if len(corpus) > 0 {
		vh.Emit(cfg, "corpus", header, footer, corpus, nil)
	}

	// random histories (any byte strings as names)
	n, maxOps := 300, 14
	if cfg.Thorough() {
		n, maxOps = 4000, 30
	}
	var cases []vh.Case
	for i := 0; i < n; i++ {
		cases = append(cases, run(genCase(r.Fork(), maxOps)))
	}
	emit(cfg, "cases", 40, cases, nil)

	// all permutations of the configured order / of the AddPeer order for peer sets of size <= 5
	sets := [][][]byte{bs("bng-1"), bs("bng-1", "bng-2"), bs("a", "ab", "abc"), bs("bng-1", "bng-10", "bng-2", "bng-3"),
		bs("", "a", "\x00", "\xff\xfe", "ab"), bs("bng-1", "bng-2", "bng-3", "node-east", "node-west")}
	extraSets := 1
	if cfg.Thorough() {
		extraSets = 25
	}
	for i := 0; i < extraSets; i++ {
		rr := r.Fork()
		var s [][]byte
		seen := map[string]bool{}
		for len(s) < 2+i%4 {
			x := genName(rr)
			if !seen[string(x)] {
				seen[string(x)] = true
				s = append(s, x)
			}
		}
		if i%5 == 4 { // a duplicated name in the configured list
			s[len(s)-1] = s[0]
		}
		sets = append(sets, s)
	}
	var pc []vh.Case
	for _, s := range sets {
		keys := append(append([][]byte(nil), permKeys...), r.Bytes(5))
		for _, c := range permCases(s, keys) {
			vc := run(c)
			vc.Tags = append(vc.Tags, fmt.Sprintf("permset:%d", len(s)))
			pc = append(pc, vc)
		}
	}
	emit(cfg, "perm", 3, pc, map[string]interface{}{"exhaustive": true,
		"exhaustive_over": "every permutation of the configured peer order, and every AddPeer order, for each listed peer set of size <= 5"})

	// all health vectors for peer sets of size <= 5
	hsets := []struct {
		s [][]byte
		m int
	}{{bs("bng-1", "bng-2"), 2}, {bs("bng-1", "bng-2", "bng-3"), 2}, {bs("a", "ab", "abc", "b"), 2},
		{bs("bng-1", "bng-2", "bng-3", "node-east", "node-west"), 2}, {bs("bng-1", "bng-2", "bng-3", "bng-10", "olt-7"), 3}}
	if cfg.Thorough() {
		for i := 0; i < 12; i++ {
			rr := r.Fork()
			names := append([]string(nil), safePool...)
			for a := len(names) - 1; a > 0; a-- {
				b := rr.Intn(a + 1)
				names[a], names[b] = names[b], names[a]
			}
			sz := 2 + i%4
			hsets = append(hsets, struct {
				s [][]byte
				m int
			}{bs(names[:sz]...), 1 + rr.Intn(sz)})
		}
	}
	var hcs []vh.Case
	for _, h := range hsets {
		keys := [][]byte{[]byte("sub-1"), []byte("sub-2"), r.Bytes(4)}
		for _, c := range healthCases(h.s, h.m, keys) {
			vc := run(c)
			vc.Tags = append(vc.Tags, fmt.Sprintf("hvset:%d", len(h.s)))
			hcs = append(hcs, vc)
		}
	}
	emit(cfg, "health", 12, hcs, map[string]interface{}{"exhaustive": true,
		"exhaustive_over": "every health vector (subset of the peer set marked unhealthy at every node) for each listed peer set of size <= 5; Gray-code walks over the vectors of the non-instantiated peers"})

	// every sequence of health-check outcomes up to length 6 (7 in thorough)
	ml := 6
	if cfg.Thorough() {
		ml = 8
	}
	var qc []vh.Case
	for _, c := range checkSeqCases(ml) {
		qc = append(qc, run(c))
	}
	emit(cfg, "hcheck", 32, qc, map[string]interface{}{"exhaustive": true,
		"exhaustive_over": fmt.Sprintf("every ok/fail sequence of real checkPeer calls up to length %d", ml)})

	// end to end: Allocate / Release / Get through the peer handlers, pool contents observed
	np := 200
	if cfg.Thorough() {
		np = 3000
	}
	var pl []vh.Case
	for i := 0; i < np; i++ {
		pl = append(pl, run(genPoolCase(r.Fork(), maxOps)))
	}
	emit(cfg, "pool", 25, pl, nil)
}
