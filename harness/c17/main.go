// C17 correspondence driver: real pool.PeerPool vs Model/Rendezvous.v.
package main

import (
	"context"
	"fmt"
	"net/http"
	"net/http/httptest"
	"time"

	"verifharness/vh"

	"github.com/codelaboratoryltd/bng/pkg/pool"
)

type NodeCfg struct {
	ID    []byte   `json:"id"`
	Peers [][]byte `json:"peers"`
}
type Op struct {
	K string `json:"k"` // add rm health owner local ranked howner alloc
	N int    `json:"n"`
	P []byte `json:"p"`
	H bool   `json:"h,omitempty"`
}
type Case struct {
	Nodes []NodeCfg `json:"nodes"`
	Ops   []Op      `json:"ops"`
}

var namePool = []string{"bng-1", "bng-2", "bng-3", "bng-10", "bng-11", "a", "ab", "abc", "b", "", "node-east", "node-west", "\x00", "\xff\xfe", "olt-7"}

func genName(r *vh.Rng) []byte {
	if r.Chance(1, 6) {
		return r.Bytes(1 + r.Intn(6))
	}
	return []byte(namePool[r.Intn(len(namePool))])
}

func perm(r *vh.Rng, l [][]byte) [][]byte {
	o := append([][]byte(nil), l...)
	for i := len(o) - 1; i > 0; i-- {
		j := r.Intn(i + 1)
		o[i], o[j] = o[j], o[i]
	}
	return o
}

var safePool = []string{"bng-1", "bng-2", "bng-3", "bng-10", "node-east", "node-west", "olt-7", "a", "ab", "10.0.0.5:8081", "bng-1:8081", "core.example"}

func genCase(r *vh.Rng, maxOps int) Case {
	np := 1 + r.Intn(6)
	e2e := r.Chance(1, 3) // end-to-end family: URL-safe distinct names, Allocate through the HTTP handlers
	var set [][]byte
	for i := 0; i < np; i++ {
		if e2e {
			set = append(set, []byte(safePool[r.Intn(len(safePool))]))
		} else {
			set = append(set, genName(r))
		}
	}
	if e2e { // distinct names
		seen := map[string]bool{}
		var d [][]byte
		for _, x := range set {
			if !seen[string(x)] {
				seen[string(x)] = true
				d = append(d, x)
			}
		}
		set = d
		np = len(set)
	}
	nn := 1 + r.Intn(3)
	if e2e && nn > np {
		nn = np
	}
	var c Case
	ids := perm(r, set)
	for i := 0; i < nn; i++ {
		id := set[r.Intn(len(set))]
		if e2e {
			id = ids[i]
		}
		peers := perm(r, set)
		if r.Chance(1, 5) { // omit self from configured list: NewPeerPool appends it
			var p2 [][]byte
			for _, p := range peers {
				if string(p) != string(id) {
					p2 = append(p2, p)
				}
			}
			peers = p2
		}
		c.Nodes = append(c.Nodes, NodeCfg{ID: id, Peers: peers})
	}
	keys := [][]byte{[]byte("sub-1"), []byte("sub-2"), []byte("aa:bb:cc:dd:ee:01"), r.Bytes(4), {}}
	nops := 1 + r.Intn(maxOps)
	for i := 0; i < nops; i++ {
		n := r.Intn(nn)
		k := keys[r.Intn(len(keys))]
		if r.Chance(1, 8) {
			k = r.Bytes(1 + r.Intn(12))
		}
		if e2e && r.Chance(1, 3) {
			sub := []byte(fmt.Sprintf("sub-%d", r.Intn(6)))
			for m := 0; m < nn; m++ {
				c.Ops = append(c.Ops, Op{K: "alloc", N: m, P: sub})
			}
			continue
		}
		switch x := r.Intn(20); {
		case x < 2:
			c.Ops = append(c.Ops, Op{K: "add", N: n, P: genName(r)})
		case x < 4:
			p := genName(r)
			if r.Bool() {
				p = set[r.Intn(len(set))]
			}
			c.Ops = append(c.Ops, Op{K: "rm", N: n, P: p})
		case x < 7:
			p := set[r.Intn(len(set))]
			h := r.Chance(1, 3)
			if e2e {
				p = ids[r.Intn(len(ids))]
			}
			if r.Chance(1, 2) { // shared health vector: same change at every node
				for m := 0; m < nn; m++ {
					c.Ops = append(c.Ops, Op{K: "health", N: m, P: p, H: h})
				}
			} else {
				c.Ops = append(c.Ops, Op{K: "health", N: n, P: p, H: h})
			}
		case x < 11: // ask every node the same question
			for m := 0; m < nn; m++ {
				c.Ops = append(c.Ops, Op{K: "owner", N: m, P: k})
			}
		case x < 13:
			c.Ops = append(c.Ops, Op{K: "local", N: n, P: k})
		case x < 16:
			c.Ops = append(c.Ops, Op{K: "ranked", N: n, P: k})
		default:
			for m := 0; m < nn; m++ {
				c.Ops = append(c.Ops, Op{K: "howner", N: m, P: k})
			}
		}
	}
	return c
}

func strs(l [][]byte) []string {
	o := make([]string, len(l))
	for i, b := range l {
		o[i] = string(b)
	}
	return o
}

// route forwards peer HTTP requests to the in-process handler of the pool whose node id equals the host.
type route struct {
	muxes map[string]*http.ServeMux
}

func (rt *route) RoundTrip(req *http.Request) (*http.Response, error) {
	m, ok := rt.muxes[req.URL.Host]
	if !ok {
		return nil, fmt.Errorf("no such host %q", req.URL.Host)
	}
	rec := httptest.NewRecorder()
	m.ServeHTTP(rec, req)
	return rec.Result(), nil
}

func run(c Case) vh.Case {
	var pools []*pool.PeerPool
	var cfgs []string
	rt := &route{muxes: map[string]*http.ServeMux{}}
	for _, n := range c.Nodes {
		p, err := pool.NewPeerPool(pool.PeerPoolConfig{NodeID: string(n.ID), Peers: strs(n.Peers), Network: "10.0.0.0/24", Gateway: "10.0.0.1"})
		if err != nil {
			panic(err)
		}
		pools = append(pools, p)
		if _, dup := rt.muxes[string(n.ID)]; !dup {
			mux := http.NewServeMux()
			p.RegisterHandlers(mux)
			rt.muxes[string(n.ID)] = mux
		}
		p.VerifSetHTTPClient(&http.Client{Transport: rt, Timeout: 2 * time.Second})
		var ps []string
		for _, q := range n.Peers {
			ps = append(ps, vh.Bytes(q))
		}
		cfgs = append(cfgs, vh.Pair(vh.Bytes(n.ID), vh.List(ps)))
	}
	var tr []string
	tags := map[string]bool{}
	for _, o := range c.Ops {
		p := pools[o.N]
		n := vh.N(uint64(o.N))
		var op, out string
		switch o.K {
		case "add":
			p.AddPeer(string(o.P))
			op, out = fmt.Sprintf("AddPeer %s %s", n, vh.Bytes(o.P)), "ONone"
		case "rm":
			p.RemovePeer(string(o.P))
			op, out = fmt.Sprintf("RemovePeer %s %s", n, vh.Bytes(o.P)), "ONone"
		case "health":
			p.VerifSetPeerHealth(string(o.P), o.H)
			op, out = fmt.Sprintf("SetHealth %s %s %s", n, vh.Bytes(o.P), vh.Bool(o.H)), "ONone"
		case "owner":
			op, out = fmt.Sprintf("GetOwner %s %s", n, vh.Bytes(o.P)), "OStr "+vh.Str(p.GetOwner(string(o.P)))
		case "local":
			op, out = fmt.Sprintf("IsLocal %s %s", n, vh.Bytes(o.P)), "OBool "+vh.Bool(p.IsLocalOwner(string(o.P)))
		case "ranked":
			var l []string
			for _, s := range p.VerifRanked(string(o.P)) {
				l = append(l, vh.Str(s))
			}
			op, out = fmt.Sprintf("Ranked %s %s", n, vh.Bytes(o.P)), "OList "+vh.List(l)
		case "alloc":
			resp, err := p.Allocate(context.Background(), string(o.P), nil)
			if err != nil {
				op, out = fmt.Sprintf("Alloc %s %s", n, vh.Bytes(o.P)), "OErr"
			} else {
				op, out = fmt.Sprintf("Alloc %s %s", n, vh.Bytes(o.P)), "OStr "+vh.Str(resp.NodeID)
			}
		case "howner":
			op, out = fmt.Sprintf("HealthyOwner %s %s", n, vh.Bytes(o.P)), "OStr "+vh.Str(p.VerifHealthyOwner(string(o.P)))
		}
		tags["op:"+o.K] = true
		tr = append(tr, vh.Pair(op, out))
	}
	var tl []string
	for t := range tags {
		tl = append(tl, t)
	}
	tl = append(tl, fmt.Sprintf("nodes:%d", len(c.Nodes)), fmt.Sprintf("peers:%d", len(c.Nodes[0].Peers)))
	return vh.Case{Coq: "(" + vh.List(cfgs) + ",\n  " + vh.List(tr) + ")", Desc: c, Tags: tl}
}

const header = `From Coq Require Import NArith List. Import ListNotations.
From Verif Require Import Base.Word Model.Rendezvous Model.RendezvousSpec Model.RendezvousCheck.
Local Open Scope N_scope.
Definition cases : list case := [
`
const footer = `
].
Definition R := Eval vm_compute in run_cases cases.
Print R.
`

func main() {
	cfg := vh.ParseFlags()
	var cases []vh.Case
	if cfg.Replay != "" {
		var c Case
		if err := vh.LoadReplay(cfg.Replay, &c); err != nil {
			panic(err)
		}
		cases = append(cases, run(c))
	} else {
		r := vh.NewRng(cfg.Seed)
		n, maxOps := 400, 14
		if cfg.Thorough() {
			n, maxOps = 6000, 30
		}
		var corpus []vh.Case
		for _, f := range vh.CorpusFiles(cfg) {
			var c Case
			if err := vh.LoadReplay(f, &c); err != nil {
				panic(err)
			}
			corpus = append(corpus, run(c))
		}
		if len(corpus) > 0 {
			vh.Emit(cfg, "corpus", header, footer, corpus, nil)
		}
		for i := 0; i < n; i++ {
			cases = append(cases, run(genCase(r.Fork(), maxOps)))
		}
	}
	vh.Emit(cfg, "cases", header, footer, cases, nil)
}
