package main

// Stream `race`: barrier-released concurrent rounds on ONE real PeerPool.  The membership and health
// operations of PeerPool are called concurrently in production (health ticker, admin API, request
// handlers); the Model is sequential.  In every round G goroutines leave a spinning barrier together
// and each performs one call: AddPeer / RemovePeer / a health mark / GetOwner / IsLocalOwner / the
// ranked list / the healthy owner.  Recorded per round: every call with its return value and, after
// the round, the node's peer list and its unhealthy set.  Coq judges every round against the Model
// (Model/RendezvousRace.v: the final view is the Model's after some order of the round's updates,
// every answer is the Model's in a state some prefix of some order reaches).
// Sampled schedules: validation, not proof.

import (
	"fmt"
	"runtime"
	"sort"
	"sync"
	"sync/atomic"

	"verifharness/vh"

	"github.com/codelaboratoryltd/bng/pkg/pool"
)

// RaceDesc is the replayable description of a race case: everything is drawn from Seed; the
// schedule of the goroutines is not (a replay samples schedules again).
type RaceDesc struct {
	Base   int    `json:"base"`   // configured peers n00..n<Base-1>; the node is n00
	Rounds int    `json:"rounds"` // barrier-released rounds
	G      int    `json:"g"`      // goroutines per round
	Seed   uint64 `json:"seed"`
}

// peers e0..e5 come and go; they sort in front of the configured n00.. so that AddPeer / RemovePeer move
// the whole backing array (a reader that kept only a slice header sees a torn list)
const raceExtras = 6

var raceKeys = []string{"sub-0", "sub-1", "sub-2", "sub-3", "sub-4", "sub-5", "aa:bb:cc:dd:ee:01", ""}

type raceCall struct {
	op  Op
	out string // Coq term of the observed answer
}

// raceRound chooses the calls of one round.  present = the extras currently in the peer list.
func raceRound(r *vh.Rng, d RaceDesc, present map[string]bool) []Op {
	var in, out []string
	for i := 0; i < raceExtras; i++ {
		x := fmt.Sprintf("e%d", i)
		if present[x] {
			in = append(in, x)
		} else {
			out = append(out, x)
		}
	}
	pick := func(l []string) string { return l[r.Intn(len(l))] }
	other := func() string { return fmt.Sprintf("n%02d", 1+r.Intn(d.Base-1)) } // a configured peer, never the node itself
	query := func() Op {
		k := []byte(raceKeys[r.Intn(len(raceKeys))])
		return Op{K: []string{"owner", "howner", "local", "ranked", "howner", "owner"}[r.Intn(6)], P: k}
	}
	var ops []Op
	many := 2 + r.Intn(d.G-2) // callers of the round's main update
	kind := r.Intn(20)
	switch {
	case kind < 9 && len(out) > 0: // several callers announce the same new peer
		x := pick(out)
		for i := 0; i < many; i++ {
			ops = append(ops, Op{K: "add", P: []byte(x)})
		}
		if len(in) > 0 && r.Chance(1, 3) {
			ops = append(ops, Op{K: "rm", P: []byte(pick(in))})
		}
	case kind < 15 && len(in) > 0: // several callers remove the same peer
		x := pick(in)
		for i := 0; i < many; i++ {
			ops = append(ops, Op{K: "rm", P: []byte(x)})
		}
		if len(out) > 0 && r.Chance(1, 3) {
			ops = append(ops, Op{K: "add", P: []byte(pick(out))})
		}
	case kind < 17: // add and remove of one peer meet: either order is fine, nothing else is
		x := fmt.Sprintf("e%d", r.Intn(raceExtras))
		for i := 0; i < many; i++ {
			ops = append(ops, Op{K: []string{"add", "rm"}[i%2], P: []byte(x)})
		}
	default: // distinct updates: a new peer, a leaving peer, a configured peer leaving or returning
		if len(out) > 0 {
			ops = append(ops, Op{K: "add", P: []byte(pick(out))})
		}
		if len(in) > 0 {
			ops = append(ops, Op{K: "rm", P: []byte(pick(in))})
		}
		ops = append(ops, Op{K: []string{"add", "rm"}[r.Intn(2)], P: []byte(other())})
	}
	if r.Chance(1, 2) && len(ops) < d.G { // the health ticker marks a peer meanwhile
		ops = append(ops, Op{K: "health", P: []byte(other()), H: r.Chance(1, 2)})
	}
	if len(ops) > d.G-1 {
		ops = ops[:d.G-1] // at least one query
	}
	for len(ops) < d.G {
		ops = append(ops, query())
	}
	for i := len(ops) - 1; i > 0; i-- { // which goroutine gets which call
		j := r.Intn(i + 1)
		ops[i], ops[j] = ops[j], ops[i]
	}
	return ops
}

// raceNames gives every peer name and subscriber key of a case a short Coq identifier (the case
// files are dominated by parsing byte-list literals; vh.Emit writes each definition once per shard).
type raceNames struct {
	id   map[string]string
	defs []vh.Def
}

func (n *raceNames) def(name, s string) {
	n.id[s] = name
	n.defs = append(n.defs, vh.Def{Name: name, Type: "bytes", Body: vh.Str(s)})
}

// term: the identifier of a known name, the literal otherwise (an answer outside the universe)
func (n *raceNames) term(s string) string {
	if id, ok := n.id[s]; ok {
		return id
	}
	return vh.Str(s)
}

func (n *raceNames) list(l []string) string {
	o := make([]string, len(l))
	for i, s := range l {
		o[i] = n.term(s)
	}
	return vh.List(o)
}

func runRace(d RaceDesc) vh.Case {
	var peers []string
	for i := 0; i < d.Base; i++ {
		peers = append(peers, fmt.Sprintf("n%02d", i))
	}
	p, err := pool.NewPeerPool(pool.PeerPoolConfig{NodeID: "n00", Peers: append([]string(nil), peers...), Network: "10.0.0.0/24", Gateway: "10.0.0.1"})
	if err != nil {
		panic(err)
	}
	nm := &raceNames{id: map[string]string{}}
	universe := append([]string(nil), peers...)
	for i := 0; i < raceExtras; i++ {
		universe = append(universe, fmt.Sprintf("e%d", i))
	}
	for _, s := range universe { // one shard holds cases with different universes: the identifier is the name itself
		nm.def("p_"+s, s)
	}
	for i, s := range raceKeys {
		nm.def(fmt.Sprintf("key%d", i), s)
	}
	r := vh.NewRng(d.Seed)
	spinYield := runtime.GOMAXPROCS(0) <= d.G // fewer processors than spinning callers: let the others arrive
	present := map[string]bool{}
	var rounds []string
	dupSeen := false
	// G workers live through all rounds (no thread goes to sleep between rounds); the coordinator
	// publishes the calls of a round, the workers meet at a spinning barrier and leave it together
	var (
		ops       []Op
		calls     []raceCall
		published atomic.Int64 // rounds whose calls are published
		arrived   atomic.Int64 // workers that reached a barrier (all rounds)
		finished  atomic.Int64 // calls that returned (all rounds)
		wg        sync.WaitGroup
	)
	spin := func() {
		if spinYield {
			runtime.Gosched()
		}
	}
	for g := 0; g < d.G; g++ {
		wg.Add(1)
		go func(g int) {
			defer wg.Done()
			for rd := 0; rd < d.Rounds; rd++ {
				for published.Load() <= int64(rd) {
					runtime.Gosched()
				}
				arrived.Add(1)
				for arrived.Load() < int64((rd+1)*d.G) { // barrier: everybody leaves together
					spin()
				}
				calls[g] = raceCall{ops[g], raceDo(p, nm, ops[g])}
				finished.Add(1)
			}
		}(g)
	}
	for rd := 0; rd < d.Rounds; rd++ {
		ops = raceRound(r, d, present)
		calls = make([]raceCall, len(ops))
		published.Store(int64(rd + 1))
		for finished.Load() < int64((rd+1)*d.G) {
			runtime.Gosched()
		}

		var tr []string
		for _, c := range calls {
			tr = append(tr, vh.Pair(opTerm(nm, c.op), c.out))
		}
		nodes := p.VerifPeerNodes()
		present = map[string]bool{}
		seen := map[string]bool{}
		for _, n := range nodes {
			present[n] = true
			if seen[n] {
				dupSeen = true
			}
			seen[n] = true
		}
		var un []string
		for _, n := range universe {
			if h, _ := p.VerifPeerHealth(n); !h {
				un = append(un, n)
			}
		}
		sort.Strings(un)
		rounds = append(rounds, vh.Pair(vh.List(tr), vh.Pair(nm.list(nodes), nm.list(un))))
	}
	wg.Wait()
	tags := []string{"race", fmt.Sprintf("racepeers:%d", d.Base), fmt.Sprintf("rounds:%d", d.Rounds), fmt.Sprintf("callers:%d", d.G)}
	if dupSeen {
		tags = append(tags, "race:duplicate-peer-seen")
	}
	coq := "(" + vh.Pair(nm.term("n00"), nm.list(peers)) + ",\n  [" + joinLines(rounds) + "])"
	return vh.Case{Coq: coq, Desc: Case{Race: &d}, Tags: tags, Defs: nm.defs}
}

func joinLines(l []string) string {
	s := ""
	for i, x := range l {
		if i > 0 {
			s += ";\n   "
		}
		s += x
	}
	return s
}

// opTerm is the Model op of a call at node 0.
func opTerm(nm *raceNames, o Op) string {
	a := nm.term(string(o.P))
	switch o.K {
	case "add":
		return "AddPeer 0 " + a
	case "rm":
		return "RemovePeer 0 " + a
	case "health":
		return fmt.Sprintf("SetHealth 0 %s %s", a, vh.Bool(o.H))
	case "owner":
		return "GetOwner 0 " + a
	case "local":
		return "IsLocal 0 " + a
	case "ranked":
		return "Ranked 0 " + a
	case "howner":
		return "HealthyOwner 0 " + a
	}
	panic("race: op " + o.K)
}

// raceDo performs one call on the real object and returns the Coq term of its answer.
func raceDo(p *pool.PeerPool, nm *raceNames, o Op) string {
	switch o.K {
	case "add":
		p.AddPeer(string(o.P))
	case "rm":
		p.RemovePeer(string(o.P))
	case "health":
		p.VerifSetPeerHealth(string(o.P), o.H)
	case "owner":
		return "OStr " + nm.term(p.GetOwner(string(o.P)))
	case "local":
		return "OBool " + vh.Bool(p.IsLocalOwner(string(o.P)))
	case "ranked":
		return "OList " + nm.list(p.VerifRanked(string(o.P)))
	case "howner":
		return "OStr " + nm.term(p.VerifHealthyOwner(string(o.P)))
	}
	return "ONone"
}

const raceHeader = `From Coq Require Import NArith List. Import ListNotations.
From Verif Require Import Base.Word Model.Rendezvous Model.RendezvousRace.
Local Open Scope N_scope.
Definition cases : list race_case := [
`
const raceFooter = `
].
Definition R := Eval vm_compute in run_race cases.
Print R.
`

// raceCases: peer lists of 2 / 12 / 40 names (a longer list keeps a reader inside the list longer).
func raceCases(r *vh.Rng, thorough bool) []vh.Case {
	n, rounds := 6, 100
	if thorough {
		n, rounds = 30, 300
	}
	if runtime.GOMAXPROCS(0) < 2 {
		return nil // no parallelism: nothing to sample
	}
	var cs []vh.Case
	for i := 0; i < n; i++ {
		d := RaceDesc{Base: []int{12, 2, 40}[i%3], Rounds: rounds, G: 8, Seed: r.U64()}
		cs = append(cs, runRace(d))
	}
	return cs
}
