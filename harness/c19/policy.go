// Stream "policy": the operator's plan table (real radius.PolicyManager) driven through whole life cycles —
// define, apply to subscribers, RE-define (downgrade, upgrade, to/from unlimited, burst or priority only),
// LoadDefaultPolicies before / after operator plans of the same names, remove, unknown names — with the real
// qos.Manager writing the real kernel maps after every (re-)application and the real TC program measuring
// what is enforced: after each application the subscriber is offered 2-4 times the highest rate any definition
// of its plan ever had, for as long as that rate needs to fill the deepest bucket of any definition, so that
// a data path enforcing any definition other than the one in force admits or refuses measurably more than
// the contract allows.
package main

import (
	"sort"

	"verifharness/vh"

	"github.com/codelaboratoryltd/bng/pkg/radius"
)

type planDef struct {
	Down, Up uint64
	Burst    uint32
	Prio     uint8
}

var operatorNames = []string{"gold", "silver", "Gold", "p-80m", "FTTP 1000/100", "x", "donn\u00e9es-50", "GUEST"}

func builtinNames() []string {
	var l []string
	for _, p := range radius.DefaultPolicies() {
		l = append(l, p.Name)
	}
	return l
}

var planRates = []uint64{0, 8000, 64000, 1000000, 10000000, 20000000, 80000000, 200000000, 1000000000, 10000000000}
var planBursts = []uint32{0, 0, 0, 1500, 3000, 6000, 65536, 100000, 1000000, 2000000}

func pickPlan(r *vh.Rng, kernel bool) planDef {
	if kernel {
		// frames travel through BPF_PROG_TEST_RUN one by one under the real clock: small explicit bursts and
		// low rates so that a dozen 1500-byte frames tell one definition from another
		return planDef{Down: []uint64{0, 8000, 64000, 1000000}[r.Intn(4)], Up: []uint64{0, 8000, 64000}[r.Intn(3)],
			Burst: []uint32{1500, 3000, 4500, 6000, 9000}[r.Intn(5)], Prio: uint8(r.Intn(8))}
	}
	if r.Chance(1, 5) {
		d := radius.DefaultPolicies()
		p := d[r.Intn(len(d))]
		return planDef{p.DownloadBPS, p.UploadBPS, p.BurstSize, p.Priority}
	}
	pd := planDef{Down: planRates[r.Intn(len(planRates))], Up: planRates[r.Intn(len(planRates))],
		Burst: planBursts[r.Intn(len(planBursts))], Prio: uint8(r.Intn(8))}
	if r.Chance(1, 4) {
		pd.Down = pickRate(r)
	}
	if r.Chance(1, 6) {
		pd.Burst = pickBurst(r)
	}
	return pd
}

func clampU32(v uint64) uint64 {
	b := uint64(uint32(v))
	if b < 65536 {
		return 65536
	}
	if b > 10*1024*1024 {
		return 10 * 1024 * 1024
	}
	return b
}

// the largest bucket depth any reading of this definition gives (policy burst, documented default, what the
// manager writes for egress / ingress): only used to size the offered traffic
func (p planDef) depth(d int) uint64 {
	rate := p.Down
	if d == 1 {
		rate = p.Up
	}
	b := clampU32(rate / 8)
	if uint64(p.Burst) > b {
		b = uint64(p.Burst)
	}
	return b
}
func (p planDef) rate(d int) uint64 {
	if d == 1 {
		return p.Up
	}
	return p.Down
}

type polSub struct {
	ip   []byte
	d    int
	name string
}

type polGen struct {
	r      *vh.Rng
	c      *Case
	kernel bool
	now    uint64
	maxN   uint64
	seen   map[string][]planDef // every definition a name ever had in this case (sizing only)
	tags   map[string]bool
}

func (g *polGen) op(o Op)      { g.c.Ops = append(g.c.Ops, o) }
func (g *polGen) tag(t string) { g.tags[t] = true }

func (g *polGen) define(name string, p planDef) {
	g.op(Op{K: "poladd", Name: name, Down: p.Down, Up: p.Up, Burst: p.Burst, Prio: p.Prio})
	if name != "" {
		if len(g.seen[name]) > 0 {
			g.tag("pol:redefinition")
		}
		g.seen[name] = append(g.seen[name], p)
	}
}

func (g *polGen) loadDefaults() {
	g.op(Op{K: "poldef"})
	for _, p := range radius.DefaultPolicies() {
		if len(g.seen[p.Name]) > 0 {
			g.tag("pol:defaults-over-operator-plan")
		}
		g.seen[p.Name] = append(g.seen[p.Name], planDef{p.DownloadBPS, p.UploadBPS, p.BurstSize, p.Priority})
	}
}

// offer the subscriber enough to tell every definition its plan ever had from every other one
func (g *polGen) measure(s polSub) {
	defs := g.seen[s.name]
	var depth, rate uint64
	for _, p := range defs {
		if p.depth(s.d) > depth {
			depth = p.depth(s.d)
		}
		if p.rate(s.d) > rate {
			rate = p.rate(s.d)
		}
	}
	if depth == 0 {
		depth = 65536
	}
	if rate == 0 {
		rate = 100000000
	}
	if g.kernel {
		// frames of 1500 bytes through the kernel, real clock
		n := int(depth/1500) + 3
		if n > 14 {
			n = 14
		}
		for i := 0; i < n; i++ {
			f := append(subFrame(s.d, s.ip), make([]byte, 1466)...)
			g.op(Op{K: "pkt", D: s.d, Frame: f, Plen: uint32(len(f))})
		}
		return
	}
	size := uint64(1500)
	switch {
	case depth > 400000:
		size = 65535
	case depth > 40000:
		size = 9000
	}
	// f times the highest rate for the time that rate needs to fill the deepest bucket once: the initial
	// bucketful plus about one more is admitted when the definition in force is the one enforced
	f := uint64(2 + g.r.Intn(3))
	n := f*depth/size + 8
	if n > g.maxN {
		n = g.maxN
	}
	gap := size * 8 * 1000000000 / rate / f
	if gap == 0 {
		gap = 1
	}
	if g.r.Chance(1, 4) {
		g.now = advance(g.now, gaps[g.r.Intn(12)])
	}
	g.op(Op{K: "rep", D: s.d, IP: s.ip, Plen: uint32(size), Now: g.now, Gap: gap, N: n})
	g.now = advance(g.now, gap*n)
	if g.r.Chance(1, 3) {
		g.now = advance(g.now, gaps[g.r.Intn(12)])
		g.op(Op{K: "sub", D: s.d, IP: s.ip, Plen: pickSize(g.r), Now: g.now})
	}
}

func (g *polGen) redefine(name string) {
	old := g.seen[name][len(g.seen[name])-1]
	p := old
	f := uint64(2 + g.r.Intn(9))
	switch g.r.Intn(7) {
	case 0:
		g.tag("redef:downgrade")
		p.Down, p.Up = old.Down/f, old.Up/f
		if old.Down == 0 {
			p.Down, p.Up = planRates[1+g.r.Intn(len(planRates)-1)], planRates[1+g.r.Intn(len(planRates)-1)]
			g.tag("redef:unlimited-to-limited")
		}
	case 1:
		g.tag("redef:upgrade")
		p.Down, p.Up = old.Down*f, old.Up*f
	case 2:
		g.tag("redef:to-unlimited")
		p.Down, p.Up = 0, 0
		if old.Down == 0 {
			p.Down, p.Up = planRates[1+g.r.Intn(len(planRates)-1)], planRates[1+g.r.Intn(len(planRates)-1)]
			g.tag("redef:unlimited-to-limited")
		}
	case 3:
		g.tag("redef:burst-only")
		p.Burst = pickPlan(g.r, g.kernel).Burst
		if p.Burst == old.Burst {
			p.Burst = old.Burst/2 + 1500
		}
	case 4:
		g.tag("redef:priority-only")
		p.Prio = (old.Prio + 1 + uint8(g.r.Intn(7))) % 8
	case 5:
		g.tag("redef:same-values")
	default:
		g.tag("redef:new-plan")
		p = pickPlan(g.r, g.kernel)
	}
	g.define(name, p)
}

func genPolicy(r *vh.Rng, mode string, maxN uint64) Case {
	c := Case{Mode: mode}
	g := &polGen{r: r, c: &c, kernel: mode == "kernel", now: 5000000000, maxN: maxN, seen: map[string][]planDef{}, tags: map[string]bool{"stream:policy": true}}
	builtin := builtinNames()
	if r.Chance(1, 3) {
		g.loadDefaults()
		g.tag("pol:defaults-first")
	}
	// plans: operator names and built-in names (an operator plan named like a built-in overrides it, or is
	// overridden by a later LoadDefaultPolicies)
	var names []string
	for i, n := 0, 1+r.Intn(2); i < n; i++ {
		name := operatorNames[r.Intn(len(operatorNames))]
		if r.Chance(1, 3) {
			name = builtin[r.Intn(len(builtin))]
			if len(g.seen[name]) > 0 {
				g.tag("pol:operator-overrides-builtin")
			}
		}
		g.define(name, pickPlan(r, g.kernel))
		names = append(names, name)
	}
	// subscribers
	var subs []polSub
	for i, n := 0, 1+r.Intn(2); i < n; i++ {
		ip := palin[r.Intn(len(palin))]
		if r.Chance(1, 4) {
			ip = nonpal[r.Intn(len(nonpal))]
			g.tag("sub:non-palindromic")
		}
		d := 0
		if r.Chance(1, 4) {
			d = 1
		}
		s := polSub{ip, d, names[r.Intn(len(names))]}
		if r.Chance(1, 6) && len(g.seen) > len(names) { // a built-in plan straight from the defaults
			s.name = builtin[r.Intn(len(builtin))]
		}
		subs = append(subs, s)
		g.op(Op{K: "apply", IP: ip, Name: s.name})
	}
	if r.Chance(1, 3) {
		g.op(Op{K: "polget", Name: subs[0].name})
	}
	if r.Chance(1, 3) {
		g.op(Op{K: "snap", D: 0})
		g.op(Op{K: "snap", D: 1})
	}
	for _, s := range subs {
		if !r.Chance(1, 4) {
			g.measure(s)
		}
	}
	// life cycle rounds
	for round, nr := 0, 1+r.Intn(2); round < nr; round++ {
		s := subs[r.Intn(len(subs))]
		removed := false
		switch r.Intn(8) {
		case 0:
			g.loadDefaults()
		case 1:
			g.op(Op{K: "polrm", Name: s.name})
			g.tag("pol:remove")
			removed = true
		default:
			g.redefine(s.name)
		}
		if r.Chance(1, 2) {
			g.op(Op{K: "polget", Name: s.name})
		}
		if r.Chance(1, 4) {
			g.op(Op{K: "pollist"})
		}
		reapply := !r.Chance(1, 6)
		if !reapply {
			g.tag("pol:not-reapplied") // the subscribers keep the contract they were given
		}
		for _, t := range subs {
			if t.name == s.name && reapply {
				g.op(Op{K: "apply", IP: t.ip, Name: t.name})
			}
		}
		if removed && r.Chance(1, 2) {
			g.define(s.name, pickPlan(r, g.kernel)) // defined again after removal
			for _, t := range subs {
				if t.name == s.name {
					g.op(Op{K: "apply", IP: t.ip, Name: t.name})
				}
			}
		}
		if r.Chance(1, 3) {
			g.op(Op{K: "snap", D: s.d})
		}
		for _, t := range subs {
			if t.name == s.name || r.Chance(1, 4) {
				g.measure(t)
			}
		}
	}
	// edges of the table
	switch r.Intn(6) {
	case 0:
		g.op(Op{K: "apply", IP: subs[0].ip, Name: "no-such-plan"})
		g.op(Op{K: "polget", Name: "no-such-plan"})
	case 1:
		g.define("", pickPlan(r, g.kernel)) // refused: name required
		g.op(Op{K: "pollist"})
	case 2:
		g.op(Op{K: "apply", IP: []byte{0x20, 1, 0xd, 0xb8, 0, 0, 0, 0, 0, 0, 0, 0, 0, 0, 0, 1}, Name: subs[0].name}) // IPv6: refused
	case 3:
		g.op(Op{K: "rm", IP: subs[0].ip})
		g.measure(subs[0]) // no contract any more: nothing may be dropped
	}
	g.op(Op{K: "snap", D: 0})
	g.op(Op{K: "snap", D: 1})
	for t := range g.tags {
		c.Tags = append(c.Tags, t)
	}
	sort.Strings(c.Tags)
	return c
}

// the built-in table, exhaustively: every default plan read back, listed, applied and measured
func builtinCases(r *vh.Rng) []Case {
	var cs []Case
	for i, p := range radius.DefaultPolicies() {
		c := Case{Mode: "native", Tags: []string{"stream:policy", "pol:builtin-exhaustive"}}
		g := &polGen{r: r.Fork(), c: &c, now: 5000000000, maxN: 700, seen: map[string][]planDef{}, tags: map[string]bool{}}
		g.loadDefaults()
		g.op(Op{K: "pollist"})
		g.op(Op{K: "polget", Name: p.Name})
		ip := palin[i%len(palin)]
		g.op(Op{K: "apply", IP: ip, Name: p.Name})
		g.op(Op{K: "snap", D: 0})
		g.op(Op{K: "snap", D: 1})
		g.measure(polSub{ip, 0, p.Name})
		cs = append(cs, c)
	}
	return cs
}
