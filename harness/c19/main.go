// C19 correspondence driver: bpf/qos_ratelimit.c (native build with scripted clock + the object loaded
// in the kernel under BPF_PROG_TEST_RUN) and the real qos.Manager / radius.PolicyManager writing into
// real kernel maps, against Model/TcQos.v + Model/QosMgr.v; traces judged by Model/TcQosSpec.v.
package main

import (
	"bytes"
	"encoding/binary"
	"fmt"
	"math/big"
	"net"
	"os"
	"path/filepath"
	"sort"
	"strings"
	"time"

	"verifharness/bpfrun"
	"verifharness/vh"

	"github.com/codelaboratoryltd/bng/pkg/qos"
	"github.com/codelaboratoryltd/bng/pkg/radius"
	"go.uber.org/zap"
	"golang.org/x/sys/unix"
)

type Op struct {
	K     string `json:"k"` // put set rm pkt sub rep snap | poladd polrm polget poldef pollist apply
	D     int    `json:"d"` // 0 egress, 1 ingress
	Key   []byte `json:"key,omitempty"`
	Val   []byte `json:"val,omitempty"`
	IP    []byte `json:"ip,omitempty"`
	Down  uint64 `json:"down,omitempty"`
	Up    uint64 `json:"up,omitempty"`
	Burst uint32 `json:"burst,omitempty"`
	Prio  uint8  `json:"prio,omitempty"`
	Pol   bool   `json:"pol,omitempty"` // through PolicyManager + SetSubscriberPolicy
	Frame []byte `json:"frame,omitempty"`
	Plen  uint32 `json:"plen,omitempty"`
	Now   uint64 `json:"now,omitempty"`
	Gap   uint64 `json:"gap,omitempty"`
	N     uint64 `json:"n,omitempty"`
	Name  string `json:"name,omitempty"` // plan name (poladd polrm polget apply)
}
type Case struct {
	Mode string   `json:"mode"` // native | kernel
	Ops  []Op     `json:"ops"`
	Tags []string `json:"tags,omitempty"` // generator's description of the shape (evidence only)
}

var mapName = [2]string{"qos_egress", "qos_ingress"}
var progName = [2]string{"qos_egress_prog", "qos_ingress_prog"}
var dirName = [2]string{"Egress", "Ingress"}

type env struct {
	obj    *bpfrun.Object
	nat    *bpfrun.Native
	kernel bool
	// counters for evidence
	kernelRuns, nativeRuns, kvCompared, kvDisagree, faults int
	disagreeNote                                           string
}

func subFrame(d int, ip []byte) []byte {
	f := []byte{255, 255, 255, 255, 255, 255, 2, 0, 0, 0, 0, 1, 8, 0, 69, 0, 0, 84, 0, 0, 0, 0, 64, 17, 0, 0}
	other := []byte{192, 0, 2, 1}
	if d == 0 {
		f = append(f, other...)
		f = append(f, ip...)
	} else {
		f = append(f, ip...)
		f = append(f, other...)
	}
	return f
}

func encTB(tokens, last, rate uint64, burst uint32, prio uint8) []byte {
	b := make([]byte, 32)
	binary.LittleEndian.PutUint64(b[0:], tokens)
	binary.LittleEndian.PutUint64(b[8:], last)
	binary.LittleEndian.PutUint64(b[16:], rate)
	binary.LittleEndian.PutUint32(b[24:], burst)
	b[28] = prio
	return b
}

func (e *env) syncNativeToKernel() {
	if !e.kernel {
		return
	}
	for _, m := range mapName {
		kvs, err := e.nat.Dump(m)
		must(err)
		must(e.obj.Clear(m))
		for _, kv := range kvs {
			must(e.obj.Put(m, kv.Key, kv.Value))
		}
	}
}
func (e *env) syncKernelToNative() {
	for _, m := range mapName {
		kvs, err := e.obj.Dump(m)
		must(err)
		must(e.nat.Clear(m))
		for _, kv := range kvs {
			must(e.nat.Put(m, kv.Key, kv.Value))
		}
	}
}

func must(err error) {
	if err != nil {
		fmt.Fprintln(os.Stderr, "c19 driver:", err)
		os.Exit(3)
	}
}

// bs prints a byte string as (B n 0xHEX): one numeral, decoded by Model/TcQos.v B.
func bs(b []byte) string {
	if len(b) == 0 {
		return "(B 0 0)"
	}
	// trailing zero run compressed, the rest in chunks of 32 bytes (one number each)
	z := 0
	for z < len(b) && b[len(b)-1-z] == 0 {
		z++
	}
	if z < 8 {
		z = 0
	}
	body := b[:len(b)-z]
	var parts []string
	for len(body) > 0 {
		n := len(body)
		if n > 32 {
			n = 32
		}
		parts = append(parts, fmt.Sprintf("B %d %s", n, vh.BigN(new(big.Int).SetBytes(body[:n]))))
		body = body[n:]
	}
	if z > 0 {
		parts = append(parts, fmt.Sprintf("Zs %d", z))
	}
	return "(" + strings.Join(parts, " ++ ") + ")"
}

func num(v uint64) string { return vh.BigN(new(big.Int).SetUint64(v)) }

func coqKV(kvs []bpfrun.KV) string {
	var it []string
	for _, kv := range kvs {
		it = append(it, vh.Pair(bs(kv.Key), bs(kv.Value)))
	}
	return vh.List(it)
}

func monoNow() uint64 {
	var ts unix.Timespec
	unix.ClockGettime(unix.CLOCK_MONOTONIC, &ts)
	return uint64(ts.Sec)*1000000000 + uint64(ts.Nsec)
}

// run executes one case on the real code and returns its Coq term (ops with observed outputs).
func (e *env) run(c Case) vh.Case {
	tags := map[string]bool{"mode:" + c.Mode: true}
	for _, t := range c.Tags {
		tags[t] = true
	}
	must(e.nat.Clear(mapName[0]))
	must(e.nat.Clear(mapName[1]))
	var mgr *qos.Manager
	var pm *radius.PolicyManager
	if e.kernel {
		must(e.obj.Clear(mapName[0]))
		must(e.obj.Clear(mapName[1]))
		pm = radius.NewPolicyManager()
		var err error
		mgr, err = qos.NewManager(qos.ManagerConfig{Interface: "verif0"}, pm, zap.NewNop())
		must(err)
		mgr.VerifInjectMaps(e.obj.Map(mapName[0]), e.obj.Map(mapName[1]), e.obj.Map("qos_stats_map"))
	}
	kmode := c.Mode == "kernel"
	var tr []string
	polN := 0
	for i := range c.Ops {
		o := &c.Ops[i]
		d := o.D & 1
		switch o.K {
		case "put":
			tags["op:put"] = true
			out := "OUnit"
			if len(o.Key) != 4 || len(o.Val) != 32 {
				out = "OErr"
				if err := e.nat.Put(mapName[d], o.Key, o.Val); err == nil {
					out = "OUnit" // runner accepted a wrong-sized entry: will show as a mismatch
				}
			} else {
				must(e.nat.Put(mapName[d], o.Key, o.Val))
				if e.kernel {
					must(e.obj.Put(mapName[d], o.Key, o.Val))
				}
			}
			tr = append(tr, fmt.Sprintf("(PutRaw %s %s %s, %s)", dirName[d], bs(o.Key), bs(o.Val), out))
		case "set", "rm":
			tags["op:"+o.K] = true
			if !kmode {
				e.syncNativeToKernel()
			}
			var err error
			var ip net.IP
			if o.IP != nil {
				ip = net.IP(o.IP)
			}
			if o.K == "rm" {
				err = mgr.RemoveSubscriberQoS(ip)
			} else if o.Pol {
				tags["via:policy"] = true
				polN++
				name := fmt.Sprintf("p%d", polN)
				must(pm.AddPolicy(&radius.QoSPolicy{Name: name, DownloadBPS: o.Down, UploadBPS: o.Up, BurstSize: o.Burst, Priority: o.Prio}))
				err = mgr.SetSubscriberPolicy(ip, name)
			} else {
				err = mgr.SetSubscriberQoS(&qos.SubscriberQoS{IP: ip, DownloadBPS: o.Down, UploadBPS: o.Up, BurstBytes: o.Burst, Priority: o.Prio})
			}
			e.syncKernelToNative()
			out := "OUnit"
			if err != nil {
				out = "OErr"
				tags["mgr:error"] = true
			}
			if o.K == "rm" {
				tr = append(tr, fmt.Sprintf("(Remove %s, %s)", bs(o.IP), out))
			} else {
				tr = append(tr, fmt.Sprintf("(SetQoS %s %s %s %s %s %d, %s)", vh.Bool(o.Pol), bs(o.IP), num(o.Down), num(o.Up), num(uint64(o.Burst)), o.Prio, out))
			}
		case "poladd", "polrm", "polget", "poldef", "pollist":
			// the real radius.PolicyManager that the qos.Manager of this case resolves plan names with
			tags["op:"+o.K] = true
			switch o.K {
			case "poladd":
				err := pm.AddPolicy(&radius.QoSPolicy{Name: o.Name, DownloadBPS: o.Down, UploadBPS: o.Up, BurstSize: o.Burst, Priority: o.Prio})
				out := "OUnit"
				if err != nil {
					out = "OErr"
					tags["pol:add-refused"] = true
				}
				tr = append(tr, fmt.Sprintf("(PolAdd %s %s %s %s %d, %s)", bs([]byte(o.Name)), num(o.Down), num(o.Up), num(uint64(o.Burst)), o.Prio, out))
			case "polrm":
				pm.RemovePolicy(o.Name)
				tr = append(tr, fmt.Sprintf("(PolRemove %s, OUnit)", bs([]byte(o.Name))))
			case "polget":
				out := "OPol None"
				if p := pm.GetPolicy(o.Name); p != nil {
					out = fmt.Sprintf("OPol (Some (%s, %s, %s, %d))", num(p.DownloadBPS), num(p.UploadBPS), num(uint64(p.BurstSize)), p.Priority)
				} else {
					tags["pol:get-none"] = true
				}
				tr = append(tr, fmt.Sprintf("(PolGet %s, %s)", bs([]byte(o.Name)), out))
			case "poldef":
				pm.LoadDefaultPolicies()
				tr = append(tr, "(PolLoadDefaults, OUnit)")
			case "pollist":
				names := pm.ListPolicies()
				sort.Strings(names)
				var it []string
				for _, n := range names {
					it = append(it, bs([]byte(n)))
				}
				tr = append(tr, fmt.Sprintf("(PolList, ONames %s)", vh.List(it)))
			}
		case "apply":
			tags["op:apply"] = true
			if !kmode {
				e.syncNativeToKernel()
			}
			var ip net.IP
			if o.IP != nil {
				ip = net.IP(o.IP)
			}
			err := mgr.SetSubscriberPolicy(ip, o.Name)
			e.syncKernelToNative()
			out := "OUnit"
			if err != nil {
				out = "OErr"
				tags["apply:error"] = true
			}
			tr = append(tr, fmt.Sprintf("(ApplyPol %s %s, %s)", bs(o.IP), bs([]byte(o.Name)), out))
		case "pkt", "sub":
			frame := o.Frame
			if o.K == "sub" {
				frame = subFrame(d, o.IP)
			}
			var verdict int64
			var prio uint32
			fault := false
			if kmode && len(frame) >= 14 && o.Plen == uint32(len(frame)) {
				tags["run:kernel"] = true
				before, err := e.obj.Dump(mapName[d])
				must(err)
				fallback := monoNow()
				v, _, ctx, err := e.obj.RunTC(progName[d], frame, nil)
				must(err)
				e.kernelRuns++
				after, err := e.obj.Dump(mapName[d])
				must(err)
				now, touched := fallback, false
				for j := range after {
					if j < len(before) && bytes.Equal(before[j].Key, after[j].Key) && !bytes.Equal(before[j].Value[8:16], after[j].Value[8:16]) {
						now, touched = binary.LittleEndian.Uint64(after[j].Value[8:16]), true
					}
				}
				if touched {
					tags["kernel:bucket-hit"] = true
				}
				o.Now = now
				verdict, prio = int64(int32(v)), ctx.Priority
				// replay natively with the clock value the kernel used; verdict, priority and both maps must agree
				must(e.nat.Clock(now, 0))
				res, err := e.nat.Run(progName[d], frame, &bpfrun.RunOpts{SkbLen: o.Plen})
				must(err)
				e.nativeRuns++
				e.kvCompared++
				nd, err := e.nat.Dump(mapName[d])
				must(err)
				if res.Fault || int64(res.Verdict) != verdict || res.Priority != prio || coqKV(nd) != coqKV(after) {
					e.kvDisagree++
					tags["kernel-native-disagree"] = true
					if e.disagreeNote == "" {
						e.disagreeNote = fmt.Sprintf("frame=%x now=%d kernel(ret=%d prio=%d) native(ret=%d prio=%d fault=%v)", frame, now, verdict, prio, res.Verdict, res.Priority, res.Fault)
					}
					e.syncKernelToNative()
				}
			} else {
				tags["run:native"] = true
				must(e.nat.Clock(o.Now, 0))
				res, err := e.nat.Run(progName[d], frame, &bpfrun.RunOpts{SkbLen: o.Plen})
				must(err)
				e.nativeRuns++
				verdict, prio, fault = int64(res.Verdict), res.Priority, res.Fault
				if kmode {
					e.syncNativeToKernel()
				}
			}
			out := fmt.Sprintf("OVerdict %d %d", verdict, prio)
			if fault {
				e.faults++
				out = "OOob"
				tags["fault"] = true
			} else {
				tags[fmt.Sprintf("verdict:%d", verdict)] = true
			}
			if o.K == "sub" {
				tr = append(tr, fmt.Sprintf("(Sub %s %s %d %s, %s)", dirName[d], bs(o.IP), o.Plen, num(o.Now), out))
			} else {
				tags[fmt.Sprintf("framelen:%s", lenClass(len(frame)))] = true
				tr = append(tr, fmt.Sprintf("(Pkt %s %s %d %s, %s)", dirName[d], bs(frame), o.Plen, num(o.Now), out))
			}
		case "rep":
			tags["op:rep"] = true
			rle, faults, err := e.nat.RunSeq(progName[d], subFrame(d, o.IP), o.N, o.Now, o.Gap, &bpfrun.RunOpts{SkbLen: o.Plen})
			must(err)
			e.nativeRuns += int(o.N)
			e.faults += faults
			var it []string
			for _, r := range rle {
				v := int64(r.Verdict)
				if v == -999 {
					v = 999
				}
				it = append(it, fmt.Sprintf("(%d, %d)", v, r.Count))
				tags[fmt.Sprintf("verdict:%d", v)] = true
			}
			if kmode {
				e.syncNativeToKernel()
			}
			tr = append(tr, fmt.Sprintf("(Rep %s %s %d %s %s %d, ORle %s)", dirName[d], bs(o.IP), o.Plen, num(o.Now), num(o.Gap), o.N, vh.List(it)))
		case "snap":
			var kvs []bpfrun.KV
			var err error
			if kmode {
				kvs, err = e.obj.Dump(mapName[d])
			} else {
				kvs, err = e.nat.Dump(mapName[d])
			}
			must(err)
			tr = append(tr, fmt.Sprintf("(Snap %s, OSnap %s)", dirName[d], coqKV(kvs)))
		}
	}
	var tl []string
	for t := range tags {
		tl = append(tl, t)
	}
	return vh.Case{Coq: vh.List(tr), Desc: c, Tags: tl}
}

func lenClass(n int) string {
	switch {
	case n < 14:
		return "<14"
	case n < 34:
		return "14..33"
	default:
		return ">=34"
	}
}

// ------------------------------------------------------------------------------ generators

var rates = []uint64{1000, 8000, 15, 9, 64000, 1000000, 1000001, 10000000, 100000000, 1000000000, 10000000000, 100000000000, 0}
var bursts = []uint32{1, 1500, 65536, 4294967295, 100, 3000, 1000000}
var gaps = []uint64{0, 0, 1, 10, 1000, 100000, 500000, 999999, 1000000, 7999999, 10000000, 1000000000, 1475739526, 2000000000, 86400 * 1000000000, 3 * 86400 * 1000000000}
var sizes = []uint32{1, 64, 100, 1000, 1500, 9000, 65535}
var origins = []uint64{0, 1, 1000, 1000000000, 1 << 40, 1 << 63, (1 << 64) - 1 - 400000000000000, (1 << 64) - 1 - 5000000000, (1 << 64) - 1 - 1000}
var palin = [][]byte{{10, 1, 1, 10}, {7, 7, 7, 7}, {1, 2, 2, 1}, {100, 64, 64, 100}}
var nonpal = [][]byte{{10, 0, 0, 2}, {2, 0, 0, 10}, {192, 168, 1, 20}, {20, 1, 168, 192}, {100, 64, 0, 7}}

func pickRate(r *vh.Rng) uint64 {
	if r.Chance(1, 4) {
		// log-uniform 1 kbit/s .. 100 Gbit/s
		e := r.Intn(27) + 10
		return (uint64(1) << uint(e)) + r.U64()%(uint64(1)<<uint(e))
	}
	return rates[r.Intn(len(rates))]
}
func pickBurst(r *vh.Rng) uint32 {
	if r.Chance(1, 4) {
		return uint32(1 + r.U64()%4294967295)
	}
	return bursts[r.Intn(len(bursts))]
}
func pickSize(r *vh.Rng) uint32 {
	if r.Chance(1, 4) {
		return uint32(1 + r.Intn(65535))
	}
	return sizes[r.Intn(len(sizes))]
}
func rev(b []byte) []byte { return []byte{b[3], b[2], b[1], b[0]} }

func advance(now, gap uint64) uint64 {
	if now+gap < now {
		return ^uint64(0)
	}
	return now + gap
}

// token-bucket arithmetic stream: raw bucket configuration, arrival sequences under a scripted clock
func genTB(r *vh.Rng, maxPk int) Case {
	c := Case{Mode: "native"}
	nsub := 1 + r.Intn(2)
	origin := origins[r.Intn(len(origins))]
	type sub struct {
		ip []byte
		d  int
	}
	var subs []sub
	for i := 0; i < nsub; i++ {
		ip := []byte{10, byte(r.Intn(3)), 0, byte(1 + r.Intn(4))}
		d := r.Intn(2)
		rate, burst := pickRate(r), pickBurst(r)
		tok := uint64(burst)
		switch r.Intn(3) {
		case 0:
			tok = 0
		case 1:
			tok = r.U64() % (uint64(burst) + 1)
		}
		c.Ops = append(c.Ops, Op{K: "put", D: d, Key: ip, Val: encTB(tok, origin, rate, burst, uint8(r.Intn(8)))})
		subs = append(subs, sub{ip, d})
	}
	now := origin
	np := 1 + r.Intn(maxPk)
	for i := 0; i < np; i++ {
		s := subs[r.Intn(len(subs))]
		now = advance(now, gaps[r.Intn(len(gaps))])
		switch r.Intn(12) {
		case 0: // burst of identical packets with a constant gap
			n := uint64(2 + r.Intn(60))
			gap := gaps[r.Intn(10)]
			if now+gap*n < now {
				gap = 0
			}
			c.Ops = append(c.Ops, Op{K: "rep", D: s.d, IP: s.ip, Plen: pickSize(r), Now: now, Gap: gap, N: n})
			now += gap * (n - 1)
		case 1: // other traffic: unknown subscriber, truncated or non-IPv4 frame
			f := subFrame(s.d, s.ip)
			switch r.Intn(4) {
			case 0:
				f = f[:r.Intn(len(f))]
			case 1:
				f[12], f[13] = 0x86, 0xdd
			case 2:
				f[12], f[13] = 0x08, 0x06
			case 3:
				f = subFrame(s.d, []byte{10, 9, 9, 9})
			}
			c.Ops = append(c.Ops, Op{K: "pkt", D: s.d, Frame: f, Plen: pickSize(r), Now: now})
		case 2:
			c.Ops = append(c.Ops, Op{K: "snap", D: s.d})
		default:
			c.Ops = append(c.Ops, Op{K: "sub", D: s.d, IP: s.ip, Plen: pickSize(r), Now: now})
		}
	}
	c.Ops = append(c.Ops, Op{K: "snap", D: 0}, Op{K: "snap", D: 1})
	return c
}

func gcd(a, b uint64) uint64 {
	for b != 0 {
		a, b = b, a%b
	}
	return a
}

// guarded stream: rate multiple of 8, every gap an exact multiple of the token period, no 64-bit wrap:
// inside the guard of C19_no_starvation_partial the monitor may not reject (clause 1).
func genExact(r *vh.Rng, maxPk int) Case {
	c := Case{Mode: "native"}
	ip := []byte{10, 0, 0, 1}
	d := r.Intn(2)
	r8 := []uint64{125, 1000, 8000, 125000, 1250000, 12500000, 125000000, 1250000000, 12500000000, 3, 7, 1024}[r.Intn(12)]
	unit := 1000000000 / gcd(r8, 1000000000) // smallest gap with gap*r8 % 1e9 == 0
	burst := pickBurst(r)
	origin := origins[r.Intn(5)]
	tok := r.U64() % (uint64(burst) + 1)
	c.Ops = append(c.Ops, Op{K: "put", D: d, Key: ip, Val: encTB(tok, origin, r8*8, burst, 0)})
	now := origin
	np := 1 + r.Intn(maxPk)
	for i := 0; i < np; i++ {
		k := uint64(r.Intn(4))
		if r.Chance(1, 8) {
			k = uint64(r.Intn(100000))
		}
		g := k * unit
		if g/unit != k || g > (1<<64-1)/r8 || now+g < now { // keep the product below 2^64 and the clock below 2^64
			g = 0
		}
		now += g
		size := pickSize(r)
		if r.Chance(1, 2) && burst < 65535 {
			size = 1 + uint32(r.Intn(int(burst)))
		}
		if r.Chance(1, 6) {
			n := uint64(2 + r.Intn(40))
			g2 := unit * uint64(r.Intn(3))
			if g2 > (1<<64-1)/r8 || now+g2*n < now {
				g2 = 0
			}
			c.Ops = append(c.Ops, Op{K: "rep", D: d, IP: ip, Plen: size, Now: now, Gap: g2, N: n})
			now += g2 * (n - 1)
		} else {
			c.Ops = append(c.Ops, Op{K: "sub", D: d, IP: ip, Plen: size, Now: now})
		}
	}
	return c
}

// starvation family: low rate, sub-period gaps, a backlogged flow (defect stream)
func genStarve(r *vh.Rng, n uint64) Case {
	c := Case{Mode: "native"}
	ip := []byte{10, 0, 0, 1}
	d := r.Intn(2)
	r8 := []uint64{125, 1000, 125000}[r.Intn(3)]
	period := 1000000000 / r8 // ns per byte
	gap := period - 1 - uint64(r.Intn(int(period/2)))
	burst := []uint32{1500, 3000, 100}[r.Intn(3)]
	c.Ops = append(c.Ops, Op{K: "put", D: d, Key: ip, Val: encTB(uint64(burst), 1000, r8*8, burst, 0)})
	c.Ops = append(c.Ops, Op{K: "rep", D: d, IP: ip, Plen: 100, Now: 1000, Gap: gap, N: n})
	return c
}

// control-plane streams: real qos.Manager (+ PolicyManager) writes the kernel maps; packets run natively
// (mode native, scripted clock) or in the kernel (mode kernel, observed clock).
func genMgr(r *vh.Rng, mode string, maxPk int) Case {
	c := Case{Mode: mode}
	var ips [][]byte
	guard := r.Chance(1, 3) // palindromic addresses and default bursts only: inside the guard of policy_enforced_partial
	nsub := 1 + r.Intn(2)
	now := uint64(5000000000)
	for i := 0; i < nsub; i++ {
		var ip []byte
		if guard || r.Chance(1, 4) {
			ip = palin[r.Intn(len(palin))]
		} else {
			ip = nonpal[r.Intn(len(nonpal))]
		}
		ips = append(ips, ip)
		o := Op{K: "set", IP: ip, Pol: r.Bool(), Prio: uint8(r.Intn(8))}
		if r.Chance(1, 3) {
			p := radius.DefaultPolicies()[r.Intn(len(radius.DefaultPolicies()))]
			o.Down, o.Up, o.Burst, o.Prio = p.DownloadBPS, p.UploadBPS, p.BurstSize, p.Priority
		} else {
			o.Down, o.Up = pickRate(r), pickRate(r)
			if !r.Chance(1, 3) {
				o.Burst = pickBurst(r)
			}
		}
		if guard {
			o.Burst = 0
		}
		c.Ops = append(c.Ops, o)
	}
	if r.Chance(1, 2) {
		c.Ops = append(c.Ops, Op{K: "snap", D: 0}, Op{K: "snap", D: 1})
	}
	if r.Chance(1, 10) {
		c.Ops = append(c.Ops, Op{K: "set", IP: []byte{0x20, 1, 0xd, 0xb8, 0, 0, 0, 0, 0, 0, 0, 0, 0, 0, 0, 1}, Down: 1000}) // IPv6: rejected
	}
	np := 1 + r.Intn(maxPk)
	for i := 0; i < np; i++ {
		ip := ips[r.Intn(len(ips))]
		if r.Chance(1, 4) {
			ip = rev(ip) // the mirror-image subscriber, which has no policy
		}
		d := r.Intn(2)
		now = advance(now, gaps[r.Intn(12)])
		size := pickSize(r)
		if mode == "kernel" {
			size = 34 // skb->len is the frame length under test-run
			if r.Chance(1, 3) {
				f := append(subFrame(d, ip), make([]byte, []int{30, 66, 1466}[r.Intn(3)])...)
				c.Ops = append(c.Ops, Op{K: "pkt", D: d, Frame: f, Plen: uint32(len(f))})
				continue
			}
		}
		switch r.Intn(10) {
		case 0:
			c.Ops = append(c.Ops, Op{K: "rm", IP: ips[r.Intn(len(ips))]})
		case 1:
			c.Ops = append(c.Ops, Op{K: "snap", D: d})
		case 2:
			if mode == "native" {
				c.Ops = append(c.Ops, Op{K: "rep", D: d, IP: ip, Plen: size, Now: now, Gap: gaps[r.Intn(8)], N: uint64(2 + r.Intn(30))})
				now = advance(now, 40*gaps[7])
				break
			}
			fallthrough
		default:
			c.Ops = append(c.Ops, Op{K: "sub", D: d, IP: ip, Plen: size, Now: now})
		}
	}
	c.Ops = append(c.Ops, Op{K: "snap", D: 0}, Op{K: "snap", D: 1})
	return c
}

const header = `From Coq Require Import NArith List. Import ListNotations.
From Verif Require Import Base.Word Model.TcQos Model.QosMgr Model.TcQosSpec Model.TcQosCheck.
Local Open Scope N_scope.
Definition cases : list case := [
`
const footer = `
].
Definition R := Eval vm_compute in run_cases cases.
Print R.
`

func hasMgr(c Case) bool {
	for _, o := range c.Ops {
		switch o.K {
		case "set", "rm", "apply", "poladd", "polrm", "polget", "poldef", "pollist":
			return true
		}
	}
	return false
}

func main() {
	cfg := vh.ParseFlags()
	dir, err := bpfrun.Dir()
	must(err)
	e := &env{}
	objPath := filepath.Join(dir, "qos_ratelimit.o")
	loadNote := ""
	if _, err := os.Stat(objPath); err != nil {
		fmt.Fprintln(os.Stderr, "c19 driver: qos_ratelimit.c did not compile for the BPF target (see build.log in", dir, ")")
		os.Exit(4)
	}
	e.obj, err = bpfrun.LoadObject(objPath)
	must(err)
	defer e.obj.Close()
	e.kernel = e.obj.KernelBPF && e.obj.VerifierOK
	if !e.kernel {
		loadNote = e.obj.LoadErr
	}
	if e.obj.KernelBPF && !e.obj.VerifierOK {
		fmt.Fprintln(os.Stderr, "c19 driver: the in-kernel verifier rejected qos_ratelimit.o:", e.obj.LoadErr)
		os.Exit(5)
	}
	asan := os.Getenv("VERIF_C19_ASAN") == "1"
	e.nat, err = bpfrun.StartNative(dir, "qos_ratelimit", asan)
	must(err)
	defer e.nat.Close()

	extra := func() map[string]interface{} {
		return map[string]interface{}{"kernel_bpf": e.kernel, "verifier_ok": e.obj.VerifierOK, "kernel_note": loadNote,
			"kernel_test_runs": e.kernelRuns, "native_runs": e.nativeRuns, "kernel_native_compared": e.kvCompared,
			"kernel_native_disagree": e.kvDisagree, "kernel_native_disagree_first": e.disagreeNote, "native_faults": e.faults,
			"object": objPath, "asan": asan}
	}
	runAll := func(cs []Case) []vh.Case {
		var out []vh.Case
		for _, c := range cs {
			if !e.kernel && (c.Mode == "kernel" || hasMgr(c)) {
				continue
			}
			out = append(out, e.run(c))
		}
		return out
	}

	if cfg.Replay != "" {
		var c Case
		must(vh.LoadReplay(cfg.Replay, &c))
		vh.Emit(cfg, "cases", header, footer, runAll([]Case{c}), extra())
		return
	}
	var corpus []Case
	for _, f := range vh.CorpusFiles(cfg) {
		var c Case
		must(vh.LoadReplay(f, &c))
		corpus = append(corpus, c)
	}
	if len(corpus) > 0 {
		vh.Emit(cfg, "corpus", header, footer, runAll(corpus), extra())
	}
	r := vh.NewRng(cfg.Seed)
	nTB, nExact, nStarve, nMgr, nKern, maxPk := 90, 40, 3, 60, 30, 30
	nPol, nPolKern, polMaxN := 32, 12, uint64(700)
	starveN := uint64(3000)
	if cfg.Thorough() {
		nTB, nExact, nStarve, nMgr, nKern, maxPk = 800, 300, 12, 500, 250, 60
		nPol, nPolKern, polMaxN = 400, 100, 700
		starveN = 20000
	}
	var tbs, exact, starve, mgrs, kern []Case
	for i := 0; i < nTB; i++ {
		tbs = append(tbs, genTB(r.Fork(), maxPk))
	}
	for i := 0; i < nExact; i++ {
		exact = append(exact, genExact(r.Fork(), maxPk))
	}
	for i := 0; i < nStarve; i++ {
		starve = append(starve, genStarve(r.Fork(), starveN+uint64(r.Intn(int(starveN)))))
	}
	for i := 0; i < nMgr; i++ {
		mgrs = append(mgrs, genMgr(r.Fork(), "native", maxPk/2))
	}
	for i := 0; i < nKern; i++ {
		kern = append(kern, genMgr(r.Fork(), "kernel", maxPk/3))
	}
	// drawn after every older stream so that those keep the cases they had for a given seed
	pols := builtinCases(r)
	for i := 0; i < nPol; i++ {
		pols = append(pols, genPolicy(r.Fork(), "native", polMaxN))
	}
	for i := 0; i < nPolKern; i++ {
		pols = append(pols, genPolicy(r.Fork(), "kernel", polMaxN))
	}
	start := time.Now()
	vh.Emit(cfg, "policy", header, footer, runAll(pols), extra())
	vh.Emit(cfg, "tb", header, footer, runAll(tbs), extra())
	vh.Emit(cfg, "exact", header, footer, runAll(exact), map[string]interface{}{"guarded": "rate multiple of 8, gap*(rate/8) multiple of 10^9, product < 2^64"})
	vh.Emit(cfg, "starve", header, footer, runAll(starve), nil)
	vh.Emit(cfg, "mgr", header, footer, runAll(mgrs), extra())
	vh.Emit(cfg, "kernel", header, footer, runAll(kern), extra())
	_ = start
}
