// C02 correspondence driver: real dhcp.Server (+dhcp.Pool) and real dhcpv6.Server (+legacy pools)
// vs Model/Dhcp4.v and Model/Dhcp6.v.  Streams: corpus4, corpus6, dhcp4x / dhcp6x (exhaustive),
// dhcp4b (lease-expiry boundary scripts, exhaustive), dhcp4 / dhcp6 (random).
package main

import (
	"encoding/binary"
	"encoding/hex"
	"fmt"
	"io"
	"math"
	"math/big"
	"net"
	"net/http"
	"os"
	"sort"
	"strings"
	"time"

	"verifharness/vh"

	"github.com/codelaboratoryltd/bng/pkg/dhcp"
	"github.com/codelaboratoryltd/bng/pkg/dhcpv6"
	"github.com/codelaboratoryltd/bng/pkg/ebpf"
	"github.com/codelaboratoryltd/bng/pkg/nexus"
	"github.com/insomniacslk/dhcp/dhcpv4"
	"go.uber.org/zap"
)

// ------------------------------------------------------------------ shared

type Case struct {
	Proto string `json:"proto"` // "v4" | "v6"
	V4    *Case4 `json:"v4,omitempty"`
	V6    *Case6 `json:"v6,omitempty"`
}

func tagList(m map[string]bool, extra ...string) []string {
	var l []string
	for t := range m {
		l = append(l, t)
	}
	sort.Strings(l)
	return append(l, extra...)
}

func pairs(m map[uint64]string) string { // key -> rendered value, sorted by key
	keys := make([]uint64, 0, len(m))
	for k := range m {
		keys = append(keys, k)
	}
	sort.Slice(keys, func(i, j int) bool { return keys[i] < keys[j] })
	var l []string
	for _, k := range keys {
		l = append(l, vh.Pair(vh.N(k), m[k]))
	}
	return vh.List(l)
}

// ------------------------------------------------------------------ DHCPv4

type Case4 struct {
	Net   uint32 `json:"net"`             // network address
	Bits  int    `json:"bits"`            // prefix length
	GW    uint32 `json:"gw"`              // gateway
	Lease int    `json:"lease"`           // seconds
	Alloc bool   `json:"alloc,omitempty"` // external allocator configured (nexus.HTTPAllocator over a scripted RoundTripper)
	Ops   []Op4  `json:"ops"`
}

// Op4: K in discover request release decline inform advance cleanup.
// Sym (generation only) selects the requested address relative to the live state:
// own other free net bcast gw out none; a concrete op has Sym "" and Req/HasReq set.
type Op4 struct {
	K      string `json:"k"`
	C      int    `json:"c,omitempty"`
	Sym    string `json:"sym,omitempty"`
	HasReq bool   `json:"hasreq,omitempty"`
	Req    uint32 `json:"req,omitempty"`
	UseCi  bool   `json:"useci,omitempty"` // carry the address in ciaddr instead of option 50
	Relay  bool   `json:"relay,omitempty"`
	Cid    int    `json:"cid,omitempty"` // 0 none, 1 "A", 2 "B"
	D      int    `json:"d,omitempty"`   // advance seconds
	Lk     string `json:"lk,omitempty"`  // allocator configuration: answer of LookupIPv4 during this message: hit miss err ("" = miss)
}

func ip4(v uint32) net.IP { b := make([]byte, 4); binary.BigEndian.PutUint32(b, v); return net.IP(b) }
func u32(ip net.IP) uint64 {
	if v := ip.To4(); v != nil {
		return uint64(binary.BigEndian.Uint32(v))
	}
	return math.MaxUint32 + 1 // not an IPv4 address: never equal to a model value
}
func mac4(c int) net.HardwareAddr { return net.HardwareAddr{2, 0, 0, 0, 0, byte(c + 1)} }
func macNum(s string) uint64 {
	m, err := net.ParseMAC(s)
	if err != nil || len(m) != 6 {
		return 999999
	}
	return uint64(m[5]) | uint64(m[4])<<8 | uint64(m[3])<<16 | uint64(m[2])<<24
}
func cidBytes(c int) []byte { return []byte{byte('A' + c - 1)} }
func cidNum(b []byte) uint64 {
	if len(b) == 0 {
		return 0
	}
	if len(b) == 1 && b[0] >= 'A' {
		return uint64(b[0]-'A') + 1
	}
	return 999999
}

type srv4 struct {
	s    *dhcp.Server
	c    *Case4
	vnow int64
	lk   string // the allocator's answer during the current message
	bad  string // protocol error seen by the fake allocator
}

// nexAddr: the address the (scripted) external allocator holds for client c: 10.99.0.(c+1).  The
// oracle is injective (one address per MAC) and its addresses lie outside the local pools.
func nexAddr(c int) uint32 { return 10<<24 | 99<<16 | uint32(c+1) }

// RoundTrip is the in-process Nexus: pool info is always served; GET /api/v1/allocations/<mac>
// answers as the current op's oracle says (hit: the MAC's own address; miss: 404; err: 500).
func (v *srv4) RoundTrip(r *http.Request) (*http.Response, error) {
	body, code := "{}", 404
	switch {
	case strings.Contains(r.URL.Path, "/api/v1/pools/"):
		body, code = `{"id":"p","cidr":"10.99.0.0/24","prefix":32,"gateway":"10.99.0.254"}`, 200
	case strings.Contains(r.URL.Path, "/api/v1/allocations/") && r.Method == "GET":
		macS := r.URL.Path[strings.LastIndex(r.URL.Path, "/")+1:]
		m, err := net.ParseMAC(macS)
		if err != nil || len(m) != 6 {
			v.bad = "lookup for a subscriber id that is not a MAC: " + macS
			code = 500
			break
		}
		switch v.lk {
		case "hit":
			body, code = fmt.Sprintf(`{"pool_id":"p","subscriber_id":%q,"ip":%q}`, macS, ip4(nexAddr(int(m[5])-1)).String()), 200
		case "err":
			body, code = `{"error":"boom"}`, 500
		}
	default:
		v.bad = "unexpected allocator call " + r.Method + " " + r.URL.Path
		code = 500
	}
	return &http.Response{StatusCode: code, Body: io.NopCloser(strings.NewReader(body)), Header: http.Header{}, Request: r}, nil
}

func newSrv4(c *Case4) *srv4 {
	logger := zap.NewNop()
	loader, err := ebpf.NewLoader("lo", logger) // never Load()ed: its map calls fail and are logged
	if err != nil {
		panic(err)
	}
	pm := dhcp.NewPoolManager(nil, logger)
	p, err := dhcp.NewPool(dhcp.PoolConfig{ID: 1, Name: "p", Network: fmt.Sprintf("%s/%d", ip4(c.Net), c.Bits),
		Gateway: ip4(c.GW).String(), DNSServers: []string{"192.0.2.53"}, LeaseTime: time.Duration(c.Lease) * time.Second})
	if err != nil {
		panic(err)
	}
	if err := pm.AddPool(p); err != nil {
		panic(err)
	}
	s, err := dhcp.NewServer(dhcp.ServerConfig{Interface: "lo", ServerIP: net.IPv4(192, 0, 2, 1)}, loader, pm, logger)
	if err != nil {
		panic(err)
	}
	v := &srv4{s: s, c: c}
	if c.Alloc {
		s.SetHTTPAllocator(nexus.NewHTTPAllocator("http://nexus.invalid", nexus.WithHTTPClient(&http.Client{Transport: v})), "p")
	}
	return v
}

// expiry in virtual time.  A lease granted at virtual instant t0 for L seconds and aged by the
// advances since has ExpiresAt = (real now) + L - (vnow - t0) - drift, where 0 < drift < 1 s is the
// real time the case has been running (run4/run6 re-run a case that took longer): Ceil undoes it.
func (v *srv4) expiry(t time.Time) uint64 {
	rem := int64(math.Ceil(time.Until(t).Seconds()))
	e := v.vnow + rem
	if e < 0 {
		e = 0
	}
	return uint64(e)
}

func (v *srv4) snapshot() (dhcp.VerifC02Snapshot, string) {
	sn := v.s.VerifC02Snapshot(1)
	le := map[uint64]string{}
	for _, l := range sn.Leases {
		le[macNum(l.MAC)] = "(" + vh.N(u32(l.IP)) + ", " + vh.N(v.expiry(l.ExpiresAt)) + ", " + vh.N(cidNum(l.CircuitID)) + ")"
	}
	ci := map[uint64]string{}
	for k, l := range sn.ByCircuitID {
		kb, _ := hex.DecodeString(k)
		ci[cidNum(kb)] = "(" + vh.N(macNum(l.MAC)) + ", " + vh.N(u32(l.IP)) + ", " + vh.N(v.expiry(l.ExpiresAt)) + ")"
	}
	al := map[uint64]string{}
	for m, ip := range sn.Allocated {
		al[macNum(m)] = vh.N(u32(ip))
	}
	var av, un []string
	for _, ip := range sn.Available {
		av = append(av, vh.N(u32(ip)))
	}
	for _, k := range sn.Unavailable {
		if ip := net.ParseIP(k); ip != nil { // "<nil>" (DECLINE without option 50) is not an address
			un = append(un, vh.N(u32(ip)))
		}
	}
	return sn, "{| sn_leases := " + pairs(le) + "; sn_cidx := " + pairs(ci) + "; sn_alloc := " + pairs(al) +
		"; sn_avail := " + vh.List(av) + "; sn_unavail := " + vh.List(un) + " |}"
}

// resolve turns a symbolic requested address into a concrete one against the live state.
func (v *srv4) resolve(o Op4) Op4 {
	if o.Sym == "" {
		return o
	}
	sn := v.s.VerifC02Snapshot(1)
	size := uint32(1) << (32 - v.c.Bits)
	me := mac4(o.C).String()
	held := func(m string) (uint32, bool) {
		for _, l := range sn.Leases {
			if l.MAC == m {
				return uint32(u32(l.IP)), true
			}
		}
		if ip, ok := sn.Allocated[m]; ok {
			return uint32(u32(ip)), true
		}
		return 0, false
	}
	o.HasReq = true
	switch o.Sym {
	case "own":
		if ip, ok := held(me); ok {
			o.Req = ip
		} else if len(sn.Available) > 0 {
			o.Req = uint32(u32(sn.Available[0]))
		} else {
			o.Req = v.c.Net + 1
		}
	case "other":
		found := false
		for c := 0; c < 4 && !found; c++ {
			if c != o.C {
				if ip, ok := held(mac4(c).String()); ok {
					o.Req, found = ip, true
				}
			}
		}
		if !found {
			o.Req = v.c.Net + 2
		}
	case "otherz": // another client's held address when there is one, else no address at all
		o.HasReq = false
		for c := 0; c < 4 && !o.HasReq; c++ {
			if c != o.C {
				if ip, ok := held(mac4(c).String()); ok {
					o.Req, o.HasReq = ip, true
				}
			}
		}
	case "free":
		if n := len(sn.Available); n > 0 {
			o.Req = uint32(u32(sn.Available[n-1]))
		} else {
			o.Req = v.c.Net + 2
		}
	case "declined":
		o.Req = v.c.Net + 2
		for _, k := range sn.Unavailable {
			if ip := net.ParseIP(k); ip != nil {
				o.Req = uint32(u32(ip))
			}
		}
	case "nx": // the address the allocator holds for this client
		o.Req = nexAddr(o.C)
	case "nxother": // the address the allocator holds for another client
		o.Req = nexAddr((o.C + 1) % 3)
	case "net":
		o.Req = v.c.Net
	case "bcast":
		o.Req = v.c.Net + size - 1
	case "gw":
		o.Req = v.c.GW
	case "out":
		o.Req = v.c.Net + size + 5
	case "zero":
		o.Req = 0
	case "none":
		o.HasReq = false
	}
	if o.UseCi && !o.HasReq {
		o.UseCi = false
	}
	o.Sym = ""
	return o
}

func (v *srv4) msgTerm(o Op4) string {
	req, ci := "None", uint64(0)
	if o.HasReq {
		if o.UseCi {
			ci = uint64(o.Req)
		} else {
			req = "(Some " + vh.N(uint64(o.Req)) + ")"
		}
	}
	return fmt.Sprintf("{| m_mac := %d; m_req := %s; m_ci := %d; m_relay := %s; m_cid := %d |}",
		o.C+1, req, ci, vh.Bool(o.Relay), o.Cid)
}

var msgTypes = map[string]dhcpv4.MessageType{"discover": dhcpv4.MessageTypeDiscover, "request": dhcpv4.MessageTypeRequest,
	"release": dhcpv4.MessageTypeRelease, "decline": dhcpv4.MessageTypeDecline, "inform": dhcpv4.MessageTypeInform}

// exec runs one concrete op on the real server; returns the Coq (op, out) pair.
func (v *srv4) exec(o Op4) string {
	var opT, rep string
	v.lk = o.Lk
	defer func() { v.lk = "" }()
	switch o.K {
	case "advance":
		v.s.VerifC02AgeLeases(time.Duration(o.D) * time.Second)
		v.vnow += int64(o.D)
		opT, rep = fmt.Sprintf("Advance %d", o.D), "RNone"
	case "cleanup":
		pre := v.s.VerifC02Snapshot(1)
		v.s.VerifC02CleanupTick()
		post := v.s.VerifC02Snapshot(1)
		// oracle: the order in which the expired leases were released = order of their addresses
		// at the tail of the free list
		pos := map[uint64]int{}
		for i, ip := range post.Available {
			pos[u32(ip)] = i
		}
		type e struct {
			mac uint64
			p   int
		}
		var ex []e
		for _, l := range pre.Leases {
			if time.Now().After(l.ExpiresAt) {
				p, ok := pos[u32(l.IP)]
				if !ok {
					p = 1 << 30
				}
				ex = append(ex, e{macNum(l.MAC), p})
			}
		}
		sort.SliceStable(ex, func(i, j int) bool { return ex[i].p < ex[j].p })
		var ord []string
		for _, x := range ex {
			ord = append(ord, vh.N(x.mac))
		}
		opT, rep = "Cleanup "+vh.List(ord), "RNone"
	default:
		pkt, err := dhcpv4.NewDiscovery(mac4(o.C))
		if err != nil {
			panic(err)
		}
		pkt.UpdateOption(dhcpv4.OptMessageType(msgTypes[o.K]))
		if o.HasReq {
			if o.UseCi {
				pkt.ClientIPAddr = ip4(o.Req)
			} else {
				pkt.UpdateOption(dhcpv4.OptRequestedIPAddress(ip4(o.Req)))
			}
		}
		if o.Relay {
			pkt.GatewayIPAddr = net.IPv4(198, 51, 100, 7)
		}
		if o.Cid != 0 {
			cb := cidBytes(o.Cid)
			data := append([]byte{1, byte(len(cb))}, cb...)
			data = append(data, 2, 2, 'r', 'm')
			pkt.UpdateOption(dhcpv4.Option{Code: dhcpv4.OptionRelayAgentInformation, Value: dhcpv4.OptionGeneric{Data: data}})
		}
		wire, err := dhcpv4.FromBytes(pkt.ToBytes()) // the server sees what its library parses off the wire
		if err != nil {
			panic(err)
		}
		replies, dests, err := v.s.VerifC02Handle(wire, &net.UDPAddr{IP: net.IPv4(10, 255, 0, byte(o.C+1)), Port: 68})
		if err != nil {
			panic(err)
		}
		rep = "RNone"
		if len(replies) > 1 {
			rep = "RNak (* more than one datagram *)"
		}
		if len(replies) == 1 {
			r := replies[0]
			// relayed requests are answered to giaddr:67
			if ua, ok := dests[0].(*net.UDPAddr); !ok || (o.Relay && (!ua.IP.Equal(net.IPv4(198, 51, 100, 7)) || ua.Port != 67)) {
				rep = "RInformAck (* wrong destination *)"
			} else {
				switch r.MessageType() {
				case dhcpv4.MessageTypeOffer:
					rep = "ROffer " + vh.N(u32(r.YourIPAddr))
				case dhcpv4.MessageTypeAck:
					if o.K == "inform" {
						rep = "RInformAck"
					} else {
						rep = "RAck " + vh.N(u32(r.YourIPAddr))
					}
				case dhcpv4.MessageTypeNak:
					rep = "RNak"
				default:
					rep = "RInformAck (* unexpected type *)"
				}
			}
		}
		k := strings.ToUpper(o.K[:1]) + o.K[1:]
		opT = k + " " + v.msgTerm(o)
	}
	_, sn := v.snapshot()
	if v.bad != "" {
		rep = "RInformAck (* " + v.bad + " *)"
	}
	if v.c.Alloc {
		lk := "LkMiss"
		switch o.Lk {
		case "hit":
			lk = "LkHit " + vh.N(uint64(nexAddr(o.C)))
		case "err":
			lk = "LkErr"
		}
		opT = "(" + opT + ", " + lk + ")"
	}
	return "(" + opT + ",\n   (" + rep + ", " + sn + "))"
}

// maxDrift: the servers read the real clock; a case stands for one virtual instant per Advance only
// while its whole real running time stays well below one second (see expiry).  On a loaded machine
// a case that took longer is re-run (same description, fresh server).
const maxDrift = 600 * time.Millisecond

func run4(c Case4) vh.Case {
	for try := 0; ; try++ {
		t0 := time.Now()
		vc := run4once(c)
		if time.Since(t0) < maxDrift || try >= 20 {
			if try >= 20 {
				vc.Tags = append(vc.Tags, "slow-case:drift-not-bounded")
			}
			return vc
		}
	}
}

func run4once(c Case4) vh.Case {
	v := newSrv4(&c)
	tags := map[string]bool{}
	var tr []string
	conc := c
	conc.Ops = nil
	guard := true
	owner := map[int]int{} // circuit-id -> the one client using it (-1: shared)
	for _, o := range c.Ops {
		if o.Cid != 0 && o.K != "advance" && o.K != "cleanup" {
			if w, ok := owner[o.Cid]; ok && w != o.C {
				owner[o.Cid] = -1
			} else if !ok {
				owner[o.Cid] = o.C
			}
		}
		if o.Sym != "" {
			tags[o.K+"-addr:"+o.Sym] = true
		}
		o = v.resolve(o)
		conc.Ops = append(conc.Ops, o)
		tags["op:"+o.K] = true
		if c.Alloc && o.K != "advance" && o.K != "cleanup" {
			lk := o.Lk
			if lk == "" {
				lk = "miss"
			}
			tags["allocator-lookup:"+lk] = true
		}
		if o.Relay && o.Cid != 0 {
			guard = false
		}
		tr = append(tr, v.exec(o))
	}
	owned := true
	for _, w := range owner {
		if w < 0 {
			owned = false
		}
	}
	switch {
	case guard:
		tags["guard:no-relayed-circuit-id"] = true
	case owned:
		tags["guard:cid-owned(relayed-circuit-ids,one-MAC-each)"] = true
	default:
		tags["defect-stream:relayed-circuit-id-shared"] = true
	}
	size := uint64(1) << (32 - c.Bits)
	cfg := fmt.Sprintf("{| c_net := %d; c_size := %d; c_gw := %d; c_lt := %d |}", c.Net, size, c.GW, c.Lease)
	if c.Alloc {
		tags["config:external-allocator"] = true
	}
	return vh.Case{Coq: "(" + cfg + ",\n  " + vh.List(tr) + ")", Desc: Case{Proto: "v4", V4: &conc},
		Tags: tagList(tags, fmt.Sprintf("v4:pool/%d", c.Bits), fmt.Sprintf("len:%d", len(c.Ops)/10*10))}
}

const base4 = uint32(10<<24 | 7<<8) // 10.0.7.0
const lease4 = 100

func pools4() []Case4 {
	return []Case4{
		{Net: base4, Bits: 30, GW: 10<<24 | 9<<8 | 1, Lease: lease4}, // 2 usable (gateway elsewhere)
		{Net: base4, Bits: 29, GW: base4 + 1, Lease: lease4},         // 5 usable
		{Net: base4, Bits: 30, GW: base4 + 1, Lease: lease4},         // 1 usable
		{Net: base4, Bits: 29, GW: base4 + 6, Lease: lease4},         // 5 usable, gateway last
	}
}

// alphabet for the exhaustive enumeration (nc clients)
func alphabet4(nc int, full bool) []Op4 {
	var a []Op4
	for c := 0; c < nc; c++ {
		a = append(a,
			Op4{K: "discover", C: c},
			Op4{K: "request", C: c, Sym: "own"},
			Op4{K: "request", C: c, Sym: "other"},
			Op4{K: "request", C: c, Sym: "free"},
			// RELEASE carries ciaddr: another client's held address when one exists, else 0.0.0.0
			Op4{K: "release", C: c, Sym: "otherz", UseCi: true},
			Op4{K: "decline", C: c, Sym: "own"},
		)
		if full {
			a = append(a,
				Op4{K: "release", C: c, Sym: []string{"own", "free", "out"}[c%3], UseCi: true},
				Op4{K: "decline", C: c, Sym: "other"},
				Op4{K: "inform", C: c, Sym: "other", UseCi: true},
				Op4{K: "discover", C: c, Relay: true, Cid: 1},
				Op4{K: "request", C: c, Sym: "own", Relay: true, Cid: 1},
				Op4{K: "request", C: c, Sym: []string{"net", "bcast", "gw"}[c%3]},
				Op4{K: "request", C: c, Sym: "declined"},
			)
		}
	}
	a = append(a, Op4{K: "advance", D: lease4 + 1}, Op4{K: "cleanup"})
	if full {
		a = append(a, Op4{K: "advance", D: lease4 - 1})
	}
	return a
}

// canonical: clients make their first appearance in the order 0, 1, 2, ... (the alphabet being the
// same for every client, any other sequence is one of these with the clients renamed; MACs and
// DUIDs are only compared for equality by the servers).
func canonical(cs []int) bool {
	next := 0
	for _, c := range cs {
		if c > next {
			return false
		}
		if c == next {
			next++
		}
	}
	return true
}

func enum4(pool Case4, alpha []Op4, depth int, sym bool, emit func(Case4)) {
	idx := make([]int, depth)
	for {
		c := pool
		var cs []int
		for _, i := range idx {
			c.Ops = append(c.Ops, alpha[i])
			if k := alpha[i].K; k != "advance" && k != "cleanup" {
				cs = append(cs, alpha[i].C)
			}
		}
		if !sym || canonical(cs) {
			emit(c)
		}
		k := depth - 1
		for k >= 0 {
			idx[k]++
			if idx[k] < len(alpha) {
				break
			}
			idx[k] = 0
			k--
		}
		if k < 0 {
			return
		}
	}
}

// boundary4: lease-expiry boundary cases, enumerated exhaustively.  Client A acquires (optionally renews
// at L/2), then time advances to lease-1 / lease / lease+1 after the last ACK, a cleanup tick runs or
// not, then one of: A renews (option 50 / ciaddr: INIT-REBOOT and RENEWING forms), A DISCOVERs, B
// REQUESTs A's address, B DISCOVERs; B tries to acquire (DISCOVER + REQUEST) or not; a second tick or
// not; a final probe (A renews / a third client C REQUESTs a held address) and C DISCOVERs.  relayCid: 0 = direct,
// 1 = every message relayed with the client's own circuit-id (guard cid_owned), 2 = relayed with one
// shared circuit-id (K02a stream).
func boundary4(pool Case4, relayCid int, renews, mids []int, emit func(Case4)) {
	dress := func(o Op4) Op4 {
		switch relayCid {
		case 1:
			o.Relay, o.Cid = true, o.C+1
		case 2:
			o.Relay, o.Cid = true, 1
		}
		return o
	}
	for _, renew := range renews {
		for _, adv := range []int{lease4 - 1, lease4, lease4 + 1} {
			for tick1 := 0; tick1 < 2; tick1++ {
				for act := 0; act < 5; act++ {
					for _, mid := range mids {
						for tick2 := 0; tick2 < 2; tick2++ {
							for fin := 0; fin < 2; fin++ {
								c := pool
								add := func(o Op4) {
									if o.K != "advance" && o.K != "cleanup" {
										o = dress(o)
									}
									c.Ops = append(c.Ops, o)
								}
								add(Op4{K: "discover"})
								add(Op4{K: "request", Sym: "own"})
								if renew == 1 {
									add(Op4{K: "advance", D: lease4 / 2})
									add(Op4{K: "request", Sym: "own", UseCi: true})
								}
								add(Op4{K: "advance", D: adv})
								if tick1 == 1 {
									add(Op4{K: "cleanup"})
								}
								switch act {
								case 0:
									add(Op4{K: "request", Sym: "own"})
								case 1:
									add(Op4{K: "request", Sym: "own", UseCi: true})
								case 2:
									add(Op4{K: "discover"})
								case 3:
									add(Op4{K: "request", C: 1, Sym: "other"})
								case 4:
									add(Op4{K: "discover", C: 1})
								}
								if mid == 1 { // another client tries to acquire in between
									add(Op4{K: "discover", C: 1})
									add(Op4{K: "request", C: 1, Sym: "own"})
								}
								if tick2 == 1 {
									add(Op4{K: "cleanup"})
								}
								if fin == 0 {
									add(Op4{K: "request", Sym: "own"})
								} else {
									add(Op4{K: "request", C: 2, Sym: "other"})
								}
								add(Op4{K: "discover", C: 2})
								emit(c)
							}
						}
					}
				}
			}
		}
	}
}

// alphabet4h: allocator configuration.  Lookup hit / miss / error on DISCOVER; REQUEST for the
// client's own allocator address (hit / miss), for another client's allocator address, for the
// gateway, for another client's held address, for the own (local) address; RELEASE.
func alphabet4h(nc int, full bool) []Op4 {
	var a []Op4
	for c := 0; c < nc; c++ {
		a = append(a,
			Op4{K: "discover", C: c, Lk: "hit"},
			Op4{K: "discover", C: c, Lk: "miss"},
			Op4{K: "request", C: c, Sym: "nx", Lk: "hit"},
			Op4{K: "request", C: c, Sym: "nx", Lk: "miss"},
			Op4{K: "request", C: c, Sym: "nxother", Lk: "hit"},
			Op4{K: "request", C: c, Sym: "gw", Lk: "hit"},
			Op4{K: "request", C: c, Sym: "other", Lk: "miss"},
			Op4{K: "request", C: c, Sym: "own", Lk: "miss"},
			Op4{K: "release", C: c},
		)
		if full {
			a = append(a,
				Op4{K: "discover", C: c, Lk: "err"},
				Op4{K: "request", C: c, Sym: "other", Lk: "hit", UseCi: true},
				Op4{K: "request", C: c, Sym: "out", Lk: "err"},
				Op4{K: "request", C: c, Sym: "bcast", Lk: "miss"},
				Op4{K: "request", C: c, Sym: "none", Lk: "hit"},
				Op4{K: "decline", C: c, Sym: "own"},
				Op4{K: "decline", C: c, Sym: "nxother"},
			)
		}
	}
	return append(a, Op4{K: "advance", D: lease4 + 1}, Op4{K: "cleanup"})
}

// rand4h: a random case of the allocator configuration (no shared circuit-ids: K02a is the same
// code in both configurations and has its own stream)
func rand4h(r *vh.Rng, maxOps int) Case4 {
	c := rand4(r, maxOps)
	c.Alloc = true
	for i := range c.Ops {
		o := &c.Ops[i]
		if o.K == "advance" || o.K == "cleanup" {
			continue
		}
		o.Lk = []string{"hit", "hit", "miss", "miss", "err"}[r.Intn(5)]
		if o.Relay && o.Cid != 0 {
			o.Cid = o.C + 1
		}
		if o.K == "request" || o.K == "decline" || o.K == "release" {
			if r.Chance(1, 3) {
				o.Sym = []string{"nx", "nx", "nxother"}[r.Intn(3)]
			}
		}
	}
	return c
}

func rand4(r *vh.Rng, maxOps int) Case4 {
	ps := pools4()
	c := ps[r.Intn(len(ps))]
	nc := 2 + r.Intn(2)
	circuits := r.Chance(1, 3)               // one third of the random cases use relayed circuit-ids shared between clients (defect stream)
	ownedCids := !circuits && r.Chance(1, 2) // another third: relayed circuit-ids, each used by one client only (guard cid_owned)
	n := 3 + r.Intn(maxOps-2)
	syms := []string{"own", "own", "own", "other", "other", "free", "net", "bcast", "gw", "out", "declined", "zero", "none"}
	for i := 0; i < n; i++ {
		o := Op4{C: r.Intn(nc)}
		switch x := r.Intn(100); {
		case x < 22:
			o.K = "discover"
		case x < 52:
			o.K, o.Sym, o.UseCi = "request", syms[r.Intn(len(syms))], r.Chance(1, 5)
		case x < 62:
			o.K, o.UseCi = "release", true
			o.Sym = []string{"own", "own", "other", "other", "free", "zero", "net", "bcast", "gw", "out", "none"}[r.Intn(11)]
		case x < 72:
			o.K, o.Sym = "decline", []string{"own", "own", "own", "other", "other", "free", "zero", "net", "gw", "out", "none"}[r.Intn(11)]
		case x < 75:
			o.K, o.UseCi = "inform", true
			o.Sym = []string{"own", "other", "free", "zero", "bcast", "out", "none"}[r.Intn(7)]
		case x < 90:
			o.K, o.D = "advance", []int{0, 1, 1, lease4 - 2, lease4 - 1, lease4, lease4 + 1, lease4 / 2, 3 * lease4}[r.Intn(9)]
		default:
			o.K = "cleanup"
		}
		if ownedCids && o.K != "advance" && o.K != "cleanup" {
			// client c owns circuit-ids c+1 and c+5 (a CPE moved to another port renews from there)
			if r.Chance(2, 3) {
				o.Relay = r.Chance(4, 5)
				o.Cid = o.C + 1
				if r.Chance(1, 4) {
					o.Cid = o.C + 5
				}
			} else {
				o.Relay = r.Chance(1, 3)
			}
		} else if o.K != "advance" && o.K != "cleanup" {
			if r.Chance(1, 4) {
				o.Cid = 1 + r.Intn(2) // option 82 without relay: stored, never looked up
			}
			if r.Chance(1, 4) {
				o.Relay = true
				if !circuits {
					o.Cid = 0
				}
			} else if circuits && r.Chance(1, 2) {
				o.Relay, o.Cid = true, 1+r.Intn(2)
			}
		}
		c.Ops = append(c.Ops, o)
	}
	return c
}

const header4 = `From Coq Require Import NArith List. Import ListNotations.
From Verif Require Import Model.Dhcp4 Model.Dhcp6 Model.DhcpSpec Model.DhcpCheck.
Local Open Scope N_scope.
Definition cases : list case4 := [
`
const footer4 = `
].
Definition R := Eval vm_compute in run_cases4 cases.
Print R.
`

const header4h = `From Coq Require Import NArith List. Import ListNotations.
From Verif Require Import Model.Dhcp4 Model.Dhcp4Alloc Model.Dhcp6 Model.DhcpSpec Model.DhcpCheck.
Local Open Scope N_scope.
Definition cases : list case4h := [
`
const footer4h = `
].
Definition R := Eval vm_compute in run_cases4h cases.
Print R.
`

// ------------------------------------------------------------------ DHCPv6

type Case6 struct {
	ABits int   `json:"abits"` // address pool prefix length (126 -> 3 addresses, 127 -> 1)
	PBits int   `json:"pbits"` // prefix pool length (62 -> 4 /64s, 63 -> 2)
	Valid int   `json:"valid"`
	Ops   []Op6 `json:"ops"`
}

// Op6: K in solicit request renew rebind confirm release decline advance.
type Op6 struct {
	K    string `json:"k"`
	C    int    `json:"c,omitempty"`
	NA   bool   `json:"na,omitempty"`
	PD   bool   `json:"pd,omitempty"`
	Flag bool   `json:"flag,omitempty"` // solicit: rapid commit; request: server-id is ours
	Sym  string `json:"sym,omitempty"`  // confirm: own other out none (generation only)
	HasA bool   `json:"hasa,omitempty"`
	Addr string `json:"addr,omitempty"` // confirm: address (decimal 128-bit)
	D    int    `json:"d,omitempty"`
}

var (
	abase6 = net.ParseIP("2001:db8:1::")
	pbase6 = net.ParseIP("2001:db8:100::")
	sock6  *net.UDPConn // the server's socket
	recv6  *net.UDPConn // the "client" socket on port 546
	peer6  = &net.UDPAddr{IP: net.IPv4(127, 0, 2, 2), Port: 546}
)

func bigOf(ip net.IP) *big.Int { return new(big.Int).SetBytes(ip.To16()) }
func nOf(ip net.IP) string     { return bigOf(ip).String() }

func openSockets6() {
	// every run of this driver takes its own loopback address (127.0.2.2 .. 127.0.2.251), so that two C02
	// runs side by side (a quick and a thorough run, a seeded-change run) never wait for each other's port
	var err error
	for try := 0; try < 40 && recv6 == nil; try++ {
		for i := 2; i < 252; i++ {
			a := &net.UDPAddr{IP: net.IPv4(127, 0, 2, byte(i)), Port: 546}
			c, e := net.ListenUDP("udp4", a)
			if e == nil {
				recv6, peer6 = c, a
				break
			}
			err = e
		}
		if recv6 == nil {
			time.Sleep(250 * time.Millisecond)
		}
	}
	if recv6 == nil {
		fmt.Fprintln(os.Stderr, "cannot bind a client socket on 127.0.2.x:546:", err)
		os.Exit(3)
	}
	sock6, err = net.ListenUDP("udp4", &net.UDPAddr{IP: peer6.IP, Port: 0})
	if err != nil {
		panic(err)
	}
}

func duid6(c int) []byte { return []byte{0, 3, 0, 1, 2, 0, 0, 0, 0, byte(c + 1)} }
func duidNum(s string) uint64 {
	if len(s) == 10 {
		return uint64(s[9])
	}
	return 999999
}

type srv6 struct {
	s    *dhcpv6.Server
	c    *Case6
	vnow int64
	xid  byte
}

func newSrv6(c *Case6) *srv6 {
	s, err := dhcpv6.NewServer(dhcpv6.ServerConfig{Interface: "lo",
		AddressPool: fmt.Sprintf("%s/%d", abase6, c.ABits), PrefixPool: fmt.Sprintf("%s/%d", pbase6, c.PBits),
		DelegationLength: 64, PreferredLifetime: uint32(c.Valid / 2), ValidLifetime: uint32(c.Valid)}, zap.NewNop())
	if err != nil {
		panic(err)
	}
	s.VerifC02SetConn(sock6)
	return &srv6{s: s, c: c}
}

func (v *srv6) snapshot() (dhcpv6.VerifC02Snapshot, string) {
	sn := v.s.VerifC02Snapshot()
	le := map[uint64]string{}
	for _, l := range sn.Leases {
		a, p, ve := "0", "0", uint64(0)
		if len(l.Address) > 0 {
			a = "(" + nOf(l.Address) + " + 1)"
		}
		if l.Prefix != nil {
			p = "(" + nOf(l.Prefix.IP) + " + 1)"
		}
		if !l.ValidEnd.IsZero() {
			e := v.vnow + int64(math.Ceil(time.Until(l.ValidEnd).Seconds()))
			if e < 0 {
				e = 0
			}
			ve = uint64(e)
		}
		le[duidNum(l.DUID)] = "(" + a + ", " + p + ", " + vh.N(ve) + ")"
	}
	aa, pa := map[uint64]string{}, map[uint64]string{}
	for d, ip := range sn.AddrAllocated {
		aa[duidNum(d)] = nOf(ip)
	}
	for d, n := range sn.PfxAllocated {
		pa[duidNum(d)] = nOf(n.IP)
	}
	var av, pv []string
	for _, ip := range sn.AddrAvailable {
		av = append(av, nOf(ip))
	}
	for _, n := range sn.PfxAvailable {
		pv = append(pv, nOf(n.IP))
	}
	return sn, "{| s6_leases := " + pairs(le) + "; s6_aalloc := " + pairs(aa) + "; s6_aavail := " + vh.List(av) +
		"; s6_palloc := " + pairs(pa) + "; s6_pavail := " + vh.List(pv) + " |}"
}

func (v *srv6) resolve(o Op6) Op6 {
	if o.K != "confirm" || o.Sym == "" {
		o.Sym = ""
		return o
	}
	sn := v.s.VerifC02Snapshot()
	held := func(c int) net.IP {
		if ip, ok := sn.AddrAllocated[string(duid6(c))]; ok {
			return ip
		}
		return nil
	}
	o.HasA = true
	switch o.Sym {
	case "own":
		if ip := held(o.C); ip != nil {
			o.Addr = nOf(ip)
		} else {
			o.Addr = new(big.Int).Add(bigOf(abase6), big.NewInt(1)).String()
		}
	case "other":
		o.Addr = new(big.Int).Add(bigOf(abase6), big.NewInt(2)).String()
		for c := 0; c < 4; c++ {
			if ip := held(c); c != o.C && ip != nil {
				o.Addr = nOf(ip)
			}
		}
	case "out":
		o.Addr = new(big.Int).Add(bigOf(abase6), big.NewInt(77)).String()
	default:
		o.HasA = false
	}
	o.Sym = ""
	return o
}

func iaTerm(asVal, val string, code int) string {
	switch asVal {
	case "val":
		return "(IaVal " + val + ")"
	case "err":
		return fmt.Sprintf("(IaErr %d)", code)
	}
	return "IaNone"
}

// decode the reply datagram with the package's own parser
func (v *srv6) decode(o Op6, data []byte) string {
	m, err := dhcpv6.ParseMessage(data)
	if err != nil {
		return "R6Status 900 (* unparsable reply *)"
	}
	if cid := m.GetOption(dhcpv6.OptClientID); cid == nil || string(cid.Data) != string(duid6(o.C)) {
		return "R6Status 901 (* reply for another client id *)"
	}
	na, pd := "IaNone", "IaNone"
	nIA := 0
	for _, op := range m.GetAllOptions(dhcpv6.OptIANA) {
		nIA++
		ia, err := dhcpv6.ParseIANA(op.Data)
		if err != nil {
			return "R6Status 902"
		}
		for _, so := range ia.Options {
			switch so.Code {
			case dhcpv6.OptIAAddr:
				a, err := dhcpv6.ParseIAAddress(so.Data)
				if err != nil || a.ValidLifetime != uint32(v.c.Valid) {
					return "R6Status 903 (* bad IA address / lifetime *)"
				}
				na = iaTerm("val", nOf(a.Address), 0)
			case dhcpv6.OptStatusCode:
				na = iaTerm("err", "", int(binary.BigEndian.Uint16(so.Data[:2])))
			}
		}
	}
	for _, op := range m.GetAllOptions(dhcpv6.OptIAPD) {
		nIA++
		ia, err := dhcpv6.ParseIAPD(op.Data)
		if err != nil {
			return "R6Status 904"
		}
		for _, so := range ia.Options {
			switch so.Code {
			case dhcpv6.OptIAPrefix:
				p, err := dhcpv6.ParseIAPrefix(so.Data)
				if err != nil || p.PrefixLength != 64 || p.ValidLifetime != uint32(v.c.Valid) {
					return "R6Status 905 (* bad IA prefix *)"
				}
				pd = iaTerm("val", nOf(p.Prefix), 0)
			case dhcpv6.OptStatusCode:
				pd = iaTerm("err", "", int(binary.BigEndian.Uint16(so.Data[:2])))
			}
		}
	}
	if nIA > 2 {
		return "R6Status 906"
	}
	status := -1
	if st := m.GetOption(dhcpv6.OptStatusCode); st != nil && len(st.Data) >= 2 {
		status = int(binary.BigEndian.Uint16(st.Data[:2]))
	}
	rapid := m.GetOption(dhcpv6.OptRapidCommit) != nil
	switch m.Type {
	case dhcpv6.MsgTypeAdvertise:
		return "R6Adv " + na + " " + pd
	case dhcpv6.MsgTypeReply:
		switch o.K {
		case "solicit", "request", "renew", "rebind":
			if status == 0 {
				return "R6Reply " + na + " " + pd + " " + vh.Bool(rapid)
			}
			return fmt.Sprintf("R6Status %d", status)
		case "inforeq":
			if status == -1 && nIA == 0 && !rapid {
				return "R6Info"
			}
			return fmt.Sprintf("R6Status %d (* Information-Request answered with status/IA *)", 910+nIA)
		default:
			return fmt.Sprintf("R6Status %d", status)
		}
	}
	return "R6Status 907 (* unexpected message type *)"
}

var kinds6 = map[string]uint8{"inforeq": dhcpv6.MsgTypeInformationRequest, "solicit": dhcpv6.MsgTypeSolicit, "request": dhcpv6.MsgTypeRequest, "renew": dhcpv6.MsgTypeRenew,
	"rebind": dhcpv6.MsgTypeRebind, "confirm": dhcpv6.MsgTypeConfirm, "release": dhcpv6.MsgTypeRelease, "decline": dhcpv6.MsgTypeDecline}

func (v *srv6) exec(o Op6) string {
	var opT, rep string
	c := vh.N(uint64(o.C + 1))
	if o.K == "advance" {
		v.s.VerifC02AgeLeases(time.Duration(o.D) * time.Second)
		v.vnow += int64(o.D)
		opT, rep = fmt.Sprintf("Advance6 %d", o.D), "R6None"
	} else {
		v.xid++
		m := &dhcpv6.Message{Type: kinds6[o.K], TransactionID: [3]byte{1, 2, v.xid}}
		m.Options = append(m.Options, dhcpv6.MakeClientIDOption(duid6(o.C)))
		switch o.K {
		case "solicit":
			if o.Flag {
				m.Options = append(m.Options, dhcpv6.Option{Code: dhcpv6.OptRapidCommit})
			}
			opT = fmt.Sprintf("Solicit %s %s %s %s", c, vh.Bool(o.Flag), vh.Bool(o.NA), vh.Bool(o.PD))
		case "request":
			sid := v.s.VerifC02ServerDUID()
			if !o.Flag {
				sid = []byte{0, 3, 0, 1, 9, 9, 9, 9, 9, 9}
			}
			m.Options = append(m.Options, dhcpv6.Option{Code: dhcpv6.OptServerID, Data: sid})
			opT = fmt.Sprintf("Request6 %s %s %s %s", c, vh.Bool(o.Flag), vh.Bool(o.NA), vh.Bool(o.PD))
		case "renew":
			opT = fmt.Sprintf("Renew %s %s %s", c, vh.Bool(o.NA), vh.Bool(o.PD))
		case "rebind":
			opT = fmt.Sprintf("Rebind %s %s %s", c, vh.Bool(o.NA), vh.Bool(o.PD))
		case "confirm":
			if o.HasA {
				b, _ := new(big.Int).SetString(o.Addr, 10)
				ab := make([]byte, 16)
				b.FillBytes(ab)
				ia := &dhcpv6.IANA{IAID: 1, Options: []dhcpv6.Option{dhcpv6.MakeIAAddressOption(&dhcpv6.IAAddress{Address: net.IP(ab), PreferredLifetime: 1, ValidLifetime: 2})}}
				m.Options = append(m.Options, dhcpv6.MakeIANAOption(ia))
				opT = fmt.Sprintf("Confirm %s (Some %s)", c, o.Addr)
			} else {
				opT = fmt.Sprintf("Confirm %s None", c)
			}
		case "release":
			opT = "Release6 " + c
		case "decline":
			opT = "Decline6 " + c
		case "inforeq": // NA/PD flags: IAs a confused client put into the message; the server must ignore them
			opT = "InfoReq " + c
		}
		if o.K != "confirm" {
			if o.NA {
				m.Options = append(m.Options, dhcpv6.MakeIANAOption(&dhcpv6.IANA{IAID: 1}))
			}
			if o.PD {
				m.Options = append(m.Options, dhcpv6.MakeIAPDOption(&dhcpv6.IAPD{IAID: 2}))
			}
		}
		if err := v.s.VerifC02Handle(m.Serialize(), peer6); err != nil {
			panic(err)
		}
		buf := make([]byte, 4096)
		recv6.SetReadDeadline(time.Now().Add(2 * time.Millisecond))
		n, _, err := recv6.ReadFromUDP(buf)
		if err != nil && !(o.K == "request" && !o.Flag) { // a reply is due: allow for scheduling delay
			recv6.SetReadDeadline(time.Now().Add(300 * time.Millisecond))
			n, _, err = recv6.ReadFromUDP(buf)
		}
		if err != nil {
			rep = "R6None"
		} else {
			rep = v.decode(o, buf[:n])
			// nothing else may be pending
			recv6.SetReadDeadline(time.Now().Add(50 * time.Microsecond))
			if _, _, e2 := recv6.ReadFromUDP(buf); e2 == nil {
				rep = "R6Status 908 (* two datagrams *)"
			}
		}
	}
	_, sn := v.snapshot()
	return "(" + opT + ",\n   (" + rep + ", " + sn + "))"
}

func run6(c Case6) vh.Case {
	for try := 0; ; try++ {
		t0 := time.Now()
		vc := run6once(c)
		if time.Since(t0) < maxDrift || try >= 20 {
			if try >= 20 {
				vc.Tags = append(vc.Tags, "slow-case:drift-not-bounded")
			}
			return vc
		}
	}
}

func run6once(c Case6) vh.Case {
	v := newSrv6(&c)
	tags := map[string]bool{}
	var tr []string
	conc := c
	conc.Ops = nil
	for _, o := range c.Ops {
		o = v.resolve(o)
		conc.Ops = append(conc.Ops, o)
		tags["op6:"+o.K] = true
		tr = append(tr, v.exec(o))
	}
	asize := new(big.Int).Lsh(big.NewInt(1), uint(128-c.ABits))
	cfg := fmt.Sprintf("{| a_base := %s; a_size := %s; p_base := %s; p_step := 18446744073709551616; p_count := %d; c_valid := %d |}",
		nOf(abase6), asize, nOf(pbase6), 1<<(64-c.PBits), c.Valid)
	return vh.Case{Coq: "(" + cfg + ",\n  " + vh.List(tr) + ")", Desc: Case{Proto: "v6", V6: &conc},
		Tags: tagList(tags, fmt.Sprintf("v6:addr/%d", c.ABits), fmt.Sprintf("v6:pd/%d", c.PBits), fmt.Sprintf("len:%d", len(c.Ops)/10*10))}
}

const valid6 = 100

func pools6() []Case6 {
	return []Case6{{ABits: 127, PBits: 63, Valid: valid6}, {ABits: 126, PBits: 62, Valid: valid6}}
}

func alphabet6(nc int, full bool) []Op6 {
	var a []Op6
	for c := 0; c < nc; c++ {
		a = append(a,
			Op6{K: "solicit", C: c, NA: true, PD: true},
			Op6{K: "request", C: c, Flag: true, NA: true, PD: true},
			Op6{K: "renew", C: c, NA: true, PD: true},
			Op6{K: "release", C: c},
			Op6{K: "decline", C: c},
		)
		if full {
			a = append(a,
				Op6{K: "solicit", C: c, Flag: true, NA: true},
				Op6{K: "request", C: c, Flag: true, PD: true},
				Op6{K: "rebind", C: c, NA: true},
				Op6{K: "rebind", C: c, PD: true},
				Op6{K: "confirm", C: c, Sym: "own"},
				Op6{K: "inforeq", C: c, NA: true, PD: true},
			)
		}
	}
	a = append(a, Op6{K: "advance", D: valid6 + 1})
	if full {
		a = append(a, Op6{K: "advance", D: valid6 - 1})
	}
	return a
}

func enum6(pool Case6, alpha []Op6, depth int, sym bool, emit func(Case6)) {
	idx := make([]int, depth)
	for {
		c := pool
		var cs []int
		for _, i := range idx {
			c.Ops = append(c.Ops, alpha[i])
			if alpha[i].K != "advance" {
				cs = append(cs, alpha[i].C)
			}
		}
		if !sym || canonical(cs) {
			emit(c)
		}
		k := depth - 1
		for k >= 0 {
			idx[k]++
			if idx[k] < len(alpha) {
				break
			}
			idx[k] = 0
			k--
		}
		if k < 0 {
			return
		}
	}
}

func rand6(r *vh.Rng, maxOps int) Case6 {
	ps := pools6()
	c := ps[r.Intn(len(ps))]
	nc := 2 + r.Intn(2)
	n := 3 + r.Intn(maxOps-2)
	quiet := r.Chance(1, 2) // half of the cases: no Decline and no lifetime running out (guarded stream)
	for i := 0; i < n; i++ {
		o := Op6{C: r.Intn(nc), NA: r.Chance(3, 4), PD: r.Chance(1, 2)}
		switch x := r.Intn(100); {
		case x < 18:
			o.K, o.Flag = "solicit", r.Chance(1, 3)
		case x < 42:
			o.K, o.Flag = "request", !r.Chance(1, 8)
		case x < 54:
			o.K = "renew"
		case x < 60:
			o.K = "rebind"
		case x < 66:
			o.K, o.Sym = "confirm", []string{"own", "other", "out", "none"}[r.Intn(4)]
		case x < 68:
			o.K = "inforeq"
		case x < 80:
			o.K = "release"
		case x < 88:
			o.K = "decline"
			if quiet {
				o.K = "release"
			}
		default:
			o.K, o.D = "advance", []int{0, 1, valid6 - 1, valid6, valid6 + 1, valid6 / 2}[r.Intn(6)]
			if quiet {
				o.D = r.Intn(2)
			}
		}
		c.Ops = append(c.Ops, o)
	}
	return c
}

const header6 = `From Coq Require Import NArith List. Import ListNotations.
From Verif Require Import Model.Dhcp4 Model.Dhcp6 Model.DhcpSpec Model.DhcpCheck.
Local Open Scope N_scope.
Definition cases : list case6 := [
`
const footer6 = `
].
Definition R := Eval vm_compute in run_cases6 cases.
Print R.
`

// ------------------------------------------------------------------ main

func runCase(c Case) (vh.Case, bool) {
	if c.Proto == "v6" && c.V6 != nil {
		return run6(*c.V6), true
	}
	return run4(*c.V4), false
}

func main() {
	cfg := vh.ParseFlags()
	openSockets6()
	if cfg.Replay != "" {
		var c Case
		if err := vh.LoadReplay(cfg.Replay, &c); err != nil {
			panic(err)
		}
		vc, is6 := runCase(c)
		switch {
		case is6:
			vh.Emit(cfg, "dhcp6", header6, footer6, []vh.Case{vc}, nil)
		case c.V4.Alloc:
			vh.Emit(cfg, "dhcp4h", header4h, footer4h, []vh.Case{vc}, nil)
		default:
			vh.Emit(cfg, "dhcp4", header4, footer4, []vh.Case{vc}, nil)
		}
		return
	}
	var c4, c4h, c6 []vh.Case
	for _, f := range vh.CorpusFiles(cfg) {
		var c Case
		if err := vh.LoadReplay(f, &c); err != nil {
			panic(err)
		}
		vc, is6 := runCase(c)
		vc.Tags = append(vc.Tags, "corpus:"+strings.TrimSuffix(f[strings.LastIndex(f, "/")+1:], ".json"))
		switch {
		case is6:
			c6 = append(c6, vc)
		case c.V4.Alloc:
			c4h = append(c4h, vc)
		default:
			c4 = append(c4, vc)
		}
	}
	if len(c4h) > 0 {
		vh.Emit(cfg, "corpus4h", header4h, footer4h, c4h, nil)
	}
	if len(c4) > 0 {
		vh.Emit(cfg, "corpus4", header4, footer4, c4, nil)
	}
	if len(c6) > 0 {
		vh.Emit(cfg, "corpus6", header6, footer6, c6, nil)
	}

	r := vh.NewRng(cfg.Seed)
	// emit a stream in about 8 equal shards (a coqc start costs as much as ~80 short cases)
	emit := func(stream, header, footer string, cases []vh.Case, extra map[string]interface{}) {
		cx := cfg
		cx.Shard = (len(cases) + 7) / 8
		if cx.Shard < 40 {
			cx.Shard = 40
		}
		vh.Emit(cx, stream, header, footer, cases, extra)
	}
	// exhaustive part
	var x4, b4, x6 []vh.Case
	n4, n6, maxOps := 160, 120, 30
	if cfg.Thorough() {
		n4, n6, maxOps = 1500, 1200, 60
	}
	p4, p6 := pools4(), pools6()
	add4 := func(c Case4) { x4 = append(x4, run4(c)) }
	addb := func(c Case4) { b4 = append(b4, run4(c)) }
	add6 := func(c Case6) { x6 = append(x6, run6(c)) }
	if !cfg.Thorough() {
		enum4(p4[0], alphabet4(2, false), 3, true, add4) // 14^3 modulo client renaming
		enum4(p4[0], alphabet4(2, true), 2, false, add4) // 29^2
		enum4(p4[2], alphabet4(2, false), 2, true, add4)
		boundary4(p4[2], 0, []int{0, 1}, []int{1}, addb) // 1 usable address, B acquires in between
		boundary4(p4[2], 0, []int{0}, []int{0}, addb)
		boundary4(p4[0], 1, []int{1}, []int{0}, addb)    // 2 usable, relayed with own circuit-ids, with a renewal
		enum6(p6[0], alphabet6(2, false), 3, true, add6) // 11^3 modulo client renaming
		enum6(p6[0], alphabet6(2, true), 2, false, add6) // 24^2
	} else {
		enum4(p4[0], alphabet4(2, true), 3, false, add4)  // 29^3
		enum4(p4[2], alphabet4(2, false), 3, false, add4) // 14^3
		enum4(p4[1], alphabet4(3, false), 3, true, add4)  // 20^3 modulo client renaming
		for _, pl := range []Case4{p4[2], p4[0], p4[3]} {
			for mode := 0; mode < 3; mode++ {
				boundary4(pl, mode, []int{0, 1}, []int{0, 1}, addb)
			}
		}
		enum6(p6[0], alphabet6(2, true), 3, true, add6)  // 24^3 modulo client renaming (the v6 alphabet is the same for every client)
		enum6(p6[1], alphabet6(3, false), 3, true, add6) // 16^3 modulo client renaming
	}
	ex := map[string]interface{}{"exhaustive": true, "note": "every op sequence of the stated depth over the stream's alphabet (symmetric alphabets: modulo renaming of the clients)"}
	emit("dhcp4x", header4, footer4, x4, ex)
	emit("dhcp4b", header4, footer4, b4, map[string]interface{}{"exhaustive": true, "note": "lease-expiry boundary scripts: renew? x advance{L-1,L,L+1} x tick? x 5 actions x tick? x 2 probes"})
	emit("dhcp6x", header6, footer6, x6, ex)
	// allocator configuration: exhaustive part then random part in one stream
	var h4 []vh.Case
	addh := func(c Case4) { c.Alloc = true; h4 = append(h4, run4(c)) }
	nh := 60
	if !cfg.Thorough() {
		enum4(p4[0], alphabet4h(2, false), 2, false, addh) // 20^2
	} else {
		nh = 600
		enum4(p4[0], alphabet4h(2, true), 2, false, addh) // 34^2
		enum4(p4[0], alphabet4h(2, false), 3, true, addh) // 20^3 modulo client renaming
		enum4(p4[2], alphabet4h(2, false), 3, true, addh)
	}
	for i := 0; i < nh; i++ {
		h4 = append(h4, run4(rand4h(r.Fork(), maxOps)))
	}
	emit("dhcp4h", header4h, footer4h, h4, map[string]interface{}{"note": "allocator configuration: exhaustive over alphabet4h to the stated depth, then random"})
	// random part
	var r4, r6 []vh.Case
	for i := 0; i < n4; i++ {
		r4 = append(r4, run4(rand4(r.Fork(), maxOps)))
	}
	for i := 0; i < n6; i++ {
		r6 = append(r6, run6(rand6(r.Fork(), maxOps*2/3)))
	}
	emit("dhcp4", header4, footer4, r4, nil)
	emit("dhcp6", header6, footer6, r6, nil)
}
