// C20 correspondence driver: the real key-issuing components vs Model/Keys.v, Model/Indexes.v.
// One stream per component; after every operation the forward and reverse lookups of every live
// key are recorded through the exported APIs (plus read-only verif accessors for reverse maps).
package main

import (
	"context"
	"errors"
	"fmt"
	"net"
	"sort"
	"strings"
	"time"

	"verifharness/vh"

	"github.com/codelaboratoryltd/bng/pkg/allocator"
	"github.com/codelaboratoryltd/bng/pkg/ebpf"
	"github.com/codelaboratoryltd/bng/pkg/nexus"
	"github.com/codelaboratoryltd/bng/pkg/pppoe"
	"github.com/codelaboratoryltd/bng/pkg/qinq"
	"github.com/codelaboratoryltd/bng/pkg/state"
	"github.com/codelaboratoryltd/bng/pkg/subscriber"
	"go.uber.org/zap"
)

// ------------------------------------------------------------------ case description (replayable)

type Op struct {
	K    string   `json:"k"`
	N    int      `json:"n,omitempty"`    // holder / id
	T    int      `json:"t,omitempty"`    // mgr: thread (one concurrent call)
	S    int      `json:"s,omitempty"`    // s-tag / literal session id
	C    int      `json:"c,omitempty"`    // c-tag / mac number
	L    [][3]int `json:"l,omitempty"`    // load list (nte, s, c)
	Keys [][2]int `json:"keys,omitempty"` // (index, key) pairs
	B    []byte   `json:"b,omitempty"`    // circuit-id
}

type Case struct {
	Comp string   `json:"comp"`           // vlan qinq sess ckey idx
	Cfg  []int    `json:"cfg,omitempty"`  // vlan: ss se cs ce; qinq: cs ce; sess: initial nextID; idx: kind
	SR   [][2]int `json:"sr,omitempty"`   // qinq S-tag ranges
	NH   int      `json:"nh,omitempty"`   // number of holders (NTEs / subscribers / ids)
	Ops  []Op     `json:"ops"`
	Note string   `json:"note,omitempty"`
}

// ------------------------------------------------------------------ observation printing

type pair struct{ a, b uint64 }

func plist(l []pair) string {
	it := make([]string, len(l))
	for i, p := range l {
		it[i] = fmt.Sprintf("(%d,%d)", p.a, p.b)
	}
	return vh.List(it)
}

type snap struct {
	fwd, rev []pair
	tot      int // -1: not exposed
}

func (s snap) coq() string {
	t := "None"
	if s.tot >= 0 {
		t = fmt.Sprintf("(Some %d)", s.tot)
	}
	return fmt.Sprintf("Sn %s %s %s", plist(s.fwd), plist(s.rev), t)
}

func obs(ret string, snaps []snap) string {
	it := make([]string, len(snaps))
	for i, s := range snaps {
		it[i] = s.coq()
	}
	return fmt.Sprintf("Ob (%s) %s", ret, vh.List(it))
}

func fp(snaps []snap, extra string) string {
	var sb strings.Builder
	for _, s := range snaps {
		sb.WriteString(s.coq())
	}
	sb.WriteString(extra)
	return sb.String()
}

func nlist(l []uint64) string {
	it := make([]string, len(l))
	for i, x := range l {
		it[i] = fmt.Sprintf("%d", x)
	}
	return vh.List(it)
}

func sortedUnion(a []uint64, b []pair) []uint64 {
	m := map[uint64]bool{}
	for _, x := range a {
		m[x] = true
	}
	for _, p := range b {
		m[p.b] = true
	}
	out := make([]uint64, 0, len(m))
	for x := range m {
		out = append(out, x)
	}
	sort.Slice(out, func(i, j int) bool { return out[i] < out[j] })
	return out
}

func pk(s, c int) uint64 { return uint64(s)*65536 + uint64(c) }

// run f under a timeout; false = did not return (the goroutine is abandoned)
func returns(f func()) bool {
	done := make(chan struct{})
	go func() { defer close(done); f() }()
	select {
	case <-done:
		return true
	case <-time.After(3 * time.Second):
		return false
	}
}

type result struct {
	coq   string
	tags  []string
	final string // fingerprint of the final state (exploration)
}

// ------------------------------------------------------------------ VLANAllocator

func clamp16(v int) int {
	if v < 0 {
		return 0
	}
	if v > 65535 {
		return 65535
	}
	return v
}

func vlanProbe(c Case) ([]uint64, bool) {
	ss, se, cs, ce := c.Cfg[0], c.Cfg[1], c.Cfg[2], c.Cfg[3]
	small := se >= ss && ce >= cs && (se-ss+1)*(ce-cs+1) <= 36
	sset, cset := map[int]bool{0: true}, map[int]bool{0: true}
	if small {
		for s := clamp16(ss - 1); s <= clamp16(se+1); s++ {
			sset[s] = true
		}
		for x := clamp16(cs - 1); x <= clamp16(ce+1); x++ {
			cset[x] = true
		}
	} else {
		for _, v := range []int{ss, ss + 1, se} {
			sset[clamp16(v)] = true
		}
		for _, v := range []int{cs, cs + 1, cs + 2, ce} {
			cset[clamp16(v)] = true
		}
	}
	for _, o := range c.Ops {
		if o.K == "s" {
			sset[o.S] = true
		}
		for _, r := range o.L {
			sset[r[1]] = true
			cset[r[2]] = true
		}
	}
	var out []uint64
	for s := range sset {
		for x := range cset {
			out = append(out, pk(s, x))
		}
	}
	sort.Slice(out, func(i, j int) bool { return out[i] < out[j] })
	return out, small
}

func nteName(n int) string { return fmt.Sprintf("nte-%d", n) }
func nteNum(s string) uint64 {
	var n uint64
	fmt.Sscanf(s, "nte-%d", &n)
	return n
}

func runVLAN(c Case) result {
	cfg := nexus.VLANAllocatorConfig{
		STagRange: nexus.VLANRange{Start: uint16(c.Cfg[0]), End: uint16(c.Cfg[1])},
		CTagRange: nexus.VLANRange{Start: uint16(c.Cfg[2]), End: uint16(c.Cfg[3])},
	}
	a := nexus.NewVLANAllocator(cfg)
	probe, small := vlanProbe(c)
	observe := func() []snap {
		var s snap
		for n := 0; n < c.NH; n++ {
			if al, ok := a.Get(nteName(n)); ok {
				s.fwd = append(s.fwd, pair{uint64(n), pk(int(al.STag), int(al.CTag))})
			}
		}
		r := a.VerifReverse()
		for _, k := range sortedUnion(probe, s.fwd) {
			if id, ok := r[[2]uint16{uint16(k / 65536), uint16(k % 65536)}]; ok {
				s.rev = append(s.rev, pair{k, nteNum(id)})
			}
		}
		s.tot = len(r)
		return []snap{s}
	}
	var tr []string
	tags := map[string]bool{}
	hung := false
	for _, o := range c.Ops {
		if hung {
			break
		}
		var op, ret string
		var al *nexus.VLANAllocation
		var err error
		cls := func(def int) string {
			if errors.Is(err, nexus.ErrVLANExhausted) {
				return "RErr 1"
			}
			return fmt.Sprintf("RErr %d", def)
		}
		switch o.K {
		case "a":
			op = fmt.Sprintf("VAlloc %d", o.N)
			if !returns(func() { al, err = a.Allocate(nteName(o.N)) }) {
				hung = true
			} else if err != nil {
				ret = cls(4)
			} else {
				ret = fmt.Sprintf("RKey %d", pk(int(al.STag), int(al.CTag)))
			}
		case "s":
			op = fmt.Sprintf("VAllocS %d %d", o.N, o.S)
			if !returns(func() { al, err = a.AllocateWithSTag(nteName(o.N), uint16(o.S)) }) {
				hung = true
			} else if err != nil {
				ret = cls(2)
			} else {
				ret = fmt.Sprintf("RKey %d", pk(int(al.STag), int(al.CTag)))
			}
		case "r":
			op = fmt.Sprintf("VRelease %d", o.N)
			a.Release(nteName(o.N))
			ret = "RNone"
		case "l":
			var ntes []*nexus.NTE
			var it []string
			for _, r := range o.L {
				ntes = append(ntes, &nexus.NTE{ID: nteName(r[0]), STag: uint16(r[1]), CTag: uint16(r[2])})
				it = append(it, fmt.Sprintf("(%d,%d,%d)", r[0], r[1], r[2]))
			}
			op = "VLoad " + vh.List(it)
			if err = a.LoadFromStore(context.Background(), ntes); err != nil {
				ret = "RErr 3"
			} else {
				ret = "RNone"
			}
		default:
			panic("vlan op " + o.K)
		}
		tags["vlan:"+o.K] = true
		if hung {
			tr = append(tr, vh.Pair(op, obs("RHang", []snap{{tot: -1}})))
			tags["vlan:hang"] = true
			break
		}
		if strings.HasPrefix(ret, "RErr") {
			tags["vlan:"+strings.ReplaceAll(ret, " ", "")] = true
		}
		tr = append(tr, vh.Pair(op, obs(ret, observe())))
	}
	var nt []uint64
	for n := 0; n < c.NH; n++ {
		nt = append(nt, uint64(n))
	}
	final := ""
	if !hung {
		final = fp(observe(), fmt.Sprintf("cur=%d", a.VerifCurrentSTag()))
	}
	coq := fmt.Sprintf("({| v_ss := %d; v_se := %d; v_cs := %d; v_ce := %d |}, %s, %s, %s,\n  %s)",
		c.Cfg[0], c.Cfg[1], c.Cfg[2], c.Cfg[3], nlist(nt), nlist(probe), vh.Bool(small), vh.List(tr))
	return result{coq, keys(tags, fmt.Sprintf("vlan:small=%v", small)), final}
}

func keys(m map[string]bool, extra ...string) []string {
	var l []string
	for k := range m {
		l = append(l, k)
	}
	l = append(l, extra...)
	sort.Strings(l)
	return l
}

// ------------------------------------------------------------------ qinq.Mapper

func subName(n int) string { return fmt.Sprintf("sub-%d", n) }
func subNum(s string) uint64 {
	var n uint64
	fmt.Sscanf(s, "sub-%d", &n)
	return n
}

func runQinQ(c Case) result {
	cfg := qinq.Config{Enabled: true, CTagRange: qinq.VLANRange{Start: uint16(c.Cfg[0]), End: uint16(c.Cfg[1])}}
	sset, cset := map[int]bool{0: true}, map[int]bool{0: true}
	var srs []string
	for _, r := range c.SR {
		cfg.STagRanges = append(cfg.STagRanges, qinq.VLANRange{Start: uint16(r[0]), End: uint16(r[1])})
		srs = append(srs, fmt.Sprintf("(%d,%d)", r[0], r[1]))
		for _, v := range []int{r[0] - 1, r[0], r[1], r[1] + 1} {
			sset[clamp16(v)] = true
		}
	}
	for _, v := range []int{c.Cfg[0] - 1, c.Cfg[0], c.Cfg[1], c.Cfg[1] + 1} {
		cset[clamp16(v)] = true
	}
	for _, o := range c.Ops {
		if o.K != "unsub" {
			sset[o.S] = true
			cset[o.C] = true
		}
	}
	var probe []uint64
	for s := range sset {
		for x := range cset {
			probe = append(probe, pk(s, x))
		}
	}
	sort.Slice(probe, func(i, j int) bool { return probe[i] < probe[j] })
	m := qinq.NewMapper(cfg)
	observe := func() []snap {
		var s snap
		for n := 0; n < c.NH; n++ {
			if v, ok := m.GetVLAN(subName(n)); ok {
				s.fwd = append(s.fwd, pair{uint64(n), pk(int(v.STag), int(v.CTag))})
			}
		}
		for _, k := range sortedUnion(probe, s.fwd) {
			if id, ok := m.GetSubscriber(qinq.VLANPair{STag: uint16(k / 65536), CTag: uint16(k % 65536)}); ok {
				s.rev = append(s.rev, pair{k, subNum(id)})
			}
		}
		s.tot = m.Stats().TotalMappings
		return []snap{s}
	}
	var tr []string
	tags := map[string]bool{}
	for _, o := range c.Ops {
		var op, ret string
		switch o.K {
		case "reg":
			op = fmt.Sprintf("QReg %d %d %d", o.S, o.C, o.N)
			err := m.Register(qinq.VLANPair{STag: uint16(o.S), CTag: uint16(o.C)}, subName(o.N))
			switch {
			case err == nil:
				ret = fmt.Sprintf("RKey %d", pk(o.S, o.C))
			case strings.Contains(err.Error(), "already mapped"):
				ret = "RErr 3"
			default:
				ret = "RErr 2"
			}
		case "unreg":
			op = fmt.Sprintf("QUnreg %d %d", o.S, o.C)
			m.Unregister(qinq.VLANPair{STag: uint16(o.S), CTag: uint16(o.C)})
			ret = "RNone"
		case "unsub":
			op = fmt.Sprintf("QUnregSub %d", o.N)
			m.UnregisterSubscriber(subName(o.N))
			ret = "RNone"
		default:
			panic("qinq op " + o.K)
		}
		tags["qinq:"+o.K] = true
		if strings.HasPrefix(ret, "RErr") {
			tags["qinq:"+strings.ReplaceAll(ret, " ", "")] = true
		}
		tr = append(tr, vh.Pair(op, obs(ret, observe())))
	}
	var subs []uint64
	for n := 0; n < c.NH; n++ {
		subs = append(subs, uint64(n))
	}
	coq := fmt.Sprintf("({| q_sr := %s; q_cs := %d; q_ce := %d |}, %s, %s,\n  %s)",
		vh.List(srs), c.Cfg[0], c.Cfg[1], nlist(subs), nlist(probe), vh.List(tr))
	return result{coq, keys(tags), fp(observe(), "")}
}

// ------------------------------------------------------------------ pppoe.SessionManager

func macOf(n int) net.HardwareAddr { return net.HardwareAddr{2, 0, 0, 0, byte(n >> 8), byte(n)} }
func macNum(m net.HardwareAddr) uint64 {
	if len(m) != 6 {
		return 888888
	}
	return uint64(m[4])<<8 | uint64(m[5])
}

type hsess struct {
	p    *pppoe.Session
	id   uint16
	mac  int
	gone bool
}

func runSess(c Case) result {
	m := pppoe.NewSessionManager()
	next := c.Cfg[0]
	m.VerifSetNextID(uint16(next))
	srv := net.HardwareAddr{2, 0, 0, 0, 0xff, 0xff}
	nCreate := 0
	macs := map[int]bool{}
	for _, o := range c.Ops {
		if o.K == "c" {
			nCreate++
			macs[o.C] = true
		}
	}
	idset := map[uint64]bool{0: true, 1: true, 2: true, 65534: true, 65535: true}
	for i := -1; i <= nCreate+1; i++ {
		idset[uint64((next+i+65536)%65536)] = true
		idset[uint64((next+i+65536)%65536+1)%65536] = true
	}
	for _, o := range c.Ops {
		if o.K == "rid" {
			idset[uint64(o.S)] = true
		}
		if o.K == "n" { // the counter is moved: ids around the new position, as far as the creations can reach
			for i := -1; i <= nCreate+1; i++ {
				idset[uint64((o.S+i+65536)%65536)] = true
			}
		}
	}
	var pids, pmacs []uint64
	for k := range idset {
		pids = append(pids, k)
	}
	for k := range macs {
		pmacs = append(pmacs, uint64(k))
	}
	sort.Slice(pids, func(i, j int) bool { return pids[i] < pids[j] })
	sort.Slice(pmacs, func(i, j int) bool { return pmacs[i] < pmacs[j] })
	var made []*hsess
	holderOf := func(p *pppoe.Session) uint64 {
		for h, s := range made {
			if s.p == p {
				return uint64(h)
			}
		}
		return 777777
	}
	observe := func() []snap {
		var s0, s1 snap
		for h, s := range made {
			if !s.gone {
				s0.fwd = append(s0.fwd, pair{uint64(h), uint64(s.p.ID)})
				s1.fwd = append(s1.fwd, pair{uint64(h), macNum(s.p.ClientMAC)})
			}
		}
		for _, id := range sortedUnion(pids, s0.fwd) {
			if p := m.GetSession(uint16(id)); p != nil {
				s0.rev = append(s0.rev, pair{id, holderOf(p)})
			}
		}
		s0.tot = m.Count()
		for _, mc := range sortedUnion(pmacs, s1.fwd) {
			if p := m.GetSessionByMAC(macOf(int(mc))); p != nil {
				s1.rev = append(s1.rev, pair{mc, holderOf(p)})
			}
		}
		s1.tot = len(m.VerifMACIndex())
		return []snap{s0, s1}
	}
	var tr []string
	tags := map[string]bool{}
	hung := false
	for _, o := range c.Ops {
		var op, ret string
		switch o.K {
		case "c":
			h := len(made)
			op = fmt.Sprintf("SCreate %d %d", h, o.C)
			var p *pppoe.Session
			var err error
			if !returns(func() { p, err = m.CreateSession(macOf(o.C), srv) }) {
				hung = true
			} else if err != nil {
				ret = "RErr 1"
			} else {
				made = append(made, &hsess{p: p, id: p.ID, mac: o.C})
				ret = fmt.Sprintf("RKey %d", p.ID)
				if p.ID == 0 {
					tags["sess:id0"] = true
				}
			}
		case "n":
			if o.S < 1 || o.S > 65535 {
				panic("sess: the counter is never 0")
			}
			op = fmt.Sprintf("SSetNext %d", o.S)
			m.VerifSetNextID(uint16(o.S))
			ret = "RNone"
		case "rold", "rnew", "rid":
			id := o.S
			if o.K != "rid" {
				id = 3 // nothing live: some id
				if o.K == "rold" {
					for _, s := range made {
						if !s.gone {
							id = int(s.id)
							break
						}
					}
				} else {
					for i := len(made) - 1; i >= 0; i-- {
						if !made[i].gone {
							id = int(made[i].id)
							break
						}
					}
				}
			}
			op = fmt.Sprintf("SRemove %d", id)
			m.RemoveSession(uint16(id))
			for _, s := range made {
				if int(s.id) == id {
					s.gone = true
				}
			}
			ret = "RNone"
		default:
			panic("sess op " + o.K)
		}
		tags["sess:"+o.K] = true
		if hung {
			tr = append(tr, vh.Pair(op, obs("RHang", []snap{{tot: -1}, {tot: -1}})))
			tags["sess:hang"] = true
			break
		}
		tr = append(tr, vh.Pair(op, obs(ret, observe())))
	}
	final := ""
	if !hung {
		final = fp(observe(), fmt.Sprintf("next=%d", m.VerifNextID()))
	}
	if next > 60000 {
		tags["sess:near-wrap"] = true
	}
	coq := fmt.Sprintf("(%d, %s, %s,\n  %s)", next, nlist(pids), nlist(pmacs), vh.List(tr))
	return result{coq, keys(tags), final}
}

// ------------------------------------------------------------------ circuit-id keys

// a byte string as (B len [w1; w2; ...]) with big-endian 6-byte words, zero padded
func bnum(b []byte) string {
	p := append([]byte(nil), b...)
	for len(p)%6 != 0 {
		p = append(p, 0)
	}
	var ws []string
	for i := 0; i < len(p); i += 6 {
		var w uint64
		for _, x := range p[i : i+6] {
			w = w<<8 | uint64(x)
		}
		ws = append(ws, fmt.Sprintf("%d", w))
	}
	return fmt.Sprintf("(B %d %s)", len(b), vh.List(ws))
}

func runCKey(c Case) result {
	var tr []string
	tags := map[string]bool{}
	for _, o := range c.Ops {
		switch o.K {
		case "key":
			k := ebpf.MakeCircuitIDKey(o.B)
			tr = append(tr, vh.Pair("CKey "+bnum(o.B), "CBytes "+bnum(k[:])))
		case "hash":
			tr = append(tr, vh.Pair("CHash "+bnum(o.B), fmt.Sprintf("CNum %d", ebpf.HashCircuitID(o.B))))
		default:
			panic("ckey op " + o.K)
		}
		tags["ckey:"+o.K] = true
		switch {
		case len(o.B) > 32:
			tags["ckey:len>32"] = true
		case len(o.B) == 32:
			tags["ckey:len=32"] = true
		default:
			tags["ckey:len<32"] = true
		}
		if len(o.B) > 0 && o.B[len(o.B)-1] == 0 {
			tags["ckey:trailing-zero"] = true
		}
	}
	return result{vh.List(tr), keys(tags), ""}
}

// ------------------------------------------------------------------ index stores

const dangling = 999999

func ipOf(n int) net.IP { return net.IPv4(10, 0, byte(n>>8), byte(n)).To4() }
func ipNum(ip net.IP) uint64 {
	ip = ip.To4()
	if ip == nil {
		return 888888
	}
	return uint64(ip[2])<<8 | uint64(ip[3])
}
func entName(n int) string { return fmt.Sprintf("e-%d", n) }
func entNum(s string) uint64 {
	var n uint64
	if _, err := fmt.Sscanf(s, "e-%d", &n); err != nil {
		return 777777
	}
	return n
}
func keyAt(ks [][2]int, i int) (int, bool) {
	for _, k := range ks {
		if k[0] == i {
			return k[1], true
		}
	}
	return 0, false
}

// stub allocator for subscriber.Manager: hands out the address the driver chose for this call
type stubAlloc struct{ next net.IP }

func (s *stubAlloc) AllocateIPv4(ctx context.Context, sess *subscriber.Session, poolID string) (net.IP, net.IPMask, net.IP, error) {
	return s.next, net.CIDRMask(24, 32), net.IPv4(10, 0, 0, 254).To4(), nil
}
func (s *stubAlloc) AllocateIPv6(ctx context.Context, sess *subscriber.Session, poolID string) (net.IP, *net.IPNet, error) {
	return nil, nil, errors.New("no v6")
}
func (s *stubAlloc) ReleaseIPv4(ctx context.Context, ip net.IP) error { return nil }
func (s *stubAlloc) ReleaseIPv6(ctx context.Context, ip net.IP) error { return nil }

// istore adapts one real store to create/update/delete + per-index forward and reverse lookups
type istore interface {
	create(id int, ks [][2]int) error
	update(id int, ks [][2]int) error
	del(id int) error
	fwd(id int) [][2]uint64        // (index, key) the entity currently reports; nil when absent
	rev(idx int, k int) (uint64, bool) // holder found under key k in index idx
	nidx() int
}

type stSub struct{ s *state.Store }

func (x stSub) mk(id int, ks [][2]int) *state.Subscriber {
	sub := &state.Subscriber{ID: entName(id)}
	if k, ok := keyAt(ks, 0); ok {
		sub.MAC = macOf(k)
	}
	if k, ok := keyAt(ks, 1); ok {
		sub.NTEID = nteName(k)
	}
	return sub
}
func (x stSub) create(id int, ks [][2]int) error { return x.s.CreateSubscriber(x.mk(id, ks)) }
func (x stSub) update(id int, ks [][2]int) error { return x.s.UpdateSubscriber(x.mk(id, ks)) }
func (x stSub) del(id int) error                  { return x.s.DeleteSubscriber(entName(id)) }
func (x stSub) nidx() int                         { return 2 }
func (x stSub) fwd(id int) [][2]uint64 {
	sub, err := x.s.GetSubscriber(entName(id))
	if err != nil || sub == nil {
		return nil
	}
	out := [][2]uint64{}
	if sub.MAC != nil {
		out = append(out, [2]uint64{0, macNum(sub.MAC)})
	}
	if sub.NTEID != "" {
		out = append(out, [2]uint64{1, nteNum(sub.NTEID)})
	}
	return out
}
func (x stSub) rev(idx, k int) (uint64, bool) {
	var sub *state.Subscriber
	var err error
	if idx == 0 {
		sub, err = x.s.GetSubscriberByMAC(macOf(k))
	} else {
		sub, err = x.s.GetSubscriberByNTE(nteName(k))
	}
	if err != nil {
		return 0, false
	}
	if sub == nil {
		return dangling, true
	}
	return entNum(sub.ID), true
}

type stLease struct{ s *state.Store }

func (x stLease) mk(id int, ks [][2]int) *state.Lease {
	l := &state.Lease{ID: entName(id)}
	if k, ok := keyAt(ks, 0); ok {
		l.IPv4 = ipOf(k)
	}
	if k, ok := keyAt(ks, 1); ok {
		l.MAC = macOf(k)
	}
	return l
}
func (x stLease) create(id int, ks [][2]int) error { return x.s.CreateLease(x.mk(id, ks)) }
func (x stLease) update(id int, ks [][2]int) error { return x.s.UpdateLease(x.mk(id, ks)) }
func (x stLease) del(id int) error                  { return x.s.DeleteLease(entName(id)) }
func (x stLease) nidx() int                         { return 2 }
func (x stLease) fwd(id int) [][2]uint64 {
	l, err := x.s.GetLease(entName(id))
	if err != nil || l == nil {
		return nil
	}
	out := [][2]uint64{}
	if l.IPv4 != nil {
		out = append(out, [2]uint64{0, ipNum(l.IPv4)})
	}
	if l.MAC != nil {
		out = append(out, [2]uint64{1, macNum(l.MAC)})
	}
	return out
}
func (x stLease) rev(idx, k int) (uint64, bool) {
	var l *state.Lease
	var err error
	if idx == 0 {
		l, err = x.s.GetLeaseByIP(ipOf(k))
	} else {
		l, err = x.s.GetLeaseByMAC(macOf(k))
	}
	if err != nil {
		return 0, false
	}
	if l == nil {
		return dangling, true
	}
	return entNum(l.ID), true
}

type stSess struct{ s *state.Store }

func (x stSess) mk(id int, ks [][2]int) *state.Session {
	l := &state.Session{ID: entName(id)}
	if k, ok := keyAt(ks, 0); ok {
		l.MAC = macOf(k)
	}
	if k, ok := keyAt(ks, 1); ok {
		l.IPv4 = ipOf(k)
	}
	return l
}
func (x stSess) create(id int, ks [][2]int) error { return x.s.CreateSession(x.mk(id, ks)) }
func (x stSess) update(id int, ks [][2]int) error { return x.s.UpdateSession(x.mk(id, ks)) }
func (x stSess) del(id int) error                  { return x.s.DeleteSession(entName(id)) }
func (x stSess) nidx() int                         { return 2 }
func (x stSess) fwd(id int) [][2]uint64 {
	l, err := x.s.GetSession(entName(id))
	if err != nil || l == nil {
		return nil
	}
	out := [][2]uint64{}
	if l.MAC != nil {
		out = append(out, [2]uint64{0, macNum(l.MAC)})
	}
	if l.IPv4 != nil {
		out = append(out, [2]uint64{1, ipNum(l.IPv4)})
	}
	return out
}
func (x stSess) rev(idx, k int) (uint64, bool) {
	var l *state.Session
	var err error
	if idx == 0 {
		l, err = x.s.GetSessionByMAC(macOf(k))
	} else {
		l, err = x.s.GetSessionByIP(ipOf(k))
	}
	if err != nil {
		return 0, false
	}
	if l == nil {
		return dangling, true
	}
	return entNum(l.ID), true
}

type stNAT struct{ s *state.Store }

func (x stNAT) create(id int, ks [][2]int) error {
	a, _ := keyAt(ks, 0)
	b, _ := keyAt(ks, 1)
	return x.s.CreateNATBinding(&state.NATBinding{ID: entName(id), PrivateIP: ipOf(a), PrivatePort: uint16(1000 + a),
		PublicIP: ipOf(b), PublicPort: uint16(2000 + b), Protocol: 6})
}
func (x stNAT) update(id int, ks [][2]int) error { return errors.New("no update") }
func (x stNAT) del(id int) error                  { return x.s.DeleteNATBinding(entName(id)) }
func (x stNAT) nidx() int                         { return 2 }
func (x stNAT) fwd(id int) [][2]uint64 {
	b, err := x.s.GetNATBinding(entName(id))
	if err != nil || b == nil {
		return nil
	}
	return [][2]uint64{{0, ipNum(b.PrivateIP)}, {1, ipNum(b.PublicIP)}}
}
func (x stNAT) rev(idx, k int) (uint64, bool) {
	var b *state.NATBinding
	var err error
	if idx == 0 {
		b, err = x.s.GetNATBindingByPrivate(ipOf(k), uint16(1000+k), 6)
	} else {
		b, err = x.s.GetNATBindingByPublic(ipOf(k), uint16(2000+k), 6)
	}
	if err != nil {
		return 0, false
	}
	if b == nil {
		return dangling, true
	}
	return entNum(b.ID), true
}

type subMgr struct {
	m   *subscriber.Manager
	al  *stubAlloc
	ids map[int]string // harness id -> uuid
}

func (x *subMgr) sid(id int) string {
	if s, ok := x.ids[id]; ok {
		return s
	}
	return fmt.Sprintf("unbound-%d", id)
}
func (x *subMgr) num(s string) uint64 {
	for k, v := range x.ids {
		if v == s {
			return uint64(k)
		}
	}
	return 777777
}
func (x *subMgr) create(id int, ks [][2]int) error {
	if len(ks) != 1 || ks[0][0] != 0 {
		return errors.New("shape")
	}
	if sid, bound := x.ids[id]; bound {
		if _, live := x.m.GetSession(sid); live {
			return errors.New("harness: this id names a live session (ids are chosen by the code)")
		}
	}
	s, err := x.m.CreateSession(context.Background(), &subscriber.SessionRequest{MAC: macOf(ks[0][1]), Type: subscriber.SessionTypeIPoE})
	if err != nil {
		return err
	}
	x.ids[id] = s.ID
	return nil
}
func (x *subMgr) update(id int, ks [][2]int) error {
	if len(ks) != 1 || ks[0][0] != 1 {
		return errors.New("shape")
	}
	x.al.next = ipOf(ks[0][1])
	return x.m.AssignAddress(context.Background(), x.sid(id), "pool", "")
}
func (x *subMgr) del(id int) error {
	return x.m.TerminateSession(context.Background(), x.sid(id), subscriber.TerminateUserRequest)
}
func (x *subMgr) nidx() int { return 2 }
func (x *subMgr) fwd(id int) [][2]uint64 {
	s, ok := x.m.GetSession(x.sid(id))
	if !ok || s == nil {
		return nil
	}
	out := [][2]uint64{}
	if s.MAC != nil {
		out = append(out, [2]uint64{0, macNum(s.MAC)})
	}
	if s.IPv4 != nil {
		out = append(out, [2]uint64{1, ipNum(s.IPv4)})
	}
	return out
}
func (x *subMgr) rev(idx, k int) (uint64, bool) {
	var s *subscriber.Session
	var ok bool
	if idx == 0 {
		s, ok = x.m.GetSessionByMAC(macOf(k))
	} else {
		s, ok = x.m.GetSessionByIP(ipOf(k))
	}
	if !ok {
		return 0, false
	}
	if s == nil {
		return dangling, true
	}
	return x.num(s.ID), true
}

type memAlloc struct{ s *allocator.MemoryAllocationStore }

func poolName(id int) string { return fmt.Sprintf("p%d", id/16) }
func sbName(id int) string   { return fmt.Sprintf("s%d", id%16) }
func (x memAlloc) create(id int, ks [][2]int) error {
	if len(ks) != 1 || ks[0][0] != 0 {
		return errors.New("shape")
	}
	return x.s.SaveAllocation(context.Background(), allocator.AllocationRecord{SubscriberID: sbName(id), PoolID: poolName(id),
		Prefix: &net.IPNet{IP: ipOf(ks[0][1]), Mask: net.CIDRMask(32, 32)}})
}
func (x memAlloc) update(id int, ks [][2]int) error { return errors.New("no update") }
func (x memAlloc) del(id int) error {
	return x.s.RemoveAllocation(context.Background(), poolName(id), sbName(id))
}
func (x memAlloc) nidx() int { return 1 }
func (x memAlloc) fwd(id int) [][2]uint64 {
	recs, _ := x.s.GetByPool(context.Background(), poolName(id))
	var out [][2]uint64
	for _, r := range recs {
		if r.SubscriberID == sbName(id) {
			out = [][2]uint64{{0, ipNum(r.Prefix.IP)}}
		}
	}
	// the subscriber-major index must tell the same story
	recs2, _ := x.s.GetBySubscriber(context.Background(), sbName(id))
	var out2 [][2]uint64
	for _, r := range recs2 {
		if r.PoolID == poolName(id) {
			out2 = [][2]uint64{{0, ipNum(r.Prefix.IP)}}
		}
	}
	if len(out) != len(out2) || (len(out) == 1 && out[0] != out2[0]) {
		return [][2]uint64{{0, 666666}}
	}
	return out
}
func (x memAlloc) rev(idx, k int) (uint64, bool) {
	r, err := x.s.GetByIP(context.Background(), ipOf(k))
	if err != nil || r == nil {
		return 0, false
	}
	var p, s int
	fmt.Sscanf(r.PoolID, "p%d", &p)
	fmt.Sscanf(r.SubscriberID, "s%d", &s)
	return uint64(p*16 + s), true
}

func idxIDs(c Case) []int {
	m := map[int]bool{}
	for _, o := range c.Ops {
		m[o.N] = true
	}
	var l []int
	for k := range m {
		l = append(l, k)
	}
	sort.Ints(l)
	return l
}

func runIdx(c Case) result {
	kind := c.Cfg[0]
	var st istore
	switch kind {
	case 0:
		st = stSub{state.NewStore(state.DefaultConfig(), zap.NewNop())}
	case 1:
		st = stLease{state.NewStore(state.DefaultConfig(), zap.NewNop())}
	case 2:
		st = stSess{state.NewStore(state.DefaultConfig(), zap.NewNop())}
	case 3:
		st = stNAT{state.NewStore(state.DefaultConfig(), zap.NewNop())}
	case 4:
		al := &stubAlloc{}
		st = &subMgr{m: subscriber.NewManager(subscriber.DefaultManagerConfig(), nil, al, zap.NewNop()), al: al, ids: map[int]string{}}
	case 5:
		st = memAlloc{allocator.NewMemoryAllocationStore()}
	default:
		panic("idx kind")
	}
	if kind == 4 {
		// session ids are chosen by the code (uuid): a session created after a terminated one is a NEW entity.
		// Give every re-creation of a terminated harness id a fresh number, so that a stale index entry left
		// behind by a known defect keeps pointing at the dead entity in the Model as it does in the code
		// (re-using the number made the Model's stale entry point at the new, live session: a Model/code
		// disagreement that only showed after the known finding's step).
		ops := make([]Op, len(c.Ops))
		copy(ops, c.Ops)
		gen, dead := map[int]int{}, map[int]bool{}
		for i := range ops {
			base := ops[i].N
			if ops[i].K == "c" && dead[base] {
				gen[base]++
				dead[base] = false
			}
			if ops[i].K == "d" {
				dead[base] = true
			}
			ops[i].N = base + 100*gen[base]
		}
		c.Ops = ops
	}
	ids := idxIDs(c)
	probe := make([]map[int]bool, st.nidx())
	for i := range probe {
		probe[i] = map[int]bool{}
	}
	for _, o := range c.Ops {
		for _, k := range o.Keys {
			if k[0] < len(probe) {
				probe[k[0]][k[1]] = true
			}
		}
	}
	pl := make([][]uint64, st.nidx())
	for i := range probe {
		for k := range probe[i] {
			pl[i] = append(pl[i], uint64(k))
		}
		sort.Slice(pl[i], func(a, b int) bool { return pl[i][a] < pl[i][b] })
	}
	observe := func() []snap {
		out := make([]snap, st.nidx())
		for i := range out {
			out[i].tot = -1
		}
		for _, id := range ids {
			for _, k := range st.fwd(id) {
				out[k[0]].fwd = append(out[k[0]].fwd, pair{uint64(id), k[1]})
			}
		}
		for i := range out {
			for _, k := range sortedUnion(pl[i], out[i].fwd) {
				if h, ok := st.rev(i, int(k)); ok {
					out[i].rev = append(out[i].rev, pair{k, h})
				}
			}
		}
		return out
	}
	kl := func(ks [][2]int) string {
		it := make([]string, len(ks))
		for i, k := range ks {
			it[i] = fmt.Sprintf("(%d,%d)", k[0], k[1])
		}
		return vh.List(it)
	}
	var tr []string
	tags := map[string]bool{}
	for _, o := range c.Ops {
		var op string
		var err error
		switch o.K {
		case "c":
			op = fmt.Sprintf("ICreate %d %s", o.N, kl(o.Keys))
			err = st.create(o.N, o.Keys)
		case "u":
			op = fmt.Sprintf("IUpdate %d %s", o.N, kl(o.Keys))
			err = st.update(o.N, o.Keys)
		case "d":
			op = fmt.Sprintf("IDelete %d", o.N)
			err = st.del(o.N)
		default:
			panic("idx op " + o.K)
		}
		ret := "RNone"
		if err != nil {
			switch {
			case errors.Is(err, allocator.ErrConflict), strings.Contains(err.Error(), "already exists"):
				ret = "RErr 3"
			default:
				ret = "RErr 4"
			}
			tags[fmt.Sprintf("idx%d:%s", kind, strings.ReplaceAll(ret, " ", ""))] = true
		}
		tags[fmt.Sprintf("idx%d:%s", kind, o.K)] = true
		tr = append(tr, vh.Pair(op, obs(ret, observe())))
	}
	var idl []uint64
	for _, id := range ids {
		idl = append(idl, uint64(id))
	}
	var pls []string
	for _, p := range pl {
		pls = append(pls, nlist(p))
	}
	coq := fmt.Sprintf("(%d, %s, %s,\n  %s)", kind, nlist(idl), vh.List(pls), vh.List(tr))
	return result{coq, keys(tags), fp(observe(), "")}
}

// ------------------------------------------------------------------ dispatch, streams

func run(c Case) result {
	switch c.Comp {
	case "vlan":
		return runVLAN(c)
	case "qinq":
		return runQinQ(c)
	case "sess":
		return runSess(c)
	case "ckey":
		return runCKey(c)
	case "idx":
		return runIdx(c)
	case "mgr":
		return runMgr(c)
	}
	panic("unknown component " + c.Comp)
}

var ctor = map[string]string{"vlan": "UV", "qinq": "UQ", "sess": "US", "ckey": "UC", "idx": "UI", "mgr": "UG"}

const header = `From Coq Require Import NArith List. Import ListNotations.
From Verif Require Import Base.Word Model.Keys Model.Indexes Model.KeysMgr Model.KeysSpec Model.KeysCheck.
Local Open Scope N_scope.
Definition cases : list ucase := [
`
const footer = `
].
Definition R := Eval vm_compute in run_cases cases.
Print R.
`

type stream struct {
	name, comp string
	cases      []vh.Case
	extra      map[string]interface{}
}

func toCase(c Case, r result) vh.Case {
	return vh.Case{Coq: ctor[c.Comp] + " (" + r.coq + ")", Desc: c, Tags: r.tags}
}

// explore enumerates operation sequences over [alphabet] breadth-first up to [depth], expanding
// every distinct final state (full state fingerprint) once: one case per edge of the state graph.
func explore(base Case, alphabet []Op, depth int, maxCases int) ([]vh.Case, map[string]interface{}) {
	seen := map[string]bool{}
	r0 := run(base)
	seen[r0.final] = true
	frontier := [][]Op{nil}
	var out []vh.Case
	saturated := false
	level := 0
	for ; level < depth && len(frontier) > 0; level++ {
		var next [][]Op
		for _, path := range frontier {
			for _, o := range alphabet {
				c := base
				c.Ops = append(append([]Op(nil), path...), o)
				r := run(c)
				out = append(out, toCase(c, r))
				if r.final != "" && !seen[r.final] {
					seen[r.final] = true
					next = append(next, c.Ops)
				}
			}
			if len(out) >= maxCases {
				break
			}
		}
		frontier = next
		if len(out) >= maxCases {
			break
		}
	}
	if len(frontier) == 0 {
		saturated = true
	}
	return out, map[string]interface{}{"exhaustive": len(out) < maxCases, "depth": level, "distinct_states": len(seen),
		"state_space_saturated": saturated,
		"enumeration": "breadth-first over operation sequences; each distinct full state (maps + counters, read through verif accessors) is expanded once with every operation of the alphabet"}
}

func main() {
	cfg := vh.ParseFlags()
	if cfg.Replay != "" {
		var c Case
		if err := vh.LoadReplay(cfg.Replay, &c); err != nil {
			panic(err)
		}
		vh.Emit(cfg, "replay", header, footer, []vh.Case{toCase(c, run(c))}, nil)
		return
	}
	// corpus first
	var corpus []vh.Case
	for _, f := range vh.CorpusFiles(cfg) {
		var c Case
		if err := vh.LoadReplay(f, &c); err != nil {
			panic(err)
		}
		corpus = append(corpus, toCase(c, run(c)))
	}
	if len(corpus) > 0 {
		vh.Emit(cfg, "corpus", header, footer, corpus, nil)
	}
	r := vh.NewRng(cfg.Seed)
	for _, s := range genStreams(r, cfg.Thorough()) {
		vh.Emit(cfg, s.name, header, footer, s.cases, s.extra)
	}
}
