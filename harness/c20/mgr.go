// subscriber.Manager driven one CRITICAL SECTION at a time (Model/KeysMgr.v).
//
// The manager releases its mutex around the allocator calls of AssignAddress (AllocateIPv4,
// AllocateIPv6) and TerminateSession (ReleaseIPv4).  The driver's allocator blocks inside those
// calls on a per-call gate: every multi-section call runs in its own goroutine ("thread"), stops at
// each gate, and the driver decides which thread moves next.  A schedule is therefore a
// deterministic interleaving of the critical sections of concurrent calls; after every section all
// forward and reverse lookups are recorded (no other goroutine is inside the manager then).
package main

import (
	"context"
	"errors"
	"fmt"
	"net"
	"sort"
	"strings"
	"time"

	"verifharness/vh"

	"github.com/codelaboratoryltd/bng/pkg/subscriber"
	"go.uber.org/zap"
)

type gevent struct {
	kind string // "v4" AllocateIPv4 reached, "v6" AllocateIPv6 reached, "rel4" ReleaseIPv4 reached, "ret" call returned
	err  error
}

type gthread struct {
	kind  string // "assign" / "term"
	id    int    // session ordinal
	phase string // "v4", "v6", "rel4", "done"
	ev    chan gevent
	gate  chan net.IP
}

type gthreadKey struct{}

// gateAlloc: calls made on behalf of a thread (found through the context) stop until the driver opens
// the gate; calls without a thread return at once.
type gateAlloc struct{}

func thr(ctx context.Context) *gthread {
	t, _ := ctx.Value(gthreadKey{}).(*gthread)
	return t
}
func (gateAlloc) AllocateIPv4(ctx context.Context, s *subscriber.Session, pool string) (net.IP, net.IPMask, net.IP, error) {
	t := thr(ctx)
	if t == nil {
		return nil, nil, nil, errors.New("no thread")
	}
	t.ev <- gevent{kind: "v4"}
	ip := <-t.gate
	if ip == nil {
		return nil, nil, nil, errors.New("pool exhausted")
	}
	return ip, net.CIDRMask(24, 32), net.IPv4(10, 0, 0, 254).To4(), nil
}
func (gateAlloc) AllocateIPv6(ctx context.Context, s *subscriber.Session, pool string) (net.IP, *net.IPNet, error) {
	if t := thr(ctx); t != nil {
		t.ev <- gevent{kind: "v6"}
		<-t.gate
	}
	return nil, nil, errors.New("no v6")
}
func (gateAlloc) ReleaseIPv4(ctx context.Context, ip net.IP) error {
	if t := thr(ctx); t != nil && t.kind == "term" {
		t.ev <- gevent{kind: "rel4"}
		<-t.gate
	}
	return nil
}
func (gateAlloc) ReleaseIPv6(ctx context.Context, ip net.IP) error { return nil }

func mgrErr(err error) string {
	if err == nil {
		return "RNone"
	}
	s := err.Error()
	switch {
	case strings.Contains(s, "max sessions"):
		return "RErr 1"
	case strings.Contains(s, "already exists"):
		return "RErr 3"
	case strings.Contains(s, "already terminating"):
		return "RErr 5"
	}
	return "RErr 4"
}

// schedule steps (Op.K): c (create, C = mac) | act (N) | ab (T, N) aw (T, C = ip; C < 0: the allocator fails)
// ae (T) | tb (T, N) te (T).  A step that its thread cannot take (no such thread, other phase) is skipped.
func runMgr(c Case) result {
	capN := 100000
	if len(c.Cfg) > 0 && c.Cfg[0] > 0 {
		capN = c.Cfg[0]
	}
	cfg := subscriber.DefaultManagerConfig()
	cfg.MaxSessions = capN
	m := subscriber.NewManager(cfg, nil, gateAlloc{}, zap.NewNop())
	var uu []string // ordinal -> uuid
	sid := func(n int) string {
		if n >= 0 && n < len(uu) {
			return uu[n]
		}
		return fmt.Sprintf("unbound-%d", n)
	}
	num := func(s string) uint64 {
		for i, u := range uu {
			if u == s {
				return uint64(i)
			}
		}
		return 777777
	}
	pm, pi := map[int]bool{0: true, 1: true}, map[int]bool{}
	maxT := 0
	for _, o := range c.Ops {
		switch o.K {
		case "c":
			pm[o.C] = true
		case "aw":
			if o.C >= 0 {
				pi[o.C] = true
			}
		}
		if o.T > maxT {
			maxT = o.T
		}
	}
	drainIP := func(t int) int { return 200 + t }
	for t := 0; t <= maxT; t++ {
		pi[drainIP(t)] = true
	}
	var pmacs, pips []uint64
	for k := range pm {
		pmacs = append(pmacs, uint64(k))
	}
	for k := range pi {
		pips = append(pips, uint64(k))
	}
	sort.Slice(pmacs, func(a, b int) bool { return pmacs[a] < pmacs[b] })
	sort.Slice(pips, func(a, b int) bool { return pips[a] < pips[b] })

	observe := func() []snap {
		out := []snap{{tot: -1}, {tot: -1}}
		for n := range uu {
			s, ok := m.GetSession(uu[n])
			if !ok || s == nil {
				continue
			}
			if s.MAC != nil {
				out[0].fwd = append(out[0].fwd, pair{uint64(n), macNum(s.MAC)})
			}
			if s.IPv4 != nil {
				out[1].fwd = append(out[1].fwd, pair{uint64(n), ipNum(s.IPv4)})
			}
		}
		for i, probe := range [][]uint64{pmacs, pips} {
			for _, k := range sortedUnion(probe, out[i].fwd) {
				var s *subscriber.Session
				var ok bool
				if i == 0 {
					s, ok = m.GetSessionByMAC(macOf(int(k)))
				} else {
					s, ok = m.GetSessionByIP(ipOf(int(k)))
				}
				if !ok {
					continue
				}
				if s == nil {
					out[i].rev = append(out[i].rev, pair{k, dangling})
				} else {
					out[i].rev = append(out[i].rev, pair{k, num(s.ID)})
				}
			}
		}
		return out
	}

	threads := map[int]*gthread{}
	var tr []string
	tags := map[string]bool{}
	hung := false
	emit := func(op, ret string) {
		tr = append(tr, vh.Pair(op, obs(ret, observe())))
		if strings.HasPrefix(ret, "RErr") {
			tags["mgr:"+strings.SplitN(op, " ", 2)[0]+":"+strings.ReplaceAll(ret, " ", "")] = true
		}
	}
	wait := func(t *gthread) (gevent, bool) {
		select {
		case e := <-t.ev:
			if e.kind == "ret" {
				t.phase = "done"
			} else {
				t.phase = e.kind
			}
			return e, true
		case <-time.After(3 * time.Second):
			hung = true
			return gevent{}, false
		}
	}
	hang := func(op string) {
		tr = append(tr, vh.Pair(op, obs("RHang", []snap{{tot: -1}, {tot: -1}})))
		tags["mgr:hang"] = true
	}
	inflight := func() int {
		n := 0
		for _, t := range threads {
			if t.phase != "done" {
				n++
			}
		}
		return n
	}
	step := func(o Op) {
		switch o.K {
		case "c":
			op := fmt.Sprintf("GCreate %d %d", len(uu), o.C)
			s, err := m.CreateSession(context.Background(), &subscriber.SessionRequest{MAC: macOf(o.C), Type: subscriber.SessionTypeIPoE})
			if err != nil {
				emit(op, mgrErr(err))
				return
			}
			uu = append(uu, s.ID)
			emit(op, fmt.Sprintf("RKey %d", len(uu)-1))
			if inflight() > 0 {
				tags["mgr:create-overlaps"] = true
			}
		case "act":
			emit(fmt.Sprintf("GActivate %d", o.N), mgrErr(m.ActivateSession(sid(o.N))))
		case "ab", "tb":
			if t, ok := threads[o.T]; ok && t.phase != "done" {
				return
			}
			t := &gthread{kind: "assign", id: o.N, ev: make(chan gevent), gate: make(chan net.IP)}
			if o.K == "tb" {
				t.kind = "term"
			}
			threads[o.T] = t
			ctx := context.WithValue(context.Background(), gthreadKey{}, t)
			id := sid(o.N)
			if inflight() > 1 {
				tags["mgr:"+t.kind+"-overlaps"] = true
			}
			if o.K == "ab" {
				go func() { t.ev <- gevent{kind: "ret", err: m.AssignAddress(ctx, id, "pool4", "pool6")} }()
				e, ok := wait(t)
				if !ok {
					hang(fmt.Sprintf("GAssignBegin %d", o.N))
					return
				}
				emit(fmt.Sprintf("GAssignBegin %d", o.N), mgrErr(e.err))
			} else {
				go func() {
					t.ev <- gevent{kind: "ret", err: m.TerminateSession(ctx, id, subscriber.TerminateUserRequest)}
				}()
				e, ok := wait(t)
				if !ok {
					hang(fmt.Sprintf("GTermBegin %d", o.N))
					return
				}
				if e.kind == "ret" { // both sections ran back to back (no address to release) or the call was refused
					emit(fmt.Sprintf("GTerm %d", o.N), mgrErr(e.err))
				} else {
					emit(fmt.Sprintf("GTermBegin %d", o.N), "RNone")
				}
			}
		case "aw":
			t, ok := threads[o.T]
			if !ok || t.kind != "assign" || t.phase != "v4" {
				return
			}
			op := fmt.Sprintf("GAssignWrite %d %d", t.id, o.C)
			if o.C < 0 {
				// the allocator refuses: AssignAddress returns without another section
				t.gate <- nil
				if _, ok := wait(t); !ok {
					hang(fmt.Sprintf("GAssignBegin %d", t.id))
				}
				tags["mgr:alloc-fails"] = true
				return
			}
			t.gate <- ipOf(o.C)
			e, ok := wait(t)
			if !ok {
				hang(op)
				return
			}
			emit(op, mgrErr(e.err))
		case "ae":
			t, ok := threads[o.T]
			if !ok || t.kind != "assign" || t.phase != "v6" {
				return
			}
			op := fmt.Sprintf("GAssignEnd %d", t.id)
			t.gate <- nil
			e, ok := wait(t)
			if !ok {
				hang(op)
				return
			}
			emit(op, mgrErr(e.err))
		case "te":
			t, ok := threads[o.T]
			if !ok || t.kind != "term" || t.phase != "rel4" {
				return
			}
			op := fmt.Sprintf("GTermEnd %d", t.id)
			t.gate <- nil
			e, ok := wait(t)
			if !ok {
				hang(op)
				return
			}
			emit(op, mgrErr(e.err))
		default:
			panic("mgr op " + o.K)
		}
		tags["mgr:"+o.K] = true
	}
	for _, o := range c.Ops {
		if hung {
			break
		}
		step(o)
	}
	// let every call that is still in flight finish, lowest thread first
	var ts []int
	for t := range threads {
		ts = append(ts, t)
	}
	sort.Ints(ts)
	for _, t := range ts {
		for i := 0; i < 3 && !hung && threads[t].phase != "done"; i++ {
			switch threads[t].phase {
			case "v4":
				step(Op{K: "aw", T: t, C: drainIP(t)})
			case "v6":
				step(Op{K: "ae", T: t})
			case "rel4":
				step(Op{K: "te", T: t})
			}
		}
	}
	coq := fmt.Sprintf("(%d, %s, %s,\n  %s)", capN, nlist(pmacs), nlist(pips), vh.List(tr))
	return result{coq, keys(tags), ""}
}

// ------------------------------------------------------------------ schedules

type mcall []Op // the sections of one call, in order

func mCreate(mac int) mcall        { return mcall{{K: "c", C: mac}} }
func mActivate(id int) mcall       { return mcall{{K: "act", N: id}} }
func mAssign(t, id, ip int) mcall  { return mcall{{K: "ab", T: t, N: id}, {K: "aw", T: t, C: ip}, {K: "ae", T: t}} }
func mTerminate(t, id int) mcall   { return mcall{{K: "tb", T: t, N: id}, {K: "te", T: t}} }
func seqOf(calls ...mcall) []Op {
	var out []Op
	for _, c := range calls {
		out = append(out, c...)
	}
	return out
}

// every order-preserving merge of a and b
func merges(a, b []Op) [][]Op {
	if len(a) == 0 {
		return [][]Op{append([]Op(nil), b...)}
	}
	if len(b) == 0 {
		return [][]Op{append([]Op(nil), a...)}
	}
	var out [][]Op
	for _, m := range merges(a[1:], b) {
		out = append(out, append([]Op{a[0]}, m...))
	}
	for _, m := range merges(a, b[1:]) {
		out = append(out, append([]Op{b[0]}, m...))
	}
	return out
}

// all two-call interleavings: session 0 (MAC 0) and the bystander session 1 (MAC 1, address 11) exist;
// two calls out of the menu run concurrently in every order of their critical sections; afterwards the
// MAC of session 0 is requested again (reusable after a release / refused while held).
func mgrPairs(withIP bool) []Case {
	setup := seqOf(mCreate(0), mCreate(1), mAssign(0, 1, 11))
	note := "session 0 has no address"
	if withIP {
		setup = append(setup, mAssign(0, 0, 10)...)
		note = "session 0 has address 10"
	}
	menu := func(t int) []mcall {
		l := []mcall{mCreate(0), mCreate(2), mTerminate(t, 0), mTerminate(t, 1), mActivate(0), mAssign(t, 0, -1)}
		if !withIP {
			l = append(l, mAssign(t, 0, 12), mAssign(t, 0, 11))
		} else {
			// a second address for a session is known finding K20f and ends the monitored part of the case
			// there; kept for the orders in which the write comes after the teardown has begun (refused)
			l = append(l, mAssign(t, 0, 12))
		}
		return l
	}
	a, b := menu(1), menu(2)
	var out []Case
	for i := range a {
		for j := i; j < len(b); j++ {
			for _, mg := range merges(a[i], b[j]) {
				ops := append(append(append([]Op(nil), setup...), mg...), Op{K: "c", C: 0})
				out = append(out, Case{Comp: "mgr", Ops: ops, Note: "two concurrent calls, every interleaving of their critical sections; " + note})
			}
		}
	}
	return out
}

func genMgrRandom(r *vh.Rng, maxOps int) Case {
	c := Case{Comp: "mgr"}
	if r.Chance(1, 5) {
		c.Cfg = []int{2 + r.Intn(2)}
	}
	nmac, nip := 2, 3
	created := 0
	type th struct {
		kind  string
		phase int
	}
	ths := map[int]*th{}
	n := 4 + r.Intn(maxOps)
	for i := 0; i < n; i++ {
		sess := r.Intn(created + 1)
		if sess > 2 {
			sess = created - 1 - r.Intn(2)
		}
		switch x := r.Intn(12); {
		case x < 3 || created == 0:
			c.Ops = append(c.Ops, Op{K: "c", C: r.Intn(nmac)})
			created++
		case x < 4:
			c.Ops = append(c.Ops, Op{K: "act", N: sess})
		case x < 6:
			t := r.Intn(4)
			if ths[t] == nil {
				ths[t] = &th{"assign", 0}
				c.Ops = append(c.Ops, Op{K: "ab", T: t, N: sess})
			}
		case x < 8:
			t := r.Intn(4)
			if ths[t] == nil {
				ths[t] = &th{"term", 0}
				c.Ops = append(c.Ops, Op{K: "tb", T: t, N: sess})
			}
		default: // advance a thread
			t := r.Intn(4)
			h := ths[t]
			if h == nil {
				continue
			}
			switch {
			case h.kind == "assign" && h.phase == 0:
				ip := 10 + r.Intn(nip)
				if r.Chance(1, 10) {
					ip = -1
				}
				c.Ops = append(c.Ops, Op{K: "aw", T: t, C: ip})
				h.phase = 1
			case h.kind == "assign":
				c.Ops = append(c.Ops, Op{K: "ae", T: t})
				delete(ths, t)
			default:
				c.Ops = append(c.Ops, Op{K: "te", T: t})
				delete(ths, t)
			}
		}
	}
	return c
}
