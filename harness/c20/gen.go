package main

import (
	"fmt"

	"verifharness/vh"
)

// ------------------------------------------------------------------ generators

func vlanAlphabet(cfg []int, nh int) []Op {
	ss, se, cs, ce := cfg[0], cfg[1], cfg[2], cfg[3]
	a := []Op{{K: "a", N: 0}, {K: "a", N: 1}, {K: "a", N: 2}, {K: "r", N: 0}, {K: "r", N: 1},
		{K: "s", N: 0, S: se}, {K: "s", N: 1, S: ss}, {K: "s", N: 0, S: clamp16(se + 1)},
		// loads: a pair that conflicts with what another NTE typically holds; an NTE listed with a second
		// pair together with an out-of-range pair
		{K: "l", L: [][3]int{{1, ss, cs}, {2, se, ce}}},
		{K: "l", L: [][3]int{{0, se, cs}, {2, clamp16(se + 1), cs}}},
	}
	if ss > 0 {
		a = append(a, Op{K: "s", N: 1, S: ss - 1})
	}
	_ = nh
	return a
}

func genVLANRandom(r *vh.Rng, maxOps int) Case {
	var cfg []int
	switch r.Intn(6) {
	case 0:
		cfg = []int{100, 4094, 100, 4094}
	case 1:
		s := 1 + r.Intn(4000)
		cfg = []int{s, s + r.Intn(3), 10, 10 + r.Intn(3)}
	case 2: // ranges ending at the top of uint16
		cfg = []int{65535 - r.Intn(3), 65535, 65535 - r.Intn(3), 65535}
	case 3:
		cfg = []int{65533, 65534, 7, 8}
	case 4:
		cfg = []int{0, 1, 0, 2} // ranges that contain tag 0
	default:
		s := 1 + r.Intn(60000)
		c := 1 + r.Intn(60000)
		cfg = []int{s, s + r.Intn(5), c, c + r.Intn(4)}
	}
	nh := 2 + r.Intn(4)
	c := Case{Comp: "vlan", Cfg: cfg, NH: nh}
	stag := func() int {
		switch r.Intn(6) {
		case 0:
			return clamp16(cfg[1] + 1)
		case 1:
			return clamp16(cfg[0] - 1)
		case 2:
			return r.Intn(65536)
		default:
			return cfg[0] + r.Intn(cfg[1]-cfg[0]+1)
		}
	}
	ctag := func() int {
		switch r.Intn(6) {
		case 0:
			return clamp16(cfg[3] + 1)
		case 1:
			return 0
		default:
			return cfg[2] + r.Intn(cfg[3]-cfg[2]+1)
		}
	}
	n := 1 + r.Intn(maxOps)
	for i := 0; i < n; i++ {
		switch x := r.Intn(10); {
		case x < 4:
			c.Ops = append(c.Ops, Op{K: "a", N: r.Intn(nh)})
		case x < 6:
			c.Ops = append(c.Ops, Op{K: "s", N: r.Intn(nh), S: stag()})
		case x < 9:
			c.Ops = append(c.Ops, Op{K: "r", N: r.Intn(nh)})
		default:
			var l [][3]int
			for j := 0; j < 1+r.Intn(3); j++ {
				l = append(l, [3]int{r.Intn(nh), stag(), ctag()})
			}
			c.Ops = append(c.Ops, Op{K: "l", L: l})
		}
	}
	return c
}

func qinqAlphabet(c Case) []Op {
	s1 := c.SR[0][0]
	sOut := clamp16(c.SR[len(c.SR)-1][1] + 1)
	c1, c2, cOut := c.Cfg[0], c.Cfg[1], clamp16(c.Cfg[1]+1)
	pairs := [][2]int{{s1, c1}, {s1, c2}, {0, c1}, {sOut, c1}, {s1, cOut}}
	var a []Op
	for _, p := range pairs {
		for id := 0; id < 2; id++ {
			a = append(a, Op{K: "reg", S: p[0], C: p[1], N: id})
		}
	}
	a = append(a, Op{K: "reg", S: s1, C: c1, N: 2})
	for _, p := range pairs[:3] {
		a = append(a, Op{K: "unreg", S: p[0], C: p[1]})
	}
	for id := 0; id < 3; id++ {
		a = append(a, Op{K: "unsub", N: id})
	}
	return a
}

func genQinQRandom(r *vh.Rng, maxOps int) Case {
	c := Case{Comp: "qinq", NH: 2 + r.Intn(4)}
	nr := 1 + r.Intn(2)
	base := 1 + r.Intn(4000)
	for i := 0; i < nr; i++ {
		c.SR = append(c.SR, [2]int{base, base + r.Intn(3)})
		base += 5 + r.Intn(10)
	}
	cs := 1 + r.Intn(4000)
	c.Cfg = []int{cs, cs + r.Intn(3)}
	if r.Chance(1, 6) {
		c.SR = [][2]int{{65534, 65535}}
		c.Cfg = []int{65534, 65535}
	}
	stag := func() int {
		rg := c.SR[r.Intn(len(c.SR))]
		switch r.Intn(7) {
		case 0:
			return 0
		case 1:
			return clamp16(rg[1] + 1)
		case 2:
			return clamp16(rg[0] - 1)
		default:
			return rg[0] + r.Intn(rg[1]-rg[0]+1)
		}
	}
	ctag := func() int {
		switch r.Intn(7) {
		case 0:
			return 0
		case 1:
			return clamp16(c.Cfg[1] + 1)
		default:
			return c.Cfg[0] + r.Intn(c.Cfg[1]-c.Cfg[0]+1)
		}
	}
	n := 1 + r.Intn(maxOps)
	var used [][2]int
	for i := 0; i < n; i++ {
		switch x := r.Intn(10); {
		case x < 6:
			p := [2]int{stag(), ctag()}
			if len(used) > 0 && r.Chance(1, 3) {
				p = used[r.Intn(len(used))]
			}
			used = append(used, p)
			c.Ops = append(c.Ops, Op{K: "reg", S: p[0], C: p[1], N: r.Intn(c.NH)})
		case x < 8:
			p := [2]int{stag(), ctag()}
			if len(used) > 0 && r.Chance(2, 3) {
				p = used[r.Intn(len(used))]
			}
			c.Ops = append(c.Ops, Op{K: "unreg", S: p[0], C: p[1]})
		default:
			c.Ops = append(c.Ops, Op{K: "unsub", N: r.Intn(c.NH)})
		}
	}
	return c
}

func sessAlphabet(nmac int) []Op {
	var a []Op
	for m := 0; m < nmac; m++ {
		a = append(a, Op{K: "c", C: m})
	}
	a = append(a, Op{K: "rold"}, Op{K: "rnew"}, Op{K: "rid", S: 0}, Op{K: "rid", S: 1})
	return a
}

// the wrap with OCCUPIED ids on both sides: every subset of {65534, 65535, 1, 2} in use (sessions placed there
// by moving the counter, each with its own MAC) x the counter standing on every value of 65533..65535, 1, 2
// (0 is never a counter value) x three CreateSession calls, the table observed after each.
func sessWrapOccupied() []Case {
	var out []Case
	ids := []int{65534, 65535, 1, 2}
	for mask := 0; mask < 16; mask++ {
		for _, next := range []int{65533, 65534, 65535, 1, 2} {
			c := Case{Comp: "sess", Cfg: []int{1}, Note: "occupied ids around the wrap, counter moved onto / before them"}
			mac := 0
			for i, id := range ids {
				if mask&(1<<uint(i)) != 0 {
					c.Ops = append(c.Ops, Op{K: "n", S: id}, Op{K: "c", C: mac})
					mac++
				}
			}
			c.Ops = append(c.Ops, Op{K: "n", S: next})
			for k := 0; k < 3; k++ {
				c.Ops = append(c.Ops, Op{K: "c", C: mac})
				mac++
			}
			// the oldest session goes, the counter comes round once more
			c.Ops = append(c.Ops, Op{K: "rold"}, Op{K: "n", S: 65535}, Op{K: "c", C: mac})
			out = append(out, c)
		}
	}
	return out
}

// guarded = every live session has its own MAC (a MAC is reused only after its session was removed)
func genSessRandom(r *vh.Rng, maxOps int, guarded bool) Case {
	next := 1
	switch r.Intn(4) {
	case 0:
		next = 65536 - 1 - r.Intn(6)
	case 1:
		next = 1 + r.Intn(65535)
	}
	c := Case{Comp: "sess", Cfg: []int{next}}
	n := 1 + r.Intn(maxOps)
	type lv struct{ mac int }
	var live []lv // in creation order (mirrors rold / rnew)
	fresh := 0
	for i := 0; i < n; i++ {
		switch x := r.Intn(10); {
		case x < 6:
			mac := fresh
			if guarded {
				fresh++
			} else if len(live) > 0 && r.Chance(1, 2) {
				mac = live[r.Intn(len(live))].mac
			} else {
				fresh++
			}
			c.Ops = append(c.Ops, Op{K: "c", C: mac % 60000})
			live = append(live, lv{mac})
		case x < 8:
			c.Ops = append(c.Ops, Op{K: "rold"})
			if len(live) > 0 {
				live = live[1:]
			}
		case x < 9:
			c.Ops = append(c.Ops, Op{K: "rnew"})
			if len(live) > 0 {
				live = live[:len(live)-1]
			}
		case x < 10 && r.Chance(1, 2):
			// the counter comes round: onto an id near the wrap or near where it started
			v := []int{65533, 65534, 65535, 1, 2, next, next + 1}[r.Intn(7)]
			if v < 1 || v > 65535 {
				v = 1
			}
			c.Ops = append(c.Ops, Op{K: "n", S: v})
		default:
			// literal ids that are never live in a guarded history (0 and an id far from the counter)
			id := 0
			if r.Bool() {
				id = (next + 30000) % 65536
			}
			c.Ops = append(c.Ops, Op{K: "rid", S: id})
		}
	}
	return c
}

func genCKey(r *vh.Rng, guarded bool, nops int) Case {
	c := Case{Comp: "ckey"}
	stems := [][]byte{[]byte("eth 0/1/2:100"), []byte("olt-1/pon-3/onu-17/gem-4/vlan-1010/svc"), r.Bytes(40), []byte("a")}
	for i := 0; i < nops; i++ {
		var b []byte
		st := stems[r.Intn(len(stems))]
		switch r.Intn(5) {
		case 0:
			b = r.Bytes(r.Intn(65))
		case 1: // shared prefix, varying length
			l := r.Intn(65)
			for len(b) < l {
				b = append(b, st...)
			}
			b = b[:l]
		case 2: // shared 32-byte prefix, different tail
			for len(b) < 32 {
				b = append(b, st...)
			}
			b = append(b[:32:32], r.Bytes(r.Intn(6))...)
		case 3: // trailing zeros
			b = append(append([]byte(nil), st[:r.Intn(len(st)+1)]...), make([]byte, r.Intn(4))...)
		default:
			b = append([]byte(nil), st...)
			if len(b) > 0 {
				b[r.Intn(len(b))] ^= byte(1 << uint(r.Intn(8)))
			}
		}
		if guarded {
			if len(b) > 32 {
				b = b[:32]
			}
			for len(b) > 0 && b[len(b)-1] == 0 {
				b = b[:len(b)-1]
			}
		}
		k := "key"
		c.Ops = append(c.Ops, Op{K: k, B: b})
	}
	return c
}

// every length 0..64 of one stem (truncation family); every length 0..31 of one stem, each also with a
// zero byte appended (padding family, no circuit-id longer than the key)
func ckeyFamilies(r *vh.Rng) []Case {
	var out []Case
	for _, stem := range [][]byte{[]byte("olt-1/pon-3/onu-17/gem-4/vlan-1010/service-port-0123456789abcdef!"), r.Bytes(64)} {
		c := Case{Comp: "ckey", Note: "every length 0..64 of one stem"}
		for l := 0; l <= 64; l++ {
			c.Ops = append(c.Ops, Op{K: "key", B: append([]byte(nil), stem[:l]...)})
			if l%4 == 0 {
				c.Ops = append(c.Ops, Op{K: "hash", B: append([]byte(nil), stem[:l]...)})
			}
		}
		out = append(out, c)
		c = Case{Comp: "ckey", Note: "every length 0..31 of one stem, and the same followed by a zero byte"}
		for l := 0; l <= 31; l++ {
			c.Ops = append(c.Ops, Op{K: "key", B: append([]byte(nil), stem[:l]...)})
		}
		for l := 31; l >= 0; l -= 5 {
			c.Ops = append(c.Ops, Op{K: "key", B: append(append([]byte(nil), stem[:l]...), 0)})
		}
		out = append(out, c)
	}
	return out
}

// maxCircuitID: MAX_CIRCUIT_ID_LEN of bpf/maps.h, the longest circuit-id a relay option can carry into the maps
const maxCircuitID = 64

// a stem without zero bytes whose bytes stay non-zero when their lowest bit is flipped
func ckeyStem(r *vh.Rng, n int, ascii bool) []byte {
	b := make([]byte, n)
	for i := range b {
		if ascii {
			b[i] = "olt-17/pon-3/onu-42/gem-4:vlan.1010_svc"[(i*7+i/5)%39]
		} else {
			b[i] = byte(2 + r.Intn(254))
		}
	}
	return b
}

// x and its neighbours that differ in exactly the first / a middle / the last byte
func neighbours(x []byte) [][]byte {
	out := [][]byte{append([]byte(nil), x...)}
	seen := map[int]bool{}
	for _, i := range []int{0, len(x) / 2, len(x) - 1} {
		if i < 0 || i >= len(x) || seen[i] {
			continue
		}
		seen[i] = true
		y := append([]byte(nil), x...)
		y[i] ^= 1
		out = append(out, y)
	}
	return out
}

// HashCircuitID and MakeCircuitIDKey on EVERY length 0..MAX+2, each with its one-byte neighbours; hashes and
// keys in separate short cases, so that a known key collision (beyond 32 bytes) never hides a later step.
// guarded = no rejection expected (all hashes; keys of at most 32 bytes)
func ckeyBoundaryFamilies(r *vh.Rng, thorough bool) (guarded, defect []Case) {
	stems := [][]byte{ckeyStem(r, maxCircuitID+2, true), ckeyStem(r, maxCircuitID+2, false)}
	if thorough {
		for i := 0; i < 6; i++ {
			stems = append(stems, ckeyStem(r, maxCircuitID+2, false))
		}
	}
	for _, stem := range stems {
		all := Case{Comp: "ckey", Note: "hash of every prefix 0..MAX+2 of one stem"}
		for l := 0; l <= maxCircuitID+2; l++ {
			all.Ops = append(all.Ops, Op{K: "hash", B: append([]byte(nil), stem[:l]...)})
			h := Case{Comp: "ckey", Note: fmt.Sprintf("hash: length %d and its one-byte neighbours", l)}
			k := Case{Comp: "ckey", Note: fmt.Sprintf("key: length %d and its one-byte neighbours", l)}
			for _, x := range neighbours(stem[:l]) {
				h.Ops = append(h.Ops, Op{K: "hash", B: x})
				k.Ops = append(k.Ops, Op{K: "key", B: x})
			}
			guarded = append(guarded, h)
			if l <= 32 {
				guarded = append(guarded, k)
			} else {
				defect = append(defect, k)
			}
		}
		guarded = append(guarded, all)
	}
	return
}

// random hash-only histories, lengths biased to the boundaries of the key (32) and of the option (64)
func genCHash(r *vh.Rng, nops int) Case {
	c := Case{Comp: "ckey", Note: "hashes only"}
	edge := []int{0, 1, 31, 32, 33, 62, 63, 64, 65, 66, 80}
	var prev []byte
	for i := 0; i < nops; i++ {
		var b []byte
		switch {
		case prev != nil && r.Chance(1, 3): // one-byte neighbour of the previous one
			b = append([]byte(nil), prev...)
			if len(b) > 0 {
				p := []int{0, len(b) - 1, r.Intn(len(b))}[r.Intn(3)]
				b[p] ^= byte(1 << uint(r.Intn(8)))
			}
		case prev != nil && r.Chance(1, 4): // one byte longer / shorter
			b = append([]byte(nil), prev...)
			if r.Bool() || len(b) == 0 {
				b = append(b, byte(r.Intn(256)))
			} else {
				b = b[:len(b)-1]
			}
		case r.Bool():
			b = r.Bytes(edge[r.Intn(len(edge))])
		default:
			b = r.Bytes(r.Intn(maxCircuitID + 3))
		}
		prev = b
		c.Ops = append(c.Ops, Op{K: "hash", B: b})
	}
	return c
}

func idxKeyShape(kind int, a, b int, r *vh.Rng) [][2]int {
	switch kind {
	case 3:
		return [][2]int{{0, a}, {1, b}}
	case 4, 5:
		return [][2]int{{0, a}}
	}
	if r != nil && r.Chance(1, 8) {
		return [][2]int{{0, a}} // second indexed field empty
	}
	return [][2]int{{0, a}, {1, b}}
}

func idxAlphabet(kind int) []Op {
	var a []Op
	ids := []int{0, 1}
	if kind == 5 {
		ids = []int{0, 1, 16} // (p0,s0) (p0,s1) (p1,s0)
	}
	for _, id := range ids {
		switch kind {
		case 4:
			for k := 0; k < 2; k++ {
				a = append(a, Op{K: "c", N: id, Keys: [][2]int{{0, k}}}, Op{K: "u", N: id, Keys: [][2]int{{1, k}}})
			}
		case 5:
			for k := 0; k < 2; k++ {
				a = append(a, Op{K: "c", N: id, Keys: [][2]int{{0, k}}})
			}
		default:
			for _, ks := range [][2]int{{0, 0}, {1, 1}, {0, 1}} {
				a = append(a, Op{K: "c", N: id, Keys: [][2]int{{0, ks[0]}, {1, ks[1]}}})
			}
			if kind != 3 {
				a = append(a, Op{K: "u", N: id, Keys: [][2]int{{0, 1}, {1, 0}}}, Op{K: "u", N: id, Keys: [][2]int{{0, 0}, {1, 0}}})
			}
		}
		a = append(a, Op{K: "d", N: id})
	}
	return a
}

// guarded index histories: a Create uses an id that is not stored and keys no live entity holds; an
// Update keeps the indexed fields (kinds 1, 2) or moves to keys nobody holds (kind 0); AssignAddress
// is issued once per session with an unused address; SaveAllocation may move to an unused address.
func genIdx(r *vh.Rng, kind, maxOps int, guarded bool) Case {
	c := Case{Comp: "idx", Cfg: []int{kind}}
	nid := 2 + r.Intn(3)
	nkey := 2 + r.Intn(4)
	type ent struct{ ks [][2]int }
	live := map[int]*ent{}
	holder := func(i, k int) (int, bool) {
		for id, e := range live {
			for _, x := range e.ks {
				if x[0] == i && x[1] == k {
					return id, true
				}
			}
		}
		return 0, false
	}
	freeKeys := func(id int, shape [][2]int) bool {
		for _, x := range shape {
			if h, ok := holder(x[0], x[1]); ok && h != id {
				return false
			}
		}
		return true
	}
	idOf := func(i int) int {
		if kind == 5 {
			return (i%2)*16 + i/2
		}
		return i
	}
	n := 1 + r.Intn(maxOps)
	for i := 0; i < n; i++ {
		id := idOf(r.Intn(nid))
		e, isLive := live[id]
		x := r.Intn(10)
		switch {
		case x < 5 && (!isLive || kind == 5): // create (kind 5: save = create or move)
			var shape [][2]int
			ok := false
			for try := 0; try < 6 && !ok; try++ {
				shape = idxKeyShape(kind, r.Intn(nkey), r.Intn(nkey), r)
				ok = !guarded || freeKeys(id, shape)
			}
			if !ok {
				continue
			}
			c.Ops = append(c.Ops, Op{K: "c", N: id, Keys: shape})
			if kind == 4 || kind == 5 {
				if h, taken := holder(0, shape[0][1]); taken && h != id {
					continue // refused by the code
				}
			}
			live[id] = &ent{ks: shape}
		case x < 5 && isLive && !guarded && kind < 4: // create over a stored id
			shape := idxKeyShape(kind, r.Intn(nkey), r.Intn(nkey), r)
			c.Ops = append(c.Ops, Op{K: "c", N: id, Keys: shape})
			live[id] = &ent{ks: shape}
		case x < 8 && isLive && kind != 3 && kind != 5:
			var shape [][2]int
			switch kind {
			case 4:
				if _, has := keyAt(e.ks, 1); has && guarded {
					continue
				}
				ip := r.Intn(nkey)
				if h, taken := holder(1, ip); guarded && taken && h != id {
					continue
				}
				shape = [][2]int{{1, ip}}
				var nk [][2]int
				for _, k := range e.ks {
					if k[0] != 1 {
						nk = append(nk, k)
					}
				}
				e.ks = append(nk, [2]int{1, ip})
			case 0:
				shape = idxKeyShape(kind, r.Intn(nkey), r.Intn(nkey), r)
				if guarded && !freeKeys(id, shape) {
					shape = e.ks
				}
				e.ks = shape
			default:
				shape = e.ks
				if !guarded && r.Bool() {
					shape = idxKeyShape(kind, r.Intn(nkey), r.Intn(nkey), r)
				}
				e.ks = shape
			}
			c.Ops = append(c.Ops, Op{K: "u", N: id, Keys: shape})
		default:
			c.Ops = append(c.Ops, Op{K: "d", N: id})
			delete(live, id)
		}
	}
	if len(c.Ops) == 0 {
		c.Ops = append(c.Ops, Op{K: "d", N: idOf(0)})
	}
	return c
}

func genStreams(r *vh.Rng, thorough bool) []stream {
	depth, rnd, maxOps, capCases := 5, 24, 14, 400
	if thorough {
		depth, rnd, maxOps, capCases = 7, 300, 40, 2500
	}
	acc := map[string]*stream{}
	var order []string
	add := func(name, comp string, cases []vh.Case, ex map[string]interface{}) {
		st, ok := acc[name]
		if !ok {
			st = &stream{name: name, comp: comp, extra: map[string]interface{}{}}
			acc[name] = st
			order = append(order, name)
		}
		st.cases = append(st.cases, cases...)
		if ex != nil {
			l, _ := st.extra["explorations"].([]interface{})
			st.extra["explorations"] = append(l, ex)
			if e, ok := ex["exhaustive"].(bool); ok {
				prev, seen := st.extra["exhaustive"].(bool)
				st.extra["exhaustive"] = e && (prev || !seen)
			}
		}
	}
	rndCases := func(n int, gen func() Case) []vh.Case {
		var cs []vh.Case
		for i := 0; i < n; i++ {
			c := gen()
			cs = append(cs, toCase(c, run(c)))
		}
		return cs
	}
	// --- VLAN: exhaustive over small ranges (2-3 values), incl. ranges that end at 65535
	vcfgs := [][]int{{10, 11, 5, 6}, {65534, 65535, 65535, 65535}}
	if thorough {
		vcfgs = append(vcfgs, []int{20, 22, 9, 9}, []int{0, 1, 0, 1})
	}
	for _, cfg := range vcfgs {
		base := Case{Comp: "vlan", Cfg: cfg, NH: 3}
		cs, ex := explore(base, vlanAlphabet(cfg, 3), depth, capCases)
		ex["config"] = fmt.Sprint(cfg)
		add("guarded", "vlan", cs, ex)
	}
	add("guarded", "vlan", rndCases(2*rnd, func() Case { return genVLANRandom(r.Fork(), maxOps) }), nil)
	// --- QinQ
	qb := []Case{{Comp: "qinq", SR: [][2]int{{100, 101}}, Cfg: []int{10, 11}, NH: 3}}
	if thorough {
		qb = append(qb, Case{Comp: "qinq", SR: [][2]int{{65534, 65535}}, Cfg: []int{65535, 65535}, NH: 3})
	}
	for _, base := range qb {
		cs, ex := explore(base, qinqAlphabet(base), depth, capCases)
		add("guarded", "qinq", cs, ex)
	}
	add("guarded", "qinq", rndCases(2*rnd, func() Case { return genQinQRandom(r.Fork(), maxOps) }), nil)
	// --- sessions: guarded (every live session has its own MAC) and defect streams, counters near the wrap
	for _, next := range []int{1, 65534} {
		base := Case{Comp: "sess", Cfg: []int{next}}
		cs, ex := explore(base, sessAlphabet(2), depth, capCases/2)
		ex["initial_next_id"] = next
		add("defect", "sess", cs, ex)
	}
	var wrap []vh.Case
	for _, c := range sessWrapOccupied() {
		wrap = append(wrap, toCase(c, run(c)))
	}
	add("guarded", "sess", wrap, map[string]interface{}{"exhaustive": true, "component": "pppoe.SessionManager id scan at the wrap",
		"enumeration": "every subset of ids {65534, 65535, 1, 2} in use x counter on each of 65533, 65534, 65535, 1, 2 x three CreateSession calls (then the oldest session removed, the counter on 65535, one more call); full table observed after every call"})
	add("guarded", "sess", rndCases(3*rnd, func() Case { return genSessRandom(r.Fork(), maxOps, true) }), nil)
	add("defect", "sess", rndCases(rnd, func() Case { return genSessRandom(r.Fork(), maxOps, false) }), nil)
	// --- circuit-id keys
	var fam []vh.Case
	for _, c := range ckeyFamilies(r.Fork()) {
		fam = append(fam, toCase(c, run(c)))
	}
	add("defect", "ckey", fam, nil)
	bg, bd := ckeyBoundaryFamilies(r.Fork(), thorough)
	var bgc, bdc []vh.Case
	for _, c := range bg {
		bgc = append(bgc, toCase(c, run(c)))
	}
	for _, c := range bd {
		bdc = append(bdc, toCase(c, run(c)))
	}
	add("guarded", "ckey", bgc, map[string]interface{}{"all_lengths": true, "component": "ebpf.HashCircuitID / MakeCircuitIDKey",
		"enumeration": "every length 0..66 (MAX_CIRCUIT_ID_LEN + 2) of each stem, with the neighbours that differ in exactly the first, a middle and the last byte; hashes and keys in separate cases"})
	add("defect", "ckey", bdc, nil)
	add("guarded", "ckey", rndCases(rnd, func() Case { return genCHash(r.Fork(), 12+r.Intn(20)) }), nil)
	add("guarded", "ckey", rndCases(rnd, func() Case { return genCKey(r.Fork(), true, 12+r.Intn(20)) }), nil)
	add("defect", "ckey", rndCases(rnd, func() Case { return genCKey(r.Fork(), false, 12+r.Intn(20)) }), nil)
	// --- index stores
	names := []string{"state.subscribers", "state.leases", "state.sessions", "state.nat", "subscriber.Manager", "allocator.MemoryAllocationStore"}
	for kind := 0; kind < 6; kind++ {
		kind := kind
		base := Case{Comp: "idx", Cfg: []int{kind}}
		dd := depth - 1
		if kind < 4 {
			dd = depth - 2
		}
		cs, ex := explore(base, idxAlphabet(kind), dd, capCases/4)
		ex["store"] = names[kind]
		name := "defect"
		if kind == 5 {
			name = "guarded" // MemoryAllocationStore: no listed defect, every history is inside the guard
		}
		add(name, "idx", cs, ex)
		add("guarded", "idx", rndCases(rnd, func() Case { return genIdx(r.Fork(), kind, maxOps, true) }), nil)
		if kind != 5 {
			add("defect", "idx", rndCases(rnd/2, func() Case { return genIdx(r.Fork(), kind, maxOps, false) }), nil)
		} else {
			add("guarded", "idx", rndCases(rnd/2, func() Case { return genIdx(r.Fork(), kind, maxOps, false) }), nil)
		}
	}
	// --- subscriber.Manager, one critical section per step: every interleaving of two concurrent calls, random schedules of up to four
	var pairs []vh.Case
	for _, withIP := range []bool{false, true} {
		seen := map[string]bool{}
		for _, c := range mgrPairs(withIP) {
			vc := toCase(c, run(c))
			if !seen[vc.Coq] { // merges that differ only in steps the code skips give the same trace
				seen[vc.Coq] = true
				pairs = append(pairs, vc)
			}
		}
	}
	add("interleave", "mgr", pairs, map[string]interface{}{"exhaustive": true, "store": "subscriber.Manager",
		"enumeration": "every unordered pair of calls out of {Create(MAC of session 0), Create(new MAC), Assign(session 0, free address), Assign(session 0, the bystander's address), Assign(bystander), Terminate(session 0), Terminate(bystander), Activate(session 0), Assign with a failing allocator} x every order-preserving merge of their critical sections, on two initial states (session 0 with / without an address)"})
	add("interleave", "mgr", rndCases(4*rnd, func() Case { return genMgrRandom(r.Fork(), maxOps) }), nil)
	acc["guarded"].extra["guard"] = "VLAN allocator and QinQ mapper: every history; sessions: every live session has its own MAC; circuit-ids: at most 32 bytes, not ending in a zero byte; stores: fresh ids, secondary keys no other live entity holds, updates keep the indexed fields or move to unheld keys (MemoryAllocationStore: every history)"
	acc["defect"].extra["note"] = "histories outside the guards: two sessions from one MAC, long / zero-terminated circuit-ids, duplicate secondary keys and indexed-field updates in the stores"
	var out []stream
	for _, n := range order {
		out = append(out, *acc[n])
	}
	return out
}
