// C18 correspondence driver: bpf/antispoof.c (object loaded in the kernel under BPF_PROG_TEST_RUN and the
// native build, which also takes frames shorter than 14 bytes) with maps written by the real
// antispoof.Manager through injected kernel maps, against Model/TcAntispoof.v + Model/AntispoofMgr.v;
// traces judged by Model/TcAntispoofSpec.v.
package main

import (
	"fmt"
	"math/big"
	"net"
	"os"
	"path/filepath"
	"strings"

	"verifharness/bpfrun"
	"verifharness/vh"

	"github.com/codelaboratoryltd/bng/pkg/antispoof"
	"go.uber.org/zap"
)

type Op struct {
	K    string `json:"k"` // new add add6 rm mode range putb putc putr frame snap
	M    uint8  `json:"m,omitempty"`
	Mac  []byte `json:"mac,omitempty"`
	IP   []byte `json:"ip,omitempty"`
	Ones int    `json:"ones,omitempty"`
	Val  []byte `json:"val,omitempty"`
	F    []byte `json:"f,omitempty"`
}
type Case struct {
	Ops []Op `json:"ops"`
}

type env struct {
	obj                                                *bpfrun.Object
	nat                                                *bpfrun.Native
	kernel                                             bool
	kernelRuns, nativeRuns, compared, disagree, faults int
	note                                               string
}

func must(err error) {
	if err != nil {
		fmt.Fprintln(os.Stderr, "c18 driver:", err)
		os.Exit(3)
	}
}

func bs(b []byte) string {
	if len(b) == 0 {
		return "(B 0 0)"
	}
	z := 0
	for z < len(b) && b[len(b)-1-z] == 0 {
		z++
	}
	if z < 8 {
		z = 0
	}
	body := b[:len(b)-z]
	var parts []string
	for len(body) > 0 {
		n := len(body)
		if n > 32 {
			n = 32
		}
		parts = append(parts, fmt.Sprintf("B %d %s", n, vh.BigN(new(big.Int).SetBytes(body[:n]))))
		body = body[n:]
	}
	if z > 0 {
		parts = append(parts, fmt.Sprintf("Zs %d", z))
	}
	return "(" + strings.Join(parts, " ++ ") + ")"
}

var mapsAll = []string{"subscriber_bindings", "antispoof_config", "allowed_ranges_v4"}

func (e *env) syncKernelToNative() {
	for _, m := range mapsAll {
		kvs, err := e.obj.Dump(m)
		must(err)
		must(e.nat.Clear(m))
		for _, kv := range kvs {
			must(e.nat.Put(m, kv.Key, kv.Value))
		}
	}
}

func macKey(mac []byte) []byte {
	k := make([]byte, 8)
	for i := 0; i < 6; i++ {
		k[i] = mac[5-i]
	}
	return k
}

func (e *env) reset() {
	if e.kernel {
		must(e.obj.Clear("subscriber_bindings"))
		must(e.obj.Clear("allowed_ranges_v4"))
		must(e.obj.Put("antispoof_config", []byte{0, 0, 0, 0}, make([]byte, 8)))
	}
	for _, m := range mapsAll {
		must(e.nat.Clear(m))
	}
}

func (e *env) run(c Case) vh.Case {
	tags := map[string]bool{}
	e.reset()
	newMgr := func(m uint8) *antispoof.Manager {
		mgr, err := antispoof.NewManager(antispoof.ManagerConfig{Interface: "verif0", DefaultMode: antispoof.Mode(m)}, zap.NewNop())
		must(err)
		if e.kernel {
			mgr.VerifInjectMaps(e.obj.Map("subscriber_bindings"), e.obj.Map("antispoof_config"), e.obj.Map("antispoof_stats"), e.obj.Map("allowed_ranges_v4"))
		}
		return mgr
	}
	mgr := newMgr(0)
	var tr []string
	okErr := func(err error) string {
		if err != nil {
			tags["ctl:error"] = true
			return "OErr"
		}
		return "OUnit"
	}
	ipOf := func(b []byte) net.IP {
		if len(b) == 0 {
			return nil
		}
		return net.IP(b)
	}
	for _, o := range c.Ops {
		tags["op:"+o.K] = true
		switch o.K {
		case "new":
			mgr = newMgr(o.M)
			tr = append(tr, fmt.Sprintf("(NewMgr %d, OUnit)", o.M))
		case "add":
			out := okErr(mgr.AddBinding(net.HardwareAddr(o.Mac), ipOf(o.IP)))
			e.syncKernelToNative()
			tr = append(tr, fmt.Sprintf("(AddBinding %s %s, %s)", bs(o.Mac), bs(o.IP), out))
		case "add6":
			out := okErr(mgr.AddBindingV6(net.HardwareAddr(o.Mac), ipOf(o.IP)))
			e.syncKernelToNative()
			tr = append(tr, fmt.Sprintf("(AddBindingV6 %s %s, %s)", bs(o.Mac), bs(o.IP), out))
		case "rm":
			out := "OErr"
			if len(o.Mac) == 6 { // shorter slices panic inside macToUint64 (C09 territory), longer ones are truncated
				out = okErr(mgr.RemoveBinding(net.HardwareAddr(o.Mac)))
			}
			e.syncKernelToNative()
			tr = append(tr, fmt.Sprintf("(RemoveBinding %s, %s)", bs(o.Mac), out))
		case "mode":
			out := okErr(mgr.SetMode(antispoof.Mode(o.M)))
			e.syncKernelToNative()
			tr = append(tr, fmt.Sprintf("(SetMode %d, %s)", o.M, out))
		case "range":
			var out string
			if len(o.IP) == 4 || len(o.IP) == 16 {
				bits := 8 * len(o.IP)
				out = okErr(mgr.AddAllowedRange(&net.IPNet{IP: net.IP(o.IP), Mask: net.CIDRMask(o.Ones+bits-32, bits)}))
			} else {
				out = "OErr"
			}
			e.syncKernelToNative()
			tr = append(tr, fmt.Sprintf("(AddRange %s %d, %s)", bs(o.IP), o.Ones, out))
		case "putb":
			out := "OErr"
			if len(o.Mac) == 6 && len(o.Val) == 24 {
				out = "OUnit"
				must(e.nat.Put("subscriber_bindings", macKey(o.Mac), o.Val))
				if e.kernel {
					must(e.obj.Put("subscriber_bindings", macKey(o.Mac), o.Val))
				}
			}
			tr = append(tr, fmt.Sprintf("(PutBinding %s %s, %s)", bs(o.Mac), bs(o.Val), out))
		case "putc":
			out := "OErr"
			if len(o.Val) == 8 {
				out = "OUnit"
				must(e.nat.Put("antispoof_config", []byte{0, 0, 0, 0}, o.Val))
				if e.kernel {
					must(e.obj.Put("antispoof_config", []byte{0, 0, 0, 0}, o.Val))
				}
			}
			tr = append(tr, fmt.Sprintf("(PutConfig %s, %s)", bs(o.Val), out))
		case "putr":
			out := "OErr"
			if len(o.IP) == 4 && o.Ones >= 0 && o.Ones <= 32 {
				out = "OUnit"
				k := append([]byte{byte(o.Ones), 0, 0, 0}, o.IP...)
				must(e.nat.Put("allowed_ranges_v4", k, []byte{1}))
				if e.kernel {
					must(e.obj.Put("allowed_ranges_v4", k, []byte{1}))
				}
			}
			tr = append(tr, fmt.Sprintf("(PutRange %d %s, %s)", o.Ones, bs(o.IP), out))
		case "snap": // raw dump of the bindings map the program reads (kernel map when available)
			var kvs []bpfrun.KV
			var err error
			if e.kernel {
				kvs, err = e.obj.Dump("subscriber_bindings")
			} else {
				kvs, err = e.nat.Dump("subscriber_bindings")
			}
			must(err)
			var it []string
			for _, kv := range kvs {
				it = append(it, vh.Pair(bs(kv.Key), bs(kv.Value)))
			}
			tags[fmt.Sprintf("snap:entries=%d", len(kvs))] = true
			tr = append(tr, fmt.Sprintf("(SnapB, OSnapB %s)", vh.List(it)))
		case "frame":
			res, err := e.nat.Run("antispoof_ingress", o.F, nil)
			must(err)
			e.nativeRuns++
			out := fmt.Sprintf("OVerdict %d", res.Verdict)
			if res.Fault {
				e.faults++
				out = "OOob"
				tags["fault"] = true
			}
			if e.kernel && len(o.F) >= 14 {
				v, _, _, err := e.obj.RunTC("antispoof_ingress", o.F, nil)
				if err == bpfrun.ErrFrameRefused {
					tags["kernel:frame-refused"] = true // truncated IP header: native only
				} else {
					must(err)
					e.kernelRuns++
					e.compared++
					if res.Fault || int64(int32(v)) != int64(res.Verdict) {
						e.disagree++
						tags["kernel-native-disagree"] = true
						if e.note == "" {
							e.note = fmt.Sprintf("frame=%x kernel=%d native=%d fault=%v", o.F, int32(v), res.Verdict, res.Fault)
						}
					}
					out = fmt.Sprintf("OVerdict %d", int32(v)) // the kernel's answer is the observation
				}
			}
			tags[out[:4]+":"+strings.TrimPrefix(out, "OVerdict ")] = true
			tags["len:"+lenClass(len(o.F))] = true
			if len(o.F) >= 14 {
				tags[fmt.Sprintf("ethertype:%02x%02x", o.F[12], o.F[13])] = true
			}
			tr = append(tr, fmt.Sprintf("(Frame %s, %s)", bs(o.F), out))
		}
	}
	var tl []string
	for t := range tags {
		tl = append(tl, t)
	}
	return vh.Case{Coq: vh.List(tr), Desc: c, Tags: tl}
}

func lenClass(n int) string {
	switch {
	case n < 14:
		return "<14"
	case n < 34:
		return "14..33"
	case n < 54:
		return "34..53"
	default:
		return ">=54"
	}
}

// ------------------------------------------------------------------------------ frames
func frame(mac []byte, ethertype uint16, src []byte, n int) []byte {
	f := make([]byte, 0, 80)
	f = append(f, 0xff, 0xff, 0xff, 0xff, 0xff, 0xff)
	f = append(f, mac...)
	f = append(f, byte(ethertype>>8), byte(ethertype))
	switch ethertype {
	case 0x0800:
		f = append(f, 0x45, 0, 0, 40, 0, 0, 0, 0, 64, 17, 0, 0)
		f = append(f, src...)
		f = append(f, 192, 0, 2, 1)
	case 0x86dd:
		f = append(f, 0x60, 0, 0, 0, 0, 8, 17, 64)
		f = append(f, src...)
		f = append(f, 0x20, 1, 0xd, 0xb8, 0, 0, 0, 0, 0, 0, 0, 0, 0, 0, 0, 1)
	case 0x8100: // VLAN-tagged IPv4
		f = append(f, 0, 100, 8, 0, 0x45, 0, 0, 40, 0, 0, 0, 0, 64, 17, 0, 0)
		f = append(f, src...)
		f = append(f, 192, 0, 2, 1)
	default:
		f = append(f, 0, 1, 8, 0, 6, 4, 0, 1)
		f = append(f, mac...)
		f = append(f, src...)
	}
	for len(f) < n {
		f = append(f, byte(len(f)))
	}
	return f[:n]
}

func variants4(r *vh.Rng, bound []byte, thorough bool) [][]byte {
	out := [][]byte{bound, {bound[3], bound[2], bound[1], bound[0]}}
	for i := 0; i < 4; i++ {
		a := append([]byte(nil), bound...)
		a[i]++
		b := append([]byte(nil), bound...)
		b[i]--
		out = append(out, a)
		if thorough || i == 0 || i == 3 {
			out = append(out, b)
		}
	}
	out = append(out, r.Bytes(4), []byte{0, 0, 0, 0})
	return out
}
func variants6(r *vh.Rng, bound []byte, thorough bool) [][]byte {
	out := [][]byte{bound}
	idx := []int{0, 7, 15}
	if thorough {
		idx = []int{0, 1, 3, 7, 8, 12, 14, 15}
	}
	for _, i := range idx {
		a := append([]byte(nil), bound...)
		a[i] ^= 1
		out = append(out, a)
	}
	rv := make([]byte, 16)
	for i := range rv {
		rv[i] = bound[15-i]
	}
	out = append(out, rv, r.Bytes(16))
	return out
}

func framesFor(r *vh.Rng, mac, b4, b6 []byte, thorough bool) []Op {
	var ops []Op
	add := func(f []byte) { ops = append(ops, Op{K: "frame", F: f}) }
	shorts := []int{0, 6, 13}
	l4 := []int{14, 33}
	l6 := []int{14, 53}
	full4 := []int{34, 35}
	full6 := []int{54, 55}
	if thorough {
		shorts = []int{0, 1, 5, 6, 11, 12, 13}
		l4 = []int{14, 15, 26, 29, 30, 33}
		l6 = []int{14, 22, 37, 38, 53}
		full4 = []int{34, 35, 60}
		full6 = []int{54, 55, 70}
	}
	for _, n := range shorts {
		add(frame(mac, 0x0800, b4, n))
	}
	for _, n := range l4 {
		add(frame(mac, 0x0800, b4, n))
	}
	for _, n := range l6 {
		add(frame(mac, 0x86dd, b6, n))
	}
	for _, n := range full4 {
		for _, s := range variants4(r, b4, thorough) {
			add(frame(mac, 0x0800, s, n))
		}
	}
	for _, n := range full6 {
		for _, s := range variants6(r, b6, thorough) {
			add(frame(mac, 0x86dd, s, n))
		}
	}
	add(frame(mac, 0x0806, b4, 14))
	add(frame(mac, 0x0806, b4, 42))
	add(frame(mac, 0x8100, b4, 18))
	add(frame(mac, 0x8100, b4, 60))
	return ops
}

func rawBinding(v4, v6 []byte, valid4, valid6, mode byte) []byte {
	b := append([]byte(nil), v4...)
	b = append(b, v6...)
	return append(b, valid4, valid6, mode, 0)
}

var theMac = []byte{0x02, 0x11, 0x22, 0x33, 0x44, 0x55}

// sender MACs of the raw stream: the key of a raw binding is written by the harness in the documented form
// (48-bit big-endian number in a little-endian u64), so every octet position carries high-bit / all-ones /
// zero values somewhere - the program's own mac_to_u64 must arrive at the same 8 bytes
var rawMacs = [][]byte{
	{0x02, 0x11, 0x22, 0x33, 0x44, 0x55},
	{0x02, 0x11, 0xa2, 0x33, 0x44, 0x55},
	{0xfe, 0xff, 0xff, 0xff, 0xff, 0xff},
	{0x80, 0x00, 0x80, 0x00, 0x80, 0x00},
	{0x00, 0x80, 0x00, 0x80, 0x00, 0x80},
	{0x7f, 0x7f, 0x7f, 0x80, 0x01, 0xff},
	{0x00, 0x00, 0x00, 0x00, 0x00, 0x00},
}
var bound4 = []byte{10, 20, 30, 40}
var bound6 = []byte{0x20, 0x01, 0x0d, 0xb8, 0, 1, 0, 2, 0, 0, 0, 0, 0xa, 0xb, 0xc, 0xd}

// exhaustive over (binding mode incl. illegal values, default mode, binding kind, range kind); frames cover
// ethertypes, header-boundary lengths and near-miss addresses
func genRaw(r *vh.Rng, thorough bool) []Case {
	var cs []Case
	modes := []byte{0, 1, 2, 3, 4, 7, 255}
	for _, bm := range modes {
		for dm := byte(0); dm < 4; dm++ {
			for kind := 0; kind < 5; kind++ { // 0 absent, 1 v4 valid, 2 present but no valid flags, 3 v6 valid, 4 both
				if kind == 0 && bm != 0 { // binding absent: its mode does not exist
					continue
				}
				rks := []int{0}
				if bm == 2 || (kind == 0 && dm == 2) {
					rks = []int{0, 1, 2, 3}
				}
				for _, rk := range rks {
					c := Case{}
					theMac := rawMacs[len(cs)%len(rawMacs)]
					if len(cs)%11 == 10 {
						theMac = r.Bytes(6)
					}
					c.Ops = append(c.Ops, Op{K: "putc", Val: []byte{dm, byte(r.Intn(2)), 0, 0, 0, 0, 0, 0}})
					switch kind {
					case 1:
						c.Ops = append(c.Ops, Op{K: "putb", Mac: theMac, Val: rawBinding(bound4, make([]byte, 16), 1, 0, bm)})
					case 2:
						c.Ops = append(c.Ops, Op{K: "putb", Mac: theMac, Val: rawBinding(bound4, bound6, 0, 0, bm)})
					case 3:
						c.Ops = append(c.Ops, Op{K: "putb", Mac: theMac, Val: rawBinding(make([]byte, 4), bound6, 0, 1, bm)})
					case 4:
						c.Ops = append(c.Ops, Op{K: "putb", Mac: theMac, Val: rawBinding(bound4, bound6, 1, 1, bm)})
					}
					switch rk {
					case 1:
						c.Ops = append(c.Ops, Op{K: "putr", IP: []byte{10, 20, 30, 0}, Ones: 24})
					case 2:
						c.Ops = append(c.Ops, Op{K: "putr", IP: []byte{10, 20, 30, 41}, Ones: 32}, Op{K: "putr", IP: []byte{10, 20, 30, 40}, Ones: 31})
					case 3:
						c.Ops = append(c.Ops, Op{K: "putr", IP: []byte{0, 0, 0, 0}, Ones: 0})
					}
					c.Ops = append(c.Ops, framesFor(r, theMac, bound4, bound6, thorough)...)
					cs = append(cs, c)
				}
			}
		}
	}
	return cs
}

var palin4 = [][]byte{{10, 1, 1, 10}, {7, 7, 7, 7}, {100, 64, 64, 100}}
var plain4 = [][]byte{{10, 20, 30, 40}, {192, 168, 1, 77}, {100, 64, 3, 9}, {10, 0, 0, 2}}

// control-plane stream: the real antispoof.Manager writes the maps
func genMgr(r *vh.Rng, thorough bool) Case {
	c := Case{}
	guard := r.Chance(1, 3) // palindromic addresses, AddBindingV6 only after AddBinding, no loose mode: inside the guards
	if r.Chance(1, 3) {
		c.Ops = append(c.Ops, Op{K: "new", M: uint8(r.Intn(4))})
	}
	modes := []uint8{1, 1, 3, 0, 2}
	if guard {
		modes = []uint8{1, 1, 3, 0}
	}
	c.Ops = append(c.Ops, Op{K: "mode", M: modes[r.Intn(len(modes))]})
	nm := 1 + r.Intn(2)
	type sub struct{ mac, v4, v6 []byte }
	var subs []sub
	for i := 0; i < nm; i++ {
		mac := []byte{2, 0, 0, 0, byte(r.Intn(2)), byte(1 + i)}
		switch r.Intn(4) {
		case 0: // any octets
			mac = r.Bytes(6)
			mac[5] = mac[5]&0xfc | byte(i)
		case 1: // boundary octets
			bo := []byte{0x00, 0x01, 0x7f, 0x80, 0xff}
			for j := range mac {
				mac[j] = bo[r.Intn(len(bo))]
			}
			mac[5] = mac[5]&0xfc | byte(i)
		case 2: // neighbours that differ only in the top bit of one octet
			mac = []byte{0x02, 0x13, 0x24, 0x35, 0x46, 0x57}
			if i > 0 {
				mac[r.Intn(6)] ^= 0x80
			}
		}
		var v4 []byte
		if guard || r.Chance(1, 4) {
			v4 = palin4[r.Intn(len(palin4))]
		} else {
			v4 = plain4[r.Intn(len(plain4))]
		}
		v6 := append([]byte{0x20, 0x01, 0x0d, 0xb8}, r.Bytes(12)...)
		subs = append(subs, sub{mac, v4, v6})
	}
	steps := 3 + r.Intn(6)
	for i := 0; i < steps; i++ {
		s := subs[r.Intn(len(subs))]
		k := r.Intn(12)
		switch {
		case k < 4:
			c.Ops = append(c.Ops, Op{K: "add", Mac: s.mac, IP: s.v4})
			if r.Chance(1, 2) {
				c.Ops = append(c.Ops, Op{K: "add6", Mac: s.mac, IP: s.v6})
			}
		case k == 4:
			if guard {
				c.Ops = append(c.Ops, Op{K: "add", Mac: s.mac, IP: s.v4}, Op{K: "add6", Mac: s.mac, IP: s.v6})
			} else {
				c.Ops = append(c.Ops, Op{K: "add6", Mac: s.mac, IP: s.v6}, Op{K: "add", Mac: s.mac, IP: s.v4})
			}
		case k == 5:
			c.Ops = append(c.Ops, Op{K: "rm", Mac: s.mac}, Op{K: "snap"})
		case k == 9:
			c.Ops = append(c.Ops, Op{K: "add6", Mac: s.mac, IP: s.v6}, Op{K: "snap"}) // possibly IPv6-only
		case k == 6:
			c.Ops = append(c.Ops, Op{K: "mode", M: modes[r.Intn(len(modes))]})
		case k == 7 && !guard:
			ip := append([]byte(nil), s.v4...)
			ones := []int{8, 16, 24, 32}[r.Intn(4)]
			for j := ones / 8; j < 4; j++ {
				ip[j] = 0
			}
			c.Ops = append(c.Ops, Op{K: "range", IP: ip, Ones: ones})
		case k == 8 && !guard:
			switch r.Intn(4) {
			case 0:
				c.Ops = append(c.Ops, Op{K: "add", Mac: s.mac[:5], IP: s.v4}) // invalid MAC
			case 1:
				c.Ops = append(c.Ops, Op{K: "add", Mac: s.mac, IP: nil}) // no address
			case 2:
				c.Ops = append(c.Ops, Op{K: "add", Mac: s.mac, IP: s.v6}) // not IPv4
			case 3:
				c.Ops = append(c.Ops, Op{K: "add6", Mac: s.mac, IP: s.v4}) // v4-mapped
			}
		default:
		}
		// traffic
		nf := 1 + r.Intn(4)
		for j := 0; j < nf; j++ {
			t := subs[r.Intn(len(subs))]
			switch r.Intn(8) {
			case 0, 1, 2:
				v := variants4(r, t.v4, thorough)
				c.Ops = append(c.Ops, Op{K: "frame", F: frame(t.mac, 0x0800, v[r.Intn(len(v))], 34+r.Intn(3))})
			case 3:
				c.Ops = append(c.Ops, Op{K: "frame", F: frame(t.mac, 0x0800, t.v4, 34)})
			case 4, 5:
				v := variants6(r, t.v6, thorough)
				c.Ops = append(c.Ops, Op{K: "frame", F: frame(t.mac, 0x86dd, v[r.Intn(len(v))], 54+r.Intn(3))})
			case 6:
				um := []byte{2, 9, 9, 9, 9, 9}
				if r.Chance(1, 2) { // a neighbour of a bound MAC: one bit of one octet differs
					um = append([]byte(nil), t.mac...)
					um[r.Intn(6)] ^= []byte{0x80, 0x01, 0x40}[r.Intn(3)]
					known := false
					for _, x := range subs {
						known = known || string(x.mac) == string(um)
					}
					if known {
						um = []byte{2, 9, 9, 9, 9, 9}
					}
				}
				c.Ops = append(c.Ops, Op{K: "frame", F: frame(um, 0x0800, t.v4, 34)}) // unknown MAC
			case 7:
				c.Ops = append(c.Ops, Op{K: "frame", F: frame(t.mac, []uint16{0x0806, 0x8100, 0x0800, 0x86dd}[r.Intn(4)], t.v4, []int{0, 10, 14, 20, 33, 40, 53}[r.Intn(7)])})
			}
		}
	}
	return c
}

// lifecycle stream: EVERY sequence over {AddBinding, AddBindingV6, RemoveBinding} of length 1..maxLen for one
// MAC (v4-only, v6-only, both orders, remove-then-re-add, remove twice, remove of a never-added MAC, ...),
// under three mode set-ups; after every control-plane call: raw dump of the kernel bindings map and the
// program's verdict for the bound v4 / v6 sources and a near-miss of each, from that MAC and from a
// never-bound MAC.
func genLife(maxLen int) []Case {
	var cs []Case
	mac := []byte{0x02, 0xaa, 0xc3, 0x00, 0x7f, 0x01}
	other := []byte{0x02, 0xaa, 0x43, 0x00, 0x7f, 0x01} // never bound; differs from mac in the top bit of octet 2 only
	v6 := []byte{0x20, 0x01, 0x0d, 0xb8, 0, 7, 0, 0, 0, 0, 0, 0, 0, 0, 0x12, 0x34}
	v6b := append([]byte(nil), v6...)
	v6b[15] ^= 1
	alphabet := []string{"add", "add6", "rm"}
	var seqs [][]string
	var rec func(cur []string)
	rec = func(cur []string) {
		if len(cur) > 0 {
			seqs = append(seqs, append([]string(nil), cur...))
		}
		if len(cur) == maxLen {
			return
		}
		for _, a := range alphabet {
			rec(append(cur, a))
		}
	}
	rec(nil)
	type setup struct {
		pre []Op
		v4  []byte
	}
	setups := []setup{
		{[]Op{{K: "mode", M: 1}}, []byte{10, 1, 1, 10}},                 // strict everywhere, palindromic address (inside the guards)
		{[]Op{{K: "mode", M: 1}}, []byte{10, 20, 30, 40}},               // strict everywhere, ordinary address
		{[]Op{{K: "new", M: 1}}, []byte{10, 1, 1, 10}},                  // bindings strict, default mode left disabled
		{[]Op{{K: "mode", M: 3}, {K: "new", M: 1}}, []byte{7, 7, 7, 7}}, // bindings strict, default log-only
	}
	for si, st := range setups {
		for _, sq := range seqs {
			if (si == 1 && len(sq) > maxLen-1) || (si >= 2 && len(sq) > maxLen-2) {
				continue
			}
			c := Case{Ops: append([]Op(nil), st.pre...)}
			v4b := append([]byte(nil), st.v4...)
			v4b[3]++
			probe := func() {
				c.Ops = append(c.Ops, Op{K: "snap"},
					Op{K: "frame", F: frame(mac, 0x0800, st.v4, 34)}, Op{K: "frame", F: frame(mac, 0x0800, v4b, 34)},
					Op{K: "frame", F: frame(mac, 0x86dd, v6, 54)}, Op{K: "frame", F: frame(mac, 0x86dd, v6b, 54)},
					Op{K: "frame", F: frame(other, 0x0800, st.v4, 34)}, Op{K: "frame", F: frame(other, 0x86dd, v6, 54)})
			}
			probe()
			for _, a := range sq {
				switch a {
				case "add":
					c.Ops = append(c.Ops, Op{K: "add", Mac: mac, IP: st.v4})
				case "add6":
					c.Ops = append(c.Ops, Op{K: "add6", Mac: mac, IP: v6})
				case "rm":
					c.Ops = append(c.Ops, Op{K: "rm", Mac: mac})
				}
				probe()
			}
			cs = append(cs, c)
		}
	}
	return cs
}

// key-derivation stream: the binding is written by the real Manager (Go macToUint64, marshalled by cilium), the
// lookup key is computed by the real program (C mac_to_u64) from the frame's source MAC.  EXHAUSTIVE over
// {0x00, 0x01, 0x7f, 0x80, 0xff} in each of the six octet positions on three backgrounds (distinct small octets,
// all zero, all ones), plus random MACs.  Per MAC: strict everywhere, then bindings strict / default log-only
// (a lookup miss is then visible in BOTH directions: bound source dropped, spoofed source forwarded); raw map
// dump after the writes; traffic from the MAC and from its neighbours (one bit of the swept octet differs);
// removal.
func genKeys(r *vh.Rng, thorough bool) []Case {
	var macs [][]byte
	seen := map[string]bool{}
	addMac := func(m []byte) {
		if !seen[string(m)] {
			seen[string(m)] = true
			macs = append(macs, m)
		}
	}
	bases := [][]byte{{0x02, 0x13, 0x24, 0x35, 0x46, 0x57}, {0, 0, 0, 0, 0, 0}, {0xff, 0xff, 0xff, 0xff, 0xff, 0xff}}
	pos := make([]int, 0, len(macs))
	for _, b := range bases {
		for p := 0; p < 6; p++ {
			for _, v := range []byte{0x00, 0x01, 0x7f, 0x80, 0xff} {
				m := append([]byte(nil), b...)
				m[p] = v
				n := len(macs)
				addMac(m)
				if len(macs) > n {
					pos = append(pos, p)
				}
			}
		}
	}
	nr := 24
	if thorough {
		nr = 150
	}
	for i := 0; i < nr; i++ {
		n := len(macs)
		addMac(r.Bytes(6))
		if len(macs) > n {
			pos = append(pos, r.Intn(6))
		}
	}
	v6 := []byte{0x20, 0x01, 0x0d, 0xb8, 0, 9, 0, 0, 0, 0, 0, 0, 0, 0, 0x56, 0x78}
	v6b := append([]byte(nil), v6...)
	v6b[8] ^= 0x80
	var cs []Case
	for i, mac := range macs {
		v4 := palin4[i%len(palin4)]
		v4b := append([]byte(nil), v4...)
		v4b[1] ^= 0x80
		nb1 := append([]byte(nil), mac...)
		nb1[pos[i]] ^= 0x80
		nb2 := append([]byte(nil), mac...)
		nb2[pos[i]] ^= 0x01
		c := Case{}
		traffic := func(ms ...[]byte) {
			for _, m := range ms {
				c.Ops = append(c.Ops, Op{K: "frame", F: frame(m, 0x0800, v4, 34)}, Op{K: "frame", F: frame(m, 0x0800, v4b, 34)},
					Op{K: "frame", F: frame(m, 0x86dd, v6, 54)}, Op{K: "frame", F: frame(m, 0x86dd, v6b, 54)})
			}
		}
		c.Ops = append(c.Ops, Op{K: "mode", M: 1}, Op{K: "add", Mac: mac, IP: v4}, Op{K: "add6", Mac: mac, IP: v6}, Op{K: "snap"})
		traffic(mac, nb1, nb2)
		c.Ops = append(c.Ops, Op{K: "mode", M: 3}, Op{K: "new", M: 1}, Op{K: "add", Mac: mac, IP: v4}, Op{K: "add6", Mac: mac, IP: v6}, Op{K: "snap"})
		traffic(mac, nb1)
		c.Ops = append(c.Ops, Op{K: "rm", Mac: nb2}, Op{K: "snap"}) // removing a neighbour must not touch the entry
		traffic(mac)
		c.Ops = append(c.Ops, Op{K: "rm", Mac: mac}, Op{K: "snap"}, Op{K: "mode", M: 1})
		traffic(mac)
		cs = append(cs, c)
	}
	return cs
}

// length stream: EXHAUSTIVE over every frame length 0..lmax for each ethertype {IPv4, IPv6, VLAN-tagged IPv4, ARP}
// with the bound and with a spoofed source, for a sender under strict validation (raw binding, both families
// valid) and for an unbound sender under a strict default - every truncation length around every header
// boundary (Ethernet 14, VLAN 18, IPv4 34, IPv6 54), frame end flush against the guard page.
func genLens(thorough bool) []Case {
	lmax := 62
	if thorough {
		lmax = 130
	}
	mac := []byte{0x02, 0x5e, 0x90, 0x01, 0xfe, 0x7f}
	v4 := []byte{10, 20, 30, 40}
	v4s := []byte{10, 20, 30, 41}
	v6 := bound6
	v6s := append([]byte(nil), bound6...)
	v6s[15] ^= 0x80
	var cs []Case
	for _, bound := range []bool{true, false} {
		for _, et := range []uint16{0x0800, 0x86dd, 0x8100, 0x0806} {
			c := Case{}
			c.Ops = append(c.Ops, Op{K: "putc", Val: []byte{1, 1, 0, 0, 0, 0, 0, 0}})
			if bound {
				c.Ops = append(c.Ops, Op{K: "putb", Mac: mac, Val: rawBinding(v4, v6, 1, 1, 1)})
			}
			for n := 0; n <= lmax; n++ {
				good, bad := v4, v4s
				if et == 0x86dd {
					good, bad = v6, v6s
				}
				c.Ops = append(c.Ops, Op{K: "frame", F: frame(mac, et, good, n)}, Op{K: "frame", F: frame(mac, et, bad, n)})
			}
			cs = append(cs, c)
		}
	}
	return cs
}

// mode matrix through the real Manager: EXHAUSTIVE over default mode (SetMode 0..3) x mode written into the
// bindings (NewManager 0..3; 0 means strict) x {palindromic, ordinary} IPv4 address, with and without an allowed
// range covering the subscriber when loose mode is involved; dual-stack binding; traffic from the subscriber and
// from an unbound neighbour MAC.
func genMatrix(r *vh.Rng) []Case {
	var cs []Case
	mac := []byte{0x02, 0x77, 0x88, 0x99, 0xaa, 0xbb}
	other := []byte{0x02, 0x77, 0x08, 0x99, 0xaa, 0xbb}
	v6 := []byte{0x20, 0x01, 0x0d, 0xb8, 0, 3, 0, 0, 0, 0, 0, 0, 0, 0, 0x9a, 0xbc}
	v6b := append([]byte(nil), v6...)
	v6b[0] ^= 0x01
	for dm := uint8(0); dm < 4; dm++ {
		for bm := uint8(0); bm < 4; bm++ {
			for ai, v4 := range [][]byte{{10, 1, 1, 10}, {10, 20, 30, 40}} {
				rks := []int{0}
				if dm == 2 || bm == 2 {
					rks = []int{0, 1, 2}
				}
				for _, rk := range rks {
					if ai == 1 && rk == 2 {
						continue
					}
					c := Case{}
					c.Ops = append(c.Ops, Op{K: "mode", M: dm}, Op{K: "new", M: bm})
					switch rk {
					case 1: // a /24 that contains the subscriber (as the operator writes it)
						c.Ops = append(c.Ops, Op{K: "range", IP: []byte{v4[0], v4[1], v4[2], 0}, Ones: 24})
					case 2: // a palindromic /32: the byte order of the stored range does not matter
						c.Ops = append(c.Ops, Op{K: "range", IP: v4, Ones: 32})
					}
					v4b := append([]byte(nil), v4...)
					v4b[2] ^= 0x40
					probe := func() {
						c.Ops = append(c.Ops, Op{K: "snap"})
						for _, m := range [][]byte{mac, other} {
							c.Ops = append(c.Ops, Op{K: "frame", F: frame(m, 0x0800, v4, 34)}, Op{K: "frame", F: frame(m, 0x0800, v4b, 60)},
								Op{K: "frame", F: frame(m, 0x86dd, v6, 54)}, Op{K: "frame", F: frame(m, 0x86dd, v6b, 80)},
								Op{K: "frame", F: frame(m, 0x0806, v4, 42)})
						}
					}
					c.Ops = append(c.Ops, Op{K: "add", Mac: mac, IP: v4})
					probe()
					c.Ops = append(c.Ops, Op{K: "add6", Mac: mac, IP: v6})
					probe()
					c.Ops = append(c.Ops, Op{K: "rm", Mac: mac})
					probe()
					cs = append(cs, c)
				}
			}
		}
	}
	return cs
}

// second lifecycle stream: EVERY sequence of length 1..maxLen over the richer alphabet
// {AddBinding A, AddBinding B, AddBinding nil (address withdrawn), AddBinding <IPv6> (not an IPv4 address),
//
//	 AddBinding A in its 16-byte v4-mapped form,
//
//		AddBindingV6 X, AddBindingV6 Y, AddBindingV6 nil, RemoveBinding} for one MAC in strict mode (palindromic
//
// addresses: inside the byte-order guard); map dump and verdicts for A, B, X, Y after every call.
func genLife2(maxLen int) []Case {
	mac := []byte{0x02, 0xb0, 0x9c, 0x10, 0x00, 0xf1}
	a4, b4 := []byte{10, 1, 1, 10}, []byte{100, 64, 64, 100}
	x6 := []byte{0x20, 0x01, 0x0d, 0xb8, 0, 5, 0, 0, 0, 0, 0, 0, 0, 0, 0x11, 0x11}
	y6 := []byte{0x20, 0x01, 0x0d, 0xb8, 0, 5, 0, 0, 0, 0, 0, 0, 0, 0, 0x22, 0x22}
	a4mapped := append([]byte{0, 0, 0, 0, 0, 0, 0, 0, 0, 0, 0xff, 0xff}, a4...) // the 16-byte form net.ParseIP returns for an IPv4 address
	alphabet := []Op{{K: "add", Mac: mac, IP: a4}, {K: "add", Mac: mac, IP: b4}, {K: "add", Mac: mac, IP: nil}, {K: "add", Mac: mac, IP: x6},
		{K: "add", Mac: mac, IP: a4mapped},
		{K: "add6", Mac: mac, IP: x6}, {K: "add6", Mac: mac, IP: y6}, {K: "add6", Mac: mac, IP: nil}, {K: "rm", Mac: mac}}
	var cs []Case
	var rec func(cur []Op)
	rec = func(cur []Op) {
		if len(cur) > 0 {
			c := Case{Ops: []Op{{K: "mode", M: 1}}}
			for _, o := range cur {
				c.Ops = append(c.Ops, o, Op{K: "snap"},
					Op{K: "frame", F: frame(mac, 0x0800, a4, 34)}, Op{K: "frame", F: frame(mac, 0x0800, b4, 34)},
					Op{K: "frame", F: frame(mac, 0x86dd, x6, 54)}, Op{K: "frame", F: frame(mac, 0x86dd, y6, 54)},
					Op{K: "frame", F: frame(mac, 0x0800, []byte{0, 0, 0, 0}, 34)}, Op{K: "frame", F: frame(mac, 0x86dd, make([]byte, 16), 54)})
			}
			cs = append(cs, c)
		}
		if len(cur) == maxLen {
			return
		}
		for _, o := range alphabet {
			rec(append(append([]Op(nil), cur...), o))
		}
	}
	rec(nil)
	return cs
}

const header = `From Coq Require Import NArith List. Import ListNotations.
From Verif Require Import Base.Word Model.TcQos Model.TcAntispoof Model.AntispoofMgr Model.TcAntispoofSpec Model.TcAntispoofCheck.
Local Open Scope N_scope.
Definition cases : list case := [
`
const footer = `
].
Definition R := Eval vm_compute in run_cases cases.
Print R.
`

func needsKernel(c Case) bool {
	for _, o := range c.Ops {
		switch o.K {
		case "add", "add6", "rm", "mode", "range", "new":
			return true
		}
	}
	return false
}

func main() {
	cfg := vh.ParseFlags()
	dir, err := bpfrun.Dir()
	must(err)
	e := &env{}
	objPath := filepath.Join(dir, "antispoof.o")
	if _, err := os.Stat(objPath); err != nil {
		fmt.Fprintln(os.Stderr, "c18 driver: antispoof.c did not compile for the BPF target (see build.log in", dir, ")")
		os.Exit(4)
	}
	e.obj, err = bpfrun.LoadObject(objPath)
	must(err)
	defer e.obj.Close()
	if e.obj.KernelBPF && !e.obj.VerifierOK {
		fmt.Fprintln(os.Stderr, "c18 driver: the in-kernel verifier rejected antispoof.o:", e.obj.LoadErr)
		os.Exit(5)
	}
	e.kernel = e.obj.KernelBPF && e.obj.VerifierOK
	asan := os.Getenv("VERIF_C18_ASAN") == "1"
	e.nat, err = bpfrun.StartNative(dir, "antispoof", asan)
	must(err)
	defer e.nat.Close()
	extra := func() map[string]interface{} {
		return map[string]interface{}{"kernel_bpf": e.kernel, "verifier_ok": e.obj.VerifierOK, "kernel_note": e.obj.LoadErr,
			"kernel_test_runs": e.kernelRuns, "native_runs": e.nativeRuns, "kernel_native_compared": e.compared,
			"kernel_native_disagree": e.disagree, "kernel_native_disagree_first": e.note, "native_faults": e.faults,
			"object": objPath, "asan": asan}
	}
	runAll := func(cs []Case) []vh.Case {
		var out []vh.Case
		for _, c := range cs {
			if !e.kernel && needsKernel(c) {
				continue
			}
			out = append(out, e.run(c))
		}
		return out
	}
	if cfg.Replay != "" {
		var c Case
		must(vh.LoadReplay(cfg.Replay, &c))
		vh.Emit(cfg, "cases", header, footer, runAll([]Case{c}), extra())
		return
	}
	var corpus []Case
	for _, f := range vh.CorpusFiles(cfg) {
		var c Case
		must(vh.LoadReplay(f, &c))
		corpus = append(corpus, c)
	}
	if len(corpus) > 0 {
		vh.Emit(cfg, "corpus", header, footer, runAll(corpus), extra())
	}
	r := vh.NewRng(cfg.Seed)
	raw := genRaw(r.Fork(), cfg.Thorough())
	ex := extra
	m := func() map[string]interface{} { x := ex(); x["exhaustive"] = true; return x }
	rawOut := runAll(raw)
	vh.Emit(cfg, "raw", header, footer, rawOut, m())
	lifeLen := 4
	if cfg.Thorough() {
		lifeLen = 5
	}
	vh.Emit(cfg, "life", header, footer, runAll(genLife(lifeLen)), m())
	vh.Emit(cfg, "keys", header, footer, runAll(genKeys(r.Fork(), cfg.Thorough())), m())
	vh.Emit(cfg, "lens", header, footer, runAll(genLens(cfg.Thorough())), m())
	vh.Emit(cfg, "matrix", header, footer, runAll(genMatrix(r.Fork())), m())
	life2Len := 2
	if cfg.Thorough() {
		life2Len = 3
	}
	vh.Emit(cfg, "life2", header, footer, runAll(genLife2(life2Len)), m())
	n := 150
	if cfg.Thorough() {
		n = 1200
	}
	var mg []Case
	for i := 0; i < n; i++ {
		mg = append(mg, genMgr(r.Fork(), cfg.Thorough()))
	}
	vh.Emit(cfg, "mgr", header, footer, runAll(mg), extra())
}
