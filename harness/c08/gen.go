package main

import "verifharness/vh"

var special = []uint64{0, 1<<32 - 1, 1 << 32, 1<<32 + 1, 1<<64 - 1, 5, 3 << 32, 1<<63 + 7}

func ctr(i int) uint64 { return special[i%len(special)] }

func dnIf(b bool, s, st int) [][2]int {
	if b {
		return [][2]int{{s, st}}
	}
	return nil
}

// tail after the process died: look at the directory, restart (recovered Stops dropped or not),
// let the queue and the retry scan run with the server up, look again.
func afterDeath(ops []Op, sessions []int, restartDown bool) []Op {
	var dn [][2]int
	if restartDown {
		for _, s := range sessions {
			dn = append(dn, [2]int{s, 2})
		}
	}
	ops = append(ops, Op{K: "final"}, Op{K: "restart", Dn: dn}, Op{K: "pq"}, Op{K: "pq"}, Op{K: "rtick"}, Op{K: "final"})
	return ops
}

// genEnumerated: one session, every drop pattern of its Start/Stop, a crash at every crash point
// of every op of the skeleton (plus kill between ops and the four graceful-stop variants), each
// followed by restart with the server up or down.  Thorough: with/without an interim update, and
// two sessions in every order of their Start/Stop calls.
func genEnumerated(thorough bool) []Desc {
	var out []Desc
	id := [3]int{1, 2, 3}
	iticks := []bool{true}
	if thorough {
		iticks = []bool{false, true}
	}
	n := 0
	for _, withI := range iticks {
		for _, sd := range []bool{false, true} {
			for _, pd := range []bool{false, true} {
				base := func() []Op {
					l := []Op{{K: "start", S: 1, ID: id, Dn: dnIf(sd, 1, 1)}}
					if withI {
						l = append(l, Op{K: "itick", Cin: ctr(n + 3), Cout: ctr(n + 1)})
					}
					return l
				}
				stop := Op{K: "stop", S: 1, Cause: 1, Cin: ctr(n), Cout: ctr(n + 2), Dn: dnIf(pd, 1, 2)}
				n++
				// no crash
				out = append(out, Desc{2, append(base(), stop, Op{K: "pq"}, Op{K: "rtick"}, Op{K: "final"}, Op{K: "pq"}, Op{K: "final"})})
				// retry scan before the queue (both hold the record)
				out = append(out, Desc{2, append(base(), stop, Op{K: "rtick"}, Op{K: "pq"}, Op{K: "pq"}, Op{K: "final"})})
				for _, rd := range []bool{false, true} {
					add := func(ops []Op) { out = append(out, Desc{2, afterDeath(ops, []int{1}, rd)}) }
					for c := 1; c <= 2; c++ { // crash inside StartSession
						l := base()
						l[0].C = c
						add(l[:1])
					}
					for c := 1; c <= 3; c++ { // crash inside StopSession
						s := stop
						s.C = c
						add(append(base(), s))
					}
					add(append(base(), stop, Op{K: "pq", C: 1}))
					add(append(base(), stop, Op{K: "rtick", C: 1}))
					add(append(base(), Op{K: "crash"}))
					add(append(base(), stop, Op{K: "crash"}))
					for g := 0; g <= 3; g++ {
						add(append(base(), Op{K: "gstop", Cin: ctr(n), Cout: ctr(n + 4), Dn: dnIf(pd, 1, 2), C: g}))
					}
					add(append(base(), stop, Op{K: "gstop", C: 0}))
					add(append(base(), stop, Op{K: "gstop", C: 3}))
					// graceful stop, restart, and a crash inside the recovery (every crash point)
					for c := 1; c <= 3; c++ {
						l := append(base(), Op{K: "gstop", Cin: ctr(n), Cout: ctr(n + 4), Dn: dnIf(pd, 1, 2)},
							Op{K: "restart", Dn: dnIf(rd, 1, 2), C: c})
						add(l)
					}
				}
			}
		}
	}
	if thorough {
		orders := [][]string{{"A", "B", "a", "b"}, {"A", "B", "b", "a"}, {"A", "a", "B", "b"}, {"B", "A", "a", "b"}, {"B", "A", "b", "a"}, {"B", "b", "A", "a"}}
		for _, ord := range orders {
			for _, mask := range []int{0, 1, 2, 4, 8, 5, 10, 15} {
				mk := func() []Op {
					var l []Op
					for i, x := range ord {
						d := mask&(1<<i) != 0
						switch x {
						case "A":
							l = append(l, Op{K: "start", S: 1, ID: [3]int{1, 2, 3}, Dn: dnIf(d, 1, 1)})
						case "B":
							l = append(l, Op{K: "start", S: 2, ID: [3]int{4, 5, 6}, Dn: dnIf(d, 2, 1)})
						case "a":
							l = append(l, Op{K: "stop", S: 1, Cause: 1, Cin: ctr(mask), Cout: ctr(mask + 1), Dn: dnIf(d, 1, 2)})
						case "b":
							l = append(l, Op{K: "stop", S: 2, Cause: 2, Cin: ctr(mask + 2), Cout: ctr(mask + 3), Dn: dnIf(d, 2, 2)})
						}
					}
					return l
				}
				out = append(out, Desc{2, append(mk(), Op{K: "pq"}, Op{K: "pq"}, Op{K: "rtick"}, Op{K: "final"})})
				for i := 0; i < 4; i++ {
					for c := 1; c <= 3; c++ {
						l := mk()[:i+1]
						if l[i].K == "start" && c == 3 {
							continue
						}
						l[i].C = c
						out = append(out, Desc{2, afterDeath(l, []int{1, 2}, mask&1 != 0)})
					}
				}
			}
		}
	}
	return out
}

// genOrphans: several sessions are live (Starts acknowledged, files written) when the process dies;
// the restart finds >= 2 orphaned session files while the server is unreachable (every recovery Stop
// is dropped, or all but one), so the Stops are QUEUED during one recovery pass; then the server
// comes back and the queue / retry scan deliver them; Final checks that each orphan got its own Stop.
func genOrphans(thorough bool) []Desc {
	var out []Desc
	ids := [][3]int{{}, {11, 12, 13}, {21, 22, 23}, {31, 32, 33}}
	for _, n := range []int{2, 3} {
		var sess []int
		for s := 1; s <= n; s++ {
			sess = append(sess, s)
		}
		starts := func() []Op {
			var l []Op
			for _, s := range sess {
				l = append(l, Op{K: "start", S: s, ID: ids[s]})
			}
			return l
		}
		deaths := [][]Op{
			{{K: "crash"}},
			{{K: "stop", S: 1, Cause: 1, Cin: ctr(n), Cout: ctr(n + 1), C: 1}},                                   // dies after persisting StopPending
			{{K: "stop", S: n, Cause: 2, Cin: ctr(n + 2), Cout: ctr(n + 3), Dn: dnIf(true, n, 2), C: 2}},         // dies after the failed send
			{{K: "itick", Cin: ctr(n + 4), Cout: ctr(n + 5)}, {K: "itick", Cin: ctr(n + 1), Cout: ctr(n), C: 1}}, // dies inside the interim scan
		}
		if thorough {
			deaths = append(deaths,
				[]Op{{K: "gstop", Cin: ctr(n), Cout: ctr(n + 2), C: 1}},
				[]Op{{K: "gstop", Cin: ctr(n), Cout: ctr(n + 2), C: 2}},
				[]Op{{K: "start", S: n, ID: ids[n], C: 2}})
		}
		for di, death := range deaths {
			for _, allDown := range []bool{true, false} {
				var dn [][2]int
				for _, s := range sess {
					if allDown || s != 1 {
						dn = append(dn, [2]int{s, 2})
					}
				}
				for _, scanFirst := range []bool{false, true} {
					if !thorough && scanFirst && di > 1 {
						continue
					}
					l := append(starts(), death...)
					l = append(l, Op{K: "final"}, Op{K: "restart", Dn: dn}, Op{K: "final"})
					if scanFirst {
						l = append(l, Op{K: "rtick"})
					}
					for range sess {
						l = append(l, Op{K: "pq"})
					}
					l = append(l, Op{K: "rtick"}, Op{K: "final"})
					out = append(out, Desc{3, l})
				}
			}
		}
	}
	return out
}

// genCounters: what the records REPORT.  One or two sessions; interim history of session 1 (none /
// acknowledged / dropped / acknowledged then a second one with the counter fetch failing /
// acknowledged then a dropped one with other values); then the session ends - StopSession, graceful
// drain, kill + recovery, death inside StopSession after the StopPending persist / after the
// failed send - with the counter fetcher working or FAILING for it (the data-plane entry is already
// gone, the normal order on release), the Stop acknowledged or dropped and re-sent from the queue.
// With two sessions the second one has its own counter values and a working fetcher.
func genCounters(thorough bool) []Desc {
	var out []Desc
	ids := [][3]int{{}, {11, 12, 13}, {21, 22, 23}}
	k := 0
	c := func() uint64 {
		k++
		v := special[k%len(special)]
		if v == 0 {
			v = 7
		}
		return v
	}
	for _, two := range []bool{false, true} {
		for hist := 0; hist < 5; hist++ {
			for end := 0; end < 9; end++ {
				if !thorough && two && (end == 5 || end == 6 || end == 8) {
					continue
				}
				var l []Op
				l = append(l, Op{K: "start", S: 1, ID: ids[1]})
				if two {
					l = append(l, Op{K: "start", S: 2, ID: ids[2]})
				}
				it := func(fe []int, dn [][2]int) Op {
					o := Op{K: "itick", Cin: c(), Cout: c(), Fe: fe, Dn: dn}
					if two {
						o.Cs = [][3]uint64{{2, c() + 11, c() + 13}}
					}
					return o
				}
				switch hist {
				case 1:
					l = append(l, it(nil, nil))
				case 2:
					l = append(l, it(nil, [][2]int{{1, 3}}))
				case 3:
					l = append(l, it(nil, nil), it([]int{1}, nil))
				case 4:
					l = append(l, it(nil, nil), it(nil, [][2]int{{1, 3}}))
				}
				stop := Op{K: "stop", S: 1, Cause: 1, Cin: c(), Cout: c()}
				gs := Op{K: "gstop", Cin: c(), Cout: c()}
				if two {
					gs.Cs = [][3]uint64{{2, c() + 3, c() + 5}}
				}
				restart := func() { l = append(l, Op{K: "final"}, Op{K: "restart"}) }
				switch end {
				case 0:
					l = append(l, stop)
				case 1:
					stop.Fe = []int{1}
					l = append(l, stop)
				case 2:
					stop.Fe, stop.Dn = []int{1}, [][2]int{{1, 2}}
					l = append(l, stop)
				case 3:
					gs.Fe = []int{1}
					l = append(l, gs)
					restart()
				case 4:
					gs.Fe, gs.Dn = []int{1, 2}, [][2]int{{1, 2}}
					l = append(l, gs)
					restart()
				case 5:
					l = append(l, Op{K: "crash"})
					restart()
				case 6:
					stop.Fe, stop.C = []int{1}, 1
					l = append(l, stop)
					restart()
				case 7:
					stop.Fe, stop.Dn, stop.C = []int{1}, [][2]int{{1, 2}}, 2
					l = append(l, stop)
					restart()
				case 8:
					l = append(l, gs)
					restart()
				}
				l = append(l, Op{K: "pq"}, Op{K: "pq"}, Op{K: "rtick"}, Op{K: "final"})
				out = append(out, Desc{3, l})
			}
		}
	}
	return out
}

// genRandom: up to 3 sessions, random walk over the op alphabet.  guarded = crash-free histories
// (only Start/Stop/InterimTick/ProcessQueued/RetryTick/Final, no crash points): the stream in
// which clause 4 holds by theorem.
func genRandom(r *vh.Rng, thorough, guarded bool) []Desc {
	n := 100
	if guarded {
		n = 40
	}
	if thorough {
		n *= 4
	}
	var out []Desc
	for i := 0; i < n; i++ {
		out = append(out, genOne(r.Fork(), guarded))
	}
	return out
}

func pickCtr(r *vh.Rng) uint64 {
	if r.Chance(1, 4) {
		return r.U64()
	}
	return special[r.Intn(len(special))]
}

func genOne(r *vh.Rng, guarded bool) Desc {
	d := Desc{MaxRetries: 1 + r.Intn(3)}
	nsess := 1 + r.Intn(3)
	live := map[int]bool{}
	alive := true
	pdrop := 1 + r.Intn(3) // drop probability pdrop/6
	randDn := func() [][2]int {
		var dn [][2]int
		for s := 1; s <= nsess; s++ {
			for st := 1; st <= 3; st++ {
				if r.Chance(pdrop, 6) {
					dn = append(dn, [2]int{s, st})
				}
			}
		}
		return dn
	}
	randFe := func() []int {
		var fe []int
		if r.Chance(1, 2) {
			return nil
		}
		for s := 1; s <= nsess; s++ {
			if r.Chance(1, 2) {
				fe = append(fe, s)
			}
		}
		return fe
	}
	randCs := func() [][3]uint64 {
		var cs [][3]uint64
		for s := 1; s <= nsess; s++ {
			if r.Chance(2, 3) {
				cs = append(cs, [3]uint64{uint64(s), pickCtr(r), pickCtr(r)})
			}
		}
		return cs
	}
	crashC := func(max int) int {
		if guarded || !r.Chance(1, 6) {
			return 0
		}
		return 1 + r.Intn(max)
	}
	nops := 3 + r.Intn(10)
	for i := 0; i < nops; i++ {
		if !alive {
			if r.Chance(5, 6) {
				d.Ops = append(d.Ops, Op{K: "restart", Dn: randDn(), C: crashC(5)})
				if d.Ops[len(d.Ops)-1].C == 0 {
					alive = true
				}
				// a crash inside recovery may or may not happen (the countdown can exceed the
				// number of crash points): the next op finds out
				if d.Ops[len(d.Ops)-1].C != 0 {
					d.Ops = append(d.Ops, Op{K: "crash"})
				}
			} else {
				d.Ops = append(d.Ops, Op{K: "final"})
			}
			continue
		}
		switch x := r.Intn(20); {
		case x < 5:
			s := 1 + r.Intn(nsess)
			id := [3]int{10*s + r.Intn(2), 20 + s, 30 + s}
			c := crashC(2)
			d.Ops = append(d.Ops, Op{K: "start", S: s, ID: id, Dn: randDn(), C: c})
			if c == 0 {
				live[s] = true
			} else {
				d.Ops, alive, live = append(d.Ops, Op{K: "crash"}), false, map[int]bool{}
			}
		case x < 9:
			s := 1 + r.Intn(nsess)
			c := crashC(3)
			d.Ops = append(d.Ops, Op{K: "stop", S: s, Cause: uint32(r.Intn(4)), Cin: pickCtr(r), Cout: pickCtr(r), Fe: randFe(), Dn: randDn(), C: c})
			delete(live, s)
			if c != 0 {
				d.Ops, alive, live = append(d.Ops, Op{K: "crash"}), false, map[int]bool{}
			}
		case x < 11:
			c := crashC(3)
			d.Ops = append(d.Ops, Op{K: "itick", Cin: pickCtr(r), Cout: pickCtr(r), Cs: randCs(), Fe: randFe(), Dn: randDn(), C: c})
			if c != 0 {
				d.Ops, alive, live = append(d.Ops, Op{K: "crash"}), false, map[int]bool{}
			}
		case x < 14:
			c := crashC(1)
			d.Ops = append(d.Ops, Op{K: "pq", Dn: randDn(), C: c})
			if c != 0 {
				d.Ops, alive, live = append(d.Ops, Op{K: "crash"}), false, map[int]bool{}
			}
		case x < 17:
			c := crashC(3)
			d.Ops = append(d.Ops, Op{K: "rtick", Dn: randDn(), C: c})
			if c != 0 {
				d.Ops, alive, live = append(d.Ops, Op{K: "crash"}), false, map[int]bool{}
			}
		case x < 18:
			d.Ops = append(d.Ops, Op{K: "final"})
		case x < 19:
			if guarded {
				continue
			}
			d.Ops = append(d.Ops, Op{K: "gstop", Cin: pickCtr(r), Cout: pickCtr(r), Cs: randCs(), Fe: randFe(), Dn: randDn(), C: r.Intn(4)})
			alive, live = false, map[int]bool{}
		default:
			if guarded {
				continue
			}
			d.Ops = append(d.Ops, Op{K: "crash"})
			alive, live = false, map[int]bool{}
		}
	}
	// settle: restart if dead (mostly), drain the queue with the server up, observe
	if !alive && r.Chance(4, 5) {
		d.Ops = append(d.Ops, Op{K: "final"}, Op{K: "restart"})
		alive = true
	}
	if alive {
		d.Ops = append(d.Ops, Op{K: "pq"}, Op{K: "pq"}, Op{K: "pq"}, Op{K: "rtick"}, Op{K: "rtick"})
	}
	d.Ops = append(d.Ops, Op{K: "final"})
	return d
}
