// C08 correspondence driver: the real radius.AccountingManager + radius.Client, run in a WORKER
// SUBPROCESS, against a scripted UDP RADIUS accounting server on loopback run by this process,
// versus Model/Acct.v.  A crash is a real process death: the worker calls os.Exit(137) at an armed
// verifCrashPoint marker (or is SIGKILLed between ops) and a fresh worker is started on the same
// persistence directory.
package main

import (
	"bufio"
	"encoding/json"
	"fmt"
	"net"
	"os"
	"os/exec"
	"path/filepath"
	"sort"
	"strconv"
	"strings"
	"sync"
	"time"

	"verifharness/vh"

	bng "github.com/codelaboratoryltd/bng/pkg/radius"
	"go.uber.org/zap"
	"layeh.com/radius"
	"layeh.com/radius/rfc2865"
	"layeh.com/radius/rfc2866"
	"layeh.com/radius/rfc2869"
)

const secret = "s3cret"

// RADIUS client timeout of the worker: a dropped request costs one timeout.  Generous, because the
// machine is shared: a reply that the client misses through scheduler starvation would look like
// an outage the scripted server did not order.  Runs in which that is detected are repeated; the
// last repetition uses slowTimeout.
const fastTimeout = 400 * time.Millisecond
const slowTimeout = 900 * time.Millisecond // below the 1 s retransmission interval of layeh/radius

// ---------------------------------------------------------------- case description (replayable)

type Op struct {
	K     string      `json:"k"` // start stop itick pq rtick gstop crash restart final
	S     int         `json:"s,omitempty"`
	ID    [3]int      `json:"id,omitempty"`
	Cause uint32      `json:"cause,omitempty"`
	Cin   uint64      `json:"cin,omitempty"`
	Cout  uint64      `json:"cout,omitempty"`
	Cs    [][3]uint64 `json:"cs,omitempty"` // itick/gstop: (session, in, out) the counter source returns for that session (others: cin/cout)
	Fe    []int       `json:"fe,omitempty"` // stop/itick/gstop: sessions for which the counter fetcher FAILS during the op
	Dn    [][2]int    `json:"dn,omitempty"` // (session, status type) pairs the server drops during the op
	C     int         `json:"c,omitempty"`  // crash at the c-th crash point inside the op; gstop: 1 mid-drain, 2 after drain, 3 after persist
}
type Desc struct {
	MaxRetries int  `json:"maxr"`
	Ops        []Op `json:"ops"`
}

// ---------------------------------------------------------------- worker side

type Cmd struct {
	C       string
	S       int
	ID      [3]int
	Cause   uint32
	Cin     uint64
	Cout    uint64
	Cs      [][3]uint64 // counter source: (session, in, out); sessions not listed read 0,0
	Fe      []int       // sessions whose counter fetch fails
	ArmName string
	ArmK    int
}
type SessInfo struct {
	S     int
	ID    [3]int
	Pend  bool
	Cause uint32
	Lin   uint64
	Lout  uint64
}
type PendInfo struct {
	RID   string
	St    int
	S     int
	ID    [3]int
	In    uint64
	Out   uint64
	Cause uint32
	Retry int
}
type Snap struct {
	Sess []SessInfo
	Pend []PendInfo
	Chan []PendInfo
}
type Resp struct {
	Ret  string
	Snap Snap
	Ms   int64 // duration of the API call in milliseconds
}

func sidName(s int) string { return fmt.Sprintf("s%d", s) }
func sidOf(n string) int {
	if len(n) > 1 && n[0] == 's' {
		if v, err := strconv.Atoi(n[1:]); err == nil {
			return v
		}
	}
	return 900
}
func userOf(n string) int {
	if len(n) > 1 && n[0] == 'u' {
		if v, err := strconv.Atoi(n[1:]); err == nil {
			return v
		}
	}
	return 901
}
func macOf(m net.HardwareAddr) int {
	if len(m) == 6 && m[0] == 2 && m[1] == 0 && m[2] == 0 && m[3] == 0 && m[4] == 0 {
		return int(m[5])
	}
	return 902
}
func ipOf(ip net.IP) int {
	if v := ip.To4(); v != nil && v[0] == 10 && v[1] == 0 && v[2] == 0 {
		return int(v[3])
	}
	return 903
}
func mkMAC(n int) net.HardwareAddr { return net.HardwareAddr{2, 0, 0, 0, 0, byte(n)} }
func mkIP(n int) net.IP            { return net.IPv4(10, 0, 0, byte(n)) }

func tsOf(rid string) int64 {
	i := strings.LastIndexByte(rid, '-')
	v, _ := strconv.ParseInt(rid[i+1:], 10, 64)
	return v
}
func sortPend(l []PendInfo) {
	sort.SliceStable(l, func(i, j int) bool {
		a, b := tsOf(l[i].RID), tsOf(l[j].RID)
		if a != b {
			return a < b
		}
		return l[i].S < l[j].S
	})
}
func pendOf(id string, q *bng.AcctRequest, retry int) PendInfo {
	return PendInfo{RID: id, St: int(q.StatusType), S: sidOf(q.SessionID), ID: [3]int{userOf(q.Username), macOf(q.MAC), ipOf(q.FramedIP)},
		In: q.InputOctets, Out: q.OutputOctets, Cause: q.TerminateCause, Retry: retry}
}

func workerMain(dir string, port, maxr int, clientTimeout time.Duration) {
	client, err := bng.NewClient(bng.ClientConfig{
		Servers: []bng.ServerConfig{{Host: "127.0.0.1", Port: port, Secret: secret}},
		NASID:   "verif", Timeout: clientTimeout, Retries: 1,
	}, zap.NewNop())
	if err != nil {
		panic(err)
	}
	var am *bng.AccountingManager
	cur := map[int]bng.SessionCounters{}
	fail := map[int]bool{}
	snap := func() Snap {
		var s Snap
		if am == nil {
			return s
		}
		for _, x := range am.ListSessions() {
			s.Sess = append(s.Sess, SessInfo{S: sidOf(x.SessionID), ID: [3]int{userOf(x.Username), macOf(x.MAC), ipOf(x.FramedIP)},
				Pend: x.StopPending, Cause: x.StopCause, Lin: x.LastInputOctets, Lout: x.LastOutputOctets})
		}
		sort.Slice(s.Sess, func(i, j int) bool { return s.Sess[i].S < s.Sess[j].S })
		for _, p := range am.VerifPending() {
			q := p.Request
			s.Pend = append(s.Pend, pendOf(p.ID, &q, p.RetryCount))
		}
		sortPend(s.Pend)
		for _, p := range am.VerifQueue() {
			q := p.Request
			s.Chan = append(s.Chan, pendOf(p.ID, &q, p.RetryCount))
		}
		return s
	}
	in := bufio.NewScanner(os.Stdin)
	in.Buffer(make([]byte, 1<<20), 1<<20)
	out := bufio.NewWriter(os.Stdout)
	for in.Scan() {
		var c Cmd
		if err := json.Unmarshal(in.Bytes(), &c); err != nil {
			panic(err)
		}
		ret := "ok"
		if c.ArmK > 0 {
			bng.VerifArmCrash(c.ArmName, c.ArmK)
		}
		cur, fail = map[int]bng.SessionCounters{}, map[int]bool{}
		for _, v := range c.Cs {
			cur[int(v[0])] = bng.SessionCounters{InputOctets: v[1], OutputOctets: v[2], InputPackets: v[1] >> 9, OutputPackets: v[2] >> 9}
		}
		for _, s := range c.Fe {
			fail[s] = true
		}
		t0 := time.Now()
		switch c.C {
		case "boot":
			am, err = bng.NewAccountingManager(client, bng.AccountingConfig{
				DefaultInterimInterval: time.Nanosecond, InterimEnabled: true,
				MaxRetries: maxr, RetryBaseDelay: time.Nanosecond, RetryMaxDelay: time.Nanosecond,
				QueueSize: 100, PersistPath: dir, ShutdownTimeout: 3 * time.Second, DrainOnShutdown: true,
			}, zap.NewNop())
			if err != nil {
				panic(err)
			}
			// the counter source of the data plane: per session, and it can fail (entry already gone)
			am.SetCounterFetcher(func(id string) (*bng.SessionCounters, error) {
				s := sidOf(id)
				if fail[s] {
					return nil, fmt.Errorf("no counters for %s", id)
				}
				v := cur[s]
				return &v, nil
			})
			am.VerifStartNoLoops()
		case "start":
			if am.StartSession(&bng.AccountingSession{SessionID: sidName(c.S), Username: fmt.Sprintf("u%d", c.ID[0]),
				MAC: mkMAC(c.ID[1]), FramedIP: mkIP(c.ID[2])}) != nil {
				ret = "err"
			}
		case "stop":
			if am.StopSession(sidName(c.S), c.Cause) != nil {
				ret = "err"
			}
		case "itick":
			am.VerifInterimTickOnce()
		case "pq":
			am.VerifProcessQueueOnce()
		case "rtick":
			am.VerifRetryTickOnce()
		case "gstop":
			am.Stop()
		case "snap":
		case "exit":
			os.Exit(0)
		}
		ms := time.Since(t0).Milliseconds()
		bng.VerifArmCrash("", 0)
		var s Snap
		if c.C != "gstop" {
			s = snap()
		}
		b, _ := json.Marshal(Resp{Ret: ret, Snap: s, Ms: ms})
		out.Write(b)
		out.WriteByte('\n')
		out.Flush()
	}
}

// ---------------------------------------------------------------- scripted RADIUS server

type Wrec struct {
	St    int
	S     int
	ID    [3]int
	InLo  uint64
	InGw  *uint64
	OutLo uint64
	OutGw *uint64
	Cause uint32
}
type Ev struct {
	W   Wrec
	Ack bool
}
type heldPkt struct {
	p    *radius.Packet
	addr *net.UDPAddr
	w    Wrec
}
type server struct {
	conn  *net.UDPConn
	mu    sync.Mutex
	down  map[[2]int]bool
	log   []Ev
	hold  int // >0: collect this many requests, then answer only the first (by session) that is not down
	held  []heldPkt
	fence chan struct{}
	seen  map[[16]byte]bool // authenticators already handled (a retransmission is answered like the original, not logged again)
}

func newServer() *server {
	c, err := net.ListenUDP("udp4", &net.UDPAddr{IP: net.IPv4(127, 0, 0, 1)})
	if err != nil {
		panic(err)
	}
	s := &server{conn: c, down: map[[2]int]bool{}, fence: make(chan struct{}, 4), seen: map[[16]byte]bool{}}
	go s.loop()
	return s
}
func (s *server) port() int { return s.conn.LocalAddr().(*net.UDPAddr).Port }
func (s *server) reply(p *radius.Packet, addr *net.UDPAddr) {
	b, err := p.Response(radius.CodeAccountingResponse).Encode()
	if err == nil {
		s.conn.WriteToUDP(b, addr)
	}
}
func decode(p *radius.Packet) Wrec {
	var w Wrec
	w.St = int(rfc2866.AcctStatusType_Get(p))
	w.S = sidOf(rfc2866.AcctSessionID_GetString(p))
	w.ID[0] = userOf(rfc2865.UserName_GetString(p))
	w.ID[1] = 902
	if cs := rfc2865.CallingStationID_GetString(p); cs != "" {
		if m, err := net.ParseMAC(strings.ReplaceAll(cs, "-", ":")); err == nil {
			w.ID[1] = macOf(m)
		}
	}
	w.ID[2] = 903
	if ip, err := rfc2865.FramedIPAddress_Lookup(p); err == nil {
		w.ID[2] = ipOf(ip)
	}
	if v, err := rfc2866.AcctInputOctets_Lookup(p); err == nil {
		w.InLo = uint64(v)
	}
	if v, err := rfc2866.AcctOutputOctets_Lookup(p); err == nil {
		w.OutLo = uint64(v)
	}
	if v, err := rfc2869.AcctInputGigawords_Lookup(p); err == nil {
		g := uint64(v)
		w.InGw = &g
	}
	if v, err := rfc2869.AcctOutputGigawords_Lookup(p); err == nil {
		g := uint64(v)
		w.OutGw = &g
	}
	if v, err := rfc2866.AcctTerminateCause_Lookup(p); err == nil {
		w.Cause = uint32(v)
	}
	return w
}
func (s *server) loop() {
	buf := make([]byte, 4096)
	for {
		n, addr, err := s.conn.ReadFromUDP(buf)
		if err != nil {
			return
		}
		if n == 5 && string(buf[:5]) == "FENCE" {
			s.fence <- struct{}{}
			continue
		}
		p, err := radius.Parse(append([]byte(nil), buf[:n]...), []byte(secret))
		if err != nil || p.Code != radius.CodeAccountingRequest {
			continue
		}
		w := decode(p)
		s.mu.Lock()
		if ack, dup := s.seen[p.Authenticator]; dup {
			s.mu.Unlock()
			if ack {
				s.reply(p, addr)
			}
			continue
		}
		if s.hold > 0 {
			s.seen[p.Authenticator] = false
			s.held = append(s.held, heldPkt{p, addr, w})
			if len(s.held) == s.hold {
				sort.Slice(s.held, func(i, j int) bool { return s.held[i].w.S < s.held[j].w.S })
				done := false
				for _, h := range s.held {
					ack := !done && !s.down[[2]int{h.w.S, h.w.St}]
					if ack {
						done = true
						s.reply(h.p, h.addr)
					}
					s.log = append(s.log, Ev{h.w, ack})
				}
				s.hold, s.held = 0, nil
			}
			s.mu.Unlock()
			continue
		}
		ack := !s.down[[2]int{w.S, w.St}]
		s.seen[p.Authenticator] = ack
		s.log = append(s.log, Ev{w, ack})
		s.mu.Unlock()
		if ack {
			s.reply(p, addr)
		}
	}
}
func (s *server) script(dn [][2]int, hold int) {
	s.mu.Lock()
	s.down = map[[2]int]bool{}
	for _, d := range dn {
		s.down[d] = true
	}
	s.log, s.hold, s.held = nil, hold, nil
	s.mu.Unlock()
}
func (s *server) take() []Ev {
	// everything sent to the socket before this point has been handled once the fence comes back
	if c, err := net.DialUDP("udp4", nil, s.conn.LocalAddr().(*net.UDPAddr)); err == nil {
		c.Write([]byte("FENCE"))
		c.Close()
		select {
		case <-s.fence:
		case <-time.After(2 * time.Second):
		}
	}
	s.mu.Lock()
	defer s.mu.Unlock()
	// requests still held when the process died before all arrived (not expected): log them as dropped
	for _, h := range s.held {
		s.log = append(s.log, Ev{h.w, false})
	}
	l := s.log
	s.log, s.hold, s.held = nil, 0, nil
	return l
}

// ---------------------------------------------------------------- parent side: one case

type worker struct {
	cmd *exec.Cmd
	in  *bufio.Writer
	out *bufio.Scanner
}

func spawn(dir string, port, maxr int, timeout time.Duration) *worker {
	c := exec.Command(os.Args[0], "-worker", dir, strconv.Itoa(port), strconv.Itoa(maxr), strconv.Itoa(int(timeout.Milliseconds())))
	c.Env = append(os.Environ(), "VERIF_CRASH_AT=", "GOMAXPROCS=1")
	stdin, _ := c.StdinPipe()
	stdout, _ := c.StdoutPipe()
	c.Stderr = os.Stderr
	if err := c.Start(); err != nil {
		panic(err)
	}
	sc := bufio.NewScanner(stdout)
	sc.Buffer(make([]byte, 1<<20), 1<<20)
	return &worker{c, bufio.NewWriter(stdin), sc}
}

// call returns (response, alive). alive=false: the process died before answering.
func (w *worker) call(c Cmd) (Resp, bool) {
	b, _ := json.Marshal(c)
	w.in.Write(b)
	w.in.WriteByte('\n')
	w.in.Flush()
	if !w.out.Scan() {
		w.cmd.Wait()
		return Resp{}, false
	}
	var r Resp
	if err := json.Unmarshal(w.out.Bytes(), &r); err != nil {
		panic(err)
	}
	return r, true
}
func (w *worker) kill() {
	w.cmd.Process.Kill()
	w.cmd.Wait()
}

type diskState struct {
	Files []SessInfo
	PJson []PendInfo
	HasPJ bool
}

func readDisk(dir string) diskState {
	var d diskState
	ents, _ := os.ReadDir(filepath.Join(dir, "sessions"))
	for _, e := range ents {
		b, err := os.ReadFile(filepath.Join(dir, "sessions", e.Name()))
		if err != nil {
			continue
		}
		var x bng.AccountingSession
		if json.Unmarshal(b, &x) != nil {
			d.Files = append(d.Files, SessInfo{S: 904})
			continue
		}
		d.Files = append(d.Files, SessInfo{S: sidOf(x.SessionID), ID: [3]int{userOf(x.Username), macOf(x.MAC), ipOf(x.FramedIP)},
			Pend: x.StopPending, Cause: x.StopCause, Lin: x.LastInputOctets, Lout: x.LastOutputOctets})
	}
	sort.Slice(d.Files, func(i, j int) bool { return d.Files[i].S < d.Files[j].S })
	if b, err := os.ReadFile(filepath.Join(dir, "pending.json")); err == nil {
		d.HasPJ = true
		var m map[string]*bng.PendingAcctRecord
		if json.Unmarshal(b, &m) == nil {
			for id, p := range m {
				d.PJson = append(d.PJson, pendOf(id, p.Request, p.RetryCount))
			}
		}
		sortPend(d.PJson)
	}
	return d
}

// Coq printers
func cIdent(i [3]int) string { return fmt.Sprintf("(%d, %d, %d)", i[0], i[1], i[2]) }
func cDn(dn [][2]int) string {
	var l []string
	for _, d := range dn {
		l = append(l, fmt.Sprintf("(%d, %d)", d[0], d[1]))
	}
	return vh.List(l)
}
func cInts(l []int) string {
	var o []string
	for _, x := range l {
		o = append(o, strconv.Itoa(x))
	}
	return vh.List(o)
}

// csOf: the counter source of an itick/gstop op: sessions 1..maxSess read (cin, cout) unless the
// op lists its own pair for them.
const maxSess = 4

func csOf(o Op) [][3]uint64 {
	var l [][3]uint64
	for s := 1; s <= maxSess; s++ {
		v := [3]uint64{uint64(s), o.Cin, o.Cout}
		for _, x := range o.Cs {
			if int(x[0]) == s {
				v = x
			}
		}
		l = append(l, v)
	}
	return l
}
func cCs(cs [][3]uint64) string {
	var o []string
	for _, v := range cs {
		o = append(o, fmt.Sprintf("(%d, (%d, %d))", v[0], v[1], v[2]))
	}
	return vh.List(o)
}
func cSess(l []SessInfo) string {
	var o []string
	for _, s := range l {
		o = append(o, fmt.Sprintf("mkS %d %s %s %d %d %d", s.S, cIdent(s.ID), vh.Bool(s.Pend), s.Cause, s.Lin, s.Lout))
	}
	return vh.List(o)
}
func cReq(p PendInfo) string {
	return fmt.Sprintf("mkQ %d %d %s %d %d %d", p.St, p.S, cIdent(p.ID), p.In, p.Out, p.Cause)
}
func cPend(l []PendInfo) string {
	var o []string
	for _, p := range l {
		o = append(o, fmt.Sprintf("(%s, %d)", cReq(p), p.Retry))
	}
	return vh.List(o)
}
func cChan(l []PendInfo) string {
	var o []string
	for _, p := range l {
		o = append(o, cReq(p))
	}
	return vh.List(o)
}
func cCtr(lo uint64, gw *uint64) string {
	if gw == nil {
		return fmt.Sprintf("(%d, None)", lo)
	}
	return fmt.Sprintf("(%d, Some %d)", lo, *gw)
}
func cEvs(l []Ev) string {
	var o []string
	for _, e := range l {
		o = append(o, fmt.Sprintf("(mkW %d %d %s %s %s %d, %s)", e.W.St, e.W.S, cIdent(e.W.ID), cCtr(e.W.InLo, e.W.InGw), cCtr(e.W.OutLo, e.W.OutGw), e.W.Cause, vh.Bool(e.Ack)))
	}
	return vh.List(o)
}

// sameCtr: does the wire pair (low word, optional gigawords) spell the 64-bit value v?
func sameCtr(v, lo uint64, gw *uint64) bool {
	g := uint64(0)
	if gw != nil {
		g = *gw
	}
	return lo+g<<32 == v
}

type flaky struct{}

// runOnce executes the case on the real code; it panics with flaky{} when a request the server
// acknowledged was nevertheless treated as failed by the client (scheduler starvation).
func runOnce(d Desc, tmp string, strict bool) vh.Case {
	clientTimeout := fastTimeout
	if !strict {
		clientTimeout = slowTimeout
	}
	os.RemoveAll(tmp)
	os.MkdirAll(tmp, 0o755)
	defer os.RemoveAll(tmp)
	srv := newServer()
	defer srv.conn.Close()
	port := srv.port() - 1
	maxr := d.MaxRetries
	var w *worker
	boot := func(arm int) (Resp, bool) {
		w = spawn(tmp, port, maxr, clientTimeout)
		c := Cmd{C: "boot"}
		if arm > 0 {
			c.ArmName, c.ArmK = "*", arm
		}
		r, ok := w.call(c)
		if !ok {
			w = nil
		}
		return r, ok
	}
	srv.script(nil, 0)
	boot(0)
	defer func() {
		if w != nil {
			w.kill()
		}
	}()
	var snap Snap
	disk := readDisk(tmp)
	var tr []string
	tags := map[string]bool{}
	nsess := map[int]bool{}
	for _, o := range d.Ops {
		prevSnap, prevDisk := snap, disk
		ret := 0
		var evs []Ev
		var opTerm string
		queues := false // op whose dropped requests must each appear as one new pending record
		var elapsed int64 = -1
		cmd := Cmd{S: o.S, ID: o.ID, Cause: o.Cause, Cin: o.Cin, Cout: o.Cout, Fe: o.Fe}
		switch o.K {
		case "stop":
			cmd.Cs = [][3]uint64{{uint64(o.S), o.Cin, o.Cout}}
		case "itick", "gstop":
			cmd.Cs = csOf(o)
		}
		if len(o.Fe) > 0 {
			tags["fetch-fails-in:"+o.K] = true
		}
		if o.C > 0 {
			cmd.ArmName, cmd.ArmK = "*", o.C
			tags["crash-in:"+o.K] = true
		}
		if len(o.Dn) > 0 {
			tags["outage-in:"+o.K] = true
		}
		tags["op:"+o.K] = true
		exec1 := func(name string) {
			if w == nil {
				ret = 3
				return
			}
			cmd.C = name
			r, ok := w.call(cmd)
			if !ok {
				ret, w, snap = 2, nil, Snap{}
				return
			}
			if r.Ret == "err" {
				ret = 1
			}
			snap, elapsed = r.Snap, r.Ms
		}
		srv.script(o.Dn, 0)
		switch o.K {
		case "start":
			nsess[o.S] = true
			exec1("start")
			queues = true
			opTerm = fmt.Sprintf("Start %d %s %s %d", o.S, cIdent(o.ID), cDn(o.Dn), o.C)
		case "stop":
			exec1("stop")
			queues = true
			opTerm = fmt.Sprintf("Stop %d %d %d %d %s %s %d", o.S, o.Cause, o.Cin, o.Cout, cInts(o.Fe), cDn(o.Dn), o.C)
		case "itick":
			exec1("itick")
			queues = true
		case "pq":
			exec1("pq")
			opTerm = fmt.Sprintf("ProcessQueued %s %d", cDn(o.Dn), o.C)
		case "rtick":
			exec1("rtick")
		case "gstop":
			if w == nil {
				ret = 3
			} else {
				cmd.ArmName, cmd.ArmK = "", 0
				switch o.C {
				case 1:
					cmd.ArmName, cmd.ArmK = "drain_sent", 1
					srv.script(o.Dn, len(prevSnap.Sess))
				case 2:
					cmd.ArmName, cmd.ArmK = "drain_done", 1
				case 3:
					cmd.ArmName, cmd.ArmK = "pending_persisted", 1
				}
				exec1("gstop")
				if w != nil { // Stop() returned: the process ends
					w.call(Cmd{C: "exit"})
					w, snap = nil, Snap{}
				}
			}
		case "crash":
			if w == nil {
				ret = 3
			} else {
				w.kill()
				w, snap, ret = nil, Snap{}, 2
			}
			opTerm = "Crash"
		case "restart":
			if w != nil {
				ret = 1
			} else {
				r, ok := boot(o.C)
				if !ok {
					ret, snap = 2, Snap{}
				} else {
					snap, elapsed = r.Snap, r.Ms
				}
				queues = true
			}
		case "final":
			if w != nil {
				exec1("snap")
			}
			opTerm = "Final"
		default:
			panic("unknown op " + o.K)
		}
		evs = srv.take()
		disk = readDisk(tmp)
		// flakiness: a sequential op must not last as long as one more client timeout than the
		// server dropped requests; an acknowledged request must not have been queued
		if strict && elapsed >= 0 && o.K != "gstop" {
			nd := 0
			for _, e := range evs {
				if !e.Ack {
					nd++
				}
			}
			if elapsed >= int64(nd+1)*clientTimeout.Milliseconds()-5 {
				panic(flaky{})
			}
		}
		// ... and every request the op must transmit must have reached the server (a client that
		// gives up before transmitting - expired context under starvation - shows as a missing one)
		if strict && ret == 0 {
			want := -1
			switch o.K {
			case "start", "stop":
				want = 1
			case "itick", "gstop":
				want = len(prevSnap.Sess)
			case "pq":
				want = 0
				if len(prevSnap.Chan) > 0 {
					want = 1
				}
			case "rtick":
				want = len(prevSnap.Pend)
			case "restart":
				want = len(prevDisk.Files)
			}
			if want >= 0 && len(evs) < want {
				panic(flaky{})
			}
		}
		// the same for an op that died at its c-th crash point: the transmissions before that point
		if strict && ret == 2 && o.C > 0 {
			min := func(a, b int) int {
				if a < b {
					return a
				}
				return b
			}
			want := 0
			switch o.K {
			case "start":
				want = 1
			case "stop":
				if o.C >= 2 {
					want = 1
				}
			case "pq":
				want = min(1, len(prevSnap.Chan))
			case "rtick":
				want = min(o.C, len(prevSnap.Pend))
			case "itick":
				want = min(o.C, len(prevSnap.Sess))
			case "restart":
				want = min((o.C+1)/2, len(prevDisk.Files))
			}
			if len(evs) < want {
				panic(flaky{})
			}
		}
		if strict && queues && ret == 0 {
			old := map[string]bool{}
			for _, p := range prevSnap.Pend {
				old[p.RID] = true
			}
			for _, p := range prevDisk.PJson {
				old[p.RID] = true
			}
			nnew, ndrop := 0, 0
			for _, p := range snap.Pend {
				if !old[p.RID] {
					nnew++
				}
			}
			for _, e := range evs {
				if !e.Ack {
					ndrop++
				}
			}
			if nnew != ndrop {
				panic(flaky{})
			}
		}
		if strict && o.K == "gstop" && ret == 0 {
			old := map[string]bool{}
			for _, p := range prevSnap.Pend {
				old[p.RID] = true
			}
			nnew, ndrop := 0, 0
			for _, p := range disk.PJson {
				if !old[p.RID] {
					nnew++
				}
			}
			for _, e := range evs {
				if !e.Ack {
					ndrop++
				}
			}
			if nnew != ndrop {
				panic(flaky{})
			}
		}
		// oracles observed from the run
		switch o.K {
		case "itick":
			var order []int
			for _, e := range evs {
				order = append(order, e.W.S)
			}
			opTerm = fmt.Sprintf("InterimTick %s %s %s %s %d", cCs(csOf(o)), cInts(o.Fe), cDn(o.Dn), cInts(order), o.C)
		case "rtick":
			used := map[int]bool{}
			var order []int
			for _, e := range evs {
				for i, p := range prevSnap.Pend {
					if used[i] || p.St != e.W.St || p.S != e.W.S {
						continue
					}
					if e.W.St != 1 && !(sameCtr(p.In, e.W.InLo, e.W.InGw) && sameCtr(p.Out, e.W.OutLo, e.W.OutGw)) {
						continue
					}
					if e.W.St == 2 && e.W.Cause != p.Cause {
						continue
					}
					used[i] = true
					order = append(order, i)
					break
				}
			}
			opTerm = fmt.Sprintf("RetryTick %s %s %d", cDn(o.Dn), cInts(order), o.C)
		case "gstop":
			sort.SliceStable(evs, func(i, j int) bool { return evs[i].W.S < evs[j].W.S })
			old := map[string]bool{}
			for _, p := range prevSnap.Pend {
				old[p.RID] = true
			}
			var qorder []int
			for _, p := range disk.PJson {
				if !old[p.RID] {
					qorder = append(qorder, p.S)
				}
			}
			opTerm = fmt.Sprintf("GracefulStop %s %s %s %s %d", cCs(csOf(o)), cInts(o.Fe), cDn(o.Dn), cInts(qorder), o.C)
		case "restart":
			pos := map[string]int{}
			for i, p := range prevDisk.PJson {
				pos[p.RID] = i
			}
			var qperm []int
			for _, p := range snap.Chan {
				if i, ok := pos[p.RID]; ok {
					qperm = append(qperm, i)
				}
			}
			opTerm = fmt.Sprintf("Restart %s %s %d", cDn(o.Dn), cInts(qperm), o.C)
		}
		pj := "None"
		if disk.HasPJ {
			pj = "(Some " + cPend(disk.PJson) + ")"
		}
		outTerm := fmt.Sprintf("mkO %d %s %s %s %s %s %s %s", ret, cEvs(evs), vh.Bool(w != nil), cSess(snap.Sess), cPend(snap.Pend), cChan(snap.Chan), cSess(disk.Files), pj)
		tr = append(tr, "("+opTerm+",\n    "+outTerm+")")
		if ret == 2 {
			tags["crashed"] = true
		}
		for _, e := range evs {
			if !e.Ack {
				tags["dropped-request"] = true
			}
			if e.W.InGw != nil || e.W.OutGw != nil {
				tags["gigawords"] = true
			}
		}
	}
	var tl []string
	for t := range tags {
		tl = append(tl, t)
	}
	tl = append(tl, fmt.Sprintf("sessions:%d", len(nsess)), fmt.Sprintf("maxr:%d", maxr))
	sort.Strings(tl)
	return vh.Case{Coq: fmt.Sprintf("(%d, %s)", maxr, "[\n   "+strings.Join(tr, ";\n   ")+"]"), Desc: d, Tags: tl}
}

func run(d Desc, tmp string) (c vh.Case) {
	for attempt := 0; ; attempt++ {
		ok := func() (ok bool) {
			defer func() {
				if r := recover(); r != nil {
					if _, is := r.(flaky); is {
						ok = false
						return
					}
					panic(r)
				}
			}()
			c = runOnce(d, tmp, attempt < 5) // last attempt: slow timeouts, take the run as it is
			return true
		}()
		if ok {
			if attempt > 0 {
				c.Tags = append(c.Tags, "rerun-after-spurious-timeout")
			}
			return c
		}
	}
}

func runAll(cfg vh.Config, ds []Desc, par int) []vh.Case {
	out := make([]vh.Case, len(ds))
	var wg sync.WaitGroup
	ch := make(chan int)
	for p := 0; p < par; p++ {
		wg.Add(1)
		go func(p int) {
			defer wg.Done()
			for i := range ch {
				out[i] = run(ds[i], filepath.Join(cfg.Out, fmt.Sprintf("dir-%d", p)))
			}
		}(p)
	}
	for i := range ds {
		ch <- i
	}
	close(ch)
	wg.Wait()
	return out
}

const header = `From Coq Require Import NArith List. Import ListNotations.
From Verif Require Import Model.Gigaword Model.Acct Model.AcctSpec Model.AcctCheck.
Local Open Scope N_scope.
Definition cases : list case := [
`
const footer = `
].
Definition R := Eval vm_compute in run_cases cases.
Print R.
`

func main() {
	if len(os.Args) >= 6 && os.Args[1] == "-worker" {
		port, _ := strconv.Atoi(os.Args[3])
		maxr, _ := strconv.Atoi(os.Args[4])
		ms, _ := strconv.Atoi(os.Args[5])
		workerMain(os.Args[2], port, maxr, time.Duration(ms)*time.Millisecond)
		return
	}
	cfg := vh.ParseFlags()
	par := 12
	if v, err := strconv.Atoi(os.Getenv("VERIF_C08_PAR")); err == nil && v > 0 {
		par = v
	}
	if cfg.Replay != "" {
		var d Desc
		if err := vh.LoadReplay(cfg.Replay, &d); err != nil {
			panic(err)
		}
		vh.Emit(cfg, "cases", header, footer, runAll(cfg, []Desc{d}, 1), nil)
		return
	}
	var corpus []Desc
	for _, f := range vh.CorpusFiles(cfg) {
		var d Desc
		if err := vh.LoadReplay(f, &d); err != nil {
			panic(err)
		}
		corpus = append(corpus, d)
	}
	if len(corpus) > 0 {
		vh.Emit(cfg, "corpus", header, footer, runAll(cfg, corpus, par), nil)
	}
	r := vh.NewRng(cfg.Seed)
	enum := genEnumerated(cfg.Thorough())
	vh.Emit(cfg, "enum", header, footer, runAll(cfg, enum, par), map[string]interface{}{"exhaustive": true})
	vh.Emit(cfg, "orphans", header, footer, runAll(cfg, genOrphans(cfg.Thorough()), par), map[string]interface{}{"exhaustive": true})
	vh.Emit(cfg, "counters", header, footer, runAll(cfg, genCounters(cfg.Thorough()), par), map[string]interface{}{"exhaustive": true})
	guarded := genRandom(r.Fork(), cfg.Thorough(), true)
	vh.Emit(cfg, "guarded", header, footer, runAll(cfg, guarded, par), nil)
	random := genRandom(r.Fork(), cfg.Thorough(), false)
	vh.Emit(cfg, "cases", header, footer, runAll(cfg, random, par), nil)
}
