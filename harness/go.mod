module verifharness

go 1.25

require github.com/codelaboratoryltd/bng v0.0.0

require (
	go.uber.org/multierr v1.11.0 // indirect
	go.uber.org/zap v1.27.0 // indirect
)

replace github.com/codelaboratoryltd/bng => /repo
