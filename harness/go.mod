module verifharness

go 1.25

require (
	github.com/cilium/ebpf v0.12.3
	github.com/codelaboratoryltd/bng v0.0.0
	go.uber.org/zap v1.27.0
	layeh.com/radius v0.0.0-20231213012653-1006025d24f8
)

require (
	github.com/google/uuid v1.6.0 // indirect
	github.com/vishvananda/netlink v1.3.1 // indirect
	github.com/vishvananda/netns v0.0.5 // indirect
	go.uber.org/multierr v1.11.0 // indirect
	golang.org/x/exp v0.0.0-20250718183923-645b1fa84792 // indirect
	golang.org/x/sys v0.39.0 // indirect
	golang.org/x/time v0.14.0 // indirect
)

replace github.com/codelaboratoryltd/bng => /repo
