// C16 stream "dhcp": real dhcp.Server with real nat.Manager, qos.Manager and ebpf.Loader writing into
// kernel maps, real radius.Client against a recording accounting server on loopback.
package main

import (
	"bytes"
	"encoding/binary"
	"encoding/hex"
	"fmt"
	"net"
	"os"
	"path/filepath"
	"runtime"
	"sort"
	"sync"
	"time"

	"verifharness/bpfrun"
	"verifharness/vh"

	"github.com/cilium/ebpf"
	"github.com/codelaboratoryltd/bng/pkg/dhcp"
	bngebpf "github.com/codelaboratoryltd/bng/pkg/ebpf"
	"github.com/codelaboratoryltd/bng/pkg/nat"
	"github.com/codelaboratoryltd/bng/pkg/qos"
	bngradius "github.com/codelaboratoryltd/bng/pkg/radius"
	"github.com/insomniacslk/dhcp/dhcpv4"
	"go.uber.org/zap"
	"layeh.com/radius"
	"layeh.com/radius/rfc2865"
	"layeh.com/radius/rfc2866"
)

// ---------------------------------------------------------------- replayable description

type DCfg struct {
	Radius    bool `json:"radius"`
	Qos       bool `json:"qos"`
	Nat       bool `json:"nat"`
	NatBlocks int  `json:"nat_blocks,omitempty"`
	Bits      int  `json:"bits"`      // prefix length of 10.16.0.0/Bits, gateway .1
	LeaseSec  int  `json:"lease_sec"` // pool lease time
	// Full: fault injection. The listed kernel maps are full for the whole case, so that every Put of a
	// NEW key fails (E2BIG) while updates of existing keys and deletes work:
	// 1 subscriber_pools 2 circuit_id_map 3 circuit_id_subscribers 4 qos_egress 5 qos_ingress 6 subscriber_nat
	Full []int `json:"full,omitempty"`
}

// DOp: K = disc | req | rel | decl | age | tick | flush.
// C: client index (MAC 02:00:00:00:00:<C+1>).  Cid: circuit number in option 82 (0 = none).
// IP (req, decl): 0 = the address last offered/acked to C (absent when none), -1 = option absent,
// n > 0 = host n of the pool network.
// Rid: option 82 carries a Remote-ID sub-option (with Cid == 0: relay information WITHOUT a Circuit-ID
// sub-option; for the server that is "no circuit-id", which is what the Model's cid = 0 stands for).
type DOp struct {
	K     string `json:"k"`
	C     int    `json:"c,omitempty"`
	Cid   int    `json:"cid,omitempty"`
	Relay bool   `json:"relay,omitempty"`
	Rid   bool   `json:"rid,omitempty"`
	M     int    `json:"m,omitempty"` // flush: kernel map (numbering of DCfg.Full) emptied behind the managers' back
	IP    int    `json:"ip,omitempty"`
	D     int    `json:"d,omitempty"` // age: seconds
}

type DCase struct {
	Cfg DCfg  `json:"cfg"`
	Ops []DOp `json:"ops"`
}

// ---------------------------------------------------------------- recording accounting server

const secret = "verif-secret"

type acctRec struct {
	kind uint64 // 1 start, 2 stop, 3 interim
	sid  string
}

type acctSrv struct {
	conn *net.UDPConn
	mu   sync.Mutex
	recs []acctRec
	seen map[string]bool
	// onStop (PPPoE overlap streams): asked at every new Accounting-Stop; a gate it returns holds the
	// Accounting-Response to that record until the gate opens
	onStop func() *gate
}

func (s *acctSrv) setOnStop(f func() *gate) {
	s.mu.Lock()
	s.onStop = f
	s.mu.Unlock()
}

func startAcct() *acctSrv {
	// radius.Client sends accounting to server port + 1: bind a pair of consecutive ports.
	// The lower one answers Access-Request (accept iff the password is "good"), the upper one records
	// Accounting-Request.
	var a, c *net.UDPConn
	for i := 0; i < 200 && c == nil; i++ {
		aa, err := net.ListenUDP("udp4", &net.UDPAddr{IP: net.IPv4(127, 0, 0, 1)})
		if err != nil {
			panic(err)
		}
		cc, err := net.ListenUDP("udp4", &net.UDPAddr{IP: net.IPv4(127, 0, 0, 1), Port: aa.LocalAddr().(*net.UDPAddr).Port + 1})
		if err != nil {
			aa.Close()
			continue
		}
		a, c = aa, cc
	}
	if c == nil {
		panic("no consecutive UDP port pair")
	}
	go func() {
		buf := make([]byte, 4096)
		for {
			n, addr, err := a.ReadFromUDP(buf)
			if err != nil {
				return
			}
			p, err := radius.Parse(append([]byte(nil), buf[:n]...), []byte(secret))
			if err != nil || p.Code != radius.CodeAccessRequest {
				continue
			}
			code := radius.CodeAccessReject
			if rfc2865.UserPassword_GetString(p) == "good" {
				code = radius.CodeAccessAccept
			}
			if b, err := p.Response(code).Encode(); err == nil {
				a.WriteToUDP(b, addr)
			}
		}
	}()
	s := &acctSrv{conn: c, seen: map[string]bool{}}
	go func() {
		buf := make([]byte, 4096)
		for {
			n, addr, err := c.ReadFromUDP(buf)
			if err != nil {
				return
			}
			p, err := radius.Parse(append([]byte(nil), buf[:n]...), []byte(secret))
			if err != nil || p.Code != radius.CodeAccountingRequest {
				continue
			}
			key := fmt.Sprintf("%d/%x", p.Identifier, p.Authenticator[:])
			var g *gate
			s.mu.Lock()
			if !s.seen[key] { // a retransmission is the same record
				s.seen[key] = true
				kind := uint64(rfc2866.AcctStatusType_Get(p))
				s.recs = append(s.recs, acctRec{kind, rfc2866.AcctSessionID_GetString(p)})
				if kind == 2 && s.onStop != nil {
					g = s.onStop()
				}
			}
			s.mu.Unlock()
			if b, err := p.Response(radius.CodeAccountingResponse).Encode(); err == nil {
				if g != nil {
					close(g.entered)
					go func() { <-g.open; c.WriteToUDP(b, addr) }()
					continue
				}
				c.WriteToUDP(b, addr)
			}
		}
	}()
	return s
}

func (s *acctSrv) authPort() int { return s.conn.LocalAddr().(*net.UDPAddr).Port - 1 }

func (s *acctSrv) take() []acctRec {
	s.mu.Lock()
	defer s.mu.Unlock()
	r := s.recs
	s.recs = nil
	return r
}

func (s *acctSrv) client() *bngradius.Client {
	rc, err := bngradius.NewClient(bngradius.ClientConfig{
		Servers: []bngradius.ServerConfig{{Host: "127.0.0.1", Port: s.authPort(), Secret: secret}},
		NASID:   "verif", Timeout: 3 * time.Second, Retries: 1,
		RateLimit: bngradius.RateLimitConfig{RequestsPerSecond: 1e6, BurstSize: 100000}}, zap.NewNop())
	must(err)
	return rc
}

// quiesce waits until the goroutines the operation started (Accounting-Start/Stop senders) are gone.
func quiesce(base int) {
	deadline := time.Now().Add(10 * time.Second)
	for runtime.NumGoroutine() > base {
		if time.Now().After(deadline) {
			fmt.Fprintln(os.Stderr, "c16: goroutines did not drain:", runtime.NumGoroutine(), ">", base)
			os.Exit(3)
		}
		time.Sleep(100 * time.Microsecond)
	}
}

// ---------------------------------------------------------------- kernel maps

type kenv struct {
	kernel         bool
	dhcp, nat, qos *bpfrun.Object
	acct           *acctSrv
	base           int                  // goroutines of the idle process (accounting server running, no world)
	full           map[string]*ebpf.Map // fault injection: one-slot stand-ins whose slot is taken (see fullMap)
}

// faultMaps numbers the kernel maps a fault can be injected into (DCfg.Full, Model c_full).
var faultMaps = map[int]string{1: "subscriber_pools", 2: "circuit_id_map", 3: "circuit_id_subscribers", 4: "qos_egress", 5: "qos_ingress", 6: "subscriber_nat"}

func (e *kenv) objOf(name string) *bpfrun.Object {
	switch name {
	case "qos_egress", "qos_ingress":
		return e.qos
	case "subscriber_nat":
		return e.nat
	}
	return e.dhcp
}

func isDummyKey(k []byte) bool {
	for _, b := range k {
		if b != 0xff {
			return false
		}
	}
	return true
}

// fullMap returns a kernel hash map with the key and value size of the named map, one slot, and that
// slot taken by a dummy key (all 0xff): the state of a production map that has reached max_entries.
func (e *kenv) fullMap(name string) *ebpf.Map {
	if m := e.full[name]; m != nil {
		return m
	}
	ks, vs, ok := e.objOf(name).Sizes(name)
	if !ok {
		panic("no such map " + name)
	}
	m, err := ebpf.NewMap(&ebpf.MapSpec{Name: fmt.Sprintf("c16full%d", len(e.full)), Type: ebpf.Hash, KeySize: ks, ValueSize: vs, MaxEntries: 1})
	must(err)
	if e.full == nil {
		e.full = map[string]*ebpf.Map{}
	}
	e.full[name] = m
	return m
}

func resetFull(m *ebpf.Map) {
	for _, kv := range dumpRaw(m) {
		if !isDummyKey(kv.Key) {
			must(m.Delete(kv.Key))
		}
	}
	must(m.Put(bytes.Repeat([]byte{0xff}, int(m.KeySize())), make([]byte, m.ValueSize())))
}

func dumpRaw(m *ebpf.Map) []bpfrun.KV {
	var out []bpfrun.KV
	var k, v []byte
	it := m.Iterate()
	for it.Next(&k, &v) {
		out = append(out, bpfrun.KV{Key: append([]byte(nil), k...), Value: append([]byte(nil), v...)})
	}
	must(it.Err())
	sort.Slice(out, func(i, j int) bool { return bytes.Compare(out[i].Key, out[j].Key) < 0 })
	return out
}

var dhcpMaps = []string{"subscriber_pools", "vlan_subscriber_pools", "circuit_id_map", "circuit_id_subscribers"}

func loadObj(dir, name string) *bpfrun.Object {
	p := filepath.Join(dir, name+".o")
	if _, err := os.Stat(p); err != nil {
		fmt.Fprintln(os.Stderr, "c16 driver:", name+".c did not compile for the BPF target (see build.log in", dir, ")")
		os.Exit(4)
	}
	o, err := bpfrun.LoadObject(p)
	must(err)
	return o
}

func newKenv() *kenv {
	e := &kenv{acct: startAcct()}
	dir, err := bpfrun.Dir()
	must(err)
	e.dhcp, e.nat, e.qos = loadObj(dir, "dhcp_fastpath"), loadObj(dir, "nat44"), loadObj(dir, "qos_ratelimit")
	e.kernel = e.dhcp.KernelBPF && e.dhcp.Coll != nil && e.nat.Coll != nil && e.qos.Coll != nil
	if !e.kernel {
		fmt.Fprintln(os.Stderr, "c16 driver: kernel maps unavailable:", e.dhcp.LoadErr, e.nat.LoadErr, e.qos.LoadErr)
	}
	time.Sleep(20 * time.Millisecond)
	e.base = runtime.NumGoroutine()
	return e
}

func (e *kenv) clear() {
	if !e.kernel {
		return
	}
	for _, m := range dhcpMaps {
		must(e.dhcp.Clear(m))
	}
	must(e.nat.Clear("subscriber_nat"))
	must(e.qos.Clear("qos_egress"))
	must(e.qos.Clear("qos_ingress"))
}

// ---------------------------------------------------------------- one world

var netBase = net.IPv4(10, 16, 0, 0).To4()

// ipNum numbers an address by its offset in the pool network (small literals keep the case files
// cheap to parse); an address outside 10.16.0.0/16 keeps its 32-bit value; nil is 0.
func ipNum(ip net.IP) uint64 {
	v4 := ip.To4()
	if v4 == nil {
		return 0
	}
	v, b := uint64(binary.BigEndian.Uint32(v4)), uint64(binary.BigEndian.Uint32(netBase))
	if v >= b && v < b+65536 {
		return v - b
	}
	return v
}
func keyNum(k uint64) uint64 { // a 32-bit map key holding an address
	b := uint64(binary.BigEndian.Uint32(netBase))
	if k >= b && k < b+65536 {
		return k - b
	}
	return k
}
func hostIP(n int) net.IP {
	ip := make(net.IP, 4)
	binary.BigEndian.PutUint32(ip, binary.BigEndian.Uint32(netBase)+uint32(n))
	return ip
}
func cliMAC(i int) net.HardwareAddr { return net.HardwareAddr{0x02, 0, 0, 0, 0, byte(i + 1)} }
func macNum(m []byte) uint64 {
	if len(m) == 6 && m[0] == 2 && m[1] == 0 && m[2] == 0 && m[3] == 0 && m[4] == 0 {
		return uint64(m[5])
	}
	var v uint64
	for _, b := range m {
		v = v<<8 | uint64(b)
	}
	return 1<<48 | v
}
func cidBytes(k int) []byte { return []byte(fmt.Sprintf("olt1/1/%d", k)) }

const maxCid = 9

func cidNumBytes(b []byte) uint64 {
	for k := 1; k <= maxCid; k++ {
		if bytes.Equal(b, cidBytes(k)) {
			return uint64(k)
		}
	}
	if len(b) == 0 {
		return 0
	}
	return 900000
}

type dworld struct {
	e       *kenv
	c       DCfg
	srv     *dhcp.Server
	natm    *nat.Manager
	qosm    *qos.Manager
	offered map[int]net.IP
	sids    map[string]uint64
	base    int
	nhosts  int
	maps    map[string]*ebpf.Map // the kernel map behind each name in this world (the object's, or a full stand-in)
}

// mp returns the kernel map this world's managers were given for name.
func (w *dworld) mp(name string) *ebpf.Map { return w.maps[name] }

// dump returns the entries of the world's map, without the dummy entry of a full stand-in.
func (w *dworld) dump(name string) []bpfrun.KV {
	var out []bpfrun.KV
	for _, kv := range dumpRaw(w.mp(name)) {
		if !isDummyKey(kv.Key) {
			out = append(out, kv)
		}
	}
	return out
}

func (e *kenv) newDWorld(c DCfg) *dworld {
	w := &dworld{e: e, c: c, offered: map[int]net.IP{}, sids: map[string]uint64{}, maps: map[string]*ebpf.Map{}}
	e.clear()
	e.acct.take()
	lg := zap.NewNop()
	loader, err := bngebpf.NewLoader("verif0", lg)
	must(err)
	if e.kernel {
		for _, n := range append([]string{"qos_egress", "qos_ingress", "subscriber_nat"}, dhcpMaps...) {
			w.maps[n] = e.objOf(n).Map(n)
		}
		for _, k := range c.Full {
			n, ok := faultMaps[k]
			if !ok {
				panic(fmt.Sprintf("bad fault map %d", k))
			}
			w.maps[n] = e.fullMap(n)
			resetFull(w.maps[n])
		}
		loader.VerifInjectDHCPMaps(bngebpf.VerifDHCPMaps{
			SubscriberPools: w.mp("subscriber_pools"), VLANSubscriberPools: w.mp("vlan_subscriber_pools"),
			IPPools: e.dhcp.Map("ip_pools"), Stats: e.dhcp.Map("stats_map"), ServerConfig: e.dhcp.Map("server_config"),
			CircuitIDMap: w.mp("circuit_id_map"), CircuitIDSubscribers: w.mp("circuit_id_subscribers")})
	}
	pm := dhcp.NewPoolManager(loader, lg)
	p, err := dhcp.NewPool(dhcp.PoolConfig{ID: 1, Name: "p1", Network: fmt.Sprintf("%s/%d", netBase, c.Bits), Gateway: hostIP(1).String(),
		DNSServers: []string{"192.0.2.53"}, LeaseTime: time.Duration(c.LeaseSec) * time.Second, ClientClass: dhcp.ClientClassResidential})
	must(err)
	must(pm.AddPool(p))
	w.nhosts = 1 << (32 - c.Bits)
	w.srv, err = dhcp.NewServer(dhcp.ServerConfig{Interface: "verif0", ServerIP: net.IPv4(192, 0, 2, 1)}, loader, pm, lg)
	must(err)
	if c.Qos {
		pol := bngradius.NewPolicyManager()
		pol.LoadDefaultPolicies() // so that the default policy "residential-100mbps" of handleRequest exists
		w.qosm, err = qos.NewManager(qos.ManagerConfig{Interface: "verif0"}, pol, lg)
		must(err)
		if e.kernel {
			w.qosm.VerifInjectMaps(w.mp("qos_egress"), w.mp("qos_ingress"), e.qos.Map("qos_stats_map"))
		}
		w.srv.SetQoSManager(w.qosm)
	}
	if c.Nat {
		w.natm, err = nat.NewManager(nat.ManagerConfig{Interface: "verif0", PortsPerSubscriber: 64, PortRangeStart: 1024,
			PortRangeEnd: 1024 + 64*c.NatBlocks - 1}, lg)
		must(err)
		if e.kernel {
			w.natm.VerifInjectMaps(nat.VerifNATMaps{SubscriberNAT: w.mp("subscriber_nat"), NATSessions: e.nat.Map("nat_sessions"),
				NATReverse: e.nat.Map("nat_reverse"), NATPool: e.nat.Map("nat_pool"), NATStats: e.nat.Map("nat_stats_map"),
				NATConfig: e.nat.Map("nat_config_map"), EIMTable: e.nat.Map("eim_table"), HairpinIPs: e.nat.Map("hairpin_ips"),
				ALGPorts: e.nat.Map("alg_ports"), NATLogRB: e.nat.Map("nat_log_rb")})
		}
		must(w.natm.AddPublicIP(net.IPv4(203, 0, 113, 7)))
		w.srv.SetNATManager(w.natm)
	}
	if c.Radius {
		w.srv.SetRADIUSClient(e.acct.client())
	}
	// leftovers of the previous world (a PPPoE receive loop winding down) must be gone before this
	// world's quiescence test means anything: the baseline is the idle process, not "now"
	quiesce(e.base)
	w.base = e.base
	return w
}

func u32le(b []byte) uint64 { return keyNum(uint64(binary.LittleEndian.Uint32(b))) }

func pairsCoq(m map[uint64]string) string {
	ks := make([]uint64, 0, len(m))
	for k := range m {
		ks = append(ks, k)
	}
	sort.Slice(ks, func(i, j int) bool { return ks[i] < ks[j] })
	var l []string
	for _, k := range ks {
		l = append(l, vh.Pair(vh.N(k), m[k]))
	}
	return vh.List(l)
}
func setCoq(m map[uint64]bool) string {
	ks := make([]uint64, 0, len(m))
	for k := range m {
		ks = append(ks, k)
	}
	sort.Slice(ks, func(i, j int) bool { return ks[i] < ks[j] })
	var l []string
	for _, k := range ks {
		l = append(l, vh.N(k))
	}
	return vh.List(l)
}

const poison = 4000000000 // an inconsistency between a manager's table and its kernel map shows as this member

// snapshot returns the Coq arguments "alloc avail unavail leases bycid nat(manager) nat(kernel) qos_egress qos_ingress qos_tracked cmac chash csub cvlan".
func (w *dworld) snapshot() (dhcp.VerifC02Snapshot, string) {
	sn := w.srv.VerifC02Snapshot(1)
	now := time.Now()
	al, le, bc := map[uint64]string{}, map[uint64]string{}, map[uint64]string{}
	for m, ip := range sn.Allocated {
		hw, _ := net.ParseMAC(m)
		al[macNum(hw)] = vh.N(ipNum(ip))
	}
	var av []string
	for _, ip := range sn.Available {
		av = append(av, vh.N(ipNum(ip)))
	}
	un := map[uint64]bool{}
	for _, k := range sn.Unavailable {
		if ip := net.ParseIP(k); ip != nil { // "<nil>" (DECLINE without option 50) is not an address
			un[ipNum(ip)] = true
		}
	}
	for _, l := range sn.Leases {
		hw, _ := net.ParseMAC(l.MAC)
		le[macNum(hw)] = fmt.Sprintf("(%d, %d, %s)", ipNum(l.IP), cidNumBytes(l.CircuitID), vh.Bool(l.ExpiresAt.Before(now)))
	}
	for k, l := range sn.ByCircuitID {
		kb, _ := hex.DecodeString(k)
		hw, _ := net.ParseMAC(l.MAC)
		bc[cidNumBytes(kb)] = vh.Pair(vh.N(macNum(hw)), vh.N(ipNum(l.IP)))
	}
	nt, nk, qs, qi, qt := map[uint64]bool{}, map[uint64]bool{}, map[uint64]bool{}, map[uint64]bool{}, map[uint64]bool{}
	cm, ch, cs, cv := map[uint64]string{}, map[uint64]string{}, map[uint64]string{}, map[uint64]string{}
	if w.natm != nil {
		for n := 0; n < w.nhosts; n++ {
			if w.natm.GetAllocation(hostIP(n)) != nil {
				nt[ipNum(hostIP(n))] = true
			}
		}
		if w.natm.GetAllocationCount() != len(nt) {
			nt[poison] = true
		}
	}
	if w.qosm != nil {
		for _, ip := range w.qosm.VerifC16Tracked() {
			qt[ipNum(ip)] = true
		}
		if w.qosm.GetSubscriberCount() != len(qt) {
			qt[poison] = true
		}
	}
	if w.e.kernel {
		for _, e := range w.dump("subscriber_nat") {
			nk[u32le(e.Key)] = true
		}
		for _, e := range w.dump("qos_egress") {
			qs[u32le(e.Key)] = true
		}
		for _, e := range w.dump("qos_ingress") {
			qi[u32le(e.Key)] = true
		}
		d := w.dump
		for _, e := range d("subscriber_pools") {
			m := make([]byte, 8)
			binary.BigEndian.PutUint64(m, binary.LittleEndian.Uint64(e.Key))
			cm[macNum(m[2:])] = vh.N(u32le(e.Value[4:8]))
		}
		for _, e := range d("vlan_subscriber_pools") {
			cv[uint64(binary.LittleEndian.Uint32(e.Key))] = vh.N(u32le(e.Value[4:8]))
		}
		for _, e := range d("circuit_id_map") {
			h := binary.LittleEndian.Uint64(e.Key)
			k := uint64(900000)
			for c := 1; c <= maxCid; c++ {
				if bngebpf.HashCircuitID(cidBytes(c)) == h {
					k = uint64(c)
				}
			}
			m := make([]byte, 8)
			binary.BigEndian.PutUint64(m, binary.LittleEndian.Uint64(e.Value))
			ch[k] = vh.N(macNum(m[2:]))
		}
		for _, e := range d("circuit_id_subscribers") {
			k := uint64(900000)
			for c := 1; c <= maxCid; c++ {
				key := bngebpf.MakeCircuitIDKey(cidBytes(c))
				if bytes.Equal(key[:], e.Key) {
					k = uint64(c)
				}
			}
			cs[k] = vh.N(u32le(e.Value[4:8]))
		}
	}
	return sn, fmt.Sprintf("%s %s %s %s %s %s %s %s %s %s %s %s %s %s", pairsCoq(al), vh.List(av), setCoq(un), pairsCoq(le), pairsCoq(bc),
		setCoq(nt), setCoq(nk), setCoq(qs), setCoq(qi), setCoq(qt), pairsCoq(cm), pairsCoq(ch), pairsCoq(cs), pairsCoq(cv))
}

func sameSet(a, b map[uint64]bool) bool {
	if len(a) != len(b) {
		return false
	}
	for k := range a {
		if !b[k] {
			return false
		}
	}
	return true
}

var relayIP = net.IPv4(10, 200, 0, 1)
var peerAddr = &net.UDPAddr{IP: net.IPv4bcast, Port: 68}

func (w *dworld) msg(t dhcpv4.MessageType, o DOp, ip net.IP) *dhcpv4.DHCPv4 {
	req, err := dhcpv4.New(dhcpv4.WithMessageType(t), dhcpv4.WithHwAddr(cliMAC(o.C)))
	must(err)
	if ip != nil {
		req.UpdateOption(dhcpv4.OptRequestedIPAddress(ip))
	}
	if o.Relay {
		req.GatewayIPAddr = relayIP
	}
	var o82 []byte
	if o.Cid > 0 {
		cb := cidBytes(o.Cid)
		o82 = append([]byte{1, byte(len(cb))}, cb...)
	}
	if o.Rid {
		rb := []byte(fmt.Sprintf("cpe-%d", o.C))
		o82 = append(o82, append([]byte{2, byte(len(rb))}, rb...)...)
	}
	if o82 != nil {
		req.UpdateOption(dhcpv4.OptGeneric(dhcpv4.OptionRelayAgentInformation, o82))
	}
	return req
}

func (w *dworld) pickIP(o DOp) net.IP {
	switch {
	case o.IP > 0:
		return hostIP(o.IP)
	case o.IP < 0:
		return nil
	}
	return w.offered[o.C]
}

// apply runs one op on the real server and returns the Coq pair (op, out).
func (w *dworld) apply(o DOp, tags map[string]bool) string {
	var op string
	reply, rip := uint64(0), uint64(0)
	before := w.srv.VerifC02Snapshot(1)
	handle := func(req *dhcpv4.DHCPv4) {
		rs, _, err := w.srv.VerifC02Handle(req, peerAddr)
		must(err)
		if len(rs) > 0 {
			switch rs[0].MessageType() {
			case dhcpv4.MessageTypeOffer:
				reply, rip = 1, ipNum(rs[0].YourIPAddr)
				w.offered[o.C] = rs[0].YourIPAddr
			case dhcpv4.MessageTypeAck:
				reply, rip = 2, ipNum(rs[0].YourIPAddr)
				w.offered[o.C] = rs[0].YourIPAddr
			case dhcpv4.MessageTypeNak:
				reply = 3
			}
		}
	}
	switch o.K {
	case "disc":
		op = fmt.Sprintf("Discover %d %d %s", macNum(cliMAC(o.C)), o.Cid, vh.Bool(o.Relay))
		handle(w.msg(dhcpv4.MessageTypeDiscover, o, nil))
	case "req":
		ip := w.pickIP(o)
		op = fmt.Sprintf("Request %d %d %d %s", macNum(cliMAC(o.C)), ipNum(ip), o.Cid, vh.Bool(o.Relay))
		handle(w.msg(dhcpv4.MessageTypeRequest, o, ip))
	case "rel":
		op = fmt.Sprintf("Release %d", macNum(cliMAC(o.C)))
		handle(w.msg(dhcpv4.MessageTypeRelease, DOp{C: o.C}, nil))
	case "decl":
		ip := w.pickIP(o)
		op = fmt.Sprintf("Decline %d %d", macNum(cliMAC(o.C)), ipNum(ip))
		handle(w.msg(dhcpv4.MessageTypeDecline, DOp{C: o.C}, ip))
	case "age":
		op = fmt.Sprintf("Age %d%%Z", o.D)
		w.srv.VerifC02AgeLeases(time.Duration(o.D) * time.Second)
	case "tick":
		w.srv.VerifC02CleanupTick()
	case "flush":
		n, ok := faultMaps[o.M]
		if !ok {
			panic("bad flush map")
		}
		op = fmt.Sprintf("Flush %d", o.M)
		if w.e.kernel {
			for _, kv := range w.dump(n) {
				must(w.mp(n).Delete(kv.Key))
			}
		}
		tags["flush:"+n] = true
	default:
		panic("bad op " + o.K)
	}
	quiesce(w.base)
	var ev []string
	type evt struct{ k, sid uint64 }
	var evs []evt
	for _, r := range w.e.acct.take() {
		if _, ok := w.sids[r.sid]; !ok {
			w.sids[r.sid] = uint64(len(w.sids) + 1)
		}
		evs = append(evs, evt{r.kind, w.sids[r.sid]})
	}
	sort.Slice(evs, func(i, j int) bool {
		return evs[i].sid < evs[j].sid || (evs[i].sid == evs[j].sid && evs[i].k < evs[j].k)
	})
	for _, e := range evs {
		ev = append(ev, vh.Pair(vh.N(e.k), vh.N(e.sid)))
		tags[fmt.Sprintf("acct:%d", e.k)] = true
	}
	after, snap := w.snapshot()
	if o.K == "tick" {
		// oracle: the order in which cleanupExpiredLeases met the expired leases = order of the addresses
		// it appended to the free list
		var order []string
		if len(after.Available) >= len(before.Available) {
			for _, ip := range after.Available[min(len(before.Available), len(after.Available)):] {
				for _, l := range before.Leases {
					if l.IP.Equal(ip) {
						hw, _ := net.ParseMAC(l.MAC)
						order = append(order, vh.N(macNum(hw)))
					}
				}
			}
		}
		op = "Tick " + vh.List(order)
		if len(before.Leases) != len(after.Leases) {
			tags["expired-some"] = true
		}
	}
	tags["op:"+o.K] = true
	if o.Rid && (o.K == "disc" || o.K == "req") {
		if o.Cid == 0 {
			tags["opt82:remote-id-only"] = true
		} else {
			tags["opt82:circuit-id+remote-id"] = true
		}
	}
	return fmt.Sprintf("(%s, DO %d %d %s %s)", op, reply, rip, vh.List(ev), snap)
}

func (e *kenv) runDHCP(c DCase) vh.Case {
	w := e.newDWorld(c.Cfg)
	tags := map[string]bool{}
	var steps []string
	for _, o := range c.Ops {
		steps = append(steps, w.apply(o, tags))
	}
	var av []string
	for n := 2; n <= w.nhosts-2; n++ {
		av = append(av, vh.N(ipNum(hostIP(n))))
	}
	var fl []string
	for _, k := range c.Cfg.Full {
		fl = append(fl, vh.N(uint64(k)))
		tags[fmt.Sprintf("fault:full-%s", faultMaps[k])] = true
	}
	cfg := fmt.Sprintf("DC %d %d %s %d%%Z %s %s %s %d %s %s", ipNum(hostIP(0)), ipNum(hostIP(w.nhosts-1)), vh.List(av), c.Cfg.LeaseSec,
		vh.Bool(c.Cfg.Radius), vh.Bool(c.Cfg.Qos), vh.Bool(c.Cfg.Nat), c.Cfg.NatBlocks, vh.Bool(e.kernel), vh.List(fl))
	var tl []string
	for t := range tags {
		tl = append(tl, t)
	}
	tl = append(tl, fmt.Sprintf("cfg:radius=%v,qos=%v,nat=%v", c.Cfg.Radius, c.Cfg.Qos, c.Cfg.Nat))
	return vh.Case{Coq: "(" + cfg + ",\n [" + joinNL(steps) + "])", Desc: Wrap{W: "dhcp", D: &c}, Tags: tl}
}

func joinNL(l []string) string {
	var b bytes.Buffer
	for i, s := range l {
		if i > 0 {
			b.WriteString(";\n  ")
		}
		b.WriteString(s)
	}
	return b.String()
}

// ---------------------------------------------------------------- generators

var dEnds = []string{"rel", "decl-own", "decl-other", "decl-none", "expire"}

func endOps(kind string, c int, lease int) []DOp {
	switch kind {
	case "rel":
		return []DOp{{K: "rel", C: c}}
	case "decl-own":
		return []DOp{{K: "decl", C: c}}
	case "decl-other":
		return []DOp{{K: "decl", C: c, IP: 6}}
	case "decl-none":
		return []DOp{{K: "decl", C: c, IP: -1}}
	case "expire":
		return []DOp{{K: "age", D: lease + 600}, {K: "tick"}}
	}
	return nil
}

// enumPaths: every configuration x establishment prefix x (own circuit-id or none, relayed or not) x
// ending path x second ending path, followed by a second client taking an address.
func enumPaths(all bool) []DCase {
	var out []DCase
	cfgs := []DCfg{{Radius: true, Qos: true, Nat: true, NatBlocks: 4, Bits: 28, LeaseSec: 3600}}
	if all {
		cfgs = append(cfgs, DCfg{Radius: false, Qos: true, Nat: true, NatBlocks: 4, Bits: 28, LeaseSec: 3600},
			DCfg{Radius: true, Qos: false, Nat: true, NatBlocks: 1, Bits: 29, LeaseSec: 600},
			DCfg{Radius: true, Qos: true, Nat: false, Bits: 29, LeaseSec: 86400},
			DCfg{Bits: 28, LeaseSec: 3600})
	}
	for _, cfg := range cfgs {
		for prefix := 0; prefix <= 3; prefix++ { // 0 nothing, 1 DISCOVER, 2 +REQUEST, 3 +renewing REQUEST
			for cid := 0; cid <= 1; cid++ {
				for relay := 0; relay <= cid; relay++ {
					for _, e1 := range dEnds {
						for _, e2 := range append([]string{""}, dEnds...) {
							var ops []DOp
							base := DOp{C: 0, Cid: cid, Relay: relay == 1}
							if prefix >= 1 {
								o := base
								o.K = "disc"
								ops = append(ops, o)
							}
							for i := 2; i <= prefix; i++ {
								o := base
								o.K = "req"
								ops = append(ops, o)
							}
							ops = append(ops, endOps(e1, 0, cfg.LeaseSec)...)
							ops = append(ops, endOps(e2, 0, cfg.LeaseSec)...)
							ops = append(ops, DOp{K: "disc", C: 1}, DOp{K: "req", C: 1}, DOp{K: "rel", C: 1})
							out = append(out, DCase{Cfg: cfg, Ops: ops})
						}
					}
				}
			}
		}
	}
	return out
}

// dRenewals: what the renewing REQUEST of a client that obtained its lease through a relay with Circuit-ID 1
// carries. The lease's circuit-id state must still be found and removed by whatever path ends the session.
var dRenewals = map[string]DOp{
	"same":        {K: "req", Cid: 1, Relay: true},            // full option 82 again
	"same+rid":    {K: "req", Cid: 1, Relay: true, Rid: true}, // Circuit-ID and Remote-ID
	"none":        {K: "req"},                                 // unicast renewal, no option 82
	"rid-only":    {K: "req", Relay: true, Rid: true},         // relay information without a Circuit-ID sub-option
	"rid-only-uc": {K: "req", Rid: true},                      // the same, not relayed (giaddr 0)
	"moved":       {K: "req", Cid: 2, Relay: true},            // the client is now behind another circuit
	"moved+rid":   {K: "req", Cid: 2, Relay: true, Rid: true},
}
var dRenewalKinds = []string{"same", "same+rid", "none", "rid-only", "rid-only-uc", "moved", "moved+rid"}

// enumRenewals: lease through a relay with Circuit-ID x first renewal x second renewal (or none) x ending
// path; then a new CPE appears on circuit 1 (and on circuit 2) and must be treated as a new client.
func enumRenewals() []DCase {
	var out []DCase
	cfg := DCfg{Radius: true, Qos: true, Nat: true, NatBlocks: 4, Bits: 28, LeaseSec: 3600}
	for _, first := range []int{1, 0} { // lease obtained with / without a circuit-id
		for _, r1 := range dRenewalKinds {
			for _, r2 := range append([]string{""}, "same", "none", "rid-only", "moved") {
				for _, e1 := range dEnds {
					if first == 0 && (r2 != "" || e1 == "decl-other" || e1 == "decl-none") {
						continue
					}
					ops := []DOp{{K: "disc", Cid: first, Relay: first == 1}, {K: "req", Cid: first, Relay: first == 1}}
					ops = append(ops, dRenewals[r1])
					if r2 != "" {
						ops = append(ops, dRenewals[r2])
					}
					ops = append(ops, endOps(e1, 0, cfg.LeaseSec)...)
					ops = append(ops, DOp{K: "disc", C: 1, Cid: 1, Relay: true}, DOp{K: "req", C: 1, Cid: 1, Relay: true},
						DOp{K: "disc", C: 2, Cid: 2, Relay: true}, DOp{K: "req", C: 2, Cid: 2, Relay: true}, DOp{K: "rel", C: 1}, DOp{K: "rel", C: 2})
					out = append(out, DCase{Cfg: cfg, Ops: ops})
				}
			}
		}
	}
	return out
}

// enumFaults: every kernel map the teardown depends on is full while the session is established (so the
// write of its entry fails and the installation is left half done), then the session ends by every path and
// a second client takes an address under the same fault.
var dFaultSets = [][]int{{1}, {2}, {3}, {4}, {5}, {6}, {4, 5}, {2, 3}, {1, 5, 6}}

func enumFaults() []DCase {
	var out []DCase
	for _, fs := range dFaultSets {
		for prefix := 2; prefix <= 3; prefix++ {
			for _, e1 := range dEnds {
				cfg := DCfg{Radius: true, Qos: true, Nat: true, NatBlocks: 4, Bits: 28, LeaseSec: 3600, Full: fs}
				ops := []DOp{{K: "disc", Cid: 1, Relay: true}}
				for i := 2; i <= prefix; i++ {
					ops = append(ops, DOp{K: "req", Cid: 1, Relay: true})
				}
				ops = append(ops, endOps(e1, 0, cfg.LeaseSec)...)
				ops = append(ops, DOp{K: "disc", C: 1, Cid: 2, Relay: true}, DOp{K: "req", C: 1, Cid: 2, Relay: true}, DOp{K: "rel", C: 1}, DOp{K: "rel", C: 0})
				out = append(out, DCase{Cfg: cfg, Ops: ops})
			}
		}
	}
	return out
}

// enumWindow: the owner comes back around the expiry of its lease, BEFORE the reaper's next pass: time step
// just short of / just past the lease time x {REQUEST, DISCOVER, DISCOVER+REQUEST, nothing} x reaper tick x
// ending path x final ticks; then a second client. (The exact instant of expiry is not generated: real time
// passes between the operations.)
func enumWindow() []DCase {
	var out []DCase
	cfg := DCfg{Radius: true, Qos: true, Nat: true, NatBlocks: 4, Bits: 28, LeaseSec: 3600}
	for cid := 0; cid <= 1; cid++ {
		for _, d := range []int{cfg.LeaseSec - 40, cfg.LeaseSec + 40} {
			for _, act := range []string{"req", "disc", "disc+req", "req-noopt", ""} {
				for _, e1 := range []string{"rel", "expire", "decl-own", "none"} {
					base := DOp{Cid: cid, Relay: cid == 1}
					mk := func(k string) DOp { o := base; o.K = k; return o }
					ops := []DOp{mk("disc"), mk("req"), {K: "age", D: d}}
					switch act {
					case "req":
						ops = append(ops, mk("req"))
					case "disc":
						ops = append(ops, mk("disc"))
					case "disc+req":
						ops = append(ops, mk("disc"), mk("req"))
					case "req-noopt":
						ops = append(ops, DOp{K: "req"})
					}
					ops = append(ops, DOp{K: "tick"})
					ops = append(ops, endOps(e1, 0, cfg.LeaseSec)...)
					ops = append(ops, DOp{K: "age", D: cfg.LeaseSec + 600}, DOp{K: "tick"}, DOp{K: "tick"},
						DOp{K: "disc", C: 1}, DOp{K: "req", C: 1}, DOp{K: "rel", C: 1})
					out = append(out, DCase{Cfg: cfg, Ops: ops})
				}
			}
		}
	}
	return out
}

// enumFlush: a kernel map loses its entries behind the managers' back (datapath reload, operator flush)
// while the session is up; then the session ends by every path, ends again, and a second client comes.
func enumFlush() []DCase {
	var out []DCase
	cfg := DCfg{Radius: true, Qos: true, Nat: true, NatBlocks: 2, Bits: 28, LeaseSec: 3600}
	for m := 1; m <= 6; m++ {
		for renew := 0; renew <= 1; renew++ {
			for _, e1 := range dEnds {
				ops := []DOp{{K: "disc", Cid: 1, Relay: true}, {K: "req", Cid: 1, Relay: true}, {K: "flush", M: m}}
				if renew == 1 {
					ops = append(ops, DOp{K: "req", Cid: 1, Relay: true})
				}
				ops = append(ops, endOps(e1, 0, cfg.LeaseSec)...)
				ops = append(ops, DOp{K: "rel", C: 0}, DOp{K: "disc", C: 1}, DOp{K: "req", C: 1}, DOp{K: "disc", C: 2}, DOp{K: "req", C: 2}, DOp{K: "rel", C: 1}, DOp{K: "rel", C: 2})
				out = append(out, DCase{Cfg: cfg, Ops: ops})
			}
		}
	}
	return out
}

func randDCfg(r *vh.Rng) DCfg {
	c := DCfg{Radius: r.Chance(4, 5), Qos: r.Chance(4, 5), Nat: r.Chance(4, 5), NatBlocks: 1 + r.Intn(4), Bits: 28 + r.Intn(2), LeaseSec: []int{600, 3600, 86400}[r.Intn(3)]}
	if r.Chance(1, 4) { // fault injection: one or two kernel maps are full
		c.Full = []int{1 + r.Intn(6)}
		if k := 1 + r.Intn(6); r.Chance(1, 2) && k != c.Full[0] {
			c.Full = append(c.Full, k)
		}
		sort.Ints(c.Full)
	}
	return c
}

// genRandD: several clients establish, end by every path, end again, re-establish. guarded = inside the
// guard of the theorems (own circuit-id only, DECLINE names the client's leased address, ending
// operations only for established sessions).
func genRandD(r *vh.Rng, maxOps int, guarded bool) DCase {
	c := DCase{Cfg: randDCfg(r)}
	ncli := 2 + r.Intn(3)
	n := 4 + r.Intn(maxOps)
	est := map[int]int{} // client -> 0 none, 1 offered, 2 leased (generator's guess; exactness is not needed)
	cidOf := func(cl int) int {
		if r.Chance(1, 2) {
			return cl + 1
		}
		return 0
	}
	for i := 0; i < n; i++ {
		cl := r.Intn(ncli)
		cid := cidOf(cl)
		relay := cid > 0 && r.Chance(1, 2)
		if !guarded && r.Chance(1, 12) {
			cid = 1 + r.Intn(ncli) // another client's circuit
			relay = r.Chance(2, 3)
		}
		rid := r.Chance(1, 5) // relay information with a Remote-ID (when cid == 0: without a Circuit-ID)
		if r.Chance(1, 10) {
			cid = 5 + cl // the client's second circuit (it moved; nobody else uses it)
			relay = true
		}
		switch x := r.Intn(20); {
		case x < 4:
			c.Ops = append(c.Ops, DOp{K: "disc", C: cl, Cid: cid, Relay: relay, Rid: rid})
			if est[cl] == 0 {
				est[cl] = 1
			}
		case x < 9:
			if est[cl] == 0 {
				c.Ops = append(c.Ops, DOp{K: "disc", C: cl, Cid: cid, Relay: relay, Rid: rid})
			}
			o := DOp{K: "req", C: cl, Cid: cid, Relay: relay, Rid: rid}
			if !guarded && r.Chance(1, 10) {
				o.IP = 2 + r.Intn(6)
			}
			c.Ops = append(c.Ops, o)
			est[cl] = 2
		case x < 12:
			if guarded && est[cl] != 2 {
				continue
			}
			c.Ops = append(c.Ops, DOp{K: "rel", C: cl})
			if r.Chance(1, 3) && !guarded {
				c.Ops = append(c.Ops, DOp{K: "rel", C: cl})
			}
			est[cl] = 0
		case x < 15:
			if guarded && est[cl] != 2 {
				continue
			}
			o := DOp{K: "decl", C: cl}
			if !guarded {
				switch r.Intn(4) {
				case 0:
					o.IP = 2 + r.Intn(6)
				case 1:
					o.IP = -1
				}
			}
			c.Ops = append(c.Ops, o)
			est[cl] = 0
		case x < 18:
			d := c.Cfg.LeaseSec + 300 + r.Intn(1000)
			if r.Chance(1, 3) {
				d = c.Cfg.LeaseSec/3 + 17
			}
			c.Ops = append(c.Ops, DOp{K: "age", D: d})
			if r.Chance(1, 2) { // somebody comes back before the reaper's pass (after expiry: the window)
				k := "req"
				if r.Chance(1, 3) {
					k = "disc"
				}
				c.Ops = append(c.Ops, DOp{K: k, C: cl, Cid: cid, Relay: relay, Rid: rid})
			}
			c.Ops = append(c.Ops, DOp{K: "tick"})
			if d > c.Cfg.LeaseSec {
				for k := range est {
					if est[k] == 2 {
						est[k] = 0
					}
				}
			}
		default:
			if r.Chance(1, 2) {
				c.Ops = append(c.Ops, DOp{K: "flush", M: 1 + r.Intn(6)})
			} else {
				c.Ops = append(c.Ops, DOp{K: "tick"})
			}
		}
	}
	return c
}
