// C16 stream "submgr": real subscriber.Manager with a harness AddressAllocator (free list; every
// ReleaseIPv4 call is recorded) and a scripted Authenticator; terminate events are recorded through
// OnEvent. Concurrent TerminateSession calls are forced into the window between the two critical
// sections by a barrier inside the allocator's ReleaseIPv4 (validation of the sequential model's oracle).
package main

import (
	"context"
	"fmt"
	"net"
	"sort"
	"sync"
	"time"

	"verifharness/vh"

	"github.com/codelaboratoryltd/bng/pkg/subscriber"
	"go.uber.org/zap"
)

type SCfg struct {
	Addrs      int `json:"addrs"`       // size of the allocator's free list
	SessionSec int `json:"session_sec"` // DefaultSessionTimeout (0 = none)
	IdleSec    int `json:"idle_sec"`    // DefaultIdleTimeout (0 = none)
}

// SOp: K = create | auth | assign | activate | term | age | tick | race | stop. N: session ordinal.
type SOp struct {
	K  string `json:"k"`
	C  int    `json:"c,omitempty"`
	N  int    `json:"n,omitempty"`
	OK bool   `json:"ok,omitempty"`
	D  int    `json:"d,omitempty"`
	P  int    `json:"p,omitempty"` // race: number of concurrent callers
	// Ctx (auth, assign, term): the context handed to the Manager: 0 live, 1 already cancelled, 2 deadline already expired
	Ctx int `json:"ctx,omitempty"`
	// RelFail (term): the allocator's ReleaseIPv4 returns an error for this call (backend failure)
	RelFail bool `json:"rel_fail,omitempty"`
}

// mkCtx builds the caller's context of an op.
func mkCtx(mode int) (context.Context, context.CancelFunc) {
	switch mode {
	case 1:
		ctx, cancel := context.WithCancel(context.Background())
		cancel()
		return ctx, cancel
	case 2:
		return context.WithDeadline(context.Background(), time.Now().Add(-time.Hour))
	}
	return context.WithCancel(context.Background())
}

type SCase struct {
	Cfg SCfg  `json:"cfg"`
	Ops []SOp `json:"ops"`
}

type fakeAlloc struct {
	mu      sync.Mutex
	avail   []uint64
	alloc   map[uint64]bool
	events  *[][2]uint64
	evmu    *sync.Mutex
	relFail bool // the next ReleaseIPv4 fails (injected backend error)
	barrier int  // > 0: ReleaseIPv4 waits until this many callers are inside (or 150 ms)
	inside  int
	cond    *sync.Cond
}

func sIP(n uint64) net.IP { return net.IPv4(10, 48, 0, byte(n)).To4() }
func sIPNum(ip net.IP) uint64 {
	if v4 := ip.To4(); v4 != nil {
		return uint64(v4[3])
	}
	return 0
}

func (a *fakeAlloc) AllocateIPv4(ctx context.Context, s *subscriber.Session, poolID string) (net.IP, net.IPMask, net.IP, error) {
	// like a real (remote) allocator, this one honours the caller's context
	if err := ctx.Err(); err != nil {
		return nil, nil, nil, err
	}
	a.mu.Lock()
	defer a.mu.Unlock()
	if len(a.avail) == 0 {
		return nil, nil, nil, fmt.Errorf("pool exhausted")
	}
	n := a.avail[0]
	a.avail = a.avail[1:]
	a.alloc[n] = true
	return sIP(n), net.CIDRMask(24, 32), sIP(1), nil
}
func (a *fakeAlloc) AllocateIPv6(ctx context.Context, s *subscriber.Session, poolID string) (net.IP, *net.IPNet, error) {
	return nil, nil, fmt.Errorf("no IPv6")
}
func (a *fakeAlloc) ReleaseIPv4(ctx context.Context, ip net.IP) error {
	a.mu.Lock()
	if a.barrier > 0 {
		a.inside++
		a.cond.Broadcast()
		deadline := time.Now().Add(150 * time.Millisecond)
		t := time.AfterFunc(160*time.Millisecond, func() { a.mu.Lock(); a.cond.Broadcast(); a.mu.Unlock() })
		for a.inside < a.barrier && time.Now().Before(deadline) {
			a.cond.Wait()
		}
		t.Stop()
	}
	n := sIPNum(ip)
	// a done context or a backend error: nothing is released, the call fails (event 7)
	if err := ctx.Err(); err != nil || a.relFail {
		a.relFail = false
		a.mu.Unlock()
		a.evmu.Lock()
		*a.events = append(*a.events, [2]uint64{7, n})
		a.evmu.Unlock()
		if err == nil {
			err = fmt.Errorf("allocator backend unavailable")
		}
		return err
	}
	if a.alloc[n] {
		delete(a.alloc, n)
		a.avail = append(a.avail, n)
	}
	a.mu.Unlock()
	a.evmu.Lock()
	*a.events = append(*a.events, [2]uint64{5, n})
	a.evmu.Unlock()
	return nil
}
func (a *fakeAlloc) ReleaseIPv6(ctx context.Context, ip net.IP) error { return nil }

type fakeAuth struct{ ok bool }

func (f *fakeAuth) Authenticate(ctx context.Context, req *subscriber.SessionRequest) (*subscriber.AuthResult, error) {
	if err := ctx.Err(); err != nil { // a RADIUS round trip on a done context fails
		return nil, err
	}
	if f.ok {
		return &subscriber.AuthResult{Success: true, SubscriberID: "sub"}, nil
	}
	return &subscriber.AuthResult{Success: false, Error: "rejected"}, nil
}

type sworld struct {
	c      SCfg
	mgr    *subscriber.Manager
	al     *fakeAlloc
	au     *fakeAuth
	ids    map[string]uint64 // session UUID -> ordinal
	byOrd  map[uint64]string
	events [][2]uint64
	evmu   sync.Mutex
}

func newSWorld(c SCfg) *sworld {
	w := &sworld{c: c, ids: map[string]uint64{}, byOrd: map[uint64]string{}, au: &fakeAuth{}}
	w.al = &fakeAlloc{alloc: map[uint64]bool{}, events: &w.events, evmu: &w.evmu}
	w.al.cond = sync.NewCond(&w.al.mu)
	for i := 0; i < c.Addrs; i++ {
		w.al.avail = append(w.al.avail, uint64(2+i))
	}
	cfg := subscriber.DefaultManagerConfig()
	cfg.DefaultSessionTimeout = time.Duration(c.SessionSec) * time.Second
	cfg.DefaultIdleTimeout = time.Duration(c.IdleSec) * time.Second
	w.mgr = subscriber.NewManager(cfg, w.au, w.al, zap.NewNop())
	w.mgr.OnEvent(func(ev *subscriber.SessionEvent) {
		if ev.Type == subscriber.EventSessionTerminate {
			w.evmu.Lock()
			w.events = append(w.events, [2]uint64{6, w.ids[ev.SessionID]})
			w.evmu.Unlock()
		}
	})
	return w
}

var sStates = map[subscriber.SessionState]int{subscriber.StateInit: 0, subscriber.StateAuthenticating: 1, subscriber.StateAddressAssign: 2,
	subscriber.StateEstablishing: 3, subscriber.StateActive: 4, subscriber.StateWalledGarden: 5, subscriber.StateTerminating: 6, subscriber.StateTerminated: 7}

func (w *sworld) snapshot() string {
	now := time.Now()
	type row struct {
		n uint64
		s string
	}
	var rows []row
	for _, s := range w.mgr.ListSessions() {
		exp := (s.SessionTimeout > 0 && now.Sub(s.StartTime) > s.SessionTimeout) || (s.IdleTimeout > 0 && now.Sub(s.LastActivity) > s.IdleTimeout)
		rows = append(rows, row{w.ids[s.ID], fmt.Sprintf("(%d, (%d, %d, %d, %s))", w.ids[s.ID], macNum(s.MAC), sStates[s.State], sIPNum(s.IPv4), vh.Bool(exp))})
	}
	sort.Slice(rows, func(i, j int) bool { return rows[i].n < rows[j].n })
	var rs []string
	for _, r := range rows {
		rs = append(rs, r.s)
	}
	bm, bi := w.mgr.VerifC16Indexes()
	m1, m2 := map[uint64]string{}, map[uint64]string{}
	for k, v := range bm {
		hw, _ := net.ParseMAC(k)
		m1[macNum(hw)] = vh.N(w.ids[v])
	}
	for k, v := range bi {
		m2[sIPNum(net.ParseIP(k))] = vh.N(w.ids[v])
	}
	w.al.mu.Lock()
	var av []string
	for _, n := range w.al.avail {
		av = append(av, vh.N(n))
	}
	al := map[uint64]bool{}
	for n := range w.al.alloc {
		al[n] = true
	}
	w.al.mu.Unlock()
	return fmt.Sprintf("%s %s %s %s %s %d", vh.List(rs), pairsCoq(m1), pairsCoq(m2), vh.List(av), setCoq(al), w.mgr.Stats().TotalSessionsEnded)
}

func (w *sworld) apply(o SOp, tags map[string]bool) string {
	var op string
	errc := 0
	ctx := context.Background()
	octx, ocancel := mkCtx(o.Ctx)
	defer ocancel()
	w.events = nil
	id := w.byOrd[uint64(o.N)]
	if id == "" {
		id = fmt.Sprintf("no-such-session-%d", o.N)
	}
	chk := func(err error) {
		if err != nil {
			errc = 1
		}
	}
	switch o.K {
	case "create":
		op = fmt.Sprintf("SCreate %d", macNum(cliMAC(o.C)))
		s, err := w.mgr.CreateSession(ctx, &subscriber.SessionRequest{MAC: cliMAC(o.C), Type: subscriber.SessionTypeIPoE})
		chk(err)
		if err == nil {
			n := uint64(len(w.ids) + 1)
			w.ids[s.ID], w.byOrd[n] = n, s.ID
		}
	case "auth":
		op = fmt.Sprintf("SAuth %d %s %d", o.N, vh.Bool(o.OK), o.Ctx)
		w.au.ok = o.OK
		_, err := w.mgr.Authenticate(octx, id)
		chk(err)
	case "assign":
		op = fmt.Sprintf("SAssign %d %d", o.N, o.Ctx)
		chk(w.mgr.AssignAddress(octx, id, "pool4", ""))
	case "activate":
		op = fmt.Sprintf("SActivate %d", o.N)
		chk(w.mgr.ActivateSession(id))
	case "term":
		op = fmt.Sprintf("STerminate %d %d %s", o.N, o.Ctx, vh.Bool(o.RelFail))
		w.al.mu.Lock()
		w.al.relFail = o.RelFail
		w.al.mu.Unlock()
		chk(w.mgr.TerminateSession(octx, id, subscriber.TerminateAdminReset))
		w.al.mu.Lock()
		w.al.relFail = false
		w.al.mu.Unlock()
		if o.Ctx != 0 {
			tags[fmt.Sprintf("term-ctx:%d", o.Ctx)] = true
		}
		if o.RelFail {
			tags["term-relfail"] = true
		}
	case "age":
		op = fmt.Sprintf("SAge %d%%Z", o.D)
		w.mgr.VerifC16Age(time.Duration(o.D) * time.Second)
	case "tick":
		w.mgr.VerifC16CleanupTick()
		var order []string
		for _, e := range w.events {
			if e[0] == 6 {
				order = append(order, vh.N(e[1]))
			}
		}
		op = "STick " + vh.List(order)
	case "race":
		// o.P callers terminate the same session at once; the allocator holds each of them inside
		// ReleaseIPv4 until all have arrived, i.e. inside the window between TerminateSession's two
		// critical sections. r = how many got that far.
		w.al.mu.Lock()
		w.al.barrier, w.al.inside = o.P, 0
		w.al.mu.Unlock()
		var wg sync.WaitGroup
		errs := make([]error, o.P)
		for i := 0; i < o.P; i++ {
			wg.Add(1)
			go func(i int) {
				defer wg.Done()
				errs[i] = w.mgr.TerminateSession(ctx, id, subscriber.TerminateAdminReset)
			}(i)
		}
		wg.Wait()
		w.al.mu.Lock()
		w.al.barrier = 0
		w.al.mu.Unlock()
		r, okc := 0, 0
		for _, e := range w.events {
			if e[0] == 6 {
				r++
			}
		}
		for _, e := range errs {
			if e == nil {
				okc++
			}
		}
		if okc == 0 {
			errc = 1
		}
		if r > 1 {
			tags["race:double"] = true
		}
		op = fmt.Sprintf("SRace %d %d", o.N, r)
		// canonical event order of the model: first caller's release + event, then the others'
		var rel, term [][2]uint64
		for _, e := range w.events {
			if e[0] == 5 {
				rel = append(rel, e)
			} else {
				term = append(term, e)
			}
		}
		w.events = nil
		for i := range term {
			if i < len(rel) {
				w.events = append(w.events, rel[i])
			}
			w.events = append(w.events, term[i])
		}
	case "stop":
		op = "SStop"
		chk(w.mgr.Stop())
	default:
		panic("bad op " + o.K)
	}
	var ev []string
	for _, e := range w.events {
		ev = append(ev, vh.Pair(vh.N(e[0]), vh.N(e[1])))
	}
	tags["op:"+o.K] = true
	return fmt.Sprintf("(%s, SO %d %s %s)", op, errc, vh.List(ev), w.snapshot())
}

func runSubmgr(c SCase) vh.Case {
	w := newSWorld(c.Cfg)
	tags := map[string]bool{}
	var steps []string
	for _, o := range c.Ops {
		steps = append(steps, w.apply(o, tags))
	}
	var av []string
	for i := 0; i < c.Cfg.Addrs; i++ {
		av = append(av, vh.N(uint64(2+i)))
	}
	cfg := fmt.Sprintf("SC %s %d%%Z %d%%Z", vh.List(av), c.Cfg.SessionSec, c.Cfg.IdleSec)
	var tl []string
	for t := range tags {
		tl = append(tl, t)
	}
	return vh.Case{Coq: "(" + cfg + ",\n [" + joinNL(steps) + "])", Desc: Wrap{W: "submgr", D: &c}, Tags: tl}
}

// ---------------------------------------------------------------- generators

var sEstablish = []string{"create", "auth", "assign", "activate"}
var sEnds = []string{"term", "idle", "timeout", "stop"}

// ending attempts that may fail or be aborted: terminate on a cancelled / expired context, terminate
// while the allocator's release fails
var sAborts = []string{"term-cancelled", "term-deadline", "term-relfail", "term-cancelled-relfail"}

func sEndOps(kind string, n int, cfg SCfg) []SOp {
	switch kind {
	case "term":
		return []SOp{{K: "term", N: n}}
	case "idle":
		return []SOp{{K: "age", D: cfg.IdleSec + 120}, {K: "tick"}}
	case "timeout":
		return []SOp{{K: "age", D: cfg.SessionSec + 120}, {K: "tick"}}
	case "stop":
		return []SOp{{K: "stop"}}
	case "race":
		return []SOp{{K: "race", N: n, P: 2}}
	case "term-cancelled":
		return []SOp{{K: "term", N: n, Ctx: 1}}
	case "term-deadline":
		return []SOp{{K: "term", N: n, Ctx: 2}}
	case "term-relfail":
		return []SOp{{K: "term", N: n, RelFail: true}}
	case "term-cancelled-relfail":
		return []SOp{{K: "term", N: n, Ctx: 1, RelFail: true}}
	}
	return nil
}

func enumSubmgr() []SCase {
	var out []SCase
	cfg := SCfg{Addrs: 4, SessionSec: 86400, IdleSec: 1800}
	for prefix := 1; prefix <= 4; prefix++ {
		for _, e1 := range append(append(append([]string{}, sEnds...), "race"), sAborts...) {
			// a failed / aborted attempt is followed by every other ending path (and by nothing)
			for _, e2 := range append(append([]string{""}, sEnds...), "race", "term-cancelled") {
				var ops []SOp
				for i := 0; i < prefix; i++ {
					ops = append(ops, SOp{K: sEstablish[i], C: 0, N: 1, OK: true})
				}
				ops = append(ops, sEndOps(e1, 1, cfg)...)
				ops = append(ops, sEndOps(e2, 1, cfg)...)
				if e1 != "stop" && e2 != "stop" {
					// whatever happened: one more live termination must find the session gone or end it
					ops = append(ops, SOp{K: "term", N: 1})
					for i := 0; i < 4; i++ {
						ops = append(ops, SOp{K: sEstablish[i], C: 1, N: 2, OK: true})
					}
					ops = append(ops, SOp{K: "term", N: 2})
				}
				out = append(out, SCase{Cfg: cfg, Ops: ops})
			}
		}
	}
	return out
}

func genRandS(r *vh.Rng, maxOps int, guarded bool) SCase {
	c := SCase{Cfg: SCfg{Addrs: 2 + r.Intn(4), SessionSec: []int{0, 7200, 86400}[r.Intn(3)], IdleSec: []int{0, 600, 1800}[r.Intn(3)]}}
	created := 0
	stage := map[int]int{}
	n := 5 + r.Intn(maxOps)
	for i := 0; i < n; i++ {
		if created == 0 || r.Chance(1, 5) {
			c.Ops = append(c.Ops, SOp{K: "create", C: r.Intn(4)})
			created++ // (a duplicate MAC is refused: the ordinal is then unused; harmless)
			stage[created] = 1
			continue
		}
		s := 1 + r.Intn(created)
		switch x := r.Intn(20); {
		case x < 8:
			if stage[s] >= 4 {
				continue
			}
			if stage[s] == 2 && r.Chance(1, 8) && !guarded {
				continue
			}
			o := SOp{K: sEstablish[stage[s]], N: s, OK: r.Chance(5, 6)}
			if (o.K == "auth" || o.K == "assign") && r.Chance(1, 6) {
				o.Ctx = 1 + r.Intn(2) // the step fails on a done context; it is retried below
				c.Ops = append(c.Ops, o)
				continue
			}
			c.Ops = append(c.Ops, o)
			stage[s]++
		case x < 13:
			t := SOp{K: "term", N: s}
			if r.Chance(1, 3) {
				t.Ctx = 1 + r.Intn(2)
			}
			if !guarded && r.Chance(1, 8) {
				t.RelFail = true
			}
			c.Ops = append(c.Ops, t)
			if r.Chance(1, 2) { // follow the attempt by another ending path
				switch r.Intn(3) {
				case 0:
					c.Ops = append(c.Ops, SOp{K: "term", N: s})
				case 1:
					c.Ops = append(c.Ops, SOp{K: "age", D: 90000}, SOp{K: "tick"})
				default:
					c.Ops = append(c.Ops, SOp{K: "term", N: s, Ctx: 1 + r.Intn(2)}, SOp{K: "term", N: s})
				}
			}
		case x < 15:
			if !guarded && stage[s] >= 3 {
				c.Ops = append(c.Ops, SOp{K: "race", N: s, P: 2 + r.Intn(2)})
			}
		case x < 18:
			c.Ops = append(c.Ops, SOp{K: "age", D: []int{250, 2000, 9000, 90000}[r.Intn(4)]}, SOp{K: "tick"})
		case x < 19:
			c.Ops = append(c.Ops, SOp{K: "tick"})
		default:
			if !guarded && r.Chance(1, 3) {
				c.Ops = append(c.Ops, SOp{K: "stop"})
				return c
			}
		}
	}
	return c
}
