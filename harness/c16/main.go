// C16 correspondence driver: every way a session ends, on the real code, against Model/Teardown.v.
// Streams: dhcp (dhcp.Server + nat/qos managers + loader caches + RADIUS accounting),
// pppoe (pppoe.Server frames + SessionTeardown), submgr (subscriber.Manager).
package main

import (
	"encoding/json"
	"fmt"
	"os"

	"verifharness/vh"
)

func must(err error) {
	if err != nil {
		panic(err)
	}
}

// Wrap is the replayable description of one case of any stream.
type Wrap struct {
	W string      `json:"w"` // dhcp | pppoe | submgr
	D interface{} `json:"d"`
}

type rawWrap struct {
	W string          `json:"w"`
	D json.RawMessage `json:"d"`
}

const headerFmt = `From Coq Require Import ZArith NArith List. Import ListNotations.
From Verif Require Import Model.Teardown Model.TeardownSpec Model.TeardownCheck.
Local Open Scope N_scope.
Definition cases : list %s := [
`

func footer(entry string) string {
	return "\n].\nDefinition R := Eval vm_compute in " + entry + " cases.\nPrint R.\n"
}

type streamDef struct{ typ, entry string }

var streams = map[string]streamDef{
	"dhcp":   {"dcase", "run_dhcp"},
	"pppoe":  {"pcase", "run_pppoe"},
	"submgr": {"scase", "run_submgr"},
}

type runner struct {
	k *kenv
}

func (r *runner) runOne(w rawWrap) vh.Case {
	switch w.W {
	case "dhcp":
		var c DCase
		must(json.Unmarshal(w.D, &c))
		return r.k.runDHCP(c)
	case "pppoe":
		var c PCase
		must(json.Unmarshal(w.D, &c))
		return r.k.runPPPoE(c)
	case "submgr":
		var c SCase
		must(json.Unmarshal(w.D, &c))
		return runSubmgr(c)
	}
	panic("unknown stream " + w.W)
}

func emit(cfg vh.Config, name, world string, cases []vh.Case, extra map[string]interface{}) {
	sd := streams[world]
	vh.Emit(cfg, name, fmt.Sprintf(headerFmt, sd.typ), footer(sd.entry), cases, extra)
}

func main() {
	cfg := vh.ParseFlags()
	r := &runner{k: newKenv()}
	extra := func(m map[string]interface{}) map[string]interface{} {
		o := map[string]interface{}{"kernel_bpf": r.k.kernel, "verifier_ok": r.k.dhcp.VerifierOK && r.k.nat.VerifierOK && r.k.qos.VerifierOK}
		for k, v := range m {
			o[k] = v
		}
		return o
	}
	if cfg.Replay != "" {
		var w rawWrap
		must(vh.LoadReplay(cfg.Replay, &w))
		emit(cfg, "cases_"+w.W, w.W, []vh.Case{r.runOne(w)}, extra(nil))
		return
	}
	corpus := map[string][]vh.Case{}
	for _, f := range vh.CorpusFiles(cfg) {
		var w rawWrap
		must(vh.LoadReplay(f, &w))
		corpus[w.W] = append(corpus[w.W], r.runOne(w))
	}
	for w, cs := range corpus {
		emit(cfg, "corpus_"+w, w, cs, extra(nil))
	}
	if d := os.Getenv("VERIF_C16_WRITE_CORPUS"); d != "" {
		writeCorpus(d)
		return
	}
	rng := vh.NewRng(cfg.Seed)

	// ---- dhcp
	var dp []vh.Case
	for i, c := range enumPaths(cfg.Thorough()) {
		if cfg.Thorough() || i%3 == int(cfg.Seed%3) { // quick: every third case of the enumeration, rotating with the seed
			dp = append(dp, r.k.runDHCP(c))
		}
	}
	emit(cfg, "dhcp_paths", "dhcp", dp, extra(map[string]interface{}{"exhaustive": cfg.Thorough(),
		"note": "every establishment prefix x own circuit-id/none x relayed x ending path x second ending path (quick: one configuration; thorough: five)"}))
	var dn, df []vh.Case
	for i, c := range enumRenewals() {
		if cfg.Thorough() || i%3 == int(cfg.Seed%3) {
			dn = append(dn, r.k.runDHCP(c))
		}
	}
	emit(cfg, "dhcp_renewals", "dhcp", dn, extra(map[string]interface{}{"exhaustive": cfg.Thorough(),
		"note": "lease through a relay with Circuit-ID (or without) x renewal carrying {the same option 82, +Remote-ID, no option 82, Remote-ID only (relayed / unicast), another Circuit-ID (+Remote-ID)} x second renewal x ending path; then new clients on both circuits"}))
	for i, c := range enumFaults() {
		if cfg.Thorough() || i%2 == int(cfg.Seed%2) {
			df = append(df, r.k.runDHCP(c))
		}
	}
	emit(cfg, "dhcp_faults", "dhcp", df, extra(map[string]interface{}{"exhaustive": cfg.Thorough(),
		"note": "fault injection: each kernel map the teardown depends on (subscriber_pools, circuit_id_map, circuit_id_subscribers, qos_egress, qos_ingress, subscriber_nat; some pairs) is full during establishment x prefix x ending path; then a second client under the same fault"}))
	var dw, dl []vh.Case
	for i, c := range enumWindow() {
		if cfg.Thorough() || i%2 == int(cfg.Seed%2) {
			dw = append(dw, r.k.runDHCP(c))
		}
	}
	emit(cfg, "dhcp_window", "dhcp", dw, extra(map[string]interface{}{"exhaustive": cfg.Thorough(),
		"note": "the owner returns around the expiry of its lease before the reaper's pass: age just short of / just past the lease time x {REQUEST, DISCOVER, DISCOVER+REQUEST, REQUEST without option 82, nothing} x tick x ending path x final ticks; then a second client"}))
	for i, c := range enumFlush() {
		if cfg.Thorough() || i%2 == int(cfg.Seed%2) {
			dl = append(dl, r.k.runDHCP(c))
		}
	}
	emit(cfg, "dhcp_flush", "dhcp", dl, extra(map[string]interface{}{"exhaustive": cfg.Thorough(),
		"note": "each kernel map the teardown deletes from is emptied behind the managers' back mid-session (x renewal afterwards) x ending path x second ending; then two more clients"}))
	nr, ng, maxOps := 70, 50, 10
	if cfg.Thorough() {
		nr, ng, maxOps = 2500, 1500, 18
	}
	var dr, dg []vh.Case
	for i := 0; i < nr; i++ {
		dr = append(dr, r.k.runDHCP(genRandD(rng.Fork(), maxOps, false)))
	}
	emit(cfg, "dhcp_random", "dhcp", dr, extra(nil))
	for i := 0; i < ng; i++ {
		dg = append(dg, r.k.runDHCP(genRandD(rng.Fork(), maxOps, true)))
	}
	emit(cfg, "dhcp_guarded", "dhcp", dg, extra(map[string]interface{}{"guarded": "own circuit-id only; DECLINE names the leased address; ending operations only for established sessions"}))

	// ---- pppoe
	var pp, pr, pg []vh.Case
	for i, c := range enumPPPoE() {
		// quick: stratified — every (configuration, establishment prefix, first ending path) with ONE second
		// ending path (8 of them), rotating with the group and the seed
		if cfg.Thorough() || i%8 == (i/8+int(cfg.Seed))%8 {
			pp = append(pp, r.k.runPPPoE(c))
		}
	}
	emit(cfg, "pppoe_paths", "pppoe", pp, extra(map[string]interface{}{"exhaustive": cfg.Thorough(),
		"note": "3 configurations x establishment prefix (PADR, +LCP ack, +PAP, +IPCP ack) x 7 ending paths x second ending path"}))
	var po []vh.Case
	for i, c := range enumOverlap() {
		if cfg.Thorough() || i%4 == int(cfg.Seed%4) {
			po = append(po, r.k.runPPPoE(c))
		}
	}
	emit(cfg, "pppoe_overlap", "pppoe", po, extra(map[string]interface{}{"exhaustive": cfg.Thorough(),
		"note": "two ending paths at once: 3 configurations x establishment prefix x first path (tdpadt, tdterm, tdall) held inside SessionTeardown.cleanup at the eBPF-remove callback or at the Accounting-Response x second path (padt, lcpterm, idle, tdpadt, tdterm, tdall) released meanwhile; then a third ending and a second client"}))
	np, npg := 60, 40
	if cfg.Thorough() {
		np, npg = 2000, 1000
	}
	for i := 0; i < np; i++ {
		pr = append(pr, r.k.runPPPoE(genRandP(rng.Fork(), maxOps, false)))
	}
	emit(cfg, "pppoe_random", "pppoe", pr, extra(nil))
	for i := 0; i < npg; i++ {
		pg = append(pg, r.k.runPPPoE(genRandP(rng.Fork(), maxOps, true)))
	}
	emit(cfg, "pppoe_guarded", "pppoe", pg, extra(map[string]interface{}{"guarded": "frames from the owner; sessions end by PADT or by one teardown call; one PAP exchange per session"}))

	// ---- submgr
	var sp, sr, sg []vh.Case
	for _, c := range enumSubmgr() {
		sp = append(sp, runSubmgr(c))
	}
	emit(cfg, "submgr_paths", "submgr", sp, extra(map[string]interface{}{"exhaustive": true,
		"note": "establishment prefix x {terminate, idle timeout, session timeout, Stop, 2 concurrent terminations, terminate on a cancelled / expired context, terminate with a failing allocator release} x second ending path (every other path) x a final live terminate"}))
	ns, nsg := 70, 50
	if cfg.Thorough() {
		ns, nsg = 2500, 1500
	}
	for i := 0; i < ns; i++ {
		sr = append(sr, runSubmgr(genRandS(rng.Fork(), maxOps, false)))
	}
	emit(cfg, "submgr_random", "submgr", sr, extra(nil))
	for i := 0; i < nsg; i++ {
		sg = append(sg, runSubmgr(genRandS(rng.Fork(), maxOps, true)))
	}
	emit(cfg, "submgr_guarded", "submgr", sg, extra(map[string]interface{}{"guarded": "sequential callers, any caller context, working allocator, no Manager.Stop"}))
}

func writeCorpus(dir string) {
	w := func(name string, world string, d interface{}, note string) {
		b, _ := json.MarshalIndent(map[string]interface{}{"note": note, "desc": Wrap{W: world, D: d}}, "", " ")
		must(os.WriteFile(dir+"/"+name+".json", b, 0o644))
	}
	full := DCfg{Radius: true, Qos: true, Nat: true, NatBlocks: 4, Bits: 28, LeaseSec: 3600}
	est := []DOp{{K: "disc", C: 0, Cid: 1, Relay: true}, {K: "req", C: 0, Cid: 1, Relay: true}}
	w("k16a-decline-other-address", "dhcp", DCase{Cfg: full, Ops: append(append([]DOp{}, est...), DOp{K: "decl", C: 0, IP: 6})},
		"known K16a: DECLINE naming another address than the leased one drops the lease but pool.allocated[mac] keeps the leased address")
	w("k16b-release-offered-only", "dhcp", DCase{Cfg: full, Ops: []DOp{{K: "disc", C: 0}, {K: "rel", C: 0}}},
		"known K16b: RELEASE from a client that was only offered an address: the offered address stays allocated")
	w("k16f-shared-lease-two-stops", "dhcp", DCase{Cfg: full, Ops: append(append([]DOp{}, est...), DOp{K: "disc", C: 1, Cid: 1, Relay: true},
		DOp{K: "req", C: 1, Cid: 1, Relay: true}, DOp{K: "rel", C: 1}, DOp{K: "rel", C: 0})},
		"known K16f: a second MAC is ACKed on the first one's lease through the circuit-ID index (C02 K02a); ending both sends two Stops for one Start")
	w("f16a-decline-keeps-nat-qos-acct", "dhcp", DCase{Cfg: full, Ops: append(append([]DOp{}, est...), DOp{K: "decl", C: 0}, DOp{K: "decl", C: 0})},
		"fixed 81d6b2b: DECLINE left NAT block, QoS policy and the accounting session (regression)")
	w("f16a-expiry-keeps-nat-qos-cid-acct", "dhcp", DCase{Cfg: full, Ops: append(append([]DOp{}, est...), DOp{K: "age", D: 4200}, DOp{K: "tick"}, DOp{K: "tick"},
		DOp{K: "disc", C: 1}, DOp{K: "req", C: 1}, DOp{K: "rel", C: 1})},
		"fixed 81d6b2b: lease expiry left NAT block, QoS policy, circuit-id cache entries and the accounting session (regression)")
	w("f16f-renewal-from-another-circuit", "dhcp", DCase{Cfg: full, Ops: append(append([]DOp{}, est...), DOp{K: "req", C: 0, Cid: 2, Relay: true}, DOp{K: "rel", C: 0},
		DOp{K: "disc", C: 1, Cid: 1, Relay: true}, DOp{K: "req", C: 1, Cid: 1, Relay: true}, DOp{K: "rel", C: 1})},
		"fixed c878197: a renewal from another circuit left the old circuit's index and circuit_id_map / circuit_id_subscribers entries, which no ending path removed (regression)")
	w("r16-renewal-remote-id-only-then-end", "dhcp", DCase{Cfg: full, Ops: append(append([]DOp{}, est...), DOp{K: "req", C: 0, Relay: true, Rid: true}, DOp{K: "rel", C: 0},
		DOp{K: "disc", C: 0, Cid: 1, Relay: true}, DOp{K: "req", C: 0, Cid: 1, Relay: true}, DOp{K: "req", C: 0, Rid: true}, DOp{K: "age", D: 4200}, DOp{K: "tick"},
		DOp{K: "disc", C: 1, Cid: 1, Relay: true}, DOp{K: "req", C: 1, Cid: 1, Relay: true}, DOp{K: "decl", C: 1})},
		"regression: a renewal whose option 82 has no Circuit-ID sub-option keeps the lease's circuit-id, so RELEASE / expiry / DECLINE still remove the circuit-id entries")
	half := full
	half.Full = []int{5}
	w("r16-qos-half-installed-then-end", "dhcp", DCase{Cfg: half, Ops: append(append([]DOp{}, est...), DOp{K: "rel", C: 0}, DOp{K: "disc", C: 1}, DOp{K: "req", C: 1}, DOp{K: "age", D: 4200}, DOp{K: "tick"})},
		"regression: qos_ingress is full, SetSubscriberQoS fails between its two map writes (egress bucket installed, nothing tracked); RELEASE and expiry must still remove the egress bucket")
	pe := []POp{{K: "padr", C: 0}, {K: "lcpack", S: 1, C: 0}, {K: "pap", S: 1, C: 0, OK: true}, {K: "ipcpack", S: 1, C: 0}}
	pc := PCfg{Pool: true, Radius: true}
	w("k16c-idle-cleanup-keeps-address", "pppoe", PCase{Cfg: pc, Ops: append(append([]POp{}, pe...), POp{K: "age", D: 900}, POp{K: "idle"})},
		"known K16c: idle cleanup (SessionManager.CleanupExpired from Server.cleanupLoop) removes the session, its address stays allocated")
	w("k16e-teardown-after-server-padt", "pppoe", PCase{Cfg: pc, Ops: append(append([]POp{}, pe...), POp{K: "padt", S: 1, C: 0}, POp{K: "tdpadt", S: 1, C: 0})},
		"known K16e: teardown cleanup of a session object the server's PADT handler already ended sends an Accounting-Stop after the end")
	w("f16b-lcp-terminate-keeps-address", "pppoe", PCase{Cfg: pc, Ops: append(append([]POp{}, pe...), POp{K: "lcpterm", S: 1, C: 0}, POp{K: "lcpterm", S: 1, C: 0})},
		"fixed b42d48d: LCP Terminate-Request removed the session without releasing its address (regression)")
	w("f16b-pap-reject-keeps-address", "pppoe", PCase{Cfg: pc, Ops: append(append([]POp{}, pe...), POp{K: "pap", S: 1, C: 0, OK: false})},
		"fixed b42d48d: a PAP reject after an earlier accept closed the session and kept its address (regression)")
	w("f16c-teardown-twice-two-stops", "pppoe", PCase{Cfg: pc, Ops: append(append([]POp{}, pe...), POp{K: "tdterm", S: 1}, POp{K: "tdpadt", S: 1, C: 0}, POp{K: "tdterm", S: 1})},
		"fixed f58f3aa: cleanup of one session object twice sent two Accounting-Stop records (regression)")
	for g := 1; g <= 2; g++ {
		w(fmt.Sprintf("r16-overlapping-teardowns-gate%d", g), "pppoe", PCase{Cfg: pc, Ops: append(append([]POp{}, pe...),
			POp{K: "overlap", A: &POp{K: "tdterm", S: 1}, B: &POp{K: "tdpadt", S: 1, C: 0}, Gate: g}, POp{K: "tdall"})},
			"regression: an admin disconnect held inside cleanup (1: at the eBPF callback, 2: waiting for the Accounting-Response) while the client's PADT reaches the teardown handler: one Accounting-Stop, one fast-path removal")
	}
	sc := SCfg{Addrs: 4, SessionSec: 86400, IdleSec: 1800}
	se := []SOp{{K: "create", C: 0}, {K: "auth", N: 1, OK: true}, {K: "assign", N: 1}, {K: "activate", N: 1}}
	w("k16d-manager-stop-releases-nothing", "submgr", SCase{Cfg: sc, Ops: append(append([]SOp{}, se...), SOp{K: "stop"})},
		"known K16d: Manager.Stop (shutdown) ends no session: address, indexes stay, no terminate event")
	w("k16g-release-error-leaks-address", "submgr", SCase{Cfg: sc, Ops: append(append([]SOp{}, se...), SOp{K: "term", N: 1, RelFail: true}, SOp{K: "term", N: 1})},
		"known K16g: the allocator's release fails: the session is removed all the same, the address stays allocated")
	w("f16e-terminate-on-cancelled-context", "submgr", SCase{Cfg: sc, Ops: append(append([]SOp{}, se...), SOp{K: "term", N: 1, Ctx: 1}, SOp{K: "term", N: 1},
		SOp{K: "create", C: 0}, SOp{K: "auth", N: 2, OK: true}, SOp{K: "assign", N: 2}, SOp{K: "term", N: 2, Ctx: 2}, SOp{K: "age", D: 90000}, SOp{K: "tick"})},
		"fixed ac242d7: terminate on a cancelled / expired context leaked the address; also the sequence a stuck-session regression fails on (aborted terminate, then live terminate, then timeout tick)")
	w("f16d-concurrent-terminate-double-release", "submgr", SCase{Cfg: sc, Ops: append(append([]SOp{}, se...), SOp{K: "race", N: 1, P: 2}, SOp{K: "term", N: 1})},
		"fixed fe50cc3: two concurrent TerminateSession calls both released the address and emitted the terminate event (regression)")
}
