// C16 stream "pppoe": real pppoe.Server (receiveLoop on the in-memory socket of the C04 hook, real
// radius.Client for PAP) plus a real pppoe.SessionTeardown wired to the server's own session table
// and address pool, with a real radius.Client for Accounting-Stop.
package main

import (
	"context"
	"encoding/binary"
	"fmt"
	"net"
	"os"
	"sort"
	"sync"
	"time"

	"verifharness/vh"

	"github.com/codelaboratoryltd/bng/pkg/pppoe"
	"go.uber.org/zap"
)

type PCfg struct {
	Pool   bool `json:"pool"`   // the server has a client address pool (10.32.0.0/29, gateway .1)
	Radius bool `json:"radius"` // the teardown handler has a RADIUS client
}

// POp: K = padr | lcpack | pap | ipcpack | padt | lcpterm | age | idle | tdpadt | tdterm | tdall | overlap.
// S: session ordinal (sessions get id = instance = 1, 2, ... in creation order). C: client (source MAC).
// overlap: two ending paths at once. A (a teardown path: tdpadt | tdterm | tdall) is started and held inside
// SessionTeardown.cleanup at Gate (1: inside the eBPF-remove callback, the first cleanup step; 2: waiting for
// the RADIUS Accounting-Response to its Accounting-Stop; a path that never reaches the gate just runs to its
// end); B is then started and given 40 ms to run to completion (it cannot when it needs the teardown mutex);
// then the gate opens and both are awaited.
type POp struct {
	K    string `json:"k"`
	C    int    `json:"c,omitempty"`
	S    int    `json:"s,omitempty"`
	OK   bool   `json:"ok,omitempty"`
	D    int    `json:"d,omitempty"`
	A    *POp   `json:"a,omitempty"`
	B    *POp   `json:"b,omitempty"`
	Gate int    `json:"gate,omitempty"`
}

// gate holds one caller at a chosen point until it is opened.
type gate struct {
	kind    int
	entered chan struct{}
	open    chan struct{}
}

type PCase struct {
	Cfg PCfg  `json:"cfg"`
	Ops []POp `json:"ops"`
}

var pServerMAC = net.HardwareAddr{0x02, 0xac, 0, 0, 0, 0x01}
var pBase = net.IPv4(10, 32, 0, 0).To4()

const pTimeout = 300 // seconds: the default of Server.cleanupLoop when SessionTimeout is 0

func pIPNum(ip net.IP) uint64 {
	v4 := ip.To4()
	if v4 == nil {
		return 0
	}
	return uint64(binary.BigEndian.Uint32(v4) - binary.BigEndian.Uint32(pBase))
}

func pFrame(src int, et uint16, code byte, sid int, body []byte) []byte {
	f := append(append([]byte{}, pServerMAC...), cliMAC(src)...)
	f = append(f, byte(et>>8), byte(et))
	f = append(f, 0x11, code, byte(sid>>8), byte(sid), byte(len(body)>>8), byte(len(body)))
	return append(f, body...)
}
func pTag(t uint16, v []byte) []byte {
	return append([]byte{byte(t >> 8), byte(t), byte(len(v) >> 8), byte(len(v))}, v...)
}
func pSess(src, sid int, proto uint16, payload []byte) []byte {
	return pFrame(src, 0x8864, 0, sid, append([]byte{byte(proto >> 8), byte(proto)}, payload...))
}
func pCtl(code, id byte, data []byte) []byte {
	return append([]byte{code, id, byte((4 + len(data)) >> 8), byte(4 + len(data))}, data...)
}

type pworld struct {
	e      *kenv
	c      PCfg
	srv    *pppoe.Server
	sock   *pppoe.VerifC04Socket
	sm     *pppoe.SessionManager
	td     *pppoe.SessionTeardown
	stop   context.CancelFunc
	inst   map[string]uint64         // RADIUS session id -> instance
	objs   map[uint64]*pppoe.Session // instance -> session object
	events [][2]uint64
	evmu   sync.Mutex // events and gate: callbacks run on two goroutines during an overlap
	gate   *gate
	nsent  int
}

func (w *pworld) event(k, v uint64) {
	w.evmu.Lock()
	w.events = append(w.events, [2]uint64{k, v})
	w.evmu.Unlock()
}

// takeGate disarms and returns the armed gate when it is of the given kind.
func (w *pworld) takeGate(kind int) *gate {
	w.evmu.Lock()
	defer w.evmu.Unlock()
	g := w.gate
	if g == nil || g.kind != kind {
		return nil
	}
	w.gate = nil
	return g
}

func (e *kenv) newPWorld(c PCfg) *pworld {
	w := &pworld{e: e, c: c, inst: map[string]uint64{}, objs: map[uint64]*pppoe.Session{}}
	cfg := pppoe.ServerConfig{Interface: "verif0", ACName: "BNG-AC", ServerIP: "10.32.0.1"}
	if c.Pool {
		cfg.ClientPool, cfg.PoolGateway = "10.32.0.0/29", "10.32.0.1"
	}
	var err error
	w.srv, w.sock, err = pppoe.VerifC04NewServer(cfg, pServerMAC, zap.NewNop())
	must(err)
	w.srv.SetRADIUSClient(e.acct.client()) // PAP outcome is scripted: password "good" is accepted
	var pool *pppoe.IPPool
	w.sm, pool = w.srv.VerifC16Parts()
	w.td = pppoe.NewSessionTeardown(pppoe.TeardownConfig{LCPTermTimeout: 10 * time.Millisecond, PADTRetries: 0,
		CleanupTimeout: 5 * time.Second, RADIUSTimeout: 3 * time.Second}, zap.NewNop())
	w.td.SetSessionManager(w.sm)
	if pool != nil {
		w.td.SetIPPool(pool)
	}
	if c.Radius {
		w.td.SetRADIUSClient(e.acct.client())
	}
	w.td.SetSendPADT(func(s *pppoe.Session, tags []pppoe.Tag) { w.event(4, uint64(s.ID)) })
	w.td.SetSendLCPTermReq(func(s *pppoe.Session, reason string) { w.event(7, uint64(s.ID)) })
	w.td.SetUpdateEBPFMaps(func(s *pppoe.Session, remove bool) error {
		if remove {
			w.event(3, uint64(s.ID))
			if g := w.takeGate(1); g != nil {
				close(g.entered)
				<-g.open
			}
		}
		return nil
	})
	e.acct.setOnStop(func() *gate { return w.takeGate(2) })
	ctx, cancel := context.WithCancel(context.Background())
	w.stop = cancel
	go w.srv.VerifC04Run(ctx)
	w.sock.WaitReady()
	e.acct.take()
	return w
}

func (w *pworld) close() { w.e.acct.setOnStop(nil); w.stop(); w.sock.Shutdown() }

func (w *pworld) push(f []byte) {
	w.sock.Push(f)
	sent := w.sock.Sent(w.nsent)
	for _, s := range sent {
		if len(s) >= 16 && binary.BigEndian.Uint16(s[12:14]) == 0x8863 && s[15] == 0x65 {
			// PADS: handlePADR started the LCP negotiation in a goroutine; wait for its Configure-Request
			if !w.sock.WaitSent(w.nsent+2, 10*time.Second) {
				fmt.Fprintln(os.Stderr, "c16: LCP Configure-Request after PADS did not appear")
				os.Exit(3)
			}
			sent = w.sock.Sent(w.nsent)
			break
		}
	}
	w.nsent += len(sent)
}

func (w *pworld) snapshot() string {
	sn := w.srv.VerifC04Snapshot()
	var rows, mi, av, al []string
	for _, s := range sn.Sessions {
		if _, ok := w.inst[s.SessionID]; !ok {
			w.inst[s.SessionID] = uint64(len(w.inst) + 1)
		}
		i := w.inst[s.SessionID]
		obj := w.sm.GetSession(s.ID)
		if obj != nil && obj.SessionID == s.SessionID {
			w.objs[i] = obj
		}
		stale := obj != nil && obj.VerifC16Idle() > pTimeout*time.Second
		rows = append(rows, fmt.Sprintf("(%d, (%d, %d, %s, %d, %d, %s))", s.ID, macNum(s.ClientMAC), s.State, vh.Bool(s.Authenticated),
			pIPNum(s.ClientIP), i, vh.Bool(stale)))
	}
	type kv struct{ k, v uint64 }
	var m []kv
	for k, v := range sn.MACIndex {
		hw, _ := net.ParseMAC(k)
		m = append(m, kv{macNum(hw), uint64(v)})
	}
	sort.Slice(m, func(i, j int) bool { return m[i].k < m[j].k })
	for _, e := range m {
		mi = append(mi, vh.Pair(vh.N(e.k), vh.N(e.v)))
	}
	for _, ip := range sn.Available {
		av = append(av, vh.N(pIPNum(ip)))
	}
	var a []kv
	for k, v := range sn.Allocated {
		i, ok := w.inst[k]
		if !ok {
			i = 999999
		}
		a = append(a, kv{i, pIPNum(v)})
	}
	sort.Slice(a, func(i, j int) bool { return a[i].k < a[j].k })
	for _, e := range a {
		al = append(al, vh.Pair(vh.N(e.k), vh.N(e.v)))
	}
	return fmt.Sprintf("%s %s %s %s", vh.List(rows), vh.List(mi), vh.List(av), vh.List(al))
}

// do runs one (non-overlap) op on the real objects.
func (w *pworld) do(o POp) {
	switch o.K {
	case "padr":
		w.push(pFrame(o.C, 0x8863, 0x19, 0, append(pTag(0x0101, nil), pTag(0x0104, []byte("cookie"))...)))
	case "lcpack":
		w.push(pSess(o.C, o.S, 0xC021, pCtl(2, 1, nil)))
	case "pap":
		pass := "bad"
		if o.OK {
			pass = "good"
		}
		d := append([]byte{4}, "user"...)
		d = append(append(d, byte(len(pass))), pass...)
		w.push(pSess(o.C, o.S, 0xC023, pCtl(1, 7, d)))
	case "ipcpack":
		w.push(pSess(o.C, o.S, 0x8021, pCtl(2, 2, nil)))
	case "padt":
		w.push(pFrame(o.C, 0x8863, 0xa7, o.S, nil))
	case "lcpterm":
		w.push(pSess(o.C, o.S, 0xC021, pCtl(5, 9, nil)))
	case "age":
		w.sm.VerifC16Age(time.Duration(o.D) * time.Second)
	case "idle":
		w.sm.CleanupExpired(pTimeout * time.Second) // the body of Server.cleanupLoop with SessionTimeout 0
	case "tdpadt":
		if s := w.objs[uint64(o.S)]; s != nil {
			must(w.td.HandleClientPADT(s, cliMAC(o.C), s.ID))
		}
	case "tdterm":
		if s := w.objs[uint64(o.S)]; s != nil {
			must(w.td.TerminateSession(s, pppoe.TerminateCauseAdminReset, ""))
		}
	case "tdall":
		w.td.TerminateAll(pppoe.TerminateCauseNASReboot, "")
	default:
		panic("bad op " + o.K)
	}
}

// term is the Model's op for o; for tdall it needs the events of the run (oracle).
func (w *pworld) term(o POp) string {
	mac := macNum(cliMAC(o.C))
	switch o.K {
	case "padr":
		return fmt.Sprintf("Padr %d", mac)
	case "lcpack":
		return fmt.Sprintf("LcpAck %d %d", o.S, mac)
	case "pap":
		return fmt.Sprintf("Pap %d %d %s", o.S, mac, vh.Bool(o.OK))
	case "ipcpack":
		return fmt.Sprintf("IpcpAck %d %d", o.S, mac)
	case "padt":
		return fmt.Sprintf("Padt %d %d", o.S, mac)
	case "lcpterm":
		return fmt.Sprintf("LcpTerm %d %d", o.S, mac)
	case "age":
		return fmt.Sprintf("PAge %d%%Z", o.D)
	case "idle":
		return "IdleTick"
	case "tdpadt":
		return fmt.Sprintf("TdPadt %d %d", o.S, mac)
	case "tdterm":
		return fmt.Sprintf("TdTerm %d", o.S)
	case "tdall":
		// oracle: the order in which TerminateAll met the sessions = order of the eBPF-remove callbacks
		var order []string
		seen := map[uint64]bool{}
		for _, e := range w.events {
			if e[0] == 3 && !seen[e[1]] {
				seen[e[1]] = true
				for i, s := range w.objs {
					if uint64(s.ID) == e[1] {
						order = append(order, vh.N(i))
					}
				}
			}
		}
		return "TdAll " + vh.List(order)
	}
	panic("bad op " + o.K)
}

func isTeardown(k string) bool { return k == "tdpadt" || k == "tdterm" || k == "tdall" }

func (w *pworld) apply(o POp, tags map[string]bool) string {
	var op string
	w.events = nil
	if o.K == "overlap" {
		if o.A == nil || o.B == nil || !isTeardown(o.A.K) || o.B.K == "overlap" || o.B.K == "padr" {
			panic("bad overlap")
		}
		g := &gate{kind: o.Gate, entered: make(chan struct{}), open: make(chan struct{})}
		w.evmu.Lock()
		w.gate = g
		w.evmu.Unlock()
		doneA, doneB := make(chan struct{}), make(chan struct{})
		go func() { defer close(doneA); w.do(*o.A) }()
		held := false
		select {
		case <-g.entered:
			held = true
		case <-doneA:
		}
		w.takeGate(o.Gate) // a path that never reached the gate: disarm it
		go func() { defer close(doneB); w.do(*o.B) }()
		select {
		case <-doneB:
			if held {
				tags["overlap:second-completed-inside"] = true
			}
		case <-time.After(40 * time.Millisecond):
			tags["overlap:second-waited"] = true
		}
		close(g.open)
		<-doneA
		<-doneB
		if held {
			tags[fmt.Sprintf("overlap:held-at-gate-%d", o.Gate)] = true
		} else {
			tags["overlap:first-not-held"] = true
		}
		tags["overlap:"+o.A.K+"+"+o.B.K] = true
		op = fmt.Sprintf("POverlap %s (%s) (%s)", vh.Bool(held), w.term(*o.A), w.term(*o.B))
	} else {
		w.do(o)
		op = w.term(o)
	}
	snap := w.snapshot()
	evs := w.events
	for _, r := range w.e.acct.take() {
		i, ok := w.inst[r.sid]
		if !ok {
			i = 999999
		}
		evs = append(evs, [2]uint64{r.kind, i})
	}
	sort.Slice(evs, func(i, j int) bool { return evs[i][1] < evs[j][1] || (evs[i][1] == evs[j][1] && evs[i][0] < evs[j][0]) })
	var ev []string
	for _, e := range evs {
		ev = append(ev, vh.Pair(vh.N(e[0]), vh.N(e[1])))
		tags[fmt.Sprintf("ev:%d", e[0])] = true
	}
	tags["op:"+o.K] = true
	return fmt.Sprintf("(%s, PO %s %s)", op, vh.List(ev), snap)
}

func (e *kenv) runPPPoE(c PCase) vh.Case {
	w := e.newPWorld(c.Cfg)
	defer w.close()
	tags := map[string]bool{}
	var steps []string
	for _, o := range c.Ops {
		steps = append(steps, w.apply(o, tags))
	}
	av := "[]"
	if c.Cfg.Pool {
		av = "[2; 3; 4; 5; 6; 7]" // NewIPPool: every address of the /29 after the network address except the gateway (.7 included)
	}
	cfg := fmt.Sprintf("PC %s %s %s %d%%Z", av, vh.Bool(c.Cfg.Pool), vh.Bool(c.Cfg.Radius), pTimeout)
	var tl []string
	for t := range tags {
		tl = append(tl, t)
	}
	tl = append(tl, fmt.Sprintf("cfg:pool=%v,radius=%v", c.Cfg.Pool, c.Cfg.Radius))
	return vh.Case{Coq: "(" + cfg + ",\n [" + joinNL(steps) + "])", Desc: Wrap{W: "pppoe", D: &c}, Tags: tl}
}

// ---------------------------------------------------------------- generators

var pEnds = []string{"padt", "lcpterm", "papfail", "idle", "tdpadt", "tdterm", "tdall"}

func pEndOps(kind string, s, c int) []POp {
	switch kind {
	case "padt":
		return []POp{{K: "padt", S: s, C: c}}
	case "lcpterm":
		return []POp{{K: "lcpterm", S: s, C: c}}
	case "papfail":
		return []POp{{K: "pap", S: s, C: c, OK: false}}
	case "idle":
		return []POp{{K: "age", D: 900}, {K: "idle"}}
	case "tdpadt":
		return []POp{{K: "tdpadt", S: s, C: c}}
	case "tdterm":
		return []POp{{K: "tdterm", S: s}}
	case "tdall":
		return []POp{{K: "tdall"}}
	}
	return nil
}

var pEstablish = []string{"padr", "lcpack", "pap", "ipcpack"}

// enumPPPoE: every configuration x establishment prefix x ending path x second ending path, then a
// second client establishes (does it get the first client's address back?).
func enumPPPoE() []PCase {
	var out []PCase
	for _, cfg := range []PCfg{{Pool: true, Radius: true}, {Pool: true, Radius: false}, {Pool: false, Radius: true}} {
		for prefix := 1; prefix <= 4; prefix++ {
			for _, e1 := range pEnds {
				for _, e2 := range append([]string{""}, pEnds...) {
					var ops []POp
					for i := 0; i < prefix; i++ {
						ops = append(ops, POp{K: pEstablish[i], S: 1, C: 0, OK: true})
					}
					ops = append(ops, pEndOps(e1, 1, 0)...)
					ops = append(ops, pEndOps(e2, 1, 0)...)
					for i := 0; i < 4; i++ {
						ops = append(ops, POp{K: pEstablish[i], S: 2, C: 1, OK: true})
					}
					ops = append(ops, POp{K: "padt", S: 2, C: 1})
					out = append(out, PCase{Cfg: cfg, Ops: ops})
				}
			}
		}
	}
	return out
}

// enumOverlap: two ending paths at once. Configuration x establishment prefix x first path (held inside
// cleanup) x gate x second path, then a plain PADT for the same session (a third ending), then a second
// client establishes (does it get the address back, exactly once?).
var pOverA = []string{"tdpadt", "tdterm", "tdall"}
var pOverB = []string{"padt", "lcpterm", "idle", "tdpadt", "tdterm", "tdall"}

func enumOverlap() []PCase {
	var out []PCase
	for _, cfg := range []PCfg{{Pool: true, Radius: true}, {Pool: true, Radius: false}, {Pool: false, Radius: true}} {
		for prefix := 1; prefix <= 4; prefix++ {
			for _, a := range pOverA {
				for _, b := range pOverB {
					for gate := 1; gate <= 2; gate++ {
						if gate == 2 && (!cfg.Radius || prefix < 3) {
							continue // no Accounting-Stop is sent: same as gate 1 never reached
						}
						var ops []POp
						for i := 0; i < prefix; i++ {
							ops = append(ops, POp{K: pEstablish[i], S: 1, C: 0, OK: true})
						}
						if b == "idle" {
							ops = append(ops, POp{K: "age", D: 900})
						}
						ao, bo := pEndOps(a, 1, 0), pEndOps(b, 1, 0)
						ops = append(ops, POp{K: "overlap", A: &ao[len(ao)-1], B: &bo[len(bo)-1], Gate: gate})
						ops = append(ops, POp{K: "padt", S: 1, C: 0})
						for i := 0; i < 4; i++ {
							ops = append(ops, POp{K: pEstablish[i], S: 2, C: 1, OK: true})
						}
						ops = append(ops, POp{K: "padt", S: 2, C: 1})
						out = append(out, PCase{Cfg: cfg, Ops: ops})
					}
				}
			}
		}
	}
	return out
}

func genRandP(r *vh.Rng, maxOps int, guarded bool) PCase {
	c := PCase{Cfg: PCfg{Pool: r.Chance(5, 6), Radius: r.Chance(3, 4)}}
	ncli := 2 + r.Intn(2)
	created := 0
	owner := map[int]int{}
	stage := map[int]int{}
	dead := map[int]bool{}
	n := 5 + r.Intn(maxOps)
	for i := 0; i < n; i++ {
		if created == 0 || r.Chance(1, 6) {
			if created >= 5 {
				continue
			}
			cl := r.Intn(ncli)
			c.Ops = append(c.Ops, POp{K: "padr", C: cl})
			created++
			owner[created] = cl
			stage[created] = 1
			continue
		}
		s := 1 + r.Intn(created)
		cl := owner[s]
		if !guarded && r.Chance(1, 10) {
			cl = r.Intn(ncli) // a frame from another station
		}
		switch x := r.Intn(20); {
		case x < 8: // advance establishment
			if guarded && (dead[s] || stage[s] >= 4) {
				continue
			}
			st := stage[s]
			if st > 3 {
				st = 2 + r.Intn(2) // re-authentication / repeated IPCP ack
			}
			if guarded && st == 2 && stage[s] > 2 {
				continue
			}
			c.Ops = append(c.Ops, POp{K: pEstablish[st], S: s, C: cl, OK: guarded || r.Chance(4, 5)})
			if stage[s] < 4 {
				stage[s]++
			}
		case x < 16:
			k := pEnds[r.Intn(len(pEnds))]
			if guarded {
				// inside the guard: server paths that release the address, teardown called once per session
				if dead[s] {
					continue
				}
				k = []string{"padt", "tdpadt", "tdterm"}[r.Intn(3)]
			}
			if (k == "tdpadt" || k == "tdterm") && r.Chance(1, 3) {
				// two paths at once: the teardown path is held inside cleanup while another ending path
				// (for this or another session) runs
				bk := pOverB[r.Intn(len(pOverB))]
				s2, cl2 := s, cl
				if guarded {
					bk = []string{"padt", "tdpadt", "tdterm"}[r.Intn(3)]
				} else if r.Chance(1, 4) {
					s2 = 1 + r.Intn(created)
					cl2 = owner[s2]
				}
				ao, bo := pEndOps(k, s, cl), pEndOps(bk, s2, cl2)
				if bk == "idle" {
					bo = bo[1:] // (no ageing first: whatever is stale by now)
				}
				c.Ops = append(c.Ops, POp{K: "overlap", A: &ao[0], B: &bo[0], Gate: 1 + r.Intn(2)})
				if bk == "tdall" || bk == "idle" {
					for j := 1; j <= created; j++ {
						dead[j] = true
					}
				}
				dead[s], dead[s2] = true, true
				continue
			}
			c.Ops = append(c.Ops, pEndOps(k, s, cl)...)
			if k == "tdall" || k == "idle" {
				for j := 1; j <= created; j++ {
					dead[j] = true
				}
			}
			dead[s] = true
		case x < 18:
			if guarded {
				continue
			}
			c.Ops = append(c.Ops, POp{K: "age", D: []int{90, 400}[r.Intn(2)]})
		default:
			if guarded {
				continue
			}
			c.Ops = append(c.Ops, POp{K: "idle"})
		}
	}
	return c
}
