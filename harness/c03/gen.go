package main

import (
	"encoding/binary"
	"encoding/json"
	"fmt"
	"net"
	"os"
	"path/filepath"

	"verifharness/vh"
)

// ---------------------------------------------------------------- option layouts

type layout struct {
	pre        []byte
	recognised bool // the fixed-offset scan of get_dhcp_msg_type finds option 53 behind this prefix
}

func layouts(mac net.HardwareAddr) []layout {
	return []layout{
		{nil, true},                                   // offset 0
		{[]byte{0}, true},                             // 1
		{[]byte{116, 1, 1}, true},                     // 3
		{[]byte{57, 2, 2, 64}, true},                  // 4
		{[]byte{0, 116, 1, 1}, true},                  // 4
		{[]byte{0, 57, 2, 2, 64}, true},               // 5
		{[]byte{12, 4, 'h', 'o', 's', 't'}, true},     // 6
		{[]byte{0, 0}, false},                         // 2
		{[]byte{0, 12, 4, 'h', 'o', 's', 't'}, false}, // 7
		{append([]byte{61, 7, 1}, mac...), false},     // 9
	}
}

type reqSpec struct {
	mac     net.HardwareAddr
	typ     byte
	reqIP   net.IP // option 50
	lay     layout
	cid     []byte
	cidPos  int // 0 none, 1 directly behind the message type (offset 3), 2 at offset 12, 3 at the end (not scanned)
	prl     bool
	noEnd   bool
	optsLen int // pad the options area to this many bytes (0: 64..80)
}

func buildOptions(r *vh.Rng, s reqSpec) []byte {
	o := append([]byte(nil), s.lay.pre...)
	o = append(o, 53, 1, s.typ)
	if s.cidPos == 1 {
		o = append(o, opt82(s.cid)...)
	}
	if s.reqIP != nil {
		o = append(o, 50, 4)
		o = append(o, s.reqIP.To4()...)
	}
	if s.cidPos == 2 {
		for len(o) < 12 { // reach offset 12 with a one-byte-payload option or pads
			if 12-len(o) >= 3 {
				o = append(o, 116, 1, 1)
			} else {
				o = append(o, 0)
			}
		}
		if len(o) <= 19 {
			o = append(o, opt82(s.cid)...)
		}
	}
	if s.prl {
		o = append(o, 55, 4, 1, 3, 6, 51)
	}
	if s.cidPos == 3 {
		o = append(o, 60, 8, 'M', 'S', 'F', 'T', ' ', '5', '.', '0')
		for len(o) < 24 {
			o = append(o, 0)
		}
		o = append(o, opt82(s.cid)...)
	}
	if !s.noEnd {
		o = append(o, 255)
	}
	return o
}

func pick[T any](r *vh.Rng, xs []T) T { return xs[r.Intn(len(xs))] }

// ---------------------------------------------------------------- pool configurations

var dnsPool = []string{"9.9.9.10", "192.0.2.53", "8.8.4.4", "10.77.0.2", "8.8.8.8"}

func randPool(r *vh.Rng) PoolCfg {
	pl := pick(r, []int{20, 22, 24, 24, 24, 25, 26, 27, 28, 29, 30})
	a, b := 16+r.Intn(16), r.Intn(256)
	base := net.IPv4(172, byte(a), byte(b), 0).To4()
	_, n, _ := net.ParseCIDR(fmt.Sprintf("%s/%d", base, pl))
	gw := append(net.IP(nil), n.IP.To4()...)
	gw[3]++
	var dns []string
	for i, k := 0, r.Intn(3); i < k; i++ {
		dns = append(dns, dnsPool[(r.Intn(len(dnsPool)-1)+i)%len(dnsPool)])
	}
	return PoolCfg{Network: n.String(), Gateway: gw.String(), DNS: dns, LeaseSec: pick(r, []int{600, 3600, 7200, 86400, 604800})}
}

var serverMACs = [][]byte{{0x02, 0xaa, 0xbb, 0xcc, 0xdd, 0x01}, {0x00, 0x1b, 0x21, 0x3c, 0x4d, 0x5e}}

func baseCase(r *vh.Rng, mode string) Case {
	p := randPool(r)
	_, n, _ := net.ParseCIDR(p.Network)
	sip := append(net.IP(nil), n.IP.To4()...)
	sip[3] += 2
	if ones, _ := n.Mask.Size(); ones >= 30 {
		sip = net.IPv4(172, 31, 255, 2).To4()
	}
	return Case{Mode: mode, Pool: p, ServerIP: sip.String(), ServerMAC: pick(r, serverMACs), SetConfig: true}
}

var cids = [][]byte{[]byte("eth 0/1/1:100"), []byte("olt7/pon3/onu12"), {0x00, 0x04, 0x00, 0x65, 0x02, 0x01}, []byte("0123456789abcdef0123456789abcdef"), []byte("0123456789abcdef0123456789abcdefXYZ")}

// a client acquires a lease: DISCOVER, REQUEST (optionally relayed with a circuit-id)
func acquire(c int, relay bool, cid []byte) []HOp {
	return []HOp{{K: "disc", C: c, Relay: relay, Cid: cid}, {K: "req", C: c, Relay: relay, Cid: cid}}
}

// ---------------------------------------------------------------- probes

type probeOpts struct {
	guarded  bool // IHL 5, >= 64 option bytes, recognised layout, valid requested address
	ips      map[int]net.IP
	cidOf    map[int][]byte
	vlanOf   map[int][2]uint16
	nClients int
	hw       map[int][]byte // hardware addresses that are not the default 6-byte ones
	client   int            // != 0: probe for client client-1 only
}

func otherIP(ip net.IP) net.IP {
	o := append(net.IP(nil), ip.To4()...)
	o[3] ^= 0x04
	return o
}

func genProbe(r *vh.Rng, po probeOpts) Probe {
	p, _ := genProbeSpec(r, po)
	return p
}

func genProbeSpec(r *vh.Rng, po probeOpts) (Probe, FrameSpec) {
	c := r.Intn(po.nClients + 1) // the last index is a client the server never saw
	if po.client != 0 {
		c = po.client - 1
	}
	hw := []byte(clientMAC(c))
	if h, ok := po.hw[c]; ok {
		hw = h
	}
	mac := net.HardwareAddr(hw)
	ip := po.ips[c]
	lays := layouts(mac)
	s := reqSpec{mac: mac, prl: r.Bool()}
	switch r.Intn(10) {
	case 0, 1, 2, 3:
		s.typ = 1
	case 4, 5, 6, 7:
		s.typ = 3
		s.reqIP = ip
	case 8:
		s.typ = pick(r, []byte{4, 7, 8, 2, 5})
	default:
		s.typ = 3 // REQUEST in RENEWING state: ciaddr, no option 50
	}
	fs := FrameSpec{MAC: mac, XID: uint32(r.U64()), Sname: r.Chance(1, 4)}
	if len(hw) != 6 {
		fs.Chaddr, fs.HlenSet, fs.Hlen = hw, true, byte(len(hw))
	}
	if s.typ == 3 && s.reqIP == nil && ip != nil {
		fs.Ciaddr = ip
	}
	if r.Chance(1, 3) {
		fs.Flags = 0x8000
	}
	if s.typ == 1 && r.Chance(1, 8) && ip != nil {
		fs.Ciaddr = ip
	}
	if po.guarded {
		s.lay = lays[r.Intn(7)]
	} else {
		s.lay = pick(r, lays)
		if s.typ == 3 && r.Chance(1, 6) && ip != nil {
			s.reqIP = otherIP(ip) // the slow path answers NAK
			fs.Ciaddr = nil
		}
	}
	if cid, ok := po.cidOf[c]; ok && r.Chance(3, 4) {
		s.cid = cid
		s.cidPos = 1 + r.Intn(3)
		fs.Giaddr = relayIP
		fs.SrcMAC = net.HardwareAddr{0x02, 0x52, 0x45, 0x4c, 0x41, 0x59}
		if len(s.lay.pre) != 0 && s.cidPos == 1 {
			s.cidPos = 2
		}
		if r.Chance(1, 5) {
			fs.MAC = clientMAC(po.nClients + 1) // new CPE behind the same port: only the circuit-id identifies it
			s.mac = fs.MAC
		}
	} else if r.Chance(1, 6) {
		fs.Giaddr = relayIP
		fs.SrcMAC = net.HardwareAddr{0x02, 0x52, 0x45, 0x4c, 0x41, 0x59}
	}
	fs.Options = buildOptions(r, s)
	fs.PadTo = 64 + r.Intn(17)
	fs.IHL = 5
	if !po.guarded {
		if r.Chance(1, 4) {
			fs.IHL = 6 + r.Intn(10)
		}
		if r.Chance(1, 8) {
			fs.PadTo = r.Intn(64)
		}
		if r.Chance(1, 10) {
			fs.CutTotal = -r.Intn(80) + 20
		}
	}
	switch r.Intn(10) {
	case 0:
		fs.Tags, fs.STag = 1, uint16(100+r.Intn(5))
		fs.OuterAD = r.Bool()
	case 1:
		fs.Tags, fs.STag, fs.CTag = 2, uint16(100+r.Intn(5)), uint16(200+r.Intn(5))
	case 2:
		fs.Tags, fs.STag, fs.CTag = 3, uint16(100+r.Intn(5)), uint16(200+r.Intn(5))
	}
	if v, ok := po.vlanOf[c]; ok && r.Chance(2, 3) {
		fs.Tags, fs.STag, fs.CTag = 2, v[0], v[1]
		if v[1] == 0 {
			fs.Tags = 1
		}
	}
	if len(hw) == 6 {
		vary(r, &fs, po)
	}
	return Probe{Frame: buildFrame(fs), Route: "k", C: c}, fs
}

// vary: the request fields the reply construction carries over (hops, secs, TOS, IP id, fragment word, the
// sixteen chaddr bytes with hlen / htype) - mostly the usual values, sometimes anything
func vary(r *vh.Rng, fs *FrameSpec, po probeOpts) {
	if r.Chance(1, 3) {
		fs.Secs = uint16(r.Intn(65536))
	}
	if r.Chance(1, 4) {
		fs.TOS = byte(r.Intn(256))
	}
	if r.Chance(1, 4) {
		fs.Frag = pick(r, []uint16{0x4000, 0x2000, 0x00b9, 0x4001, 0xffff})
	}
	if r.Chance(1, 4) {
		fs.TTL = byte(1 + r.Intn(255))
	}
	if r.Chance(1, 2) {
		fs.IPIDSet, fs.IPID = true, uint16(r.Intn(65536))
	}
	if r.Chance(1, 6) {
		fs.HopsSet, fs.Hops = true, byte(r.Intn(256))
	}
	if po.guarded {
		// inside the guards the hardware address is the client's own; bytes behind it are padding the
		// client may fill with anything
		if r.Chance(1, 4) && len(fs.MAC) == 6 {
			ch := append([]byte{}, fs.MAC...)
			for len(ch) < 16 {
				ch = append(ch, byte(1+r.Intn(255)))
			}
			fs.Chaddr = ch
		}
		return
	}
	if r.Chance(1, 4) {
		ch := append([]byte{}, fs.MAC...)
		for len(ch) < 16 {
			ch = append(ch, byte(r.Intn(256)))
		}
		fs.Chaddr = ch[:16]
		fs.HlenSet, fs.Hlen = true, pick(r, []byte{0, 1, 5, 6, 6, 7, 8, 8, 16, 17, 20, 255})
		if r.Chance(1, 3) {
			fs.Htype = pick(r, []byte{6, 27, 32, 255})
		}
	}
}

func addProbes(r *vh.Rng, c *Case, po probeOpts, n int) {
	for i := 0; i < n; i++ {
		p, fs := genProbeSpec(r, po)
		if r.Chance(1, 5) {
			// steer the IP identification so that the reply's header sum sits on a folding boundary
			if fs2, ok := theEnv.tuneID(*c, len(c.Hist), fs, r.Intn(5), r); ok {
				p.Frame = buildFrame(fs2)
			}
		}
		if !po.guarded && r.Chance(1, 6) {
			p.Route = "n"
			p.NowRel = pick(r, []string{"exp-1", "exp", "exp+1"})
		}
		c.Probes = append(c.Probes, p)
	}
}

// the state of the real server after the history, as far as the generators need it
func (e *env) survey(c Case, n int) probeOpts {
	w := e.build(c, len(c.Hist))
	po := probeOpts{ips: map[int]net.IP{}, cidOf: map[int][]byte{}, vlanOf: map[int][2]uint16{}, nClients: n}
	for i := 0; i < n; i++ {
		if ip, ok := w.offered[i]; ok {
			po.ips[i] = ip
		}
	}
	po.hw = c.HW
	for _, o := range c.Hist {
		if o.K == "req" && len(o.Cid) > 0 {
			po.cidOf[o.C] = o.Cid
		}
		if o.K == "vlan" {
			po.vlanOf[o.C] = [2]uint16{o.STag, o.CTag}
		}
	}
	return po
}

var theEnv *env

func (e *env) surveyAt(c Case, n, k int) probeOpts {
	c2 := c
	c2.Hist = c.Hist[:k]
	return e.survey(c2, n)
}

// tuneID: choose the IP identification of a request so that the ten-word sum of the REPLY header (as the C
// code forms it: little-endian words, checksum field zero) lands on a boundary of the end-around-carry fold.
// The reply header is taken from a native run of the program itself in the state after k history ops.
//   cat 0: the first fold carries again   1: folded sum 0xFFFF (checksum 0)   2: low half 0xFFFF
//   cat 3: one off the carry              4: low half 0
func (e *env) tuneID(c Case, k int, fs FrameSpec, cat int, r *vh.Rng) (FrameSpec, bool) {
	if c.Mode == "raw" {
		return fs, false
	}
	e.build(c, k)
	d := e.dumpMaps()
	if c.Mode == "net" {
		d = d.netOrder()
	}
	e.loadNative(d)
	fs.IPIDSet, fs.IPID = true, 0
	out := e.runNative(buildFrame(fs), monoNow())
	l3, ok := l3Off(out.Data)
	if out.V != 3 || !ok {
		return fs, false
	}
	var s0 uint32
	for q := 0; q < 20; q += 2 {
		if q != 4 && q != 10 {
			s0 += uint32(binary.LittleEndian.Uint16(out.Data[l3+q:]))
		}
	}
	var cand []uint16
	for id := 0; id < 65536; id++ {
		s := s0 + uint32(id>>8|(id&0xff)<<8)
		f1 := s&0xffff + s>>16
		var hit bool
		switch cat {
		case 0:
			hit = f1 >= 0x10000
		case 1:
			hit = f1 == 0xffff
		case 2:
			hit = s&0xffff == 0xffff
		case 3:
			hit = f1 == 0xfffe || f1 == 0x10001 || (f1 >= 0x10000 && f1&0xffff == 0xffff)
		default:
			hit = s&0xffff == 0
		}
		if hit {
			cand = append(cand, uint16(id))
		}
	}
	if len(cand) == 0 {
		return fs, false
	}
	fs.IPID = cand[r.Intn(len(cand))]
	return fs, true
}

// life: the lease life cycle (grant, renew, renew from another circuit, release / decline with every
// combination of option 50 and ciaddr, NAK, ageing, expiry sweep, re-grant), the fast path queried after
// every message for the client the message was about
func genLife(r *vh.Rng) Case {
	c := baseCase(r, pick(r, []string{"go", "net", "net"}))
	if r.Chance(1, 3) {
		c.HW = map[int][]byte{1: {0x02, 0x00, 0x5e, 0xff, 0xfe, 0x10, 0x00, byte(0x20 + r.Intn(4))}}
	}
	n := 1 + r.Intn(2)
	relay := map[int]bool{}
	cidOf := map[int][]byte{}
	for i := 0; i < n; i++ {
		relay[i] = r.Chance(1, 2)
		if relay[i] && r.Chance(3, 4) {
			cidOf[i] = cids[(2*i+r.Intn(2))%4]
		}
		c.Hist = append(c.Hist, acquire(i, relay[i], cidOf[i])...)
	}
	for k := 2 + r.Intn(4); k > 0; k-- {
		i := r.Intn(n)
		switch r.Intn(10) {
		case 0:
			c.Hist = append(c.Hist, HOp{K: "rel", C: i, ReqIP: pick(r, []string{"", "own", "other"}), Ci: pick(r, []string{"", "", "none", "other"}), Relay: relay[i]})
		case 1, 2:
			c.Hist = append(c.Hist, HOp{K: "dec", C: i, ReqIP: pick(r, []string{"", "none", "other", "none", "other"}), Ci: pick(r, []string{"", "", "own", "other"}), Relay: relay[i]})
		case 3:
			c.Hist = append(c.Hist, HOp{K: "req", C: i, Relay: relay[i], Cid: cidOf[i]})
		case 4: // the subscriber shows up behind another circuit
			cidOf[i] = cids[r.Intn(4)]
			relay[i] = true
			c.Hist = append(c.Hist, HOp{K: "req", C: i, Relay: true, Cid: cidOf[i]})
		case 5:
			c.Hist = append(c.Hist, HOp{K: "age", D: c.Pool.LeaseSec/2 - 13})
		case 6:
			c.Hist = append(c.Hist, HOp{K: "age", D: c.Pool.LeaseSec + 100}, HOp{K: "clean"})
		case 7:
			c.Hist = append(c.Hist, acquire(i, relay[i], cidOf[i])...)
		case 8:
			c.Hist = append(c.Hist, HOp{K: "req", C: i, ReqIP: "other", Relay: relay[i]})
		case 9: // renewal without option 82 (direct unicast to the server)
			c.Hist = append(c.Hist, HOp{K: "req", C: i})
		}
	}
	for k := 2; k <= len(c.Hist); k++ {
		o := c.Hist[k-1]
		if o.K == "disc" && k < len(c.Hist) {
			continue
		}
		po := theEnv.surveyAt(c, n, k)
		po.guarded = c.Mode == "net"
		if o.K != "age" && o.K != "clean" {
			po.client = o.C + 1
		}
		if cid, ok := cidOf[o.C]; ok {
			po.cidOf[o.C] = cid
		}
		for j := 0; j < 2; j++ {
			p := genProbe(r, po)
			p.At = k
			c.Probes = append(c.Probes, p)
		}
	}
	return c
}

// hw: one cached subscriber (hardware address of 6, 8 or 16 bytes), requests with every hlen and the
// bytes behind the first six either the subscriber's own or different, padding never zero
func genHW(r *vh.Rng) Case {
	c := baseCase(r, pick(r, []string{"net", "net", "go"}))
	hw := []byte(clientMAC(0))
	switch r.Intn(3) {
	case 1:
		hw = []byte{0x02, 0x00, 0x5e, 0xff, 0xfe, 0x10, 0x00, 0x21}
	case 2:
		hw = []byte{0x02, 0x00, 0x5e, 0x10, 0x00, 0x11, 1, 2, 3, 4, 5, 6, 7, 8, 9, 10}
	}
	c.HW = map[int][]byte{0: hw}
	c.Hist = acquire(0, false, nil)
	po := theEnv.survey(c, 1)
	lay := layouts(clientMAC(0))
	for _, hl := range []int{0, 1, 2, 3, 4, 5, 6, 7, 8, 9, 10, 11, 12, 13, 14, 15, 16, 17, 64, 255} {
		ch := make([]byte, 16)
		for i := range ch {
			ch[i] = byte(1 + r.Intn(255))
		}
		copy(ch, hw[:6])
		if r.Bool() {
			copy(ch, hw) // the subscriber's own bytes, padding behind them
		}
		s := reqSpec{mac: clientMAC(0), typ: byte(1 + 2*r.Intn(2)), lay: lay[r.Intn(7)]}
		if s.typ == 3 {
			s.reqIP = po.ips[0]
		}
		fs := FrameSpec{MAC: clientMAC(0), XID: uint32(r.U64()), IHL: 5, PadTo: 64 + r.Intn(8), Chaddr: ch, HlenSet: true, Hlen: byte(hl)}
		if r.Chance(1, 4) {
			fs.Htype = pick(r, []byte{6, 27, 255})
		}
		if r.Chance(1, 3) {
			fs.Flags = 0x8000
		}
		fs.Options = buildOptions(r, s)
		c.Probes = append(c.Probes, Probe{Frame: buildFrame(fs), Route: "k"})
	}
	return c
}

// cksum: every reply shape (broadcast / unicast / relayed, 0-2 DNS servers, VLAN tags, TOS, fragment word)
// with the IP identification steered onto each folding boundary of the header sum
func genCksum(r *vh.Rng) Case {
	c := baseCase(r, pick(r, []string{"net", "go"}))
	relay := r.Chance(1, 3)
	c.Hist = acquire(0, relay, nil)
	po := theEnv.survey(c, 1)
	po.guarded = true
	po.client = 1
	for cat := 0; cat < 5; cat++ {
		for j := 0; j < 2; j++ {
			p, fs := genProbeSpec(r, po)
			if fs2, ok := theEnv.tuneID(c, len(c.Hist), fs, cat, r); ok {
				p.Frame = buildFrame(fs2)
			}
			c.Probes = append(c.Probes, p)
		}
	}
	return c
}

// ---------------------------------------------------------------- streams

// go: the cache exactly as the real slow path leaves it
func genGo(r *vh.Rng) Case {
	c := baseCase(r, "go")
	n := 1 + r.Intn(3)
	for i := 0; i < n; i++ {
		relay := r.Chance(1, 3)
		var cid []byte
		if relay && r.Chance(3, 4) {
			cid = pick(r, cids)
		}
		c.Hist = append(c.Hist, acquire(i, relay, cid)...)
	}
	for k := r.Intn(4); k > 0; k-- {
		i := r.Intn(n)
		switch r.Intn(6) {
		case 0:
			c.Hist = append(c.Hist, HOp{K: "rel", C: i})
		case 1:
			c.Hist = append(c.Hist, HOp{K: "req", C: i}) // renew
		case 2:
			c.Hist = append(c.Hist, acquire(i, false, nil)...)
		case 3:
			c.Hist = append(c.Hist, HOp{K: "age", D: c.Pool.LeaseSec/2 - 13}) // never exactly on the expiry second
		case 4:
			c.Hist = append(c.Hist, HOp{K: "disc", C: i})
		case 5:
			c.Hist = append(c.Hist, HOp{K: "rel", C: i}, HOp{K: "disc", C: i})
		}
	}
	po := theEnv.survey(c, n)
	addProbes(r, &c, po, 5+r.Intn(4))
	return c
}

// guarded: the real slow path with addresses that read the same in both byte orders
func genGuarded(r *vh.Rng) Case {
	c := Case{Mode: "go", ServerMAC: pick(r, serverMACs), SetConfig: true}
	c.Pool = PoolCfg{Network: "10.0.0.0/24", Gateway: pick(r, []string{"1.0.0.1", "10.1.1.10", "10.0.0.10"}), Reserved: 9,
		LeaseSec: pick(r, []int{600, 3600, 86400, 16909060})}
	if c.Pool.Gateway == "10.0.0.10" {
		c.Pool.Network, c.Pool.Reserved = "11.0.0.0/24", 10 // first address handed out: 11.0.0.11
	}
	for i, k := 0, r.Intn(3); i < k; i++ {
		c.Pool.DNS = append(c.Pool.DNS, []string{"8.8.8.8", "1.1.1.1", "9.9.9.9", "4.2.2.4"}[(r.Intn(4)+i)%4])
	}
	c.ServerIP = pick(r, []string{"10.9.9.10", "172.16.16.172", "1.2.2.1"})
	if r.Chance(1, 5) {
		c.SetConfig, c.ServerIP = false, c.Pool.Gateway // no config entry: the program falls back to the gateway
	}
	relay := r.Chance(1, 3)
	var cid []byte
	if relay {
		cid = pick(r, cids[:4])
	}
	c.Hist = acquire(0, relay, cid)
	if r.Chance(1, 3) {
		c.Hist = append(c.Hist, HOp{K: "age", D: c.Pool.LeaseSec / 3}, HOp{K: "req", C: 0, Relay: relay, Cid: cid})
	}
	po := theEnv.survey(c, 1)
	po.guarded = true
	addProbes(r, &c, po, 5+r.Intn(4))
	return c
}

// net: real histories, map words rewritten to network order, frames inside the guards
func genNet(r *vh.Rng) Case {
	c := baseCase(r, "net")
	n := 1 + r.Intn(3)
	for i := 0; i < n; i++ {
		relay := r.Chance(1, 2)
		var cid []byte
		if relay {
			cid = cids[(i+r.Intn(2))%4]
			for j := 0; j < i; j++ { // distinct circuit-ids per client
				if string(c.Hist[2*j].Cid) == string(cid) {
					cid = append([]byte{byte('a' + i)}, cid[:len(cid)-1]...)
				}
			}
		}
		c.Hist = append(c.Hist, acquire(i, relay, cid)...)
	}
	for k := r.Intn(3); k > 0; k-- {
		i := r.Intn(n)
		switch r.Intn(4) {
		case 0:
			c.Hist = append(c.Hist, HOp{K: "rel", C: i}) // released: the probes must be passed
		case 1:
			c.Hist = append(c.Hist, HOp{K: "age", D: c.Pool.LeaseSec / 4})
		case 2:
			c.Hist = append(c.Hist, HOp{K: "vlan", C: i, STag: uint16(300 + i), CTag: uint16(r.Intn(2) * (40 + i))})
		case 3:
			c.Hist = append(c.Hist, HOp{K: "age", D: c.Pool.LeaseSec + 100}, HOp{K: "clean"}) // expired and swept
		}
	}
	// a circuit-id entry survives the sweep (marker 306) and a vlan entry survives everything: keep those out here
	keep := c.Hist[:0]
	swept := false
	for _, o := range c.Hist {
		if o.K == "clean" {
			swept = true
		}
		keep = append(keep, o)
	}
	c.Hist = keep
	if swept {
		for i := range c.Hist {
			c.Hist[i].Cid = nil
			if c.Hist[i].K == "vlan" {
				c.Hist[i] = HOp{K: "disc", C: c.Hist[i].C}
			}
		}
	}
	rel := map[int]bool{}
	for _, o := range c.Hist {
		if o.K == "rel" {
			rel[o.C] = true
		}
	}
	for i := range c.Hist {
		if c.Hist[i].K == "vlan" && rel[c.Hist[i].C] {
			c.Hist[i] = HOp{K: "disc", C: c.Hist[i].C}
		}
	}
	po := theEnv.survey(c, n)
	po.guarded = true
	addProbes(r, &c, po, 5+r.Intn(4))
	return c
}

// defect: one listed defect per case, isolated (network-order maps unless the defect is the byte order)
func genDefect(r *vh.Rng) Case {
	c := baseCase(r, "net")
	mac := clientMAC(0)
	c.Hist = acquire(0, false, nil)
	mk := func(s reqSpec, fs FrameSpec) Probe {
		s.mac = mac
		fs.MAC = mac
		fs.XID = uint32(r.U64())
		fs.Options = buildOptions(r, s)
		if fs.PadTo == 0 {
			fs.PadTo = 64
		}
		return Probe{Frame: buildFrame(fs), Route: "k"}
	}
	lay := layouts(mac)[0]
	k := r.Intn(8)
	switch k {
	case 0: // byte order
		c.Mode = "go"
		c.Note = "byte order of the IPv4 words"
	case 1: // IHL != 5
		c.Note = "IHL != 5"
	case 2: // DECLINE leaves the entry
		c.Hist = append(c.Hist, HOp{K: "dec", C: 0})
		c.Note = "DECLINE"
	case 3: // expired, not yet swept
		c.Hist = append(c.Hist, HOp{K: "age", D: c.Pool.LeaseSec + 50 + r.Intn(1000)})
		c.Note = "expired on the Unix clock"
	case 4: // expired and swept: the circuit-id entry stays
		c.Hist = acquire(0, true, cids[r.Intn(3)])
		c.Hist = append(c.Hist, HOp{K: "age", D: c.Pool.LeaseSec + 50}, HOp{K: "clean"})
		c.Note = "expired, swept, circuit-id entry left"
	case 5: // REQUEST for another address
		c.Note = "REQUEST the slow path answers with NAK"
	case 6: // message type read inside another option
		c.Note = "message type misread"
	case 7: // no server_config entry
		c.SetConfig = false
		c.Note = "server_config never written"
	}
	po := theEnv.survey(c, 1)
	ip := po.ips[0]
	for i := 0; i < 3; i++ {
		typ := byte(1 + 2*r.Intn(2))
		s := reqSpec{typ: typ, lay: lay}
		fs := FrameSpec{}
		if typ == 3 {
			s.reqIP = ip
		}
		switch k {
		case 1:
			fs.IHL = 6 + r.Intn(10)
		case 4:
			s.cid, s.cidPos = c.Hist[0].Cid, 1
			fs.Giaddr = relayIP
		case 5:
			s.typ, s.reqIP = 3, otherIP(ip)
		case 6:
			s.typ = pick(r, []byte{7, 3, 8})
			s.reqIP = nil
			fs.Ciaddr = ip
			s.lay = layout{pre: []byte{61, 7, 1, 53, 1, 1, 9, 9, 9}}
		}
		c.Probes = append(c.Probes, mk(s, fs))
	}
	return c
}

func le32(v uint32) []byte { b := make([]byte, 4); binary.LittleEndian.PutUint32(b, v); return b }
func le64(v uint64) []byte { b := make([]byte, 8); binary.LittleEndian.PutUint64(b, v); return b }

func rawAssignment(pool uint32, ip []byte, expiry uint64) []byte {
	v := append(le32(pool), ip...)
	v = append(v, le32(0)...)
	v = append(v, 1)
	v = append(v, le64(expiry)...)
	return append(v, 0, 0, 0, 0)
}

func rawPool(prefix byte, gw, d1, d2 []byte, lease uint32) []byte {
	v := append([]byte{10, 0, 0, 0, prefix, 0, 0, 0}, gw...)
	v = append(v, d1...)
	v = append(v, d2...)
	v = append(v, le32(lease)...)
	return append(v, 0, 0, 0, 0)
}

func macKey(m net.HardwareAddr) []byte {
	var u uint64
	for _, x := range m[:6] {
		u = u<<8 | uint64(x)
	}
	return le64(u)
}

// raw: harness-written maps: everything the real slow path cannot be steered into
func genRaw(r *vh.Rng) Case {
	c := Case{Mode: "raw", Raw: &RawMaps{}}
	zero := []byte{0, 0, 0, 0}
	prefix := byte(r.Intn(34))
	if r.Chance(1, 10) {
		prefix = byte(33 + r.Intn(223))
	}
	lease := pick(r, []uint32{0, 1, 600, 86400, 0x24924925, 0x7fffffff, 0xffffffff, uint32(r.U64())})
	d1, d2 := zero, zero
	switch r.Intn(4) {
	case 1:
		d1 = []byte{9, 9, 9, 10}
	case 2:
		d1, d2 = []byte{9, 9, 9, 10}, []byte{192, 0, 2, 53}
	case 3:
		d2 = []byte{192, 0, 2, 53} // secondary without primary: not written
	}
	c.Raw.Pool = [][2][]byte{{le32(1), rawPool(prefix, []byte{10, 0, 0, 1}, d1, d2, lease)}}
	c.Raw.Cfg = append([]byte{2, 0xaa, 0xbb, 0xcc, 0xdd, 1, 0, 0}, 10, 0, 0, 2, 7, 0, 0, 0)
	if r.Chance(1, 4) {
		c.Raw.Cfg = make([]byte, 16)
	}
	up := monoNow() / 1000000000
	expiry := pick(r, []uint64{1 << 40, up + 3600, up - 10, up + 5, 0, 1000, 1<<64 - 1})
	mac := clientMAC(0)
	ip := []byte{10, 0, 0, byte(20 + r.Intn(200))}
	pid := uint32(1)
	if r.Chance(1, 12) {
		pid = 2 // no such pool
	}
	a := rawAssignment(pid, ip, expiry)
	cid := pick(r, cids)
	ck := make([]byte, 32)
	copy(ck, cid)
	stag, ctag := uint16(100+r.Intn(3)), uint16(r.Intn(2)*200)
	switch r.Intn(4) {
	case 0, 1:
		c.Raw.Sub = [][2][]byte{{macKey(mac), a}}
	case 2:
		c.Raw.Cid = [][2][]byte{{ck, a}}
		if r.Bool() {
			c.Raw.Sub = [][2][]byte{{macKey(mac), rawAssignment(1, []byte{10, 0, 0, 9}, expiry)}}
		}
	case 3:
		vk := append(le32(0)[:0], byte(stag), byte(stag>>8), byte(ctag), byte(ctag>>8))
		c.Raw.Vlan = [][2][]byte{{vk, a}}
		if r.Bool() {
			c.Raw.Sub = [][2][]byte{{macKey(mac), rawAssignment(1, []byte{10, 0, 0, 9}, expiry)}}
		}
	}
	lays := layouts(mac)
	for i, n := 0, 4+r.Intn(4); i < n; i++ {
		s := reqSpec{mac: mac, typ: pick(r, []byte{1, 1, 3, 3, 3, 7, 0}), lay: pick(r, lays), prl: r.Bool(), noEnd: r.Chance(1, 8)}
		if s.typ == 3 && r.Bool() {
			s.reqIP = net.IP(ip)
		}
		fs := FrameSpec{MAC: mac, XID: uint32(r.U64()), Sname: r.Bool(), IHL: 5, PadTo: 64 + r.Intn(8)}
		if r.Chance(1, 3) {
			fs.IHL = r.Intn(16)
		}
		if r.Chance(1, 4) {
			fs.Flags = 0x8000
		}
		if r.Chance(1, 4) {
			fs.Ciaddr = net.IP(ip)
		}
		if r.Chance(1, 4) {
			fs.Giaddr = relayIP
		}
		if len(c.Raw.Cid) > 0 && r.Chance(3, 4) {
			s.cid, s.cidPos = cid, 1+r.Intn(3)
			if r.Chance(1, 4) {
				s.cid = cid[:1+r.Intn(len(cid))]
			}
			if len(s.lay.pre) != 0 && s.cidPos == 1 {
				s.cidPos = 2
			}
		}
		if len(c.Raw.Vlan) > 0 && r.Chance(3, 4) {
			fs.STag, fs.CTag = stag, ctag
			fs.Tags = pick(r, []int{1, 2, 3})
			fs.OuterAD = r.Bool()
			if r.Chance(1, 5) {
				fs.STag++
			}
		} else if r.Chance(1, 5) {
			fs.Tags, fs.STag, fs.CTag = 1+r.Intn(3), 7, 8
		}
		if r.Chance(1, 10) {
			fs.PadTo = r.Intn(64)
		}
		if r.Chance(1, 12) {
			fs.CutTotal = 10 - r.Intn(60)
		}
		fs.Options = buildOptions(r, s)
		p := Probe{Frame: buildFrame(fs), Route: "k"}
		if r.Chance(1, 4) {
			p.Route, p.NowRel = "n", pick(r, []string{"exp-1", "exp", "exp+1"})
			if expiry > 1<<33 {
				p.NowRel, p.Now = "", r.U64()
			}
		}
		c.Probes = append(c.Probes, p)
	}
	return c
}

// lens: one request, every frame length from 0 to its length + 64
func genLens(r *vh.Rng) Case {
	c := baseCase(r, "net")
	c.Hist = acquire(0, false, nil)
	po := theEnv.survey(c, 1)
	mac := clientMAC(0)
	s := reqSpec{mac: mac, typ: byte(1 + 2*r.Intn(2)), lay: layouts(mac)[r.Intn(7)], prl: true}
	if s.typ == 3 {
		s.reqIP = po.ips[0]
	}
	fs := FrameSpec{MAC: mac, XID: uint32(r.U64()), IHL: 5, PadTo: 64 + r.Intn(4), Tags: r.Intn(3)}
	fs.STag, fs.CTag = 11, 12
	fs.Options = buildOptions(r, s)
	full := buildFrame(fs)
	for n := 0; n <= len(full)+24; n++ {
		f := make([]byte, n)
		copy(f, full)
		p := Probe{Frame: f, Route: "k"}
		if n < 14 {
			p.Route, p.Now = "n", 5000000000
		}
		c.Probes = append(c.Probes, p)
	}
	return c
}

// ---------------------------------------------------------------- corpus witnesses (written once by the builder)

func writeCorpus(dir string) {
	r := vh.NewRng(303)
	base := func(mode string) Case {
		return Case{Mode: mode, Pool: PoolCfg{Network: "172.20.5.0/24", Gateway: "172.20.5.1", DNS: []string{"9.9.9.10", "192.0.2.53"}, LeaseSec: 3600},
			ServerIP: "172.20.5.254", ServerMAC: serverMACs[0], SetConfig: true, Hist: acquire(0, false, nil)}
	}
	mac := clientMAC(0)
	frame := func(s reqSpec, fs FrameSpec) Probe {
		s.mac, fs.XID = mac, 0x3903f326
		if fs.MAC == nil {
			fs.MAC = mac
		}
		if s.lay.pre == nil {
			s.lay = layouts(mac)[0]
		}
		fs.Options = buildOptions(r, s)
		if fs.PadTo == 0 {
			fs.PadTo = 64
		}
		return Probe{Frame: buildFrame(fs), Route: "k"}
	}
	ip := net.ParseIP("172.20.5.2") // the first address the pool hands out
	disc := reqSpec{typ: 1, prl: true}
	req := reqSpec{typ: 3, reqIP: ip, prl: true}
	w := map[string]Case{}
	c := base("go")
	c.Note = "K03a: addresses leave the fast path byte-reversed"
	c.Probes = []Probe{frame(disc, FrameSpec{}), frame(req, FrameSpec{})}
	w["k03a-byte-order"] = c
	c = base("net")
	c.Note = "regression for the IHL fix (K03b): IHL 6 / 15 requests of a cached client were answered with a bad checksum, short lengths and a cut-off END option; they must be passed unmodified"
	c.Probes = []Probe{frame(disc, FrameSpec{IHL: 6}), frame(req, FrameSpec{IHL: 15})}
	w["fixed-k03b-ihl"] = c
	c = base("net")
	c.Note = "K03c: lease expired on the Unix clock an hour ago, ktime is seconds since boot: still answered"
	c.Hist = append(c.Hist, HOp{K: "age", D: 7200})
	c.Probes = []Probe{frame(disc, FrameSpec{})}
	w["k03c-clock-domain"] = c
	c = base("net")
	c.Note = "regression for the DECLINE fix (K03d): after DHCPDECLINE the cache entries are gone and the DISCOVER is passed"
	c.Hist = append(c.Hist, HOp{K: "dec", C: 0})
	c.Probes = []Probe{frame(disc, FrameSpec{})}
	w["fixed-k03d-decline"] = c
	c = base("net")
	c.Note = "regression for 81d6b2b: an expired lease swept by cleanupExpiredLeases loses its circuit-id entry too; the relayed DISCOVER is passed"
	c.Hist = acquire(0, true, cids[0])
	c.Hist = append(c.Hist, HOp{K: "age", D: 3700}, HOp{K: "clean"})
	c.Probes = []Probe{frame(reqSpec{typ: 1, cid: cids[0], cidPos: 1}, FrameSpec{Giaddr: relayIP})}
	w["fixed-81d6b2b-swept-circuit-id-entry"] = c
	c = base("net")
	c.Note = "K03f: REQUEST for another address: slow path NAK (IP mismatch), fast path ACK"
	c.Probes = []Probe{frame(reqSpec{typ: 3, reqIP: otherIP(ip)}, FrameSpec{})}
	w["k03f-ack-instead-of-nak"] = c
	c = base("net")
	c.Note = "K03g: DHCPRELEASE whose client-id option contains 53,1,1 at offset 3: answered with an OFFER"
	c.Probes = []Probe{frame(reqSpec{typ: 7, lay: layout{pre: []byte{61, 7, 1, 53, 1, 1, 9, 9, 9}}}, FrameSpec{Ciaddr: ip})}
	w["k03g-type-misread"] = c
	c = base("net")
	c.SetConfig = false
	c.Note = "K03h: server_config never written (Start could not resolve the interface): server id = pool gateway, source MAC zero"
	c.Probes = []Probe{frame(disc, FrameSpec{})}
	w["k03h-no-server-config"] = c
	c = base("net")
	c.Note = "regression for fix c10bfec: 300-byte BOOTP request (12..63 option bytes) of a cached client must be passed unmodified"
	c.Probes = []Probe{frame(disc, FrameSpec{PadTo: 12}), frame(req, FrameSpec{PadTo: 60}), frame(disc, FrameSpec{PadTo: 63, Sname: true})}
	w["fixed-c10bfec-short-options"] = c
	c = base("net")
	c.Note = "K03j: subscriber_pools is keyed on six bytes: a DISCOVER / REQUEST of the EUI-64 client 02:00:5e:10:00:11:aa:bb (hlen 8, no lease) is answered with the binding of the Ethernet client 02:00:5e:10:00:11; userspace offers it another address / NAKs"
	ch := append(append([]byte{}, mac...), 0xaa, 0xbb, 1, 2, 3, 4, 5, 6, 7, 8)
	c.Probes = []Probe{frame(disc, FrameSpec{Chaddr: ch, HlenSet: true, Hlen: 8}), frame(req, FrameSpec{Chaddr: ch, HlenSet: true, Hlen: 8})}
	w["k03j-six-byte-key"] = c
	c = base("net")
	c.Note = "K03k: client 1 holds its own lease; its relayed DISCOVER arrives with the circuit-id client 0 is bound to: the kernel answers from the circuit-id entry (client 0's address), userspace from the lease of the hardware address"
	c.Hist = append(acquire(0, true, cids[0]), acquire(1, false, nil)...)
	pk := frame(reqSpec{typ: 1, cid: cids[0], cidPos: 1}, FrameSpec{Giaddr: relayIP, MAC: clientMAC(1)})
	c.Probes = []Probe{pk}
	w["k03k-circuit-before-mac"] = c
	for name, cs := range w {
		b, _ := json.MarshalIndent(map[string]interface{}{"desc": cs}, "", " ")
		must(os.WriteFile(filepath.Join(dir, name+".json"), b, 0o644))
	}
}
