// C03 correspondence driver.
//
// Implementation side, all real:
//   - dhcp.Server + dhcp.PoolManager + ebpf.Loader (pkg/dhcp, pkg/ebpf), the Loader's map handles injected
//     (verif hook) with the kernel maps of the freshly compiled bpf/dhcp_fastpath.o; short DHCP histories are
//     driven through the real packet handler, so the cache is written (and deleted from) by the real slow path;
//   - the compiled dhcp_fastpath_prog: BPF_PROG_TEST_RUN in the kernel and the native build (scripted clock).
//
// Per case the driver emits for Coq: the slow-path events it observed (Model: cache_step) with the raw dump of
// the kernel maps, then one Probe per request frame: frame, ktime, Unix time, what the real userspace server
// replies to that same request in that same state (slowview), and what the program did (verdict, frame').
package main

import (
	"bytes"
	"encoding/binary"
	"encoding/hex"
	"fmt"
	"net"
	"os"
	"path/filepath"
	"sort"
	"strings"
	"time"

	"verifharness/bpfrun"
	"verifharness/vh"

	"github.com/codelaboratoryltd/bng/pkg/dhcp"
	bngebpf "github.com/codelaboratoryltd/bng/pkg/ebpf"
	"github.com/insomniacslk/dhcp/dhcpv4"
	"go.uber.org/zap"
	"golang.org/x/sys/unix"
)

// ---------------------------------------------------------------- case description (replayable)

type PoolCfg struct {
	Network  string   `json:"network"` // CIDR
	Gateway  string   `json:"gateway"`
	DNS      []string `json:"dns,omitempty"`
	LeaseSec int      `json:"lease_sec"`
	Reserved int      `json:"reserved,omitempty"` // ReservedStart
}

type HOp struct {
	K     string `json:"k"`                // disc req rel dec age clean vlan
	C     int    `json:"c"`                // client index
	ReqIP string `json:"req_ip,omitempty"` // req/dec/rel: option 50 ("" = kind's default: the address offered to / held by the client for req and dec, absent for rel; "none" = absent; "other" = another address of the pool; else literal)
	Ci    string `json:"ci,omitempty"`     // ciaddr ("" = kind's default: the held address for rel, absent otherwise; "none" | "own" | "other" | literal)
	Relay bool   `json:"relay,omitempty"`
	Cid   []byte `json:"cid,omitempty"`
	D     int    `json:"d,omitempty"` // age: seconds
	STag  uint16 `json:"stag,omitempty"`
	CTag  uint16 `json:"ctag,omitempty"`
}

type Probe struct {
	Frame  []byte `json:"frame"`
	Route  string `json:"route"`             // "k": kernel test-run (+ native replay with the same clock); "n": native only
	Now    uint64 `json:"now,omitempty"`     // route n: absolute ktime (ns) when NowRel is ""
	NowRel string `json:"now_rel,omitempty"` // route n: "exp-1" | "exp" | "exp+1": seconds relative to the client's lease_expiry
	C      int    `json:"c"`                 // client the frame was generated for (tags only)
	At     int    `json:"at,omitempty"`      // probe after this many history ops (0 = after all of them)
}

type RawMaps struct { // raw mode: map contents written by the harness
	Sub  [][2][]byte `json:"sub,omitempty"`
	Vlan [][2][]byte `json:"vlan,omitempty"`
	Cid  [][2][]byte `json:"cid,omitempty"`
	Pool [][2][]byte `json:"pool,omitempty"`
	Cfg  []byte      `json:"cfg,omitempty"`
}

type Case struct {
	Mode      string   `json:"mode"` // go | net | raw
	Pool      PoolCfg  `json:"pool"`
	ServerIP  string   `json:"server_ip"`
	ServerMAC []byte   `json:"server_mac"`
	SetConfig bool     `json:"set_config"`
	Hist      []HOp    `json:"hist,omitempty"`
	Raw       *RawMaps `json:"raw,omitempty"`
	Probes    []Probe  `json:"probes"`
	Note      string   `json:"note,omitempty"`
	HW        map[int][]byte `json:"hw,omitempty"` // client index -> hardware address (0..16 bytes; default: clientMAC)
}

func (c Case) hw(i int) []byte {
	if h, ok := c.HW[i]; ok {
		return h
	}
	return clientMAC(i)
}

const prog = "dhcp_fastpath_prog"

var mapNames = []string{"subscriber_pools", "vlan_subscriber_pools", "circuit_id_subscribers", "ip_pools"}

type env struct {
	obj *bpfrun.Object
	nat *bpfrun.Native
	// evidence counters
	kernelRuns, nativeRuns, kvCompared, kvDisagree, faults int
	disagreeNote                                           string
	slowReplies, slowSilent                                int
	badChecksums, secondFolds                              int
}

func must(err error) {
	if err != nil {
		fmt.Fprintln(os.Stderr, "c03 driver:", err)
		os.Exit(3)
	}
}

func monoNow() uint64 {
	var ts unix.Timespec
	unix.ClockGettime(unix.CLOCK_MONOTONIC, &ts)
	return uint64(ts.Sec)*1000000000 + uint64(ts.Nsec)
}

func clientMAC(i int) net.HardwareAddr {
	return net.HardwareAddr{0x02, 0x00, 0x5e, 0x10, 0x00, byte(0x11 + i)}
}

// ---------------------------------------------------------------- frame builder

type FrameSpec struct {
	Tags     int  // 0, 1 (802.1Q), 2 (802.1ad + 802.1Q), 3 (802.1Q + 802.1Q)
	OuterAD  bool // single tag with TPID 0x88a8
	STag     uint16
	CTag     uint16
	IHL      int
	Version  int
	MAC      net.HardwareAddr // chaddr and Ethernet source
	SrcMAC   net.HardwareAddr // Ethernet source when relayed
	XID      uint32
	Flags    uint16
	Ciaddr   net.IP
	Giaddr   net.IP
	Sname    bool // non-zero sname/file content
	Options  []byte
	PadTo    int // pad the options area with zeros to at least this many bytes
	CutTotal int // != 0: final frame length = natural length + CutTotal (negative: truncate, positive: append zeros)
	// BOOTP / IP header fields the reply construction must carry over or rewrite (zero value = the usual request)
	Chaddr  []byte // all 16 chaddr bytes (nil: MAC followed by zeros)
	HlenSet bool
	Hlen    byte
	Htype   byte // 0 = 1 (Ethernet)
	HopsSet bool
	Hops    byte
	Secs    uint16
	TOS     byte
	IPIDSet bool
	IPID    uint16
	Frag    uint16
	TTL     byte
}

func ipChecksum(h []byte) uint16 {
	var s uint32
	for i := 0; i+1 < len(h); i += 2 {
		s += uint32(h[i])<<8 | uint32(h[i+1])
	}
	for s>>16 != 0 {
		s = s&0xffff + s>>16
	}
	return ^uint16(s)
}

func ip4(s net.IP) []byte {
	if s == nil {
		return []byte{0, 0, 0, 0}
	}
	return []byte(s.To4())
}

func bootp(fs FrameSpec) []byte {
	b := make([]byte, 240)
	b[0], b[1], b[2] = 1, 1, 6
	if fs.Htype != 0 {
		b[1] = fs.Htype
	}
	if fs.HlenSet {
		b[2] = fs.Hlen
	}
	if fs.Giaddr != nil {
		b[3] = 1
	}
	if fs.HopsSet {
		b[3] = fs.Hops
	}
	binary.BigEndian.PutUint16(b[8:], fs.Secs)
	binary.BigEndian.PutUint32(b[4:], fs.XID)
	binary.BigEndian.PutUint16(b[10:], fs.Flags)
	copy(b[12:], ip4(fs.Ciaddr))
	copy(b[24:], ip4(fs.Giaddr))
	copy(b[28:44], fs.MAC)
	if fs.Chaddr != nil {
		copy(b[28:44], make([]byte, 16))
		copy(b[28:44], fs.Chaddr)
	}
	if fs.Sname {
		copy(b[44:], []byte("bootserver.example"))
		copy(b[108:], []byte("/tftpboot/pxelinux.0"))
	}
	copy(b[236:], []byte{99, 130, 83, 99})
	o := append([]byte(nil), fs.Options...)
	for len(o) < fs.PadTo {
		o = append(o, 0)
	}
	return append(b, o...)
}

func buildFrame(fs FrameSpec) []byte {
	payload := bootp(fs)
	ihl := fs.IHL
	if ihl == 0 {
		ihl = 5
	}
	ver := fs.Version
	if ver == 0 {
		ver = 4
	}
	hl := ihl * 4
	if hl < 20 {
		hl = 20 // the bytes of a 20-byte header are always there; the IHL field lies
	}
	udp := make([]byte, 8)
	binary.BigEndian.PutUint16(udp[0:], 68)
	if fs.Giaddr != nil {
		binary.BigEndian.PutUint16(udp[0:], 67)
	}
	binary.BigEndian.PutUint16(udp[2:], 67)
	binary.BigEndian.PutUint16(udp[4:], uint16(8+len(payload)))
	iph := make([]byte, hl)
	iph[0] = byte(ver<<4 | ihl&15)
	binary.BigEndian.PutUint16(iph[2:], uint16(hl+8+len(payload)))
	binary.BigEndian.PutUint16(iph[4:], uint16(fs.XID))
	if fs.IPIDSet {
		binary.BigEndian.PutUint16(iph[4:], fs.IPID)
	}
	iph[1] = fs.TOS
	binary.BigEndian.PutUint16(iph[6:], fs.Frag)
	iph[8], iph[9] = 128, 17
	if fs.TTL != 0 {
		iph[8] = fs.TTL
	}
	copy(iph[12:], ip4(fs.Ciaddr))
	copy(iph[16:], []byte{255, 255, 255, 255})
	if fs.Giaddr != nil {
		copy(iph[12:], ip4(fs.Giaddr))
		copy(iph[16:], []byte{10, 9, 8, 7})
	}
	for i := 20; i < hl; i++ {
		iph[i] = 1 // NOP options
	}
	binary.BigEndian.PutUint16(iph[10:], ipChecksum(iph))
	src := append([]byte(nil), fs.MAC...)
	if fs.SrcMAC != nil {
		src = fs.SrcMAC
	}
	for len(src) < 6 {
		src = append(src, 0)
	}
	src = src[:6]
	f := append([]byte{255, 255, 255, 255, 255, 255}, src...)
	switch fs.Tags {
	case 1:
		tp := []byte{0x81, 0x00}
		if fs.OuterAD {
			tp = []byte{0x88, 0xa8}
		}
		f = append(f, tp[0], tp[1], byte(fs.STag>>8)|0x20, byte(fs.STag))
	case 2:
		f = append(f, 0x88, 0xa8, byte(fs.STag>>8), byte(fs.STag), 0x81, 0x00, byte(fs.CTag>>8)|0x60, byte(fs.CTag))
	case 3:
		f = append(f, 0x81, 0x00, byte(fs.STag>>8), byte(fs.STag), 0x81, 0x00, byte(fs.CTag>>8), byte(fs.CTag))
	}
	f = append(f, 0x08, 0x00)
	f = append(f, iph...)
	f = append(f, udp...)
	f = append(f, payload...)
	if fs.CutTotal < 0 {
		n := len(f) + fs.CutTotal
		if n < 0 {
			n = 0
		}
		f = f[:n]
	} else if fs.CutTotal > 0 {
		f = append(f, make([]byte, fs.CutTotal)...)
	}
	return f
}

// udpPayload: the DHCP message a frame carries for the userspace server: Ethernet (+VLAN tags), IPv4 version 4
// with IHL >= 5, UDP to port 67, the UDP payload up to the end of the frame. (The IP/UDP length fields and
// checksums are not consulted: the property is about the DHCP exchange, not about the host stack's filters.)
func udpPayload(f []byte) ([]byte, bool) {
	if len(f) < 14 {
		return nil, false
	}
	l2 := 14
	et := binary.BigEndian.Uint16(f[12:])
	if et == 0x8100 || et == 0x88a8 {
		if len(f) < 18 {
			return nil, false
		}
		et = binary.BigEndian.Uint16(f[16:])
		l2 = 18
		if et == 0x8100 {
			if len(f) < 22 {
				return nil, false
			}
			et = binary.BigEndian.Uint16(f[20:])
			l2 = 22
		}
	}
	if et != 0x0800 || len(f) < l2+20 {
		return nil, false
	}
	ip := f[l2:]
	if ip[0]>>4 != 4 || ip[0]&15 < 5 || ip[9] != 17 {
		return nil, false
	}
	hl := int(ip[0]&15) * 4
	if len(ip) < hl+8 || binary.BigEndian.Uint16(ip[hl+2:]) != 67 {
		return nil, false
	}
	return ip[hl+8:], true
}

// ---------------------------------------------------------------- the real slow path on real kernel maps

type world struct {
	e       *env
	c       Case
	loader  *bngebpf.Loader
	pm      *dhcp.PoolManager
	srv     *dhcp.Server
	pool    *dhcp.Pool
	quiet   bool           // a throw-away copy (slow view, survey): no Coq items, no dumps
	items   []string       // Coq (op, out) pairs
	status  map[string]int // MAC string -> 3 released / 4 declined / 2 expired (removed by cleanup)
	cstatus map[string]int // hex(circuit-id) -> same
	offered map[int]net.IP // client -> last address offered/acked
	aged    int
}

func (e *env) clearMaps() {
	for _, m := range mapNames {
		must(e.obj.Clear(m))
	}
	must(e.obj.Put("server_config", []byte{0, 0, 0, 0}, make([]byte, 16)))
}

func prefixOf(cidr string) (net.IP, int) {
	_, n, err := net.ParseCIDR(cidr)
	must(err)
	ones, _ := n.Mask.Size()
	return n.IP.To4(), ones
}

func coqIP(s string) string { return cb(net.ParseIP(s).To4()) }

func (w *world) emit(op, out string) {
	if !w.quiet {
		w.items = append(w.items, vh.Pair(op, out))
	}
}

func macBytes(s string) []byte { // inverse of net.HardwareAddr.String for any length
	if s == "" {
		return []byte{}
	}
	var out []byte
	for _, h := range strings.Split(s, ":") {
		var b byte
		fmt.Sscanf(h, "%02x", &b)
		out = append(out, b)
	}
	return out
}

// snap: the observation after every handled message: raw kernel maps, lease table, circuit-ID index
func (w *world) snap() {
	if w.quiet {
		return
	}
	d := w.e.dumpMaps()
	sn := w.srv.VerifC02Snapshot(1)
	type ent struct{ k, hw, ip []byte }
	var ls, ix []ent
	for _, l := range sn.Leases {
		hw := macBytes(l.MAC)
		ls = append(ls, ent{hw, hw, l.IP.To4()})
	}
	for k, l := range sn.ByCircuitID {
		kb, _ := hex.DecodeString(k)
		ix = append(ix, ent{kb, macBytes(l.MAC), l.IP.To4()})
	}
	sort.Slice(ls, func(a, b int) bool { return bytes.Compare(ls[a].k, ls[b].k) < 0 })
	sort.Slice(ix, func(a, b int) bool { return bytes.Compare(ix[a].k, ix[b].k) < 0 })
	if !fullSnap {
		// FNV-1a over the serialisation Model/XdpDhcp.v snap_digest defines
		h := uint64(14695981039346656037)
		put := func(v uint64) { h = (h ^ v) * 1099511628211 }
		pb := func(b []byte) {
			put(uint64(len(b)))
			for _, x := range b {
				put(uint64(x))
			}
		}
		for i := range d.m {
			put(uint64(len(d.m[i])))
			for _, kv := range d.m[i] {
				pb(kv.Key)
				pb(kv.Value)
			}
		}
		pb(d.cfg)
		for _, es := range [][]ent{ls, ix} {
			put(uint64(len(es)))
			for _, x := range es {
				pb(x.k)
				pb(x.hw)
				pb(x.ip)
			}
		}
		w.emit("Snap", fmt.Sprintf("OSnapH %d", h))
		return
	}
	str := func(es []ent) string {
		var it []string
		for _, x := range es {
			it = append(it, vh.Pair(cb(x.k), vh.Pair(cb(x.hw), cb(x.ip))))
		}
		return vh.List(it)
	}
	w.emit("Snap", fmt.Sprintf("OSnap %s %s %s %s %s %s %s", coqKV(d.m[0]), coqKV(d.m[1]), coqKV(d.m[2]), coqKV(d.m[3]), cb(d.cfg), str(ls), str(ix)))
}

// fullSnap: snapshots written in full (replays, VERIF_C03_FULLSNAP) instead of as digests
var fullSnap = os.Getenv("VERIF_C03_FULLSNAP") != ""

func (e *env) newWorld(c Case, quiet bool) *world {
	w := &world{e: e, c: c, quiet: quiet, status: map[string]int{}, cstatus: map[string]int{}, offered: map[int]net.IP{}}
	e.clearMaps()
	var err error
	w.loader, err = bngebpf.NewLoader("verif0", zap.NewNop())
	must(err)
	w.loader.VerifInjectDHCPMaps(bngebpf.VerifDHCPMaps{
		SubscriberPools: e.obj.Map("subscriber_pools"), VLANSubscriberPools: e.obj.Map("vlan_subscriber_pools"),
		IPPools: e.obj.Map("ip_pools"), Stats: e.obj.Map("stats_map"), ServerConfig: e.obj.Map("server_config"),
		CircuitIDMap: e.obj.Map("circuit_id_map"), CircuitIDSubscribers: e.obj.Map("circuit_id_subscribers")})
	w.pm = dhcp.NewPoolManager(w.loader, zap.NewNop())
	w.pool, err = dhcp.NewPool(dhcp.PoolConfig{ID: 1, Name: "p1", Network: c.Pool.Network, Gateway: c.Pool.Gateway,
		DNSServers: c.Pool.DNS, LeaseTime: time.Duration(c.Pool.LeaseSec) * time.Second,
		ClientClass: dhcp.ClientClassResidential, VlanID: 0, ReservedStart: c.Pool.Reserved})
	must(err)
	must(w.pm.AddPool(w.pool))
	nw, pl := prefixOf(c.Pool.Network)
	var dns []string
	for _, d := range c.Pool.DNS {
		dns = append(dns, coqIP(d))
	}
	w.emit(fmt.Sprintf("Ev (GPool {| gp_id := 1; gp_net := %s; gp_prefix := %d; gp_gw := %s; gp_dns := %s; gp_lease := %d |})",
		cb(nw), pl, coqIP(c.Pool.Gateway), vh.List(dns), c.Pool.LeaseSec), "OUnit")
	w.srv, err = dhcp.NewServer(dhcp.ServerConfig{Interface: "verif0", ServerIP: net.ParseIP(c.ServerIP)}, w.loader, w.pm, zap.NewNop())
	must(err)
	if c.SetConfig {
		// what Server.Start does with the interface's address and index (Start itself binds a socket)
		must(w.loader.SetServerConfig(net.HardwareAddr(c.ServerMAC), net.ParseIP(c.ServerIP), 7))
		w.emit(fmt.Sprintf("Ev (GConfig %s %s 7)", cb(c.ServerMAC), coqIP(c.ServerIP)), "OUnit")
	}
	w.snap()
	return w
}

func opt82(cid []byte) []byte {
	if len(cid) == 0 {
		return nil
	}
	sub := append([]byte{1, byte(len(cid))}, cid...)
	return append([]byte{82, byte(len(sub))}, sub...)
}

var relayIP = net.IPv4(10, 200, 0, 1)

// which address a history op names: mode "" / "none" / "own" / "other" / literal
func (w *world) addr(mode string, own net.IP) net.IP {
	switch mode {
	case "", "none":
		return nil
	case "own":
		return own
	case "other":
		if own == nil {
			return net.ParseIP(w.c.Pool.Gateway)
		}
		return otherIP(own)
	}
	return net.ParseIP(mode)
}

func (w *world) request(kind byte, o HOp) *dhcpv4.DHCPv4 {
	hw := w.c.hw(o.C)
	fs := FrameSpec{MAC: hw, Chaddr: append([]byte{}, hw...), HlenSet: true, Hlen: byte(len(hw)), XID: 0x1000 + uint32(len(w.items))}
	opts := []byte{53, 1, kind}
	own := w.offered[o.C]
	rq := o.ReqIP
	if rq == "" && (kind == 3 || kind == 4) {
		rq = "own"
	}
	if ip := w.addr(rq, own); ip != nil {
		opts = append(opts, 50, 4)
		opts = append(opts, ip.To4()...)
	}
	ci := o.Ci
	if ci == "" && kind == 7 {
		ci = "own"
	}
	fs.Ciaddr = w.addr(ci, own)
	if o.Relay {
		fs.Giaddr = relayIP
	}
	opts = append(opts, opt82(o.Cid)...)
	opts = append(opts, 255)
	fs.Options = opts
	req, err := dhcpv4.FromBytes(bootp(fs))
	must(err)
	return req
}

type leaseSnap map[string]dhcp.VerifC02Lease

func (w *world) leases() leaseSnap {
	s := leaseSnap{}
	for _, l := range w.srv.VerifC02Snapshot(1).Leases {
		s[l.MAC] = l
	}
	return s
}

func (w *world) ageCache(d int) {
	for _, m := range mapNames[:3] {
		kvs, err := w.e.obj.Dump(m)
		must(err)
		for _, kv := range kvs {
			v := append([]byte(nil), kv.Value...)
			binary.LittleEndian.PutUint64(v[13:], binary.LittleEndian.Uint64(v[13:])-uint64(d))
			must(w.e.obj.Put(m, kv.Key, v))
		}
	}
}

var peer = &net.UDPAddr{IP: net.IPv4bcast, Port: 68}

// apply: one message through the real handler.  The Coq side is told WHICH message was handled (and, for
// a REQUEST, that it was ACKed, with the values of the new lease); what that does to the lease table, the
// circuit-ID index and the cache is the Model's business and is compared with the snapshot taken afterwards.
func (w *world) apply(o HOp) {
	before := w.leases()
	hw := w.c.hw(o.C)
	mac := net.HardwareAddr(hw).String()
	switch o.K {
	case "disc":
		rs, _, err := w.srv.VerifC02Handle(w.request(1, o), peer)
		must(err)
		if len(rs) == 1 && rs[0].MessageType() == dhcpv4.MessageTypeOffer {
			w.offered[o.C] = rs[0].YourIPAddr
		}
	case "req":
		rs, _, err := w.srv.VerifC02Handle(w.request(3, o), peer)
		must(err)
		if len(rs) == 1 && rs[0].MessageType() == dhcpv4.MessageTypeAck {
			l, ok := w.leases()[mac]
			if !ok {
				must(fmt.Errorf("ACK without lease for %s", mac))
			}
			w.offered[o.C] = l.IP
			delete(w.status, mac)
			if len(l.CircuitID) > 0 {
				delete(w.cstatus, fmt.Sprintf("%x", l.CircuitID))
			}
			w.emit(fmt.Sprintf("Sv (SAck %s %s %d %d %d %d %s %v)", cb(hw), cb(l.IP.To4()),
				l.PoolID, w.pool.VlanID, uint8(w.pool.ClientClass), l.ExpiresAt.Unix(), cb(o.Cid), o.Relay), "OUnit")
		}
	case "rel", "dec":
		kind, st, ev := byte(7), 3, "SRelease"
		if o.K == "dec" {
			kind, st, ev = 4, 4, "SDecline"
		}
		_, _, err := w.srv.VerifC02Handle(w.request(kind, o), peer)
		must(err)
		if l, had := before[mac]; had {
			if _, has := w.leases()[mac]; !has {
				w.status[mac] = st
				if len(l.CircuitID) > 0 {
					w.cstatus[fmt.Sprintf("%x", l.CircuitID)] = st
				}
			}
		}
		w.emit(fmt.Sprintf("Sv (%s %s)", ev, cb(hw)), "OUnit")
	case "age":
		w.srv.VerifC02AgeLeases(time.Duration(o.D) * time.Second)
		w.ageCache(o.D)
		w.aged += o.D
		w.emit(fmt.Sprintf("Ev (GAge %d)", o.D), "OUnit")
	case "clean":
		w.srv.VerifC02CleanupTick()
		after := w.leases()
		var gone []string
		for m := range before {
			if _, has := after[m]; !has {
				gone = append(gone, m)
			}
		}
		sort.Strings(gone)
		for _, m := range gone {
			l := before[m]
			w.status[m] = 2
			if len(l.CircuitID) > 0 {
				w.cstatus[fmt.Sprintf("%x", l.CircuitID)] = 2
			}
			w.emit(fmt.Sprintf("Sv (SExpire %s)", cb(macBytes(m))), "OUnit")
		}
	case "vlan":
		a, err := w.loader.GetSubscriber(bngebpf.MACToUint64(hw))
		if err == nil {
			must(w.loader.AddVLANSubscriber(o.STag, o.CTag, a))
		}
		w.emit(fmt.Sprintf("Ev (GVlan %d %d %s)", o.STag, o.CTag, cb(hw)), "OUnit")
	default:
		must(fmt.Errorf("unknown history op %q", o.K))
	}
	w.snap()
}

// build: a throw-away copy of the world after the first k history ops
func (e *env) build(c Case, k int) *world {
	w := e.newWorld(c, true)
	if k > len(c.Hist) {
		k = len(c.Hist)
	}
	for _, o := range c.Hist[:k] {
		w.apply(o)
	}
	return w
}

// slowview: what the real server does with this frame in the current state (the state is consumed)
type slowView struct {
	Kind, Status               int
	Yi, Sid, Mask, Router, DNS []byte
	Lease                      uint32
}

func (w *world) slow(f []byte) slowView {
	var sv slowView
	pl, ok := udpPayload(f)
	if !ok {
		return sv
	}
	req, err := dhcpv4.FromBytes(pl)
	if err != nil {
		return sv
	}
	mac := req.ClientHWAddr.String()
	// status of the subscriber userspace identifies: by MAC, else (relayed) by circuit-id
	now := time.Now()
	snap := w.srv.VerifC02Snapshot(1)
	found := false
	for _, l := range snap.Leases {
		if l.MAC == mac {
			found = true
			sv.Status = 1
			if now.After(l.ExpiresAt) {
				sv.Status = 2
			}
		}
	}
	if !found {
		sv.Status = w.status[mac]
		if sv.Status == 0 && !req.GatewayIPAddr.IsUnspecified() {
			if rai := req.RelayAgentInfo(); rai != nil {
				if cid := rai.Get(dhcpv4.GenericOptionCode(1)); len(cid) > 0 {
					k := fmt.Sprintf("%x", cid)
					if l, ok := snap.ByCircuitID[k]; ok {
						sv.Status = 1
						if now.After(l.ExpiresAt) {
							sv.Status = 2
						}
					} else {
						sv.Status = w.cstatus[k]
					}
				}
			}
		}
	}
	rs, _, err := w.srv.VerifC02Handle(req, peer)
	if err != nil || len(rs) != 1 {
		w.e.slowSilent++
		return sv
	}
	w.e.slowReplies++
	r := rs[0]
	sv.Kind = int(r.MessageType())
	sv.Yi = ip4(r.YourIPAddr)
	sv.Sid = r.Options.Get(dhcpv4.OptionServerIdentifier)
	sv.Mask = r.Options.Get(dhcpv4.OptionSubnetMask)
	sv.Router = r.Options.Get(dhcpv4.OptionRouter)
	sv.DNS = r.Options.Get(dhcpv4.OptionDomainNameServer)
	if lt := r.Options.Get(dhcpv4.OptionIPAddressLeaseTime); len(lt) == 4 {
		sv.Lease = binary.BigEndian.Uint32(lt)
	}
	return sv
}

// frame as a Coq term: zero runs compressed, literal runs packed seven bytes per uint63 literal
// (Model/XdpDhcpWire.v wz): unz [B (wz n [..]); Z n; ...]
// cb: a byte string as a Coq term; four bytes and more are packed (one numeral per seven bytes)
func cb(b []byte) string {
	if len(b) < 4 {
		return vh.Bytes(b)
	}
	return "(" + coqWords(b)[2:] + ")"
}

func coqWords(b []byte) string {
	var ws []string
	for i := 0; i < len(b); i += 7 {
		j := i + 7
		if j > len(b) {
			j = len(b)
		}
		var v uint64
		for _, x := range b[i:j] {
			v = v<<8 | uint64(x)
		}
		ws = append(ws, fmt.Sprintf("%d", v))
	}
	return fmt.Sprintf("B (wz %d [%s]%%uint63)", len(b), strings.Join(ws, ";"))
}

func coqFrame(f []byte) string {
	var ch []string
	i := 0
	for i < len(f) {
		j := i
		for j < len(f) && f[j] == 0 {
			j++
		}
		if j-i >= 8 {
			ch = append(ch, fmt.Sprintf("Z %d", j-i))
			i = j
			continue
		}
		// literal run up to the next long zero run
		k := i
		for k < len(f) {
			if f[k] == 0 {
				z := k
				for z < len(f) && f[z] == 0 {
					z++
				}
				if z-k >= 8 {
					break
				}
				k = z
				continue
			}
			k++
		}
		ch = append(ch, coqWords(f[i:k]))
		i = k
	}
	return "(unz " + vh.List(ch) + ")"
}

func (sv slowView) coq() string {
	return fmt.Sprintf("{| sv_kind := %d; sv_yiaddr := %s; sv_sid := %s; sv_mask := %s; sv_router := %s; sv_dns := %s; sv_lease := %d; sv_status := %d |}",
		sv.Kind, cb(sv.Yi), cb(sv.Sid), cb(sv.Mask), cb(sv.Router), cb(sv.DNS), sv.Lease, sv.Status)
}

// ---------------------------------------------------------------- maps: dump, transform, sync

type dump struct {
	m   [4][]bpfrun.KV
	cfg []byte
}

func (e *env) dumpMaps() dump {
	var d dump
	for i, m := range mapNames {
		kvs, err := e.obj.Dump(m)
		must(err)
		d.m[i] = kvs
	}
	v, ok, err := e.obj.Lookup("server_config", []byte{0, 0, 0, 0})
	must(err)
	if !ok {
		must(fmt.Errorf("server_config[0] missing"))
	}
	d.cfg = v
	return d
}

func coqKV(kvs []bpfrun.KV) string {
	var it []string
	for _, kv := range kvs {
		it = append(it, vh.Pair(cb(kv.Key), cb(kv.Value)))
	}
	return vh.List(it)
}

func (d dump) coqDump() string {
	return fmt.Sprintf("ODump %s %s %s %s %s", coqKV(d.m[0]), coqKV(d.m[1]), coqKV(d.m[2]), coqKV(d.m[3]), cb(d.cfg))
}
func (d dump) coqMaps(origin int) string {
	return fmt.Sprintf("{| m_sub := %s; m_vlan := %s; m_cid := %s; m_pool := %s; m_cfg := Some %s; m_origin := %d |}",
		coqKV(d.m[0]), coqKV(d.m[1]), coqKV(d.m[2]), coqKV(d.m[3]), cb(d.cfg), origin)
}

func rev4(b []byte, off int) {
	b[off], b[off+1], b[off+2], b[off+3] = b[off+3], b[off+2], b[off+1], b[off]
}

// netOrder rewrites every IPv4 word of the maps into network byte order (what the C reads them as)
func (d dump) netOrder() dump {
	var o dump
	for i := range d.m {
		for _, kv := range d.m[i] {
			v := append([]byte(nil), kv.Value...)
			if i < 3 {
				rev4(v, 4)
			} else {
				rev4(v, 0)
				rev4(v, 8)
				rev4(v, 12)
				rev4(v, 16)
			}
			o.m[i] = append(o.m[i], bpfrun.KV{Key: kv.Key, Value: v})
		}
	}
	o.cfg = append([]byte(nil), d.cfg...)
	rev4(o.cfg, 8)
	return o
}

func (e *env) loadKernel(d dump) {
	e.clearMaps()
	for i, m := range mapNames {
		for _, kv := range d.m[i] {
			must(e.obj.Put(m, kv.Key, kv.Value))
		}
	}
	must(e.obj.Put("server_config", []byte{0, 0, 0, 0}, d.cfg))
}

func (e *env) loadNative(d dump) {
	for i, m := range mapNames {
		must(e.nat.Clear(m))
		for _, kv := range d.m[i] {
			must(e.nat.Put(m, kv.Key, kv.Value))
		}
	}
	must(e.nat.Put("server_config", []byte{0, 0, 0, 0}, d.cfg))
}

func rawDump(r *RawMaps) dump {
	var d dump
	src := [4][][2][]byte{r.Sub, r.Vlan, r.Cid, r.Pool}
	for i := range src {
		for _, kv := range src[i] {
			d.m[i] = append(d.m[i], bpfrun.KV{Key: kv[0], Value: kv[1]})
		}
		sort.Slice(d.m[i], func(a, b int) bool { return bytes.Compare(d.m[i][a].Key, d.m[i][b].Key) < 0 })
	}
	d.cfg = r.Cfg
	if len(d.cfg) != 16 {
		d.cfg = make([]byte, 16)
	}
	return d
}

// ---------------------------------------------------------------- running the program

type xdpOut struct {
	V    int
	Data []byte
}

func (e *env) runNative(f []byte, now uint64) xdpOut {
	must(e.nat.Clock(now, 0))
	r, err := e.nat.Run(prog, f, nil)
	must(err)
	e.nativeRuns++
	if r.Fault {
		e.faults++
		return xdpOut{V: 0, Data: f}
	}
	return xdpOut{V: int(r.Verdict), Data: r.Data}
}

func (e *env) runKernel(f []byte) (xdpOut, uint64) {
	var v uint32
	var out []byte
	var now uint64
	for try := 0; try < 5; try++ {
		t0 := monoNow()
		var err error
		v, out, err = e.obj.RunXDP(prog, f)
		must(err)
		now = monoNow()
		if t0/1000000000 == now/1000000000 {
			break
		}
	}
	e.kernelRuns++
	return xdpOut{V: int(v), Data: out}, now
}

func expiryOf(d dump, hw []byte) (uint64, bool) {
	key := make([]byte, 8)
	binary.LittleEndian.PutUint64(key, bngebpf.MACToUint64(hw))
	for _, kv := range d.m[0] {
		if bytes.Equal(kv.Key, key) {
			return binary.LittleEndian.Uint64(kv.Value[13:]), true
		}
	}
	return 0, false
}

func lenClass(n int) string {
	switch {
	case n < 14:
		return "len:<14"
	case n < 282:
		return "len:<282"
	case n < 346:
		return "len:<346"
	default:
		return "len:>=346"
	}
}

// the IPv4 header of a frame (offset), following the tags as the program does
func l3Off(f []byte) (int, bool) {
	if len(f) < 14 {
		return 0, false
	}
	l2 := 14
	et := binary.BigEndian.Uint16(f[12:])
	if et == 0x8100 || et == 0x88a8 {
		if len(f) < 18 {
			return 0, false
		}
		et = binary.BigEndian.Uint16(f[16:])
		l2 = 18
		if et == 0x8100 {
			if len(f) < 22 {
				return 0, false
			}
			et = binary.BigEndian.Uint16(f[20:])
			l2 = 22
		}
	}
	if et != 0x0800 || len(f) < l2+20 {
		return 0, false
	}
	return l2, true
}

// probeAll: the probes of one probe point against the current kernel maps [d] (already loaded)
func (e *env) probeAll(c Case, k int, idx []int, active dump, unow uint64, tags map[string]bool) []string {
	e.loadNative(active)
	type pres struct {
		now uint64
		out xdpOut
	}
	results := make([]pres, len(idx))
	for j, i := range idx {
		p := c.Probes[i]
		var now uint64
		var out xdpOut
		if p.Route == "k" && len(p.Frame) >= 14 {
			out, now = e.runKernel(p.Frame)
			nout := e.runNative(p.Frame, now)
			e.kvCompared++
			if nout.V != out.V || !bytes.Equal(nout.Data, out.Data) {
				e.kvDisagree++
				if e.disagreeNote == "" {
					e.disagreeNote = fmt.Sprintf("frame %x now %d: kernel verdict %d len %d, native verdict %d len %d", p.Frame, now, out.V, len(out.Data), nout.V, len(nout.Data))
				}
			}
			tags["route:kernel"] = true
		} else {
			now = p.Now
			if p.NowRel != "" {
				ex, ok := expiryOf(active, c.hw(p.C))
				if !ok {
					ex = 1000
				}
				switch p.NowRel {
				case "exp-1":
					ex--
				case "exp+1":
					ex++
				}
				now = ex*1000000000 + 999999999
				tags["clock:"+p.NowRel] = true
			}
			out = e.runNative(p.Frame, now)
			tags["route:native"] = true
		}
		results[j] = pres{now, out}
	}
	var items []string
	for j, i := range idx {
		p := c.Probes[i]
		sv := slowView{Kind: 99}
		if c.Mode != "raw" {
			w := e.build(c, k) // fresh state: the slow path consumes it
			sv = w.slow(p.Frame)
		}
		r := results[j]
		fo := "None"
		if !bytes.Equal(r.out.Data, p.Frame) {
			fo = "(Some " + coqFrame(r.out.Data) + ")"
		}
		items = append(items, vh.Pair(fmt.Sprintf("Probe %s %d %d %s", coqFrame(p.Frame), r.now, unow, sv.coq()),
			fmt.Sprintf("OXdp %d %s", r.out.V, fo)))
		tags[fmt.Sprintf("verdict:%d", r.out.V)] = true
		if r.out.V == 3 {
			tags[fmt.Sprintf("tx:slow-kind-%d", sv.Kind)] = true
			tags[fmt.Sprintf("tx:status-%d", sv.Status)] = true
			if l3, ok := l3Off(r.out.Data); ok {
				// independent of Model and monitor: the ten header words of what went out sum to 0xFFFF
				var s uint32
				for q := 0; q < 20; q += 2 {
					s += uint32(binary.BigEndian.Uint16(r.out.Data[l3+q:]))
				}
				for s>>16 != 0 {
					s = s&0xffff + s>>16
				}
				if s != 0xffff {
					e.badChecksums++
					tags["tx:bad-ip-checksum"] = true
				}
				var ls uint32 // first fold of the little-endian sum as the C code forms it (checksum field as 0)
				for q := 0; q < 20; q += 2 {
					if q != 10 {
						ls += uint32(binary.LittleEndian.Uint16(r.out.Data[l3+q:]))
					}
				}
				if ls&0xffff+ls>>16 >= 0x10000 {
					tags["tx:checksum-second-fold"] = true
					e.secondFolds++
				}
			}
			if dh, ok := udpPayload(p.Frame); ok && len(dh) > 2 && dh[2] != 6 {
				tags["tx:hlen-not-6"] = true
			}
		} else if !bytes.Equal(r.out.Data, p.Frame) {
			tags["pass:modified"] = true
		}
		tags[lenClass(len(p.Frame))] = true
	}
	return items
}

func (e *env) run(c Case) vh.Case {
	tags := map[string]bool{"mode:" + c.Mode: true}
	var items []string
	all := func(k int) []int {
		var idx []int
		for i, p := range c.Probes {
			at := p.At
			if at == 0 || at > len(c.Hist) {
				at = len(c.Hist)
			}
			if at == k {
				idx = append(idx, i)
			}
		}
		return idx
	}
	if c.Mode == "raw" {
		active := rawDump(c.Raw)
		e.loadKernel(active)
		items = append(items, vh.Pair("SetMaps "+active.coqMaps(2), "OUnit"))
		items = append(items, e.probeAll(c, 0, all(0), active, uint64(time.Now().Unix()), tags)...)
	} else {
		w := e.newWorld(c, false)
		for k := 0; k <= len(c.Hist); k++ {
			if k > 0 {
				w.apply(c.Hist[k-1])
				tags["hist:"+c.Hist[k-1].K] = true
			}
			idx := all(k)
			if len(idx) == 0 {
				continue
			}
			if k < len(c.Hist) {
				tags["probe:mid-history"] = true
			}
			d := e.dumpMaps()
			active := d
			items = append(items, w.items...)
			w.items = nil
			if c.Mode == "net" {
				active = d.netOrder()
				e.loadKernel(active)
				items = append(items, vh.Pair("Swap", "OUnit"))
			}
			items = append(items, e.probeAll(c, k, idx, active, uint64(time.Now().Unix()), tags)...)
			// the slow views were taken on throw-away copies that wrote into the same kernel maps: restore
			e.loadKernel(d)
			if c.Mode == "net" {
				items = append(items, vh.Pair("Swap", "OUnit"))
			}
		}
		items = append(items, w.items...)
	}
	var tl []string
	for t := range tags {
		tl = append(tl, t)
	}
	sort.Strings(tl)
	return vh.Case{Coq: vh.List(items), Desc: c, Tags: tl}
}

const header = `From Coq Require Import NArith List Uint63. Import ListNotations.
From Verif Require Import Base.Word Model.XdpDhcp Model.XdpDhcpSpec Model.XdpDhcpCheck Model.XdpDhcpWire.
Local Open Scope N_scope.
Definition cases : list case := [
`
const footer = `
].
Definition R := Eval vm_compute in run_cases cases.
Print R.
`

func main() {
	cfg := vh.ParseFlags()
	dir, err := bpfrun.Dir()
	must(err)
	e := &env{}
	objPath := filepath.Join(dir, "dhcp_fastpath.o")
	if _, err := os.Stat(objPath); err != nil {
		fmt.Fprintln(os.Stderr, "c03 driver: dhcp_fastpath.c did not compile for the BPF target (see build.log in", dir, ")")
		os.Exit(4)
	}
	e.obj, err = bpfrun.LoadObject(objPath)
	must(err)
	defer e.obj.Close()
	if !e.obj.KernelBPF {
		fmt.Fprintln(os.Stderr, "c03 driver: bpf() not usable here:", e.obj.LoadErr)
		os.Exit(6)
	}
	if !e.obj.VerifierOK {
		fmt.Fprintln(os.Stderr, "c03 driver: the in-kernel verifier rejected dhcp_fastpath.o:", e.obj.LoadErr)
		os.Exit(5)
	}
	e.nat, err = bpfrun.StartNative(dir, "dhcp_fastpath", false)
	must(err)
	defer e.nat.Close()
	theEnv = e

	extra := func() map[string]interface{} {
		return map[string]interface{}{"kernel_bpf": true, "verifier_ok": e.obj.VerifierOK,
			"kernel_test_runs": e.kernelRuns, "native_runs": e.nativeRuns, "kernel_native_compared": e.kvCompared,
			"kernel_native_disagree": e.kvDisagree, "kernel_native_disagree_first": e.disagreeNote, "native_faults": e.faults,
			"slow_path_replies": e.slowReplies, "slow_path_silent": e.slowSilent, "object": objPath,
			"tx_bad_ip_checksum": e.badChecksums, "tx_checksum_second_fold": e.secondFolds}
	}
	runAll := func(cs []Case) []vh.Case {
		var out []vh.Case
		for _, c := range cs {
			out = append(out, e.run(c))
		}
		return out
	}
	if cfg.Replay != "" {
		fullSnap = true
		var c Case
		must(vh.LoadReplay(cfg.Replay, &c))
		vh.Emit(cfg, "cases", header, footer, runAll([]Case{c}), extra())
		return
	}
	var corpus []Case
	for _, f := range vh.CorpusFiles(cfg) {
		var c Case
		must(vh.LoadReplay(f, &c))
		corpus = append(corpus, c)
	}
	if len(corpus) > 0 {
		vh.Emit(cfg, "corpus", header, footer, runAll(corpus), extra())
	}
	if os.Getenv("VERIF_C03_WRITE_CORPUS") != "" {
		writeCorpus(os.Getenv("VERIF_C03_WRITE_CORPUS"))
		return
	}
	r := vh.NewRng(cfg.Seed)
	n := map[string]int{"go": 50, "guarded": 40, "net": 50, "defect": 30, "raw": 50, "lens": 1, "life": 60, "hw": 12, "cksum": 25}
	if cfg.Thorough() {
		n = map[string]int{"go": 750, "guarded": 450, "net": 600, "defect": 400, "raw": 600, "lens": 10, "life": 1200, "hw": 300, "cksum": 500}
	}
	streams := []struct {
		name string
		gen  func(*vh.Rng) Case
		meta map[string]interface{}
	}{
		{"go", genGo, nil},
		{"guarded", genGuarded, map[string]interface{}{"guarded": "byte-order-insensitive addresses, IHL 5, >= 64 option bytes, message type where the scan looks, live lease, REQUEST for the leased address"}},
		{"net", genNet, map[string]interface{}{"guarded": "maps rewritten to network-order words (harness), IHL 5, >= 64 option bytes"}},
		{"defect", genDefect, nil},
		{"raw", genRaw, nil},
		{"lens", genLens, map[string]interface{}{"exhaustive": true, "note": "every frame length 0..valid+24 of one request per case (native runner; kernel for >= 14)"}},
		{"life", genLife, map[string]interface{}{"note": "lease life cycle, two probes after every message; net-mode cases are inside the guards"}},
		{"hw", genHW, map[string]interface{}{"exhaustive": true, "note": "every hlen 0..17, 64, 255 per case against one cached subscriber"}},
		{"cksum", genCksum, map[string]interface{}{"guarded": "IP identification steered onto the folding boundaries of the reply header sum (five categories x two probes per case)"}},
	}
	for _, s := range streams {
		var cs []Case
		for i := 0; i < n[s.name]; i++ {
			cs = append(cs, s.gen(r.Fork()))
		}
		m := extra
		out := runAll(cs)
		mm := m()
		for k, v := range s.meta {
			mm[k] = v
		}
		vh.Emit(cfg, s.name, header, footer, out, mm)
	}
	_ = strings.Join
}
