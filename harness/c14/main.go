// C14 correspondence driver: real ha.FailoverController + real (un-started) ha.HealthMonitor
// vs Model/Failover.v.
//
// Virtual time: the controller is configured with delays of whole hours (1 model unit = 1 h), so
// its real time.AfterFunc timers never fire during a case. The driver is the timer runtime: it
// keeps a virtual clock, notices newly armed timers (pointer change; delay read back from the
// controller's recorded due time), notices timers the code stopped (Timer.Stop probe) and runs a
// due timer's function through the verif hook — either when the model event says it fires, or
// later as a stale fire if the code stopped it after it was due. The role-change callback blocks
// until the case's CbReturn event releases it, so executions are split exactly at the callback.
package main

import (
	"errors"
	"fmt"
	"math"
	"sort"
	"strings"
	"sync"
	"time"

	"verifharness/vh"

	"github.com/codelaboratoryltd/bng/pkg/ha"
	"go.uber.org/zap"
)

const unit = time.Hour

type Cfg struct {
	Delay     int    `json:"delay"`
	FbDelay   int    `json:"fbdelay"`
	FbEnabled bool   `json:"fb_enabled"`
	Orig      string `json:"orig"` // standby | active
}
type Ev struct {
	K  string `json:"k"` // down up adv firefo firefb stalefo stalefb tick forcefo forcefb cb
	D  int    `json:"d,omitempty"`
	I  int    `json:"i,omitempty"`
	Ok bool   `json:"ok,omitempty"`
}
type Case struct {
	Cfg Cfg  `json:"cfg"`
	Evs []Ev `json:"evs"`
}

type cbWait struct {
	role    ha.Role
	kind    string
	release chan error
	done    chan struct{}
}

type trk struct {
	t        *time.Timer
	deadline int64
	pending  bool
}

type world struct {
	c       *ha.FailoverController
	m       *ha.HealthMonitor
	now     int64
	since   int64
	fo, fb  *trk
	foZ     int
	fbZ     int
	infl    []*cbWait
	entered chan *cbWait
	mu      sync.Mutex
	events  []string
}

func roleOf(s string) ha.Role {
	if s == "active" {
		return ha.RoleActive
	}
	return ha.RoleStandby
}
func coqRole(r ha.Role) string {
	switch r {
	case ha.RoleActive:
		return "Active"
	case ha.RoleStandby:
		return "Standby"
	}
	return "(BadRole)"
}

var stNames = []string{"Normal", "Pending", "InProgress", "Complete", "FailbackPending"}

func newWorld(cfg Cfg) *world {
	lg := zap.NewNop()
	m := ha.NewHealthMonitor(ha.HealthConfig{CheckInterval: time.Hour, Timeout: time.Second, FailureThreshold: 1, RecoveryThreshold: 1},
		&ha.PartnerInfo{NodeID: "partner", Endpoint: "127.0.0.1:1"}, lg)
	fc := ha.FailoverConfig{Enabled: true, FailoverDelay: time.Duration(cfg.Delay) * unit, FailbackDelay: time.Duration(cfg.FbDelay) * unit,
		FailbackEnabled: cfg.FbEnabled, GracePeriod: 50 * time.Microsecond}
	c := ha.NewFailoverController(fc, "node-1", roleOf(cfg.Orig), 1, m, lg)
	w := &world{c: c, m: m, entered: make(chan *cbWait)}
	c.SetRoleChangeCallback(func(r ha.Role) error {
		cw := &cbWait{role: r, release: make(chan error)}
		w.entered <- cw
		return <-cw.release
	})
	evn := map[ha.FailoverEventType]string{ha.FailoverEventInitiated: "EInitiated", ha.FailoverEventCompleted: "ECompleted",
		ha.FailoverEventCanceled: "ECanceled", ha.FailoverEventFailbackInitiated: "EFbInitiated",
		ha.FailoverEventFailbackCompleted: "EFbCompleted", ha.FailoverEventRoleChanged: "ERoleChanged"}
	c.OnFailoverEvent(func(e ha.FailoverEvent) {
		w.mu.Lock()
		w.events = append(w.events, fmt.Sprintf("(%s, %s, %s)", evn[e.Type], coqRole(e.OldRole), coqRole(e.NewRole)))
		w.mu.Unlock()
	})
	c.VerifAttach()
	return w
}

// probe: is the real timer still armed? (Stop reports it; re-arm far in the future.)
func probe(t *time.Timer) bool {
	if t.Stop() {
		t.Reset(1000 * unit)
		return true
	}
	return false
}

// syncTimer reconciles the driver's view of one controller timer after an event.
func (w *world) syncTimer(cur *time.Timer, due time.Time, tr **trk, z *int) {
	old := *tr
	if old != nil && old.t != cur {
		// replaced by a new timer object
		if old.pending {
			if probe(old.t) {
				*z += 100 // the code dropped a live timer without stopping it: not expressible in the Model
				old.t.Stop()
			} else if old.deadline <= w.now {
				*z++
			}
		}
		old = nil
	}
	if old == nil {
		if cur == nil {
			*tr = nil
			return
		}
		d := int64(math.Round(float64(time.Until(due)) / float64(unit)))
		*tr = &trk{t: cur, deadline: w.now + d, pending: probe(cur)}
		return
	}
	if old.pending && !probe(old.t) {
		old.pending = false
		if old.deadline <= w.now {
			*z++
		}
	}
	if !old.pending && probe(old.t) { // re-armed in place (Reset): not done by the code today
		old.pending = true
		d := int64(math.Round(float64(time.Until(due)) / float64(unit)))
		old.deadline = w.now + d
	}
}

// launch runs f in its own goroutine and waits until it returned or blocked in the callback.
func (w *world) launch(kind string, f func()) (cb *cbWait) {
	done := make(chan struct{})
	go func() { f(); close(done) }()
	select {
	case cw := <-w.entered:
		cw.done, cw.kind = done, kind
		w.infl = append(w.infl, cw)
		return cw
	case <-done:
		return nil
	}
}

func (w *world) apply(e Ev) (op string, res string, cb *cbWait) {
	res = "RNone"
	switch e.K {
	case "down":
		op = "Down"
		w.m.VerifRecordFailure()
	case "up":
		op = "Up"
		w.m.VerifRecordSuccess()
	case "adv":
		op = fmt.Sprintf("Advance %d", e.D)
		w.now += int64(e.D)
	case "firefo", "firefb":
		tr, f := w.fo, w.c.VerifFailoverTimerFunc
		op = "FireFO"
		if e.K == "firefb" {
			tr, f, op = w.fb, w.c.VerifFailbackTimerFunc, "FireFB"
		}
		res = "RFire false"
		if tr != nil && tr.pending && tr.deadline <= w.now && tr.t.Stop() {
			tr.pending = false
			res = "RFire true"
			cb = w.launch(e.K[4:], f)
		}
	case "stalefo", "stalefb":
		z, f := &w.foZ, w.c.VerifFailoverTimerFunc
		op = "StaleFO"
		if e.K == "stalefb" {
			z, f, op = &w.fbZ, w.c.VerifFailbackTimerFunc, "StaleFB"
		}
		res = "RFire false"
		if *z > 0 {
			*z--
			res = "RFire true"
			cb = w.launch(e.K[5:], f)
		}
	case "tick":
		op = "Tick"
		w.c.VerifEvaluateState()
	case "forcefo":
		op = "ForceFO"
		var err error
		cb = w.launch("fo", func() { err = w.c.ForceFailover("operator") })
		if cb != nil {
			res = "RForce true"
		} else {
			res = "RForce " + vh.Bool(err == nil)
		}
	case "forcefb":
		op = "ForceFB"
		var err error
		cb = w.launch("fb", func() { err = w.c.ForceFailback("operator") })
		if cb != nil {
			res = "RForce true"
		} else {
			res = "RForce " + vh.Bool(err == nil)
		}
	case "cb":
		op = fmt.Sprintf("CbReturn %d %s", e.I, vh.Bool(e.Ok))
		if e.I >= 0 && e.I < len(w.infl) {
			cw := w.infl[e.I]
			w.infl = append(append([]*cbWait(nil), w.infl[:e.I]...), w.infl[e.I+1:]...)
			if e.Ok {
				cw.release <- nil
			} else {
				cw.release <- errors.New("role change refused")
			}
			<-cw.done
		}
	default:
		panic("bad event " + e.K)
	}
	return
}

func (w *world) observe(res string, cb *cbWait) string {
	fo, fb := w.c.VerifTimers()
	fod, fbd := w.c.VerifDeadlines()
	w.syncTimer(fo, fod, &w.fo, &w.foZ)
	w.syncTimer(fb, fbd, &w.fb, &w.fbZ)
	w.mu.Lock()
	evs := w.events
	w.events = nil
	w.mu.Unlock()
	st := int(w.c.State())
	sts := "(BadState)"
	if st >= 0 && st < len(stNames) {
		sts = stNames[st]
	}
	i, c, x, f := w.c.Stats()
	cbs := "None"
	if cb != nil {
		cbs = "(Some " + coqRole(cb.role) + ")"
	}
	return fmt.Sprintf("mkOut %s %s (%d,%d,%d,%d) %s %s %s %d %d %s %s (%s)", coqRole(w.c.CurrentRole()), sts, i, c, x, f,
		vh.List(evs), vh.Bool(w.fo != nil && w.fo.pending), vh.Bool(w.fb != nil && w.fb.pending), w.foZ, w.fbZ,
		vh.Bool(w.m.IsPartnerHealthy()), cbs, res)
}

// fingerprint of the implementation-visible state (used to prune the exhaustive exploration)
func (w *world) fingerprint(cfg Cfg) string {
	rem := func(t *trk) int64 {
		if t == nil || !t.pending {
			return -1
		}
		if t.deadline <= w.now {
			return 0
		}
		return t.deadline - w.now
	}
	capi := func(v, m int) int {
		if v > m {
			return m
		}
		return v
	}
	var ks []string
	for _, x := range w.infl {
		ks = append(ks, x.kind)
	}
	age := w.now - w.since
	if age > int64(cfg.Delay)+1 {
		age = int64(cfg.Delay) + 1
	}
	return fmt.Sprintf("%s|%d|%v|%d|%d|%d|%d|%s|%d", w.c.CurrentRole(), w.c.State(), w.m.IsPartnerHealthy(), rem(w.fo), rem(w.fb),
		capi(w.foZ, 2), capi(w.fbZ, 2), strings.Join(ks, ","), age)
}

func (w *world) close() {
	for _, cw := range w.infl {
		cw.release <- errors.New("case over")
		<-cw.done
	}
	w.infl = nil
	w.c.Stop()
}

func coqCfg(c Cfg) string {
	return fmt.Sprintf("Build_config %d %d %s %s", c.Delay, c.FbDelay, vh.Bool(c.FbEnabled), coqRole(roleOf(c.Orig)))
}

// run executes a case on the real controller; returns the Coq case and the final fingerprint.
func run(c Case, extraTags ...string) (vh.Case, string) {
	w := newWorld(c.Cfg)
	var tr []string
	tags := map[string]bool{}
	maxInfl := 0
	for _, e := range c.Evs {
		wasHealthy := w.m.IsPartnerHealthy()
		op, res, cb := w.apply(e)
		if e.K == "down" && wasHealthy {
			w.since = w.now
		}
		out := w.observe(res, cb)
		tr = append(tr, vh.Pair(op, out))
		tags["ev:"+e.K] = true
		if cb != nil {
			tags["exec-started:"+cb.kind] = true
		}
		if strings.HasPrefix(e.K, "stale") && res == "RFire true" {
			tags["stale-fire-ran"] = true
		}
		if len(w.infl) > maxInfl {
			maxInfl = len(w.infl)
		}
		if w.c.CurrentRole() != roleOf(c.Cfg.Orig) {
			tags["reached:failed-over"] = true
		}
	}
	fp := w.fingerprint(c.Cfg)
	w.close()
	var tl []string
	for t := range tags {
		tl = append(tl, t)
	}
	tl = append(tl, fmt.Sprintf("max-outstanding:%d", maxInfl), "orig:"+c.Cfg.Orig)
	tl = append(tl, extraTags...)
	sort.Strings(tl)
	return vh.Case{Coq: "(" + coqCfg(c.Cfg) + ",\n  " + vh.List(tr) + ")", Desc: c, Tags: tl}, fp
}

func alphabet(cfg Cfg, grace int) []Ev {
	a := []Ev{{K: "down"}, {K: "up"}, {K: "firefo"}, {K: "firefb"}, {K: "stalefo"}, {K: "stalefb"}, {K: "tick"},
		{K: "forcefo"}, {K: "forcefb"}, {K: "cb", I: 0, Ok: true}, {K: "cb", I: 0, Ok: false}, {K: "cb", I: 1, Ok: true}, {K: "cb", I: 1, Ok: false}}
	seen := map[int]bool{}
	for _, d := range []int{1, grace, cfg.Delay - 1, cfg.Delay, cfg.Delay + 1, cfg.FbDelay} {
		if d > 0 && !seen[d] {
			seen[d] = true
			a = append(a, Ev{K: "adv", D: d})
		}
	}
	return a
}

// explore: breadth-first over event sequences; a sequence is extended only if it reached an
// implementation-state fingerprint not seen before. Every executed sequence is a case, so every
// (fingerprint-distinct state reachable within depth, event) transition is checked.
func explore(cfg Cfg, depth int, seeds []string) []vh.Case {
	alpha := alphabet(cfg, 3)
	seen := map[string]bool{}
	var frontier [][]Ev
	for _, sd := range append([]string{""}, seeds...) {
		p := parseEvs(sd)
		_, fp := run(Case{Cfg: cfg, Evs: p})
		if !seen[fp] {
			seen[fp] = true
			frontier = append(frontier, p)
		}
	}
	var out []vh.Case
	for d := 1; d <= depth && len(frontier) > 0; d++ {
		var next [][]Ev
		for _, p := range frontier {
			for _, e := range alpha {
				seq := append(append([]Ev(nil), p...), e)
				cs, fp := run(Case{Cfg: cfg, Evs: seq}, fmt.Sprintf("exhaustive-depth:%d", d))
				out = append(out, cs)
				if !seen[fp] {
					seen[fp] = true
					next = append(next, seq)
				}
			}
		}
		frontier = next
	}
	return out
}

// exploration also starts from these deeper states (timer due, execution outstanding, failed over,
// failback pending, failback timer due, failback outstanding)
var seedPrefixes = []string{
	"down adv10", "down adv10 firefo", "down adv10 firefo cb0ok", "down adv10 firefo cb0ok up",
	"down adv10 firefo cb0ok up adv12", "down adv10 firefo cb0ok up adv12 firefb", "down adv10 up down",
}

func genRandom(r *vh.Rng, maxLen int) Case {
	cfg := Cfg{Delay: 10, FbDelay: 12, FbEnabled: !r.Chance(1, 6), Orig: "standby"}
	if r.Chance(1, 12) {
		cfg.Orig = "active"
	}
	if r.Chance(1, 5) {
		cfg.Delay, cfg.FbDelay = 1+r.Intn(6), 1+r.Intn(6)
	}
	alpha := alphabet(cfg, 3)
	n := 4 + r.Intn(maxLen)
	var evs []Ev
	for i := 0; i < n; i++ {
		switch x := r.Intn(20); {
		case x < 4:
			evs = append(evs, Ev{K: "down"})
		case x < 7:
			evs = append(evs, Ev{K: "up"})
		case x < 10:
			evs = append(evs, Ev{K: "adv", D: []int{1, 3, cfg.Delay - 1, cfg.Delay, cfg.Delay + 1, cfg.FbDelay}[r.Intn(6)]})
		case x < 12:
			evs = append(evs, Ev{K: "firefo"})
		case x < 13:
			evs = append(evs, Ev{K: "firefb"})
		case x < 15:
			evs = append(evs, Ev{K: "cb", I: r.Intn(2), Ok: !r.Chance(1, 4)})
		default:
			evs = append(evs, alpha[r.Intn(len(alpha))])
		}
	}
	if cfg.Delay == 10 && cfg.FbDelay == 12 && r.Chance(1, 2) {
		evs = append(parseEvs(seedPrefixes[r.Intn(len(seedPrefixes))]), evs...)
	}
	// drop zero advances
	var o []Ev
	for _, e := range evs {
		if e.K == "adv" && e.D <= 0 {
			continue
		}
		o = append(o, e)
	}
	return Case{Cfg: cfg, Evs: o}
}

// parse "down adv10 cb0ok ..." into events
func parseEvs(s string) []Ev {
	var o []Ev
	for _, t := range strings.Fields(s) {
		switch {
		case strings.HasPrefix(t, "adv"):
			var d int
			fmt.Sscanf(t[3:], "%d", &d)
			o = append(o, Ev{K: "adv", D: d})
		case strings.HasPrefix(t, "cb"):
			o = append(o, Ev{K: "cb", I: int(t[2] - '0'), Ok: strings.HasSuffix(t, "ok")})
		default:
			o = append(o, Ev{K: t})
		}
	}
	return o
}

// the stored witnesses of the known findings; the defect stream generates their neighbours
var witnesses = []string{
	"down adv10 up down stalefo cb0ok",
	"down adv10 up down adv10 firefo stalefo cb0ok cb0ok",
	"down adv10 firefo cb0ok up adv12 firefb down tick up adv12 firefb cb0ok down adv10 firefo cb0ok up down adv10 firefo cb0ok cb0ok",
	"down adv10 firefo cb0ok up adv12 firefb down cb0ok adv11 up down",
	"down adv10 firefo cb0ok up adv12 firefb stalefb cb0ok cb0ok",
	"down adv10 up down adv10 up down stalefo stalefo firefo cb1ok cb0ok cb0fail",
}

func genDefect(r *vh.Rng) Case {
	cfg := Cfg{Delay: 10, FbDelay: 12, FbEnabled: true, Orig: "standby"}
	alpha := alphabet(cfg, 3)
	evs := parseEvs(witnesses[r.Intn(len(witnesses))])
	for k := r.Intn(4); k > 0; k-- { // insert a few events
		i := r.Intn(len(evs) + 1)
		e := alpha[r.Intn(len(alpha))]
		evs = append(evs[:i], append([]Ev{e}, evs[i:]...)...)
	}
	if r.Chance(1, 3) && len(evs) > 2 { // or drop one
		i := r.Intn(len(evs))
		evs = append(evs[:i], evs[i+1:]...)
	}
	for k := r.Intn(5); k > 0; k-- {
		evs = append(evs, alpha[r.Intn(len(alpha))])
	}
	return Case{Cfg: cfg, Evs: evs}
}

// genGuarded: histories inside all three guards by construction: no stale fires; whenever an
// execution may have started its callback returns before anything but clock moves and (for a
// failover) health reports happen; no health-check failure between a failback start and its return.
func genGuarded(r *vh.Rng, maxLen int) Case {
	cfg := Cfg{Delay: 10, FbDelay: 12, FbEnabled: !r.Chance(1, 6), Orig: "standby"}
	if r.Chance(1, 5) {
		cfg.Delay, cfg.FbDelay = 1+r.Intn(6), 1+r.Intn(6)
	}
	advs := []int{1, 3, cfg.Delay - 1, cfg.Delay, cfg.Delay + 1, cfg.FbDelay}
	n := 4 + r.Intn(maxLen)
	var evs []Ev
	adv := func() {
		if d := advs[r.Intn(len(advs))]; d > 0 {
			evs = append(evs, Ev{K: "adv", D: d})
		}
	}
	if cfg.Delay == 10 && cfg.FbDelay == 12 && r.Chance(1, 2) {
		evs = parseEvs([]string{"down adv10 firefo cb0ok", "down adv10 firefo cb0ok up", "down adv10 firefo cb0ok up adv12", "down adv10"}[r.Intn(4)])
		n += len(evs)
	}
	for len(evs) < n {
		switch x := r.Intn(20); {
		case x < 4:
			evs = append(evs, Ev{K: "down"})
		case x < 7:
			evs = append(evs, Ev{K: "up"})
		case x < 11:
			adv()
		case x < 12:
			evs = append(evs, Ev{K: "tick"})
		case x < 13:
			evs = append(evs, Ev{K: "forcefb"})
		default:
			k := []string{"firefo", "firefo", "firefb", "firefb", "forcefo"}[r.Intn(5)]
			evs = append(evs, Ev{K: k})
			for j := r.Intn(3); j > 0; j-- { // the grace period / callback window
				switch y := r.Intn(4); {
				case y == 0 && k != "firefb":
					evs = append(evs, Ev{K: "down"})
				case y == 1:
					evs = append(evs, Ev{K: "up"})
				default:
					adv()
				}
			}
			evs = append(evs, Ev{K: "cb", I: 0, Ok: !r.Chance(1, 4)})
		}
	}
	return Case{Cfg: cfg, Evs: evs}
}

const header = `From Coq Require Import NArith List. Import ListNotations.
From Verif Require Import Model.Failover Model.FailoverSpec Model.FailoverCheck.
Local Open Scope N_scope.
Definition cases : list case := [
`
const footer = `
].
Definition R := Eval vm_compute in run_cases cases.
Print R.
`

func main() {
	cfg := vh.ParseFlags()
	if cfg.Replay != "" {
		var c Case
		if err := vh.LoadReplay(cfg.Replay, &c); err != nil {
			panic(err)
		}
		cs, _ := run(c)
		vh.Emit(cfg, "cases", header, footer, []vh.Case{cs}, nil)
		return
	}
	var corpus []vh.Case
	for _, f := range vh.CorpusFiles(cfg) {
		var c Case
		if err := vh.LoadReplay(f, &c); err != nil {
			panic(err)
		}
		cs, _ := run(c, "corpus")
		corpus = append(corpus, cs)
	}
	if len(corpus) > 0 {
		vh.Emit(cfg, "corpus", header, footer, corpus, nil)
	}
	depth, nrand, maxLen := 2, 200, 16
	if cfg.Thorough() {
		depth, nrand, maxLen = 5, 2500, 40
	}
	std := Cfg{Delay: 10, FbDelay: 12, FbEnabled: true, Orig: "standby"}
	ex := explore(std, depth, seedPrefixes)
	ex = append(ex, explore(Cfg{Delay: 10, FbDelay: 12, FbEnabled: false, Orig: "standby"}, depth, seedPrefixes[:4])...)
	ex = append(ex, explore(Cfg{Delay: 10, FbDelay: 12, FbEnabled: true, Orig: "active"}, 2, nil)...)
	vh.Emit(cfg, "exhaustive", header, footer, ex, map[string]interface{}{"exhaustive": true,
		"exhaustive_note": fmt.Sprintf("breadth-first over the 19-event alphabet to depth %d from the initial state and from 7 seeded deeper states; a sequence is extended only when it reaches a new implementation-state fingerprint (role, state, health, timer remaining times, zombie timers, outstanding callbacks, age of the down report)", depth)})
	r := vh.NewRng(cfg.Seed)
	var cases []vh.Case
	for i := 0; i < nrand; i++ {
		cs, _ := run(genRandom(r.Fork(), maxLen), "random")
		cases = append(cases, cs)
	}
	vh.Emit(cfg, "cases", header, footer, cases, nil)
	var guarded, defect []vh.Case
	for i := 0; i < nrand; i++ {
		cs, _ := run(genGuarded(r.Fork(), maxLen), "guarded")
		guarded = append(guarded, cs)
	}
	vh.Emit(cfg, "guarded", header, footer, guarded, map[string]interface{}{"note": "histories inside the guards of every _partial theorem by construction: any rejection here is new by theorem"})
	for i := 0; i < nrand/2; i++ {
		cs, _ := run(genDefect(r.Fork()), "defect-neighbour")
		defect = append(defect, cs)
	}
	vh.Emit(cfg, "defect", header, footer, defect, nil)
}
