// C14 correspondence driver: real ha.FailoverController + real (un-started) ha.HealthMonitor
// vs Model/Failover.v.
//
// Virtual time: the controller is configured with delays of whole hours (1 model unit = 1 h), so
// its real time.AfterFunc timers never fire during a case. The driver is the timer runtime: it
// keeps a virtual clock, notices newly armed timers (pointer change; they become due after the
// CONFIGURED delay - the deadline the implementation records in failoverTime / failbackTime is only an
// observable compared with the Model's), notices timers the code stopped (Timer.Stop probe) and runs a
// due timer's function through the verif hook — either when the model event says it fires, or
// later as a stale fire if the code stopped it after it was due. The role-change callback blocks
// until the case's CbReturn event releases it, so executions are split exactly at the callback.
package main

import (
	"errors"
	"fmt"
	"math"
	"net/http"
	"net/http/httptest"
	"sort"
	"strings"
	"sync"
	"sync/atomic"
	"time"

	"verifharness/vh"

	"github.com/codelaboratoryltd/bng/pkg/ha"
	"go.uber.org/zap"
)

const unit = time.Hour

type Cfg struct {
	Delay     int    `json:"delay"`
	FbDelay   int    `json:"fbdelay"`
	FbEnabled bool   `json:"fb_enabled"`
	Orig      string `json:"orig"` // standby | active
	// HealthConfig.FailureThreshold / RecoveryThreshold handed to the real monitor (0 behaves as 1 in
	// the code and in the Model; stored witnesses that predate the thresholds carry none)
	Fthr int `json:"fthr,omitempty"`
	Rthr int `json:"rthr,omitempty"`
}
type Ev struct {
	K  string `json:"k"` // down up adv firefo firefb stalefo stalefb tick forcefo forcefb cb
	D  int    `json:"d,omitempty"`
	I  int    `json:"i,omitempty"`
	Ok bool   `json:"ok,omitempty"`
	// V (down / up only): "" = the check result is fed to the monitor's recordFailure / recordSuccess
	// through the hook; otherwise the monitor performs a REAL check (CheckNow -> performCheck, HTTP GET
	// /ha/health) against a scripted partner that answers: "ok" (200, status healthy), "500", "204",
	// "badjson" (200, undecodable body), "degraded" (200, status degraded), "abort" (connection dropped)
	V string `json:"v,omitempty"`
}
type Case struct {
	Cfg Cfg  `json:"cfg"`
	Evs []Ev `json:"evs"`
}

type cbWait struct {
	role    ha.Role
	kind    string
	release chan error
	done    chan struct{}
}

type trk struct {
	t        *time.Timer
	deadline int64 // when the driver (the timer runtime) lets it fire: armed instant + the CONFIGURED delay
	recorded int64 // the deadline the implementation recorded (failoverTime / failbackTime): an observable
	pending  bool
}

type world struct {
	c       *ha.FailoverController
	m       *ha.HealthMonitor
	now     int64
	since   int64
	fo, fb  *trk
	foZ     int
	fbZ     int
	infl    []*cbWait
	entered chan *cbWait
	mu      sync.Mutex
	events  []string
	unit    time.Duration
	cfg     Cfg
	srv     *httptest.Server
	mode    atomic.Value // how the scripted partner answers the next health check
	hev     int // health notification of the current step (1 partner_down 2 partner_up 3 check_failed 4 check_succeeded)
	hevN    int // how many notifications the step produced (must be <= 1)
}

func roleOf(s string) ha.Role {
	if s == "active" {
		return ha.RoleActive
	}
	return ha.RoleStandby
}
func coqRole(r ha.Role) string {
	switch r {
	case ha.RoleActive:
		return "Active"
	case ha.RoleStandby:
		return "Standby"
	}
	return "(BadRole)"
}

var stNames = []string{"Normal", "Pending", "InProgress", "Complete", "FailbackPending"}

// the scripted partner: a real HTTP server answering /ha/health as the case says
func (w *world) partner() *httptest.Server {
	return httptest.NewServer(http.HandlerFunc(func(rw http.ResponseWriter, r *http.Request) {
		if r.URL.Path != "/ha/health" || r.Method != "GET" {
			rw.WriteHeader(404)
			return
		}
		switch w.mode.Load().(string) {
		case "ok":
			rw.Header().Set("Content-Type", "application/json")
			fmt.Fprint(rw, `{"status":"healthy","role":"active","node_id":"partner","details":{"sessions_synced":3}}`)
		case "500":
			rw.WriteHeader(500)
			fmt.Fprint(rw, `{"status":"healthy"}`)
		case "204":
			rw.WriteHeader(204)
		case "badjson":
			fmt.Fprint(rw, `{"status": healthy`)
		case "degraded":
			fmt.Fprint(rw, `{"status":"degraded","role":"active","node_id":"partner"}`)
		default: // "abort": drop the connection without an answer
			panic(http.ErrAbortHandler)
		}
	}))
}

func usesHTTP(evs []Ev) bool {
	for _, e := range evs {
		if e.V != "" {
			return true
		}
	}
	return false
}

func newWorld(cfg Cfg, evs []Ev) *world { return newWorldU(cfg, evs, unit) }

func newWorldU(cfg Cfg, evs []Ev, u time.Duration) *world {
	lg := zap.NewNop()
	w := &world{entered: make(chan *cbWait), unit: u, cfg: cfg}
	w.mode.Store("ok")
	endpoint := "127.0.0.1:1"
	if usesHTTP(evs) {
		w.srv = w.partner()
		endpoint = strings.TrimPrefix(w.srv.URL, "http://")
	}
	m := ha.NewHealthMonitor(ha.HealthConfig{CheckInterval: time.Hour, Timeout: 2 * time.Second, FailureThreshold: cfg.Fthr, RecoveryThreshold: cfg.Rthr},
		&ha.PartnerInfo{NodeID: "partner", Endpoint: endpoint}, lg)
	fc := ha.FailoverConfig{Enabled: true, FailoverDelay: time.Duration(cfg.Delay) * u, FailbackDelay: time.Duration(cfg.FbDelay) * u,
		FailbackEnabled: cfg.FbEnabled, GracePeriod: 50 * time.Microsecond}
	c := ha.NewFailoverController(fc, "node-1", roleOf(cfg.Orig), 1, m, lg)
	w.c, w.m = c, m
	c.SetRoleChangeCallback(func(r ha.Role) error {
		cw := &cbWait{role: r, release: make(chan error)}
		w.entered <- cw
		return <-cw.release
	})
	evn := map[ha.FailoverEventType]string{ha.FailoverEventInitiated: "EInitiated", ha.FailoverEventCompleted: "ECompleted",
		ha.FailoverEventCanceled: "ECanceled", ha.FailoverEventFailbackInitiated: "EFbInitiated",
		ha.FailoverEventFailbackCompleted: "EFbCompleted", ha.FailoverEventRoleChanged: "ERoleChanged"}
	c.OnFailoverEvent(func(e ha.FailoverEvent) {
		w.mu.Lock()
		w.events = append(w.events, fmt.Sprintf("(%s, %s, %s)", evn[e.Type], coqRole(e.OldRole), coqRole(e.NewRole)))
		w.mu.Unlock()
	})
	// the harness listens to the monitor's notifications like any other OnHealthChange subscriber
	m.OnHealthChange(func(e ha.HealthEvent) {
		w.mu.Lock()
		w.hevN++
		switch e.Type {
		case ha.HealthEventPartnerDown:
			w.hev = 1
		case ha.HealthEventPartnerUp:
			w.hev = 2
		case ha.HealthEventCheckFailed:
			w.hev = 3
		case ha.HealthEventCheckSucceeded:
			w.hev = 4
		default:
			w.hev = 9
		}
		w.mu.Unlock()
	})
	c.VerifAttach()
	return w
}

// probe: is the real timer still armed? (Stop reports it; re-arm far in the future.)
func probe(t *time.Timer) bool {
	if t.Stop() {
		t.Reset(1000 * unit)
		return true
	}
	return false
}

// syncTimer reconciles the driver's view of one controller timer after an event.
func (w *world) syncTimer(cur *time.Timer, due time.Time, conf int, tr **trk, z *int) {
	old := *tr
	if old != nil && old.t != cur {
		// replaced by a new timer object
		if old.pending {
			if probe(old.t) {
				*z += 100 // the code dropped a live timer without stopping it: not expressible in the Model
				old.t.Stop()
			} else if old.deadline <= w.now {
				*z++
			}
		}
		old = nil
	}
	if old == nil {
		if cur == nil {
			*tr = nil
			return
		}
		d := int64(math.Round(float64(time.Until(due)) / float64(unit)))
		*tr = &trk{t: cur, deadline: w.now + int64(conf), recorded: w.now + d, pending: probe(cur)}
		return
	}
	if old.pending && !probe(old.t) {
		old.pending = false
		if old.deadline <= w.now {
			*z++
		}
	}
	if !old.pending && probe(old.t) { // re-armed in place (Reset): not done by the code today
		old.pending = true
		d := int64(math.Round(float64(time.Until(due)) / float64(unit)))
		old.deadline, old.recorded = w.now+int64(conf), w.now+d
	}
}

// launch runs f in its own goroutine and waits until it returned or blocked in the callback.
func (w *world) launch(kind string, f func()) (cb *cbWait) {
	done := make(chan struct{})
	go func() { f(); close(done) }()
	select {
	case cw := <-w.entered:
		cw.done, cw.kind = done, kind
		w.infl = append(w.infl, cw)
		return cw
	case <-done:
		return nil
	}
}

func (w *world) apply(e Ev) (op string, res string, cb *cbWait) {
	res = "RNone"
	switch e.K {
	case "down":
		op = "Down"
		if e.V == "" {
			w.m.VerifRecordFailure()
		} else {
			// a real check against the scripted partner; the event says what the answer MEANS (any
			// answer other than 200 + decodable body + status "healthy" is a failed check)
			w.mode.Store(e.V)
			_ = w.m.CheckNow()
		}
	case "up":
		op = "Up"
		if e.V == "" {
			w.m.VerifRecordSuccess()
		} else {
			w.mode.Store("ok")
			_ = w.m.CheckNow()
		}
	case "adv":
		op = fmt.Sprintf("Advance %d", e.D)
		w.now += int64(e.D)
	case "firefo", "firefb":
		tr, f := w.fo, w.c.VerifFailoverTimerFunc
		op = "FireFO"
		if e.K == "firefb" {
			tr, f, op = w.fb, w.c.VerifFailbackTimerFunc, "FireFB"
		}
		res = "RFire false"
		if tr != nil && tr.pending && tr.deadline <= w.now && tr.t.Stop() {
			tr.pending = false
			res = "RFire true"
			cb = w.launch(e.K[4:], f)
		}
	case "stalefo", "stalefb":
		z, f := &w.foZ, w.c.VerifFailoverTimerFunc
		op = "StaleFO"
		if e.K == "stalefb" {
			z, f, op = &w.fbZ, w.c.VerifFailbackTimerFunc, "StaleFB"
		}
		res = "RFire false"
		if *z > 0 {
			*z--
			res = "RFire true"
			cb = w.launch(e.K[5:], f)
		}
	case "tick":
		op = "Tick"
		w.c.VerifEvaluateState()
	case "forcefo":
		op = "ForceFO"
		var err error
		cb = w.launch("fo", func() { err = w.c.ForceFailover("operator") })
		if cb != nil {
			res = "RForce true"
		} else {
			res = "RForce " + vh.Bool(err == nil)
		}
	case "forcefb":
		op = "ForceFB"
		var err error
		cb = w.launch("fb", func() { err = w.c.ForceFailback("operator") })
		if cb != nil {
			res = "RForce true"
		} else {
			res = "RForce " + vh.Bool(err == nil)
		}
	case "cb":
		op = fmt.Sprintf("CbReturn %d %s", e.I, vh.Bool(e.Ok))
		if e.I >= 0 && e.I < len(w.infl) {
			cw := w.infl[e.I]
			w.infl = append(append([]*cbWait(nil), w.infl[:e.I]...), w.infl[e.I+1:]...)
			if e.Ok {
				cw.release <- nil
			} else {
				cw.release <- errors.New("role change refused")
			}
			<-cw.done
		}
	default:
		panic("bad event " + e.K)
	}
	return
}

// counters are ints in the code; a negative value is not expressible in N (it would be a defect)
func coqN(v int) string {
	if v < 0 {
		return "(BadCounter)"
	}
	return fmt.Sprintf("%d", v)
}

func (w *world) observe(res string, cb *cbWait) string {
	fo, fb := w.c.VerifTimers()
	fod, fbd := w.c.VerifDeadlines()
	w.syncTimer(fo, fod, w.cfg.Delay, &w.fo, &w.foZ)
	w.syncTimer(fb, fbd, w.cfg.FbDelay, &w.fb, &w.fbZ)
	rec := func(t *trk) string {
		if t == nil || !t.pending {
			return "None"
		}
		if t.recorded < 0 {
			return "(Some BadDeadline)"
		}
		return fmt.Sprintf("(Some %d)", t.recorded)
	}
	w.mu.Lock()
	evs := w.events
	w.events = nil
	hev := w.hev
	if w.hevN > 1 {
		hev = 10 + w.hevN // more than one notification for one check: not expressible in the Model
	}
	w.hev, w.hevN = 0, 0
	w.mu.Unlock()
	hl := w.m.Health()
	st := int(w.c.State())
	sts := "(BadState)"
	if st >= 0 && st < len(stNames) {
		sts = stNames[st]
	}
	i, c, x, f := w.c.Stats()
	cbs := "None"
	if cb != nil {
		cbs = "(Some " + coqRole(cb.role) + ")"
	}
	return fmt.Sprintf("mkOut %s %s (%d,%d,%d,%d) %s %s %s %d %d %s (%s,%s) %d (%s,%s) %s (%s)", coqRole(w.c.CurrentRole()), sts, i, c, x, f,
		vh.List(evs), vh.Bool(w.fo != nil && w.fo.pending), vh.Bool(w.fb != nil && w.fb.pending), w.foZ, w.fbZ,
		vh.Bool(w.m.IsPartnerHealthy()), coqN(hl.ConsecutiveFailures), coqN(hl.ConsecutiveSuccesses), hev, rec(w.fo), rec(w.fb), cbs, res)
}

// ---- real-time stream: the REAL time.AfterFunc timers fire by themselves ----
//
// Delays are milliseconds here (1 model unit = 1 ms) and nothing is driven through the timer hooks:
// the controller's own timer closure runs when the Go runtime fires it. The driver only measures: the
// model time handed to [Advance] before a [FireFO]/[FireFB] is the real time between the instant just
// BEFORE the check that armed the timer was injected and the instant the role-change callback was seen
// entered, rounded down — an under-estimate never exceeds the truth by more than the scheduling
// latency, and a timer that fires before its configured delay shows as a promotion with the partner
// down for less than the delay (clause 2) whatever the machine load. The timer-pending flags are not
// probed in this stream (a probe re-arms the real timer): they are filled from State() (pending <=>
// failover timer armed; failback_pending with no callback outstanding <=> failback timer armed), which
// holds on these stale-free single-execution histories. An [Advance] step repeats the previous
// observation (nothing of the implementation runs at a clock move).
func (w *world) observeRT(res string, cb *cbWait, dl string) (full, quiet string) {
	w.mu.Lock()
	evs := w.events
	w.events = nil
	hev := w.hev
	if w.hevN > 1 {
		hev = 10 + w.hevN
	}
	w.hev, w.hevN = 0, 0
	w.mu.Unlock()
	hl := w.m.Health()
	st := int(w.c.State())
	sts := "(BadState)"
	if st >= 0 && st < len(stNames) {
		sts = stNames[st]
	}
	fbOut := false
	for _, x := range w.infl {
		if x.kind == "fb" {
			fbOut = true
		}
	}
	i, c, x, f := w.c.Stats()
	cbs := "None"
	if cb != nil {
		cbs = "(Some " + coqRole(cb.role) + ")"
	}
	mk := func(evs []string, hev int, cbs, res string) string {
		return fmt.Sprintf("mkOut %s %s (%d,%d,%d,%d) %s %s %s 0 0 %s (%s,%s) %d %s %s (%s)", coqRole(w.c.CurrentRole()), sts, i, c, x, f,
			vh.List(evs), vh.Bool(sts == "Pending"), vh.Bool(sts == "FailbackPending" && !fbOut),
			vh.Bool(w.m.IsPartnerHealthy()), coqN(hl.ConsecutiveFailures), coqN(hl.ConsecutiveSuccesses), hev, dl, cbs, res)
	}
	// quiet = the same state observed again with nothing having happened (for clock moves)
	return mk(evs, hev, cbs, res), mk(nil, 0, "None", "RNone")
}

// RT describes one real-time case: thresholds, delays in ms, and a script of steps
//   D     FailureThreshold failed checks (a down report)      d  FailureThreshold-1 failed checks (no report)
//   U     RecoveryThreshold successful checks (an up report)   u  one successful check
//   s33 / s120   sleep that percentage of the failover delay
//   wfo / wfb    wait (long) until the failover / failback timer's function enters the role-change callback
//   ok / fail    the oldest outstanding callback returns nil / an error
//   quiet        2 x the failover delay passes; whether a failover timer function entered the callback is recorded
//   force        operator ForceFailover (its callback stays outstanding until ok / fail)
// so a case is a sequence of down episodes: cancelled ones, promoted ones, full failover / failback cycles,
// a forced failover while a timed one is pending, a failed callback, followed by ANOTHER episode.
type RT struct {
	Cfg    Cfg    `json:"cfg"`
	Script string `json:"script"`
}

type armRec struct {
	tb, ta time.Time // real instants just before / after the event that armed the timer
	clk    int       // model time of that event
}

func runRT(rt RT) (vh.Case, bool) {
	cfg := rt.Cfg
	w := newWorldU(cfg, nil, time.Millisecond)
	defer w.close()
	var tr []string
	last := ""
	T0 := time.Now()
	clk := 0 // model time = real milliseconds since T0, rounded down, at the last emitted Advance
	var armFO, armFB *armRec
	ms := func(d time.Duration) int { return int(d / time.Millisecond) }
	D, FD := time.Duration(cfg.Delay)*time.Millisecond, time.Duration(cfg.FbDelay)*time.Millisecond
	// the deadline the implementation recorded, as model time: the Model's value when the recorded instant
	// lies where it must (between arming-event-start + delay and arming-event-end + delay: exact bounds, no
	// tolerance), otherwise the recorded instant itself (pushed off the Model's value)
	one := func(a *armRec, rec time.Time, delay time.Duration, dms int) string {
		if a == nil {
			return "None"
		}
		want := a.clk + dms
		switch {
		case rec.Before(a.tb.Add(delay)):
			v := ms(rec.Sub(T0))
			if v >= want {
				v = want - 1
			}
			if v < 0 {
				v = 0
			}
			return fmt.Sprintf("(Some %d)", v)
		case rec.After(a.ta.Add(delay)):
			v := ms(rec.Sub(T0))
			if v <= want {
				v = want + 1
			}
			return fmt.Sprintf("(Some %d)", v)
		}
		return fmt.Sprintf("(Some %d)", want)
	}
	dl := func() string {
		fot, fbt := w.c.VerifDeadlines()
		st := w.c.State()
		fbOut := false
		for _, x := range w.infl {
			if x.kind == "fb" {
				fbOut = true
			}
		}
		a, b := "None", "None"
		if st == ha.FailoverStatePending {
			a = one(armFO, fot, D, cfg.Delay)
		}
		if st == ha.FailoverStateFailbackPending && !fbOut {
			b = one(armFB, fbt, FD, cfg.FbDelay)
		}
		return "(" + a + "," + b + ")"
	}
	emit := func(op string, full, quiet string) { tr = append(tr, vh.Pair(op, full)); last = quiet }
	_, last = w.observeRT("RNone", nil, "(None,None)")
	obs := func(op, res string, cb *cbWait) {
		f, q := w.observeRT(res, cb, dl())
		emit(op, f, q)
	}
	advTo := func(t time.Time) {
		if d := ms(t.Sub(T0)) - clk; d > 0 {
			emit(fmt.Sprintf("Advance %d", d), last, last)
			clk += d
		}
	}
	valid := true
	// inject n identical check results; the model time of each is the real time just before it
	checksN := func(k string, n int) {
		for ; n > 0; n-- {
			st0 := w.c.State()
			tb := time.Now()
			advTo(tb)
			op, res, cb := w.apply(Ev{K: k})
			ta := time.Now()
			st1 := w.c.State()
			if st0 != st1 && st1 == ha.FailoverStatePending {
				armFO = &armRec{tb, ta, clk}
			}
			if st0 != st1 && st1 == ha.FailoverStateFailbackPending {
				armFB = &armRec{tb, ta, clk}
			}
			if st0 == ha.FailoverStatePending && st1 != st0 && armFO != nil && ta.Sub(armFO.tb) >= D-2*time.Millisecond {
				valid = false // a cancellation so late that the real timer may have fired first: not a case
			}
			if st0 == ha.FailoverStateFailbackPending && st1 != st0 && armFB != nil && ta.Sub(armFB.tb) >= FD-2*time.Millisecond {
				valid = false
			}
			obs(op, res, cb)
		}
	}
	// waitFire waits (at most lim) until a timer-started execution enters the callback
	waitFire := func(fire, kind string, lim time.Duration) bool {
		select {
		case cw := <-w.entered:
			now := time.Now()
			done := make(chan struct{}) // the timer goroutine is the runtime's: nothing to wait for
			cw.done, cw.kind = done, kind
			close(done)
			w.infl = append(w.infl, cw)
			advTo(now)
			obs(fire, "RFire true", cw)
			return true
		case <-time.After(lim):
			advTo(time.Now())
			obs(fire, "RFire false", nil)
			return false
		}
	}
	release := func(ok bool) {
		if len(w.infl) == 0 {
			return
		}
		cw := w.infl[0]
		w.infl = w.infl[1:]
		st0 := w.c.State()
		advTo(time.Now())
		if ok {
			cw.release <- nil
		} else {
			cw.release <- errors.New("role change refused")
		}
		// the execution continues in another goroutine: wait until it has published its result (an
		// error: the state change is its last action; success: role_changed is the last event it emits)
		for i := 0; i < 10000; i++ {
			w.mu.Lock()
			n := len(w.events)
			w.mu.Unlock()
			if (ok && n >= 2) || (!ok && w.c.State() != st0) {
				break
			}
			time.Sleep(time.Millisecond)
		}
		obs(fmt.Sprintf("CbReturn 0 %s", vh.Bool(ok)), "RNone", nil)
	}
	F, R := cfg.Fthr, cfg.Rthr
	if F < 1 {
		F = 1
	}
	if R < 1 {
		R = 1
	}
	long := 20*D + 20*FD + 5*time.Second
	for _, step := range strings.Fields(rt.Script) {
		switch step {
		case "D":
			checksN("down", F)
		case "d":
			checksN("down", F-1)
		case "U":
			checksN("up", R)
		case "u":
			checksN("up", 1)
		case "wfo":
			waitFire("FireFO", "fo", long)
		case "wfb":
			waitFire("FireFB", "fb", long)
		case "quiet":
			waitFire("FireFO", "fo", 2*D)
		case "ok":
			release(true)
		case "fail":
			release(false)
		case "force":
			advTo(time.Now())
			op, res, cb := w.apply(Ev{K: "forcefo"})
			obs(op, res, cb)
		default:
			var pct int
			if _, err := fmt.Sscanf(step, "s%d", &pct); err != nil {
				panic("bad realtime step " + step)
			}
			time.Sleep(D * time.Duration(pct) / 100)
		}
	}
	return vh.Case{Coq: "(" + coqCfg(cfg) + ",\n  " + vh.List(tr) + ")", Desc: rt,
		Tags: []string{"realtime", "realtime:" + strings.ReplaceAll(rt.Script, " ", "_"), fmt.Sprintf("thresholds:%d/%d", cfg.Fthr, cfg.Rthr)}}, valid
}

var rtScripts = []string{
	"D wfo ok",                       // one episode, promoted
	"D s33 U quiet",                  // cancelled by a recovery
	"d u d quiet D wfo ok",           // flapping below the threshold: nothing; then a real episode
	"D wfo ok U wfb ok",              // failover and failback
	"D s33 U s120 D wfo ok",          // cancelled episode, SECOND episode after the first deadline has passed
	"D s33 U D s33 U D wfo ok",       // two cancelled episodes, third promotes
	"D s33 U D s33 U s120 D s33 U quiet", // three cancelled episodes
	"D wfo ok U wfb ok D wfo ok",     // full cycle, then a second promotion
	"D wfo ok U wfb ok D s33 U quiet", // full cycle, then a cancelled episode
	"D wfo fail U D wfo ok",          // refused promotion, recovery, next episode
	"D s33 force quiet ok",           // forced failover while a timed one is pending: its timer must be dead
	"D s33 force ok quiet U wfb ok D wfo ok", // ... and the episode after the forced one
}

func realtimeCases(thorough bool) []vh.Case {
	var rts []RT
	ths := [][2]int{{3, 2}, {1, 1}}
	if thorough {
		ths = append(ths, [2]int{2, 3}, [2]int{4, 1})
	}
	for _, th := range ths {
		for _, sc := range rtScripts {
			rts = append(rts, RT{Cfg: Cfg{Delay: 400, FbDelay: 120, FbEnabled: true, Orig: "standby", Fthr: th[0], Rthr: th[1]}, Script: sc})
		}
	}
	out := make([]*vh.Case, len(rts))
	var wg sync.WaitGroup
	for i := range rts {
		wg.Add(1)
		go func(i int) {
			defer wg.Done()
			for try := 0; try < 3; try++ { // a case invalidated by a scheduling stall is run again
				if cs, ok := runRT(rts[i]); ok {
					out[i] = &cs
					return
				}
			}
		}(i)
	}
	wg.Wait()
	var res []vh.Case
	for _, c := range out {
		if c != nil {
			res = append(res, *c)
		}
	}
	return res
}

// fingerprint of the implementation-visible state (used to prune the exhaustive exploration)
func (w *world) fingerprint(cfg Cfg) string {
	rem := func(t *trk) int64 {
		if t == nil || !t.pending {
			return -1
		}
		if t.deadline <= w.now {
			return 0
		}
		return t.deadline - w.now
	}
	capi := func(v, m int) int {
		if v > m {
			return m
		}
		return v
	}
	var ks []string
	for _, x := range w.infl {
		ks = append(ks, x.kind)
	}
	age := w.now - w.since
	if age > int64(cfg.Delay)+1 {
		age = int64(cfg.Delay) + 1
	}
	hl := w.m.Health()
	return fmt.Sprintf("%s|%d|%v|%d|%d|%d|%d|%s|%d|%d|%d", w.c.CurrentRole(), w.c.State(), w.m.IsPartnerHealthy(), rem(w.fo), rem(w.fb),
		capi(w.foZ, 2), capi(w.fbZ, 2), strings.Join(ks, ","), age, capi(hl.ConsecutiveFailures, cfg.Fthr), capi(hl.ConsecutiveSuccesses, cfg.Rthr))
}

func (w *world) close() {
	for _, cw := range w.infl {
		cw.release <- errors.New("case over")
		<-cw.done
	}
	w.infl = nil
	w.c.Stop()
	if w.srv != nil {
		w.srv.Close()
	}
}

func coqCfg(c Cfg) string {
	return fmt.Sprintf("Build_config %d %d %s %s %d %d", c.Delay, c.FbDelay, vh.Bool(c.FbEnabled), coqRole(roleOf(c.Orig)), c.Fthr, c.Rthr)
}

// run executes a case on the real controller; returns the Coq case and the final fingerprint.
func run(c Case, extraTags ...string) (vh.Case, string) {
	w := newWorld(c.Cfg, c.Evs)
	var tr []string
	tags := map[string]bool{}
	maxInfl := 0
	for _, e := range c.Evs {
		wasHealthy := w.m.IsPartnerHealthy()
		op, res, cb := w.apply(e)
		if wasHealthy && !w.m.IsPartnerHealthy() {
			w.since = w.now
			tags["partner-down-reported"] = true
		}
		if !wasHealthy && w.m.IsPartnerHealthy() {
			tags["partner-up-reported"] = true
		}
		out := w.observe(res, cb)
		tr = append(tr, vh.Pair(op, out))
		tags["ev:"+e.K] = true
		if e.V != "" {
			tags["real-http-check:"+e.V] = true
		}
		if cb != nil {
			tags["exec-started:"+cb.kind] = true
		}
		if strings.HasPrefix(e.K, "stale") && res == "RFire true" {
			tags["stale-fire-ran"] = true
		}
		if len(w.infl) > maxInfl {
			maxInfl = len(w.infl)
		}
		if w.c.CurrentRole() != roleOf(c.Cfg.Orig) {
			tags["reached:failed-over"] = true
		}
	}
	fp := w.fingerprint(c.Cfg)
	w.close()
	var tl []string
	for t := range tags {
		tl = append(tl, t)
	}
	tl = append(tl, fmt.Sprintf("max-outstanding:%d", maxInfl), "orig:"+c.Cfg.Orig)
	tl = append(tl, extraTags...)
	sort.Strings(tl)
	return vh.Case{Coq: "(" + coqCfg(c.Cfg) + ",\n  " + vh.List(tr) + ")", Desc: c, Tags: tl}, fp
}

func alphabet(cfg Cfg, grace int) []Ev {
	a := []Ev{{K: "down"}, {K: "up"}, {K: "firefo"}, {K: "firefb"}, {K: "stalefo"}, {K: "stalefb"}, {K: "tick"},
		{K: "forcefo"}, {K: "forcefb"}, {K: "cb", I: 0, Ok: true}, {K: "cb", I: 0, Ok: false}, {K: "cb", I: 1, Ok: true}, {K: "cb", I: 1, Ok: false}}
	seen := map[int]bool{}
	for _, d := range []int{1, grace, cfg.Delay - 1, cfg.Delay, cfg.Delay + 1, cfg.FbDelay} {
		if d > 0 && !seen[d] {
			seen[d] = true
			a = append(a, Ev{K: "adv", D: d})
		}
	}
	return a
}

// explore: breadth-first over event sequences; a sequence is extended only if it reached an
// implementation-state fingerprint not seen before. Every executed sequence is a case, so every
// (fingerprint-distinct state reachable within depth, event) transition is checked.
func explore(cfg Cfg, depth int, seeds []string) []vh.Case {
	alpha := alphabet(cfg, 3)
	seen := map[string]bool{}
	var frontier [][]Ev
	for _, sd := range append([]string{""}, seeds...) {
		p := expand(parseEvs(sd), cfg)
		_, fp := run(Case{Cfg: cfg, Evs: p})
		if !seen[fp] {
			seen[fp] = true
			frontier = append(frontier, p)
		}
	}
	var out []vh.Case
	for d := 1; d <= depth && len(frontier) > 0; d++ {
		var next [][]Ev
		for _, p := range frontier {
			for _, e := range alpha {
				seq := append(append([]Ev(nil), p...), e)
				cs, fp := run(Case{Cfg: cfg, Evs: seq}, fmt.Sprintf("exhaustive-depth:%d", d))
				out = append(out, cs)
				if !seen[fp] {
					seen[fp] = true
					next = append(next, seq)
				}
			}
		}
		frontier = next
	}
	return out
}

// exploration also starts from these deeper states (timer due, execution outstanding, failed over,
// failback pending, failback timer due, failback outstanding)
var seedPrefixes = []string{
	"down adv10", "down adv10 firefo", "down adv10 firefo cb0ok", "down adv10 firefo cb0ok up",
	"down adv10 firefo cb0ok up adv12", "down adv10 firefo cb0ok up adv12 firefb", "down adv10 up down",
}

// further starting states, all AFTER a first down episode (standard configuration only): recovery one
// tick before / at / one tick after the deadline, a completed failover + failback cycle, a forced failover
// while the timed one is pending, a refused promotion, a second episode under way
var episodePrefixes = []string{
	"down adv9 up", "down adv10 up", "down adv11 up", "down adv10 firefo cb0ok up adv12 firefb cb0ok",
	"down adv3 forcefo", "down adv10 firefo cb0fail", "down adv9 up adv3 down adv9",
}

// one down episode each (written for thresholds 1/1, expanded to the case's thresholds)
var episodeKinds = []string{
	"down adv9 up",   // recovery one tick before the deadline
	"down adv10 up",  // recovery at the deadline (the timer was due when stopped)
	"down adv11 up",  // recovery one tick after it
	"down adv10 firefo cb0ok up adv12 firefb cb0ok",                      // failover and failback
	"down adv10 firefo cb0ok up adv5 down tick up adv12 firefb cb0ok",    // ... failback cancelled once
	"down adv3 forcefo adv10 firefo cb0ok cb0ok up adv12 firefb cb0ok",   // forced while the timed one is pending
	"down adv10 firefo cb0fail up",                                       // refused promotion
	"down adv10 up stalefo cb0ok",                                        // a stale fire after the cancellation
	"down adv4 up adv1 down adv4 up",                                     // two short flaps
}

// episodes: every ordered pair (thorough: triple) of episode kinds, a gap, then one more episode in
// which the timer is tried one tick early and at its deadline.
func episodeCases(thorough bool) []vh.Case {
	var out []vh.Case
	tail := "down adv9 firefo cb0ok adv1 firefo cb0ok"
	for _, th := range [][2]int{{1, 1}, {3, 2}} {
		cfg := Cfg{Delay: 10, FbDelay: 12, FbEnabled: true, Orig: "standby", Fthr: th[0], Rthr: th[1]}
		n := len(episodeKinds)
		lim := n * n
		if thorough {
			lim = n * n * n
		}
		for x := 0; x < lim; x++ {
			seq := episodeKinds[x%n] + " adv2 " + episodeKinds[x/n%n]
			if thorough {
				seq += " adv13 " + episodeKinds[x/n/n%n]
			}
			seq += " adv1 " + tail
			cs, _ := run(Case{Cfg: cfg, Evs: expand(parseEvs(seq), cfg)}, "episodes")
			out = append(out, cs)
		}
	}
	return out
}

func genRandom(r *vh.Rng, maxLen int) Case {
	cfg := Cfg{Delay: 10, FbDelay: 12, FbEnabled: !r.Chance(1, 6), Orig: "standby"}
	if r.Chance(1, 12) {
		cfg.Orig = "active"
	}
	if r.Chance(1, 5) {
		cfg.Delay, cfg.FbDelay = 1+r.Intn(6), 1+r.Intn(6)
	}
	cfg.Fthr, cfg.Rthr = pickThr(r)
	alpha := alphabet(cfg, 3)
	n := 4 + r.Intn(maxLen)
	var evs []Ev
	for i := 0; i < n; i++ {
		switch x := r.Intn(20); {
		case x < 4:
			evs = append(evs, Ev{K: "down"})
		case x < 7:
			evs = append(evs, Ev{K: "up"})
		case x < 10:
			evs = append(evs, Ev{K: "adv", D: []int{1, 3, cfg.Delay - 1, cfg.Delay, cfg.Delay + 1, cfg.FbDelay}[r.Intn(6)]})
		case x < 12:
			evs = append(evs, Ev{K: "firefo"})
		case x < 13:
			evs = append(evs, Ev{K: "firefb"})
		case x < 15:
			evs = append(evs, Ev{K: "cb", I: r.Intn(2), Ok: !r.Chance(1, 4)})
		default:
			evs = append(evs, alpha[r.Intn(len(alpha))])
		}
	}
	if cfg.Delay == 10 && cfg.FbDelay == 12 && r.Chance(1, 2) {
		evs = append(expand(parseEvs(seedPrefixes[r.Intn(len(seedPrefixes))]), cfg), evs...)
	}
	if cfg.Fthr > 1 && r.Chance(1, 2) { // make reports as frequent as with threshold 1: repeat some checks
		evs = expand(evs, cfg)
	}
	// drop zero advances
	var o []Ev
	for _, e := range evs {
		if e.K == "adv" && e.D <= 0 {
			continue
		}
		o = append(o, e)
	}
	if r.Chance(1, 8) {
		o = viaHTTP(r, o)
	}
	return Case{Cfg: cfg, Evs: o}
}

// expand rewrites a history written for thresholds 1/1 into one with the same partner-down /
// partner-up reports under the case's thresholds: every failed check becomes FailureThreshold failed
// checks, every successful one RecoveryThreshold successful checks.
func expand(evs []Ev, cfg Cfg) []Ev {
	var o []Ev
	for _, e := range evs {
		n := 1
		if e.K == "down" && cfg.Fthr > 1 {
			n = cfg.Fthr
		}
		if e.K == "up" && cfg.Rthr > 1 {
			n = cfg.Rthr
		}
		for ; n > 0; n-- {
			o = append(o, e)
		}
	}
	return o
}

// hyst is the driver's own copy of the documented hysteresis; the generators use it to steer (to stay
// inside a guard, to aim at threshold boundaries). It is never compared with anything.
type hyst struct {
	up   bool
	f, s int
}

func (h *hyst) step(cfg Cfg, ok bool) {
	if ok {
		h.s, h.f = h.s+1, 0
		if !h.up && h.s >= cfg.Rthr {
			h.up = true
		}
	} else {
		h.f, h.s = h.f+1, 0
		if h.up && h.f >= cfg.Fthr {
			h.up = false
		}
	}
}
func (h hyst) wouldGoDown(cfg Cfg) bool { return h.up && h.f+1 >= cfg.Fthr }

// thresholds of the random streams: the harness default of the first version (1/1), the repository's
// default (3/2) and everything between 0 and 4
func pickThr(r *vh.Rng) (int, int) {
	switch x := r.Intn(10); {
	case x < 3:
		return 1, 1
	case x < 6:
		return 3, 2
	default:
		return r.Intn(5), r.Intn(5)
	}
}

// genFlap: check results around the threshold boundaries (runs of F-1, F, F+1 failures, R-1, R, R+1
// successes, single flips), time passing in between, the timers given a chance to fire after every
// run, callbacks answered at once (so only the monitor + timer logic is in play).
func genFlap(r *vh.Rng, maxLen int) Case {
	cfg := Cfg{Delay: 10, FbDelay: 12, FbEnabled: !r.Chance(1, 6), Orig: "standby"}
	cfg.Fthr, cfg.Rthr = pickThr(r)
	if r.Chance(1, 4) {
		cfg.Delay, cfg.FbDelay = 1+r.Intn(6), 1+r.Intn(6)
	}
	n := 6 + r.Intn(maxLen)
	var evs []Ev
	run := func(k string, n int) {
		for ; n > 0; n-- {
			evs = append(evs, Ev{K: k})
			if r.Chance(1, 3) {
				evs = append(evs, Ev{K: "adv", D: 1 + r.Intn(4)})
			}
		}
	}
	for len(evs) < n {
		switch x := r.Intn(10); {
		case x < 4:
			run("down", []int{1, cfg.Fthr - 1, cfg.Fthr, cfg.Fthr + 1}[r.Intn(4)])
		case x < 7:
			run("up", []int{1, cfg.Rthr - 1, cfg.Rthr, cfg.Rthr + 1}[r.Intn(4)])
		case x < 8:
			evs = append(evs, Ev{K: "adv", D: []int{1, cfg.Delay - 1, cfg.Delay, cfg.FbDelay}[r.Intn(4)]})
		default:
			evs = append(evs, Ev{K: []string{"firefo", "firefo", "firefb", "tick"}[r.Intn(4)]}, Ev{K: "cb", I: 0, Ok: !r.Chance(1, 5)})
		}
	}
	var o []Ev
	for _, e := range evs {
		if e.K == "adv" && e.D <= 0 {
			continue
		}
		o = append(o, e)
	}
	if r.Chance(1, 3) {
		o = viaHTTP(r, o)
	}
	return Case{Cfg: cfg, Evs: o}
}

// viaHTTP turns the case's injected check results into real checks against the scripted partner
var failKinds = []string{"500", "204", "badjson", "degraded", "abort"}

func viaHTTP(r *vh.Rng, evs []Ev) []Ev {
	o := append([]Ev(nil), evs...)
	for i := range o {
		switch o[i].K {
		case "down":
			o[i].V = failKinds[r.Intn(len(failKinds))]
		case "up":
			o[i].V = "ok"
		}
	}
	return o
}

// checkSequences: EVERY sequence of check results up to length maxLen, for several threshold pairs,
// each in two forms: (a) the checks alone, then the failover delay elapses and the timer function runs;
// (b) two time units pass after every check and whatever timer is due runs (so a promotion happens in
// the middle of the sequence exactly when the partner has been down for the delay).
func checkSequences(maxLen int) []vh.Case {
	var out []vh.Case
	for _, th := range [][2]int{{3, 2}, {2, 2}, {1, 3}, {2, 1}} {
		cfg := Cfg{Delay: 4, FbDelay: 4, FbEnabled: true, Orig: "standby", Fthr: th[0], Rthr: th[1]}
		for l := 1; l <= maxLen; l++ {
			for bits := 0; bits < 1<<l; bits++ {
				var a, b []Ev
				for i := 0; i < l; i++ {
					k := "down"
					if bits>>i&1 == 1 {
						k = "up"
					}
					a = append(a, Ev{K: k})
					b = append(b, Ev{K: k}, Ev{K: "adv", D: 2}, Ev{K: "firefo"}, Ev{K: "cb", I: 0, Ok: true}, Ev{K: "firefb"}, Ev{K: "cb", I: 0, Ok: true})
				}
				a = append(a, Ev{K: "adv", D: cfg.Delay}, Ev{K: "firefo"}, Ev{K: "cb", I: 0, Ok: true})
				ca, _ := run(Case{Cfg: cfg, Evs: a}, "check-sequence", fmt.Sprintf("check-seq-len:%d", l))
				out = append(out, ca)
				if l <= maxLen-2 {
					cb, _ := run(Case{Cfg: cfg, Evs: b}, "check-sequence-timed", fmt.Sprintf("check-seq-len:%d", l))
					out = append(out, cb)
				}
			}
		}
	}
	return out
}

// parse "down adv10 cb0ok ..." into events
func parseEvs(s string) []Ev {
	var o []Ev
	for _, t := range strings.Fields(s) {
		switch {
		case strings.HasPrefix(t, "adv"):
			var d int
			fmt.Sscanf(t[3:], "%d", &d)
			o = append(o, Ev{K: "adv", D: d})
		case strings.HasPrefix(t, "cb"):
			o = append(o, Ev{K: "cb", I: int(t[2] - '0'), Ok: strings.HasSuffix(t, "ok")})
		default:
			o = append(o, Ev{K: t})
		}
	}
	return o
}

// the stored witnesses of the known findings; the defect stream generates their neighbours
var witnesses = []string{
	"down adv10 up down stalefo cb0ok",
	"down adv10 up down adv10 firefo stalefo cb0ok cb0ok",
	"down adv10 firefo cb0ok up adv12 firefb down tick up adv12 firefb cb0ok down adv10 firefo cb0ok up down adv10 firefo cb0ok cb0ok",
	"down adv10 firefo cb0ok up adv12 firefb down cb0ok adv11 up down",
	"down adv10 firefo cb0ok up adv12 firefb stalefb cb0ok cb0ok",
	"down adv10 up down adv10 up down stalefo stalefo firefo cb1ok cb0ok cb0fail",
}

func genDefect(r *vh.Rng) Case {
	cfg := Cfg{Delay: 10, FbDelay: 12, FbEnabled: true, Orig: "standby", Fthr: 1, Rthr: 1}
	if r.Chance(1, 3) {
		cfg.Fthr, cfg.Rthr = 1+r.Intn(3), 1+r.Intn(3)
	}
	alpha := alphabet(cfg, 3)
	evs := expand(parseEvs(witnesses[r.Intn(len(witnesses))]), cfg)
	for k := r.Intn(4); k > 0; k-- { // insert a few events
		i := r.Intn(len(evs) + 1)
		e := alpha[r.Intn(len(alpha))]
		evs = append(evs[:i], append([]Ev{e}, evs[i:]...)...)
	}
	if r.Chance(1, 3) && len(evs) > 2 { // or drop one
		i := r.Intn(len(evs))
		evs = append(evs[:i], evs[i+1:]...)
	}
	for k := r.Intn(5); k > 0; k-- {
		evs = append(evs, alpha[r.Intn(len(alpha))])
	}
	return Case{Cfg: cfg, Evs: evs}
}

// genGuarded: histories inside all three guards by construction: no stale fires; whenever an
// execution may have started its callback returns before anything but clock moves and (for a
// failover) health reports happen; no health-check failure between a failback start and its return.
func genGuarded(r *vh.Rng, maxLen int) Case {
	cfg := Cfg{Delay: 10, FbDelay: 12, FbEnabled: !r.Chance(1, 6), Orig: "standby"}
	if r.Chance(1, 5) {
		cfg.Delay, cfg.FbDelay = 1+r.Intn(6), 1+r.Intn(6)
	}
	cfg.Fthr, cfg.Rthr = pickThr(r)
	advs := []int{1, 3, cfg.Delay - 1, cfg.Delay, cfg.Delay + 1, cfg.FbDelay}
	n := 4 + r.Intn(maxLen)
	var evs []Ev
	h := hyst{up: true}
	adv := func() {
		if d := advs[r.Intn(len(advs))]; d > 0 {
			evs = append(evs, Ev{K: "adv", D: d})
		}
	}
	check := func(ok bool, times int) {
		for ; times > 0; times-- {
			evs = append(evs, Ev{K: map[bool]string{false: "down", true: "up"}[ok]})
			h.step(cfg, ok)
		}
	}
	reps := func(thr int) int { // mostly whole threshold-sized runs so that reports are frequent
		if thr > 1 && r.Chance(2, 3) {
			return thr
		}
		return 1
	}
	if cfg.Delay == 10 && cfg.FbDelay == 12 && r.Chance(1, 2) {
		for _, e := range expand(parseEvs([]string{"down adv10 firefo cb0ok", "down adv10 firefo cb0ok up", "down adv10 firefo cb0ok up adv12", "down adv10"}[r.Intn(4)]), cfg) {
			switch e.K {
			case "down":
				check(false, 1)
			case "up":
				check(true, 1)
			default:
				evs = append(evs, e)
			}
		}
		n += len(evs)
	}
	for len(evs) < n {
		switch x := r.Intn(20); {
		case x < 4:
			check(false, reps(cfg.Fthr))
		case x < 7:
			check(true, reps(cfg.Rthr))
		case x < 11:
			adv()
		case x < 12:
			evs = append(evs, Ev{K: "tick"})
		case x < 13:
			evs = append(evs, Ev{K: "forcefb"})
		default:
			k := []string{"firefo", "firefo", "firefb", "firefb", "forcefo"}[r.Intn(5)]
			evs = append(evs, Ev{K: k})
			for j := r.Intn(3); j > 0; j-- { // the grace period / callback window
				switch y := r.Intn(4); {
				case y == 0 && (k != "firefb" || !h.wouldGoDown(cfg)):
					// during a failback window only failed checks that do not take the partner down
					check(false, 1)
				case y == 1:
					check(true, 1)
				default:
					adv()
				}
			}
			evs = append(evs, Ev{K: "cb", I: 0, Ok: !r.Chance(1, 4)})
		}
	}
	return Case{Cfg: cfg, Evs: evs}
}

const header = `From Coq Require Import NArith List. Import ListNotations.
From Verif Require Import Model.Failover Model.FailoverSpec Model.FailoverCheck.
Local Open Scope N_scope.
Definition cases : list case := [
`
const footer = `
].
Definition R := Eval vm_compute in run_cases cases.
Print R.
`

func main() {
	cfg := vh.ParseFlags()
	if cfg.Replay != "" {
		var c struct {
			Case
			Script string `json:"script"`
		}
		if err := vh.LoadReplay(cfg.Replay, &c); err != nil {
			panic(err)
		}
		if c.Script != "" { // a real-time case
			cs, _ := runRT(RT{Cfg: c.Cfg, Script: c.Script})
			vh.Emit(cfg, "cases", header, footer, []vh.Case{cs}, nil)
			return
		}
		cs, _ := run(c.Case)
		vh.Emit(cfg, "cases", header, footer, []vh.Case{cs}, nil)
		return
	}
	var corpus []vh.Case
	for _, f := range vh.CorpusFiles(cfg) {
		var c Case
		if err := vh.LoadReplay(f, &c); err != nil {
			panic(err)
		}
		cs, _ := run(c, "corpus")
		corpus = append(corpus, cs)
	}
	if len(corpus) > 0 {
		vh.Emit(cfg, "corpus", header, footer, corpus, nil)
	}
	depth, nrand, maxLen := 2, 200, 16
	if cfg.Thorough() {
		depth, nrand, maxLen = 5, 2500, 40
	}
	std := Cfg{Delay: 10, FbDelay: 12, FbEnabled: true, Orig: "standby", Fthr: 1, Rthr: 1}
	ex := explore(std, depth, append(append([]string(nil), seedPrefixes...), episodePrefixes...))
	ex = append(ex, explore(Cfg{Delay: 10, FbDelay: 12, FbEnabled: false, Orig: "standby", Fthr: 1, Rthr: 1}, depth, seedPrefixes[:4])...)
	ex = append(ex, explore(Cfg{Delay: 10, FbDelay: 12, FbEnabled: true, Orig: "active", Fthr: 1, Rthr: 1}, 2, nil)...)
	// the repository's default thresholds (3 failures / 2 successes): the counters are part of the fingerprint
	d32 := depth
	if cfg.Thorough() {
		d32 = depth - 1
	}
	ex = append(ex, explore(Cfg{Delay: 10, FbDelay: 12, FbEnabled: true, Orig: "standby", Fthr: 3, Rthr: 2}, d32, seedPrefixes)...)
	if cfg.Thorough() {
		ex = append(ex, explore(Cfg{Delay: 10, FbDelay: 12, FbEnabled: true, Orig: "standby", Fthr: 2, Rthr: 3}, depth-2, seedPrefixes[:5])...)
	}
	vh.Emit(cfg, "exhaustive", header, footer, ex, map[string]interface{}{"exhaustive": true,
		"exhaustive_note": fmt.Sprintf("breadth-first over the 19-event alphabet to depth %d from the initial state and from up to 14 seeded deeper states (7 of them after a first down episode), for thresholds 1/1 (three configurations), 3/2 (thorough: one level less) and (thorough tier, two levels less) 2/3; a sequence is extended only when it reaches a new implementation-state fingerprint (role, state, health flag, consecutive-failure / -success counters capped at the thresholds, timer remaining times, zombie timers, outstanding callbacks, age of the down report)", depth)})
	r := vh.NewRng(cfg.Seed)
	var cases []vh.Case
	for i := 0; i < nrand; i++ {
		cs, _ := run(genRandom(r.Fork(), maxLen), "random")
		cases = append(cases, cs)
	}
	vh.Emit(cfg, "cases", header, footer, cases, nil)
	var guarded, defect []vh.Case
	for i := 0; i < nrand; i++ {
		cs, _ := run(genGuarded(r.Fork(), maxLen), "guarded")
		guarded = append(guarded, cs)
	}
	vh.Emit(cfg, "guarded", header, footer, guarded, map[string]interface{}{"note": "histories inside the guards of every _partial theorem by construction: any rejection here is new by theorem"})
	for i := 0; i < nrand/2; i++ {
		cs, _ := run(genDefect(r.Fork()), "defect-neighbour")
		defect = append(defect, cs)
	}
	vh.Emit(cfg, "defect", header, footer, defect, nil)
	seqLen := 5
	if cfg.Thorough() {
		seqLen = 8
	}
	vh.Emit(cfg, "checkseq", header, footer, checkSequences(seqLen), map[string]interface{}{"exhaustive": true,
		"exhaustive_note": fmt.Sprintf("every sequence of health-check results of length 1..%d for the threshold pairs 3/2, 2/2, 1/3, 2/1, alone (then the delay elapses and the timer runs) and, up to length %d, with time passing and due timers running after every check", seqLen, seqLen-2)})
	var flap []vh.Case
	for i := 0; i < nrand; i++ {
		cs, _ := run(genFlap(r.Fork(), maxLen), "flap")
		flap = append(flap, cs)
	}
	vh.Emit(cfg, "flap", header, footer, flap, nil)
	vh.Emit(cfg, "episodes", header, footer, episodeCases(cfg.Thorough()), map[string]interface{}{"exhaustive": true,
		"exhaustive_note": "every ordered pair (thorough: triple) of 9 kinds of down episode (recovery at deadline-1 / deadline / deadline+1, failover+failback, failback cancelled once, forced failover while the timed one is pending, refused promotion, stale fire, short flaps) followed by one more episode whose timer is tried one tick early and at its deadline; thresholds 1/1 and 3/2"})
	vh.Emit(cfg, "realtime", header, footer, realtimeCases(cfg.Thorough()), map[string]interface{}{"note": "the controller's real time.AfterFunc timers fire by themselves (delays in milliseconds); model time = measured real time rounded down; timer-pending flags filled from State()"})
}
