// C04 correspondence driver: real pppoe.Server (receiveLoop on an in-memory raw socket, real
// radius.Client against a scripted RADIUS server on loopback) vs Model/PPPoESrv.v.
package main

import (
	"context"
	"encoding/binary"
	"fmt"
	"net"
	"os"
	"sort"
	"strings"
	"sync"
	"time"

	"verifharness/vh"

	"github.com/codelaboratoryltd/bng/pkg/pppoe"
	bngradius "github.com/codelaboratoryltd/bng/pkg/radius"
	"go.uber.org/zap"
	"layeh.com/radius"
	"layeh.com/radius/rfc2865"
)

// ---------------------------------------------------------------- case description (replayable)

type Cfg struct {
	Radius  bool   `json:"radius"`
	Chap    bool   `json:"chap,omitempty"`
	Pool    string `json:"pool,omitempty"` // CIDR; "" = no client pool
	Gateway string `json:"gw,omitempty"`
	DNS1    string `json:"dns1,omitempty"`
	DNS2    string `json:"dns2,omitempty"`
	Service string `json:"service,omitempty"`
	MRU     uint16 `json:"mru,omitempty"`
}

type Tag struct {
	T uint16 `json:"t"`
	V []byte `json:"v"`
}

// Frame is one Ethernet frame pushed into the server. Et: "disc" (0x8863), "sess" (0x8864), "other".
type Frame struct {
	Src     int    `json:"src"` // peer index: MAC 02:00:00:00:00:<src+1>
	Dst     int    `json:"dst"` // 0 broadcast, 1 server MAC, 2 another station
	Et      string `json:"et"`
	Code    int    `json:"code"` // PPPoE header code
	Sid     int    `json:"sid"`  // PPPoE header session id
	Tags    []Tag  `json:"tags,omitempty"`
	Proto   int    `json:"proto,omitempty"`
	Payload []byte `json:"payload,omitempty"`
	L       string `json:"l,omitempty"` // label for the input-distribution report
}

type Case struct {
	Cfg    Cfg     `json:"cfg"`
	Frames []Frame `json:"frames"`
}

var serverMAC = net.HardwareAddr{0x02, 0xac, 0, 0, 0, 0x01}
var otherMAC = net.HardwareAddr{0x02, 0x99, 0, 0, 0, 0x99}
var bcastMAC = net.HardwareAddr{0xff, 0xff, 0xff, 0xff, 0xff, 0xff}

func peerMAC(i int) net.HardwareAddr { return net.HardwareAddr{0x02, 0, 0, 0, 0, byte(i + 1)} }

// macN numbers a MAC: the peers' 02:00:00:00:00:xx become xx (short literals keep the Coq case
// files small), anything else its 48-bit value.
func macN(m []byte) uint64 {
	if len(m) == 6 && m[0] == 2 && m[1] == 0 && m[2] == 0 && m[3] == 0 && m[4] == 0 {
		return uint64(m[5])
	}
	var v uint64
	for _, b := range m {
		v = v<<8 | uint64(b)
	}
	return v
}
func ipN(ip net.IP) uint64 {
	v4 := ip.To4()
	if v4 == nil {
		return 0
	}
	return uint64(binary.BigEndian.Uint32(v4))
}

func (f Frame) bytes() []byte {
	var dst net.HardwareAddr
	switch f.Dst {
	case 0:
		dst = bcastMAC
	case 1:
		dst = serverMAC
	default:
		dst = otherMAC
	}
	var body []byte
	et := uint16(0x0800)
	switch f.Et {
	case "disc":
		et = 0x8863
		for _, t := range f.Tags {
			h := make([]byte, 4)
			binary.BigEndian.PutUint16(h[0:2], t.T)
			binary.BigEndian.PutUint16(h[2:4], uint16(len(t.V)))
			body = append(append(body, h...), t.V...)
		}
	case "sess":
		et = 0x8864
		body = append([]byte{byte(f.Proto >> 8), byte(f.Proto)}, f.Payload...)
	default:
		body = f.Payload
	}
	hdr := []byte{0x11, byte(f.Code), byte(f.Sid >> 8), byte(f.Sid), byte(len(body) >> 8), byte(len(body))}
	fr := append(append(append([]byte{}, dst...), peerMAC(f.Src)...), byte(et>>8), byte(et))
	if f.Et == "disc" || f.Et == "sess" {
		fr = append(fr, hdr...)
	}
	return append(fr, body...)
}

// ---------------------------------------------------------------- scripted RADIUS server

// Outcome by user name: "acc*" accept iff password is "good" (else reject), "rej*" reject,
// "chal*" Access-Challenge (the client reports an error), "drop*" no answer (client times out).
const secret = "verif-secret"

type radSrv struct {
	conn *net.UDPConn
	mu   sync.Mutex
	last int // 0 none since reset; 1+outcome
}

func radOutcome(user, pass string) int {
	switch {
	case strings.HasPrefix(user, "acc"):
		if pass == "good" {
			return 0
		}
		return 1
	case strings.HasPrefix(user, "chal"):
		return 2
	case strings.HasPrefix(user, "drop"):
		return 3
	}
	return 1
}

func startRadius() *radSrv {
	c, err := net.ListenUDP("udp4", &net.UDPAddr{IP: net.IPv4(127, 0, 0, 1)})
	if err != nil {
		panic(err)
	}
	s := &radSrv{conn: c}
	go func() {
		buf := make([]byte, 4096)
		for {
			n, addr, err := c.ReadFromUDP(buf)
			if err != nil {
				return
			}
			p, err := radius.Parse(append([]byte(nil), buf[:n]...), []byte(secret))
			if err != nil {
				continue
			}
			user := rfc2865.UserName_GetString(p)
			pass := rfc2865.UserPassword_GetString(p)
			oc := radOutcome(user, pass)
			s.mu.Lock()
			s.last = 1 + oc
			s.mu.Unlock()
			var code radius.Code
			switch oc {
			case 0:
				code = radius.CodeAccessAccept
			case 1:
				code = radius.CodeAccessReject
			case 2:
				code = radius.CodeAccessChallenge
			default:
				continue
			}
			b, err := p.Response(code).Encode()
			if err == nil {
				c.WriteToUDP(b, addr)
			}
		}
	}()
	return s
}
func (s *radSrv) take() int {
	s.mu.Lock()
	defer s.mu.Unlock()
	v := s.last
	s.last = 0
	return v
}

// papCreds mirrors the PAP request layout only to learn which answer the scripted server will give.
func papCreds(p []byte) (string, string) {
	if len(p) < 6 {
		return "", ""
	}
	ul := int(p[4])
	if len(p) < 6+ul {
		return "", ""
	}
	pl := int(p[5+ul])
	if len(p) < 6+ul+pl {
		return "", ""
	}
	return string(p[5 : 5+ul]), string(p[6+ul : 6+ul+pl])
}

// ---------------------------------------------------------------- running one case on the real server

func tagsCoq(tags []Tag) string {
	var l []string
	for _, t := range tags {
		l = append(l, vh.Pair(vh.N(uint64(t.T)), vh.Bytes(t.V)))
	}
	return vh.List(l)
}

func parseTags(b []byte) ([]Tag, bool) {
	var out []Tag
	for len(b) >= 4 {
		t := binary.BigEndian.Uint16(b[0:2])
		l := int(binary.BigEndian.Uint16(b[2:4]))
		if 4+l > len(b) {
			return nil, false
		}
		v := append([]byte{}, b[4:4+l]...)
		if t == 0x0104 { // AC-Cookie is crypto-random: projected out
			v = []byte{}
		}
		out = append(out, Tag{T: t, V: v})
		b = b[4+l:]
	}
	return out, len(b) == 0
}

// decodeSent turns a captured Ethernet frame into the Coq term of Model.eframe (random magic numbers zeroed).
func decodeSent(f []byte) string {
	bad := func(why string) string { return "EDisc 0 999 0 [] (* undecodable: " + why + " *)" }
	if len(f) < 20 {
		return bad("short")
	}
	if macN(f[6:12]) != macN(serverMAC) || f[14] != 0x11 {
		return bad("src/ver")
	}
	dst := macN(f[0:6])
	et := binary.BigEndian.Uint16(f[12:14])
	code := f[15]
	sid := binary.BigEndian.Uint16(f[16:18])
	ln := int(binary.BigEndian.Uint16(f[18:20]))
	body := f[20:]
	if ln != len(body) {
		return bad("length")
	}
	switch et {
	case 0x8863:
		tags, ok := parseTags(body)
		if !ok {
			return bad("tags")
		}
		return fmt.Sprintf("EDisc %d %d %d %s", dst, code, sid, tagsCoq(tags))
	case 0x8864:
		if code != 0 || len(body) < 2 {
			return bad("session code")
		}
		proto := binary.BigEndian.Uint16(body[0:2])
		p := append([]byte{}, body[2:]...)
		if proto == 0xC021 && len(p) >= 4 {
			switch p[0] {
			case 1: // our Configure-Request: zero the magic number option
				for o := 4; o+2 <= len(p); {
					l := int(p[o+1])
					if l < 2 || o+l > len(p) {
						break
					}
					if p[o] == 5 {
						for k := o + 2; k < o+l; k++ {
							p[k] = 0
						}
					}
					o += l
				}
			case 10: // Echo-Reply carries our magic number
				for k := 4; k < len(p) && k < 8; k++ {
					p[k] = 0
				}
			}
		}
		return fmt.Sprintf("ESess %d %d %d %s", dst, sid, proto, vh.Bytes(p))
	}
	return bad("ethertype")
}

// rawStep is what one frame produced on the real server, as Coq sub-terms.
type rawStep struct {
	op     string
	frames []string
	rad    int
	sess   []string
	tbl    [3]string // macidx, avail, alloc
	fp     string    // state fingerprint without counters (pruning key of the exhaustive stream)
}
type rawCase struct {
	c     Case
	cfg   string
	init  [3]string
	steps []rawStep
	tags  []string
}

type runner struct {
	srv   *pppoe.Server
	sock  *pppoe.VerifC04Socket
	rad   *radSrv
	stop  context.CancelFunc
	inst  map[string]int
	nsent int
}

func newRunner(c Cfg, rad *radSrv) *runner {
	cfg := pppoe.ServerConfig{Interface: "verif0", ACName: "BNG-AC", ServiceName: c.Service, ServerIP: "10.0.0.1",
		ClientPool: c.Pool, PoolGateway: c.Gateway, PrimaryDNS: c.DNS1, SecondaryDNS: c.DNS2, MRU: c.MRU}
	if c.Chap {
		cfg.AuthType = "chap"
	}
	srv, sock, err := pppoe.VerifC04NewServer(cfg, serverMAC, zap.NewNop())
	if err != nil {
		panic(err)
	}
	if c.Radius {
		port := rad.conn.LocalAddr().(*net.UDPAddr).Port
		// one attempt; the timeout only elapses for the scripted "drop" outcome
		rc, err := bngradius.NewClient(bngradius.ClientConfig{
			Servers: []bngradius.ServerConfig{{Host: "127.0.0.1", Port: port, Secret: secret}},
			NASID:   "verif", Timeout: 1500 * time.Millisecond, Retries: 1}, zap.NewNop())
		if err != nil {
			panic(err)
		}
		srv.SetRADIUSClient(rc)
	}
	ctx, cancel := context.WithCancel(context.Background())
	go srv.VerifC04Run(ctx)
	sock.WaitReady()
	return &runner{srv: srv, sock: sock, rad: rad, stop: cancel, inst: map[string]int{}}
}

func (r *runner) close() { r.stop(); r.sock.Shutdown() }

func (r *runner) snapshot(st *rawStep) pppoe.VerifC04Snap {
	sn := r.srv.VerifC04Snapshot()
	recs := r.srv.VerifC04Records()
	var fps []string
	for _, s := range sn.Sessions {
		if _, ok := r.inst[s.SessionID]; !ok {
			r.inst[s.SessionID] = len(r.inst)
		}
		ip := "None"
		if s.ClientIP != nil {
			ip = fmt.Sprintf("(Some %d)", ipN(s.ClientIP))
		}
		rec := recs[s.SessionID]
		hu := "None"
		if rec.HasHostUniq {
			hu = "(Some " + vh.Bytes(rec.HostUniq) + ")"
		}
		st.sess = append(st.sess, fmt.Sprintf("S %d %d %d %s %s %d %d %d %d %s %s %s", s.ID, macN(s.ClientMAC), s.State,
			vh.Bool(s.Authenticated), ip, s.LCPIdentifier, s.PacketsIn, s.PacketsOut, r.inst[s.SessionID],
			hu, vh.Str(rec.ServiceName), vh.Str(rec.Username)))
		fps = append(fps, fmt.Sprintf("%d/%d/%d/%v/%s/%d/%s/%s/%s", s.ID, macN(s.ClientMAC), s.State, s.Authenticated, ip, r.inst[s.SessionID],
			hu, rec.ServiceName, rec.Username))
	}
	type kv struct{ k, v uint64 }
	var mi []kv
	for k, v := range sn.MACIndex {
		hw, _ := net.ParseMAC(k)
		mi = append(mi, kv{macN(hw), uint64(v)})
	}
	sort.Slice(mi, func(i, j int) bool { return mi[i].k < mi[j].k })
	var mis, avs, als []string
	for _, e := range mi {
		mis = append(mis, vh.Pair(vh.N(e.k), vh.N(e.v)))
	}
	for _, ip := range sn.Available {
		avs = append(avs, vh.N(ipN(ip)))
	}
	var al []kv
	for k, v := range sn.Allocated {
		i, ok := r.inst[k]
		if !ok {
			i = 999999
		}
		al = append(al, kv{uint64(i), ipN(v)})
	}
	sort.Slice(al, func(i, j int) bool { return al[i].k < al[j].k })
	for _, e := range al {
		als = append(als, vh.Pair(vh.N(e.k), vh.N(e.v)))
	}
	st.tbl = [3]string{vh.List(mis), vh.List(avs), vh.List(als)}
	st.fp = strings.Join(fps, ",") + "|" + strings.Join(st.tbl[:], "|")
	return sn
}

// push delivers one frame through receiveLoop and returns the observation after it.
func (r *runner) push(f Frame) (rawStep, pppoe.VerifC04Snap) {
	st := rawStep{op: frameCoq(f)}
	r.rad.take()
	r.sock.Push(f.bytes())
	// handlePADR starts startLCPNegotiation in a goroutine: when a PADS was sent, wait for the
	// LCP Configure-Request that goroutine sends, so that every step ends in a quiescent server.
	sent := r.sock.Sent(r.nsent)
	for _, s := range sent {
		if len(s) >= 16 && binary.BigEndian.Uint16(s[12:14]) == 0x8863 && s[15] == 0x65 {
			// the PADR handler itself sends exactly the PADS; the goroutine exactly one frame
			if !r.sock.WaitSent(r.nsent+2, 10*time.Second) {
				fmt.Fprintln(os.Stderr, "c04: LCP Configure-Request after PADS did not appear")
				os.Exit(3)
			}
			sent = r.sock.Sent(r.nsent)
			break
		}
	}
	r.nsent += len(sent)
	for _, s := range sent {
		st.frames = append(st.frames, decodeSent(s))
	}
	st.rad = r.rad.take()
	sn := r.snapshot(&st)
	return st, sn
}

func frameCoq(f Frame) string {
	radv := 0
	if f.Et == "sess" && f.Proto == 0xC023 {
		u, p := papCreds(f.Payload)
		radv = radOutcome(u, p)
	}
	var fr string
	switch f.Et {
	case "disc":
		fr = fmt.Sprintf("(FDisc %d %d %s)", f.Code, f.Sid, tagsCoq(f.Tags))
	case "sess":
		fr = fmt.Sprintf("(FSess %d %d %d %s)", f.Code, f.Sid, f.Proto, vh.Bytes(f.Payload))
	default:
		fr = "FOther"
	}
	return fmt.Sprintf("Build_op %d %d %s %d", macN(peerMAC(f.Src)), f.Dst, fr, radv)
}

func optN(s string) string {
	if ip := net.ParseIP(s); ip != nil {
		return fmt.Sprintf("(Some %d)", ipN(ip))
	}
	return "None"
}

func run(c Case, rad *radSrv) rawCase {
	r := newRunner(c.Cfg, rad)
	defer r.close()
	var s0 rawStep
	sn0 := r.snapshot(&s0)
	var pool []string
	for _, ip := range sn0.Available {
		pool = append(pool, vh.N(ipN(ip)))
	}
	service := c.Cfg.Service
	if service == "" {
		service = "internet"
	}
	mru := c.Cfg.MRU
	if mru == 0 {
		mru = 1492
	}
	rc := rawCase{c: c, init: s0.tbl}
	rc.cfg = fmt.Sprintf("Build_config %d %s %s %s %d %s %s %s %d %s %s", macN(serverMAC), vh.Str(service), vh.Str("BNG-AC"),
		vh.Bool(c.Cfg.Chap), mru, vh.Bool(c.Cfg.Radius), vh.Bool(sn0.HasPool), vh.List(pool), ipN(net.ParseIP("10.0.0.1")),
		optN(c.Cfg.DNS1), optN(c.Cfg.DNS2))
	tags := map[string]bool{}
	for _, f := range c.Frames {
		st, sn := r.push(f)
		rc.steps = append(rc.steps, st)
		if f.L != "" {
			tags["f:"+f.L] = true
		}
		if st.rad > 0 {
			tags[fmt.Sprintf("radius-answer:%d", st.rad-1)] = true
		}
		for _, s := range sn.Sessions {
			tags[fmt.Sprintf("state:%d", s.State)] = true
			if s.Authenticated {
				tags["authenticated"] = true
			}
			if s.ClientIP != nil {
				tags["client-ip"] = true
			}
		}
	}
	for t := range tags {
		rc.tags = append(rc.tags, t)
	}
	sort.Strings(rc.tags)
	rc.tags = append(rc.tags, fmt.Sprintf("len:%d", len(c.Frames)), fmt.Sprintf("radius:%v", c.Cfg.Radius))
	return rc
}

// runMany executes the cases on a pool of workers (each with its own scripted RADIUS server);
// results keep the input order.
func runMany(cs []Case) []rawCase {
	out := make([]rawCase, len(cs))
	var wg sync.WaitGroup
	next := make(chan int)
	for w := 0; w < workers; w++ {
		wg.Add(1)
		go func(rad *radSrv) {
			defer wg.Done()
			for i := range next {
				out[i] = run(cs[i], rad)
			}
		}(rads[w])
	}
	for i := range cs {
		next <- i
	}
	close(next)
	wg.Wait()
	return out
}

const workers = 6

var rads []*radSrv

// interner names repeated sub-terms (ops, sent frames, session records, whole steps) so that a shard
// states each of them once (vh.Def); one interner per stream, used sequentially.
type interner struct {
	names map[string]string
	defs  map[string]vh.Def
}

func newInterner() *interner { return &interner{names: map[string]string{}, defs: map[string]vh.Def{}} }

// name returns the identifier for term, appending its definition (after deps) to *use.
func (t *interner) name(prefix, typ, term string, deps []vh.Def, use *[]vh.Def) string {
	n, ok := t.names[prefix+term]
	if !ok {
		n = fmt.Sprintf("%s%d", prefix, len(t.names))
		t.names[prefix+term] = n
		t.defs[n] = vh.Def{Name: n, Type: typ, Body: term}
	}
	*use = append(append(*use, deps...), t.defs[n])
	return n
}

// build turns a raw case into the Coq case term: every step's observation as a delta against the
// previous one (Model/PPPoESrvCheck.v expand), repeated sub-terms named.
func (t *interner) build(rc rawCase) vh.Case {
	var defs []vh.Def
	cfgName := t.name("k", "config", rc.cfg, nil, &defs)
	prev := [4]string{"[]", rc.init[0], rc.init[1], rc.init[2]}
	var tr []string
	for _, st := range rc.steps {
		var sd []vh.Def
		on := t.name("o", "op", st.op, nil, &sd)
		var fr, ss []string
		for _, f := range st.frames {
			fr = append(fr, t.name("e", "eframe", f, nil, &sd))
		}
		for _, x := range st.sess {
			ss = append(ss, t.name("s", "sess", x, nil, &sd))
		}
		cur := [4]string{vh.List(ss), st.tbl[0], st.tbl[1], st.tbl[2]}
		var d [4]string
		for i := range cur {
			if cur[i] == prev[i] {
				d[i] = "None"
			} else {
				d[i] = "(Some " + cur[i] + ")"
			}
		}
		prev = cur
		term := fmt.Sprintf("(%s, D %s %d %s %s %s %s)", on, vh.List(fr), st.rad, d[0], d[1], d[2], d[3])
		tr = append(tr, t.name("p", "(op * dout)", term, sd, &defs))
	}
	return vh.Case{Coq: "(" + cfgName + ", " + vh.List(tr) + ")", Desc: rc.c, Tags: rc.tags, Defs: defs}
}

// ---------------------------------------------------------------- alphabet

func ctl(code, id int, data []byte) []byte {
	l := 4 + len(data)
	return append([]byte{byte(code), byte(id), byte(l >> 8), byte(l)}, data...)
}
func papReq(id int, user, pass string) []byte {
	d := append([]byte{byte(len(user))}, user...)
	d = append(append(d, byte(len(pass))), pass...)
	return ctl(1, id, d)
}
func opt(t int, d ...byte) []byte { return append([]byte{byte(t), byte(2 + len(d))}, d...) }

func disc(src int, code int, sid int, l string, tags ...Tag) Frame {
	return Frame{Src: src, Dst: 1, Et: "disc", Code: code, Sid: sid, Tags: tags, L: l}
}
func sess(src, sid, proto int, l string, payload []byte) Frame {
	return Frame{Src: src, Dst: 1, Et: "sess", Code: 0, Sid: sid, Proto: proto, Payload: payload, L: l}
}

var cookie = Tag{T: 0x0104, V: []byte{1, 2, 3, 4}}
var huU = Tag{T: 0x0103, V: []byte("U")}

// ---------------------------------------------------------------- discovery stream
//
// The non-owner clause for DISCOVERY frames: a victim (peer 0) whose PADR carried Service-Name
// "internet", Host-Uniq "AA" and an AC-Cookie is brought to each session state; then one discovery
// frame with every combination of code x Host-Uniq (absent / the victim's / another / empty) x
// AC-Cookie (the victim's / absent) x Service-Name (absent / the victim's / empty / another) x
// session-id field (0 / the victim's / another) is sent from the other station (and, as a control, from
// the victim itself), followed by an echo on each session id so that a redirected or reset session shows.
func victimPADR(src int) Frame {
	return disc(src, 0x19, 0, "padr", Tag{T: 0x0101, V: []byte("internet")}, Tag{T: 0x0103, V: []byte("AA")}, cookie)
}

func discoveryPrefixes(thorough bool) map[string][]Frame {
	confack := func(sid int) Frame { return sess(0, sid, 0xC021, "lcp-confack", ctl(2, 1, nil)) }
	papGood := func(sid int) Frame { return sess(0, sid, 0xC023, "pap-good", papReq(4, "acc-user", "good")) }
	ipcpAck := func(sid int) Frame { return sess(0, sid, 0x8021, "ipcp-confack", ctl(2, 1, nil)) }
	m := map[string][]Frame{
		"lcp":          {victimPADR(0)},
		"established":  {victimPADR(0), confack(1), papGood(1), ipcpAck(1)},
		"rejected":     {victimPADR(0), sess(0, 1, 0xC023, "pap-bad", papReq(5, "acc-user", "bad"))},
		"two-sessions": {victimPADR(0), victimPADR(0), confack(2), papGood(2), ipcpAck(2)},
	}
	if thorough {
		m["auth"] = []Frame{victimPADR(0), confack(1)}
		m["ipcp"] = []Frame{victimPADR(0), confack(1), papGood(1)}
		m["both-stations"] = []Frame{victimPADR(0), victimPADR(1), confack(1), papGood(1), ipcpAck(1)}
	}
	return m
}

func discoveryProbes(src int, full bool) []Frame {
	hus := []*Tag{nil, {T: 0x0103, V: []byte("AA")}, {T: 0x0103, V: []byte("BB")}, {T: 0x0103, V: []byte{}}}
	svcs := []*Tag{nil, {T: 0x0101, V: []byte("internet")}, {T: 0x0101, V: []byte{}}, {T: 0x0101, V: []byte("video")}}
	var out []Frame
	mk := func(code, sid int, l string, sv, hu *Tag, ck bool) {
		f := Frame{Src: src, Dst: 1, Et: "disc", Code: code, Sid: sid, L: l}
		if code == 0x09 {
			f.Dst = 0
		}
		if sv != nil {
			f.Tags = append(f.Tags, *sv)
		}
		if hu != nil {
			f.Tags = append(f.Tags, *hu)
		}
		if ck {
			f.Tags = append(f.Tags, cookie)
		}
		out = append(out, f)
	}
	for _, code := range []int{0x09, 0x19} {
		l := map[int]string{0x09: "x-padi", 0x19: "x-padr"}[code]
		for hi, hu := range hus {
			for _, ck := range []bool{true, false} {
				for si, sv := range svcs {
					for _, sid := range []int{0, 1, 2} {
						if !full && !(hi == 1 && si <= 1) { // control from the owner: its own tags only
							continue
						}
						mk(code, sid, l, sv, hu, ck)
					}
				}
			}
		}
	}
	for _, sid := range []int{0, 1, 2} {
		mk(0xA7, sid, "x-padt", nil, nil, false)
		mk(0xA7, sid, "x-padt", nil, hus[1], true)
	}
	for _, code := range []int{0x07, 0x65} {
		for _, sid := range []int{0, 1} {
			mk(code, sid, "x-pado-pads", svcs[1], hus[1], true)
		}
	}
	return out
}

func discoveryCases(thorough bool) []Case {
	cfg := Cfg{Radius: true, Pool: "10.1.0.0/29", Gateway: "10.1.0.1", DNS1: "9.9.9.9"}
	pres := discoveryPrefixes(thorough)
	var names []string
	for n := range pres {
		names = append(names, n)
	}
	sort.Strings(names)
	echo := func(src, sid int) Frame { return sess(src, sid, 0xC021, "lcp-echo", ctl(9, 3, []byte{9, 9, 9, 9})) }
	var cs []Case
	for _, n := range names {
		for src := 1; src >= 0; src-- {
			for _, pr := range discoveryProbes(src, src == 1 || thorough) {
				fr := append(append([]Frame{}, pres[n]...), pr)
				fr = append(fr, echo(0, 1), echo(0, 2), echo(1, 2), echo(1, 3))
				cs = append(cs, Case{Cfg: cfg, Frames: fr})
			}
		}
	}
	return cs
}

// the property's alphabet for one (source peer, session id) pair
func perSession(src, sid int) []Frame {
	return []Frame{
		disc(src, 0xA7, sid, "padt"),
		sess(src, sid, 0xC021, "lcp-confreq", ctl(1, 1, append(opt(1, 5, 0xd4), opt(5, 9, 9, 9, 9)...))),
		sess(src, sid, 0xC021, "lcp-confack", ctl(2, 1, nil)),
		sess(src, sid, 0xC021, "lcp-termreq", ctl(5, 2, nil)),
		sess(src, sid, 0xC021, "lcp-echo", ctl(9, 3, []byte{9, 9, 9, 9})),
		sess(src, sid, 0xC023, "pap-good", papReq(4, "acc-user", "good")),
		sess(src, sid, 0xC023, "pap-bad", papReq(5, "acc-user", "bad")),
		sess(src, sid, 0x8021, "ipcp-confreq-addr", ctl(1, 6, opt(3, 10, 9, 9, 9))),
		sess(src, sid, 0x8021, "ipcp-confreq-zero", ctl(1, 7, opt(3, 0, 0, 0, 0))),
		sess(src, sid, 0x8021, "ipcp-confreq-noaddr", ctl(1, 8, nil)),
		sess(src, sid, 0x8021, "ipcp-confack", ctl(2, 1, nil)),
		sess(src, sid, 0x0021, "ip", []byte{0x45, 0, 0, 20}),
	}
}

// alphabet: PADI, PADR and the per-session symbols for every (peer, id in sids); for the ids in
// unknown (never issued in these runs) only the four symbols that could do harm without a session.
func alphabet(peers int, sids, unknown []int) []Frame {
	var a []Frame
	for p := 0; p < peers; p++ {
		// both peers use the same Host-Uniq and Service-Name, and put the first session's id into the
		// (ignored) session-id field of their PADI/PADR: what one station sends in discovery must never
		// touch the other's session
		a = append(a, Frame{Src: p, Dst: 0, Et: "disc", Code: 0x09, Sid: 1, L: "padi", Tags: []Tag{{T: 0x0101, V: []byte{}}, huU}})
		a = append(a, disc(p, 0x19, 1, "padr", Tag{T: 0x0101, V: []byte("internet")}, huU, cookie))
		for _, s := range sids {
			a = append(a, perSession(p, s)...)
		}
		for _, s := range unknown {
			ps := perSession(p, s)
			a = append(a, ps[0], ps[3], ps[5], ps[10]) // padt, lcp-termreq, pap-good, ipcp-confack
		}
	}
	return a
}

// exhaustive enumeration to the given depth with pruning on the real server's state fingerprint:
// a prefix is extended only if it reached a (table, MAC index, pool) projection not seen before;
// every executed sequence is a case.
func exhaustive(cfg Cfg, depth int, alpha []Frame) ([]rawCase, int) {
	seen := map[string]bool{}
	frontier := [][]Frame{{}}
	var all []rawCase
	for d := 1; d <= depth; d++ {
		var batch []Case
		for _, pre := range frontier {
			for _, sym := range alpha {
				batch = append(batch, Case{Cfg: cfg, Frames: append(append([]Frame{}, pre...), sym)})
			}
		}
		res := runMany(batch)
		var next [][]Frame
		for _, rc := range res {
			fp := rc.steps[len(rc.steps)-1].fp
			if !seen[fp] {
				seen[fp] = true
				next = append(next, rc.c.Frames)
			}
		}
		all = append(all, res...)
		frontier = next
	}
	return all, len(seen)
}

// ---------------------------------------------------------------- re-authentication stream
//
// Every sequence of up to three PAP exchanges on one session with every RADIUS outcome (accept, reject by
// password, reject by user, Access-Challenge = client error; one timeout per sequence position in
// quick, as a full outcome in thorough), each followed by every way the owner can then ask for IP
// service. The property: IPCP is acknowledged / the session Established only while the LATEST exchange
// is an accepted one.
func reauthCases(thorough bool) []Case {
	cfg := Cfg{Radius: true, Pool: "10.1.0.0/29", Gateway: "10.1.0.1", DNS1: "9.9.9.9"}
	type oc struct{ l, user, pass string }
	ocs := []oc{{"pap-good", "acc-user", "good"}, {"pap-bad", "acc-user", "bad"}, {"pap-radius-reject", "rej-user", "good"},
		{"pap-radius-error", "chal-user", "good"}}
	drop := oc{"pap-radius-timeout", "drop-user", "good"}
	if thorough {
		ocs = append(ocs, drop)
	}
	var seqs [][]oc
	var rec func(pre []oc, n int)
	rec = func(pre []oc, n int) {
		if len(pre) > 0 {
			seqs = append(seqs, append([]oc{}, pre...))
		}
		if n == 0 {
			return
		}
		for _, o := range ocs {
			rec(append(pre, o), n-1)
		}
	}
	rec(nil, 3)
	if !thorough {
		seqs = append(seqs, []oc{drop}, []oc{ocs[0], drop}, []oc{drop, ocs[0]}, []oc{ocs[0], drop, ocs[3]})
	}
	confack := sess(0, 1, 0xC021, "lcp-confack", ctl(2, 1, nil))
	ipReq := sess(0, 1, 0x8021, "ipcp-confreq-noaddr", ctl(1, 8, nil))
	ipReqA := sess(0, 1, 0x8021, "ipcp-confreq-addr", ctl(1, 6, opt(3, 10, 9, 9, 9)))
	ipAck := sess(0, 1, 0x8021, "ipcp-confack", ctl(2, 1, nil))
	ip := sess(0, 1, 0x0021, "ip", []byte{0x45, 0, 0, 20})
	tails := [][]Frame{{ipReq, ipAck, ip}, {ipAck, ipReqA}, {confack, ipReq, ipAck}}
	var cs []Case
	for _, sq := range seqs {
		for ti, tl := range tails {
			fr := []Frame{victimPADR(0), victimPADR(1), confack}
			for i, o := range sq {
				fr = append(fr, sess(0, 1, 0xC023, o.l, papReq(10+i, o.user, o.pass)))
				if ti == 2 && i+1 < len(sq) { // the owner asks for IP service between the exchanges too
					fr = append(fr, ipAck)
				}
			}
			cs = append(cs, Case{Cfg: cfg, Frames: append(fr, tl...)})
		}
	}
	return cs
}

// ---------------------------------------------------------------- random histories

func randFrame(r *vh.Rng, peers int, sids []int) Frame {
	src := r.Intn(peers)
	sid := sids[r.Intn(len(sids))]
	var f Frame
	switch x := r.Intn(100); {
	case x < 6:
		f = Frame{Src: src, Dst: r.Intn(2), Et: "disc", Code: 0x09, Sid: []int{0, 0, sid}[r.Intn(3)], L: "padi"}
		switch r.Intn(4) {
		case 0:
			f.Tags = []Tag{{T: 0x0101, V: []byte("internet")}, randHostUniq(r)}
		case 1:
			f.Tags = []Tag{{T: 0x0101, V: []byte("video")}}
			f.L = "padi-wrong-service"
		case 2:
			f.Tags = []Tag{{T: 0x0103, V: []byte{}}}
		}
	case x < 20:
		f = disc(src, 0x19, r.Intn(3), "padr", Tag{T: 0x0101, V: [][]byte{[]byte("internet"), []byte("internet"), {}, []byte("video")}[r.Intn(4)]}, cookie)
		if r.Chance(1, 6) {
			f.Tags = f.Tags[1:] // no Service-Name
		}
		if r.Chance(1, 2) { // Host-Uniq from a small set shared by all peers: collisions are the norm
			hu := randHostUniq(r)
			if r.Bool() {
				f.Tags = append(f.Tags, hu)
			} else {
				f.Tags = append([]Tag{hu}, f.Tags...)
			}
		}
		if r.Chance(1, 8) {
			f.Tags = f.Tags[:1]
			f.L = "padr-no-cookie"
		}
	case x < 26:
		f = disc(src, 0xA7, sid, "padt")
		if r.Chance(1, 3) {
			f.Tags = []Tag{randHostUniq(r), cookie}
		}
	case x < 28:
		f = disc(src, []int{0x07, 0x65, 0x00, 0x42}[r.Intn(4)], sid, "disc-other-code")
	case x < 92:
		ps := perSession(src, sid)
		f = ps[1+r.Intn(len(ps)-1)]
		switch r.Intn(14) {
		case 0:
			f = sess(src, sid, 0xC023, "pap-radius-reject", papReq(r.Intn(256), "rej-user", "good"))
		case 1:
			f = sess(src, sid, 0xC023, "pap-radius-error", papReq(r.Intn(256), "chal-user", "good"))
		case 2:
			f = sess(src, sid, 0xC023, "pap-radius-reject", papReq(r.Intn(256), "acc-user", "wrong"))
		case 3:
			p := papReq(9, "acc-user", "good")
			f = sess(src, sid, 0xC023, "pap-truncated", p[:4+r.Intn(len(p)-4)])
		case 4:
			f = sess(src, sid, 0xC023, "pap-other-code", ctl(2+r.Intn(2), 1, []byte{0}))
		case 5:
			f = sess(src, sid, 0xC021, "lcp-confnak", ctl(3, r.Intn(256), opt(1, 5, 0)))
		case 6:
			f = sess(src, sid, 0xC021, "lcp-bad-options", ctl(1, 1, []byte{1, byte(r.Intn(2)), 7}))
		case 7:
			f = sess(src, sid, 0x8021, "ipcp-confreq-dns", ctl(1, r.Intn(256), append(opt(129, 0, 0, 0, 0), opt(131, 0, 0, 0, 0)...)))
		case 8:
			f = sess(src, sid, []int{0xC223, 0x8057, 0x0057, 0x1234}[r.Intn(4)], "other-proto", ctl(2, 1, r.Bytes(r.Intn(6))))
		case 9:
			f = sess(src, sid, []int{0xC021, 0x8021}[r.Intn(2)], "ctl-other-code", ctl(4+r.Intn(9), 1, r.Bytes(r.Intn(5))))
		case 10:
			p := ctl(1+r.Intn(2), 1, r.Bytes(r.Intn(6)))
			p[3] = byte(r.Intn(12)) // length field below, equal or above the real length
			f = sess(src, sid, []int{0xC021, 0x8021}[r.Intn(2)], "ctl-odd-length", p)
		}
		if r.Chance(1, 10) {
			f.Code = r.Intn(256)
		}
	case x < 95:
		f = Frame{Src: src, Dst: 1, Et: "other", L: "other-ethertype", Payload: r.Bytes(10)}
	default:
		ps := perSession(src, sid)
		f = ps[r.Intn(len(ps))]
		f.Dst = 2
		f.L = "not-for-us"
	}
	if f.Dst == 1 && r.Chance(1, 12) {
		f.Dst = 0
	}
	return f
}

func randHostUniq(r *vh.Rng) Tag {
	switch r.Intn(5) {
	case 0:
		return Tag{T: 0x0103, V: []byte{}}
	case 1, 2:
		return Tag{T: 0x0103, V: []byte("A")}
	case 3:
		return Tag{T: 0x0103, V: []byte("B")}
	}
	return Tag{T: 0x0103, V: r.Bytes(1 + r.Intn(3))}
}

func randCfg(r *vh.Rng) Cfg {
	c := Cfg{Radius: r.Chance(2, 3), Chap: r.Chance(1, 6)}
	switch r.Intn(6) {
	case 0: // no pool
	case 1:
		c.Pool, c.Gateway = "10.1.0.0/30", "10.1.0.1" // 2 addresses
	default:
		c.Pool, c.Gateway = "10.1.0.0/29", "10.1.0.1"
	}
	if r.Chance(1, 2) {
		c.DNS1 = "9.9.9.9"
	}
	if r.Chance(1, 3) {
		c.DNS2 = "1.1.1.1"
	}
	if r.Chance(1, 5) {
		c.MRU = 1400
	}
	return c
}

// biased opening: bring sessions up the intended way some of the time so that deep states are common
func randCase(r *vh.Rng, maxLen int) Case {
	c := Case{Cfg: randCfg(r)}
	peers := 2 + r.Intn(2)
	sids := []int{1, 2, 3, 7}
	n := 1 + r.Intn(maxLen)
	if r.Chance(2, 3) {
		open := func(p int) Frame { return disc(p, 0x19, 0, "padr", cookie) }
		if r.Chance(1, 2) {
			open = func(p int) Frame {
				return disc(p, 0x19, 0, "padr", Tag{T: 0x0101, V: []byte("internet")}, Tag{T: 0x0103, V: []byte("A")}, cookie)
			}
		}
		c.Frames = append(c.Frames, open(0))
		if r.Chance(1, 2) {
			c.Frames = append(c.Frames, open(1))
		}
		if r.Chance(1, 2) {
			c.Frames = append(c.Frames, sess(0, 1, 0xC021, "lcp-confack", ctl(2, 1, nil)))
			if r.Chance(2, 3) {
				c.Frames = append(c.Frames, sess(0, 1, 0xC023, "pap-good", papReq(4, "acc-user", "good")))
			}
		}
	}
	for len(c.Frames) < n {
		c.Frames = append(c.Frames, randFrame(r, peers, sids))
	}
	if c.Cfg.Radius && r.Chance(1, 30) { // a RADIUS timeout costs real time: one per ~30 cases
		i := r.Intn(len(c.Frames))
		c.Frames[i] = sess(r.Intn(peers), sids[r.Intn(2)], 0xC023, "pap-radius-timeout", papReq(r.Intn(256), "drop-user", "good"))
	}
	return c
}

// ---------------------------------------------------------------- main

var header = `From Coq Require Import NArith List. Import ListNotations.
From Verif Require Import Base.Word Model.PPPoESrv Model.PPPoESrvSpec Model.PPPoESrvCheck.
Local Open Scope N_scope.
Definition cases : list case := [
`

func footer(prefix bool) string {
	f := "run_cases"
	if prefix {
		f = "run_cases_prefix"
	}
	return "\n].\nDefinition R := Eval vm_compute in " + f + " cases.\nPrint R.\n"
}

func main() {
	prefix := os.Getenv("VERIF_C04_PREFIX_MODEL") == "1" // evaluate the Model of the tree before the fixes
	cfg := vh.ParseFlags()
	for i := 0; i < workers; i++ {
		rads = append(rads, startRadius())
	}
	foot := footer(prefix)
	if cfg.Replay != "" {
		var c Case
		if err := vh.LoadReplay(cfg.Replay, &c); err != nil {
			panic(err)
		}
		vh.Emit(cfg, "cases", header, foot, []vh.Case{newInterner().build(run(c, rads[0]))}, nil)
		return
	}
	var cc []Case
	var names []string
	for _, f := range vh.CorpusFiles(cfg) {
		var c Case
		if err := vh.LoadReplay(f, &c); err != nil {
			panic(err)
		}
		cc = append(cc, c)
		names = append(names, "corpus:"+strings.TrimSuffix(f[strings.LastIndex(f, "/")+1:], ".json"))
	}
	if len(cc) > 0 {
		it := newInterner()
		var corpus []vh.Case
		for i, rc := range runMany(cc) {
			vc := it.build(rc)
			vc.Tags = append(vc.Tags, names[i])
			corpus = append(corpus, vc)
		}
		vh.Emit(cfg, "corpus", header, foot, corpus, nil)
	}

	// discovery stream (exhaustive over the tag / code / session-id-field combinations of one discovery frame)
	{
		dit := newInterner()
		var dc []vh.Case
		for _, rc := range runMany(discoveryCases(cfg.Thorough())) {
			dc = append(dc, dit.build(rc))
		}
		dcfg := cfg
		dcfg.Shard = 300
		vh.Emit(dcfg, "discovery", header, foot, dc, map[string]interface{}{"exhaustive": true,
			"space": "victim state x sender (other station / owner) x code {PADI,PADR,PADT,PADO,PADS} x Host-Uniq {absent, victim's, other, empty} x AC-Cookie {present, absent} x Service-Name {absent, victim's, empty, other} x session-id field {0, victim's, other}"})
	}

	// re-authentication stream
	{
		rit := newInterner()
		var rc2 []vh.Case
		for _, rc := range runMany(reauthCases(cfg.Thorough())) {
			rc2 = append(rc2, rit.build(rc))
		}
		rcfg := cfg
		rcfg.Shard = 300
		vh.Emit(rcfg, "reauth", header, foot, rc2, map[string]interface{}{"exhaustive": true,
			"space": "sequences of 1..3 PAP exchanges on one session over the RADIUS outcomes {accept, reject (password), reject (user), error (Access-Challenge)} (+ timeout: selected sequences in quick, full outcome in thorough) x three continuations by the owner (IPCP request/ack/IP; IPCP ack then request; LCP ack, IPCP request/ack), a second station's session alongside"})
	}

	// exhaustive stream
	type exRun struct {
		name  string
		cfg   Cfg
		depth int
		alpha []Frame
	}
	pool := Cfg{Radius: true, Pool: "10.1.0.0/29", Gateway: "10.1.0.1", DNS1: "9.9.9.9"}
	runs := []exRun{{"radius+pool", pool, 4, alphabet(2, []int{1, 2}, []int{7})}}
	if cfg.Thorough() {
		runs = []exRun{
			{"radius+pool", pool, 5, alphabet(2, []int{1, 2, 7}, nil)},
			{"no-radius", Cfg{Radius: false, Pool: "10.1.0.0/29", Gateway: "10.1.0.1"}, 4, alphabet(2, []int{1, 2, 7}, nil)},
			{"no-pool", Cfg{Radius: true}, 4, alphabet(2, []int{1, 2}, nil)},
		}
	}
	exMeta := map[string]interface{}{"exhaustive": true,
		"pruning": "a prefix is extended only when it reached a new (session table without counters, MAC index, pool) projection of the real server"}
	it := newInterner()
	var ex []vh.Case
	for _, er := range runs {
		res, states := exhaustive(er.cfg, er.depth, er.alpha)
		for _, rc := range res {
			ex = append(ex, it.build(rc))
		}
		exMeta["run:"+er.name] = map[string]int{"depth": er.depth, "alphabet": len(er.alpha), "sequences": len(res), "distinct_states": states}
	}
	ecfg := cfg
	ecfg.Shard = 600 // short cases sharing most sub-terms: bigger shards amortise coqc start-up
	vh.Emit(ecfg, "exhaustive", header, foot, ex, exMeta)

	// random stream
	r := vh.NewRng(cfg.Seed)
	n, maxLen := 300, 40
	if cfg.Thorough() {
		n = 2500
	}
	var rcs []Case
	for i := 0; i < n; i++ {
		rcs = append(rcs, randCase(r.Fork(), maxLen))
	}
	it = newInterner()
	var cases []vh.Case
	for _, rc := range runMany(rcs) {
		cases = append(cases, it.build(rc))
	}
	rcfg := cfg
	rcfg.Shard = 60 // long cases: smaller shards spread over the evaluation workers
	vh.Emit(rcfg, "random", header, foot, cases, nil)
}
