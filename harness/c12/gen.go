package main

import (
	"encoding/hex"
	"fmt"
	"math/big"
	"unicode/utf8"

	"verifharness/vh"
)

type stream struct {
	name  string
	kind  string
	cases []Case
	extra map[string]interface{}
}

func perms(n int) [][]int {
	if n == 0 {
		return [][]int{{}}
	}
	var out [][]int
	for _, p := range perms(n - 1) {
		for i := 0; i <= len(p); i++ {
			q := append([]int{}, p[:i]...)
			q = append(q, n-1)
			q = append(q, p[i:]...)
			out = append(out, q)
		}
	}
	return out
}

func randPerm(r *vh.Rng, n int) []int {
	p := make([]int, n)
	for i := range p {
		p[i] = i
	}
	for i := n - 1; i > 0; i-- {
		j := r.Intn(i + 1)
		p[i], p[j] = p[j], p[i]
	}
	return p
}

type geoT struct {
	bits      int
	base      string
	ppl, pl   int
	unitAddrs []string // addresses of the first units
}

func mkGeo(bits int, base string, ppl, pl int) geoT {
	g := geoT{bits: bits, base: base, ppl: ppl, pl: pl}
	b := bigOf(base)
	step := new(big.Int).Lsh(big.NewInt(1), uint(bits-pl))
	n := 1 << uint(pl-ppl)
	if n > 40 {
		n = 40
	}
	for i := 0; i < n; i++ {
		g.unitAddrs = append(g.unitAddrs, new(big.Int).Add(b, new(big.Int).Mul(big.NewInt(int64(i)), step)).String())
	}
	return g
}

// 10.0.0.0 = 167772160 ; 10.1.0.0 = 167837696 ; 2001:db8:: = 42540766411282592856903984951653826560
var sessionGeos = []geoT{
	mkGeo(32, "167772160", 30, 32),                               // 4 x /32
	mkGeo(32, "167772160", 29, 32),                               // 8 x /32
	mkGeo(32, "167837696", 24, 28),                               // 16 x /28
	mkGeo(128, "42540766411282592856903984951653826560", 62, 64), // 4 x /64
	mkGeo(32, "3232235776", 28, 30),                              // 192.168.1.0/28 -> 4 x /30
	mkGeo(128, "42540766411282592856903984951653826560", 52, 56), // /56 delegation out of a /52
	mkGeo(32, "167772160", 23, 27),                               // not byte aligned
}

// round-trip geometries: both families, address pools and prefix delegation, non-byte-aligned lengths
var rtGeos = append(append([]geoT{}, sessionGeos...),
	mkGeo(128, "42540766411282592856903984951653826560", 120, 128), // 2001:db8::/120 -> 256 x /128 addresses
	mkGeo(128, "42540766411282592856903984951653826560", 40, 48),   // /48 delegation out of a /40
	mkGeo(128, "42540766411282592856903984951653826560", 52, 56),   // /56 delegation out of a /52
	mkGeo(128, "42540766411282592856903984951653826560", 57, 60),   // /60 out of a /57 (not byte aligned)
	mkGeo(128, "42540766411282592856903984951653826560", 61, 64),   // /64 subscriber prefixes out of a /61
	mkGeo(128, "42540766411282592856903984951653826560", 123, 127), // /127 out of a /123
	mkGeo(32, "167772160", 23, 27),                                 // 10.0.0.0/23 -> /27 (not byte aligned)
	mkGeo(32, "2886729728", 19, 25),                                // 172.16.0.0/19 -> /25
)
var leaseGeos = []geoT{
	mkGeo(32, "167772160", 29, 32), // 8 slots, 6 usable
	mkGeo(32, "167772160", 28, 32), // 16 slots
	mkGeo(32, "3232235776", 29, 32),
}

func distCase(g geoT, lease bool, univ int, origin string) Case {
	return Case{Kind: "dist", Lease: lease, Bits: g.bits, Base: g.base, PPL: g.ppl, PL: g.pl, Univ: univ, Origin: origin}
}

// subscriber ids as circuit ids / paths: '/', leading and trailing '/', "..", empty segments, ids that are
// suffixes or prefixes of one another, the store-key prefix itself.  Families are built so that a
// table contains an id together with its last path segment(s).
var idFamilies = [][]string{
	{"olt1/pon3/onu7", "onu7", "pon3/onu7", "olt1/pon3", "olt1", "onu"},
	{"a/b", "b", "a", "a/b/", "/a/b", "a//b"},
	{"..", "a/..", "../b", "b", "a/../b", "."},
	{"/", "//", "/x", "x/", "x", "x//"},
	{"/allocation/p/", "/allocation/p/s0", "s0", "allocation/p/s0", "p/s0", "/allocation/"},
	{"s0", "s1", "s2", "s3", "s4", "s5"},
	// not valid UTF-8 (binary circuit ids): encoding/json rewrites each offending byte of a string to U+FFFD,
	// so the copies of these ids inside JSON values collide with each other and with the literal U+FFFD id
	{"\xff", "\xfe", "\xef\xbf\xbd", "a\xc3", "a\xef\xbf\xbd", "\xc3\x28"},
	{"\x00", "\x00\x01", "\xed\xa0\x80", "\xf4\x90\x80\x80", "\xc0\xaf", "\xe2\x82"},
	// valid UTF-8 outside ASCII, JSON-escaped characters, quotes, line separators
	{"é", "e\u0301", "日本/語", "<a&b>", "q\"uote\\", "l\u2028s"},
}

// ids of a case: stored hex-encoded when they are not all valid UTF-8 (the JSON description must carry them byte-exact)
func setNames(c *Case, ids []string) {
	allValid := true
	for _, s := range ids {
		if !utf8.ValidString(s) {
			allValid = false
		}
	}
	if allValid {
		c.Names = ids
		return
	}
	c.Names = nil
	for _, s := range ids {
		c.NamesX = append(c.NamesX, hex.EncodeToString([]byte(s)))
	}
}

var poolIDs = []string{"p", "p", "pool/1", "p/"}

func withIDs(r *vh.Rng, c Case) Case {
	if r.Chance(1, 4) {
		return c // default ids s0, s1, ...
	}
	fam := idFamilies[r.Intn(len(idFamilies))]
	perm := randPerm(r, len(fam))
	var ids []string
	for h := 0; h < c.Univ && h < len(fam); h++ {
		ids = append(ids, fam[perm[h]])
	}
	setNames(&c, ids)
	c.Pool = poolIDs[r.Intn(len(poolIDs))]
	return c
}

// every sequence of length n over alphabet
func seqs(alpha []Op, n int) [][]Op {
	if n == 0 {
		return [][]Op{{}}
	}
	var out [][]Op
	for _, s := range seqs(alpha, n-1) {
		for _, a := range alpha {
			out = append(out, append(append([]Op{}, s...), a))
		}
	}
	return out
}

// exhaustive: all allocate/release sequences of the given length over [univ] subscribers; after every
// op a stop + restart under EVERY enumeration order (session mode: a restart does not change what the
// next restart sees, so the block of all permutations after each op checks every stop point x order);
// variant per position: the store write of that op fails.
func genExhaustive(lease bool, g geoT, univ, depth int, origin string, allFail bool) []Case {
	var alpha []Op
	for h := 0; h < univ; h++ {
		alpha = append(alpha, Op{K: "alloc", H: h}, Op{K: "rel", H: h})
	}
	ps := perms(univ)
	var out []Case
	for si, s := range seqs(alpha, depth) {
		for failAt := -1; failAt < depth; failAt++ {
			if !allFail && failAt >= 0 && failAt != si%depth { // quick tier: one (rotating) failure position per sequence
				continue
			}
			c := distCase(g, lease, univ, origin)
			c.Sync = failAt%2 == 0
			for i, o := range s {
				if i == failAt {
					o.Fail = true
					o.Down = (si+failAt)%2 == 1                      // the store stays unreachable for the whole call
					o.CtxDone = []int{0, 1, 0, 2}[(si/2+failAt+1)%4] // half of the faulted ops: the request context is done
				}
				c.Ops = append(c.Ops, o)
				if failAt == -1 || i == failAt || i == depth-1 {
					if lease {
						c.Ops = append(c.Ops, Op{K: "restart", Ord: ps[(i+len(out))%len(ps)]})
					} else {
						for _, p := range ps {
							c.Ops = append(c.Ops, Op{K: "restart", Ord: p})
						}
					}
				}
			}
			if fam := idFamilies[(si+len(out))%len(idFamilies)]; si%2 == 0 {
				setNames(&c, fam[:univ])
			}
			out = append(out, c)
		}
	}
	return out
}

func genRandomDist(r *vh.Rng, lease bool, n, maxOps int, guarded bool, origin string) []Case {
	var out []Case
	for i := 0; i < n; i++ {
		rr := r.Fork()
		var g geoT
		if lease {
			g = leaseGeos[rr.Intn(len(leaseGeos))]
		} else {
			g = sessionGeos[rr.Intn(len(sessionGeos))]
		}
		univ := 2 + rr.Intn(4)
		c := distCase(g, lease, univ, origin)
		c.Sync = rr.Bool()
		if lease {
			c.Grace = uint64(rr.Intn(3)) // 0 => default 1
		}
		nops := 3 + rr.Intn(maxOps)
		for k := 0; k < nops; k++ {
			h := rr.Intn(univ)
			x := rr.Intn(100)
			switch {
			case x < 26:
				c.Ops = append(c.Ops, Op{K: "alloc", H: h, Mac: rr.Chance(1, 4), Fail: rr.Chance(1, 5), Down: rr.Bool(), CtxDone: []int{0, 1, 0, 2}[rr.Intn(4)]})
			case x < 40:
				c.Ops = append(c.Ops, Op{K: "rel", H: h, Fail: rr.Chance(1, 4), Down: rr.Bool(), CtxDone: []int{0, 1, 0, 2}[rr.Intn(4)]})
			case x < 46:
				c.Ops = append(c.Ops, Op{K: "renew", H: h, Fail: rr.Chance(1, 4), FailG: rr.Chance(1, 6), Down: rr.Bool(), CtxDone: []int{0, 1, 0, 2}[rr.Intn(4)]})
			case x < 52:
				c.Ops = append(c.Ops, Op{K: "get", H: h})
			case x < 57:
				a := g.unitAddrs[rr.Intn(len(g.unitAddrs))]
				pl := g.pl
				if lease {
					pl = 32
				}
				if rr.Chance(1, 8) {
					pl--
				}
				c.Ops = append(c.Ops, Op{K: "getby", A: a, PL: pl})
			case x < 61:
				c.Ops = append(c.Ops, Op{K: "stats"})
			case x < 75:
				if lease && guarded {
					continue // lease-mode restarts are in the defect / ordered streams
				}
				c.Ops = append(c.Ops, Op{K: "restart", Ord: randPerm(rr, univ)})
			case x < 81:
				if lease {
					c.Ops = append(c.Ops, Op{K: "adv"})
				}
			case x < 88:
				if lease && guarded {
					continue
				}
				c.Ops = append(c.Ops, Op{K: "rputf", H: h, Idx: rr.Intn(8), Ep: uint64(rr.Intn(4))})
			case x < 90:
				if rr.Chance(1, 3) && !(lease && guarded) { // the value names another subscriber than the key
					c.Ops = append(c.Ops, Op{K: "rputx", H: h, VH: rr.Intn(univ), Idx: rr.Intn(8), Ep: uint64(2 + rr.Intn(3))})
				} else {
					c.Ops = append(c.Ops, Op{K: "rputown", H: h, Ep: uint64(2 + rr.Intn(3))})
				}
			case x < 92 || guarded:
				c.Ops = append(c.Ops, Op{K: "rdel", H: h})
			default:
				if !guarded {
					if rr.Chance(2, 3) {
						c.Ops = append(c.Ops, Op{K: "echo", Idx: rr.Intn(6), Dup: rr.Chance(1, 3)})
					} else {
						a := g.unitAddrs[rr.Intn(len(g.unitAddrs))]
						pl := g.pl
						if lease {
							pl = 32
						}
						if rr.Chance(1, 6) { // outside the pool
							a = new(big.Int).Add(bigOf(g.base), new(big.Int).Lsh(big.NewInt(1), uint(g.bits-g.ppl))).String()
						}
						c.Ops = append(c.Ops, Op{K: "rput", H: h, A: a, PL: pl, Ep: uint64(rr.Intn(5))})
					}
				}
			}
		}
		if guarded {
			c.Sync = true
		} else if rr.Chance(2, 3) {
			c.Sync = false
		}
		out = append(out, withIDs(rr, c))
	}
	return out
}

// lease mode inside the guard of restart_preserves_lease_partial: allocate in order, no release, no
// epoch advance, restart with the records enumerated in allocation order
func genLeaseOrdered(r *vh.Rng, n int) []Case {
	var out []Case
	for i := 0; i < n; i++ {
		rr := r.Fork()
		g := leaseGeos[rr.Intn(len(leaseGeos))]
		univ := 1 + rr.Intn(5)
		c := distCase(g, true, univ, "lease-ordered")
		c.Sync = rr.Bool()
		order := randPerm(rr, univ)
		k := 1 + rr.Intn(univ)
		for i, h := range order[:k] {
			c.Ops = append(c.Ops, Op{K: "alloc", H: h, Fail: false})
			if rr.Chance(1, 3) {
				c.Ops = append(c.Ops, Op{K: "renew", H: h})
			}
			if rr.Chance(1, 3) { // re-Allocate of a subscriber that already holds a lease, Put may fail
				c.Ops = append(c.Ops, Op{K: "alloc", H: order[rr.Intn(i+1)], Fail: rr.Bool(), Down: rr.Bool(), CtxDone: []int{0, 1, 0, 2}[rr.Intn(4)]})
			}
		}
		c.Ops = append(c.Ops, Op{K: "restart", Ord: order})
		for h := 0; h < univ; h++ {
			c.Ops = append(c.Ops, Op{K: "get", H: h})
		}
		c.Ops = append(c.Ops, Op{K: "restart", Ord: order}, Op{K: "stats"})
		out = append(out, c)
	}
	return out
}

func genBitmapRT(r *vh.Rng, n, maxOps int) []Case {
	var out []Case
	for i := 0; i < n; i++ {
		rr := r.Fork()
		g := rtGeos[rr.Intn(len(rtGeos))]
		univ := 2 + rr.Intn(4)
		c := Case{Kind: "bitmap", Bits: g.bits, Base: g.base, PPL: g.ppl, PL: g.pl, Univ: univ, Origin: "random"}
		nops := 1 + rr.Intn(maxOps)
		for k := 0; k < nops; k++ {
			h := rr.Intn(univ)
			a := g.unitAddrs[rr.Intn(len(g.unitAddrs))]
			switch x := rr.Intn(20); {
			case x < 7:
				c.Ops = append(c.Ops, Op{K: "alloc", H: h})
			case x < 10:
				c.Ops = append(c.Ops, Op{K: "rel", H: h})
			case x < 13:
				c.Ops = append(c.Ops, Op{K: "set", H: h, A: a, PL: g.pl})
			case x < 15:
				c.Ops = append(c.Ops, Op{K: "aspec", H: h, A: a, PL: g.pl})
			case x < 16:
				c.Ops = append(c.Ops, Op{K: "relu", A: a, PL: g.pl})
			default:
				c.Ops = append(c.Ops, Op{K: "q"}, Op{K: "rt"})
				if rr.Bool() {
					c.Ops = append(c.Ops, Op{K: "alloc", H: rr.Intn(univ)})
				}
			}
		}
		c.Ops = append(c.Ops, Op{K: "q"}, Op{K: "rt"}, Op{K: "q"}, Op{K: "rt"})
		out = append(out, c)
	}
	return out
}

func genBitmapExh(depth int) []Case {
	g := sessionGeos[0]
	var alpha []Op
	for h := 0; h < 2; h++ {
		alpha = append(alpha, Op{K: "alloc", H: h}, Op{K: "rel", H: h}, Op{K: "set", H: h, A: g.unitAddrs[1], PL: 32}, Op{K: "set", H: h, A: g.unitAddrs[3], PL: 32})
	}
	alpha = append(alpha, Op{K: "relu", A: g.unitAddrs[1], PL: 32})
	var out []Case
	for _, s := range seqs(alpha, depth) {
		c := Case{Kind: "bitmap", Bits: g.bits, Base: g.base, PPL: g.ppl, PL: g.pl, Univ: 2, Origin: "exhaustive"}
		c.Ops = append(append([]Op{}, s...), Op{K: "q"}, Op{K: "rt"})
		out = append(out, c)
	}
	return out
}

func genEpochRT(r *vh.Rng, n, maxOps int) []Case {
	var out []Case
	for i := 0; i < n; i++ {
		rr := r.Fork()
		type eg struct {
			base    string
			ppl, pl int
		}
		egs := []eg{{"167772160", 29, 32}, {"167772160", 28, 32}, {"167772160", 24, 32}, {"167837696", 24, 28}, {"167837696", 16, 20}, {"3232235776", 28, 30}, {"167772160", 30, 32}, {"167772160", 23, 27}, {"2886729728", 19, 25}, {"167772160", 27, 31}}
		g := egs[rr.Intn(len(egs))]
		univ := 2 + rr.Intn(4)
		c := Case{Kind: "epoch", Base: g.base, PPL: g.ppl, PL: g.pl, Grace: uint64(rr.Intn(4)), Univ: univ, Origin: "random"}
		nops := 1 + rr.Intn(maxOps)
		for k := 0; k < nops; k++ {
			h := rr.Intn(univ)
			switch x := rr.Intn(20); {
			case x < 7:
				c.Ops = append(c.Ops, Op{K: "alloc", H: h})
			case x < 10:
				c.Ops = append(c.Ops, Op{K: "rel", H: h})
			case x < 12:
				c.Ops = append(c.Ops, Op{K: "renew", H: h})
			case x < 16:
				c.Ops = append(c.Ops, Op{K: "adv"})
			default:
				c.Ops = append(c.Ops, Op{K: "q"}, Op{K: "rt"})
			}
		}
		c.Ops = append(c.Ops, Op{K: "q"}, Op{K: "rt"}, Op{K: "alloc", H: 0}, Op{K: "q"}, Op{K: "rt"})
		out = append(out, c)
	}
	return out
}

func genStoreRT(r *vh.Rng, n, maxOps int, canonical bool) []Case {
	var out []Case
	for i := 0; i < n; i++ {
		rr := r.Fork()
		univ := 2 + rr.Intn(3)
		origin := "random"
		if canonical {
			origin = "canonical"
		}
		c := Case{Kind: "store", Univ: univ, Origin: origin}
		nops := 1 + rr.Intn(maxOps)
		for k := 0; k < nops; k++ {
			h := rr.Intn(univ)
			pool := rr.Intn(3)
			switch x := rr.Intn(20); {
			case x < 11:
				o := Op{K: "save", H: h, Pool: pool, Typ: rr.Intn(4), Mac: rr.Bool(), IAID: rr.Intn(3)}
				if rr.Chance(1, 4) { // IPv6 prefix
					o.Bits, o.PL = 128, []int{56, 64, 60, 52, 128, 127}[rr.Intn(6)]
					v := new(big.Int).Add(bigOf("42540766411282592856903984951653826560"), new(big.Int).Lsh(big.NewInt(int64(rr.Intn(4))), uint(128-o.PL)))
					if !canonical && rr.Chance(1, 3) {
						v.Add(v, big.NewInt(int64(1+rr.Intn(9))))
					}
					o.A = v.String()
				} else {
					o.Bits = 32
					o.PL = []int{32, 32, 30, 24}[rr.Intn(4)]
					v := new(big.Int).Add(big.NewInt(167772160), new(big.Int).Lsh(big.NewInt(int64(rr.Intn(5))), uint(32-o.PL)))
					if !canonical && o.PL < 32 && rr.Chance(1, 2) {
						v.Add(v, big.NewInt(int64(1+rr.Intn(3))))
					}
					o.A = v.String()
				}
				c.Ops = append(c.Ops, o)
			case x < 14:
				c.Ops = append(c.Ops, Op{K: "remove", H: h, Pool: pool})
			case x < 16:
				c.Ops = append(c.Ops, Op{K: "total", Pool: pool, Tot: 1 + rr.Intn(300)})
			default:
				c.Ops = append(c.Ops, Op{K: "q"}, Op{K: "rt"})
			}
		}
		c.Ops = append(c.Ops, Op{K: "q"}, Op{K: "rt"}, Op{K: "q"}, Op{K: "rt"})
		out = append(out, c)
	}
	return out
}

// every id family x pool id x mode: allocate everybody, then remote deletes / puts / echoes addressed by key,
// with Get of everybody observed after each event, and a restart at the end
func genIDs(r *vh.Rng) []Case {
	var out []Case
	for _, fam := range idFamilies {
		for _, pool := range []string{"p", "pool/1", "p/"} {
			for _, lease := range []bool{false, true} {
				g := sessionGeos[1]
				if lease {
					g = leaseGeos[1]
				}
				univ := 4 + r.Intn(3)
				c := distCase(g, lease, univ, "ids")
				c.Pool, c.Sync = pool, r.Bool()
				setNames(&c, fam[:univ])
				for h := 0; h < univ; h++ {
					c.Ops = append(c.Ops, Op{K: "alloc", H: h})
				}
				if lease {
					for h := 0; h < univ; h += 2 {
						c.Ops = append(c.Ops, Op{K: "renew", H: h})
					}
				} else {
					c.Ops = append(c.Ops, Op{K: "restart", Ord: randPerm(r, univ)}, Op{K: "alloc", H: univ - 1},
						Op{K: "alloc", H: 0, Fail: true, Down: true}, Op{K: "restart", Ord: randPerm(r, univ)})
				}
				for _, h := range randPerm(r, univ) {
					c.Ops = append(c.Ops, Op{K: "rdel", H: h})
					if r.Bool() {
						c.Ops = append(c.Ops, Op{K: "rputf", H: h, Idx: r.Intn(4), Ep: 2})
					} else if !lease && r.Bool() {
						c.Ops = append(c.Ops, Op{K: "rputx", H: h, VH: r.Intn(univ), Idx: r.Intn(4), Ep: 2})
					}
					if r.Chance(1, 3) {
						c.Ops = append(c.Ops, Op{K: "alloc", H: h})
					}
				}
				if !lease {
					c.Ops = append(c.Ops, Op{K: "restart", Ord: randPerm(r, univ)})
				}
				c.Ops = append(c.Ops, Op{K: "stats"})
				out = append(out, c)
			}
		}
	}
	return out
}

// id tables for the round-trip streams: closed under the coercion encoding/json applies (every id comes with
// the id it is rewritten to), so the restored allocator's answers name holders of the table
var rtIDFamilies = [][]string{
	{"\xff", "\xfe", "\xef\xbf\xbd", "ok", "a\xc3", "a\xef\xbf\xbd"},
	{"\xed\xa0\x80", "\xef\xbf\xbd\xef\xbf\xbd\xef\xbf\xbd", "\xc0\xaf", "\xef\xbf\xbd\xef\xbf\xbd", "é", "\x00"},
	{"é", "e\u0301", "日本/語", "<a&b>", "q\"uote\\", "l\u2028s"}, // all valid: inside the guard ids_valid
}

// the round-trip generators again, with hostile ids (store: one pool per holder class so that no two records of one
// pool collide after the coercion - the survivor would depend on Go's map iteration order)
func genRTIDs(r *vh.Rng, n, maxOps int) (bm, ep, st []Case) {
	for i := 0; i < n; i++ {
		fam := rtIDFamilies[i%len(rtIDFamilies)]
		for _, c := range genBitmapRT(r.Fork(), 1, maxOps) {
			c.Univ, c.Origin = len(fam), "ids"
			for k := range c.Ops {
				c.Ops[k].H = (c.Ops[k].H*5 + k) % len(fam)
			}
			setNames(&c, fam)
			bm = append(bm, c)
		}
		for _, c := range genEpochRT(r.Fork(), 1, maxOps) {
			c.Univ, c.Origin = len(fam), "ids"
			for k := range c.Ops {
				c.Ops[k].H = (c.Ops[k].H*5 + k) % len(fam)
			}
			setNames(&c, fam)
			ep = append(ep, c)
		}
		for _, c := range genStoreRT(r.Fork(), 1, maxOps, true) {
			c.Univ, c.Origin = len(fam), "ids"
			var ops []Op // one round trip, at the end: a second one could meet two records of one pool whose ids collide
			for k, o := range c.Ops {
				if o.K == "q" || o.K == "rt" {
					continue
				}
				o.H = (o.H*5 + k) % len(fam)
				o.Pool = o.H % 3
				ops = append(ops, o)
			}
			c.Ops = append(ops, Op{K: "q"}, Op{K: "rt"}, Op{K: "q"})
			setNames(&c, fam)
			st = append(st, c)
		}
	}
	return
}

// byte strings for the json_coerce sweep: every string of length <= 2 over the boundary bytes of the UTF-8 table,
// random longer ones over the same alphabet, and valid sequences with one byte damaged
func genJSONCoerce(r *vh.Rng, nrand int) []Case {
	alpha := []byte{0x00, 0x22, 0x41, 0x5c, 0x7f, 0x80, 0x8f, 0x90, 0x9f, 0xa0, 0xbf, 0xc0, 0xc1, 0xc2, 0xdf, 0xe0, 0xe1, 0xec, 0xed, 0xee, 0xef, 0xf0, 0xf1, 0xf3, 0xf4, 0xf5, 0xff}
	var all [][]byte
	all = append(all, []byte{})
	for _, a := range alpha {
		all = append(all, []byte{a})
		for _, b := range alpha {
			all = append(all, []byte{a, b})
		}
	}
	valid := []string{"é", "\u0800", "\ud7ff", "\ue000", "\ufffd", "\U00010000", "\U0010ffff", "日本語", "a\u2028b", "<&>"}
	for i := 0; i < nrand; i++ {
		n := 3 + r.Intn(5)
		b := make([]byte, n)
		for k := range b {
			b[k] = alpha[r.Intn(len(alpha))]
		}
		all = append(all, b)
		v := []byte(valid[r.Intn(len(valid))] + valid[r.Intn(len(valid))])
		switch r.Intn(3) {
		case 0:
			v[r.Intn(len(v))] = alpha[r.Intn(len(alpha))]
		case 1:
			v = v[:r.Intn(len(v)+1)]
		}
		all = append(all, v)
	}
	var out []Case
	for i := 0; i < len(all); i += 100 {
		c := Case{Kind: "jsoncoerce", Origin: "sweep"}
		for _, b := range all[i:min(i+100, len(all))] {
			c.NamesX = append(c.NamesX, hex.EncodeToString(b))
		}
		out = append(out, c)
	}
	return out
}

func generate(r *vh.Rng, thorough bool) []stream {
	exDepth, nr, maxOps := 3, 90, 14
	if thorough {
		exDepth, nr, maxOps = 4, 900, 28
	}
	ex := map[string]interface{}{"exhaustive": true,
		"space": fmt.Sprintf("all allocate/release sequences of length %d over 3 subscribers x (no failure | store failure at one rotating position); thorough adds length 3 with a failure at every position x restart after every op under all 6 enumeration orders (session) / one rotating order (lease)", exDepth)}
	var out []stream
	exh := genExhaustive(false, sessionGeos[0], 3, exDepth, "exhaustive", false)
	if thorough { // depth 4 with one rotating failure position + depth 3 with a failure at every position
		exh = append(exh, genExhaustive(false, sessionGeos[0], 3, 3, "exhaustive", true)...)
	}
	out = append(out, stream{"dist_session_exh", "dist", exh, ex})
	out = append(out, stream{"dist_ids", "dist", genIDs(r.Fork()), nil})
	out = append(out, stream{"dist_session_guarded", "dist", genRandomDist(r.Fork(), false, nr, maxOps, true, "guarded"), nil})
	out = append(out, stream{"dist_lease_guarded", "dist", append(genRandomDist(r.Fork(), true, nr/2, maxOps, true, "guarded"), genLeaseOrdered(r.Fork(), nr/2)...), nil})
	out = append(out, stream{"dist_session_defect", "dist", genRandomDist(r.Fork(), false, nr/2, maxOps, false, "defect"), nil})
	out = append(out, stream{"dist_lease_defect", "dist", append(genExhaustive(true, leaseGeos[0], 3, exDepth-1, "exhaustive-lease", thorough), genRandomDist(r.Fork(), true, nr/2, maxOps, false, "defect")...), nil})
	bex := 2
	if thorough {
		bex = 3
	}
	out = append(out, stream{"bitmap", "bitmap", append(genBitmapExh(bex), genBitmapRT(r.Fork(), nr, maxOps)...), map[string]interface{}{"exhaustive_part": fmt.Sprintf("all sequences of length %d over 9 mutating ops on a 4-unit pool, each followed by query battery + round trip", bex)}})
	out = append(out, stream{"epoch", "epoch", genEpochRT(r.Fork(), nr, maxOps), nil})
	out = append(out, stream{"store", "store", append(genStoreRT(r.Fork(), nr/3, maxOps*2/3, true), genStoreRT(r.Fork(), nr/3, maxOps*2/3, false)...), nil})
	bmI, epI, stI := genRTIDs(r.Fork(), nr/3, maxOps)
	out = append(out, stream{"bitmap_ids", "bitmap", bmI, nil})
	out = append(out, stream{"epoch_ids", "epoch", epI, nil})
	out = append(out, stream{"store_ids", "store", stI, nil})
	out = append(out, stream{"jsoncoerce", "jsoncoerce", genJSONCoerce(r.Fork(), nr*4), map[string]interface{}{"exhaustive_part": "every byte string of length <= 2 over 27 boundary bytes of the UTF-8 table"}})
	return out
}
