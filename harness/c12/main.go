// C12 correspondence driver: real allocator.DistributedAllocator on a harness Store (failure
// injection, Query permutation, explicit watch delivery) and real json round trips of IPAllocator,
// EpochBitmapAllocator and MemoryAllocationStore, against coq/Model/DistAlloc.v and Persist.v.
package main

import (
	"context"
	"encoding/hex"
	"encoding/json"
	"errors"
	"fmt"
	"math/big"
	"net"
	"sort"
	"strings"
	"unicode/utf8"

	"verifharness/vh"

	"github.com/codelaboratoryltd/bng/pkg/allocator"
)

// ------------------------------------------------------------------------------------ descriptions

type Op struct {
	K       string `json:"k"`
	H       int    `json:"h,omitempty"`
	A       string `json:"a,omitempty"` // address, decimal
	PL      int    `json:"pl,omitempty"`
	Ep      uint64 `json:"ep,omitempty"`
	Mac     bool   `json:"mac,omitempty"`
	Fail    bool   `json:"fail,omitempty"`
	FailG   bool   `json:"failg,omitempty"`
	Down    bool   `json:"down,omitempty"`    // with fail: the store is unreachable for the whole call (every store call of it fails), not only the first write
	CtxDone int    `json:"ctxdone,omitempty"` // with a failing store call: 1 = the request context is cancelled INSIDE the failing store call (the write fails because the request timed out), 2 = it is already cancelled on entry. The unchanged code never looks at the request context (the harness Store and the in-memory allocators ignore it), so the Model has no such input
	Dup     bool   `json:"dup,omitempty"`     // echo: the notification stays queued (it will be delivered again)
	VH      int    `json:"vh,omitempty"`      // rputx: holder named INSIDE the value (the key names H)
	Ord     []int  `json:"ord,omitempty"`
	Idx     int    `json:"idx,omitempty"` // echo: which pending notification
	// store stream
	Pool int `json:"pool,omitempty"`
	Bits int `json:"bits,omitempty"`
	Typ  int `json:"typ,omitempty"`
	Tot  int `json:"tot,omitempty"`
	IAID int `json:"iaid,omitempty"`
}

type Case struct {
	Kind   string   `json:"kind"` // dist | bitmap | epoch | store
	Lease  bool     `json:"lease,omitempty"`
	Sync   bool     `json:"sync,omitempty"` // dist: deliver own watch notifications right after each call
	Bits   int      `json:"bits,omitempty"`
	Base   string   `json:"base,omitempty"`
	PPL    int      `json:"ppl,omitempty"`
	PL     int      `json:"pl,omitempty"`
	Grace  uint64   `json:"grace,omitempty"`
	Univ   int      `json:"univ,omitempty"`
	Pool   string   `json:"pool,omitempty"`   // dist: pool id (default "p")
	Names  []string `json:"names,omitempty"`  // dist: subscriber id of holder h (default "s<h>"); any bytes
	NamesX []string `json:"namesx,omitempty"` // the same, hex encoded (ids that are not valid UTF-8 do not survive a JSON description)
	Ops    []Op     `json:"ops"`
	Origin string   `json:"origin,omitempty"`
}

func bigOf(s string) *big.Int {
	if s == "" {
		return new(big.Int)
	}
	v, ok := new(big.Int).SetString(s, 10)
	if !ok {
		panic("bad integer " + s)
	}
	return v
}

func ipOf(v *big.Int, bits int) net.IP {
	b := v.Bytes()
	n := bits / 8
	if len(b) > n {
		b = b[len(b)-n:]
	}
	out := make([]byte, n)
	copy(out[n-len(b):], b)
	return net.IP(out)
}

func intOf(ip net.IP) *big.Int {
	if v4 := ip.To4(); v4 != nil {
		return new(big.Int).SetBytes(v4)
	}
	return new(big.Int).SetBytes(ip.To16())
}

func cidr(base string, bits, pl int) string {
	return fmt.Sprintf("%s/%d", ipOf(bigOf(base), bits).String(), pl)
}

func sub(h int) string { return fmt.Sprintf("s%d", h) }
func subNum(s string) int {
	var h int
	if _, err := fmt.Sscanf(s, "s%d", &h); err != nil {
		return 999
	}
	return h
}

func errClass(err error) int {
	switch {
	case errors.Is(err, allocator.ErrPoolExhausted):
		return 1
	case errors.Is(err, allocator.ErrNotAllocated):
		return 2
	case errors.Is(err, allocator.ErrNotFound):
		return 7
	case errors.Is(err, allocator.ErrConflict):
		return 3
	}
	return 6
}

func statsCoq(ctor string, al, tot uint64, util float64) string {
	r := new(big.Rat)
	if r.SetFloat64(util) == nil || r.Sign() < 0 {
		return fmt.Sprintf("%s %d %d 7 0", ctor, al, tot)
	}
	return fmt.Sprintf("%s %d %d %s %s", ctor, al, tot, r.Num().String(), r.Denom().String())
}

// ------------------------------------------------------------------------------------ harness Store

type note struct {
	key     string
	value   []byte
	deleted bool
}

type hstore struct {
	data    map[string][]byte
	order   []string // keys in the order Query returns them first
	failPut bool
	failDel bool
	failGet bool
	down    bool               // every call fails until cleared
	cancel  context.CancelFunc // cancels the request context of the running op inside a failing store call
	cb      func(key string, value []byte, deleted bool)
	pending []note
	puts    int
	dels    int
	gets    int
}

var errInjected = errors.New("injected store failure")

func (s *hstore) cancelReq() {
	if s.cancel != nil {
		s.cancel()
	}
}

func (s *hstore) Get(ctx context.Context, key string) ([]byte, error) {
	if s.failGet || s.down {
		s.failGet = false
		s.gets++
		s.cancelReq()
		return nil, errInjected
	}
	if v, ok := s.data[key]; ok {
		return v, nil
	}
	return nil, errors.New("key not found")
}
func (s *hstore) Put(ctx context.Context, key string, value []byte) error {
	s.puts++
	if s.failPut || s.down {
		s.failPut = false
		s.cancelReq()
		return errInjected
	}
	s.data[key] = append([]byte(nil), value...)
	s.pending = append(s.pending, note{key, append([]byte(nil), value...), false})
	return nil
}
func (s *hstore) Delete(ctx context.Context, key string) error {
	s.dels++
	if s.failDel || s.down {
		s.failDel = false
		s.cancelReq()
		return errInjected
	}
	delete(s.data, key)
	s.pending = append(s.pending, note{key, nil, true})
	return nil
}
func (s *hstore) Query(ctx context.Context, prefix string) ([]allocator.KeyValue, error) {
	var out []allocator.KeyValue
	seen := map[string]bool{}
	for _, k := range s.order {
		if v, ok := s.data[k]; ok && strings.HasPrefix(k, prefix) && !seen[k] {
			seen[k] = true
			out = append(out, allocator.KeyValue{Key: k, Value: v})
		}
	}
	var rest []string
	for k := range s.data {
		if strings.HasPrefix(k, prefix) && !seen[k] {
			rest = append(rest, k)
		}
	}
	sort.Strings(rest)
	for _, k := range rest {
		out = append(out, allocator.KeyValue{Key: k, Value: s.data[k]})
	}
	return out, nil
}
func (s *hstore) Watch(prefix string, cb func(key string, value []byte, deleted bool)) { s.cb = cb }

// ------------------------------------------------------------------------------------ dist stream

func (c Case) poolID() string {
	if c.Pool == "" {
		return "p"
	}
	return c.Pool
}
func (c Case) name(h int) string {
	if h < len(c.NamesX) {
		b, err := hex.DecodeString(c.NamesX[h])
		if err != nil {
			panic(err)
		}
		return string(b)
	}
	if h < len(c.Names) {
		return c.Names[h]
	}
	return sub(h)
}
func (c Case) holderOf(id string) int {
	for h := 0; h < c.Univ; h++ {
		if c.name(h) == id {
			return h
		}
	}
	return 999
}
func (c Case) prefix() string     { return "/allocation/" + c.poolID() + "/" }
func (c Case) keyOf(h int) string { return c.prefix() + c.name(h) }

type recT struct {
	a   *big.Int
	pl  int
	ep  uint64
	sid string
}

func parseRec(v []byte) (recT, bool) {
	var a allocator.DistributedAllocation
	if err := json.Unmarshal(v, &a); err != nil {
		return recT{}, false
	}
	ip, n, err := net.ParseCIDR(a.Prefix)
	if err != nil {
		return recT{}, false
	}
	ones, _ := n.Mask.Size()
	return recT{intOf(ip), ones, a.Epoch, a.SubscriberID}, true
}

func recCoq(r recT) string {
	return fmt.Sprintf("{| r_addr := %s; r_pl := %d; r_ep := %d |}", r.a.String(), r.pl, r.ep)
}

type distRun struct {
	c     Case
	st    *hstore
	da    *allocator.DistributedAllocator
	ctx   context.Context
	stop  context.CancelFunc
	trace []string
	tags  map[string]bool
}

func (d *distRun) newAlloc() {
	if d.stop != nil {
		d.stop()
	}
	d.ctx, d.stop = context.WithCancel(context.Background())
	mode := allocator.PoolModeSession
	if d.c.Lease {
		mode = allocator.PoolModeLease
	}
	da, err := allocator.NewDistributedAllocator(allocator.DistributedConfig{
		PoolID: d.c.poolID(), BaseNetwork: cidr(d.c.Base, d.c.Bits, d.c.PPL), PrefixLen: d.c.PL, Mode: mode,
		EpochGrace: int(d.c.Grace)}, d.st)
	if err != nil {
		panic(err)
	}
	d.da = da
}

func (d *distRun) snapshot(ret string) string {
	var mem []string
	for h := 0; h < d.c.Univ; h++ {
		if p, ok := d.da.Get(d.c.name(h)); ok && p != nil {
			mem = append(mem, fmt.Sprintf("(%d, %s)", h, intOf(p.IP).String()))
		}
	}
	type sr struct {
		h int
		s string
	}
	var recs []sr
	for k, v := range d.st.data {
		h := d.c.holderOf(k[len(d.c.prefix()):])
		if r, ok := parseRec(v); ok {
			recs = append(recs, sr{h, fmt.Sprintf("(%d, (%s, %d, %d))", h, r.a.String(), r.pl, r.ep)})
		} else {
			recs = append(recs, sr{h, fmt.Sprintf("(%d, (0, 999, 0))", h)})
		}
	}
	sort.Slice(recs, func(i, j int) bool { return recs[i].h < recs[j].h })
	var rs []string
	for _, r := range recs {
		rs = append(rs, r.s)
	}
	return fmt.Sprintf("{| o_ret := %s; o_mem := %s; o_store := %s |}", ret, vh.List(mem), vh.List(rs))
}

func (d *distRun) emit(op, ret string) {
	d.trace = append(d.trace, vh.Pair(op, d.snapshot(ret)))
}

func (d *distRun) deliver(n note) {
	arg := "None"
	if !n.deleted {
		r, ok := parseRec(n.value)
		if !ok {
			return
		}
		arg = "(Some (" + vh.Str(r.sid) + ", " + recCoq(r) + "))"
	}
	if d.st.cb != nil {
		d.st.cb(n.key, n.value, n.deleted)
	}
	d.emit(fmt.Sprintf("WEcho %s %s", vh.Str(n.key), arg), "ROk")
	d.tags["op:echo"] = true
}

func (d *distRun) flushSync() {
	if !d.c.Sync {
		return
	}
	p := d.st.pending
	d.st.pending = nil
	for _, n := range p {
		d.deliver(n)
	}
}

// units of the pool that no other subscriber holds in memory or is recorded with in the store
func (d *distRun) freeUnits(h int) []*big.Int {
	c := d.c
	base := bigOf(c.Base)
	n := 1 << uint(c.PL-c.PPL)
	if n > 64 {
		n = 64
	}
	taken := map[string]bool{}
	for k, v := range d.st.data {
		if k == d.c.keyOf(h) {
			continue
		}
		if r, ok := parseRec(v); ok {
			taken[r.a.String()] = true
		}
	}
	for x := 0; x < c.Univ; x++ {
		if x == h {
			continue
		}
		if p, ok := d.da.Get(d.c.name(x)); ok && p != nil {
			taken[intOf(p.IP).String()] = true
		}
	}
	var out []*big.Int
	for i := 0; i < n; i++ {
		var a *big.Int
		if c.Lease {
			if i == 0 || i == n-1 {
				continue
			}
			a = new(big.Int).Add(base, big.NewInt(int64(i)))
		} else {
			a = new(big.Int).Add(base, new(big.Int).Lsh(big.NewInt(int64(i)), uint(c.Bits-c.PL)))
		}
		if !taken[a.String()] {
			out = append(out, a)
		}
	}
	return out
}

// another node wrote the record of holder h; the watch fires with the store key
func (d *distRun) remotePut(h int, r recT) {
	c := d.c
	key := c.keyOf(h)
	val, _ := json.Marshal(&allocator.DistributedAllocation{PoolID: c.poolID(), SubscriberID: r.sid,
		Prefix: fmt.Sprintf("%s/%d", ipOf(r.a, c.Bits).String(), r.pl), Epoch: r.ep})
	d.st.data[key] = val
	if d.st.cb != nil {
		d.st.cb(key, val, false)
	}
	d.emit(fmt.Sprintf("WRemotePut %s %s %s %d %d", vh.Str(key), vh.Str(r.sid), r.a.String(), r.pl, r.ep), "ROk")
}

// request context of a faulted op (oracle bit CtxDone); the returned func ends the op
func (d *distRun) reqCtx(o Op) (context.Context, func()) {
	if o.CtxDone == 0 || !(o.Fail || o.FailG) {
		return context.Background(), func() {}
	}
	ctx, cancel := context.WithCancel(context.Background())
	d.tags[fmt.Sprintf("fail:ctx-done-%d", o.CtxDone)] = true
	if o.CtxDone == 2 {
		cancel()
	} else {
		d.st.cancel = cancel
	}
	return ctx, func() { d.st.cancel = nil; cancel() }
}

func (d *distRun) clearFlags() {
	d.st.failPut, d.st.failDel, d.st.failGet, d.st.down = false, false, false, false
}

func runDist(c Case) vh.Case {
	d := &distRun{c: c, st: &hstore{data: map[string][]byte{}}, tags: map[string]bool{}}
	d.newAlloc()
	if err := d.da.Start(d.ctx); err != nil {
		panic(err)
	}
	defer func() { d.stop() }()
	for _, o := range c.Ops {
		d.tags["op:"+o.K] = true
		switch o.K {
		case "alloc":
			d.st.failPut, d.st.down = o.Fail, o.Fail && o.Down
			if o.Fail && o.Down {
				d.tags["fail:outage"] = true
			}
			var p *net.IPNet
			var err error
			rctx, end := d.reqCtx(o)
			if o.Mac {
				p, err = d.da.AllocateWithMAC(rctx, c.name(o.H), net.HardwareAddr{2, 0, 0, 0, 0, byte(o.H)})
			} else {
				p, err = d.da.Allocate(rctx, c.name(o.H))
			}
			end()
			used := o.Fail && !d.st.failPut
			d.clearFlags()
			ret := ""
			if err != nil {
				ret = fmt.Sprintf("RErr %d", errClass(err))
			} else {
				ret = "RUnit " + intOf(p.IP).String()
			}
			if used {
				d.tags["fail:put"] = true
			}
			d.emit(fmt.Sprintf("WLocal (DAlloc %d %s %s)", o.H, vh.Bool(o.Mac), vh.Bool(o.Fail)), ret)
			d.flushSync()
		case "rel":
			d.st.failDel, d.st.down = o.Fail, o.Fail && o.Down
			rctx, end := d.reqCtx(o)
			err := d.da.Release(rctx, c.name(o.H))
			end()
			if o.Fail && !d.st.failDel {
				d.tags["fail:del"] = true
			}
			d.clearFlags()
			ret := "ROk"
			if err != nil {
				ret = fmt.Sprintf("RErr %d", errClass(err))
			}
			d.emit(fmt.Sprintf("WLocal (DRelease %d %s)", o.H, vh.Bool(o.Fail)), ret)
			d.flushSync()
		case "renew":
			d.st.failGet, d.st.failPut, d.st.down = o.FailG, o.Fail, o.FailG && o.Fail && o.Down
			rctx, end := d.reqCtx(o)
			err := d.da.Renew(rctx, c.name(o.H))
			end()
			d.clearFlags()
			ret := "ROk"
			if err != nil {
				ret = fmt.Sprintf("RErr %d", errClass(err))
			}
			d.emit(fmt.Sprintf("WLocal (DRenew %d %s %s)", o.H, vh.Bool(o.FailG), vh.Bool(o.Fail)), ret)
			d.flushSync()
		case "get":
			ret := "RNone"
			if p, ok := d.da.Get(c.name(o.H)); ok && p != nil {
				ret = "RUnit " + intOf(p.IP).String()
			}
			d.emit(fmt.Sprintf("WLocal (DGet %d)", o.H), ret)
		case "getby":
			bits := c.Bits
			pfx := &net.IPNet{IP: ipOf(bigOf(o.A), bits), Mask: net.CIDRMask(o.PL, bits)}
			ret := "RNone"
			if s, ok := d.da.GetByPrefix(pfx); ok {
				ret = fmt.Sprintf("RHolder %d", c.holderOf(s))
			}
			d.emit(fmt.Sprintf("WLocal (DGetBy %s %d)", bigOf(o.A).String(), o.PL), ret)
		case "stats":
			s := d.da.Stats()
			d.emit("WLocal DStats", statsCoq("RStats", uint64(s.Allocated), uint64(s.Total), s.Utilization))
		case "adv":
			e := d.da.AdvanceEpoch()
			d.emit("WLocal DAdvance", fmt.Sprintf("REpoch %d", e))
		case "restart":
			var ord []string
			d.st.order = nil
			for _, h := range o.Ord {
				d.st.order = append(d.st.order, c.keyOf(h))
				ord = append(ord, fmt.Sprintf("%d", h))
			}
			d.st.pending = nil // notifications addressed to the stopped process are gone
			d.st.cb = nil
			d.newAlloc()
			ret := "ROk"
			if err := d.da.Start(d.ctx); err != nil {
				ret = "RErr 6"
			}
			d.emit("WLocal (DRestart "+vh.List(ord)+")", ret)
		case "rput":
			d.remotePut(o.H, recT{bigOf(o.A), o.PL, o.Ep, c.name(o.H)})
		case "rputx": // a record whose value names another subscriber than its key (free unit chosen at run time)
			free := d.freeUnits(o.H)
			if len(free) == 0 {
				continue
			}
			pl := c.PL
			if c.Lease {
				pl = 32
			}
			d.tags["rput:value-names-other"] = true
			d.remotePut(o.H, recT{free[o.Idx%len(free)], pl, o.Ep, c.name(o.VH)})
		case "rputf", "rputown": // guarded remote puts: the address is chosen at run time
			var r recT
			if o.K == "rputown" {
				v, ok := d.st.data[c.keyOf(o.H)]
				if !ok {
					continue
				}
				pr, ok := parseRec(v)
				if !ok {
					continue
				}
				r = recT{pr.a, pr.pl, o.Ep, c.name(o.H)}
			} else {
				free := d.freeUnits(o.H)
				if len(free) == 0 {
					continue
				}
				pl := c.PL
				if c.Lease {
					pl = 32
				}
				r = recT{free[o.Idx%len(free)], pl, o.Ep, c.name(o.H)}
			}
			d.remotePut(o.H, r)
		case "rdel":
			delete(d.st.data, c.keyOf(o.H))
			if d.st.cb != nil {
				d.st.cb(c.keyOf(o.H), nil, true)
			}
			d.emit("WRemoteDel "+vh.Str(c.keyOf(o.H)), "ROk")
		case "echo": // late delivery of one pending own notification
			if len(d.st.pending) == 0 {
				continue
			}
			i := o.Idx % len(d.st.pending)
			n := d.st.pending[i]
			if o.Dup {
				d.tags["echo:dup"] = true
			} else {
				d.st.pending = append(d.st.pending[:i:i], d.st.pending[i+1:]...)
			}
			d.deliver(n)
			d.tags["echo:late"] = true
		default:
			panic("unknown dist op " + o.K)
		}
	}
	var univ []string
	for h := 0; h < c.Univ; h++ {
		univ = append(univ, fmt.Sprintf("%d", h))
	}
	cfg := fmt.Sprintf("(%s, (%d, %s, %d, %d), %d, %s)", vh.Bool(c.Lease), c.Bits, bigOf(c.Base).String(), c.PPL, c.PL, c.Grace, vh.List(univ))
	mode := "mode:session"
	if c.Lease {
		mode = "mode:lease"
	}
	tl := []string{mode, "origin:" + c.Origin, fmt.Sprintf("sync:%v", c.Sync)}
	for t := range d.tags {
		tl = append(tl, t)
	}
	sort.Strings(tl)
	var names []string
	for h := 0; h < c.Univ; h++ {
		names = append(names, fmt.Sprintf("(%d, %s)", h, vh.Str(c.name(h))))
	}
	wire := "(" + vh.Str(c.poolID()) + ", " + vh.List(names) + ")"
	if len(c.Names) > 0 || len(c.NamesX) > 0 {
		tl = append(tl, "ids:hostile")
	}
	for h := 0; h < c.Univ; h++ {
		if !utf8.ValidString(c.name(h)) {
			tl = append(tl, "ids:invalid-utf8")
			break
		}
	}
	return vh.Case{Coq: "(" + cfg + ", " + wire + ",\n " + vh.List(d.trace) + ")", Desc: c, Tags: tl}
}

// id table of a round-trip case: (holder -> id bytes, holders in the byte order of their ids = the order in which
// json.Marshal writes them as object keys); empty when the case uses the default ids s<h>
func (c Case) idtab() string {
	if len(c.Names) == 0 && len(c.NamesX) == 0 {
		return "([], [])"
	}
	var names []string
	hs := make([]int, 0, c.Univ)
	for h := 0; h < c.Univ; h++ {
		names = append(names, fmt.Sprintf("(%d, %s)", h, vh.Str(c.name(h))))
		hs = append(hs, h)
	}
	sort.SliceStable(hs, func(i, j int) bool { return c.name(hs[i]) < c.name(hs[j]) })
	var ord []string
	for _, h := range hs {
		ord = append(ord, fmt.Sprintf("%d", h))
	}
	return "(" + vh.List(names) + ", " + vh.List(ord) + ")"
}
func (c Case) idTags(tl []string) []string {
	if len(c.Names) > 0 || len(c.NamesX) > 0 {
		tl = append(tl, "ids:hostile")
	}
	for h := 0; h < c.Univ; h++ {
		if !utf8.ValidString(c.name(h)) {
			return append(tl, "ids:invalid-utf8")
		}
	}
	return tl
}

// ------------------------------------------------------------------------------------ bitmap round trip

var defCounter int

// battery lists are repeated at every q/rt op: emit them once per case as a named Definition
func shareDef(typ, body string) (string, vh.Def) {
	defCounter++
	name := fmt.Sprintf("battery_%d", defCounter)
	return name, vh.Def{Name: name, Type: typ, Body: body}
}

func outPrefix(p *net.IPNet) string {
	if p == nil {
		return "ONone"
	}
	return "OUnit " + intOf(p.IP).String()
}

// full result of a prefix-valued answer: address, mask ones, mask width (a nil mask reads 0/0)
func pfxAns(p *net.IPNet) string {
	if p == nil {
		return "BOut ONone"
	}
	ones, bits := p.Mask.Size()
	return fmt.Sprintf("BPfx %s %d %d", intOf(p.IP).String(), ones, bits)
}

func bitmapBattery(c Case) (coq string, ask func(a *allocator.IPAllocator) string) {
	g := bigOf(c.Base)
	step := new(big.Int).Lsh(big.NewInt(1), uint(c.Bits-c.PL))
	n := 1 << uint(c.PL-c.PPL)
	if n > 18 {
		n = 18
	}
	type q struct {
		coq string
		f   func(a *allocator.IPAllocator) string
	}
	var qs []q
	for h := 0; h < c.Univ; h++ {
		h := h
		qs = append(qs, q{fmt.Sprintf("QLookup %d", h), func(a *allocator.IPAllocator) string { return pfxAns(a.Lookup(c.name(h))) }})
	}
	addrs := []*big.Int{}
	for i := 0; i <= n; i++ { // one past the end included
		addrs = append(addrs, new(big.Int).Add(g, new(big.Int).Mul(big.NewInt(int64(i)), step)))
	}
	for _, a := range addrs {
		a := a
		for _, pl := range []int{c.PL, c.PL - 1} {
			pl := pl
			if pl < 0 || (pl != c.PL && a.Cmp(g) != 0) {
				continue
			}
			pfx := func() *net.IPNet { return &net.IPNet{IP: ipOf(a, c.Bits), Mask: net.CIDRMask(pl, c.Bits)} }
			qs = append(qs, q{fmt.Sprintf("QLookupUnit %s %d", a.String(), pl), func(al *allocator.IPAllocator) string {
				s := al.LookupByPrefix(pfx())
				if s == "" {
					return "BOut ONone"
				}
				return fmt.Sprintf("BOut (OHolder %d)", c.holderOf(s))
			}})
			qs = append(qs, q{fmt.Sprintf("QIsAlloc %s %d", a.String(), pl), func(al *allocator.IPAllocator) string {
				return "BFlag " + vh.Bool(al.IsAllocated(pfx()))
			}})
		}
	}
	qs = append(qs, q{"QStats", func(a *allocator.IPAllocator) string {
		al, tot, u := a.Stats()
		return "BOut (" + statsCoq("OStats", al, tot, u) + ")"
	}})
	qs = append(qs, q{"QIsV6", func(a *allocator.IPAllocator) string { return "BFlag " + vh.Bool(a.IsIPv6()) }})
	qs = append(qs, q{"QPrefixLen", func(a *allocator.IPAllocator) string { return fmt.Sprintf("BNum %d", a.PrefixLength()) }})
	qs = append(qs, q{"QList", func(a *allocator.IPAllocator) string {
		l := a.ListAllocations()
		sort.Slice(l, func(i, j int) bool { return c.holderOf(l[i].SubscriberID) < c.holderOf(l[j].SubscriberID) })
		var it []string
		for _, x := range l {
			ones, bits := 0, 0
			ip := "0"
			if x.Prefix != nil {
				ones, bits = x.Prefix.Mask.Size()
				ip = intOf(x.Prefix.IP).String()
			}
			it = append(it, fmt.Sprintf("(%d, (%s, %d, %d))", c.holderOf(x.SubscriberID), ip, ones, bits))
		}
		return "BList " + vh.List(it)
	}})
	var names []string
	for _, x := range qs {
		names = append(names, x.coq)
	}
	return vh.List(names), func(a *allocator.IPAllocator) string {
		var o []string
		for _, x := range qs {
			o = append(o, x.f(a))
		}
		return vh.List(o)
	}
}

func perr(err error) string {
	switch {
	case err == nil:
		return "OOk"
	case errors.Is(err, allocator.ErrPoolExhausted):
		return "OErr 1"
	case errors.Is(err, allocator.ErrNotAllocated):
		return "OErr 2"
	case errors.Is(err, allocator.ErrAlreadyAllocated):
		return "OErr 3"
	case errors.Is(err, allocator.ErrOutOfRange):
		return "OErr 4"
	}
	return "OErr 5"
}

func runBitmap(c Case) vh.Case {
	a, err := allocator.NewIPAllocator(cidr(c.Base, c.Bits, c.PPL), c.PL)
	if err != nil {
		panic(err)
	}
	qbody, ask := bitmapBattery(c)
	qcoq, qdef := shareDef("list bq", qbody)
	defs := []vh.Def{qdef}
	var tr []string
	tags := map[string]bool{}
	pfx := func(o Op) *net.IPNet {
		return &net.IPNet{IP: ipOf(bigOf(o.A), c.Bits), Mask: net.CIDRMask(o.PL, c.Bits)}
	}
	for _, o := range c.Ops {
		tags["op:"+o.K] = true
		as := bigOf(o.A).String()
		switch o.K {
		case "alloc":
			p, err := a.Allocate(c.name(o.H))
			r := perr(err)
			if err == nil {
				r = outPrefix(p)
			}
			tr = append(tr, vh.Pair(fmt.Sprintf("PB (Alloc %d)", o.H), "PBO ("+r+")"))
		case "aspec":
			tr = append(tr, vh.Pair(fmt.Sprintf("PB (AllocSpec %d %s %d)", o.H, as, o.PL), "PBO ("+perr(a.AllocateSpecific(c.name(o.H), pfx(o)))+")"))
		case "set":
			tr = append(tr, vh.Pair(fmt.Sprintf("PB (SetAlloc %d %s %d)", o.H, as, o.PL), "PBO ("+perr(a.SetAllocation(c.name(o.H), pfx(o)))+")"))
		case "rel":
			tr = append(tr, vh.Pair(fmt.Sprintf("PB (Release %d)", o.H), "PBO ("+perr(a.Release(c.name(o.H)))+")"))
		case "relu":
			tr = append(tr, vh.Pair(fmt.Sprintf("PB (ReleaseUnit %s %d)", as, o.PL), "PBO ("+perr(a.ReleasePrefix(pfx(o)))+")"))
		case "q":
			tr = append(tr, vh.Pair("PBQ "+qcoq, "PBL "+ask(a)))
		case "rt":
			data, err := json.Marshal(a)
			if err != nil {
				panic(err)
			}
			n := new(allocator.IPAllocator)
			if err := json.Unmarshal(data, n); err != nil {
				panic(err)
			}
			a = n
			tr = append(tr, vh.Pair("PBRT "+qcoq, "PBL "+ask(a)))
		default:
			panic("unknown bitmap op " + o.K)
		}
	}
	var tl []string
	for t := range tags {
		tl = append(tl, t)
	}
	tl = append(tl, "origin:"+c.Origin, fmt.Sprintf("units:%d", 1<<uint(c.PL-c.PPL)), fmt.Sprintf("bits:%d", c.Bits))
	tl = c.idTags(tl)
	sort.Strings(tl)
	return vh.Case{Coq: fmt.Sprintf("((%d, %s, %d, %d), %s,\n %s)", c.Bits, bigOf(c.Base).String(), c.PPL, c.PL, c.idtab(), vh.List(tr)), Desc: c, Tags: tl, Defs: defs}
}

// ------------------------------------------------------------------------------------ epoch round trip

func runEpoch(c Case) vh.Case {
	a, err := allocator.NewEpochBitmapAllocator(allocator.EpochBitmapConfig{BaseNetwork: cidr(c.Base, 32, c.PPL), PrefixLength: c.PL, GracePeriod: c.Grace})
	if err != nil {
		panic(err)
	}
	ctx := context.Background()
	base := bigOf(c.Base)
	n := 1 << uint(c.PL-c.PPL)
	if n > 20 {
		n = 20
	}
	type q struct {
		coq string
		f   func(a *allocator.EpochBitmapAllocator) string
	}
	var qs []q
	for h := 0; h < c.Univ; h++ {
		h := h
		qs = append(qs, q{fmt.Sprintf("QELookup %d", h), func(a *allocator.EpochBitmapAllocator) string {
			ip := a.Lookup(c.name(h))
			if ip == nil {
				return "RNone"
			}
			return "RUnit " + intOf(ip).String()
		}})
	}
	for i := 0; i <= n; i++ {
		ad := new(big.Int).Add(base, big.NewInt(int64(i)))
		qs = append(qs, q{"QELookupIP " + ad.String(), func(a *allocator.EpochBitmapAllocator) string {
			s := a.LookupByIP(ipOf(ad, 32))
			if s == "" {
				return "RNone"
			}
			return fmt.Sprintf("RHolder %d", c.holderOf(s))
		}})
	}
	qs = append(qs, q{"QEStats", func(a *allocator.EpochBitmapAllocator) string {
		al, tot, u := a.Stats()
		return statsCoq("RStats", al, tot, u)
	}})
	qs = append(qs, q{"QEEpoch", func(a *allocator.EpochBitmapAllocator) string { return fmt.Sprintf("REpoch %d", a.GetCurrentEpoch()) }})
	var names []string
	for _, x := range qs {
		names = append(names, x.coq)
	}
	qcoq, qdef := shareDef("list eq_", vh.List(names))
	ask := func(a *allocator.EpochBitmapAllocator) string {
		var o []string
		for _, x := range qs {
			o = append(o, x.f(a))
		}
		return vh.List(o)
	}
	var tr []string
	tags := map[string]bool{}
	for _, o := range c.Ops {
		tags["op:"+o.K] = true
		switch o.K {
		case "alloc":
			ip, err := a.Allocate(ctx, c.name(o.H))
			r := "RErr 1"
			if err == nil {
				r = "RUnit " + intOf(ip).String()
			}
			tr = append(tr, vh.Pair(fmt.Sprintf("PEAlloc %d", o.H), "PEO ("+r+")"))
		case "renew":
			r := "ROk"
			if err := a.Renew(ctx, c.name(o.H)); err != nil {
				r = fmt.Sprintf("RErr %d", errClass(err))
			}
			tr = append(tr, vh.Pair(fmt.Sprintf("PERenew %d", o.H), "PEO ("+r+")"))
		case "rel":
			a.Release(ctx, c.name(o.H))
			tr = append(tr, vh.Pair(fmt.Sprintf("PERelease %d", o.H), "PEO ROk"))
		case "adv":
			tr = append(tr, vh.Pair("PEAdvance", fmt.Sprintf("PEO (REpoch %d)", a.AdvanceEpoch())))
		case "q":
			tr = append(tr, vh.Pair("PEQ "+qcoq, "PEL "+ask(a)))
		case "rt":
			data, err := json.Marshal(a)
			if err != nil {
				panic(err)
			}
			nw := new(allocator.EpochBitmapAllocator)
			if err := json.Unmarshal(data, nw); err != nil {
				tr = append(tr, vh.Pair("PERT "+qcoq, "PEFail"))
				tags["rt:error"] = true
			} else {
				a = nw
				tr = append(tr, vh.Pair("PERT "+qcoq, "PEL "+ask(a)))
			}
		default:
			panic("unknown epoch op " + o.K)
		}
	}
	var tl []string
	for t := range tags {
		tl = append(tl, t)
	}
	tl = append(tl, "origin:"+c.Origin, fmt.Sprintf("pl:%d", c.PL), fmt.Sprintf("grace:%d", c.Grace))
	tl = c.idTags(tl)
	sort.Strings(tl)
	return vh.Case{Coq: fmt.Sprintf("((%s, %d, %d, %d), %s,\n %s)", base.String(), c.PPL, c.PL, c.Grace, c.idtab(), vh.List(tr)), Desc: c, Tags: tl, Defs: []vh.Def{qdef}}
}

// ------------------------------------------------------------------------------------ allocation store round trip

var poolTypes = []allocator.PoolType{"", allocator.PoolTypeIPv4Address, allocator.PoolTypeIPv6Address, allocator.PoolTypeIPv6Prefix}

func typNum(t allocator.PoolType) int {
	for i, x := range poolTypes {
		if x == t {
			return i
		}
	}
	return 9
}
func macNum(s string) int {
	if s == "" {
		return 0
	}
	var n int
	fmt.Sscanf(s, "m%d", &n)
	return n
}

func srecCoq(c Case, r allocator.AllocationRecord) string {
	var p, s int
	fmt.Sscanf(r.PoolID, "p%d", &p)
	s = c.holderOf(r.SubscriberID)
	ones, bits := r.Prefix.Mask.Size()
	if r.Prefix.IP.To4() != nil {
		bits = 32
	}
	return fmt.Sprintf("{| sr_pool := %d; sr_sub := %d; sr_addr := %s; sr_pl := %d; sr_bits := %d; sr_type := %d; sr_mac := %d; sr_iaid := %d |}",
		p, s, intOf(r.Prefix.IP).String(), ones, bits, typNum(r.PoolType), macNum(r.MAC), r.IAID)
}

func runStore(c Case) vh.Case {
	st := allocator.NewMemoryAllocationStore()
	ctx := context.Background()
	mkrec := func(o Op) allocator.AllocationRecord {
		mac := ""
		if o.Mac {
			mac = fmt.Sprintf("m%d", o.H+1)
		}
		return allocator.AllocationRecord{SubscriberID: c.name(o.H), PoolID: fmt.Sprintf("p%d", o.Pool), PoolType: poolTypes[o.Typ%len(poolTypes)],
			Prefix: &net.IPNet{IP: ipOf(bigOf(o.A), o.Bits), Mask: net.CIDRMask(o.PL, o.Bits)}, MAC: mac, IAID: uint32(o.IAID)}
	}
	// battery: every subscriber, pool, type, every address used by the case (raw and masked), utilisation
	type q struct {
		coq string
		f   func(s *allocator.MemoryAllocationStore) string
	}
	recsCoq := func(l []allocator.AllocationRecord) string {
		var it []string
		for _, r := range l {
			it = append(it, srecCoq(c, r))
		}
		sort.Strings(it)
		return "MRecs " + vh.List(it)
	}
	var qs []q
	for h := 0; h < c.Univ; h++ {
		h := h
		qs = append(qs, q{fmt.Sprintf("QMBySub %d", h), func(s *allocator.MemoryAllocationStore) string {
			l, _ := s.GetBySubscriber(ctx, c.name(h))
			return recsCoq(l)
		}})
	}
	for p := 0; p < 3; p++ {
		p := p
		qs = append(qs, q{fmt.Sprintf("QMByPool %d", p), func(s *allocator.MemoryAllocationStore) string {
			l, _ := s.GetByPool(ctx, fmt.Sprintf("p%d", p))
			return recsCoq(l)
		}})
		qs = append(qs, q{fmt.Sprintf("QMUtil %d", p), func(s *allocator.MemoryAllocationStore) string {
			a, t, _ := s.GetPoolUtilization(ctx, fmt.Sprintf("p%d", p))
			return fmt.Sprintf("MNums %d %d", a, t)
		}})
	}
	for t := 0; t < len(poolTypes); t++ {
		t := t
		qs = append(qs, q{fmt.Sprintf("QMByType %d", t), func(s *allocator.MemoryAllocationStore) string {
			l, _ := s.GetByPoolType(ctx, poolTypes[t])
			return recsCoq(l)
		}})
	}
	seen := map[string]bool{}
	for _, o := range c.Ops {
		if o.K != "save" {
			continue
		}
		a := bigOf(o.A)
		m := new(big.Int).Rsh(a, uint(o.Bits-o.PL))
		m.Lsh(m, uint(o.Bits-o.PL))
		for _, x := range []*big.Int{a, m} {
			x := x
			bits := o.Bits
			if seen[x.String()] {
				continue
			}
			seen[x.String()] = true
			qs = append(qs, q{"QMByIP " + x.String(), func(s *allocator.MemoryAllocationStore) string {
				r, err := s.GetByIP(ctx, ipOf(x, bits))
				if err != nil || r == nil {
					return "MOne None"
				}
				return "MOne (Some " + srecCoq(c, *r) + ")"
			}})
		}
	}
	qs = append(qs, q{"QMCount", func(s *allocator.MemoryAllocationStore) string { return fmt.Sprintf("MNums %d 0", s.Count()) }})
	var names []string
	for _, x := range qs {
		names = append(names, x.coq)
	}
	qcoq, qdef := shareDef("list mq", vh.List(names))
	ask := func(s *allocator.MemoryAllocationStore) string {
		var o []string
		for _, x := range qs {
			o = append(o, x.f(s))
		}
		return vh.List(o)
	}
	var tr []string
	tags := map[string]bool{}
	for _, o := range c.Ops {
		tags["op:"+o.K] = true
		switch o.K {
		case "save":
			r := mkrec(o)
			ret := "ROk"
			if err := st.SaveAllocation(ctx, r); err != nil {
				ret = fmt.Sprintf("RErr %d", errClass(err))
			}
			tr = append(tr, vh.Pair("PM (MSave "+srecCoq(c, r)+")", "PMO ("+ret+")"))
		case "remove":
			st.RemoveAllocation(ctx, fmt.Sprintf("p%d", o.Pool), c.name(o.H))
			tr = append(tr, vh.Pair(fmt.Sprintf("PM (MRemove %d %d)", o.Pool, o.H), "PMO ROk"))
		case "total":
			st.SetPoolTotal(fmt.Sprintf("p%d", o.Pool), o.Tot)
			tr = append(tr, vh.Pair(fmt.Sprintf("PM (MSetTotal %d %d)", o.Pool, o.Tot), "PMO ROk"))
		case "q":
			tr = append(tr, vh.Pair("PMQ "+qcoq, "PML "+ask(st)))
		case "rt":
			data, err := json.Marshal(st)
			if err != nil {
				panic(err)
			}
			n := allocator.NewMemoryAllocationStore()
			if err := json.Unmarshal(data, n); err != nil {
				panic(err)
			}
			st = n
			tr = append(tr, vh.Pair("PMRT "+qcoq, "PML "+ask(st)))
		default:
			panic("unknown store op " + o.K)
		}
	}
	var tl []string
	for t := range tags {
		tl = append(tl, t)
	}
	tl = append(tl, "origin:"+c.Origin)
	tl = c.idTags(tl)
	sort.Strings(tl)
	return vh.Case{Coq: "(" + c.idtab() + ",\n " + vh.List(tr) + ")", Desc: c, Tags: tl, Defs: []vh.Def{qdef}}
}

// ------------------------------------------------------------------------------------ json_coerce sweep

// what encoding/json makes of a Go string that travels as a JSON string (value or object key)
func jsonString(in string) string {
	d, err := json.Marshal(map[string]string{in: in})
	if err != nil {
		panic(err)
	}
	var m map[string]string
	if err := json.Unmarshal(d, &m); err != nil {
		panic(err)
	}
	for k, v := range m {
		if k != v {
			panic("key and value coerced differently")
		}
		return v
	}
	panic("empty")
}

func runJSONCoerce(c Case) vh.Case {
	var tr []string
	changed := 0
	for _, x := range c.NamesX {
		b, err := hex.DecodeString(x)
		if err != nil {
			panic(err)
		}
		out := jsonString(string(b))
		if out != string(b) {
			changed++
		}
		tr = append(tr, vh.Pair(vh.Bytes(b), vh.Str(out)))
	}
	tl := []string{"origin:" + c.Origin}
	if changed > 0 {
		tl = append(tl, "coerced:some")
	}
	return vh.Case{Coq: vh.List(tr), Desc: c, Tags: tl}
}

func run(c Case) (string, vh.Case) {
	switch c.Kind {
	case "dist":
		return "dist", runDist(c)
	case "bitmap":
		return "bitmap", runBitmap(c)
	case "epoch":
		return "epoch", runEpoch(c)
	case "store":
		return "store", runStore(c)
	case "jsoncoerce":
		return "jsoncoerce", runJSONCoerce(c)
	}
	panic("unknown kind " + c.Kind)
}

const hdr = `From Coq Require Import NArith List. Import ListNotations.
From Verif Require Import Base.Word Model.PoolMap Model.Geometry Model.PoolSpec Model.Bitmap Model.DistAlloc Model.DistAllocSpec Model.Persist Model.DistAllocCheck.
Local Open Scope N_scope.
`

var caseType = map[string]string{"dist": "dcase", "bitmap": "pbcase", "epoch": "pecase", "store": "pmcase", "jsoncoerce": "jccase"}
var runFn = map[string]string{"dist": "run_dist", "bitmap": "run_rt_bitmap", "epoch": "run_rt_epoch", "store": "run_rt_store", "jsoncoerce": "run_jsoncoerce"}

func header(kind string) string {
	return hdr + "Definition cases : list " + caseType[kind] + " := [\n"
}
func footer(kind string) string {
	return "\n].\nDefinition R := Eval vm_compute in " + runFn[kind] + " cases.\nPrint R.\n"
}

func main() {
	cfg := vh.ParseFlags()
	if cfg.Replay != "" {
		var c Case
		if err := vh.LoadReplay(cfg.Replay, &c); err != nil {
			panic(err)
		}
		k, vc := run(c)
		vh.Emit(cfg, k, header(k), footer(k), []vh.Case{vc}, nil)
		return
	}
	// corpus first: one stream per kind, prefixed
	byKind := map[string][]vh.Case{}
	for _, f := range vh.CorpusFiles(cfg) {
		var c Case
		if err := vh.LoadReplay(f, &c); err != nil {
			panic(err)
		}
		k, vc := run(c)
		byKind[k] = append(byKind[k], vc)
	}
	for _, k := range []string{"dist", "bitmap", "epoch", "store", "jsoncoerce"} {
		if len(byKind[k]) > 0 {
			vh.Emit(cfg, "corpus_"+k, header(k), footer(k), byKind[k], nil)
		}
	}
	r := vh.NewRng(cfg.Seed)
	for _, st := range generate(r, cfg.Thorough()) {
		var out []vh.Case
		for _, c := range st.cases {
			_, vc := run(c)
			out = append(out, vc)
		}
		vh.Emit(cfg, st.name, header(st.kind), footer(st.kind), out, st.extra)
	}
}
