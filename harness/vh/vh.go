// Package vh: shared helpers for the correspondence drivers (PRNG, Coq term emitters, sharding).
package vh

import (
	"bufio"
	"encoding/json"
	"flag"
	"fmt"
	"math/big"
	"os"
	"path/filepath"
	"sort"
	"strings"
)

// Rng is splitmix64; every random choice of a driver derives from one seed.
type Rng struct{ s uint64 }

func NewRng(seed uint64) *Rng { return &Rng{s: seed} }
func (r *Rng) U64() uint64 {
	r.s += 0x9e3779b97f4a7c15
	z := r.s
	z = (z ^ (z >> 30)) * 0xbf58476d1ce4e5b9
	z = (z ^ (z >> 27)) * 0x94d049bb133111eb
	return z ^ (z >> 31)
}
func (r *Rng) Intn(n int) int {
	if n <= 0 {
		return 0
	}
	return int(r.U64() % uint64(n))
}
func (r *Rng) Bool() bool           { return r.U64()&1 == 1 }
func (r *Rng) Chance(p, q int) bool { return r.Intn(q) < p }
func (r *Rng) Bytes(n int) []byte {
	b := make([]byte, n)
	for i := range b {
		b[i] = byte(r.U64())
	}
	return b
}
func (r *Rng) Fork() *Rng { return NewRng(r.U64()) }

// Coq term emitters (N scope).
func N(v uint64) string { return fmt.Sprintf("%d", v) }
// BigN prints a natural number for N scope: decimal below 2^16, hexadecimal numeral above.
func BigN(v *big.Int) string {
	if v.BitLen() <= 16 {
		return v.String()
	}
	return "0x" + v.Text(16)
}

func Bool(b bool) string {
	if b {
		return "true"
	}
	return "false"
}
func Bytes(b []byte) string {
	var sb strings.Builder
	sb.WriteByte('[')
	for i, x := range b {
		if i > 0 {
			sb.WriteByte(';')
		}
		fmt.Fprintf(&sb, "%d", x)
	}
	sb.WriteByte(']')
	return sb.String()
}
func Str(s string) string { return Bytes([]byte(s)) }
func List(items []string) string {
	return "[" + strings.Join(items, "; ") + "]"
}
func Pair(a, b string) string { return "(" + a + ", " + b + ")" }
func Opt(s *string) string {
	if s == nil {
		return "None"
	}
	return "(Some " + *s + ")"
}

// Case is what a driver produces per case: the Coq term for the case and a JSON-able description
// (the replayable input), plus classification tags for the input-distribution report.
type Case struct {
	Coq  string      `json:"-"`
	Desc interface{} `json:"desc"`
	Tags []string    `json:"tags,omitempty"`
	Key  string      `json:"-"` // fingerprint for distinct counting (default: Coq text)
	Defs []Def       `json:"-"` // optional: named sub-terms the Coq text refers to (see Def)
}

// Def is a named sub-term shared between cases of one stream ("Definition Name : Type := Body.").
// Emit writes, in every shard, each Def referenced by that shard's cases once (first-use order, so a
// Def may refer to Defs listed before it) in front of the header's final "Definition cases" line.
// Big case files are dominated by parsing; sharing repeated sub-terms keeps them small.
type Def struct{ Name, Type, Body string }

// Config from flags.
type Config struct {
	Seed   uint64
	Tier   string
	Out    string
	Replay string
	Corpus string
	Shard  int
}

func ParseFlags() Config {
	var c Config
	flag.Uint64Var(&c.Seed, "seed", 1, "seed")
	flag.StringVar(&c.Tier, "tier", "quick", "quick|thorough")
	flag.StringVar(&c.Out, "out", "", "output directory")
	flag.StringVar(&c.Replay, "replay", "", "replay file (JSON with field desc)")
	flag.StringVar(&c.Corpus, "corpus", "", "directory of stored cases (*.json with field desc), run first as stream 'corpus'")
	flag.IntVar(&c.Shard, "shard", 250, "cases per Coq file")
	flag.Parse()
	if c.Out == "" {
		fmt.Fprintln(os.Stderr, "missing -out")
		os.Exit(2)
	}
	os.MkdirAll(c.Out, 0o755)
	return c
}

func (c Config) Thorough() bool { return c.Tier == "thorough" }

// Emit writes cases into shards cases_K.v using header/footer templates and meta.json.
// header must end with "Definition cases := [" style opening; items are joined with ";".
func Emit(c Config, stream string, header, footer string, cases []Case, extra map[string]interface{}) {
	nsh := 0
	tagCount := map[string]int{}
	distinct := map[string]bool{}
	jl, _ := os.Create(filepath.Join(c.Out, stream+".cases.jsonl"))
	jw := bufio.NewWriter(jl)
	for i := 0; i < len(cases); i += c.Shard {
		j := i + c.Shard
		if j > len(cases) {
			j = len(cases)
		}
		f, err := os.Create(filepath.Join(c.Out, fmt.Sprintf("%s_%d.v", stream, nsh)))
		if err != nil {
			panic(err)
		}
		w := bufio.NewWriter(f)
		hd, open := header, ""
		if p := strings.LastIndex(header, "Definition cases"); p >= 0 {
			hd, open = header[:p], header[p:]
		}
		w.WriteString(hd)
		written := map[string]bool{}
		for k := i; k < j; k++ {
			for _, d := range cases[k].Defs {
				if !written[d.Name] {
					written[d.Name] = true
					fmt.Fprintf(w, "Definition %s : %s := %s.\n", d.Name, d.Type, d.Body)
				}
			}
		}
		w.WriteString(open)
		for k := i; k < j; k++ {
			if k > i {
				w.WriteString(";\n")
			}
			w.WriteString(cases[k].Coq)
		}
		w.WriteString(footer)
		w.Flush()
		f.Close()
		nsh++
	}
	for _, cs := range cases {
		for _, t := range cs.Tags {
			tagCount[t]++
		}
		k := cs.Key
		if k == "" {
			k = cs.Coq
		}
		distinct[k] = true
		b, _ := json.Marshal(cs)
		jw.Write(b)
		jw.WriteByte('\n')
	}
	jw.Flush()
	jl.Close()
	keys := make([]string, 0, len(tagCount))
	for k := range tagCount {
		keys = append(keys, k)
	}
	sort.Strings(keys)
	meta := map[string]interface{}{
		"stream": stream, "cases": len(cases), "shards": nsh, "shard_size": c.Shard,
		"distinct": len(distinct), "tags": tagCount, "seed": c.Seed, "tier": c.Tier,
	}
	for k, v := range extra {
		meta[k] = v
	}
	b, _ := json.MarshalIndent(meta, "", " ")
	os.WriteFile(filepath.Join(c.Out, stream+".meta.json"), b, 0o644)
}

// LoadReplay reads the "desc" field of a replay file into v.
func LoadReplay(path string, v interface{}) error {
	b, err := os.ReadFile(path)
	if err != nil {
		return err
	}
	var wrap struct {
		Desc json.RawMessage `json:"desc"`
	}
	if err := json.Unmarshal(b, &wrap); err != nil {
		return err
	}
	return json.Unmarshal(wrap.Desc, v)
}

// CorpusFiles lists the *.json files of the corpus directory (sorted); empty when none.
func CorpusFiles(c Config) []string {
	if c.Corpus == "" {
		return nil
	}
	m, _ := filepath.Glob(filepath.Join(c.Corpus, "*.json"))
	sort.Strings(m)
	return m
}
