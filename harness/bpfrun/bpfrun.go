// Package bpfrun: shared execution infrastructure for the eBPF programs of /repo/bpf
// (see /verif/docs/BPF.md).
//
//   - LoadObject: parse an object produced by bin/setup-bpf (clang -target bpf + shim headers) with
//     cilium/ebpf, create its maps and load its programs into the running kernel (the in-kernel
//     verifier must accept them), hand out *ebpf.Map objects for injection into the real Go
//     managers, raw byte access to maps, and BPF_PROG_TEST_RUN (RunXDP / RunTC).
//   - Native: driver for the x86-64 build of the same C source (cbpf/native/runner.c): scripted
//     bpf_ktime_get_ns, frames shorter than 14 bytes, guard pages, ASan/UBSan variant.
//
// When the kernel refuses bpf() LoadObject returns an *Object with KernelBPF == false (Spec is still
// parsed, so declared key/value sizes are available); drivers then skip their kernel streams and
// write kernel_bpf:false into the stream meta, which the check copies into evidence.
package bpfrun

import (
	"bufio"
	"bytes"
	"encoding/hex"
	"errors"
	"fmt"
	"io"
	"os"
	"os/exec"
	"path/filepath"
	"sort"
	"strconv"
	"strings"
	"syscall"

	"github.com/cilium/ebpf"
)

// Verdicts.
const (
	XDPAborted  = 0
	XDPDrop     = 1
	XDPPass     = 2
	XDPTx       = 3
	XDPRedirect = 4

	TCActUnspec = 0xffffffff // -1
	TCActOK     = 0
	TCActShot   = 2
)

// Dir returns the directory holding the compiled objects and native runners: $VERIF_BPF_DIR when set
// (checks export what bin/setup-bpf printed), else the result of running bin/setup-bpf.
func Dir() (string, error) {
	if d := os.Getenv("VERIF_BPF_DIR"); d != "" {
		return d, nil
	}
	root := os.Getenv("VERIF_ROOT")
	if root == "" {
		root = "/verif"
	}
	out, err := exec.Command(filepath.Join(root, "bin", "setup-bpf")).Output()
	if err != nil {
		return "", fmt.Errorf("bin/setup-bpf: %w", err)
	}
	lines := strings.Split(strings.TrimSpace(string(out)), "\n")
	return lines[len(lines)-1], nil
}

// KV is one raw map entry.
type KV struct{ Key, Value []byte }

// Object is one compiled eBPF object, loaded into the kernel when possible.
type Object struct {
	Path       string
	Spec       *ebpf.CollectionSpec
	Coll       *ebpf.Collection
	KernelBPF  bool   // bpf() usable and the collection is loaded
	VerifierOK bool   // every program passed the in-kernel verifier
	LoadErr    string // why KernelBPF / VerifierOK is false
}

// LoadObject parses path and loads it. The error is non-nil only when the ELF cannot be parsed;
// a kernel refusal is reported through the flags.
func LoadObject(path string) (*Object, error) {
	spec, err := ebpf.LoadCollectionSpec(path)
	if err != nil {
		return nil, fmt.Errorf("parse %s: %w", path, err)
	}
	o := &Object{Path: path, Spec: spec}
	// Shrink very large hash maps: preallocation of 1e6-entry maps costs ~100 MB each and the
	// correspondence runs use a handful of entries. Key/value sizes and types are untouched.
	for _, ms := range spec.Maps {
		if ms.MaxEntries > 65536 {
			ms.MaxEntries = 65536
		}
	}
	coll, err := ebpf.NewCollectionWithOptions(spec, ebpf.CollectionOptions{
		Programs: ebpf.ProgramOptions{LogLevel: 0},
	})
	if err != nil {
		o.LoadErr = err.Error()
		var ve *ebpf.VerifierError
		if errors.As(err, &ve) {
			o.KernelBPF = true // bpf() works, the verifier said no
			o.LoadErr = "verifier: " + firstLines(fmt.Sprintf("%+v", ve), 12)
		}
		return o, nil
	}
	o.Coll, o.KernelBPF, o.VerifierOK = coll, true, true
	return o, nil
}

func firstLines(s string, n int) string {
	l := strings.Split(s, "\n")
	if len(l) > n {
		l = append(l[:n/2], l[len(l)-n/2:]...)
	}
	return strings.Join(l, " | ")
}

// Close releases kernel resources.
func (o *Object) Close() {
	if o.Coll != nil {
		o.Coll.Close()
	}
}

// Map returns the kernel map by its C name (nil when absent or not loaded).
func (o *Object) Map(name string) *ebpf.Map {
	if o.Coll == nil {
		return nil
	}
	return o.Coll.Maps[name]
}

// Sizes returns the declared key and value size of a map (from BTF / ELF, no kernel needed).
func (o *Object) Sizes(name string) (key, value uint32, ok bool) {
	ms := o.Spec.Maps[name]
	if ms == nil {
		return 0, 0, false
	}
	return ms.KeySize, ms.ValueSize, true
}

// Put writes raw bytes (lengths must equal the declared sizes).
func (o *Object) Put(name string, key, value []byte) error {
	m := o.Map(name)
	if m == nil {
		return fmt.Errorf("map %s not loaded", name)
	}
	return m.Put(key, value)
}

// Lookup reads raw bytes; found == false when the key is absent. For per-CPU maps the values of all
// possible CPUs are concatenated.
func (o *Object) Lookup(name string, key []byte) (value []byte, found bool, err error) {
	m := o.Map(name)
	if m == nil {
		return nil, false, fmt.Errorf("map %s not loaded", name)
	}
	if isPerCPU(m.Type()) {
		var per [][]byte
		if err := m.Lookup(key, &per); err != nil {
			if errors.Is(err, ebpf.ErrKeyNotExist) {
				return nil, false, nil
			}
			return nil, false, err
		}
		return bytes.Join(per, nil), true, nil
	}
	v, err := m.LookupBytes(key)
	if err != nil {
		return nil, false, err
	}
	return v, v != nil, nil
}

func isPerCPU(t ebpf.MapType) bool {
	return t == ebpf.PerCPUArray || t == ebpf.PerCPUHash || t == ebpf.LRUCPUHash
}

// Delete removes a key; absent keys are not an error.
func (o *Object) Delete(name string, key []byte) error {
	m := o.Map(name)
	if m == nil {
		return fmt.Errorf("map %s not loaded", name)
	}
	err := m.Delete(key)
	if errors.Is(err, ebpf.ErrKeyNotExist) {
		return nil
	}
	return err
}

// Dump returns every entry of a (non per-CPU) map as raw bytes, sorted by key bytes.
func (o *Object) Dump(name string) ([]KV, error) {
	m := o.Map(name)
	if m == nil {
		return nil, fmt.Errorf("map %s not loaded", name)
	}
	var out []KV
	var k, v []byte
	it := m.Iterate()
	for it.Next(&k, &v) {
		out = append(out, KV{append([]byte(nil), k...), append([]byte(nil), v...)})
	}
	if err := it.Err(); err != nil {
		return nil, err
	}
	sort.Slice(out, func(i, j int) bool { return bytes.Compare(out[i].Key, out[j].Key) < 0 })
	return out, nil
}

// Clear deletes every entry of a hash-like map.
func (o *Object) Clear(name string) error {
	kvs, err := o.Dump(name)
	if err != nil {
		return err
	}
	for _, kv := range kvs {
		if err := o.Delete(name, kv.Key); err != nil {
			return err
		}
	}
	return nil
}

// RunXDP executes an XDP program on frame (>= 14 bytes: kernel rule) with BPF_PROG_TEST_RUN.
func (o *Object) RunXDP(prog string, frame []byte) (verdict uint32, out []byte, err error) {
	p := o.prog(prog)
	if p == nil {
		return 0, nil, fmt.Errorf("program %s not loaded", prog)
	}
	buf := make([]byte, len(frame)+4096)
	opts := &ebpf.RunOptions{Data: frame, DataOut: buf}
	ret, err := p.Run(opts)
	if err != nil {
		return 0, nil, err
	}
	return ret, opts.DataOut, nil
}

// Skb is the part of struct __sk_buff that BPF_PROG_TEST_RUN accepts and returns for TC programs.
// (The kernel rejects a context with any other field non-zero.)
type Skb struct {
	Len            uint32
	PktType        uint32
	Mark           uint32
	QueueMapping   uint32
	Protocol       uint32
	VlanPresent    uint32
	VlanTci        uint32
	VlanProto      uint32
	Priority       uint32
	IngressIfindex uint32
	Ifindex        uint32
	TcIndex        uint32
	Cb             [5]uint32
	Hash           uint32
	TcClassid      uint32
	Data           uint32
	DataEnd        uint32
	NapiID         uint32
	Family         uint32
	RemoteIP4      uint32
	LocalIP4       uint32
	RemoteIP6      [4]uint32
	LocalIP6       [4]uint32
	RemotePort     uint32
	LocalPort      uint32
	DataMeta       uint32
	FlowKeys       uint64
	Tstamp         uint64
	WireLen        uint32
	GsoSegs        uint32
	Sk             uint64
	GsoSize        uint32
	TstampType     uint8
	_              [3]byte
	Hwtstamp       uint64
}

// ErrFrameRefused: BPF_PROG_TEST_RUN answered EINVAL for this frame. Kernel 6.18 refuses, for skb
// programs, frames shorter than 14 bytes and frames whose ethertype is IPv4 / IPv6 but which do not hold
// a complete IP header (< 34 / < 54 bytes). Use the native runner for those.
var ErrFrameRefused = errors.New("kernel test-run refuses this frame (EINVAL)")

// RunTC executes a TC (SchedCLS) program on frame (>= 14 bytes). in may be nil; only Mark and
// Priority are taken from it (the other fields are set by the kernel from the frame). The returned
// Skb carries the program's skb->priority / mark writes.
func (o *Object) RunTC(prog string, frame []byte, in *Skb) (verdict uint32, out []byte, ctx Skb, err error) {
	p := o.prog(prog)
	if p == nil {
		return 0, nil, ctx, fmt.Errorf("program %s not loaded", prog)
	}
	var cin Skb
	if in != nil {
		cin.Mark, cin.Priority = in.Mark, in.Priority
	}
	buf := make([]byte, len(frame)+4096)
	opts := &ebpf.RunOptions{Data: frame, DataOut: buf, Context: cin, ContextOut: &ctx}
	ret, err := p.Run(opts)
	if err != nil {
		// older kernels: no ctx support for this program type; retry without
		opts = &ebpf.RunOptions{Data: frame, DataOut: buf}
		ret, err = p.Run(opts)
		if err != nil {
			if errors.Is(err, syscall.EINVAL) {
				return 0, nil, ctx, ErrFrameRefused
			}
			return 0, nil, ctx, err
		}
	}
	return ret, opts.DataOut, ctx, nil
}

func (o *Object) prog(name string) *ebpf.Program {
	if o.Coll == nil {
		return nil
	}
	return o.Coll.Programs[name]
}

// ------------------------------------------------------------------------------ native runner

// Native drives one cbpf/native runner process.
type Native struct {
	Path string
	cmd  *exec.Cmd
	in   *bufio.Writer
	out  *bufio.Reader
	wc   io.WriteCloser
	errb bytes.Buffer
}

// StartNative starts <dir>/<name>.native (or .native-asan when asan is true).
func StartNative(dir, name string, asan bool) (*Native, error) {
	p := filepath.Join(dir, name+".native")
	if asan {
		p += "-asan"
	}
	if _, err := os.Stat(p); err != nil {
		return nil, err
	}
	cmd := exec.Command(p)
	// our SIGSEGV handler must see guard-page faults; leak checking is pointless for a runner
	cmd.Env = append(os.Environ(), "ASAN_OPTIONS=handle_segv=0:handle_sigbus=0:detect_leaks=0:abort_on_error=1", "UBSAN_OPTIONS=halt_on_error=1:print_stacktrace=1")
	n := &Native{Path: p, cmd: cmd}
	cmd.Stderr = &n.errb
	wc, err := cmd.StdinPipe()
	if err != nil {
		return nil, err
	}
	rc, err := cmd.StdoutPipe()
	if err != nil {
		return nil, err
	}
	if err := cmd.Start(); err != nil {
		return nil, err
	}
	n.wc, n.in, n.out = wc, bufio.NewWriterSize(wc, 1<<16), bufio.NewReaderSize(rc, 1<<20)
	return n, nil
}

// Close terminates the runner.
func (n *Native) Close() {
	if n == nil || n.cmd == nil {
		return
	}
	n.in.WriteString("quit\n")
	n.in.Flush()
	n.wc.Close()
	n.cmd.Wait()
}

// Stderr returns what the runner wrote to stderr (sanitizer reports, aborts).
func (n *Native) Stderr() string { return n.errb.String() }

// Cmd sends one command line and returns the reply line (without newline).
func (n *Native) Cmd(line string) (string, error) {
	if _, err := n.in.WriteString(line + "\n"); err != nil {
		return "", err
	}
	if err := n.in.Flush(); err != nil {
		return "", err
	}
	r, err := n.out.ReadString('\n')
	if err != nil {
		n.cmd.Wait()
		return "", fmt.Errorf("native runner died (%v): %s", err, tail(n.errb.String(), 2000))
	}
	return strings.TrimRight(r, "\n"), nil
}

func tail(s string, n int) string {
	if len(s) > n {
		return s[len(s)-n:]
	}
	return s
}

func hx(b []byte) string {
	if len(b) == 0 {
		return "-"
	}
	return hex.EncodeToString(b)
}

func unhx(s string) []byte {
	if s == "-" {
		return nil
	}
	b, _ := hex.DecodeString(s)
	return b
}

func (n *Native) expectOK(line string) error {
	r, err := n.Cmd(line)
	if err != nil {
		return err
	}
	if !strings.HasPrefix(r, "ok") {
		return fmt.Errorf("native %q: %s", strings.SplitN(line, " ", 2)[0], r)
	}
	return nil
}

// Put / Get / Del / Clear / Dump: raw map access inside the runner.
func (n *Native) Put(m string, k, v []byte) error {
	return n.expectOK("put " + m + " " + hx(k) + " " + hx(v))
}
func (n *Native) Del(m string, k []byte) error {
	_, err := n.Cmd("del " + m + " " + hx(k))
	return err
}
func (n *Native) Clear(m string) error { return n.expectOK("clear " + m) }
func (n *Native) Get(m string, k []byte) ([]byte, bool, error) {
	r, err := n.Cmd("get " + m + " " + hx(k))
	if err != nil {
		return nil, false, err
	}
	if r == "none" {
		return nil, false, nil
	}
	if !strings.HasPrefix(r, "ok ") {
		return nil, false, fmt.Errorf("native get: %s", r)
	}
	return unhx(r[3:]), true, nil
}
func (n *Native) Dump(m string) ([]KV, error) {
	r, err := n.Cmd("dump " + m)
	if err != nil {
		return nil, err
	}
	if !strings.HasPrefix(r, "ok") {
		return nil, fmt.Errorf("native dump: %s", r)
	}
	var out []KV
	for _, f := range strings.Fields(r)[1:] {
		kv := strings.SplitN(f, "=", 2)
		out = append(out, KV{unhx(kv[0]), unhx(kv[1])})
	}
	return out, nil
}

// Clock sets the scripted bpf_ktime_get_ns: the next call returns now, every call then adds step.
func (n *Native) Clock(now, step uint64) error {
	return n.expectOK(fmt.Sprintf("clock %d %d", now, step))
}

// RunOpts are the optional knobs of a native run.
type RunOpts struct {
	SkbLen     uint32 // TC: skb->len when it differs from the linear frame length (0 = frame length)
	GuardStart bool   // place the frame start (instead of its end) flush against a PROT_NONE page
	Ifindex    uint32
	Priority   uint32
	Mark       uint32
}

func (o *RunOpts) str() string {
	if o == nil {
		return ""
	}
	s := ""
	if o.SkbLen != 0 {
		s += fmt.Sprintf(" len=%d", o.SkbLen)
	}
	if o.GuardStart {
		s += " guard=start"
	}
	if o.Ifindex != 0 {
		s += fmt.Sprintf(" ifindex=%d", o.Ifindex)
	}
	if o.Priority != 0 {
		s += fmt.Sprintf(" prio=%d", o.Priority)
	}
	if o.Mark != 0 {
		s += fmt.Sprintf(" mark=%d", o.Mark)
	}
	return s
}

// Result of one native run.
type Result struct {
	Fault      bool // the program touched memory outside the frame (guard page hit)
	FaultInfo  string
	Verdict    int32
	Data       []byte // frame after the run
	Priority   uint32
	Mark       uint32
	Now        uint64 // scripted clock after the run
	KtimeCalls int
	Events     int
}

// Run executes prog (XDP or TC) on frame; any length >= 0.
func (n *Native) Run(prog string, frame []byte, o *RunOpts) (Result, error) {
	var res Result
	r, err := n.Cmd("run " + prog + " " + hx(frame) + o.str())
	if err != nil {
		return res, err
	}
	if strings.HasPrefix(r, "fault") {
		res.Fault, res.FaultInfo = true, r
		return res, nil
	}
	if !strings.HasPrefix(r, "ok ") {
		return res, fmt.Errorf("native run: %s", r)
	}
	for _, f := range strings.Fields(r)[1:] {
		kv := strings.SplitN(f, "=", 2)
		if len(kv) != 2 {
			continue
		}
		switch kv[0] {
		case "ret":
			v, _ := strconv.ParseInt(kv[1], 10, 64)
			res.Verdict = int32(v)
		case "data":
			res.Data = unhx(kv[1])
		case "prio":
			v, _ := strconv.ParseUint(kv[1], 10, 32)
			res.Priority = uint32(v)
		case "mark":
			v, _ := strconv.ParseUint(kv[1], 10, 32)
			res.Mark = uint32(v)
		case "now":
			res.Now, _ = strconv.ParseUint(kv[1], 10, 64)
		case "ktime_calls":
			res.KtimeCalls, _ = strconv.Atoi(kv[1])
		case "events":
			res.Events, _ = strconv.Atoi(kv[1])
		}
	}
	return res, nil
}

// Run-length encoded verdicts of RunSeq.
type RLE struct {
	Verdict int32
	Count   uint64
}

// RunSeq executes prog count times on the same frame with the clock set to start + i*gap (mod 2^64)
// before run i. Returns the verdicts run-length encoded and the number of faults.
func (n *Native) RunSeq(prog string, frame []byte, count, start, gap uint64, o *RunOpts) ([]RLE, int, error) {
	r, err := n.Cmd(fmt.Sprintf("runseq %s %s n=%d start=%d gap=%d%s", prog, hx(frame), count, start, gap, o.str()))
	if err != nil {
		return nil, 0, err
	}
	if !strings.HasPrefix(r, "ok ") {
		return nil, 0, fmt.Errorf("native runseq: %s", r)
	}
	var out []RLE
	faults := 0
	for _, f := range strings.Fields(r)[1:] {
		kv := strings.SplitN(f, "=", 2)
		switch kv[0] {
		case "rle":
			if kv[1] == "" {
				continue
			}
			for _, it := range strings.Split(kv[1], ",") {
				p := strings.SplitN(it, "x", 2)
				v, _ := strconv.ParseInt(p[0], 10, 64)
				c, _ := strconv.ParseUint(p[1], 10, 64)
				out = append(out, RLE{int32(v), c})
			}
		case "faults":
			faults, _ = strconv.Atoi(kv[1])
		}
	}
	return out, faults, nil
}

// Events drains the perf-event / ringbuf sink: "map:hexbytes" per record.
func (n *Native) Events() ([]string, error) {
	r, err := n.Cmd("events")
	if err != nil {
		return nil, err
	}
	return strings.Fields(r)[1:], nil
}

// MapsInfo returns "name:type:keysize:valuesize:max" for every map the runner knows.
func (n *Native) MapsInfo() ([]string, error) {
	r, err := n.Cmd("maps")
	if err != nil {
		return nil, err
	}
	return strings.Fields(r)[1:], nil
}
