// bpfsmoke: self-test of harness/bpfrun — loads every object of bin/setup-bpf into the kernel,
// reports verifier acceptance and map geometry, test-runs one frame per program, and runs the same
// frame in the native runner. Usage: bpfsmoke [-dir DIR]
package main

import (
	"encoding/json"
	"flag"
	"fmt"
	"os"
	"path/filepath"
	"sort"
	"strings"

	"github.com/cilium/ebpf"
	"verifharness/bpfrun"
)

func main() {
	dir := flag.String("dir", "", "object directory (default: bin/setup-bpf)")
	flag.Parse()
	d := *dir
	if d == "" {
		var err error
		if d, err = bpfrun.Dir(); err != nil {
			fmt.Fprintln(os.Stderr, err)
			os.Exit(2)
		}
	}
	objs, _ := filepath.Glob(filepath.Join(d, "*.o"))
	sort.Strings(objs)
	rep := map[string]interface{}{}
	frame := make([]byte, 64)
	frame[12], frame[13] = 0x08, 0x00
	frame[14] = 0x45
	bad := false
	for _, p := range objs {
		name := strings.TrimSuffix(filepath.Base(p), ".o")
		o, err := bpfrun.LoadObject(p)
		if err != nil {
			rep[name] = err.Error()
			bad = true
			continue
		}
		r := map[string]interface{}{"kernel_bpf": o.KernelBPF, "verifier_ok": o.VerifierOK, "load_err": o.LoadErr}
		maps := map[string]string{}
		for n, ms := range o.Spec.Maps {
			maps[n] = fmt.Sprintf("%s key=%d value=%d", ms.Type, ms.KeySize, ms.ValueSize)
		}
		r["maps"] = maps
		runs := map[string]string{}
		nat, nerr := bpfrun.StartNative(d, name, false)
		for pn, ps := range o.Spec.Programs {
			s := ""
			if o.Coll != nil {
				if ps.Type == ebpf.XDP {
					v, out, err := o.RunXDP(pn, frame)
					s = fmt.Sprintf("kernel ret=%d len=%d err=%v", v, len(out), err)
				} else {
					v, out, ctx, err := o.RunTC(pn, frame, nil)
					s = fmt.Sprintf("kernel ret=%d len=%d prio=%d err=%v", v, len(out), ctx.Priority, err)
				}
			}
			if nerr == nil {
				res, err := nat.Run(pn, frame, nil)
				s += fmt.Sprintf(" | native ret=%d len=%d fault=%v err=%v", res.Verdict, len(res.Data), res.Fault, err)
				res, err = nat.Run(pn, frame[:5], nil)
				s += fmt.Sprintf(" | native(5 bytes) ret=%d fault=%v err=%v", res.Verdict, res.Fault, err)
			} else {
				s += " | native: " + nerr.Error()
			}
			runs[pn] = s
		}
		nat.Close()
		r["runs"] = runs
		rep[name] = r
		if !o.VerifierOK {
			bad = true
		}
		o.Close()
	}
	b, _ := json.MarshalIndent(rep, "", " ")
	fmt.Println(string(b))
	if bad {
		os.Exit(1)
	}
}
