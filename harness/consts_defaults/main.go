//go:build verif

// consts_defaults — second half of the constants translator (DESIGN §4.1, docs/HOWTO.md §6).
//
// gen_consts reads only declarations; default values that live in the composite literal returned
// by a Default*Config constructor are MEASURED here: this program is built against the repository
// working tree (like every correspondence driver: harness module, `replace … => <repo>`, -tags
// verif), calls the real exported constructors and prints the integer / time.Duration / bool
// fields of what they return as Coq definitions of type Z
//
//	dflt_<pkg>_<Func>_<Field>[_<SubField>…]      (bool: 0/1, Duration: nanoseconds, slices: _len and _<i>_…)
//
// Every constructor is called twice; a field whose value differs between the two calls (random
// interface identifiers, timestamps) is left out and reported in the side-car.
//
//	consts_defaults -out <fragment.v> [-json <side.json>]
package main

import (
	"encoding/json"
	"flag"
	"fmt"
	"os"
	"reflect"
	"sort"
	"strings"
	"time"

	"github.com/codelaboratoryltd/bng/pkg/ha"
	"github.com/codelaboratoryltd/bng/pkg/nexus"
	"github.com/codelaboratoryltd/bng/pkg/pppoe"
	"github.com/codelaboratoryltd/bng/pkg/qinq"
	"github.com/codelaboratoryltd/bng/pkg/radius"
	"github.com/codelaboratoryltd/bng/pkg/state"
	"github.com/codelaboratoryltd/bng/pkg/subscriber"
	"github.com/codelaboratoryltd/bng/pkg/walledgarden"
	"github.com/codelaboratoryltd/bng/pkg/ztp"
)

type ctor struct {
	pkg, fn, src string
	call         func() any
}

func first[T any](v T, _ error) any { return v }

// The constructors of the packages the Models cover (grep '^func Default' pkg/<covered>).
var ctors = []ctor{
	{"ha", "DefaultFailoverConfig", "pkg/ha/failover.go", func() any { return ha.DefaultFailoverConfig() }},
	{"ha", "DefaultHealthConfig", "pkg/ha/health_monitor.go", func() any { return ha.DefaultHealthConfig() }},
	{"ha", "DefaultSyncConfig", "pkg/ha/sync.go", func() any { return ha.DefaultSyncConfig() }},
	{"nexus", "DefaultCLSetConfig", "pkg/nexus/clset.go", func() any { return nexus.DefaultCLSetConfig() }},
	{"nexus", "DefaultClientConfig", "pkg/nexus/client.go", func() any { return nexus.DefaultClientConfig() }},
	{"nexus", "DefaultDistributedConfig", "pkg/nexus/clset_store.go", func() any { return nexus.DefaultDistributedConfig() }},
	{"nexus", "DefaultVLANConfig", "pkg/nexus/vlan.go", func() any { return nexus.DefaultVLANConfig() }},
	{"pppoe", "DefaultAuthConfig", "pkg/pppoe/auth.go", func() any { return pppoe.DefaultAuthConfig() }},
	{"pppoe", "DefaultIPCPConfig", "pkg/pppoe/ipcp.go", func() any { return pppoe.DefaultIPCPConfig() }},
	{"pppoe", "DefaultIPV6CPConfig", "pkg/pppoe/ipv6cp.go", func() any { return first(pppoe.DefaultIPV6CPConfig()) }},
	{"pppoe", "DefaultKeepAliveConfig", "pkg/pppoe/keepalive.go", func() any { return pppoe.DefaultKeepAliveConfig() }},
	{"pppoe", "DefaultLCPConfig", "pkg/pppoe/lcp.go", func() any { return pppoe.DefaultLCPConfig() }},
	{"pppoe", "DefaultTeardownConfig", "pkg/pppoe/teardown.go", func() any { return pppoe.DefaultTeardownConfig() }},
	{"qinq", "DefaultConfig", "pkg/qinq/qinq.go", func() any { return qinq.DefaultConfig() }},
	{"radius", "DefaultAccountingConfig", "pkg/radius/accounting.go", func() any { return radius.DefaultAccountingConfig() }},
	{"radius", "DefaultCoAProcessorConfig", "pkg/radius/coa_handler.go", func() any { return radius.DefaultCoAProcessorConfig() }},
	{"radius", "DefaultPolicies", "pkg/radius/policy.go", func() any { return radius.DefaultPolicies() }},
	{"state", "DefaultConfig", "pkg/state/store.go", func() any { return state.DefaultConfig() }},
	{"subscriber", "DefaultManagerConfig", "pkg/subscriber/types.go", func() any { return subscriber.DefaultManagerConfig() }},
	{"walledgarden", "DefaultConfig", "pkg/walledgarden/manager.go", func() any { return walledgarden.DefaultConfig() }},
	{"ztp", "DefaultTLSConfig", "pkg/ztp/tls.go", func() any { return ztp.DefaultTLSConfig() }},
}

var durationType = reflect.TypeOf(time.Duration(0))

// walk collects name -> (value, type) of every integer-like leaf reachable from v.
func walk(prefix string, v reflect.Value, depth int, out map[string][2]string) {
	if depth > 6 || !v.IsValid() {
		return
	}
	switch v.Kind() {
	case reflect.Bool:
		if v.Bool() {
			out[prefix] = [2]string{"1", "bool"}
		} else {
			out[prefix] = [2]string{"0", "bool"}
		}
	case reflect.Int, reflect.Int8, reflect.Int16, reflect.Int32, reflect.Int64:
		out[prefix] = [2]string{fmt.Sprint(v.Int()), v.Type().String()}
	case reflect.Uint, reflect.Uint8, reflect.Uint16, reflect.Uint32, reflect.Uint64, reflect.Uintptr:
		out[prefix] = [2]string{fmt.Sprint(v.Uint()), v.Type().String()}
	case reflect.Pointer, reflect.Interface:
		if !v.IsNil() {
			walk(prefix, v.Elem(), depth+1, out)
		}
	case reflect.Struct:
		t := v.Type()
		for i := 0; i < t.NumField(); i++ {
			walk(prefix+"_"+t.Field(i).Name, v.Field(i), depth+1, out)
		}
	case reflect.Slice, reflect.Array:
		if v.Kind() == reflect.Slice && v.Type().Elem().Kind() == reflect.Uint8 {
			out[prefix+"_len"] = [2]string{fmt.Sprint(v.Len()), "len([]byte)"}
			return
		}
		out[prefix+"_len"] = [2]string{fmt.Sprint(v.Len()), "len"}
		for i := 0; i < v.Len() && i < 32; i++ {
			walk(fmt.Sprintf("%s_%d", prefix, i), v.Index(i), depth+1, out)
		}
	}
}

type entry struct {
	Name  string `json:"name"`
	Value string `json:"value"`
	Kind  string `json:"kind"`
	Type  string `json:"type"`
	Src   string `json:"src"`
}

func main() {
	out := flag.String("out", "", "Coq fragment to write (appended to the regenerated Consts.v)")
	js := flag.String("json", "", "side-car JSON")
	flag.Parse()
	var entries []entry
	var skipped []map[string]string
	for _, c := range ctors {
		run := func() (m map[string][2]string, err any) {
			defer func() { err = recover() }()
			m = map[string][2]string{}
			walk("dflt_"+c.pkg+"_"+c.fn, reflect.ValueOf(c.call()), 0, m)
			return m, nil
		}
		a, e1 := run()
		b, e2 := run()
		if e1 != nil || e2 != nil {
			skipped = append(skipped, map[string]string{"name": "dflt_" + c.pkg + "_" + c.fn + "_*", "why": fmt.Sprint("constructor panicked: ", e1, e2)})
			continue
		}
		for n, v := range a {
			if b[n] != v {
				skipped = append(skipped, map[string]string{"name": n, "why": "value differs between two calls (random / time dependent)"})
				continue
			}
			entries = append(entries, entry{n, v[0], "default", v[1], c.src + " " + c.fn + "()"})
		}
	}
	sort.Slice(entries, func(i, j int) bool { return entries[i].Name < entries[j].Name })
	sort.Slice(skipped, func(i, j int) bool { return skipped[i]["name"] < skipped[j]["name"] })
	var sb strings.Builder
	sb.WriteString("\n(* ---- defaults measured by harness/consts_defaults: the real Default*Config constructors were called ---- *)\n")
	for _, e := range entries {
		v := e.Value
		if strings.HasPrefix(v, "-") {
			v = "(" + v + ")"
		}
		fmt.Fprintf(&sb, "Definition %s : Z := %s. (* %s %s *)\n", e.Name, v, e.Src, e.Type)
	}
	if *out == "" {
		fmt.Print(sb.String())
	} else if err := os.WriteFile(*out, []byte(sb.String()), 0o644); err != nil {
		fmt.Fprintln(os.Stderr, "consts_defaults:", err)
		os.Exit(1)
	}
	if *js != "" {
		if skipped == nil {
			skipped = []map[string]string{}
		}
		jb, _ := json.MarshalIndent(map[string]any{"defaults": len(entries), "consts": entries, "skipped": skipped}, "", " ")
		if err := os.WriteFile(*js, append(jb, '\n'), 0o644); err != nil {
			fmt.Fprintln(os.Stderr, "consts_defaults:", err)
			os.Exit(1)
		}
	}
	fmt.Fprintf(os.Stderr, "consts_defaults: %d definitions (%d skipped)\n", len(entries), len(skipped))
}
