package main

// Stream "srv6": the pools judged where "live subscriber" is defined - the real dhcpv6.Server (lease
// table + legacy AddressPool + PrefixPool) driven through its message handler, one datagram at a time.
// Model: coq/Model/Srv6Pool.v (the server's handlers composed over the free-list Model of the pools);
// monitor: coq/Model/Srv6PoolSpec.v (the pools' allocated maps / free lists against the holders the
// replies created, after EVERY message).  Hooks used: pkg/dhcpv6/verif_c02_hooks.go (socket setter,
// handler wrapper, snapshot) - read only.

import (
	"encoding/binary"
	"fmt"
	"math/big"
	"net"
	"os"
	"sort"
	"time"

	"verifharness/vh"

	"github.com/codelaboratoryltd/bng/pkg/dhcpv6"
	"go.uber.org/zap"
)

// SOp: K in solicit request renew rebind release decline tick.
type SOp struct {
	K    string `json:"k"`
	C    int    `json:"c,omitempty"`    // client number (DUID)
	NA   bool   `json:"na,omitempty"`   // the message carries an IA_NA
	PD   bool   `json:"pd,omitempty"`   // the message carries an IA_PD
	Flag bool   `json:"flag,omitempty"` // solicit: rapid commit; request: the server-id is ours
	D    int    `json:"d,omitempty"`    // tick: seconds
}

// Srv6Case: configuration of the server (each legacy pool present or not) and the messages.
type Srv6Case struct {
	HasA  bool   `json:"hasa"`
	HasP  bool   `json:"hasp"`
	ABase string `json:"abase"` // address pool network, decimal
	APPL  int    `json:"appl"`
	PBase string `json:"pbase"` // prefix pool network, decimal
	PPPL  int    `json:"pppl"`
	DLen  int    `json:"dlen"`
	Valid int    `json:"valid"`
	Msgs  []SOp  `json:"msgs"`
}

var (
	s6sock *net.UDPConn // the server's socket
	s6recv *net.UDPConn // the "client" socket: the server answers to <source address>:546
	s6peer *net.UDPAddr
)

func srv6Sockets() {
	if s6recv != nil {
		return
	}
	var err error
	for try := 0; try < 40 && s6recv == nil; try++ {
		for i := 1; i < 250; i++ { // C02's driver uses 127.0.2.2; every run of this driver takes its own address
			a := &net.UDPAddr{IP: net.IPv4(127, 0, 5, byte(i)), Port: 546}
			if c, e := net.ListenUDP("udp4", a); e == nil {
				s6recv, s6peer = c, a
				break
			} else {
				err = e
			}
		}
		if s6recv == nil {
			time.Sleep(250 * time.Millisecond)
		}
	}
	if s6recv == nil {
		fmt.Fprintln(os.Stderr, "cannot bind a client socket on 127.0.5.x:546:", err)
		os.Exit(3)
	}
	s6sock, err = net.ListenUDP("udp4", &net.UDPAddr{IP: s6peer.IP, Port: 0})
	if err != nil {
		panic(err)
	}
}

func s6duid(c int) []byte { return []byte{0, 3, 0, 1, 2, 0, 0, 0, byte(c >> 8), byte(c)} }
func s6duidNum(s string) int {
	if len(s) == 10 {
		return int(s[8])<<8 | int(s[9])
	}
	return 999999
}

type s6run struct {
	s            *dhcpv6.Server
	c            *Srv6Case
	abase, pbase *big.Int
	xid          uint16
}

func relTo(base, v *big.Int) string {
	r := new(big.Int).Sub(v, base)
	r.Add(r, big.NewInt(bias))
	if r.Sign() < 0 {
		return "0"
	}
	return r.String()
}

func (v *s6run) aN(ip net.IP) string { return relTo(v.abase, intOfIP(ip, 128)) }

// prefixes are written as their index in the pool (offset / 2^(128-dlen)), biased; a prefix that is not
// aligned to the delegation length is written as 0
func (v *s6run) pN(ip net.IP) string {
	off := new(big.Int).Sub(intOfIP(ip, 128), v.pbase)
	q, m := new(big.Int).QuoRem(off, pow2(128-v.c.DLen), new(big.Int))
	if off.Sign() < 0 || m.Sign() != 0 {
		return "0"
	}
	return q.Add(q, big.NewInt(bias)).String()
}

// Shared sub-terms: snapshots and whole steps repeat across the cases of a shard (small pools, common
// suffix); vh.Emit writes each referenced definition once per shard.
var s6defs = map[string]string{}

func s6def(prefix, typ, body string, defs *[]vh.Def) string {
	name, ok := s6defs[typ+"|"+body]
	if !ok {
		name = fmt.Sprintf("%s%d", prefix, len(s6defs))
		s6defs[typ+"|"+body] = name
	}
	*defs = append(*defs, vh.Def{Name: name, Type: typ, Body: body})
	return name
}

func kvList(m map[int]string) string {
	var ks []int
	for k := range m {
		ks = append(ks, k)
	}
	sort.Ints(ks)
	var it []string
	for _, k := range ks {
		it = append(it, fmt.Sprintf("(%d, %s)", k, m[k]))
	}
	return vh.List(it)
}

func (v *s6run) snapshot() string {
	sn := v.s.VerifC02Snapshot()
	le, aa, pa := map[int]string{}, map[int]string{}, map[int]string{}
	for _, l := range sn.Leases {
		a, p := "0", "0"
		if len(l.Address) > 0 {
			a = "(" + v.aN(l.Address) + " + 1)"
		}
		if l.Prefix != nil {
			p = "(" + v.pN(l.Prefix.IP) + " + 1)"
		}
		le[s6duidNum(l.DUID)] = "(" + a + ", " + p + ")"
	}
	for d, ip := range sn.AddrAllocated {
		aa[s6duidNum(d)] = v.aN(ip)
	}
	for d, n := range sn.PfxAllocated {
		pa[s6duidNum(d)] = v.pN(n.IP)
	}
	var av, pv []string
	for _, ip := range sn.AddrAvailable {
		av = append(av, v.aN(ip))
	}
	for _, n := range sn.PfxAvailable {
		if ones, bits := n.Mask.Size(); ones != v.c.DLen || bits != 128 {
			pv = append(pv, "0")
			continue
		}
		pv = append(pv, v.pN(n.IP))
	}
	return "Build_snap6 " + kvList(le) + " " + kvList(aa) + " " + vh.List(av) + " " + kvList(pa) + " " + vh.List(pv)
}

// decode the reply datagram with the package's own parser
func (v *s6run) decode(o SOp, data []byte) string {
	m, err := dhcpv6.ParseMessage(data)
	if err != nil {
		return "P6Status 900"
	}
	if cid := m.GetOption(dhcpv6.OptClientID); cid == nil || string(cid.Data) != string(s6duid(o.C)) {
		return "P6Status 901"
	}
	na, pd := "XaNone", "XaNone"
	nIA := 0
	for _, op := range m.GetAllOptions(dhcpv6.OptIANA) {
		nIA++
		ia, err := dhcpv6.ParseIANA(op.Data)
		if err != nil {
			return "P6Status 902"
		}
		for _, so := range ia.Options {
			switch so.Code {
			case dhcpv6.OptIAAddr:
				a, err := dhcpv6.ParseIAAddress(so.Data)
				if err != nil || a.ValidLifetime != uint32(v.c.Valid) {
					return "P6Status 903"
				}
				na = "(XaVal " + v.aN(a.Address) + ")"
			case dhcpv6.OptStatusCode:
				if len(so.Data) < 2 {
					return "P6Status 902"
				}
				na = fmt.Sprintf("(XaErr %d)", binary.BigEndian.Uint16(so.Data[:2]))
			}
		}
	}
	for _, op := range m.GetAllOptions(dhcpv6.OptIAPD) {
		nIA++
		ia, err := dhcpv6.ParseIAPD(op.Data)
		if err != nil {
			return "P6Status 904"
		}
		for _, so := range ia.Options {
			switch so.Code {
			case dhcpv6.OptIAPrefix:
				p, err := dhcpv6.ParseIAPrefix(so.Data)
				if err != nil || int(p.PrefixLength) != v.c.DLen || p.ValidLifetime != uint32(v.c.Valid) {
					return "P6Status 905"
				}
				pd = "(XaVal " + v.pN(p.Prefix) + ")"
			case dhcpv6.OptStatusCode:
				if len(so.Data) < 2 {
					return "P6Status 904"
				}
				pd = fmt.Sprintf("(XaErr %d)", binary.BigEndian.Uint16(so.Data[:2]))
			}
		}
	}
	if nIA > 2 {
		return "P6Status 906"
	}
	status := 999
	if st := m.GetOption(dhcpv6.OptStatusCode); st != nil && len(st.Data) >= 2 {
		status = int(binary.BigEndian.Uint16(st.Data[:2]))
	}
	rapid := m.GetOption(dhcpv6.OptRapidCommit) != nil
	switch m.Type {
	case dhcpv6.MsgTypeAdvertise:
		return "P6Adv " + na + " " + pd
	case dhcpv6.MsgTypeReply:
		if status == 0 && (o.K == "solicit" || o.K == "request" || o.K == "renew" || o.K == "rebind") {
			return "P6Reply " + na + " " + pd + " " + vh.Bool(rapid)
		}
		return fmt.Sprintf("P6Status %d", status)
	}
	return "P6Status 907"
}

var s6kinds = map[string]uint8{"solicit": dhcpv6.MsgTypeSolicit, "request": dhcpv6.MsgTypeRequest, "renew": dhcpv6.MsgTypeRenew,
	"rebind": dhcpv6.MsgTypeRebind, "release": dhcpv6.MsgTypeRelease, "decline": dhcpv6.MsgTypeDecline}

func (v *s6run) exec(o SOp) (opT, rep string) {
	if o.K == "tick" {
		v.s.VerifC02AgeLeases(time.Duration(o.D) * time.Second)
		return fmt.Sprintf("MTick %d", o.D), "P6None"
	}
	v.xid++
	m := &dhcpv6.Message{Type: s6kinds[o.K], TransactionID: [3]byte{7, byte(v.xid >> 8), byte(v.xid)}}
	m.Options = append(m.Options, dhcpv6.MakeClientIDOption(s6duid(o.C)))
	switch o.K {
	case "solicit":
		if o.Flag {
			m.Options = append(m.Options, dhcpv6.Option{Code: dhcpv6.OptRapidCommit})
		}
		opT = fmt.Sprintf("MSolicit %d %s %s %s", o.C, vh.Bool(o.Flag), vh.Bool(o.NA), vh.Bool(o.PD))
	case "request":
		sid := v.s.VerifC02ServerDUID()
		if !o.Flag {
			sid = []byte{0, 3, 0, 1, 9, 9, 9, 9, 9, 9}
		}
		m.Options = append(m.Options, dhcpv6.Option{Code: dhcpv6.OptServerID, Data: sid})
		opT = fmt.Sprintf("MRequest %d %s %s %s", o.C, vh.Bool(o.Flag), vh.Bool(o.NA), vh.Bool(o.PD))
	case "renew", "rebind":
		opT = fmt.Sprintf("MRenew %d %s %s %s", o.C, vh.Bool(o.K == "rebind"), vh.Bool(o.NA), vh.Bool(o.PD))
	case "release":
		opT = fmt.Sprintf("MRelease %d", o.C)
	case "decline":
		opT = fmt.Sprintf("MDecline %d", o.C)
	default:
		panic("unknown srv6 message " + o.K)
	}
	if o.K != "release" && o.K != "decline" {
		if o.NA {
			m.Options = append(m.Options, dhcpv6.MakeIANAOption(&dhcpv6.IANA{IAID: 1}))
		}
		if o.PD {
			m.Options = append(m.Options, dhcpv6.MakeIAPDOption(&dhcpv6.IAPD{IAID: 2}))
		}
	}
	if err := v.s.VerifC02Handle(m.Serialize(), s6peer); err != nil {
		panic(err)
	}
	buf := make([]byte, 4096)
	expectNone := o.K == "request" && !o.Flag
	wait := 300 * time.Millisecond
	if expectNone {
		wait = 2 * time.Millisecond
	}
	for {
		s6recv.SetReadDeadline(time.Now().Add(wait))
		n, _, err := s6recv.ReadFromUDP(buf)
		if err != nil {
			return opT, "P6None"
		}
		if n >= 4 && buf[1] == 7 && buf[2] == byte(v.xid>>8) && buf[3] == byte(v.xid) {
			rep = v.decode(o, buf[:n])
			break
		}
		if n >= 4 && buf[1] == 7 {
			return opT, "P6Status 908" // a second datagram for an earlier transaction
		}
		// a stranger's datagram: skip it
	}
	return opT, rep
}

func runSrv6(c Case) vh.Case {
	srv6Sockets()
	sc := c.Srv6
	cfg := dhcpv6.ServerConfig{Interface: "lo", DelegationLength: uint8(sc.DLen),
		PreferredLifetime: uint32(sc.Valid / 2), ValidLifetime: uint32(sc.Valid)}
	ab, pb := bigOf(sc.ABase), bigOf(sc.PBase)
	if sc.HasA {
		cfg.AddressPool = cidr(ab, 128, sc.APPL)
	}
	if sc.HasP {
		cfg.PrefixPool = cidr(pb, 128, sc.PPPL)
	}
	s, err := dhcpv6.NewServer(cfg, zap.NewNop())
	if err != nil {
		panic(fmt.Sprintf("srv6: NewServer(%+v): %v", cfg, err))
	}
	s.VerifC02SetConn(s6sock)
	v := &s6run{s: s, c: sc, abase: ab, pbase: pb}
	tags := map[string]bool{"kind:srv6": true, "gen:" + c.Origin: true,
		fmt.Sprintf("pools:a=%v,p=%v", sc.HasA, sc.HasP): true}
	var tr []string
	var defs []vh.Def
	for _, o := range sc.Msgs {
		opT, rep := v.exec(o)
		tags["msg:"+o.K] = true
		if o.K != "tick" && o.K != "release" && o.K != "decline" {
			tags[fmt.Sprintf("ia:na=%v,pd=%v", o.NA, o.PD)] = true
		}
		if len(rep) > 6 {
			tags["rep:"+rep[:6]] = true
		}
		sn := s6def("sn", "snap6", v.snapshot(), &defs)
		tr = append(tr, s6def("st", "(msg6 * out6)", "("+opT+", ("+rep+", "+sn+"))", &defs))
	}
	coq := fmt.Sprintf("((%s, %s, (%s, %d), (%s, %d, %d), %d),\n  %s)", vh.Bool(sc.HasA), vh.Bool(sc.HasP),
		sc.ABase, sc.APPL, sc.PBase, sc.PPPL, sc.DLen, sc.Valid, vh.List(tr))
	var tl []string
	for t := range tags {
		tl = append(tl, t)
	}
	sort.Strings(tl)
	return vh.Case{Coq: coq, Desc: c, Tags: tl, Defs: defs}
}

// ---- generators ----

const s6valid = 100

// s6pool: capacity of the address pool = 2^(128-appl)-1 (at most 1000), of the prefix pool 2^(dlen-pppl).
func s6pool(r *vh.Rng, hasA, hasP bool, appl, pppl, dlen int) Srv6Case {
	return Srv6Case{HasA: hasA, HasP: hasP, ABase: randBase(r, 128, appl).String(), APPL: appl,
		PBase: randBase(r, 128, pppl).String(), PPPL: pppl, DLen: dlen, Valid: s6valid}
}

func s6caps(c Srv6Case) (int, int) {
	ca, cp := 0, 0
	if c.HasA {
		ca = 1<<(128-c.APPL) - 1
		if ca > 1000 {
			ca = 1000
		}
	}
	if c.HasP {
		cp = 1 << (c.DLen - c.PPPL)
	}
	return ca, cp
}

// s6fill: fresh clients ask for both kinds until one more than the larger capacity (a unit that did not
// come back shows as early exhaustion), then one of them leaves and another fresh one arrives.
func s6fill(c Srv6Case, first int) []SOp {
	ca, cp := s6caps(c)
	n := ca
	if cp > n {
		n = cp
	}
	var l []SOp
	for i := 0; i <= n; i++ {
		l = append(l, SOp{K: "request", C: first + i, Flag: true, NA: true, PD: true})
	}
	l = append(l, SOp{K: "release", C: first}, SOp{K: "request", C: first + n + 1, Flag: true, NA: true, PD: true})
	return l
}

func s6case(c Srv6Case, origin string, msgs []SOp) Case {
	c.Msgs = append(append([]SOp(nil), msgs...), s6fill(c, 50)...)
	return Case{Kind: "srv6", Srv6: &c, Origin: origin}
}

func s6alphabet(nc int, full bool) []SOp {
	var a []SOp
	for c := 1; c <= nc; c++ {
		a = append(a,
			SOp{K: "request", C: c, Flag: true, NA: true, PD: true},
			SOp{K: "request", C: c, Flag: true, NA: true},
			SOp{K: "solicit", C: c, NA: true, PD: true},
			SOp{K: "renew", C: c, NA: true, PD: true},
			SOp{K: "release", C: c},
			SOp{K: "decline", C: c})
		if full {
			a = append(a,
				SOp{K: "request", C: c, Flag: true, PD: true},
				SOp{K: "solicit", C: c, Flag: true, NA: true, PD: true},
				SOp{K: "renew", C: c, PD: true})
		}
	}
	a = append(a, SOp{K: "tick", D: s6valid + 1})
	if full {
		a = append(a, SOp{K: "tick", D: s6valid})
	}
	return a
}

func s6seqs(alpha []SOp, n int, f func([]SOp)) {
	cur := make([]SOp, n)
	var rec func(i int)
	rec = func(i int) {
		if i == n {
			f(append([]SOp(nil), cur...))
			return
		}
		for _, o := range alpha {
			cur[i] = o
			rec(i + 1)
		}
	}
	rec(0)
}

// s6rand: guarded = the history stays inside the guard of the _partial theorems (every Solicit is
// completed by a Request for the same IAs before the client leaves, no lifetime runs out unrenewed).
func s6rand(r *vh.Rng, c Srv6Case, nc, n int, guarded bool) []SOp {
	var l []SOp
	pending := map[int]*SOp{} // client -> its Solicit not yet completed
	ias := func() (bool, bool) {
		switch r.Intn(6) {
		case 0:
			return true, false
		case 1:
			return false, true
		case 2:
			return false, false
		}
		return true, true
	}
	for len(l) < n {
		d := 1 + r.Intn(nc)
		na, pd := ias()
		switch x := r.Intn(100); {
		case x < 14:
			o := SOp{K: "solicit", C: d, NA: na, PD: pd}
			if guarded {
				if p := pending[d]; p != nil { // widen the pending exchange
					o.NA, o.PD = o.NA || p.NA, o.PD || p.PD
				}
				pending[d] = &o
			}
			l = append(l, o)
		case x < 20:
			l = append(l, SOp{K: "solicit", C: d, Flag: true, NA: na, PD: pd})
		case x < 46:
			o := SOp{K: "request", C: d, Flag: !r.Chance(1, 10), NA: na, PD: pd}
			if guarded {
				if p := pending[d]; p != nil {
					o.NA, o.PD, o.Flag = o.NA || p.NA, o.PD || p.PD, true
					delete(pending, d)
				}
			}
			l = append(l, o)
		case x < 60:
			k := "renew"
			if r.Chance(1, 3) {
				k = "rebind"
			}
			if guarded { // a renewal names everything the client holds
				na, pd = true, true
			}
			l = append(l, SOp{K: k, C: d, NA: na, PD: pd})
		case x < 78:
			k := "release"
			if r.Chance(1, 3) {
				k = "decline"
			}
			if guarded {
				if p := pending[d]; p != nil {
					l = append(l, SOp{K: "request", C: d, Flag: true, NA: p.NA, PD: p.PD})
					delete(pending, d)
				}
			}
			l = append(l, SOp{K: k, C: d})
		default:
			t := []int{0, 1, s6valid / 2, s6valid - 1, s6valid, s6valid + 1, 3 * s6valid}[r.Intn(7)]
			if guarded {
				t = []int{0, 1, s6valid / 4, s6valid / 2}[r.Intn(4)]
				// pending exchanges are completed and everybody renews first, so that no lifetime runs out
				for c := 1; c <= nc; c++ {
					if p := pending[c]; p != nil {
						l = append(l, SOp{K: "request", C: c, Flag: true, NA: p.NA, PD: p.PD})
						delete(pending, c)
					}
					l = append(l, SOp{K: "renew", C: c, NA: true, PD: true})
				}
			}
			l = append(l, SOp{K: "tick", D: t})
		}
	}
	if guarded {
		// complete the pending exchanges in client order (map order must not leak into the case)
		for c := 1; c <= nc; c++ {
			if p := pending[c]; p != nil {
				l = append(l, SOp{K: "request", C: c, Flag: true, NA: p.NA, PD: p.PD})
			}
		}
	}
	return l
}

func genSrv6(r *vh.Rng, th bool) []Case {
	var out []Case
	tiny := s6pool(r, true, true, 127, 63, 64)  // 1 address, 2 prefixes
	small := s6pool(r, true, true, 126, 62, 64) // 3 addresses, 4 prefixes
	// every message sequence over the alphabet on the smallest pools
	if !th {
		s6seqs(s6alphabet(2, false), 2, func(m []SOp) { out = append(out, s6case(tiny, "exhaustive", m)) })
		s6seqs(s6alphabet(1, true), 2, func(m []SOp) { out = append(out, s6case(tiny, "exhaustive", m)) })
		al := s6alphabet(2, true)
		for i := 0; i < 260; i++ { // a sample of the length-3 and length-4 sequences
			m := make([]SOp, 3+i%2)
			for j := range m {
				m[j] = al[r.Intn(len(al))]
			}
			out = append(out, s6case(tiny, "exhaustive-sample", m))
		}
	} else {
		s6seqs(s6alphabet(2, false), 3, func(m []SOp) { out = append(out, s6case(tiny, "exhaustive", m)) })
		s6seqs(s6alphabet(2, true), 2, func(m []SOp) { out = append(out, s6case(small, "exhaustive", m)) })
		s6seqs(s6alphabet(1, true), 3, func(m []SOp) { out = append(out, s6case(tiny, "exhaustive", m)) })
		al := s6alphabet(2, true)
		for i := 0; i < 2500; i++ { // a sample of the length-4 and length-5 sequences
			m := make([]SOp, 4+i%2)
			for j := range m {
				m[j] = al[r.Intn(len(al))]
			}
			out = append(out, s6case(tiny, "exhaustive-sample", m))
		}
	}
	nr := 120
	if th {
		nr = 1500
	}
	for i := 0; i < nr; i++ {
		rr := r.Fork()
		var c Srv6Case
		switch rr.Intn(8) {
		case 0:
			c = s6pool(rr, true, false, 126, 62, 64) // address pool only
		case 1:
			c = s6pool(rr, false, true, 126, 62, 64) // prefix pool only
		case 2:
			c = s6pool(rr, true, true, 125, 61, 64) // 7 / 8
		case 3:
			dl := 56 + 4*rr.Intn(2) // /56 or /60 delegations out of a pool two bits shorter
			c = s6pool(rr, true, true, 126, dl-2, dl)
		case 4:
			c = s6pool(rr, true, true, 127, 63, 64)
		default:
			c = s6pool(rr, true, true, 126, 62, 64)
		}
		guarded := i%2 == 0
		origin := "random-defect"
		if guarded {
			origin = "random-guarded"
		}
		out = append(out, s6case(c, origin, s6rand(rr, c, 2+rr.Intn(4), 4+rr.Intn(28), guarded)))
	}
	return out
}

func init() {
	register(&kind{name: "srv6", header: "run_srv6", imports: "Model.Srv6Pool Model.Srv6PoolCheck",
		runner: runSrv6, gen: genSrv6, shard: 300})
}
