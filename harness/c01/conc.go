package main

// runConcurrent is replaced further down the file history by the real stress runner.
func runConcurrent(c Case, p pool) []string {
	var tr []string
	for _, o := range c.Ops {
		tr = append(tr, "("+opCoq(o)+", "+safeDo(p, o)+")")
	}
	return tr
}
