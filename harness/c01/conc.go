package main

// Concurrent stress (C01 "under concurrent callers"): goroutines drive ONE real pool object, each
// with its own holders; afterwards every holder that should hold a unit asks again.  The final
// snapshot (holder, last value returned during the stress, value returned afterwards) and the pool's
// statistics go to Coq, where the Spec invariant is evaluated on them (Model/PoolCheck.v run_conc):
// units pairwise distinct, every unit usable, same value as before, allocated figure = number of
// holders.  This is sampled validation of the lock discipline, not a proof about interleavings.

import (
	"fmt"
	"strings"
	"sync"

	"verifharness/vh"
)

var concTag = map[string]int{"dhcp4pool": 1, "v6addr": 2, "v6prefix": 3, "pppoe": 4, "localpool": 5, "bitmap": 6, "epoch": 7}

func concNums(c Case) []string {
	switch c.Kind {
	case "dhcp4pool":
		return []string{c.Base, itoa(c.PPL), itoa(c.ResLo), itoa(c.ResHi), c.Gw}
	case "v6addr":
		return []string{c.Base, itoa(c.PPL)}
	case "v6prefix":
		return []string{c.Base, itoa(c.PPL), itoa(c.PL)}
	case "pppoe":
		return []string{c.Base, itoa(c.PPL), c.Gw, "1"}
	case "localpool":
		return []string{c.Base, itoa(c.PPL), c.Gw}
	case "bitmap":
		return []string{c.Base, itoa(c.Bits), itoa(c.PPL), itoa(c.PL)}
	case "epoch":
		return []string{c.Base, itoa(c.PPL), itoa(c.PL), fmt.Sprint(c.Grace)}
	}
	panic("no concurrent stress for kind " + c.Kind)
}

// runConc executes the case's ops split round-robin by holder number over c.Conc goroutines.
func runConc(c Case, p pool) vh.Case {
	g := c.Conc
	per := make([][]Op, g)
	for _, o := range c.Ops {
		per[o.H%g] = append(per[o.H%g], o)
	}
	type hstate struct {
		last string // last OUnit value returned to the holder by an alloc ("" = none / released / refused)
	}
	states := make([]map[int]*hstate, g)
	var wg sync.WaitGroup
	start := make(chan struct{})
	for i := 0; i < g; i++ {
		states[i] = map[int]*hstate{}
		wg.Add(1)
		go func(i int) {
			defer wg.Done()
			<-start
			for _, o := range per[i] {
				out := safeDo(p, o)
				st := states[i][o.H]
				if st == nil {
					st = &hstate{}
					states[i][o.H] = st
				}
				switch o.K {
				case "alloc":
					if strings.HasPrefix(out, "OUnit ") {
						st.last = out[6:]
					} else {
						st.last = ""
					}
				case "rel":
					st.last = ""
				}
			}
		}(i)
	}
	close(start)
	wg.Wait()
	var rows []string
	nh := 0
	for i := 0; i < g; i++ {
		for h, st := range states[i] {
			if st.last == "" {
				continue
			}
			out := safeDo(p, Op{K: "alloc", H: h})
			final := "4294967295999" // not a unit: error after the stress
			if strings.HasPrefix(out, "OUnit ") {
				final = out[6:]
			}
			rows = append(rows, fmt.Sprintf("(%d, %s, %s)", h, st.last, final))
			nh++
		}
	}
	// sort for a stable case text
	sortStrings(rows)
	stats := "(0, 0)"
	if c.Kind == "bitmap" || c.Kind == "dhcp4pool" || c.Kind == "localpool" || c.Kind == "epoch" {
		if out := safeDo(p, Op{K: "stats"}); strings.HasPrefix(out, "OStats ") {
			f := strings.Fields(out)
			stats = fmt.Sprintf("(%s, 1)", f[1])
		}
	}
	coq := fmt.Sprintf("((%d, %s), %s, %s)", concTag[c.Kind], vh.List(concNums(c)), vh.List(rows), stats)
	return vh.Case{Coq: coq, Desc: c, Tags: []string{"concurrent", "kind:" + c.Kind, fmt.Sprintf("goroutines:%d", g)}}
}

func sortStrings(l []string) {
	for i := 1; i < len(l); i++ {
		for j := i; j > 0 && l[j] < l[j-1]; j-- {
			l[j], l[j-1] = l[j-1], l[j]
		}
	}
}

func genConc(r *vh.Rng, th bool) []Case {
	var out []Case
	n := 3
	if th {
		n = 40
	}
	for _, kn := range []string{"bitmap", "epoch", "dhcp4pool", "v6addr", "v6prefix", "pppoe", "localpool"} {
		for i := 0; i < n; i++ {
			rr := r.Fork()
			d := 3 + rr.Intn(4)
			var c Case
			switch kn {
			case "bitmap":
				c = Case{Kind: kn, Bits: 32, PPL: 32 - d, PL: 32}
				c.Base = randBase(rr, 32, c.PPL).String()
			case "epoch":
				c = Case{Kind: kn, Bits: 32, PPL: 32 - d, PL: 32, Grace: 1}
				c.Base = randBase(rr, 32, c.PPL).String()
			default:
				c, _, _ = flCase(rr, kn, d)
			}
			c.Conc = 4 + rr.Intn(5)
			nh := c.Conc * (2 + rr.Intn(4))
			nops := 200 + rr.Intn(400)
			for j := 0; j < nops; j++ {
				h := rr.Intn(nh)
				k := "alloc"
				if rr.Chance(2, 5) {
					k = "rel"
				}
				if kn == "epoch" && rr.Chance(1, 6) {
					k = "renew"
				}
				if kn == "dhcp4pool" && k == "rel" {
					continue // dhcp.Pool releases by address; the stress keeps to Allocate (Release is covered sequentially)
				}
				c.Ops = append(c.Ops, Op{K: k, H: h})
			}
			c.Origin = "concurrent"
			out = append(out, c)
		}
	}
	return out
}

func init() {
	register(&kind{name: "concurrent", header: "run_conc", gen: genConc})
}

// runConcurrent is kept for the sequential path's signature (unused traces).
func runConcurrent(c Case, p pool) []string { return nil }
