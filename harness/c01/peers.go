package main

// Stream "peers" (C05 only): a CLUSTER of real pool.PeerPool nodes (2-3 nodes, each with its own
// LocalPool, peer requests routed to the in-process handlers of the addressed node), Allocate / Release /
// Get / Stats entering at any node under any per-node health view, health marks changing between a
// subscriber's Allocate and its Release.  Model + monitor: coq/Model/PeerPools.v (conservation judged
// over ALL nodes' local pools after every operation).  Hooks (read only, C17's): VerifRanked,
// VerifSetPeerHealth, VerifSetHTTPClient, VerifLocalHolds.

import (
	"context"
	"fmt"
	"math/big"
	"net"
	"net/http"
	"net/http/httptest"
	"sort"
	"strings"

	"verifharness/vh"

	peerpool "github.com/codelaboratoryltd/bng/pkg/pool"
)

type POp struct {
	K  string `json:"k"` // alloc rel get stats health
	N  int    `json:"n"`
	H  int    `json:"h,omitempty"`
	M  int    `json:"m,omitempty"`  // health: the peer whose mark changes on node N
	Up bool   `json:"up,omitempty"` // health: healthy
}

type PeersCase struct {
	Bases []string `json:"bases"` // per node: network address (decimal), all /PPL
	PPL   int      `json:"ppl"`
	Subs  int      `json:"subs"` // subscribers 0..Subs-1 are observed
	Style int      `json:"style"`
	Ops   []POp    `json:"ops"`
}

type peerRoute struct{ muxes map[string]*http.ServeMux }

func (rt *peerRoute) RoundTrip(req *http.Request) (*http.Response, error) {
	m, ok := rt.muxes[req.URL.Host]
	if !ok {
		return nil, fmt.Errorf("no such host %q", req.URL.Host)
	}
	rec := httptest.NewRecorder()
	m.ServeHTTP(rec, req)
	return rec.Result(), nil
}

func peerNode(i int) string { return fmt.Sprintf("node-%c", 'a'+i) }
func peerSub(style, h int) string {
	if style == 1 {
		return fmt.Sprintf("olt-%d/1/3/%d", h%2, h)
	}
	return holderName(h)
}

func runPeers(c Case) vh.Case {
	pc := c.Peers
	ctx := context.Background()
	rt := &peerRoute{muxes: map[string]*http.ServeMux{}}
	var ids []string
	for i := range pc.Bases {
		ids = append(ids, peerNode(i))
	}
	var pools []*peerpool.PeerPool
	var cfgs []string
	for i, b := range pc.Bases {
		base := bigOf(b)
		gw := new(big.Int).Add(base, bigInt(1))
		p, err := peerpool.NewPeerPool(peerpool.PeerPoolConfig{NodeID: ids[i], Peers: ids, Network: cidr(base, 32, pc.PPL),
			Gateway: ipOfInt(gw, 32).String()})
		if err != nil {
			panic(err)
		}
		mux := http.NewServeMux()
		p.RegisterHandlers(mux)
		rt.muxes[ids[i]] = mux
		p.VerifSetHTTPClient(&http.Client{Transport: rt})
		pools = append(pools, p)
		cfgs = append(cfgs, fmt.Sprintf("(%s, %d, %s)", b, pc.PPL, gw.String()))
	}
	idx := map[string]int{}
	for i, id := range ids {
		idx[id] = i
	}
	nsub := pc.Subs
	var ranks []string
	for h := 0; h < nsub; h++ {
		var r []string
		for _, id := range pools[0].VerifRanked(peerSub(pc.Style, h)) {
			r = append(r, itoa(idx[id]))
		}
		ranks = append(ranks, fmt.Sprintf("(%d, %s)", h, vh.List(r)))
	}
	snap := func() string {
		var nodes []string
		for _, p := range pools {
			var hs []string
			for h := 0; h < nsub; h++ {
				if p.VerifLocalHolds(peerSub(pc.Style, h)) {
					hs = append(hs, itoa(h))
				}
			}
			st := p.Stats()
			nodes = append(nodes, fmt.Sprintf("(%s, %d, %d)", vh.List(hs), st.Allocated, st.Available))
		}
		return vh.List(nodes)
	}
	tags := map[string]bool{"kind:peers": true, "gen:" + c.Origin: true, fmt.Sprintf("nodes:%d", len(pools)): true}
	var tr []string
	for _, o := range pc.Ops {
		p := pools[o.N]
		id := peerSub(pc.Style, o.H)
		var op, out string
		switch o.K {
		case "alloc":
			op = fmt.Sprintf("PAlloc %d %d", o.N, o.H)
			r, err := p.Allocate(ctx, id, macOf(o.H))
			switch {
			case err == nil && r.SubscriberID == id:
				out = "OUnit " + intOfIP(parseIP4(r.IP), 32).String()
			case err == nil:
				out = oErr(98)
			case strings.Contains(err.Error(), "exhausted") || strings.Contains(err.Error(), "status 503"):
				out = oErr(1)
			default:
				out = oErr(5)
			}
		case "rel":
			op = fmt.Sprintf("PRelease %d %d", o.N, o.H)
			out = "OOk"
			if err := p.Release(ctx, id); err != nil {
				out = oErr(5)
			}
		case "get":
			op = fmt.Sprintf("PGet %d %d", o.N, o.H)
			out = "ONone"
			if r, ok := p.Get(id); ok {
				out = "OUnit " + intOfIP(parseIP4(r.IP), 32).String()
			}
		case "stats":
			op = fmt.Sprintf("PStats %d", o.N)
			st := p.Stats()
			out = fmt.Sprintf("OStats %d %d 0 0", st.Allocated, st.Total)
			if st.Available != st.Total-st.Allocated {
				out = oErr(96)
			}
		case "health":
			op = fmt.Sprintf("PHealth %d %d %s", o.N, o.M, vh.Bool(o.Up))
			p.VerifSetPeerHealth(ids[o.M], o.Up)
			out = "OOk"
		default:
			panic("unknown peers op " + o.K)
		}
		tags["op:"+o.K] = true
		tags["out:"+strings.SplitN(out, " ", 2)[0]] = true
		tr = append(tr, "("+op+", ("+out+", "+snap()+"))")
	}
	var tl []string
	for t := range tags {
		tl = append(tl, t)
	}
	sort.Strings(tl)
	return vh.Case{Coq: "((" + vh.List(cfgs) + ", " + vh.List(ranks) + "),\n " + vh.List(tr) + ")", Desc: c, Tags: tl}
}

// genPeers: half of the histories stay inside the guard (every node has the same view: a peer is marked
// on all other nodes at once, only while nobody holds anything, and no call enters at a marked node),
// half are unrestricted (per-node views, marks changing between Allocate and Release).
func genPeers(r *vh.Rng, th bool) []Case {
	var out []Case
	n := 160
	if th {
		n = 2400
	}
	for i := 0; i < n; i++ {
		rr := r.Fork()
		nn := 2 + rr.Intn(2)
		pc := PeersCase{PPL: 29 + rr.Intn(2), Style: rr.Intn(2), Subs: 4 + rr.Intn(3)}
		for k := 0; k < nn; k++ {
			pc.Bases = append(pc.Bases, v4Base(10, 10+k, rr.Intn(250), 8*rr.Intn(30)).String())
		}
		guarded := i%2 == 0
		marked := map[int]bool{}
		live := map[int]bool{}
		entry := func() int {
			for {
				e := rr.Intn(nn)
				if !guarded || !marked[e] {
					return e
				}
			}
		}
		for len(pc.Ops) < 6+rr.Intn(20) {
			h := rr.Intn(pc.Subs)
			switch x := rr.Intn(20); {
			case x < 8:
				pc.Ops = append(pc.Ops, POp{K: "alloc", N: entry(), H: h})
				live[h] = true
			case x < 13:
				pc.Ops = append(pc.Ops, POp{K: "rel", N: entry(), H: h})
				delete(live, h)
			case x < 14:
				pc.Ops = append(pc.Ops, POp{K: "get", N: rr.Intn(nn), H: h})
			case x < 15:
				pc.Ops = append(pc.Ops, POp{K: "stats", N: rr.Intn(nn)})
			default:
				m, up := rr.Intn(nn), rr.Chance(1, 3)
				if guarded {
					if len(marked) >= nn-1 && !up {
						continue
					}
					for h := 0; h < pc.Subs; h++ { // everybody leaves first
						if live[h] {
							pc.Ops = append(pc.Ops, POp{K: "rel", N: entry(), H: h})
						}
					}
					live = map[int]bool{}
					for k := 0; k < nn; k++ {
						if k != m {
							pc.Ops = append(pc.Ops, POp{K: "health", N: k, M: m, Up: up})
						}
					}
					if up {
						delete(marked, m)
					} else {
						marked[m] = true
					}
				} else {
					k := rr.Intn(nn)
					if k != m {
						pc.Ops = append(pc.Ops, POp{K: "health", N: k, M: m, Up: up})
					}
				}
			}
		}
		// observation suffix: everybody's figures, then fresh subscribers until every pool must be full
		first := pc.Subs
		units := nn * (1<<(32-pc.PPL) - 3)
		for k := 0; k < nn; k++ {
			pc.Ops = append(pc.Ops, POp{K: "stats", N: k})
		}
		for k := 0; k <= units; k++ {
			pc.Ops = append(pc.Ops, POp{K: "alloc", N: entry(), H: first + k})
		}
		pc.Subs = first + units + 1
		origin := "unrestricted"
		if guarded {
			origin = "guarded"
		}
		cp := pc
		out = append(out, Case{Kind: "peers", Peers: &cp, Origin: origin})
	}
	return out
}

func init() {
	register(&kind{name: "peers", header: "run_peers", imports: "Model.PoolSpec Model.PeerPools Model.PeerPoolsCheck",
		runner: runPeers, gen: genPeers, onlyProp: 5, shard: 200})
}

func parseIP4(s string) net.IP {
	ip := net.ParseIP(s)
	if ip == nil {
		return net.IPv4zero
	}
	return ip
}
