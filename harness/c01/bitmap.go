package main

import (
	"errors"
	"fmt"
	"math/big"
	"net"

	"verifharness/vh"

	"github.com/codelaboratoryltd/bng/pkg/allocator"
)

func ipOfInt(v *big.Int, bits int) net.IP {
	b := v.Bytes()
	n := bits / 8
	ip := make(net.IP, n)
	if len(b) > n {
		b = b[len(b)-n:]
	}
	copy(ip[n-len(b):], b)
	return ip
}

func intOfIP(ip net.IP, bits int) *big.Int {
	if bits == 32 {
		if v4 := ip.To4(); v4 != nil {
			return new(big.Int).SetBytes(v4)
		}
	}
	return new(big.Int).SetBytes(ip.To16())
}

func cidr(base *big.Int, bits, ppl int) string {
	return fmt.Sprintf("%s/%d", ipOfInt(base, bits).String(), ppl)
}

func allocErr(err error) string {
	switch {
	case errors.Is(err, allocator.ErrPoolExhausted):
		return oErr(1)
	case errors.Is(err, allocator.ErrNotAllocated):
		return oErr(2)
	case errors.Is(err, allocator.ErrAlreadyAllocated):
		return oErr(3)
	case errors.Is(err, allocator.ErrOutOfRange):
		return oErr(4)
	}
	return oErr(5)
}

type bitmapPool struct {
	a    *allocator.IPAllocator
	bits int
	pl   int
}

func (p *bitmapPool) prefix(o Op) *net.IPNet {
	return &net.IPNet{IP: ipOfInt(bigOf(o.A), p.bits), Mask: net.CIDRMask(o.PL, p.bits)}
}

func (p *bitmapPool) unit(n *net.IPNet) string {
	if ones, bits := n.Mask.Size(); ones != p.pl || bits != p.bits {
		return oErr(98)
	}
	return oUnit(intOfIP(n.IP, p.bits))
}

func (p *bitmapPool) do(o Op) string {
	switch o.K {
	case "alloc":
		n, err := p.a.Allocate(holderName(o.H))
		if err != nil {
			return allocErr(err)
		}
		return p.unit(n)
	case "aspec":
		if err := p.a.AllocateSpecific(holderName(o.H), p.prefix(o)); err != nil {
			return allocErr(err)
		}
		return "OOk"
	case "set":
		if err := p.a.SetAllocation(holderName(o.H), p.prefix(o)); err != nil {
			return allocErr(err)
		}
		return "OOk"
	case "rel":
		if err := p.a.Release(holderName(o.H)); err != nil {
			return allocErr(err)
		}
		return "OOk"
	case "relu":
		if err := p.a.ReleasePrefix(p.prefix(o)); err != nil {
			return allocErr(err)
		}
		return "OOk"
	case "look":
		n := p.a.Lookup(holderName(o.H))
		if n == nil {
			return "ONone"
		}
		return p.unit(n)
	case "looku":
		s := p.a.LookupByPrefix(p.prefix(o))
		if s == "" {
			return "ONone"
		}
		h, ok := holderNum(s)
		if !ok {
			return oErr(97)
		}
		return oHolder(h)
	case "stats":
		al, tot, util := p.a.Stats()
		return oStats(al, tot, util, true)
	case "snap":
		var l []pair
		for _, a := range p.a.ListAllocations() {
			h, _ := holderNum(a.SubscriberID)
			l = append(l, pair{h, intOfIP(a.Prefix.IP, p.bits)})
		}
		return oSnap(l)
	}
	return oErr(9)
}

func geoCfg(c Case) string {
	return fmt.Sprintf("(%d, %s, %d, %d)", c.Bits, c.Base, c.PPL, c.PL)
}

func init() {
	register(&kind{
		name:   "bitmap",
		header: "run_bitmap",
		cfg:    geoCfg,
		mk: func(c Case) (pool, error) {
			a, err := allocator.NewIPAllocator(cidr(bigOf(c.Base), c.Bits, c.PPL), c.PL)
			if err != nil {
				return nil, err
			}
			return &bitmapPool{a: a, bits: c.Bits, pl: c.PL}, nil
		},
		gen: genBitmap,
	})
}

// suffix observed after every small history: lookups, stats, snapshot, fill to exhaustion, stats
func bitmapSuffix(units int) []Op {
	l := []Op{{K: "look", H: 0}, {K: "look", H: 1}, {K: "look", H: 2}, {K: "stats"}, {K: "snap"}}
	l = append(l, fillOps(10, units+1)...)
	l = append(l, Op{K: "stats"}, Op{K: "snap"})
	return l
}

func genBitmap(r *vh.Rng, th bool) []Case {
	var out []Case
	type g struct{ bits, ppl, pl int }
	// --- exhaustive small pools: 2, 4, 8 units; 3 holders; all sequences over the alphabet ---
	small := []g{{32, 31, 32}, {32, 30, 32}, {32, 29, 32}, {128, 126, 128}, {128, 62, 64}, {32, 22, 24}}
	maxLen := 2
	if th {
		maxLen = 4
	}
	for gi, sg := range small {
		base := randBase(r, sg.bits, sg.ppl)
		step := pow2(sg.bits - sg.pl)
		units := 1 << (sg.pl - sg.ppl)
		u0, u1 := addr(base, step, 0), addr(base, step, int64(units-1))
		alpha := []Op{
			{K: "alloc", H: 0}, {K: "alloc", H: 1}, {K: "alloc", H: 2},
			{K: "rel", H: 0}, {K: "rel", H: 1}, {K: "rel", H: 2},
			{K: "set", H: 0, A: u0, PL: sg.pl}, {K: "set", H: 0, A: u1, PL: sg.pl},
			{K: "set", H: 1, A: u0, PL: sg.pl}, {K: "set", H: 1, A: u1, PL: sg.pl},
			{K: "relu", A: u0, PL: sg.pl},
			{K: "aspec", H: 2, A: u1, PL: sg.pl},
		}
		ml := maxLen
		if th && gi >= 1 {
			ml = 3
		}
		if th && gi >= 3 {
			ml = 2
		}
		if gi >= 3 && !th {
			ml = 1
		}
		for n := 1; n <= ml; n++ {
			seqs(alpha, n, func(ops []Op) {
				out = append(out, Case{Kind: "bitmap", Bits: sg.bits, Base: base.String(), PPL: sg.ppl, PL: sg.pl,
					Ops: append(ops, bitmapSuffix(units)...), Origin: "exhaustive"})
			})
		}
		// sampled longer sequences over the same alphabet
		ns := 50
		if th {
			ns = 600
		}
		for i := 0; i < ns; i++ {
			n := ml + 1 + r.Intn(3)
			var ops []Op
			for j := 0; j < n; j++ {
				ops = append(ops, alpha[r.Intn(len(alpha))])
			}
			out = append(out, Case{Kind: "bitmap", Bits: sg.bits, Base: base.String(), PPL: sg.ppl, PL: sg.pl,
				Ops: append(ops, bitmapSuffix(units)...), Origin: "small-random"})
		}
	}
	// --- random long histories on pools up to 4096 units ---
	nl := 40
	if th {
		nl = 600
	}
	for i := 0; i < nl; i++ {
		out = append(out, genBitmapLong(r.Fork()))
	}
	// --- geometry sweep: every (pool prefix, prefix length) pair with <= 2^12 units, boundary indices ---
	for _, bits := range []int{32, 128} {
		for ppl := 0; ppl <= bits; ppl++ {
			for d := 0; d <= 12 && ppl+d <= bits; d++ {
				if !th && !r.Chance(1, 20) {
					continue
				}
				out = append(out, genBitmapGeo(r.Fork(), bits, ppl, ppl+d))
			}
		}
	}
	// --- 2^64 units and more: totalPrefixes.Uint64() truncates ---
	for _, d := range []int{63, 64, 65, 80} {
		c := genBitmapGeo(r.Fork(), 128, 128-d-r.Intn(128-d+1), 0)
		c.PL = c.PPL + d
		c.Ops = []Op{{K: "alloc", H: 0}, {K: "stats"}, {K: "look", H: 0}, {K: "alloc", H: 1}, {K: "rel", H: 0}, {K: "stats"}}
		c.Origin = "huge"
		out = append(out, c)
	}
	return out
}

func genBitmapLong(r *vh.Rng) Case {
	bits := 32
	if r.Chance(1, 3) {
		bits = 128
	}
	d := 1 + r.Intn(12)
	if r.Chance(1, 3) {
		d = 1 + r.Intn(4)
	}
	pl := bits - r.Intn(9)
	if bits == 128 && r.Bool() {
		pl = 48 + r.Intn(17)
	}
	ppl := pl - d
	base := randBase(r, bits, ppl)
	step := pow2(bits - pl)
	units := 1 << d
	nh := 2 + r.Intn(2*units)
	if nh > 150 {
		nh = 150
	}
	n := 20 + r.Intn(180)
	var ops []Op
	var lastRel []int
	randUnit := func() string {
		switch r.Intn(8) {
		case 0:
			return addr(base, step, int64(units)) // just beyond the end
		case 1:
			if base.Sign() > 0 {
				return new(big.Int).Sub(base, big.NewInt(1)).String() // just before the base
			}
		case 2: // unaligned address inside a unit
			off := new(big.Int).Mul(step, big.NewInt(int64(r.Intn(units))))
			off.Add(off, new(big.Int).Rsh(step, 1))
			return new(big.Int).Add(base, off).String()
		}
		return addr(base, step, int64(r.Intn(units)))
	}
	for len(ops) < n {
		h := r.Intn(nh)
		switch x := r.Intn(100); {
		case x < 38:
			if len(lastRel) > 0 && r.Chance(2, 3) { // release-then-allocate by another holder
				ops = append(ops, Op{K: "alloc", H: (lastRel[len(lastRel)-1] + 1 + r.Intn(nh)) % nh})
				lastRel = lastRel[:len(lastRel)-1]
			} else {
				ops = append(ops, Op{K: "alloc", H: h})
			}
		case x < 58:
			ops = append(ops, Op{K: "rel", H: h})
			lastRel = append(lastRel, h)
		case x < 64:
			ops = append(ops, Op{K: "relu", A: randUnit(), PL: pl})
		case x < 72: // reload of identical records 1..3 times
			u := randUnit()
			k := 1 + r.Intn(3)
			for j := 0; j < k; j++ {
				ops = append(ops, Op{K: "set", H: h, A: u, PL: pl})
			}
			if r.Bool() {
				ops = append(ops, Op{K: "stats"})
			}
		case x < 78:
			pl2 := pl
			if r.Chance(1, 6) {
				pl2 = pl - 1
			}
			ops = append(ops, Op{K: "aspec", H: h, A: randUnit(), PL: pl2})
		case x < 86:
			ops = append(ops, Op{K: "look", H: h})
		case x < 91:
			ops = append(ops, Op{K: "looku", A: randUnit(), PL: pl})
		case x < 97:
			ops = append(ops, Op{K: "stats"})
		default:
			ops = append(ops, Op{K: "snap"})
		}
	}
	ops = append(ops, Op{K: "stats"}, Op{K: "snap"})
	if units <= 64 {
		ops = append(ops, fillOps(1000, units+1)...)
		ops = append(ops, Op{K: "stats"})
	}
	return Case{Kind: "bitmap", Bits: bits, Base: base.String(), PPL: ppl, PL: pl, Ops: ops, Origin: "long"}
}

func genBitmapGeo(r *vh.Rng, bits, ppl, pl int) Case {
	base := randBase(r, bits, ppl)
	c := Case{Kind: "bitmap", Bits: bits, Base: base.String(), PPL: ppl, PL: pl, Origin: "geometry"}
	if pl < ppl {
		return c
	}
	step := pow2(bits - pl)
	units := int64(1) << (pl - ppl)
	idx := []int64{0, 1, units / 2, units - 1, units}
	h := 0
	for _, i := range idx {
		a := new(big.Int).Add(base, new(big.Int).Mul(step, big.NewInt(i)))
		if a.Cmp(pow2(bits)) >= 0 {
			continue
		}
		c.Ops = append(c.Ops, Op{K: "aspec", H: h, A: a.String(), PL: pl}, Op{K: "look", H: h}, Op{K: "looku", A: a.String(), PL: pl})
		h++
	}
	if base.Sign() > 0 {
		c.Ops = append(c.Ops, Op{K: "aspec", H: h, A: new(big.Int).Sub(base, big.NewInt(1)).String(), PL: pl})
	}
	c.Ops = append(c.Ops, Op{K: "alloc", H: 20}, Op{K: "alloc", H: 21}, Op{K: "alloc", H: 22}, Op{K: "snap"}, Op{K: "stats"})
	return c
}
