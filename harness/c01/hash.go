package main

import (
	"context"
	"fmt"
	"net"
	"strings"
	"sync"

	"verifharness/vh"

	"github.com/codelaboratoryltd/bng/pkg/nexus"
	"go.uber.org/zap"
)

type hashPool struct{ c *nexus.Client }

// orderedStore is the harness Store: nexus.MemoryStore for the data, but watch callbacks are delivered
// synchronously and in order (MemoryStore starts a goroutine per event, so an old echo can arrive after a
// newer write and replace the cached record; that schedule is not part of this sequential tie).
type orderedStore struct {
	*nexus.MemoryStore
	mu       sync.Mutex
	watchers []struct {
		prefix string
		cb     nexus.WatchCallback
	}
}

func (s *orderedStore) Watch(prefix string, cb nexus.WatchCallback) {
	s.mu.Lock()
	defer s.mu.Unlock()
	s.watchers = append(s.watchers, struct {
		prefix string
		cb     nexus.WatchCallback
	}{prefix, cb})
}

func (s *orderedStore) notify(key string, value []byte, deleted bool) {
	s.mu.Lock()
	ws := append(s.watchers[:0:0], s.watchers...)
	s.mu.Unlock()
	for _, w := range ws {
		if strings.HasPrefix(key, w.prefix) {
			w.cb(key, value, deleted)
		}
	}
}

func (s *orderedStore) Put(ctx context.Context, key string, value []byte) error {
	if err := s.MemoryStore.Put(ctx, key, value); err != nil {
		return err
	}
	s.notify(key, value, false)
	return nil
}

func (s *orderedStore) Delete(ctx context.Context, key string) error {
	if err := s.MemoryStore.Delete(ctx, key); err != nil {
		return err
	}
	s.notify(key, nil, true)
	return nil
}

func (p *hashPool) do(o Op) string {
	ctx := context.Background()
	switch o.K {
	case "alloc":
		s, err := p.c.AllocateIPForSubscriber(ctx, holderName(o.H))
		if err != nil {
			return oErr(5)
		}
		ip := net.ParseIP(s)
		if ip == nil {
			return oErr(98)
		}
		return oUnit(intOfIP(ip, 32))
	case "rel":
		if err := p.c.ReleaseSubscriberIP(ctx, holderName(o.H)); err != nil {
			return oErr(5)
		}
		return "OOk"
	case "look":
		s, ok := p.c.LookupSubscriberIP(holderName(o.H))
		if !ok {
			return "ONone"
		}
		return oUnit(intOfIP(net.ParseIP(s), 32))
	}
	return oErr(9)
}

func init() {
	register(&kind{name: "hashalloc", header: "run_hash",
		cfg: func(c Case) string { return fmt.Sprintf("(%s, %d)", c.Base, c.PPL) },
		mk: func(c Case) (pool, error) {
			ctx := context.Background()
			store := &orderedStore{MemoryStore: nexus.NewMemoryStore()}
			cl := nexus.NewClient(nexus.DefaultClientConfig(), store, zap.NewNop())
			if err := cl.Pools.Put(ctx, "p1", &nexus.IPPool{ID: "p1", CIDR: cidrRaw(c), Type: "residential"}); err != nil {
				return nil, err
			}
			seen := map[int]bool{}
			for _, o := range c.Ops {
				if !seen[o.H] {
					seen[o.H] = true
					if err := cl.SaveSubscriber(ctx, &nexus.Subscriber{ID: holderName(o.H), IPv4Pool: "p1", State: "active"}); err != nil {
						return nil, err
					}
				}
			}
			if err := cl.Start(); err != nil { // loads the caches synchronously
				return nil, err
			}
			return &hashPool{cl}, nil
		},
		gen: genHash})
}

// cidrRaw writes the base exactly as given (it may have host bits set: the code does not mask it).
func cidrRaw(c Case) string {
	return fmt.Sprintf("%s/%d", ipOfInt(bigOf(c.Base), 32).String(), c.PPL)
}

func genHash(r *vh.Rng, th bool) []Case {
	var out []Case
	n := 70
	if th {
		n = 800
	}
	for i := 0; i < n; i++ {
		rr := r.Fork()
		d := 2 + rr.Intn(11)
		if rr.Chance(1, 3) {
			d = 2 + rr.Intn(3)
		}
		if rr.Chance(1, 12) {
			d = rr.Intn(2) // /32, /31: no usable addresses
		}
		ppl := 32 - d
		base := randBase(rr, 32, ppl)
		origin := "masked-base"
		if rr.Chance(1, 4) { // CIDR written with host bits (e.g. the gateway address): the code does not mask
			base.Add(base, bigInt(int64(rr.Intn(1<<d))))
			origin = "unmasked-base"
		}
		c := Case{Kind: "hashalloc", Bits: 32, Base: base.String(), PPL: ppl, PL: 32, Origin: origin}
		nh := 2 + rr.Intn(40)
		nops := 5 + rr.Intn(40)
		for len(c.Ops) < nops {
			h := rr.Intn(nh)
			switch x := rr.Intn(10); {
			case x < 6:
				c.Ops = append(c.Ops, Op{K: "alloc", H: h})
			case x < 8:
				c.Ops = append(c.Ops, Op{K: "rel", H: h})
			default:
				c.Ops = append(c.Ops, Op{K: "look", H: h})
			}
		}
		out = append(out, c)
	}
	return out
}
