package main

import (
	"fmt"
	"math/big"

	"verifharness/vh"
)

// ---- shared generator helpers ----

func pow2(n int) *big.Int { return new(big.Int).Lsh(big.NewInt(1), uint(n)) }

// randBase returns a random network address of `bits` bits aligned to prefix length ppl.
func randBase(r *vh.Rng, bits, ppl int) *big.Int {
	b := new(big.Int).SetBytes(r.Bytes(bits / 8))
	if r.Chance(1, 4) { // high bytes 0xff..: exercises byte additions next to 255
		b = new(big.Int).Sub(pow2(bits), big.NewInt(1))
	}
	b.Rsh(b, uint(bits-ppl))
	b.Lsh(b, uint(bits-ppl))
	return b
}

func v4Base(a, b, c, d int) *big.Int {
	return big.NewInt(int64(a)<<24 | int64(b)<<16 | int64(c)<<8 | int64(d))
}

// seqs enumerates every sequence over alphabet of length exactly n.
func seqs(alpha []Op, n int, f func([]Op)) {
	cur := make([]Op, n)
	var rec func(i int)
	rec = func(i int) {
		if i == n {
			f(append([]Op(nil), cur...))
			return
		}
		for _, o := range alpha {
			cur[i] = o
			rec(i + 1)
		}
	}
	rec(0)
}

// fillOps: fresh holders allocate until one more than the capacity (leaks show up as early
// exhaustion, double assignment as a duplicate), then Stats.
func fillOps(firstFresh, n int) []Op {
	var l []Op
	for i := 0; i < n; i++ {
		l = append(l, Op{K: "alloc", H: firstFresh + i})
	}
	return l
}

func addr(base *big.Int, step *big.Int, idx int64) string {
	return new(big.Int).Add(base, new(big.Int).Mul(step, big.NewInt(idx))).String()
}

func itoa(i int) string { return fmt.Sprintf("%d", i) }

func bigInt(v int64) *big.Int { return big.NewInt(v) }

// sampleSeqs returns n random sequences of exactly length l over alpha.
func sampleSeqs(r *vh.Rng, alpha []Op, l, n int, f func([]Op)) {
	for i := 0; i < n; i++ {
		ops := make([]Op, l)
		for j := range ops {
			ops[j] = alpha[r.Intn(len(alpha))]
		}
		f(ops)
	}
}
