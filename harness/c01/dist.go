package main

// Stream "dist" (C05 only): the real allocator.DistributedAllocator, both modes, on a harness Store
// whose Put / Delete fail on demand, with reload (a new allocator Started on the same store).
// Model: b-c12's coq/Model/DistAlloc.v (dstep); monitor: coq/Model/DistPoolCheck.v.
// After every operation the memory (Get of every subscriber of the case) and the store's records
// are observed.  Watch notifications are not delivered (an own echo in order is a no-op; late and
// remote notifications are C12's subject).

import (
	"context"
	"encoding/json"
	"errors"
	"fmt"
	"math/big"
	"net"
	"sort"
	"strings"

	"verifharness/vh"

	"github.com/codelaboratoryltd/bng/pkg/allocator"
)

// fstore fails exactly the failAt-th store operation (Get / Put / Delete, counted from 1) issued
// since the counter was reset, i.e. of the current allocator call; hit records which kind it was.
type fstore struct {
	data   map[string][]byte
	order  []string
	failAt int
	nops   int
	hit    string
}

func (s *fstore) arm(k int) { s.failAt, s.nops, s.hit = k, 0, "" }
func (s *fstore) fault(kind string) bool {
	s.nops++
	if s.failAt > 0 && s.nops == s.failAt {
		s.failAt, s.hit = 0, kind
		return true
	}
	return false
}

var errInjected = errors.New("injected store failure")

func (s *fstore) Get(ctx context.Context, key string) ([]byte, error) {
	if s.fault("get") {
		return nil, errInjected
	}
	if v, ok := s.data[key]; ok {
		return v, nil
	}
	return nil, errors.New("key not found")
}
func (s *fstore) Put(ctx context.Context, key string, value []byte) error {
	if s.fault("put") {
		return errInjected
	}
	s.data[key] = append([]byte(nil), value...)
	return nil
}
func (s *fstore) Delete(ctx context.Context, key string) error {
	if s.fault("del") {
		return errInjected
	}
	delete(s.data, key)
	return nil
}
func (s *fstore) Query(ctx context.Context, prefix string) ([]allocator.KeyValue, error) {
	var out []allocator.KeyValue
	seen := map[string]bool{}
	for _, k := range s.order {
		if v, ok := s.data[k]; ok && strings.HasPrefix(k, prefix) && !seen[k] {
			seen[k] = true
			out = append(out, allocator.KeyValue{Key: k, Value: v})
		}
	}
	var rest []string
	for k := range s.data {
		if strings.HasPrefix(k, prefix) && !seen[k] {
			rest = append(rest, k)
		}
	}
	sort.Strings(rest)
	for _, k := range rest {
		out = append(out, allocator.KeyValue{Key: k, Value: s.data[k]})
	}
	return out, nil
}
func (s *fstore) Watch(prefix string, cb func(key string, value []byte, deleted bool)) {}

const distPool = "p"

func dsub(h int) string { return fmt.Sprintf("s%d", h) }
func dsubNum(s string) int {
	var h int
	if _, err := fmt.Sscanf(s, "s%d", &h); err != nil {
		return 999
	}
	return h
}
func dkey(h int) string { return "/allocation/" + distPool + "/" + dsub(h) }

func distErr(err error) int {
	switch {
	case errors.Is(err, allocator.ErrPoolExhausted):
		return 1
	case errors.Is(err, allocator.ErrNotAllocated):
		return 2
	case errors.Is(err, allocator.ErrNotFound):
		return 7
	case errors.Is(err, allocator.ErrConflict):
		return 3
	}
	return 6
}

type distRun struct {
	c     Case
	st    *fstore
	da    *allocator.DistributedAllocator
	stop  context.CancelFunc
	trace []string
}

func (d *distRun) newAlloc() error {
	if d.stop != nil {
		d.stop()
	}
	var ctx context.Context
	ctx, d.stop = context.WithCancel(context.Background())
	mode := allocator.PoolModeSession
	if d.c.Lease {
		mode = allocator.PoolModeLease
	}
	da, err := allocator.NewDistributedAllocator(allocator.DistributedConfig{
		PoolID: distPool, BaseNetwork: cidr(bigOf(d.c.Base), d.c.Bits, d.c.PPL), PrefixLen: d.c.PL, Mode: mode,
		EpochGrace: int(d.c.Grace)}, d.st)
	if err != nil {
		panic(err)
	}
	d.da = da
	return da.Start(ctx)
}

func (d *distRun) emit(op, ret string) {
	var mem []string
	for h := 0; h < d.c.Univ; h++ {
		if p, ok := d.da.Get(dsub(h)); ok && p != nil {
			mem = append(mem, fmt.Sprintf("(%d, %s)", h, intOfIP(p.IP, d.c.Bits).String()))
		}
	}
	type sr struct {
		h int
		s string
	}
	var recs []sr
	for k, v := range d.st.data {
		h := dsubNum(k[len("/allocation/"+distPool+"/"):])
		var a allocator.DistributedAllocation
		s := fmt.Sprintf("(%d, (0, 999, 0))", h)
		if err := json.Unmarshal(v, &a); err == nil {
			if ip, n, err := net.ParseCIDR(a.Prefix); err == nil {
				ones, _ := n.Mask.Size()
				s = fmt.Sprintf("(%d, (%s, %d, %d))", h, intOfIP(ip, d.c.Bits).String(), ones, a.Epoch)
			}
		}
		recs = append(recs, sr{h, s})
	}
	sort.Slice(recs, func(i, j int) bool { return recs[i].h < recs[j].h })
	var rs []string
	for _, r := range recs {
		rs = append(rs, r.s)
	}
	d.trace = append(d.trace, vh.Pair(op, fmt.Sprintf("{| o_ret := %s; o_mem := %s; o_store := %s |}", ret, vh.List(mem), vh.List(rs))))
}

func distStats(al, tot uint64, util float64) string {
	r := new(big.Rat)
	if r.SetFloat64(util) == nil || r.Sign() < 0 {
		return fmt.Sprintf("RStats %d %d 7 0", al, tot)
	}
	return fmt.Sprintf("RStats %d %d %s %s", al, tot, r.Num().String(), r.Denom().String())
}

// Op fields used: K (alloc allocm rel renew get stats adv restart), H, PL (k > 0: the k-th store operation of the call fails), A unused.
func runDist(c Case) vh.Case {
	d := &distRun{c: c, st: &fstore{data: map[string][]byte{}}}
	if err := d.newAlloc(); err != nil {
		panic(err)
	}
	defer func() { d.stop() }()
	ctx := context.Background()
	tags := map[string]bool{"kind:dist": true, "gen:" + c.Origin: true}
	if c.Lease {
		tags["mode:lease"] = true
	} else {
		tags["mode:session"] = true
	}
	for _, o := range c.Ops {
		// o.PL = k > 0: the k-th store operation of this call fails. The Model's oracle flags say which
		// of the operations the code on the unchanged tree issues was hit (Allocate / AllocateWithMAC:
		// the Put; Release: the Delete; Renew: the Get, the Put); a fault that hits an operation the
		// Model does not know (another Get, a second Put) leaves the flags false: the Model then
		// answers as if nothing failed and the monitor judges what the implementation did.
		tags["op:"+o.K] = true
		if o.PL > 0 {
			tags[fmt.Sprintf("fault-at:%d", o.PL)] = true
		}
		d.st.arm(o.PL)
		switch o.K {
		case "alloc", "allocm":
			var p *net.IPNet
			var err error
			if o.K == "allocm" {
				p, err = d.da.AllocateWithMAC(ctx, dsub(o.H), macOf(o.H))
			} else {
				p, err = d.da.Allocate(ctx, dsub(o.H))
			}
			hit, first := d.st.hit, d.st.nops
			d.st.arm(0)
			if hit != "" {
				tags["fail:"+hit+"-hit"] = true
			}
			ret := ""
			if err != nil {
				ret = fmt.Sprintf("RErr %d", distErr(err))
			} else {
				ret = "RUnit " + intOfIP(p.IP, c.Bits).String()
			}
			d.emit(fmt.Sprintf("DAlloc %d %s %s", o.H, vh.Bool(o.K == "allocm"), vh.Bool(hit == "put" && first == 1)), ret)
		case "rel":
			err := d.da.Release(ctx, dsub(o.H))
			hit, first := d.st.hit, d.st.nops
			d.st.arm(0)
			if hit != "" {
				tags["fail:"+hit+"-hit"] = true
			}
			ret := "ROk"
			if err != nil {
				ret = fmt.Sprintf("RErr %d", distErr(err))
			}
			d.emit(fmt.Sprintf("DRelease %d %s", o.H, vh.Bool(hit == "del" && first == 1)), ret)
		case "renew":
			err := d.da.Renew(ctx, dsub(o.H))
			hit, n := d.st.hit, d.st.nops
			d.st.arm(0)
			if hit != "" {
				tags["fail:"+hit+"-hit"] = true
			}
			ret := "ROk"
			if err != nil {
				ret = fmt.Sprintf("RErr %d", distErr(err))
			}
			d.emit(fmt.Sprintf("DRenew %d %s %s", o.H, vh.Bool(hit == "get" && n == 1), vh.Bool(hit == "put" && n == 2)), ret)
		case "get":
			ret := "RNone"
			if p, ok := d.da.Get(dsub(o.H)); ok && p != nil {
				ret = "RUnit " + intOfIP(p.IP, c.Bits).String()
			}
			d.emit(fmt.Sprintf("DGet %d", o.H), ret)
		case "stats":
			s := d.da.Stats()
			d.emit("DStats", distStats(uint64(s.Allocated), uint64(s.Total), s.Utilization))
		case "adv":
			d.emit("DAdvance", fmt.Sprintf("REpoch %d", d.da.AdvanceEpoch()))
		case "restart":
			// o.H seeds the enumeration order of the reload
			var hs []int
			for k := range d.st.data {
				hs = append(hs, dsubNum(k[len("/allocation/"+distPool+"/"):]))
			}
			sort.Ints(hs)
			rr := vh.NewRng(uint64(o.H) + 1)
			for i := len(hs) - 1; i > 0; i-- {
				j := rr.Intn(i + 1)
				hs[i], hs[j] = hs[j], hs[i]
			}
			d.st.order = nil
			var ord []string
			for _, h := range hs {
				d.st.order = append(d.st.order, dkey(h))
				ord = append(ord, itoa(h))
			}
			ret := "ROk"
			if err := d.newAlloc(); err != nil {
				ret = "RErr 6"
			}
			d.emit("DRestart "+vh.List(ord), ret)
		default:
			panic("unknown dist op " + o.K)
		}
	}
	var univ []string
	for h := 0; h < c.Univ; h++ {
		univ = append(univ, itoa(h))
	}
	cfg := fmt.Sprintf("(%s, (%d, %s, %d, %d), %d, %s)", vh.Bool(c.Lease), c.Bits, c.Base, c.PPL, c.PL, c.Grace, vh.List(univ))
	var tl []string
	for t := range tags {
		tl = append(tl, t)
	}
	sort.Strings(tl)
	return vh.Case{Coq: "(" + cfg + ",\n " + vh.List(d.trace) + ")", Desc: c, Tags: tl}
}

// genDist: base histories over 4 subscribers on pools of 2-6 units; for EVERY store-writing call of
// the history one variant in which exactly that call's Put / Delete fails; each variant ends with
// reload, Stats, capacity+1 allocations by fresh subscribers, Stats.  Lease mode keeps to at most one
// AdvanceEpoch between reloads (beyond that the epoch allocator's 2-bit wrap, K05d, takes over).
func genDist(r *vh.Rng, th bool) []Case {
	var out []Case
	nb := 5
	if th {
		nb = 70
	}
	for _, lease := range []bool{false, true} {
		for b := 0; b < nb; b++ {
			rr := r.Fork()
			c := Case{Kind: "dist", Lease: lease, Bits: 32, PL: 32, Grace: 1}
			capU := 4
			if lease {
				c.PPL = 29 + rr.Intn(2) // 6 or 2 usable
				capU = 1<<(32-c.PPL) - 2
			} else {
				switch rr.Intn(3) {
				case 0:
					c.PPL = 30
				case 1:
					c.PPL, capU = 31, 2
				default:
					c.Bits, c.PPL, c.PL = 128, 62, 64 // delegated prefixes
				}
			}
			c.Base = randBase(rr, c.Bits, c.PPL).String()
			var base []Op
			n := 4 + rr.Intn(7)
			adv := false
			for len(base) < n {
				h := rr.Intn(4)
				switch x := rr.Intn(20); {
				case x < 5:
					base = append(base, Op{K: "alloc", H: h})
				case x < 9:
					base = append(base, Op{K: "allocm", H: h})
				case x < 15:
					base = append(base, Op{K: "rel", H: h})
				case x < 16 && lease:
					base = append(base, Op{K: "renew", H: h})
				case x < 17 && lease && !adv:
					adv = true
					base = append(base, Op{K: "adv"})
				case x < 19:
					base = append(base, Op{K: "stats"})
				default:
					base = append(base, Op{K: "get", H: h})
				}
			}
			suffix := []Op{{K: "restart", H: rr.Intn(1000)}, {K: "stats"}}
			for i := 0; i <= capU; i++ {
				suffix = append(suffix, Op{K: "alloc", H: 4 + i})
			}
			suffix = append(suffix, Op{K: "stats"}, Op{K: "rel", H: 4}, Op{K: "alloc", H: 3}, Op{K: "stats"})
			c.Univ = 4 + capU + 1
			mk := func(failAt, k int, origin string) {
				v := c
				v.Origin = origin
				for i, o := range base {
					if i == failAt {
						o.PL = k
					}
					v.Ops = append(v.Ops, o)
					if i == failAt {
						// look at the damage before the reload, too: Stats, and the same call again without a fault
						if rr.Bool() {
							v.Ops = append(v.Ops, Op{K: "stats"})
						}
						if rr.Bool() {
							o.PL = 0
							v.Ops = append(v.Ops, o, Op{K: "stats"})
						}
					}
				}
				v.Ops = append(v.Ops, suffix...)
				out = append(out, v)
			}
			mk(-1, 0, "no-failure")
			for i, o := range base {
				if o.K == "alloc" || o.K == "allocm" || o.K == "rel" || o.K == "renew" {
					for k := 1; k <= 3; k++ { // the k-th store operation of that call fails
						mk(i, k, "fail-at-every-call")
					}
				}
			}
		}
	}
	return out
}

func init() {
	register(&kind{name: "dist", header: "run_dist05", imports: "Model.DistAlloc Model.DistPoolCheck",
		runner: runDist, gen: genDist, onlyProp: 5})
}
