package main

import (
	"context"
	"errors"
	"fmt"
	"math/big"

	"verifharness/vh"

	"github.com/codelaboratoryltd/bng/pkg/allocator"
)

type epochPool struct{ a *allocator.EpochBitmapAllocator }

func (p *epochPool) do(o Op) string {
	ctx := context.Background()
	switch o.K {
	case "alloc":
		ip, err := p.a.Allocate(ctx, holderName(o.H))
		if err != nil {
			if errors.Is(err, allocator.ErrPoolExhausted) {
				return oErr(1)
			}
			return oErr(5)
		}
		return oUnit(intOfIP(ip, 32))
	case "renew":
		if err := p.a.Renew(ctx, holderName(o.H)); err != nil {
			if errors.Is(err, allocator.ErrNotFound) {
				return oErr(2)
			}
			return oErr(5)
		}
		return "OOk"
	case "rel":
		if err := p.a.Release(ctx, holderName(o.H)); err != nil {
			return oErr(5)
		}
		return "OOk"
	case "adv":
		p.a.AdvanceEpoch()
		return "OOk"
	case "look":
		ip := p.a.Lookup(holderName(o.H))
		if ip == nil {
			return "ONone"
		}
		return oUnit(intOfIP(ip, 32))
	case "looku":
		s := p.a.LookupByIP(ipOfInt(bigOf(o.A), 32))
		if s == "" {
			return "ONone"
		}
		h, ok := holderNum(s)
		if !ok {
			return oErr(97)
		}
		return oHolder(h)
	case "stats":
		al, tot, util := p.a.Stats()
		return oStats(al, tot, util, true)
	}
	return oErr(9)
}

func init() {
	register(&kind{
		name:   "epoch",
		header: "run_epoch",
		cfg: func(c Case) string {
			return fmt.Sprintf("(%s, %d, %d, %d)", c.Base, c.PPL, c.PL, c.Grace)
		},
		mk: func(c Case) (pool, error) {
			a, err := allocator.NewEpochBitmapAllocator(allocator.EpochBitmapConfig{
				BaseNetwork: cidr(bigOf(c.Base), 32, c.PPL), PrefixLength: c.PL, GracePeriod: c.Grace})
			if err != nil {
				return nil, err
			}
			return &epochPool{a}, nil
		},
		gen: genEpoch,
	})
}

func epochSuffix(usable int) []Op {
	l := []Op{{K: "look", H: 0}, {K: "look", H: 1}, {K: "look", H: 2}, {K: "stats"}}
	l = append(l, fillOps(10, usable+1)...)
	l = append(l, Op{K: "stats"})
	return l
}

func genEpoch(r *vh.Rng, th bool) []Case {
	var out []Case
	// exhaustive: /30 (2 usable) and /29 (6 usable), grace 1; 3 holders
	alpha := []Op{
		{K: "alloc", H: 0}, {K: "alloc", H: 1}, {K: "alloc", H: 2},
		{K: "rel", H: 0}, {K: "rel", H: 1}, {K: "renew", H: 0}, {K: "renew", H: 2}, {K: "adv"},
	}
	type g struct {
		ppl   int
		grace uint64
		ml    int
	}
	small := []g{{30, 1, 2}, {29, 1, 2}, {30, 2, 2}, {30, 3, 1}, {29, 0, 1}}
	if th {
		small = []g{{30, 1, 4}, {29, 1, 3}, {28, 1, 2}, {30, 2, 3}, {30, 3, 3}, {29, 0, 2}, {29, 2, 2}}
	}
	for _, sg := range small {
		base := randBase(r, 32, sg.ppl)
		usable := 1<<(32-sg.ppl) - 2
		for n := 1; n <= sg.ml; n++ {
			seqs(alpha, n, func(ops []Op) {
				out = append(out, Case{Kind: "epoch", Bits: 32, Base: base.String(), PPL: sg.ppl, PL: 32, Grace: sg.grace,
					Ops: append(ops, epochSuffix(usable)...), Origin: "exhaustive"})
			})
		}
	}
	if th {
		base := randBase(r, 32, 30)
		sampleSeqs(r, alpha, 5+r.Intn(3), 2000, func(ops []Op) {
			out = append(out, Case{Kind: "epoch", Bits: 32, Base: base.String(), PPL: 30, PL: 32, Grace: 1,
				Ops: append(ops, epochSuffix(2)...), Origin: "small-random"})
		})
	}
	if !th {
		base := randBase(r, 32, 30)
		sampleSeqs(r, alpha, 3, 150, func(ops []Op) {
			out = append(out, Case{Kind: "epoch", Bits: 32, Base: base.String(), PPL: 30, PL: 32, Grace: 1,
				Ops: append(ops, epochSuffix(2)...), Origin: "small-random"})
		})
		sampleSeqs(r, alpha, 5, 100, func(ops []Op) {
			out = append(out, Case{Kind: "epoch", Bits: 32, Base: base.String(), PPL: 30, PL: 32, Grace: 1,
				Ops: append(ops, epochSuffix(2)...), Origin: "small-random"})
		})
	}
	// guarded stream: grace 1, at most one advance between touches (no slot's age reaches 4 needs
	// every usable slot written: small pools, fill first)
	ng := 30
	if th {
		ng = 400
	}
	for i := 0; i < ng; i++ {
		out = append(out, genEpochGuarded(r.Fork()))
	}
	nl := 40
	if th {
		nl = 600
	}
	for i := 0; i < nl; i++ {
		out = append(out, genEpochLong(r.Fork()))
	}
	return out
}

// genEpochGuarded keeps every slot's true age below 4: the pool is filled at once and every
// holder is renewed or re-allocated at least every second epoch.
func genEpochGuarded(r *vh.Rng) Case {
	ppl := 29 + r.Intn(2)
	usable := 1<<(32-ppl) - 2
	base := randBase(r, 32, ppl)
	var ops []Op
	for h := 0; h < usable; h++ {
		ops = append(ops, Op{K: "alloc", H: h})
	}
	next := usable
	held := map[int]bool{}
	for h := 0; h < usable; h++ {
		held[h] = true
	}
	rounds := 2 + r.Intn(8)
	for k := 0; k < rounds; k++ {
		ops = append(ops, Op{K: "adv"})
		// touch every slot: renew each holder, or release it and let a fresh holder take a slot
		var hs []int
		for h := range held {
			hs = append(hs, h)
		}
		sortInts(hs)
		for _, h := range hs {
			switch r.Intn(4) {
			case 0:
				ops = append(ops, Op{K: "rel", H: h}, Op{K: "alloc", H: next})
				delete(held, h)
				held[next] = true
				next++
			case 1:
				ops = append(ops, Op{K: "alloc", H: h})
			default:
				ops = append(ops, Op{K: "renew", H: h})
			}
		}
		if r.Bool() {
			ops = append(ops, Op{K: "stats"}, Op{K: "alloc", H: 900 + k})
		}
	}
	ops = append(ops, Op{K: "stats"})
	return Case{Kind: "epoch", Bits: 32, Base: base.String(), PPL: ppl, PL: 32, Grace: 1, Ops: ops, Origin: "guarded"}
}

func sortInts(l []int) {
	for i := 1; i < len(l); i++ {
		for j := i; j > 0 && l[j] < l[j-1]; j-- {
			l[j], l[j-1] = l[j-1], l[j]
		}
	}
}

func genEpochLong(r *vh.Rng) Case {
	d := 2 + r.Intn(8)
	if r.Chance(1, 2) {
		d = 2 + r.Intn(3)
	}
	ppl := 32 - d
	base := randBase(r, 32, ppl)
	total := 1 << d
	grace := uint64(1)
	if r.Chance(1, 4) {
		grace = uint64(r.Intn(4))
	}
	nh := 2 + r.Intn(2*total)
	if nh > 120 {
		nh = 120
	}
	n := 20 + r.Intn(180)
	var ops []Op
	var lastRel []int
	for len(ops) < n {
		h := r.Intn(nh)
		switch x := r.Intn(100); {
		case x < 34:
			if len(lastRel) > 0 && r.Chance(2, 3) {
				ops = append(ops, Op{K: "alloc", H: (lastRel[len(lastRel)-1] + 1 + r.Intn(nh)) % nh})
				lastRel = lastRel[:len(lastRel)-1]
			} else {
				ops = append(ops, Op{K: "alloc", H: h})
			}
		case x < 48:
			ops = append(ops, Op{K: "rel", H: h})
			lastRel = append(lastRel, h)
		case x < 60:
			ops = append(ops, Op{K: "renew", H: h})
		case x < 70: // epoch-advance bursts 0..9
			k := r.Intn(10)
			for j := 0; j < k; j++ {
				ops = append(ops, Op{K: "adv"})
				if r.Chance(1, 3) { // renew at the grace edge
					ops = append(ops, Op{K: "renew", H: r.Intn(nh)})
				}
			}
		case x < 82:
			ops = append(ops, Op{K: "look", H: h})
		case x < 90:
			off := int64(r.Intn(total + 2))
			ops = append(ops, Op{K: "looku", A: new(big.Int).Add(base, big.NewInt(off)).String(), PL: 32})
		default:
			if total <= 256 || r.Chance(1, 6) {
				ops = append(ops, Op{K: "stats"})
			}
		}
	}
	if total <= 64 {
		ops = append(ops, Op{K: "stats"})
		ops = append(ops, fillOps(1000, total-1)...)
		ops = append(ops, Op{K: "stats"})
	}
	return Case{Kind: "epoch", Bits: 32, Base: base.String(), PPL: ppl, PL: 32, Grace: grace, Ops: ops, Origin: "long"}
}
