// C01 / C05 correspondence driver: the real pool implementations vs the Models in coq/Model
// (Bitmap.v, Epoch.v, FreeList.v, HashAlloc.v), one stream per implementation.
//
//	-prop C01|C05   selects which property's acceptor clauses the emitted case files enable.
package main

import (
	"flag"
	"fmt"
	"math/big"
	"os"
	"sort"
	"strings"

	"verifharness/vh"
)

// Op is one operation of the common pool alphabet (coq/Model/PoolSpec.v).
type Op struct {
	K  string `json:"k"`           // alloc aspec set rel relu renew adv look looku mark stats snap
	H  int    `json:"h,omitempty"` // holder number
	A  string `json:"a,omitempty"` // address as decimal integer
	PL int    `json:"pl,omitempty"`
}

// Case: a pool kind, its configuration and an operation sequence.
type Case struct {
	Kind string `json:"kind"`
	// geometry
	Bits int    `json:"bits,omitempty"` // 32 | 128
	Base string `json:"base,omitempty"` // network address as decimal integer (as written in the CIDR)
	PPL  int    `json:"ppl,omitempty"`  // pool prefix length
	PL   int    `json:"pl,omitempty"`   // allocated prefix length / delegation length
	// kind specific
	Grace  uint64     `json:"grace,omitempty"`  // epoch
	Gw     string     `json:"gw,omitempty"`     // gateway address (dhcp4pool, pppoe, localpool), decimal
	ResLo  int        `json:"reslo,omitempty"`  // dhcp4pool ReservedStart
	ResHi  int        `json:"reshi,omitempty"`  // dhcp4pool ReservedEnd
	Conc   int        `json:"conc,omitempty"`   // >0: concurrent stress with this many goroutines (ops are split round-robin)
	Race   bool       `json:"race,omitempty"`   // same-subscriber race rounds (Conc = seed of the callers-per-round sequence)
	Rounds int        `json:"rounds,omitempty"` // race: number of barrier-released rounds
	Lease  bool       `json:"lease,omitempty"`  // dist: lease mode (epoch allocator inside)
	Univ   int        `json:"univ,omitempty"`   // dist: subscribers 0..Univ-1 are observed after every op
	Ops    []Op       `json:"ops"`
	Wire   int        `json:"wire,omitempty"` // localpool: 0 Go API, 1 Go API + circuit-style IDs, 2 peer HTTP API + circuit-style IDs, 3 peer HTTP API
	Srv6   *Srv6Case  `json:"srv6,omitempty"`
	Peers  *PeersCase `json:"peers,omitempty"`  // peers: a cluster of PeerPool nodes (peers.go)   // srv6: the DHCPv6 server over its two pools (srv6.go)
	Origin string     `json:"origin,omitempty"` // generator name
}

var propFlag = flag.String("prop", "C01", "C01|C05")

func propN() int {
	if *propFlag == "C05" {
		return 5
	}
	return 1
}

func bigOf(s string) *big.Int {
	v, ok := new(big.Int).SetString(s, 10)
	if !ok {
		panic("bad integer " + s)
	}
	return v
}

func holderName(h int) string { return fmt.Sprintf("sub-%d", h) }

// Addresses are written into the case files relative to the case's base address, biased by 65536
// (value v stands for base + v - 65536; Model/PoolCheck.v [unb] undoes it before the Model and the
// acceptor see the trace).  A 128-bit literal costs coqc ~0.3 ms to type-check; offsets are small.
var curBase = new(big.Int)

const bias = 65536

func rel(v *big.Int) string {
	r := new(big.Int).Sub(v, curBase)
	r.Add(r, big.NewInt(bias))
	if r.Sign() < 0 {
		panic(fmt.Sprintf("address %s is more than %d below the base %s", v, bias, curBase))
	}
	return r.String()
}

func opCoq(o Op) string {
	a := "0"
	if o.A != "" {
		a = rel(bigOf(o.A))
	}
	switch o.K {
	case "alloc":
		return fmt.Sprintf("Alloc %d", o.H)
	case "aspec":
		return fmt.Sprintf("AllocSpec %d %s %d", o.H, a, o.PL)
	case "set":
		return fmt.Sprintf("SetAlloc %d %s %d", o.H, a, o.PL)
	case "rel":
		return fmt.Sprintf("Release %d", o.H)
	case "relu":
		return fmt.Sprintf("ReleaseUnit %s %d", a, o.PL)
	case "renew":
		return fmt.Sprintf("Renew %d", o.H)
	case "adv":
		return "Advance"
	case "look":
		return fmt.Sprintf("Lookup %d", o.H)
	case "looku":
		return fmt.Sprintf("LookupUnit %s %d", a, o.PL)
	case "mark":
		return fmt.Sprintf("MarkUnavail %s %d", a, o.PL)
	case "stats":
		return "Stats"
	case "snap":
		return "Snap"
	}
	panic("unknown op " + o.K)
}

// outputs
func oUnit(v *big.Int) string { return "OUnit " + rel(v) }
func oErr(e int) string       { return fmt.Sprintf("OErr %d", e) }
func oHolder(h int) string    { return fmt.Sprintf("OHolder %d", h) }
func oStats(al, tot uint64, util float64, hasUtil bool) string {
	num, den := "0", "0"
	if hasUtil {
		r := new(big.Rat)
		if r.SetFloat64(util) == nil || r.Sign() < 0 { // NaN / Inf / negative: not a ratio
			return fmt.Sprintf("OStats %d %d 7 0", al, tot)
		}
		num, den = r.Num().String(), r.Denom().String()
	}
	return fmt.Sprintf("OStats %d %d %s %s", al, tot, num, den)
}

type pair struct {
	h int
	u *big.Int
}

func oSnap(l []pair) string {
	sort.Slice(l, func(i, j int) bool { return l[i].h < l[j].h })
	var items []string
	for _, p := range l {
		items = append(items, fmt.Sprintf("(%d, %s)", p.h, rel(p.u)))
	}
	return "OSnap " + vh.List(items)
}

func holderNum(s string) (int, bool) {
	var h int
	if _, err := fmt.Sscanf(s, "sub-%d", &h); err != nil {
		return 0, false
	}
	return h, true
}

// pool is the implementation side of one kind.
type pool interface {
	do(o Op) string // Coq term of the observed output
}

type kind struct {
	name     string
	imports  string                          // Coq modules the case files need (default: PoolSpec + PoolCheck)
	runner   func(c Case) vh.Case            // kinds that do not go through the pool interface
	header   string                          // Coq run function of the stream
	cfg      func(c Case) string             // Coq term of the configuration
	mk       func(c Case) (pool, error)      // build the real object
	gen      func(r *vh.Rng, th bool) []Case // generated cases
	onlyProp int                             // stream only emitted for this property (0 = both)
	shard    int                             // cases per Coq file for this stream (0 = the driver's default)
}

var kinds = map[string]*kind{}
var kindOrder []string

func register(k *kind) { kinds[k.name] = k; kindOrder = append(kindOrder, k.name) }

func run(c Case) vh.Case {
	k := kinds[c.Kind]
	if k == nil {
		panic("unknown kind " + c.Kind)
	}
	if k.runner != nil {
		return k.runner(c)
	}
	curBase = bigOf(c.Base)
	p, err := k.mk(c)
	if err != nil {
		panic(fmt.Sprintf("cannot build %s pool for %+v: %v", c.Kind, c, err))
	}
	var tr []string
	tags := map[string]bool{"kind:" + c.Kind: true}
	if c.Origin != "" {
		tags["gen:"+c.Origin] = true
	}
	if c.Race {
		return runRace(c, p)
	}
	if c.Conc > 0 {
		return runConc(c, p)
	}
	{
		for _, o := range c.Ops {
			out := safeDo(p, o)
			tr = append(tr, vh.Pair(opCoq(o), out))
			tags["op:"+o.K] = true
			tags["out:"+strings.SplitN(out, " ", 2)[0]] = true
			if strings.HasPrefix(out, "OErr") {
				tags["err:"+out[5:]] = true
			}
		}
	}
	var tl []string
	for t := range tags {
		tl = append(tl, t)
	}
	sort.Strings(tl)
	return vh.Case{Coq: "(" + k.cfg(c) + ",\n  " + vh.List(tr) + ")", Desc: c, Tags: tl}
}

func safeDo(p pool, o Op) (out string) {
	defer func() {
		if r := recover(); r != nil {
			out = "OErr 99" // panic in the implementation: never equal to a Model output
		}
	}()
	return p.do(o)
}

func header(k *kind) string {
	imp := k.imports
	if imp == "" {
		imp = "Model.PoolSpec Model.PoolCheck"
	}
	return fmt.Sprintf(`From Coq Require Import NArith List. Import ListNotations.
From Verif Require Import %s.
Local Open Scope N_scope.
Definition cases : list %s := [
`, imp, k.header+"_case")
}

func footer(k *kind) string {
	return fmt.Sprintf(`
].
Definition R := Eval vm_compute in %s %d cases.
Print R.
`, k.header, propN())
}

func main() {
	only := flag.String("kinds", "", "comma separated kinds (default all)")
	cfg := vh.ParseFlags()
	if cfg.Shard == 250 { // cases are small; starting coqc costs more than evaluating a shard
		cfg.Shard = 1200
	}
	sel := map[string]bool{}
	for _, s := range strings.Split(*only, ",") {
		if s != "" {
			sel[s] = true
		}
	}
	if cfg.Replay != "" {
		var c Case
		if err := vh.LoadReplay(cfg.Replay, &c); err != nil {
			panic(err)
		}
		k := kinds[c.Kind]
		if c.Race {
			k = kinds["race"]
		} else if c.Conc > 0 {
			k = kinds["concurrent"]
		}
		vh.Emit(cfg, k.name, header(k), footer(k), []vh.Case{run(c)}, nil)
		return
	}
	// corpus first: one stream per kind, named corpus_<kind>
	byKind := map[string][]vh.Case{}
	for _, f := range vh.CorpusFiles(cfg) {
		var c Case
		if err := vh.LoadReplay(f, &c); err != nil {
			panic(fmt.Sprintf("%s: %v", f, err))
		}
		if kinds[c.Kind] == nil {
			fmt.Fprintln(os.Stderr, "corpus case of unknown kind skipped:", f)
			continue
		}
		sk := c.Kind
		if c.Race {
			sk = "race"
		} else if c.Conc > 0 {
			sk = "concurrent"
		}
		if op := kinds[sk].onlyProp; op != 0 && op != propN() {
			continue
		}
		byKind[sk] = append(byKind[sk], run(c))
	}
	for _, name := range kindOrder {
		if cs := byKind[name]; len(cs) > 0 {
			k := kinds[name]
			vh.Emit(cfg, "corpus_"+name, header(k), footer(k), cs, nil)
		}
	}
	root := vh.NewRng(cfg.Seed)
	for _, name := range kindOrder {
		r := root.Fork()
		if len(sel) > 0 && !sel[name] {
			continue
		}
		k := kinds[name]
		if k.gen == nil || (k.onlyProp != 0 && k.onlyProp != propN()) {
			continue
		}
		var out []vh.Case
		for _, c := range k.gen(r, cfg.Thorough()) {
			out = append(out, run(c))
		}
		ecfg := cfg
		if k.shard > 0 {
			ecfg.Shard = k.shard
		}
		vh.Emit(ecfg, name, header(k), footer(k), out, map[string]interface{}{
			"exhaustive": "origin 'exhaustive' = every operation sequence over the stream's alphabet up to the stated length on the smallest pools (quick: length 2 + a sample of length 3; thorough: length 4-5), followed by a fixed observation suffix (lookups, stats, fill to exhaustion)"})
	}
}
