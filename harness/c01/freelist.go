package main

import (
	"bytes"
	"context"
	"encoding/json"
	"fmt"
	"io"
	"math/big"
	"net"
	"net/http"
	"net/http/httptest"
	neturl "net/url"
	"strings"

	"verifharness/vh"

	"github.com/codelaboratoryltd/bng/pkg/dhcp"
	"github.com/codelaboratoryltd/bng/pkg/dhcpv6"
	peerpool "github.com/codelaboratoryltd/bng/pkg/pool"
	"github.com/codelaboratoryltd/bng/pkg/pppoe"
)

func macOf(h int) net.HardwareAddr {
	return net.HardwareAddr{0x02, 0x00, 0x00, byte(h >> 16), byte(h >> 8), byte(h)}
}

func unitOrExhausted(ip net.IP, bits int) string {
	if ip == nil {
		return oErr(1)
	}
	return oUnit(intOfIP(ip, bits))
}

// ---- dhcp.Pool ----
type dhcp4Pool struct{ p *dhcp.Pool }

func (d *dhcp4Pool) do(o Op) string {
	switch o.K {
	case "alloc":
		ip, err := d.p.Allocate(macOf(o.H))
		if err != nil {
			if strings.Contains(err.Error(), "exhausted") {
				return oErr(1)
			}
			return oErr(5)
		}
		return oUnit(intOfIP(ip, 32))
	case "relu":
		d.p.Release(ipOfInt(bigOf(o.A), 32))
		return "OOk"
	case "aspec":
		if d.p.Reserve(macOf(o.H), ipOfInt(bigOf(o.A), 32)) {
			return "OOk"
		}
		return oErr(3)
	case "mark":
		d.p.MarkUnavailable(ipOfInt(bigOf(o.A), 32))
		return "OOk"
	case "stats":
		st := d.p.Stats()
		if st.Available != st.Total-st.Allocated {
			return oErr(96)
		}
		return oStats(uint64(st.Allocated), uint64(st.Total), 0, false)
	}
	return oErr(9)
}

// ---- dhcpv6 pools ----
type v6AddrPool struct{ p *dhcpv6.AddressPool }

func (d *v6AddrPool) do(o Op) string {
	switch o.K {
	case "alloc":
		return unitOrExhausted(d.p.Allocate(holderName(o.H)), 128)
	case "rel":
		d.p.Release(holderName(o.H))
		return "OOk"
	}
	return oErr(9)
}

type v6PrefixPool struct {
	p    *dhcpv6.PrefixPool
	dlen int
}

func (d *v6PrefixPool) do(o Op) string {
	switch o.K {
	case "alloc":
		n := d.p.Allocate(holderName(o.H))
		if n == nil {
			return oErr(1)
		}
		if ones, bits := n.Mask.Size(); ones != d.dlen || bits != 128 {
			return oErr(98)
		}
		return oUnit(intOfIP(n.IP, 128))
	case "rel":
		d.p.Release(holderName(o.H))
		return "OOk"
	}
	return oErr(9)
}

// ---- pppoe.IPPool ----
type pppoePool struct{ p *pppoe.IPPool }

func (d *pppoePool) do(o Op) string {
	switch o.K {
	case "alloc":
		return unitOrExhausted(d.p.Allocate(holderName(o.H)), 32)
	case "rel":
		d.p.Release(holderName(o.H))
		return "OOk"
	}
	return oErr(9)
}

// ---- pool.LocalPool through a single-node PeerPool ----
// Case.Wire selects HOW the owner node is reached and what the subscriber IDs look like:
//
//	0 Go API, "sub-N"                        1 Go API, circuit-style IDs ("olt-7/1/3/N", with '/', ' ', '?', '%', '#')
//	2 peer HTTP API (RegisterHandlers: POST /pool/allocate, DELETE /pool/release/{id}, GET /pool/get/{id},
//	  GET /pool/status - what a non-owner node's forwardAllocation / forwardRelease send), circuit-style IDs
//	3 peer HTTP API, "sub-N"
//
// The Model is the same for all four (the handlers are thin wrappers of allocateLocal / releaseLocal / Get).
type localPool struct {
	p    *peerpool.PeerPool
	wire int
	mux  *http.ServeMux
}

func (d *localPool) name(h int) string {
	if d.wire == 1 || d.wire == 2 {
		switch h % 3 {
		case 0:
			return fmt.Sprintf("olt-7/1/3/%d", h)
		case 1:
			return fmt.Sprintf("olt 7/%d?port=%%2F#%d", h, h)
		}
		return fmt.Sprintf("%d/eth 0/1/%d/", h, h)
	}
	return holderName(h)
}

func (d *localPool) call(method, path string, body []byte) *httptest.ResponseRecorder {
	var rd io.Reader
	if body != nil {
		rd = bytes.NewReader(body)
	}
	req := httptest.NewRequest(method, "http://node-a"+path, rd)
	rec := httptest.NewRecorder()
	d.mux.ServeHTTP(rec, req)
	return rec
}

func (d *localPool) do(o Op) string {
	ctx := context.Background()
	api := d.wire >= 2
	id := d.name(o.H)
	switch o.K {
	case "alloc":
		var r *peerpool.AllocationResponse
		if api {
			b, _ := json.Marshal(peerpool.AllocationRequest{SubscriberID: id, MAC: macOf(o.H).String()})
			rec := d.call("POST", "/pool/allocate", b)
			if rec.Code != 200 {
				if strings.Contains(rec.Body.String(), "exhausted") {
					return oErr(1)
				}
				return oErr(5)
			}
			r = &peerpool.AllocationResponse{}
			if err := json.Unmarshal(rec.Body.Bytes(), r); err != nil {
				return oErr(98)
			}
		} else {
			var err error
			r, err = d.p.Allocate(ctx, id, macOf(o.H))
			if err != nil {
				if strings.Contains(err.Error(), "exhausted") {
					return oErr(1)
				}
				return oErr(5)
			}
		}
		ip := net.ParseIP(r.IP)
		if ip == nil || r.SubscriberID != id {
			return oErr(98)
		}
		return oUnit(intOfIP(ip, 32))
	case "rel":
		if api { // as forwardRelease builds it
			if rec := d.call("DELETE", "/pool/release/"+neturl.PathEscape(id), nil); rec.Code != 200 && rec.Code != 204 {
				return oErr(5)
			}
			return "OOk"
		}
		if err := d.p.Release(ctx, id); err != nil {
			return oErr(5)
		}
		return "OOk"
	case "look":
		if api {
			rec := d.call("GET", "/pool/get/"+neturl.PathEscape(id), nil)
			if rec.Code == 404 {
				return "ONone"
			}
			r := &peerpool.AllocationResponse{}
			if rec.Code != 200 || json.Unmarshal(rec.Body.Bytes(), r) != nil || r.SubscriberID != id {
				return oErr(98)
			}
			return oUnit(intOfIP(net.ParseIP(r.IP), 32))
		}
		r, ok := d.p.Get(id)
		if !ok {
			return "ONone"
		}
		return oUnit(intOfIP(net.ParseIP(r.IP), 32))
	case "stats":
		st := d.p.Stats()
		if api {
			rec := d.call("GET", "/pool/status", nil)
			if rec.Code != 200 || json.Unmarshal(rec.Body.Bytes(), &st) != nil {
				return oErr(98)
			}
		}
		if st.Available != st.Total-st.Allocated {
			return oErr(96)
		}
		return oStats(uint64(st.Allocated), uint64(st.Total), 0, false)
	}
	return oErr(9)
}

// pppoeIdem tells the Model whether pppoe.IPPool.Allocate is idempotent per session in the tree under
// test; it is measured on a scratch pool so that the Model follows the code (the tie then checks every
// history against that variant, and the Spec acceptor judges the observed behaviour either way).
func flCfg(kindNo int, nums ...string) string {
	return fmt.Sprintf("(%d, %s)", kindNo, vh.List(nums))
}

func init() {
	register(&kind{name: "dhcp4pool", header: "run_freelist_checked",
		cfg: func(c Case) string { return flCfg(1, c.Base, itoa(c.PPL), itoa(c.ResLo), itoa(c.ResHi), c.Gw) },
		mk: func(c Case) (pool, error) {
			p, err := dhcp.NewPool(dhcp.PoolConfig{ID: 1, Name: "p", Network: cidr(bigOf(c.Base), 32, c.PPL),
				Gateway: ipOfInt(bigOf(c.Gw), 32).String(), ReservedStart: c.ResLo, ReservedEnd: c.ResHi})
			if err != nil {
				return nil, err
			}
			return &dhcp4Pool{p}, nil
		},
		gen: func(r *vh.Rng, th bool) []Case { return genFreeList(r, th, "dhcp4pool") }})
	register(&kind{name: "v6addr", header: "run_freelist_checked",
		cfg: func(c Case) string { return flCfg(2, c.Base, itoa(c.PPL)) },
		mk: func(c Case) (pool, error) {
			p, err := dhcpv6.NewAddressPool(cidr(bigOf(c.Base), 128, c.PPL), 3600, 7200)
			if err != nil {
				return nil, err
			}
			return &v6AddrPool{p}, nil
		},
		gen: func(r *vh.Rng, th bool) []Case { return genFreeList(r, th, "v6addr") }})
	register(&kind{name: "v6prefix", header: "run_freelist_checked",
		cfg: func(c Case) string { return flCfg(3, c.Base, itoa(c.PPL), itoa(c.PL)) },
		mk: func(c Case) (pool, error) {
			p, err := dhcpv6.NewPrefixPool(cidr(bigOf(c.Base), 128, c.PPL), uint8(c.PL), 3600, 7200)
			if err != nil {
				return nil, err
			}
			return &v6PrefixPool{p, c.PL}, nil
		},
		gen: func(r *vh.Rng, th bool) []Case { return genFreeList(r, th, "v6prefix") }})
	register(&kind{name: "pppoe", header: "run_freelist_checked",
		cfg: func(c Case) string { return flCfg(4, c.Base, itoa(c.PPL), c.Gw, itoa(pppoeIdem())) },
		mk: func(c Case) (pool, error) {
			p, err := pppoe.NewIPPool(cidr(bigOf(c.Base), 32, c.PPL), ipOfInt(bigOf(c.Gw), 32).String())
			if err != nil {
				return nil, err
			}
			return &pppoePool{p}, nil
		},
		gen: func(r *vh.Rng, th bool) []Case { return genFreeList(r, th, "pppoe") }})
	register(&kind{name: "localpool", header: "run_freelist_checked",
		cfg: func(c Case) string { return flCfg(5, c.Base, itoa(c.PPL), c.Gw) },
		mk: func(c Case) (pool, error) {
			p, err := peerpool.NewPeerPool(peerpool.PeerPoolConfig{NodeID: "node-a", Network: cidr(bigOf(c.Base), 32, c.PPL),
				Gateway: ipOfInt(bigOf(c.Gw), 32).String()})
			if err != nil {
				return nil, err
			}
			mux := http.NewServeMux()
			p.RegisterHandlers(mux)
			return &localPool{p: p, wire: c.Wire, mux: mux}, nil
		},
		gen: func(r *vh.Rng, th bool) []Case {
			cs := genFreeList(r, th, "localpool")
			for i := range cs { // every transport / ID shape gets every generator's cases in turn
				cs[i].Wire = i % 4
			}
			return cs
		}})
}

var pppoeIdemCache = -1

func pppoeIdem() int {
	if pppoeIdemCache < 0 {
		p, err := pppoe.NewIPPool("192.0.2.0/29", "192.0.2.1")
		if err != nil {
			panic(err)
		}
		a, b := p.Allocate("probe"), p.Allocate("probe")
		pppoeIdemCache = 0
		if a != nil && b != nil && a.Equal(b) {
			pppoeIdemCache = 1
		}
	}
	return pppoeIdemCache
}

// ---- generators ----

func flAlphabet(kindName string, base *big.Int, units int) []Op {
	a := []Op{{K: "alloc", H: 0}, {K: "alloc", H: 1}, {K: "alloc", H: 2}}
	one := big.NewInt(1)
	switch kindName {
	case "dhcp4pool":
		for i := int64(1); i <= 3; i++ {
			u := addr(base, one, i)
			a = append(a, Op{K: "relu", A: u, PL: 32})
		}
		a = append(a, Op{K: "mark", A: addr(base, one, 1), PL: 32}, Op{K: "mark", A: addr(base, one, 2), PL: 32},
			Op{K: "aspec", H: 0, A: addr(base, one, 2), PL: 32}, Op{K: "aspec", H: 1, A: addr(base, one, 2), PL: 32},
			Op{K: "aspec", H: 1, A: addr(base, one, 0), PL: 32})
	default:
		a = append(a, Op{K: "rel", H: 0}, Op{K: "rel", H: 1}, Op{K: "rel", H: 2})
	}
	return a
}

func flSuffix(kindName string, units int) []Op {
	var l []Op
	if kindName == "localpool" {
		l = append(l, Op{K: "look", H: 0}, Op{K: "look", H: 1}, Op{K: "look", H: 2})
	}
	if kindName == "localpool" || kindName == "dhcp4pool" {
		l = append(l, Op{K: "stats"})
	}
	l = append(l, Op{K: "alloc", H: 0}, Op{K: "alloc", H: 1}) // ask again
	l = append(l, fillOps(10, units+1)...)
	if kindName == "localpool" || kindName == "dhcp4pool" {
		l = append(l, Op{K: "stats"})
	}
	return l
}

func flCase(r *vh.Rng, kindName string, d int) (Case, *big.Int, int) {
	c := Case{Kind: kindName}
	switch kindName {
	case "dhcp4pool", "pppoe", "localpool":
		c.Bits, c.PPL, c.PL = 32, 32-d, 32
		base := randBase(r, 32, c.PPL)
		c.Base = base.String()
		gwOff := int64(1)
		if r.Bool() {
			gwOff = int64(r.Intn(1 << d))
		}
		if r.Chance(1, 5) {
			gwOff = -1 // gateway outside the pool
		}
		c.Gw = new(big.Int).Add(base, big.NewInt(gwOff)).String()
		if c.Gw[0] == '-' {
			c.Gw = "1"
		}
		if kindName == "dhcp4pool" && r.Chance(1, 3) {
			c.ResLo, c.ResHi = r.Intn(3), r.Intn(3)
		}
		return c, base, 1 << d
	case "v6addr":
		c.Bits, c.PPL, c.PL = 128, 128-d, 128
		base := randBase(r, 128, c.PPL)
		c.Base = base.String()
		return c, base, 1 << d
	default: // v6prefix
		c.Bits = 128
		c.PL = 48 + r.Intn(17)
		if r.Chance(1, 4) {
			c.PL = 1 + d + r.Intn(128-d)
		}
		c.PPL = c.PL - d
		base := randBase(r, 128, c.PPL)
		c.Base = base.String()
		return c, base, 1 << d
	}
}

func genFreeList(r *vh.Rng, th bool, kindName string) []Case {
	var out []Case
	// exhaustive: pools of 2, 3/4, 8 addresses (d = 2: /30 has 2 hosts for v4, 3 addresses for v6addr, 4 prefixes)
	ds := []int{2, 3}
	ml := 2
	if th {
		ml = 4
		if kindName == "dhcp4pool" {
			ml = 3
		}
	}
	if kindName == "v6prefix" {
		ds = []int{1, 2, 3}
	}
	for _, d := range ds {
		c0, base, units := flCase(r, kindName, d)
		alpha := flAlphabet(kindName, base, units)
		m := ml
		if d == 3 && m > 2 {
			m--
		}
		for n := 1; n <= m; n++ {
			seqs(alpha, n, func(ops []Op) {
				c := c0
				c.Ops = append(ops, flSuffix(kindName, units)...)
				c.Origin = "exhaustive"
				out = append(out, c)
			})
		}
		if !th {
			sampleSeqs(r, alpha, 3+r.Intn(3), 40, func(ops []Op) {
				c := c0
				c.Ops = append(ops, flSuffix(kindName, units)...)
				c.Origin = "small-random"
				out = append(out, c)
			})
		}
	}
	nl := 30
	if th {
		nl = 400
	}
	for i := 0; i < nl; i++ {
		rr := r.Fork()
		d := 2 + rr.Intn(7)
		if kindName == "v6prefix" && rr.Chance(1, 6) {
			d = 10 + rr.Intn(3) // more than 1000 prefixes: the constructor caps the pool
		}
		if kindName == "v6addr" && rr.Chance(1, 6) {
			d = 10 + rr.Intn(60)
		}
		c, base, units := flCase(rr, kindName, d)
		if units > 1200 {
			units = 1200
		}
		nh := 2 + rr.Intn(2*units)
		if nh > 150 {
			nh = 150
		}
		n := 20 + rr.Intn(180)
		var lastRel []int
		one := big.NewInt(1)
		for len(c.Ops) < n {
			h := rr.Intn(nh)
			x := rr.Intn(100)
			switch {
			case x < 45:
				if len(lastRel) > 0 && rr.Chance(2, 3) {
					c.Ops = append(c.Ops, Op{K: "alloc", H: (lastRel[len(lastRel)-1] + 1 + rr.Intn(nh)) % nh})
					lastRel = lastRel[:len(lastRel)-1]
				} else {
					c.Ops = append(c.Ops, Op{K: "alloc", H: h})
				}
			case x < 75:
				if kindName == "dhcp4pool" {
					c.Ops = append(c.Ops, Op{K: "relu", A: addr(base, one, int64(rr.Intn(units+1))), PL: 32})
				} else {
					c.Ops = append(c.Ops, Op{K: "rel", H: h})
					lastRel = append(lastRel, h)
				}
			case x < 80 && kindName == "dhcp4pool":
				c.Ops = append(c.Ops, Op{K: "mark", A: addr(base, one, int64(rr.Intn(units+1))), PL: 32})
			case x < 88 && kindName == "dhcp4pool":
				c.Ops = append(c.Ops, Op{K: "aspec", H: h, A: addr(base, one, int64(rr.Intn(units+1))), PL: 32})
			case x < 90 && kindName == "localpool":
				c.Ops = append(c.Ops, Op{K: "look", H: h})
			case x < 96 && (kindName == "localpool" || kindName == "dhcp4pool"):
				c.Ops = append(c.Ops, Op{K: "stats"})
			default:
				c.Ops = append(c.Ops, Op{K: "alloc", H: h})
			}
		}
		if units <= 64 {
			c.Ops = append(c.Ops, fillOps(1000, units+1)...)
		}
		if kindName == "localpool" || kindName == "dhcp4pool" {
			c.Ops = append(c.Ops, Op{K: "stats"})
		}
		c.Origin = "long"
		out = append(out, c)
	}
	return out
}
