package main

// Same-subscriber race rounds (C01 "under concurrent callers", C05 no leaked unit): in every round
// 2..16 goroutines leave a spinning barrier together and call Allocate for ONE fresh subscriber id
// of one real pool object; a background goroutine keeps allocating and releasing other subscribers.
// Every return value is recorded (distinct values per round), then what the pool holds for each
// round's subscriber, the statistics, and how many more units can be obtained.  Coq evaluates the
// Spec on that (Model/PoolCheck.v run_race).  Sampled schedules: validation, not proof.

import (
	"fmt"
	"math/big"
	"runtime"
	"strings"
	"sync"
	"sync/atomic"

	"verifharness/vh"
)

const raceCallersMax = 16

func unrel(s string) *big.Int { // inverse of rel()
	v := bigOf(s)
	v.Sub(v, big.NewInt(bias))
	return v.Add(v, curBase)
}

func callersOf(seed, r int) int { return 2 + (seed+r*7)%(raceCallersMax-1) }

func runRace(c Case, p pool) vh.Case {
	rounds, seed := c.Rounds, c.Conc
	rets := make([][]string, raceCallersMax) // rets[g][r]
	for g := range rets {
		rets[g] = make([]string, rounds)
	}
	var arrived atomic.Int64
	var done atomic.Bool
	var wg, bg sync.WaitGroup
	// background writer: other subscribers come and go; it gives everything back at the end
	bg.Add(1)
	go func() {
		defer bg.Done()
		held := map[int]string{}
		i := 0
		for !done.Load() {
			h := 500000 + i%24
			i++
			if v, ok := held[h]; ok {
				if c.Kind == "dhcp4pool" {
					safeDo(p, Op{K: "relu", A: unrel(v).String(), PL: 32})
				} else {
					safeDo(p, Op{K: "rel", H: h})
				}
				delete(held, h)
			} else if out := safeDo(p, Op{K: "alloc", H: h}); strings.HasPrefix(out, "OUnit ") {
				held[h] = out[6:]
			}
			if i%8 == 0 {
				runtime.Gosched()
			}
		}
		for h, v := range held {
			if c.Kind == "dhcp4pool" {
				safeDo(p, Op{K: "relu", A: unrel(v).String(), PL: 32})
			} else {
				safeDo(p, Op{K: "rel", H: h})
			}
		}
	}()
	for g := 0; g < raceCallersMax; g++ {
		wg.Add(1)
		go func(g int) {
			defer wg.Done()
			for r := 0; r < rounds; r++ {
				arrived.Add(1)
				for arrived.Load() < int64((r+1)*raceCallersMax) { // barrier: everybody enters round r together
					runtime.Gosched()
				}
				if g < callersOf(seed, r) {
					rets[g][r] = safeDo(p, Op{K: "alloc", H: 1000 + r})
				}
			}
		}(g)
	}
	wg.Wait()
	done.Store(true)
	bg.Wait()

	hasLookup := c.Kind == "bitmap" || c.Kind == "epoch" || c.Kind == "localpool"
	var rows []string
	doubles := 0
	for r := 0; r < rounds; r++ {
		seen := map[string]bool{}
		var vals []string
		for g := 0; g < raceCallersMax; g++ {
			if out := rets[g][r]; strings.HasPrefix(out, "OUnit ") && !seen[out[6:]] {
				seen[out[6:]] = true
				vals = append(vals, out[6:])
			}
		}
		if len(vals) > 1 {
			doubles++
		}
		table := ""
		if hasLookup {
			if out := safeDo(p, Op{K: "look", H: 1000 + r}); strings.HasPrefix(out, "OUnit ") {
				table = out[6:]
			}
		} else if len(vals) > 0 { // asking again is the only way to read the table
			if out := safeDo(p, Op{K: "alloc", H: 1000 + r}); strings.HasPrefix(out, "OUnit ") {
				table = out[6:]
			}
		}
		rows = append(rows, fmt.Sprintf("(%d, %s, [%s])", 1000+r, vh.List(vals), table))
	}
	stats := "(0, 0)"
	if c.Kind == "bitmap" || c.Kind == "dhcp4pool" || c.Kind == "localpool" || c.Kind == "epoch" {
		if out := safeDo(p, Op{K: "stats"}); strings.HasPrefix(out, "OStats ") {
			stats = fmt.Sprintf("(%s, 1)", strings.Fields(out)[1])
		}
	}
	free := 0
	for i := 0; i < 5000; i++ {
		if out := safeDo(p, Op{K: "alloc", H: 900000 + i}); !strings.HasPrefix(out, "OUnit ") {
			break
		}
		free++
	}
	coq := fmt.Sprintf("((%d, %s), %s, %s, %d)", concTag[c.Kind], vh.List(concNums(c)), vh.List(rows), stats, free)
	tags := []string{"race", "kind:" + c.Kind, fmt.Sprintf("rounds:%d", rounds)}
	if doubles > 0 {
		tags = append(tags, "race:double-assignment-seen")
	}
	return vh.Case{Coq: coq, Desc: c, Tags: tags}
}

func genRace(r *vh.Rng, th bool) []Case {
	if runtime.GOMAXPROCS(0) < 8 {
		runtime.GOMAXPROCS(8)
	}
	var out []Case
	n, rounds := 2, 300
	if th {
		n, rounds = 12, 600
	}
	for _, kn := range []string{"bitmap", "epoch", "dhcp4pool", "v6addr", "v6prefix", "pppoe", "localpool"} {
		for i := 0; i < n; i++ {
			rr := r.Fork()
			d := 10 // 1024 units (v6 pools: the constructors cap at 1000)
			var c Case
			switch kn {
			case "bitmap":
				c = Case{Kind: kn, Bits: 32, PPL: 32 - d, PL: 32}
				if rr.Bool() {
					c = Case{Kind: kn, Bits: 128, PPL: 64 - d, PL: 64}
				}
				c.Base = randBase(rr, c.Bits, c.PPL).String()
			case "epoch":
				c = Case{Kind: kn, Bits: 32, PPL: 32 - d, PL: 32, Grace: 1}
				c.Base = randBase(rr, 32, c.PPL).String()
			default:
				c, _, _ = flCase(rr, kn, d)
				c.ResLo, c.ResHi = 0, 0
			}
			c.Rounds = rounds
			c.Conc = 1 + rr.Intn(1000) // seed of the callers-per-round sequence
			c.Race = true
			c.Origin = "race"
			out = append(out, c)
		}
	}
	return out
}

func init() {
	register(&kind{name: "race", header: "run_race", gen: genRace})
}
