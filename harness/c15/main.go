// C15 correspondence driver: real radius.CoAServer on a loopback UDP socket vs Model/Coa.v.
//
// Every datagram of a case is sent to a real CoAServer (unmodified receiveLoop; the listener
// goroutine is started through the verif hook that recovers a panic and reports it). Observed per
// datagram: the handler invocations (kind + the request the handler received), the datagrams that
// came back on the client socket, or a panic. A signed "sync" request follows every datagram; when
// its response arrives the datagram before it has been fully processed (the loop is sequential,
// loopback UDP between two sockets keeps order). The sync requests are ordinary steps of the trace.
//
// Independently of the server the driver computes with crypto/md5 (a) the boolean "complete and the
// Request Authenticator verifies" and (b) the digest table the Coq side uses as its H.
package main

import (
	"bufio"
	"bytes"
	"context"
	"crypto/hmac"
	"crypto/md5"
	"encoding/binary"
	"encoding/json"
	"fmt"
	"net"
	"os"
	"os/exec"
	"strings"
	"sync"
	"time"

	"verifharness/vh"

	"github.com/codelaboratoryltd/bng/pkg/radius"
	"go.uber.org/zap"
)

// ---------------------------------------------------------------- case description (replayable)

type Dg struct {
	B     []byte `json:"b"`
	Ok    bool   `json:"ok"`              // what the installed handler answers for this datagram
	Cause uint32 `json:"cause,omitempty"` //
	Msg   []byte `json:"msg,omitempty"`   //
	Tag   string `json:"tag,omitempty"`
	// claim about the request's Message-Authenticator (attribute 80), checked on the Coq side against a
	// Gallina HMAC-MD5: 0 no claim, 1 first attribute 80 carries the valid HMAC-MD5, 2 present but not valid
	Ma int `json:"ma,omitempty"`
}
type Case struct {
	Secret  []byte `json:"secret"`
	CoA     bool   `json:"coa"`               // CoA handler installed
	DM      bool   `json:"dm"`                // Disconnect handler installed
	Mode    string `json:"mode,omitempty"`    // "" hook (recover-safe) | "e2e" plain Start() in a child process | "proc" real CoAProcessor handlers | "burst" | "dual"
	Burst   int    `json:"burst,omitempty"`   // burst mode: this many datagrams are written back to back before the sync request
	Secret2 []byte `json:"secret2,omitempty"` // dual mode: secret of the second listener running next to the first
	Md5     bool   `json:"md5,omitempty"`     // evaluate the first steps with the Gallina MD5 instead of the table
	Dgs     []Dg   `json:"dgs"`
	Family  string `json:"family,omitempty"`
}

// ---------------------------------------------------------------- observation

type Req struct {
	Session, User   []byte
	NASIP, Framed   []byte // nil = not set
	Calling, Acct   []byte
	STimeout, ITime uint32
	Filter          []byte
	Attrs           []radius.Attribute
}
type Call struct {
	Kind int
	Req  Req
	Sync bool
}
type Obs struct {
	Panic bool
	Calls []Call
	Resps [][]byte
	// answer the handler really gave (proc mode), to feed the Model's handler oracle
	HOk    bool
	HCause uint32
	HMsg   []byte
	HSet   bool
}

const syncUser = "\x00s"

var globalTimeouts int // sync requests of this run that were never answered

func buildReq(code, id byte, attrs []byte, secret []byte) []byte {
	p := make([]byte, 20+len(attrs))
	p[0], p[1] = code, id
	binary.BigEndian.PutUint16(p[2:4], uint16(len(p)))
	copy(p[20:], attrs)
	sign(p, len(p), secret)
	return p
}

// sign writes the Request Authenticator for the packet p[:l] (RFC 5176: zero authenticator while hashing)
func sign(p []byte, l int, secret []byte) {
	h := md5.New()
	h.Write(p[:4])
	h.Write(make([]byte, 16))
	h.Write(p[20:l])
	h.Write(secret)
	copy(p[4:20], h.Sum(nil))
}

func attr(t byte, v []byte) []byte { return append([]byte{t, byte(2 + len(v))}, v...) }

// independent verdict: complete RADIUS packet whose Request Authenticator verifies under secret
func reqKey(dg, secret []byte) ([]byte, bool) {
	n := len(dg)
	if n > 4096 {
		n = 4096
	}
	if n < 20 {
		return nil, false
	}
	l := int(binary.BigEndian.Uint16(dg[2:4]))
	if l < 20 || l > n {
		return nil, false
	}
	k := append([]byte{}, dg[:4]...)
	k = append(k, make([]byte, 16)...)
	k = append(k, dg[20:l]...)
	k = append(k, secret...)
	return k, true
}
func respKey(dg, r, secret []byte) []byte {
	k := append([]byte{}, r[:4]...)
	k = append(k, dg[4:20]...)
	k = append(k, r[20:]...)
	k = append(k, secret...)
	return k
}

// ---------------------------------------------------------------- running against the real server

type server struct {
	srv      *radius.CoAServer
	cancel   context.CancelFunc
	ctx      context.Context
	panicCh  chan string
	cli      *net.UDPConn
	respCh   chan []byte
	mu       sync.Mutex
	calls    []Call
	cur      *Dg // handler answer for the datagram under test
	lastAns  *Obs
	proc     *radius.CoAProcessor
	timeouts int
	effects  int // terminator / policy-updater invocations (proc mode)
}

func ipb(ip net.IP) []byte {
	if ip == nil {
		return nil
	}
	return append([]byte{}, ip...)
}

func (s *server) onCoA(ctx context.Context, r *radius.CoARequest) *radius.CoAResponse {
	s.mu.Lock()
	defer s.mu.Unlock()
	sync := r.Username == syncUser
	s.calls = append(s.calls, Call{Kind: 43, Sync: sync, Req: Req{Session: []byte(r.SessionID), User: []byte(r.Username), NASIP: ipb(r.NASIPAddress),
		Framed: ipb(r.FramedIP), Calling: []byte(r.CallingStation), STimeout: r.SessionTimeout, ITime: r.IdleTimeout,
		Filter: []byte(r.FilterID), Attrs: append([]radius.Attribute{}, r.Attributes...)}})
	if sync {
		return &radius.CoAResponse{Success: true}
	}
	if s.proc != nil {
		a := s.proc.HandleCoA(ctx, r)
		s.lastAns = &Obs{HSet: true, HOk: a.Success, HCause: a.ErrorCause, HMsg: []byte(a.Message)}
		return a
	}
	return &radius.CoAResponse{Success: s.cur.Ok, ErrorCause: s.cur.Cause, Message: string(s.cur.Msg)}
}
func (s *server) onDM(ctx context.Context, r *radius.DisconnectRequest) *radius.DisconnectResponse {
	s.mu.Lock()
	defer s.mu.Unlock()
	sync := r.Username == syncUser
	s.calls = append(s.calls, Call{Kind: 40, Sync: sync, Req: Req{Session: []byte(r.SessionID), User: []byte(r.Username), NASIP: ipb(r.NASIPAddress),
		Framed: ipb(r.FramedIP), Calling: []byte(r.CallingStation), Acct: []byte(r.AcctSessionID)}})
	if sync {
		return &radius.DisconnectResponse{Success: true}
	}
	if s.proc != nil {
		a := s.proc.HandleDisconnect(ctx, r)
		s.lastAns = &Obs{HSet: true, HOk: a.Success, HCause: a.ErrorCause, HMsg: []byte(a.Message)}
		return a
	}
	return &radius.DisconnectResponse{Success: s.cur.Ok, ErrorCause: s.cur.Cause, Message: string(s.cur.Msg)}
}

func startServer(c Case, plain bool) *server {
	srv, err := radius.NewCoAServer(radius.CoAServerConfig{Address: "127.0.0.1:0", Secret: string(c.Secret)}, zap.NewNop())
	if err != nil {
		panic(err)
	}
	s := &server{srv: srv, respCh: make(chan []byte, 64)}
	if c.Mode == "proc" {
		// the repository's own session-changing handlers, with counting callbacks
		p := radius.NewCoAProcessor(zap.NewNop())
		p.SetSessionLookup(func(id string) (*radius.SessionInfo, bool) {
			if strings.HasPrefix(id, "sess-") {
				return &radius.SessionInfo{SessionID: id}, true
			}
			return nil, false
		})
		p.SetSessionTerminator(func(ctx context.Context, id string, reason uint32) error { s.effects++; return nil })
		p.SetSessionPolicyUpdater(func(ctx context.Context, id string, u *radius.PolicyUpdate) error { s.effects++; return nil })
		s.proc = p
	}
	if c.CoA {
		srv.SetCoAHandler(s.onCoA)
	}
	if c.DM {
		srv.SetDisconnectHandler(s.onDM)
	}
	s.ctx, s.cancel = context.WithCancel(context.Background())
	if plain {
		if err := srv.Start(s.ctx); err != nil {
			panic(err)
		}
	} else {
		ch, err := srv.VerifStartRecover(s.ctx)
		if err != nil {
			panic(err)
		}
		s.panicCh = ch
	}
	cli, err := net.DialUDP("udp", nil, srv.VerifLocalAddr())
	if err != nil {
		panic(err)
	}
	s.cli = cli
	go func() {
		for {
			b := make([]byte, 70000)
			n, err := cli.Read(b)
			if err != nil {
				return
			}
			s.respCh <- b[:n]
		}
	}()
	return s
}

func (s *server) stop() {
	s.cancel()
	s.srv.Stop()
	s.cli.Close()
}

// deliver one datagram followed by a sync request; returns the observation for both
func (s *server) deliver(d *Dg, secret []byte, k int) (Obs, []byte, Obs) {
	sid := byte(0x77)
	if len(d.B) >= 2 {
		sid = d.B[1] ^ 0x55
	}
	scode := byte(43)
	if k%2 == 1 {
		scode = 40
	}
	syn := buildReq(scode, sid, attr(1, []byte(syncUser)), secret)
	s.mu.Lock()
	s.calls = nil
	s.cur = d
	s.lastAns = nil
	s.mu.Unlock()
	if _, err := s.cli.Write(d.B); err != nil {
		panic(fmt.Sprintf("send: %v (len %d)", err, len(d.B)))
	}
	if _, err := s.cli.Write(syn); err != nil {
		panic(err)
	}
	var o, so Obs
	// On a tree whose listener answers every authentic request the sync response always arrives and no
	// timer decides anything. The deadline only ends the wait for a listener that stopped answering; it
	// is long (the machine may be heavily loaded: a false "no answer" would be a false alarm) until the
	// run has seen two such waits expire, then short, and a listener that did not answer is not waited
	// for again.
	limit := 3
	wait := 20 * time.Second
	if globalTimeouts >= 2 {
		limit, wait = 1, 2*time.Second
	}
	if s.timeouts >= limit {
		return Obs{}, syn, Obs{}
	}
	deadline := time.After(wait)
wait:
	for {
		select {
		case r := <-s.respCh:
			// the sync request's identifier differs from the datagram's; whether the sync response is
			// well-formed is judged later (emit), not here
			if len(r) >= 2 && r[1] == sid {
				so.Resps = append(so.Resps, r)
				break wait
			}
			o.Resps = append(o.Resps, r)
		case <-s.panicCh: // nil channel in plain mode: never ready
			o.Panic = true
			s.srv.VerifRestartLoop(s.ctx, s.panicCh)
		case <-deadline:
			s.timeouts++
			globalTimeouts++
			break wait
		}
	}
	s.mu.Lock()
	for _, c := range s.calls {
		if c.Sync {
			so.Calls = append(so.Calls, c)
		} else {
			o.Calls = append(o.Calls, c)
		}
	}
	if s.lastAns != nil {
		o.HSet, o.HOk, o.HCause, o.HMsg = true, s.lastAns.HOk, s.lastAns.HCause, s.lastAns.HMsg
	}
	s.mu.Unlock()
	return o, syn, so
}

type step struct {
	D   Dg
	O   Obs
	Syn bool
}

func runHook(c Case) []step {
	s := startServer(c, false)
	defer s.stop()
	var out []step
	for k := range c.Dgs {
		d := c.Dgs[k]
		o, syn, so := s.deliver(&d, c.Secret, k)
		if o.HSet { // proc mode: the Model's handler oracle is what the real processor answered
			d.Ok, d.Cause, d.Msg = o.HOk, o.HCause, o.HMsg
		}
		out = append(out, step{D: d, O: o}, step{D: Dg{B: syn, Ok: true, Tag: "sync"}, O: so, Syn: true})
	}
	return out
}

// ---- burst mode: several datagrams written back to back, then one sync request. The listener reads
// them one after the other into the same buffer with nothing in between. Attribution of what comes
// back (no knowledge of the expected behaviour is used): inside a burst only byte-identical datagrams
// share an identifier (generator); the j-th response with an identifier belongs to the j-th datagram
// with that identifier; the j-th call of the handler of
// kind K belongs to the j-th response of kind K (code K+1 / K+2) when a handler of that kind is
// installed. Anything that cannot be attributed (unknown identifier, surplus calls) is attached to
// the last datagram of the burst, where it is a mismatch. A panic inside a burst cannot be attributed:
// the case is then run again datagram by datagram.
func (s *server) deliverBurst(ds []Dg, secret []byte, k int) ([]Obs, []byte, Obs, bool) {
	used := map[byte]bool{}
	for _, d := range ds {
		if len(d.B) >= 2 {
			used[d.B[1]] = true
		}
	}
	sid := byte(0)
	for used[sid] {
		sid++
	}
	scode := byte(43)
	if k%2 == 1 {
		scode = 40
	}
	syn := buildReq(scode, sid, attr(1, []byte(syncUser)), secret)
	s.mu.Lock()
	s.calls = nil
	s.cur = &ds[0] // one handler answer for the whole burst (generator)
	s.lastAns = nil
	s.mu.Unlock()
	for _, d := range ds {
		if _, err := s.cli.Write(d.B); err != nil {
			panic(fmt.Sprintf("send: %v (len %d)", err, len(d.B)))
		}
	}
	if _, err := s.cli.Write(syn); err != nil {
		panic(err)
	}
	obs := make([]Obs, len(ds))
	var so Obs
	var resps [][]byte
	deadline := time.After(20 * time.Second)
wait:
	for {
		select {
		case r := <-s.respCh:
			if len(r) >= 2 && r[1] == sid {
				so.Resps = append(so.Resps, r)
				break wait
			}
			resps = append(resps, r)
		case <-s.panicCh:
			s.srv.VerifRestartLoop(s.ctx, s.panicCh)
			return nil, nil, Obs{}, false
		case <-deadline:
			return nil, nil, Obs{}, false
		}
	}
	last := len(ds) - 1
	owner := make([]int, len(resps))
	taken := make([]bool, len(ds))
	for i, r := range resps {
		owner[i] = last
		if len(r) >= 2 {
			for j, d := range ds { // the first datagram with this identifier that has no response yet
				if !taken[j] && len(d.B) >= 2 && d.B[1] == r[1] {
					owner[i], taken[j] = j, true
					break
				}
			}
		}
		obs[owner[i]].Resps = append(obs[owner[i]].Resps, r)
	}
	s.mu.Lock()
	next := map[int]int{}
	for _, c := range s.calls {
		if c.Sync {
			so.Calls = append(so.Calls, c)
			continue
		}
		at := last
		for i := next[c.Kind]; i < len(resps); i++ {
			if len(resps[i]) >= 1 && (int(resps[i][0]) == c.Kind+1 || int(resps[i][0]) == c.Kind+2) {
				at = owner[i]
				next[c.Kind] = i + 1
				break
			}
		}
		if at == last {
			next[c.Kind] = len(resps)
		}
		obs[at].Calls = append(obs[at].Calls, c)
	}
	s.mu.Unlock()
	return obs, syn, so, true
}

func runBurst(c Case) []step {
	s := startServer(c, false)
	var out []step
	b := c.Burst
	if b < 1 {
		b = 1
	}
	for i, k := 0, 0; i < len(c.Dgs); i, k = i+b, k+1 {
		j := i + b
		if j > len(c.Dgs) {
			j = len(c.Dgs)
		}
		ds := c.Dgs[i:j]
		obs, syn, so, ok := s.deliverBurst(ds, c.Secret, k)
		if !ok { // panic or silence inside a burst: attribute precisely, datagram by datagram
			s.stop()
			return runHook(c)
		}
		for x := range ds {
			out = append(out, step{D: ds[x], O: obs[x]})
		}
		out = append(out, step{D: Dg{B: syn, Ok: true, Tag: "sync"}, O: so, Syn: true})
	}
	s.stop()
	return out
}

// ---- dual mode: a second listener (own socket, own secret, own handlers) runs in the same process;
// every datagram is delivered to both, alternating. Each listener's trace is a case of its own.
func runDual(c Case) ([]step, []step) {
	c2 := c
	c2.Secret = c.Secret2
	s1 := startServer(c, false)
	defer s1.stop()
	s2 := startServer(c2, false)
	defer s2.stop()
	var o1, o2 []step
	for k := range c.Dgs {
		d := c.Dgs[k]
		a, syn, so := s1.deliver(&d, c.Secret, k)
		o1 = append(o1, step{D: d, O: a}, step{D: Dg{B: syn, Ok: true, Tag: "sync"}, O: so, Syn: true})
		b, syn2, so2 := s2.deliver(&d, c2.Secret, k)
		o2 = append(o2, step{D: d, O: b}, step{D: Dg{B: syn2, Ok: true, Tag: "sync"}, O: so2, Syn: true})
	}
	return o1, o2
}

// ---- e2e: plain Start() (no recover) in a child process; a crash of the child is the outcome Panic

type childRec struct {
	O   Obs
	Syn []byte
	SO  Obs
}

func childMain() {
	var c Case
	if err := json.NewDecoder(os.Stdin).Decode(&c); err != nil {
		panic(err)
	}
	s := startServer(c, true)
	w := bufio.NewWriter(os.Stdout)
	for k := range c.Dgs {
		d := c.Dgs[k]
		fmt.Fprintf(w, "BEGIN %d\n", k)
		w.Flush()
		o, syn, so := s.deliver(&d, c.Secret, k)
		b, _ := json.Marshal(childRec{O: o, Syn: syn, SO: so})
		fmt.Fprintf(w, "DONE %d %s\n", k, b)
		w.Flush()
	}
	s.stop()
}

func runE2E(c Case) []step {
	var out []step
	start := 0
	for start < len(c.Dgs) {
		sub := c
		sub.Dgs = c.Dgs[start:]
		cmd := exec.Command(os.Args[0])
		cmd.Env = append(os.Environ(), "VERIF_C15_CHILD=1")
		in, _ := json.Marshal(sub)
		cmd.Stdin = bytes.NewReader(in)
		var stdout, stderr bytes.Buffer
		cmd.Stdout, cmd.Stderr = &stdout, &stderr
		err := cmd.Run()
		done := 0
		sc := bufio.NewScanner(&stdout)
		sc.Buffer(make([]byte, 1<<20), 1<<26)
		for sc.Scan() {
			ln := sc.Text()
			if strings.HasPrefix(ln, "DONE ") {
				parts := strings.SplitN(ln, " ", 3)
				var cr childRec
				if e := json.Unmarshal([]byte(parts[2]), &cr); e != nil {
					panic(e)
				}
				out = append(out, step{D: sub.Dgs[done], O: cr.O}, step{D: Dg{B: cr.Syn, Ok: true, Tag: "sync"}, O: cr.SO, Syn: true})
				done++
			}
		}
		if err == nil {
			break
		}
		if !strings.Contains(stderr.String(), "panic:") {
			panic(fmt.Sprintf("e2e child failed: %v\n%s", err, stderr.String()))
		}
		// the whole process died while datagram `done` was in flight
		out = append(out, step{D: sub.Dgs[done], O: Obs{Panic: true}})
		start += done + 1
	}
	return out
}

// ---------------------------------------------------------------- Coq emission

func optBytes(b []byte) string {
	if b == nil {
		return "None"
	}
	return "(Some " + vh.Bytes(b) + ")"
}
func reqTerm(r Req) string {
	var al []string
	for _, a := range r.Attrs {
		al = append(al, vh.Pair(vh.N(uint64(a.Type)), vh.Bytes(a.Value)))
	}
	return fmt.Sprintf("(mkreq %s %s %s %s %s %s %d %d %s %s)", vh.Bytes(r.Session), vh.Bytes(r.User), optBytes(r.NASIP), optBytes(r.Framed),
		vh.Bytes(r.Calling), vh.Bytes(r.Acct), r.STimeout, r.ITime, vh.Bytes(r.Filter), vh.List(al))
}

// dgTerm writes the datagram either literally or as a splice of the case's base datagram (common
// prefix / suffix with the base; coqc needs ~50us per numeral, so mutations are written as deltas).
// The splice is verified here to reproduce the datagram exactly.
func dgTerm(base, dg []byte) string {
	p := 0
	for p < len(base) && p < len(dg) && base[p] == dg[p] {
		p++
	}
	s := 0
	for s < len(base)-p && s < len(dg)-p && base[len(base)-1-s] == dg[len(dg)-1-s] {
		s++
	}
	if p+s < 8 {
		return "(lit " + vh.Bytes(dg) + ")"
	}
	m := dg[p : len(dg)-s]
	chk := append(append(append([]byte{}, base[:p]...), m...), base[len(base)-s:]...)
	if !bytes.Equal(chk, dg) {
		panic("splice does not reproduce the datagram")
	}
	return fmt.Sprintf("(splice %d %s %d)", p, vh.Bytes(m), s)
}

type stats struct{ ops, handled, dropped, panics, authentic, syncOK int }

func emit(c Case, steps []step, st *stats) vh.Case {
	var tr []string
	tags := map[string]bool{"family:" + c.Family: true}
	var base []byte
	if len(c.Dgs) > 0 {
		base = c.Dgs[0].B
	}
	for _, s := range steps {
		dg := s.D.B
		key, complete := reqKey(dg, c.Secret)
		authentic := false
		rd := "None"
		if complete {
			d := md5.Sum(key)
			authentic = bytes.Equal(d[:], dg[4:20])
			rd = fmt.Sprintf("(Some (%d, %s))", binary.BigEndian.Uint16(dg[2:4]), vh.Bytes(d[:]))
		}
		if !s.Syn {
			st.ops++
			if authentic {
				st.authentic++
			}
			if s.D.Tag != "" {
				tags["dg:"+s.D.Tag] = true
			}
			switch {
			case s.O.Panic:
				st.panics++
				tags["obs:panic"] = true
			case len(s.O.Resps) > 0:
				st.handled++
				tags["obs:handled"] = true
			default:
				st.dropped++
				tags["obs:dropped"] = true
			}
		}
		// the sync requests are ordinary steps of the trace; to keep the Coq files small they are
		// written out only for the md5-flagged cases, or when a sync request did not get exactly one
		// response with a valid Response Authenticator
		syncFine := s.Syn && !s.O.Panic && len(s.O.Resps) == 1 && len(s.O.Resps[0]) >= 20
		if syncFine {
			x := md5.Sum(respKey(dg, s.O.Resps[0], c.Secret))
			syncFine = bytes.Equal(x[:], s.O.Resps[0][4:20])
		}
		if syncFine && !c.Md5 {
			st.syncOK++
			continue
		}
		var rl, cl []string
		for _, r := range s.O.Resps {
			var d [16]byte
			if len(r) >= 20 && len(dg) >= 20 {
				d = md5.Sum(respKey(dg, r, c.Secret))
			}
			rl = append(rl, vh.Pair(vh.Bytes(r), vh.Bytes(d[:])))
		}
		for _, cc := range s.O.Calls {
			cl = append(cl, vh.Pair(vh.N(uint64(cc.Kind)), reqTerm(cc.Req)))
		}
		useMd5 := c.Md5 && len(tr) < 6
		tr = append(tr, fmt.Sprintf("st %s %s %d %s %s %s %s %s %s %s %d", dgTerm(base, dg), vh.Bool(s.D.Ok), s.D.Cause, vh.Bytes(s.D.Msg),
			vh.Bool(authentic), rd, vh.List(rl), vh.List(cl), vh.Bool(s.O.Panic), vh.Bool(useMd5), s.D.Ma))
	}
	var tl []string
	for t := range tags {
		tl = append(tl, t)
	}
	coq := fmt.Sprintf("(%s, %s, %s, %s,\n  %s)", vh.Bytes(c.Secret), vh.Bool(c.CoA), vh.Bool(c.DM), vh.Bytes(base), vh.List(tr))
	return vh.Case{Coq: coq, Desc: c, Tags: tl}
}

func run(c Case, st *stats) []vh.Case {
	switch c.Mode {
	case "e2e":
		return []vh.Case{emit(c, runE2E(c), st)}
	case "burst":
		return []vh.Case{emit(c, runBurst(c), st)}
	case "dual":
		o1, o2 := runDual(c)
		c2 := c
		c2.Secret, c2.Secret2, c2.Family = c.Secret2, c.Secret, c.Family+"-second"
		// the second listener's case is replayable on its own (it is the first listener of the mirrored case)
		return []vh.Case{emit(c, o1, st), emit(c2, o2, st)}
	}
	return []vh.Case{emit(c, runHook(c), st)}
}

// ---------------------------------------------------------------- generators

var attrTypes = []byte{1, 4, 8, 31, 44, 27, 28, 11, 25, 26, 30, 5, 101, 0, 255, 80, 33, 18, 24, 55}

func genAttr(r *vh.Rng) []byte {
	t := attrTypes[r.Intn(len(attrTypes))]
	if r.Chance(1, 5) { // any type at all
		t = byte(r.Intn(256))
	}
	var n int
	switch x := r.Intn(10); {
	case x < 5:
		n = 4
	case x < 6:
		n = 0
	case x < 9:
		n = 1 + r.Intn(24)
	default:
		n = 3 + 2*r.Intn(2) // 3 or 5: a "len==4" test that fails
	}
	v := r.Bytes(n)
	if t == 44 && r.Chance(1, 2) {
		v = []byte(fmt.Sprintf("sess-%d", r.Intn(5)))
	}
	return attr(t, v)
}
func genAttrs(r *vh.Rng, k int) []byte {
	var a []byte
	for i := 0; i < k; i++ {
		a = append(a, genAttr(r)...)
	}
	return a
}
func genSecret(r *vh.Rng) []byte {
	if r.Chance(1, 3) {
		return []byte("testing123")
	}
	return r.Bytes(1 + r.Intn(32))
}
func genAnswer(r *vh.Rng, d *Dg) {
	d.Ok = r.Bool()
	if r.Chance(1, 2) {
		d.Cause = []uint32{201, 402, 404, 503, 504, 506, 0xffffffff, 1}[r.Intn(8)]
	}
	switch r.Intn(60) {
	case 0, 1, 2, 3, 4, 5, 6, 7, 8, 9:
		d.Msg = []byte("not found")
	case 10, 11, 12:
		d.Msg = r.Bytes(1 + r.Intn(20))
	case 13:
		d.Msg = bytes.Repeat([]byte{'m'}, []int{253, 254, 255, 300}[r.Intn(4)]) // Reply-Message length octet wraps
	}
}
func code(r *vh.Rng) byte {
	if r.Bool() {
		return 40
	}
	return 43
}

// every mutation of one signed base request (the small space is enumerated exhaustively)
func sweep(base []byte, secret []byte, r *vh.Rng) []Dg {
	var out []Dg
	add := func(b []byte, tag string) {
		d := Dg{B: b, Tag: tag}
		genAnswer(r, &d)
		out = append(out, d)
	}
	n := len(base)
	add(append([]byte{}, base...), "valid")
	for i := 0; i < n && i < 24; i++ { // every single-bit flip of the first 24 bytes
		for b := 0; b < 8; b++ {
			m := append([]byte{}, base...)
			m[i] ^= 1 << b
			add(m, "bitflip-hdr")
		}
	}
	for i := 24; i < n; i++ { // every byte of the rest
		m := append([]byte{}, base...)
		m[i] ^= 0xff
		add(m, "byteflip-attrs")
		m = append([]byte{}, base...)
		m[i]++
		add(m, "byteinc-attrs")
	}
	lens := []int{n - 1, n, n + 1, 65535, 4096, 4097, 256, 255}
	for l := 0; l <= 24; l++ {
		lens = append(lens, l)
	}
	for _, l := range lens { // length-field values, authenticator left alone / recomputed for the claimed length
		if l < 0 {
			continue
		}
		m := append([]byte{}, base...)
		binary.BigEndian.PutUint16(m[2:4], uint16(l))
		add(m, "lenfield")
		if l >= 20 && l <= n {
			m = append([]byte{}, m...)
			sign(m, l, secret)
			add(m, "lenfield-resigned")
		} else if l < 20 {
			// an attacker cannot sign L<20 meaningfully; sign as if the attribute area were empty
			m = append([]byte{}, m...)
			h := md5.New()
			h.Write(m[:4])
			h.Write(make([]byte, 16))
			h.Write(secret)
			copy(m[4:20], h.Sum(nil))
			add(m, "lenfield-short-resigned")
		}
	}
	for t := 0; t < n; t++ { // truncation at every offset; length field as sent / adjusted and re-signed
		add(append([]byte{}, base[:t]...), "truncated")
		if t >= 20 {
			m := append([]byte{}, base[:t]...)
			binary.BigEndian.PutUint16(m[2:4], uint16(t))
			sign(m, t, secret)
			add(m, "truncated-resigned")
		}
	}
	for _, extra := range []int{1, 2, 7} { // trailing bytes beyond Length (padding, ignored)
		add(append(append([]byte{}, base...), r.Bytes(extra)...), "trailing")
	}
	ws := append([]byte{}, secret...)
	ws[r.Intn(len(ws))] ^= 1 << r.Intn(8)
	add(buildReqFrom(base, ws), "wrong-secret")
	add(buildReqFrom(base, append(append([]byte{}, secret...), 0)), "wrong-secret")
	if len(secret) > 1 {
		add(buildReqFrom(base, secret[:len(secret)-1]), "wrong-secret")
	}
	for _, c := range []byte{0, 1, 2, 3, 4, 5, 11, 39, 41, 42, 44, 45, 46, 255} { // other codes, validly signed
		m := append([]byte{}, base...)
		m[0] = c
		sign(m, n, secret)
		add(m, "other-code-signed")
	}
	m := append([]byte{}, base...) // zero authenticator, authenticator of the other request kind
	copy(m[4:20], make([]byte, 16))
	add(m, "zero-auth")
	return out
}
func buildReqFrom(base, secret []byte) []byte {
	m := append([]byte{}, base...)
	sign(m, len(m), secret)
	return m
}

func chunk(dgs []Dg, sz int, proto Case) []Case {
	var out []Case
	for i := 0; i < len(dgs); i += sz {
		j := i + sz
		if j > len(dgs) {
			j = len(dgs)
		}
		c := proto
		c.Dgs = dgs[i:j]
		out = append(out, c)
	}
	return out
}

func genSweeps(r *vh.Rng, perCount int) []Case {
	var out []Case
	for k := 0; k <= 6; k++ {
		for rep := 0; rep < perCount; rep++ {
			for _, cd := range []byte{40, 43} {
				rr := r.Fork()
				secret := genSecret(rr)
				base := buildReq(cd, byte(rr.Intn(256)), genAttrs(rr, k), secret)
				proto := Case{Secret: secret, CoA: rr.Chance(3, 4), DM: rr.Chance(3, 4), Family: fmt.Sprintf("sweep-%dattr", k)}
				out = append(out, chunk(sweep(base, secret, rr), 48, proto)...)
			}
		}
	}
	return out
}

// structured random cases: mostly valid requests with targeted malformations
func genRandom(r *vh.Rng) Case {
	secret := genSecret(r)
	c := Case{Secret: secret, CoA: r.Chance(3, 4), DM: r.Chance(3, 4), Family: "random"}
	nd := 4 + r.Intn(12)
	for i := 0; i < nd; i++ {
		k := r.Intn(7)
		at := genAttrs(r, k)
		d := Dg{}
		genAnswer(r, &d)
		x := r.Intn(20)
		if x == 19 && !r.Chance(1, 4) {
			x = r.Intn(19)
		}
		switch {
		case x < 7:
			d.B, d.Tag = buildReq(code(r), byte(r.Intn(256)), at, secret), "valid"
		case x < 8: // duplicate attributes: the last one wins
			at = append(at, attr(1, []byte("alice"))...)
			at = append(at, attr(1, []byte("bob"))...)
			at = append(at, attr(44, []byte("sess-1"))...)
			at = append(at, attr(44, []byte("sess-2"))...)
			d.B, d.Tag = buildReq(code(r), byte(r.Intn(256)), at, secret), "valid-dup-attrs"
		case x < 10: // authentic but the attribute area is not well-formed
			bad := [][]byte{{1, 0}, {1, 1}, {1, 9, 'x'}, {7}, {1, 255, 1, 2, 3}}[r.Intn(5)]
			if r.Bool() {
				at = append(at, bad...)
			} else {
				at = append(append([]byte{}, bad...), at...)
			}
			d.B, d.Tag = buildReq(code(r), byte(r.Intn(256)), at, secret), "signed-bad-attrs"
		case x < 11:
			d.B, d.Tag = buildReq([]byte{1, 2, 4, 5, 41, 44, 0, 255, 42, 45}[r.Intn(10)], byte(r.Intn(256)), at, secret), "other-code-signed"
		case x < 12:
			ws := r.Bytes(1 + r.Intn(16))
			d.B, d.Tag = buildReq(code(r), byte(r.Intn(256)), at, ws), "wrong-secret"
		case x < 13:
			d.B, d.Tag = r.Bytes(r.Intn(80)), "random-bytes"
		case x < 14: // random body behind a plausible header
			b := r.Bytes(20 + r.Intn(60))
			b[0] = code(r)
			binary.BigEndian.PutUint16(b[2:4], uint16(len(b)-r.Intn(3)))
			d.B, d.Tag = b, "random-plausible"
		case x < 15: // signed, then one random byte changed
			b := buildReq(code(r), byte(r.Intn(256)), at, secret)
			b[r.Intn(len(b))] ^= byte(1 + r.Intn(255))
			d.B, d.Tag = b, "one-byte-changed"
		case x < 16: // signed with trailing padding beyond Length
			b := buildReq(code(r), byte(r.Intn(256)), at, secret)
			d.B, d.Tag = append(b, r.Bytes(1+r.Intn(30))...), "trailing"
		case x < 17: // length field tampering
			b := buildReq(code(r), byte(r.Intn(256)), at, secret)
			binary.BigEndian.PutUint16(b[2:4], uint16(r.Intn(26)))
			d.B, d.Tag = b, "lenfield"
		case x < 18: // truncated
			b := buildReq(code(r), byte(r.Intn(256)), at, secret)
			d.B, d.Tag = b[:r.Intn(len(b))], "truncated"
		case x < 19: // replay of the previous datagram
			if i > 0 {
				d.B, d.Tag = append([]byte{}, c.Dgs[i-1].B...), "replayed"
			} else {
				d.B, d.Tag = []byte{}, "empty"
			}
		default: // large: up to and beyond the 4096-byte receive buffer
			var big []byte
			target := []int{3000, 4076, 4077, 4090, 5000}[r.Intn(5)]
			for len(big)+257 <= target {
				big = append(big, attr(25, r.Bytes(253))...)
			}
			if target-len(big) >= 2 {
				big = append(big, attr(25, r.Bytes(target-len(big)-2))...)
			}
			b := buildReq(code(r), byte(r.Intn(256)), big, secret)
			if r.Bool() { // padding beyond Length up to / across the buffer size
				b = append(b, r.Bytes(r.Intn(200))...)
			}
			d.B, d.Tag = b, "large"
		}
		c.Dgs = append(c.Dgs, d)
	}
	return c
}

// the repository's CoAProcessor as the installed handlers (session-changing callbacks counted)
func genProc(r *vh.Rng) Case {
	secret := genSecret(r)
	c := Case{Secret: secret, CoA: true, DM: true, Mode: "proc", Family: "processor"}
	for i := 0; i < 8; i++ {
		var at []byte
		if r.Chance(2, 3) {
			at = append(at, attr(44, []byte(fmt.Sprintf("sess-%d", r.Intn(4))))...)
		} else {
			at = append(at, attr(44, bytes.Repeat([]byte{'x'}, 1+r.Intn(250)))...) // unknown session: long NAK message
		}
		if r.Bool() {
			at = append(at, attr(11, []byte("gold"))...)
		}
		if r.Chance(1, 3) {
			at = append(at, attr(27, []byte{0, 0, 14, 16})...)
		}
		b := buildReq(code(r), byte(r.Intn(256)), at, secret)
		tag := "valid"
		switch r.Intn(6) {
		case 0:
			b[4+r.Intn(16)] ^= 1 << r.Intn(8)
			tag = "bitflip-hdr"
		case 1:
			b = buildReqFrom(b, append([]byte("x"), secret...))
			tag = "wrong-secret"
		}
		c.Dgs = append(c.Dgs, Dg{B: b, Tag: tag})
	}
	return c
}

// bursts: the datagrams of the random generator; inside a burst only byte-identical datagrams (immediate
// retransmissions, inserted here) share an identifier; one handler answer per burst
func genBurst(r *vh.Rng) Case {
	c := genRandom(r)
	c.Mode, c.Family = "burst", "burst"
	c.Burst = 2 + r.Intn(7)
	var dgs []Dg
	for _, d := range c.Dgs { // immediate retransmissions
		dgs = append(dgs, d)
		if r.Chance(1, 4) {
			d2 := d
			d2.Tag += "+dup"
			dgs = append(dgs, d2)
			if r.Chance(1, 3) {
				dgs = append(dgs, d2)
			}
		}
	}
	c.Dgs = dgs
	for i := 0; i < len(c.Dgs); i += c.Burst {
		used := map[byte][]byte{}
		for j := i; j < i+c.Burst && j < len(c.Dgs); j++ {
			d := &c.Dgs[j]
			d.Ok, d.Cause, d.Msg = c.Dgs[i].Ok, c.Dgs[i].Cause, c.Dgs[i].Msg
			if len(d.B) < 2 {
				continue
			}
			if o, ok := used[d.B[1]]; ok && !bytes.Equal(o, d.B) { // re-number (re-signing what was authentic)
				key, complete := reqKey(d.B, c.Secret)
				was := false
				if complete {
					x := md5.Sum(key)
					was = bytes.Equal(x[:], d.B[4:20])
				}
				d.B = append([]byte{}, d.B...)
				for used[d.B[1]] != nil {
					d.B[1]++
				}
				if was {
					sign(d.B, int(binary.BigEndian.Uint16(d.B[2:4])), c.Secret)
				}
				d.Tag += "+renumbered"
			}
			used[d.B[1]] = d.B
		}
	}
	return c
}

// two listeners side by side: requests signed for the one, for the other, for neither
func genDual(r *vh.Rng) Case {
	c := genRandom(r)
	c.Mode, c.Family = "dual", "dual"
	c.Secret2 = genSecret(r)
	if bytes.Equal(c.Secret2, c.Secret) {
		c.Secret2 = append(c.Secret2, 'x')
	}
	n := len(c.Dgs)
	for i := 0; i < n; i++ {
		if r.Chance(1, 2) {
			d := c.Dgs[i]
			key, complete := reqKey(d.B, c.Secret)
			if complete {
				x := md5.Sum(key)
				if bytes.Equal(x[:], d.B[4:20]) { // the same request, signed for the second listener
					d.B = append([]byte{}, d.B...)
					sign(d.B, int(binary.BigEndian.Uint16(d.B[2:4])), c.Secret2)
					d.Tag += "+for-second"
					c.Dgs = append(c.Dgs, d)
				}
			}
		}
	}
	return c
}

func genE2E(r *vh.Rng) Case {
	c := genRandom(r)
	c.Mode, c.Family = "e2e", "e2e-plain-start"
	secret := c.Secret
	// always include the short-length-field datagrams: on a tree without the bounds check they end the process
	b := buildReq(43, 7, attr(1, []byte("u")), secret)
	binary.BigEndian.PutUint16(b[2:4], uint16(r.Intn(20)))
	c.Dgs = append(c.Dgs, Dg{B: b, Tag: "lenfield"})
	c.Dgs = append(c.Dgs, Dg{B: buildReq(40, 9, attr(44, []byte("sess-1")), secret), Ok: true, Tag: "valid"})
	return c
}

// ---- attribute coverage: every attribute type, Message-Authenticator, long / many attributes

// buildReqMA builds a signed request whose attribute list is pre ++ Message-Authenticator ++ post.
// mode 0: valid HMAC-MD5 (RFC 5176 3.5: computed over the packet with a zero Request Authenticator and
// a zero Message-Authenticator value, keyed with the secret); 1 random value; 2 zero value; 3 one bit
// off; 4/5/6 value of 0/15/17 bytes; 7 valid, followed by a second (random) Message-Authenticator.
// Returns the datagram and the claim (1 valid, 2 not valid) checked by the Coq side.
func buildReqMA(code, id byte, pre, post, secret []byte, mode int, r *vh.Rng) ([]byte, int) {
	vlen := 16
	switch mode {
	case 4:
		vlen = 0
	case 5:
		vlen = 15
	case 6:
		vlen = 17
	}
	at := append([]byte{}, pre...)
	off := 20 + len(at) + 2
	at = append(at, attr(80, make([]byte, vlen))...)
	at = append(at, post...)
	if mode == 7 {
		at = append(at, attr(80, r.Bytes(16))...)
	}
	p := make([]byte, 20+len(at))
	p[0], p[1] = code, id
	binary.BigEndian.PutUint16(p[2:4], uint16(len(p)))
	copy(p[20:], at)
	claim := 2
	switch mode {
	case 0, 3, 7:
		mac := hmac.New(md5.New, secret)
		mac.Write(p)
		copy(p[off:off+16], mac.Sum(nil))
		claim = 1
		if mode == 3 {
			p[off+r.Intn(16)] ^= 1 << r.Intn(8)
			claim = 2
		}
	case 1:
		copy(p[off:off+16], r.Bytes(16))
	case 5, 6:
		copy(p[off:off+vlen], r.Bytes(vlen))
	}
	sign(p, len(p), secret)
	return p, claim
}

var specialTypes = []byte{18, 24, 25, 26, 32, 33, 49, 55, 79, 80, 87, 101, 241, 245}

// every attribute type 0..255 in a signed request of either kind (exhaustive), the types a CoA server
// could react to with every value-length class, long and many attributes up to the 4096-byte buffer
func genAttrTypes(r *vh.Rng) []Case {
	secret := genSecret(r)
	var dgs []Dg
	add := func(b []byte, tag string) {
		d := Dg{B: b, Tag: tag}
		genAnswer(r, &d)
		dgs = append(dgs, d)
	}
	lens := []int{0, 1, 4, 16, 253}
	for t := 0; t < 256; t++ {
		for ci, cd := range []byte{40, 43} {
			at := attr(byte(t), r.Bytes(lens[(t+ci)%len(lens)]))
			switch (t + ci) % 3 { // alone, after, before ordinary attributes
			case 1:
				at = append(attr(44, []byte("sess-1")), at...)
			case 2:
				at = append(at, attr(1, []byte("alice"))...)
			}
			add(buildReq(cd, byte(t), at, secret), "attrtype-all")
		}
	}
	for _, t := range specialTypes {
		for _, n := range []int{0, 1, 2, 4, 6, 15, 16, 17, 18, 253} {
			for _, cd := range []byte{40, 43} {
				add(buildReq(cd, byte(r.Intn(256)), attr(t, r.Bytes(n)), secret), fmt.Sprintf("attrtype-%d", t))
			}
		}
		// twice, around an ordinary attribute
		at := append(append(attr(t, r.Bytes(16)), attr(44, []byte("sess-2"))...), attr(t, r.Bytes(4))...)
		add(buildReq(code(r), byte(r.Intn(256)), at, secret), fmt.Sprintf("attrtype-%d", t))
	}
	// Vendor-Specific: vendor id + well-formed / broken sub-attributes
	for _, v := range [][]byte{{0, 0, 0x0d, 0xe9, 1, 6, 'g', 'o', 'l', 'd'}, {0, 0, 0, 9, 1, 2}, {0, 0, 0, 9, 1, 200, 1}, {0, 0, 0}, {0, 0, 0, 9}} {
		add(buildReq(code(r), byte(r.Intn(256)), attr(26, v), secret), "attrtype-26")
	}
	// long and many attributes
	many := func(k int, tf func(i int) byte, vlen int) []byte {
		var a []byte
		for i := 0; i < k; i++ {
			a = append(a, attr(tf(i), r.Bytes(vlen))...)
		}
		return a
	}
	cyc := func(i int) byte { return byte(i) }
	c80 := func(i int) byte { return 80 }
	add(buildReq(43, 1, many(2038, cyc, 0), secret), "attrs-many")                                    // 4096 bytes exactly
	add(buildReq(40, 2, many(2038, c80, 0), secret), "attrs-many")                                    //
	add(buildReq(43, 3, many(2037, cyc, 0), secret), "attrs-many")                                    // 4094
	add(buildReq(43, 4, many(2039, cyc, 0), secret), "attrs-many")                                    // 4098: cut by the 4096-byte read
	add(buildReq(40, 5, many(15, cyc, 253), secret), "attrs-long")                                    // 15 x 255 = 3825
	add(buildReq(43, 6, append(many(15, c80, 253), attr(80, r.Bytes(249))...), secret), "attrs-long") // 4096 exactly
	add(buildReq(43, 7, append(many(15, cyc, 253), attr(33, r.Bytes(250))...), secret), "attrs-long") // 4097
	add(buildReq(40, 8, many(300, cyc, 11), secret), "attrs-many")
	proto := Case{Secret: secret, CoA: true, DM: true, Family: "attrtypes"}
	out := chunk(dgs, 48, proto)
	// the same requests against a listener without handlers (defaults answer)
	proto2 := Case{Secret: secret, CoA: false, DM: false, Family: "attrtypes-nohandler"}
	var sub []Dg
	for i := 0; i < len(dgs); i += 7 {
		sub = append(sub, dgs[i])
	}
	return append(out, chunk(sub, 48, proto2)...)
}

// every RADIUS code 0..255, validly signed and with the authenticator of the original code (exhaustive)
func genCodes(r *vh.Rng) []Case {
	secret := genSecret(r)
	base := buildReq(43, byte(r.Intn(256)), append(attr(44, []byte("sess-3")), attr(11, []byte("gold"))...), secret)
	var dgs []Dg
	for c := 0; c < 256; c++ {
		m := append([]byte{}, base...)
		m[0] = byte(c)
		d := Dg{B: m, Tag: "code-all-unsigned"}
		if c == 43 {
			d.Tag = "valid"
		}
		genAnswer(r, &d)
		dgs = append(dgs, d)
		m = append([]byte{}, m...)
		sign(m, len(m), secret)
		d = Dg{B: m, Tag: "code-all-signed"}
		genAnswer(r, &d)
		dgs = append(dgs, d)
	}
	return chunk(dgs, 64, Case{Secret: secret, CoA: true, DM: r.Bool(), Family: "codes"})
}

func has80(at []byte) bool {
	for i := 0; i+1 < len(at) && at[i+1] >= 2; i += int(at[i+1]) {
		if at[i] == 80 {
			return true
		}
	}
	return false
}

// requests carrying a Message-Authenticator: valid / invalid HMAC, every position, odd lengths, two of them
func genMsgAuth(r *vh.Rng) Case {
	secret := genSecret(r)
	c := Case{Secret: secret, CoA: r.Chance(4, 5), DM: r.Chance(4, 5), Family: "msgauth"}
	for mode := 0; mode <= 7; mode++ {
		for rep := 0; rep < 2; rep++ {
			var pre, post []byte
			switch r.Intn(4) {
			case 0:
				pre = genAttrs(r, 1+r.Intn(3))
			case 1:
				post = genAttrs(r, 1+r.Intn(3))
			case 2:
				pre, post = genAttrs(r, 1+r.Intn(2)), genAttrs(r, 1+r.Intn(2))
			}
			if has80(pre) { // the claim is about the FIRST attribute 80 of the packet
				pre = nil
			}
			b, claim := buildReqMA(code(r), byte(r.Intn(256)), pre, post, secret, mode, r)
			d := Dg{B: b, Tag: fmt.Sprintf("msgauth-mode%d", mode), Ma: claim}
			genAnswer(r, &d)
			c.Dgs = append(c.Dgs, d)
			if rep == 1 && r.Bool() { // valid Message-Authenticator, Request Authenticator not valid
				m := append([]byte{}, b...)
				m[4+r.Intn(16)] ^= 1 << r.Intn(8)
				d2 := Dg{B: m, Tag: "msgauth-bad-reqauth", Ma: claim}
				genAnswer(r, &d2)
				c.Dgs = append(c.Dgs, d2)
			}
		}
	}
	return c
}

// retransmissions and identifier reuse: the listener has no duplicate detection; every authentic
// datagram is a request of its own (handler called, answered with the handler's CURRENT answer)
func genRetransmit(r *vh.Rng) Case {
	secret := genSecret(r)
	c := Case{Secret: secret, CoA: r.Chance(4, 5), DM: r.Chance(4, 5), Family: "retransmit"}
	id := byte(r.Intn(256))
	cd := code(r)
	add := func(b []byte, tag string) {
		d := Dg{B: b, Tag: tag}
		genAnswer(r, &d)
		c.Dgs = append(c.Dgs, d)
	}
	a := buildReq(cd, id, genAttrs(r, 1+r.Intn(4)), secret)
	add(a, "valid")
	add(append([]byte{}, a...), "retransmit-same")
	add(append([]byte{}, a...), "retransmit-same")
	add(buildReq(cd, id, genAttrs(r, 1+r.Intn(4)), secret), "retransmit-id-new-content")
	add(buildReq(83-cd, id, genAttrs(r, r.Intn(3)), secret), "retransmit-id-other-kind")
	m := append([]byte{}, a...) // same identifier and authenticator, attributes changed: not authentic
	m[20+r.Intn(len(m)-20)] ^= byte(1 + r.Intn(255))
	add(m, "retransmit-id-tampered")
	add(append([]byte{}, a...), "retransmit-same")
	add(append(append([]byte{}, a...), r.Bytes(1+r.Intn(9))...), "retransmit-padded")
	w := buildReqFrom(a, append([]byte("x"), secret...)) // same identifier, signed with another secret
	add(w, "retransmit-id-wrong-secret")
	add(append([]byte{}, a...), "retransmit-same")
	return c
}

// ---------------------------------------------------------------- main

const header = `From Coq Require Import NArith List. Import ListNotations.
From Verif Require Import Base.Word Model.Coa Model.CoaSpec Model.CoaCheck.
Local Open Scope N_scope.
Definition cases : list case := [
`
const footer = `
].
Definition R := Eval vm_compute in run_cases cases.
Print R.
`

func main() {
	if os.Getenv("VERIF_C15_CHILD") == "1" {
		childMain()
		return
	}
	cfg := vh.ParseFlags()
	if cfg.Shard == 250 {
		cfg.Shard = 20 // a case is a trace of up to ~100 steps
	}
	emitStream := func(name string, cs []Case, extra map[string]interface{}) {
		var st stats
		var out []vh.Case
		for i := range cs {
			if name == "corpus" || i%25 == 0 {
				cs[i].Md5 = true
			}
			out = append(out, run(cs[i], &st)...)
		}
		if extra == nil {
			extra = map[string]interface{}{}
		}
		extra["datagrams"] = st.ops
		extra["datagrams_handled"] = st.handled
		extra["datagrams_dropped"] = st.dropped
		extra["datagrams_panic"] = st.panics
		extra["datagrams_authentic"] = st.authentic
		extra["sync_requests_answered_not_written_out"] = st.syncOK
		vh.Emit(cfg, name, header, footer, out, extra)
	}
	if cfg.Replay != "" {
		var c Case
		if err := vh.LoadReplay(cfg.Replay, &c); err != nil {
			panic(err)
		}
		emitStream("cases", []Case{c}, nil)
		return
	}
	r := vh.NewRng(cfg.Seed)
	var corpus []Case
	for _, f := range vh.CorpusFiles(cfg) {
		var c Case
		if err := vh.LoadReplay(f, &c); err != nil {
			panic(err)
		}
		corpus = append(corpus, c)
	}
	if len(corpus) > 0 {
		emitStream("corpus", corpus, nil)
	}
	perCount, nrand, nproc, ne2e := 1, 70, 8, 4
	if cfg.Thorough() {
		perCount, nrand, nproc, ne2e = 4, 700, 60, 20
	}
	emitStream("sweep", genSweeps(r.Fork(), perCount), map[string]interface{}{"exhaustive": true,
		"exhaustive_note": "per base request: every single-bit flip of bytes 0..23, every byte of the rest (xor 0xff, +1), length-field values 0..24,n-1,n,n+1,255,256,4096,4097,65535 (as is / re-signed), truncation at every offset (as is / re-signed), 14 other codes re-signed, wrong secrets"})
	nat, nma, nrt := 1, 6, 8
	if cfg.Thorough() {
		nat, nma, nrt = 4, 60, 60
	}
	var as []Case
	for i := 0; i < nat; i++ {
		as = append(as, genAttrTypes(r.Fork())...)
	}
	emitStream("attrtypes", as, map[string]interface{}{"exhaustive": true,
		"exhaustive_note": "per secret: every attribute type 0..255 in a signed request of either kind; 14 types a CoA server could react to (Reply-Message, State, Class, Vendor-Specific, Proxy-State, Event-Timestamp, EAP-Message, Message-Authenticator, Error-Cause, extended types ...) x value lengths 0,1,2,4,6,15,16,17,18,253 x both kinds; 2037/2038/2039 empty attributes and 15-16 maximum-length attributes around the 4096-byte buffer"})
	emitStream("codes", genCodes(r.Fork()), map[string]interface{}{"exhaustive": true,
		"exhaustive_note": "every RADIUS code 0..255 on one request, validly signed for that code and with the authenticator of code 43"})
	var ms []Case
	for i := 0; i < nma; i++ {
		ms = append(ms, genMsgAuth(r.Fork()))
	}
	emitStream("msgauth", ms, nil)
	var ts []Case
	for i := 0; i < nrt; i++ {
		ts = append(ts, genRetransmit(r.Fork()))
	}
	emitStream("retransmit", ts, nil)
	nb, nd := 12, 6
	if cfg.Thorough() {
		nb, nd = 150, 60
	}
	var bs, ds []Case
	for i := 0; i < nb; i++ {
		bs = append(bs, genBurst(r.Fork()))
	}
	emitStream("burst", bs, nil)
	for i := 0; i < nd; i++ {
		ds = append(ds, genDual(r.Fork()))
	}
	emitStream("dual", ds, nil)
	var rs []Case
	for i := 0; i < nrand; i++ {
		rs = append(rs, genRandom(r.Fork()))
	}
	emitStream("cases", rs, nil)
	var ps []Case
	for i := 0; i < nproc; i++ {
		ps = append(ps, genProc(r.Fork()))
	}
	emitStream("processor", ps, nil)
	var es []Case
	for i := 0; i < ne2e; i++ {
		es = append(es, genE2E(r.Fork()))
	}
	emitStream("e2e", es, nil)
}
