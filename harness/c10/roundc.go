// Round-C additions of the C10 driver: concurrent release callers, the real file logger with
// size-based rotation, generators for AddPublicIPRange.
package main

import (
	"fmt"
	"os"
	"path/filepath"
	"runtime"
	"sort"
	"strings"
	"sync"
	"sync/atomic"

	"verifharness/vh"

	"github.com/codelaboratoryltd/bng/pkg/nat"
	"go.uber.org/zap"
)

// relrace: Rounds rounds.  Round r: X_r is allocated (sequentially); then Callers goroutines leave a
// spinning barrier together and call DeallocateNAT(X_r), and one more goroutine calls AllocateNAT(Y_r)
// at the same moment (a new subscriber arriving between the pool updates of the releases).  After the
// join the log is drained (so that records reach the writer in the order they were logged).  The Y_r
// stay allocated; with Cleanup they are released sequentially at the end.  Observation: every
// AllocateNAT return, the final table, the log.  Judged by conc_clause with co_strict: exactly one
// release record per assign (a second release of X_r has no open assign), no assign for a private IP
// the log shows holding a block, log read back = final table, final table free of overlap.
func (s *sys) relrace(o Op) string {
	var rets []string
	var all []rec
	privs := map[uint32]bool{}
	n := o.Callers
	for r := 0; r < o.Rounds; r++ {
		x, y := o.IP+uint32(2*r), o.IP+uint32(2*r+1)
		privs[x], privs[y] = true, true
		if a, err := s.mgr.AllocateNAT(ip4(x)); err == nil {
			rets = append(rets, view(a))
		}
		var arrived atomic.Int64
		var wg sync.WaitGroup
		var ya *nat.Allocation
		for g := 0; g <= n; g++ {
			wg.Add(1)
			go func(g int) {
				defer wg.Done()
				arrived.Add(1)
				for arrived.Load() < int64(n+1) {
					runtime.Gosched()
				}
				if g == n {
					if a, err := s.mgr.AllocateNAT(ip4(y)); err == nil {
						ya = a
					}
				} else {
					s.mgr.DeallocateNAT(ip4(x))
				}
			}(g)
		}
		wg.Wait()
		if ya != nil {
			rets = append(rets, view(ya))
		}
		all = append(all, s.drain()...)
	}
	if o.Cleanup {
		for r := 0; r < o.Rounds; r++ {
			s.mgr.DeallocateNAT(ip4(o.IP + uint32(2*r+1)))
		}
		all = append(all, s.drain()...)
	}
	var ks []uint32
	for k := range privs {
		ks = append(ks, k)
	}
	sort.Slice(ks, func(i, j int) bool { return ks[i] < ks[j] })
	var table []string
	for _, k := range ks {
		if a := s.mgr.GetAllocation(ip4(k)); a != nil {
			table = append(table, view(a))
		}
	}
	return fmt.Sprintf("ConcObs (co %s true true %s %s)", vh.List(rets), vh.List(table), recsCoq(all))
}

func genRelRace(r *vh.Rng, rounds int, mode string, cleanup bool) Case {
	c := Case{PPS: 16, Start: 1024, End: 65535, Log: mode, Buf: 1000}
	c.Ops = append(c.Ops, Op{K: "addip", IP: pub(0)})
	callers := []int{2, 2, 3, 4, 6, 8}[r.Intn(6)]
	c.Ops = append(c.Ops, Op{K: "relrace", IP: priv(1000), Callers: callers, Rounds: rounds, Cleanup: cleanup})
	if cleanup { // the Manager is empty again: its pool counters must say so
		c.Ops = append(c.Ops, Op{K: "stats"})
	}
	return c
}

// rotate: the events of Pre on a Manager whose Logger is the real file logger (no writer hook) with
// size-based rotation.  A dry run through an in-memory logger measures the record lengths; MaxFileSize
// is then placed in the middle of the Cross-th record, so that this record is the one that makes the
// file reach the limit (one rotation per case: rotated files are named by the second).  Every record
// is flushed on its own.  At the end all files (rotated, then current) are read back.  Single caller:
// co_strict (exactly one record per event, in order) + log read back = final table.
func (s *sys) rotate(c Case, o Op) string {
	format := nat.LogFormatJSON
	if c.Log == "trad-csv" {
		format = nat.LogFormatCSV
	}
	// dry run: same events, fresh Manager, in-memory writer
	dc := c
	dc.Rot = false
	d := newSys(dc)
	for _, x := range c.Ops {
		if x.K == "addip" {
			d.mgr.AddPublicIP(ip4(x.IP))
		}
	}
	var lens []int
	for _, x := range o.Pre {
		d.seqOps([]Op{x}, new([]string), map[uint32]bool{})
		d.lg.Flush()
		d.lg.FlushPortBlocks()
		for _, line := range strings.Split(d.buf.take(), "\n") {
			if line != "" {
				lens = append(lens, len(line)+1)
			}
		}
	}
	cross := o.Cross
	if cross > len(lens) {
		cross = len(lens)
	}
	thr := 0
	for i := 0; i < cross-1; i++ {
		thr += lens[i]
	}
	thr += lens[cross-1] / 2
	if thr < 1 {
		thr = 1
	}
	dir, err := os.MkdirTemp("", "c10rot")
	if err != nil {
		panic(err)
	}
	defer os.RemoveAll(dir)
	path := filepath.Join(dir, "nat.log")
	lg, err := nat.NewLogger(nat.LoggerConfig{Enabled: true, FilePath: path, Format: format, BufferSize: 1000,
		BulkLogging: c.Log == "bulk", MaxFileSize: int64(thr)}, zap.NewNop())
	if err != nil {
		panic(err)
	}
	s.mgr.SetLogger(lg)
	var rets []string
	privs := map[uint32]bool{}
	for _, x := range o.Pre {
		s.seqOps([]Op{x}, &rets, privs)
		lg.Flush()
		lg.FlushPortBlocks()
	}
	lg.Stop() // flushes and closes the current file
	rotated, _ := filepath.Glob(path + ".*")
	sort.Strings(rotated)
	s.rotated = len(rotated)
	var rs []rec
	for _, f := range append(rotated, path) {
		b, err := os.ReadFile(f)
		if err != nil {
			continue
		}
		for _, line := range strings.Split(string(b), "\n") {
			if line != "" {
				rs = append(rs, s.decode(line))
			}
		}
	}
	var ks []uint32
	for k := range privs {
		ks = append(ks, k)
	}
	sort.Slice(ks, func(i, j int) bool { return ks[i] < ks[j] })
	var table []string
	for _, k := range ks {
		if a := s.mgr.GetAllocation(ip4(k)); a != nil {
			table = append(table, view(a))
		}
	}
	return fmt.Sprintf("ConcObs (co %s true true %s %s)", vh.List(rets), vh.List(table), recsCoq(rs))
}

func genRotate(r *vh.Rng, mode string, cross int) Case {
	c := Case{PPS: 1000, Start: 60000, End: 65535, Log: mode, Rot: true}
	c.Ops = append(c.Ops, Op{K: "addip", IP: pub(0)}, Op{K: "addip", IP: pub(1)})
	var held []int
	// exactly one rotation: the limit sits in the middle of record [cross]; rotation resets the size
	// counter to 0 (the crossing record is not counted), so the records after it must stay below the
	// limit: at most cross-1 of them.  (Two rotations within one second give the rotated files the
	// same name and the second rename replaces the first file: not driven.)
	n := 2*cross - 1
	if n > 8 {
		n = 8
	}
	ev := genEvents(r, n, &held, 8)
	c.Ops = append(c.Ops, Op{K: "rotate", Pre: ev, Cross: cross})
	return c
}

// genRanges: the pool is built by a mix of AddPublicIP and AddPublicIPRange with duplicate,
// overlapping and inverted ranges (before and in the middle of the history); then more subscribers
// than the distinct addresses have blocks (3 each), a release from the middle, re-asks, a sweep.
func genRanges(r *vh.Rng, mode string) Case {
	c := Case{PPS: 3, Start: 1, End: 10, Log: mode, Buf: 10}
	build := func() {
		switch r.Intn(4) {
		case 0:
			c.Ops = append(c.Ops, Op{K: "addip", IP: pub(r.Intn(3))})
		default:
			a := r.Intn(3)
			b := a + r.Intn(3)
			if r.Chance(1, 8) {
				a, b = b+1, a // inverted
			}
			c.Ops = append(c.Ops, Op{K: "addrange", IP: pub(a), IP2: pub(b)})
		}
	}
	for i := 0; i < 2+r.Intn(2); i++ {
		build()
	}
	next := 0
	nal := 4 + r.Intn(6)
	for i := 0; i < nal; i++ {
		c.Ops = append(c.Ops, Op{K: "alloc", IP: priv(next)})
		next++
		if i == 2 && r.Bool() {
			build()
		}
	}
	if next > 2 {
		c.Ops = append(c.Ops, Op{K: "dealloc", IP: priv(1)}, Op{K: "alloc", IP: priv(next)})
		next++
	}
	for i := 0; i < 4; i++ {
		c.Ops = append(c.Ops, Op{K: "alloc", IP: priv(next)})
		next++
	}
	for i := 0; i < next; i++ {
		c.Ops = append(c.Ops, Op{K: "get", IP: priv(i)})
	}
	c.Ops = append(c.Ops, Op{K: "stats"})
	return c
}
