// C10 correspondence driver: real nat.Manager (+ real nat.Logger writing into memory) vs Model/Nat.v.
//
// Sequential cases: every op is executed on the real Manager, the log lines the call produced are
// flushed, decoded and attached to the op's observed output.  Concurrent cases ("conc" op): goroutines
// run scripts against the real Manager; the observation (all AllocateNAT returns, final GetAllocation
// table, log in file order) is evaluated by the Spec invariants inside Coq.
package main

import (
	"bytes"
	"encoding/binary"
	"encoding/json"
	"fmt"
	"net"
	"runtime"
	"sort"
	"strconv"
	"strings"
	"sync"
	"sync/atomic"
	"time"

	"verifharness/vh"

	"github.com/cilium/ebpf"
	"github.com/cilium/ebpf/rlimit"
	"github.com/codelaboratoryltd/bng/pkg/nat"
	"go.uber.org/zap"
)

type Op struct {
	K       string `json:"k"` // addip alloc dealloc get stats conc
	IP      uint32 `json:"ip,omitempty"`
	Scripts [][]Op `json:"scripts,omitempty"` // conc: one script per goroutine (alloc/dealloc only)
	// race: Rounds barrier-released rounds; in round r, Callers goroutines call AllocateNAT for the
	// same fresh private IP at once.  Yield: the in-memory log writer yields the processor in Write.
	Callers int  `json:"callers,omitempty"`
	Rounds  int  `json:"rounds,omitempty"`
	Yield   bool `json:"yield,omitempty"`
	// gated: Pre is logged (buffered), a Flush is started and held inside its first Write, During
	// is executed while that flush is in progress, the flush is released, Post follows.
	// flusher: Pre is executed by one caller while another goroutine flushes in a loop through a
	// slow writer.
	Pre    []Op `json:"pre,omitempty"`
	During []Op `json:"during,omitempty"`
	Post   []Op `json:"post,omitempty"`
	// fault oracles of alloc / dealloc (harness-controlled failures at the call sites of the real code):
	// FM: for the duration of the call the Manager's subscriber_nat handle is a dead one (every map
	//     syscall of the call fails); the real kernel map is what is dumped afterwards.
	// FL: the log writer returns an error (and writes nothing) while the call and the flush of its
	//     record run.
	FM bool `json:"fm,omitempty"`
	FL bool `json:"fl,omitempty"`
	// addrange: AddPublicIPRange(IP, IP2)
	IP2 uint32 `json:"ip2,omitempty"`
	// relrace: Cleanup releases everything at the end (so that a following stats op is comparable)
	Cleanup bool `json:"cleanup,omitempty"`
	// rotate: the real file logger with size-based rotation; the Cross-th record (1-based) is the
	// one that makes the file reach MaxFileSize
	Cross int `json:"cross,omitempty"`
}
type Case struct {
	PPS   int    `json:"pps"`
	Start int    `json:"start"`
	End   int    `json:"end"`
	Log   string `json:"log"` // nil off bulk trad trad-csv
	Buf   int    `json:"buf,omitempty"`
	Rot   bool   `json:"rot,omitempty"`  // the rotate op creates the (file) logger itself
	KMax  int    `json:"kmax,omitempty"` // > 0: the Manager writes into a real kernel subscriber_nat hash map of that many entries
	Ops   []Op   `json:"ops"`
}

func ip4(k uint32) net.IP {
	b := make(net.IP, 4)
	binary.BigEndian.PutUint32(b, k)
	return b
}
func key(ip net.IP) uint32 {
	v := ip.To4()
	if v == nil {
		return 0
	}
	return binary.BigEndian.Uint32(v)
}
func keyS(s string) uint32 { return key(net.ParseIP(s)) }

const pubBase = 0xCB007100 // 203.0.113.0
const privBase = 0x0A000000

func Z(v int64) string {
	if v < 0 {
		return fmt.Sprintf("(%d)", v)
	}
	return fmt.Sprintf("%d", v)
}

type rec struct {
	coq string
	ts  time.Time
}

// lockedBuf: the Logger serialises writes under its own mutex; reads happen between calls.
type lockedBuf struct {
	mu    sync.Mutex
	b     bytes.Buffer
	yield atomic.Bool
	slow  atomic.Bool
	gate  atomic.Pointer[gate]
	fail  atomic.Bool
}

// Write: harness-side behaviours of the writer (the code under test is unchanged):
//
//	yield - give up the processor before writing (a slow disk / pipe), so that other goroutines
//	        run while a flush or an AllocateNAT that logs synchronously is in progress;
//	gate  - the next Write announces itself on entered and waits for release (a flush held
//	        mid-batch, deterministically).
func (l *lockedBuf) Write(p []byte) (int, error) {
	if l.fail.Load() { // a failing sink (disk full, closed pipe): nothing is written
		return 0, fmt.Errorf("verif: log sink refuses the write")
	}
	if g := l.gate.Swap(nil); g != nil {
		close(g.entered)
		<-g.release
	}
	if l.yield.Load() {
		runtime.Gosched()
		if l.slow.Load() {
			time.Sleep(20 * time.Microsecond)
		}
	}
	l.mu.Lock()
	defer l.mu.Unlock()
	return l.b.Write(p)
}

type gate struct{ entered, release chan struct{} }

func (l *lockedBuf) take() string {
	l.mu.Lock()
	defer l.mu.Unlock()
	s := l.b.String()
	l.b.Reset()
	return s
}

type sys struct {
	mgr     *nat.Manager
	lg      *nat.Logger
	buf     *lockedBuf
	mode    string
	lastTS  time.Time
	kmap    *ebpf.Map
	dead    *ebpf.Map // a closed duplicate of kmap: every syscall through it fails
	rotated int       // rotate op: number of rotated files found at the end
}

// mapFault swaps the Manager's subscriber_nat handle: dead for the duration of a faulted call.
func (s *sys) mapFault(on bool) {
	if s.kmap == nil {
		return
	}
	if on {
		s.mgr.VerifInjectMaps(nat.VerifNATMaps{SubscriberNAT: s.dead})
	} else {
		s.mgr.VerifInjectMaps(nat.VerifNATMaps{SubscriberNAT: s.kmap})
	}
}

// newSubscriberNATMap creates a kernel hash map with the key/value sizes the Go side marshals
// (uint32 key, nat.SubscriberNAT value) and the given number of entries.
func newSubscriberNATMap(max int) (*ebpf.Map, error) {
	return ebpf.NewMap(&ebpf.MapSpec{Name: "subscriber_nat", Type: ebpf.Hash, KeySize: 4,
		ValueSize: uint32(binary.Size(nat.SubscriberNAT{})), MaxEntries: uint32(max)})
}

var kernelBPF = func() bool {
	rlimit.RemoveMemlock()
	m, err := newSubscriberNATMap(1)
	if err != nil {
		return false
	}
	m.Close()
	return true
}()

// kdump: the raw content of subscriber_nat, keys as the Go side wrote them (native-endian uint32 of
// ipToKey), values decoded with the Go struct; sorted by key; AllocatedAt (a timestamp) projected out.
func (s *sys) kdump() string {
	type kv struct {
		k uint32
		v nat.SubscriberNAT
	}
	var all []kv
	var kb, vb []byte
	it := s.kmap.Iterate()
	for it.Next(&kb, &vb) {
		var e kv
		e.k = binary.LittleEndian.Uint32(kb)
		if err := binary.Read(bytes.NewReader(vb), binary.LittleEndian, &e.v); err != nil {
			panic(err)
		}
		all = append(all, e)
	}
	if err := it.Err(); err != nil {
		panic(err)
	}
	sort.Slice(all, func(i, j int) bool { return all[i].k < all[j].k })
	var l []string
	for _, e := range all {
		b := e.v.Block
		probe := e.v
		probe.Block = nat.PortBlock{}
		rest0 := b.PortsInUse == 0 && b.Flags == 0 && probe == (nat.SubscriberNAT{})
		l = append(l, fmt.Sprintf("(ke %d %d %d %d %d %d %d %s)", e.k, b.PublicIP, b.PortStart, b.PortEnd, b.NextPort,
			b.SubscriberID, b.BlockSizeLog2, vh.Bool(rest0)))
	}
	return "(KDump, KMap " + vh.List(l) + ")"
}

func newSys(c Case) *sys {
	mgr, err := nat.NewManager(nat.ManagerConfig{Interface: "verif0", PortsPerSubscriber: c.PPS,
		PortRangeStart: c.Start, PortRangeEnd: c.End}, zap.NewNop())
	if err != nil {
		panic(err)
	}
	s := &sys{mgr: mgr, mode: c.Log, buf: &lockedBuf{}}
	if c.KMax > 0 {
		m, err := newSubscriberNATMap(c.KMax)
		if err != nil {
			panic(err)
		}
		s.kmap = m
		d, err := m.Clone()
		if err != nil {
			panic(err)
		}
		d.Close()
		s.dead = d
		mgr.VerifInjectMaps(nat.VerifNATMaps{SubscriberNAT: m})
	}
	if c.Log != "nil" && !c.Rot {
		format := nat.LogFormatJSON
		if c.Log == "trad-csv" {
			format = nat.LogFormatCSV
		}
		lg, err := nat.NewLogger(nat.LoggerConfig{Enabled: c.Log != "off", Format: format, BufferSize: c.Buf,
			BulkLogging: c.Log == "bulk"}, zap.NewNop())
		if err != nil {
			panic(err)
		}
		lg.VerifSetLogWriter(s.buf)
		mgr.SetLogger(lg)
		s.lg = lg
	}
	return s
}

// drain flushes the logger and decodes the lines written since the last drain.
func (s *sys) drain() []rec {
	if s.lg == nil {
		return nil
	}
	s.lg.Flush()
	s.lg.FlushPortBlocks()
	var out []rec
	for _, line := range strings.Split(s.buf.take(), "\n") {
		if line == "" {
			continue
		}
		out = append(out, s.decode(line))
	}
	return out
}

func (s *sys) decode(line string) rec {
	bad := rec{coq: "LTrad true 0 0 0 (-1)"} // undecodable line: a record no clause accepts
	switch s.mode {
	case "bulk":
		var e struct {
			Timestamp    time.Time `json:"timestamp"`
			EventType    string    `json:"event_type"`
			SubscriberID uint32    `json:"subscriber_id"`
			PrivateIP    string    `json:"private_ip"`
			PublicIP     string    `json:"public_ip"`
			PortStart    int64     `json:"port_start"`
			PortEnd      int64     `json:"port_end"`
			BlockSize    int64     `json:"block_size"`
		}
		if json.Unmarshal([]byte(line), &e) != nil || (e.EventType != "port_block_assign" && e.EventType != "port_block_release") {
			return bad
		}
		return rec{ts: e.Timestamp, coq: fmt.Sprintf("LBulk %s %d %d %d %d %d %d", vh.Bool(e.EventType == "port_block_assign"),
			e.SubscriberID, keyS(e.PrivateIP), keyS(e.PublicIP), e.PortStart, e.PortEnd, e.BlockSize)}
	case "trad":
		var e struct {
			Timestamp    time.Time `json:"timestamp"`
			EventType    string    `json:"event_type"`
			SubscriberID uint32    `json:"subscriber_id"`
			PrivateIP    string    `json:"private_ip"`
			PublicIP     string    `json:"public_ip"`
			PublicPort   int64     `json:"public_port"`
		}
		if json.Unmarshal([]byte(line), &e) != nil || (e.EventType != "allocate" && e.EventType != "deallocate") {
			return bad
		}
		return rec{ts: e.Timestamp, coq: fmt.Sprintf("LTrad %s %d %d %d %d", vh.Bool(e.EventType == "allocate"),
			e.SubscriberID, keyS(e.PrivateIP), keyS(e.PublicIP), e.PublicPort)}
	case "trad-csv":
		f := strings.Split(line, ",")
		if len(f) != 13 || (f[1] != "allocate" && f[1] != "deallocate") {
			return bad
		}
		ts, err := time.Parse(time.RFC3339, f[0])
		sid, e2 := strconv.ParseInt(f[2], 10, 64)
		port, e3 := strconv.ParseInt(f[6], 10, 64)
		if err != nil || e2 != nil || e3 != nil {
			return bad
		}
		return rec{ts: ts, coq: fmt.Sprintf("LTrad %s %d %d %d %d", vh.Bool(f[1] == "allocate"), sid, keyS(f[3]), keyS(f[5]), port)}
	}
	return bad
}

func coqMode(m string) string {
	switch m {
	case "bulk":
		return "LogBulk"
	case "trad", "trad-csv":
		return "LogTrad"
	}
	return "LogOff"
}

func view(a *nat.Allocation) string {
	return fmt.Sprintf("(av %d %d %d %d %d %d)",
		key(a.PrivateIP), key(a.PublicIP), a.PortStart, a.PortEnd, a.PoolIndex, a.SubscriberID)
}

func recsCoq(rs []rec) string {
	var l []string
	for _, r := range rs {
		l = append(l, r.coq)
	}
	return vh.List(l)
}

// tsOK: every record's stamp lies inside the call's wall-clock window and stamps do not go back.
// (CSV stamps have one-second resolution.)
func (s *sys) tsOK(rs []rec, before, after time.Time) bool {
	ok := true
	for _, r := range rs {
		lo := before
		if s.mode == "trad-csv" {
			lo = before.Truncate(time.Second)
		}
		if r.ts.IsZero() || r.ts.Before(lo) || r.ts.After(after) {
			ok = false
		}
		if s.mode != "trad-csv" {
			if r.ts.Before(s.lastTS) {
				ok = false
			}
			s.lastTS = r.ts
		}
	}
	return ok
}

func errClass(err error) int {
	switch {
	case strings.Contains(err.Error(), "exhausted"):
		return 0
	case strings.Contains(err.Error(), "IPv4"):
		return 1
	case strings.Contains(err.Error(), "already"):
		return 2
	case strings.Contains(err.Error(), "failed to update eBPF map"):
		return 3
	case strings.Contains(err.Error(), "failed to delete"):
		return 4
	}
	return 9
}

func run(c Case) vh.Case {
	s := newSys(c)
	if s.kmap != nil {
		defer s.kmap.Close()
	}
	failed := map[uint32]bool{}
	tags := map[string]bool{"log:" + c.Log: true, fmt.Sprintf("cfg:%d-%d/%d", c.Start, c.End, c.PPS): true}
	var tr []string
	nAlloc, nNew, nExh, midRel := 0, 0, 0, false
	holders := map[uint32]uint16{}
	for _, o := range c.Ops {
		var op, res string
		before := time.Now().UTC()
		switch o.K {
		case "addip":
			err := s.mgr.AddPublicIP(ip4(o.IP))
			op = fmt.Sprintf("AddIP %d", o.IP)
			if err != nil {
				res = fmt.Sprintf("RErr %d", errClass(err))
			} else {
				res = "RNone"
			}
		case "alloc":
			s.mapFault(o.FM)
			s.buf.fail.Store(o.FL)
			a, err := s.mgr.AllocateNAT(ip4(o.IP))
			s.mapFault(false)
			op = fmt.Sprintf("Alloc %d", o.IP)
			if o.FM || o.FL {
				op = fmt.Sprintf("AllocF %d %s %s", o.IP, vh.Bool(o.FM), vh.Bool(o.FL))
			}
			nAlloc++
			if err != nil {
				res = fmt.Sprintf("RErr %d", errClass(err))
				if errClass(err) == 0 {
					nExh++
				}
			} else {
				res = "RAlloc " + view(a)
				if _, ok := holders[o.IP]; !ok {
					nNew++
					holders[o.IP] = a.PortStart
				}
			}
		case "dealloc":
			if st, ok := holders[o.IP]; ok {
				for _, st2 := range holders {
					if st2 > st {
						midRel = true
					}
				}
				delete(holders, o.IP)
			}
			s.mapFault(o.FM)
			s.buf.fail.Store(o.FL)
			err := s.mgr.DeallocateNAT(ip4(o.IP))
			s.mapFault(false)
			op = fmt.Sprintf("Dealloc %d", o.IP)
			if o.FM || o.FL {
				op = fmt.Sprintf("DeallocF %d %s %s", o.IP, vh.Bool(o.FM), vh.Bool(o.FL))
			}
			if err != nil {
				res = fmt.Sprintf("RErr %d", errClass(err))
			} else {
				res = "RNone"
			}
		case "get":
			a := s.mgr.GetAllocation(ip4(o.IP))
			op = fmt.Sprintf("Get %d", o.IP)
			if a == nil {
				res = "RGet None"
			} else {
				res = "RGet (Some " + view(a) + ")"
			}
		case "stats":
			var l []string
			for _, p := range s.mgr.GetPoolStats() {
				l = append(l, fmt.Sprintf("(%d, %s, %s)", key(p.PublicIP), Z(int64(p.Subscribers)), Z(int64(p.MaxSubscribers))))
			}
			op, res = "Stats", fmt.Sprintf("RStats %d %s", s.mgr.GetAllocationCount(), vh.List(l))
		case "addrange":
			// AddPublicIPRange as coded = AddPublicIP for every address of the range in order, stopping
			// at the first error: the call is decomposed into the AddIP steps its return value implies
			// (no error: all added; "failed to add IP X": everything before X added, X refused).
			err := s.mgr.AddPublicIPRange(ip4(o.IP), ip4(o.IP2))
			rs := s.drain()
			after := time.Now().UTC()
			tsok := vh.Bool(s.tsOK(rs, before, after))
			tags["op:addrange"] = true
			stop, stopRes := uint64(o.IP2)+1, ""
			if err != nil {
				msg := err.Error()
				if strings.Contains(msg, "start IP must be") {
					tags["addrange:inverted"] = true
					stop = uint64(o.IP) // nothing added
				} else if i := strings.Index(msg, "failed to add IP "); i >= 0 {
					rest := msg[i+len("failed to add IP "):]
					j := strings.Index(rest, ":")
					if j < 0 {
						panic("addrange: " + msg)
					}
					stop = uint64(keyS(rest[:j]))
					stopRes = fmt.Sprintf("RErr %d", errClass(fmt.Errorf("%s", rest[j:])))
					tags["addrange:refused-duplicate"] = true
				} else {
					panic("addrange: " + msg)
				}
			}
			n := 0
			for ip := uint64(o.IP); ip <= uint64(o.IP2) && ip <= stop; ip++ {
				r := "RNone"
				if ip == stop {
					if stopRes == "" {
						break
					}
					r = stopRes
				}
				l := "[]"
				if n == 0 {
					l = recsCoq(rs)
				}
				if s.kmap != nil {
					tr = append(tr, fmt.Sprintf("(KO (AddIP %d), KOut (mo (%s) %s %s))", ip, r, l, tsok), s.kdump())
				} else {
					tr = append(tr, fmt.Sprintf("(AddIP %d, mo (%s) %s %s)", ip, r, l, tsok))
				}
				n++
			}
			continue
		case "relrace":
			op, res = s.relrace(o), "RNone"
			tags[fmt.Sprintf("relrace:callers:%d", o.Callers)] = true
		case "rotate":
			op, res = s.rotate(c, o), "RNone"
			tags[fmt.Sprintf("rotate:cross:%d", o.Cross)] = true
			tags[fmt.Sprintf("rotate:rotated-files:%d", s.rotated)] = true
		case "kput", "kdel": // the harness's own entries in subscriber_nat (foreign keys)
			var kb [4]byte
			binary.LittleEndian.PutUint32(kb[:], o.IP)
			res = "RNone"
			if o.K == "kput" {
				op = fmt.Sprintf("KPut %d", o.IP)
				if err := s.kmap.Put(kb[:], make([]byte, s.kmap.ValueSize())); err != nil {
					res = "RErr 3"
				}
			} else {
				op = fmt.Sprintf("KDel %d", o.IP)
				s.kmap.Delete(kb[:])
			}
		case "conc":
			op, res = s.conc(o), "RNone"
			tags[fmt.Sprintf("conc:goroutines:%d", len(o.Scripts))] = true
		case "race":
			var dbl int
			op, dbl = s.race(o)
			res = "RNone"
			tags[fmt.Sprintf("race:callers:%d", o.Callers)] = true
			if dbl > 0 {
				tags["race:saw-two-blocks-for-one-subscriber"] = true
			}
		case "gated":
			op, res = s.gated(o), "RNone"
		case "flusher":
			op, res = s.flusher(o), "RNone"
		default:
			panic("unknown op " + o.K)
		}
		var rs []rec
		if o.K != "conc" && o.K != "race" && o.K != "gated" && o.K != "flusher" && o.K != "relrace" && o.K != "rotate" {
			rs = s.drain()
		}
		s.buf.fail.Store(false)
		after := time.Now().UTC()
		tags["op:"+o.K] = true
		if o.FM {
			tags["fault:map:"+o.K] = true
		}
		if o.FL {
			tags["fault:log:"+o.K] = true
		}
		if o.K == "dealloc" && strings.HasPrefix(res, "RErr 4") {
			tags["saw:release-refused"] = true
		}
		if o.K == "alloc" {
			if strings.HasPrefix(res, "RErr 3") {
				tags["saw:map-update-failed"] = true
				failed[o.IP] = true
			} else if strings.HasPrefix(res, "RAlloc") && failed[o.IP] {
				tags["saw:success-after-map-update-failure"] = true
				delete(failed, o.IP)
			}
		}
		tsok := vh.Bool(s.tsOK(rs, before, after))
		ent := fmt.Sprintf("(%s, mo (%s) %s %s)", op, res, recsCoq(rs), tsok)
		if s.kmap != nil {
			if o.K == "kput" || o.K == "kdel" {
				ent = fmt.Sprintf("(%s, KOut (mo (%s) [] true))", op, res)
			} else {
				ent = fmt.Sprintf("(KO (%s), KOut (mo (%s) %s %s))", op, res, recsCoq(rs), tsok)
			}
			tr = append(tr, ent, s.kdump()) // after every op: the raw content of the kernel map
			continue
		}
		tr = append(tr, ent)
	}
	if nExh > 0 {
		tags["saw:exhausted"] = true
	}
	if midRel {
		tags["saw:middle-release"] = true
	}
	if nNew >= 4 {
		tags["saw:>=4-blocks"] = true
	}
	var tl []string
	for t := range tags {
		tl = append(tl, t)
	}
	sort.Strings(tl)
	coq := fmt.Sprintf("(%s, %s, %s, %s,\n  %s)", Z(int64(c.PPS)), Z(int64(c.Start)), Z(int64(c.End)), coqMode(c.Log), vh.List(tr))
	if c.KMax > 0 {
		tl = append(tl, fmt.Sprintf("kmax:%d", c.KMax))
		coq = fmt.Sprintf("(%s, %s, %s, %s, %d,\n  %s)", Z(int64(c.PPS)), Z(int64(c.Start)), Z(int64(c.End)), coqMode(c.Log), c.KMax, vh.List(tr))
	}
	return vh.Case{Coq: coq, Desc: c, Tags: tl}
}

// conc runs the scripts concurrently on the real Manager and returns the ConcObs op term.
func (s *sys) conc(o Op) string {
	var wg sync.WaitGroup
	start := make(chan struct{})
	rets := make([][]string, len(o.Scripts))
	hasDealloc := false
	privs := map[uint32]bool{}
	for _, sc := range o.Scripts {
		for _, x := range sc {
			privs[x.IP] = true
			if x.K == "dealloc" {
				hasDealloc = true
			}
		}
	}
	for g, sc := range o.Scripts {
		wg.Add(1)
		go func(g int, sc []Op) {
			defer wg.Done()
			<-start
			for _, x := range sc {
				switch x.K {
				case "alloc":
					if a, err := s.mgr.AllocateNAT(ip4(x.IP)); err == nil {
						rets[g] = append(rets[g], view(a))
					}
				case "dealloc":
					s.mgr.DeallocateNAT(ip4(x.IP))
				}
			}
		}(g, sc)
	}
	close(start)
	wg.Wait()
	var all []string
	for _, r := range rets {
		all = append(all, r...)
	}
	var ks []uint32
	for k := range privs {
		ks = append(ks, k)
	}
	sort.Slice(ks, func(i, j int) bool { return ks[i] < ks[j] })
	var table []string
	for _, k := range ks {
		if a := s.mgr.GetAllocation(ip4(k)); a != nil {
			table = append(table, view(a))
		}
	}
	rs := s.drain()
	return fmt.Sprintf("ConcObs (co %s %s false %s %s)",
		vh.List(all), vh.Bool(hasDealloc), vh.List(table), recsCoq(rs))
}

// race: Rounds rounds; in each round Callers goroutines leave a spinning barrier together and call
// AllocateNAT for the same, fresh private IP.  Observation: the distinct allocations returned per
// round (every return is recorded; equal ones are listed once), the final table, the log.
func (s *sys) race(o Op) (string, int) {
	s.buf.yield.Store(o.Yield)
	defer s.buf.yield.Store(false)
	n, rounds := o.Callers, o.Rounds
	rets := make([][]*nat.Allocation, n)
	for g := range rets {
		rets[g] = make([]*nat.Allocation, rounds)
	}
	var arrived atomic.Int64
	var wg sync.WaitGroup
	for g := 0; g < n; g++ {
		wg.Add(1)
		go func(g int) {
			defer wg.Done()
			for r := 0; r < rounds; r++ {
				ip := ip4(o.IP + uint32(r))
				arrived.Add(1)
				for arrived.Load() < int64((r+1)*n) { // barrier: everybody enters round r together
					runtime.Gosched()
				}
				if a, err := s.mgr.AllocateNAT(ip); err == nil {
					rets[g][r] = a
				}
			}
		}(g)
	}
	wg.Wait()
	var all, table []string
	doubles := 0
	for r := 0; r < rounds; r++ {
		seen := map[string]bool{}
		for g := 0; g < n; g++ {
			if a := rets[g][r]; a != nil {
				v := view(a)
				if !seen[v] {
					seen[v] = true
					all = append(all, v)
				}
			}
		}
		if len(seen) > 1 {
			doubles++
		}
		if a := s.mgr.GetAllocation(ip4(o.IP + uint32(r))); a != nil {
			table = append(table, view(a))
		}
	}
	rs := s.drain()
	return fmt.Sprintf("ConcObs (co %s false false %s %s)", vh.List(all), vh.List(table), recsCoq(rs)), doubles
}

// seqOps executes alloc/dealloc ops in program order on the calling goroutine (no drain).
func (s *sys) seqOps(ops []Op, rets *[]string, privs map[uint32]bool) {
	for _, x := range ops {
		privs[x.IP] = true
		switch x.K {
		case "alloc":
			if a, err := s.mgr.AllocateNAT(ip4(x.IP)); err == nil {
				*rets = append(*rets, view(a))
			}
		case "dealloc":
			s.mgr.DeallocateNAT(ip4(x.IP))
		}
	}
}

func (s *sys) strictObs(rets []string, privs map[uint32]bool) string {
	var ks []uint32
	for k := range privs {
		ks = append(ks, k)
	}
	sort.Slice(ks, func(i, j int) bool { return ks[i] < ks[j] })
	var table []string
	for _, k := range ks {
		if a := s.mgr.GetAllocation(ip4(k)); a != nil {
			table = append(table, view(a))
		}
	}
	rs := s.drain()
	return fmt.Sprintf("ConcObs (co %s true true %s %s)", vh.List(rets), vh.List(table), recsCoq(rs))
}

// gated: events are logged while a flush of the earlier (>= 2) records is held inside its first Write.
func (s *sys) gated(o Op) string {
	var rets []string
	privs := map[uint32]bool{}
	s.seqOps(o.Pre, &rets, privs)
	g := &gate{entered: make(chan struct{}), release: make(chan struct{})}
	s.buf.gate.Store(g)
	done := make(chan struct{})
	go func() {
		s.lg.Flush()
		s.lg.FlushPortBlocks()
		close(done)
	}()
	select {
	case <-g.entered: // the flush is now inside Write with the rest of its batch still to come
		s.seqOps(o.During, &rets, privs)
		close(g.release)
	case <-done: // nothing was buffered
		s.buf.gate.Store(nil)
		s.seqOps(o.During, &rets, privs)
	}
	<-done
	s.seqOps(o.Post, &rets, privs)
	return s.strictObs(rets, privs)
}

// flusher: one caller issues the events while another goroutine flushes continuously through a
// slow, yielding writer (the role of Logger.flushLoop, driven by the harness so that it can be joined).
func (s *sys) flusher(o Op) string {
	var rets []string
	privs := map[uint32]bool{}
	s.buf.yield.Store(true)
	s.buf.slow.Store(true)
	var stop atomic.Bool
	done := make(chan struct{})
	go func() {
		for !stop.Load() {
			s.lg.Flush()
			runtime.Gosched()
		}
		close(done)
	}()
	for _, x := range o.Pre {
		s.seqOps([]Op{x}, &rets, privs)
		if o.Yield {
			runtime.Gosched()
		}
	}
	stop.Store(true)
	<-done
	s.buf.yield.Store(false)
	s.buf.slow.Store(false)
	return s.strictObs(rets, privs)
}

// ---------------------------------------------------------------- generators

type geom struct{ start, end, pps int }

var ranges = [][2]int{{1024, 65535}, {60000, 65535}, {1, 10}}
var ppss = []int{1, 3, 1000, 1024, 64512}
var logModes = []string{"bulk", "trad", "bulk", "trad-csv", "bulk", "trad"}

// configurations outside the guard 1 <= pps, 0 <= start <= end <= 65535 (defect stream)
var oog = []geom{{1024, 70000, 1024}, {60000, 70000, 3000}, {65530, 65540, 4}, {10, 1, -3}, {-5, 10, 4}, {1, 10, -3}, {100, 50, 7}, {1, 200000, 65536}, {1, 200000, 70000}}

func pub(i int) uint32  { return pubBase + 1 + uint32(i) }
func priv(i int) uint32 { return privBase + 1 + uint32(i) }

func genRandom(r *vh.Rng, g geom, mode string, maxOps int) Case {
	c := Case{PPS: g.pps, Start: g.start, End: g.end, Log: mode, Buf: []int{0, 1, 10, 30}[r.Intn(4)]}
	nip := 1 + r.Intn(3)
	nsub := 2 + r.Intn(5) // <= 6 subscribers
	for i := 0; i < nip; i++ {
		if i == 0 || r.Chance(3, 4) {
			c.Ops = append(c.Ops, Op{K: "addip", IP: pub(i)})
		}
	}
	n := 4 + r.Intn(maxOps)
	var held []int
	drop := func(i int) {
		for k, h := range held {
			if h == i {
				held = append(held[:k], held[k+1:]...)
				return
			}
		}
	}
	for len(c.Ops) < n {
		x := r.Intn(100)
		switch {
		case x < 12 && len(held) >= 2:
			// release from the middle (not the most recent holder), then allocate someone else
			k := r.Intn(len(held) - 1)
			v := held[k]
			c.Ops = append(c.Ops, Op{K: "dealloc", IP: priv(v)})
			drop(v)
			w := r.Intn(nsub)
			c.Ops = append(c.Ops, Op{K: "alloc", IP: priv(w)})
			drop(w)
			held = append(held, w)
		case x < 45:
			w := r.Intn(nsub)
			c.Ops = append(c.Ops, Op{K: "alloc", IP: priv(w)})
			drop(w)
			held = append(held, w)
		case x < 65:
			w := r.Intn(nsub)
			c.Ops = append(c.Ops, Op{K: "dealloc", IP: priv(w)})
			drop(w)
		case x < 80:
			c.Ops = append(c.Ops, Op{K: "get", IP: priv(r.Intn(nsub))})
		case x < 88:
			c.Ops = append(c.Ops, Op{K: "stats"})
		case x < 90:
			c.Ops = append(c.Ops, Op{K: "addip", IP: pub(r.Intn(3))}) // may repeat an address already in the pool
		case x < 92: // a range: may contain addresses already in the pool, may be inverted
			c.Ops = append(c.Ops, Op{K: "addrange", IP: pub(r.Intn(3)), IP2: pub(r.Intn(4))})
		default:
			if len(held) > 0 { // re-ask for a current holder
				c.Ops = append(c.Ops, Op{K: "alloc", IP: priv(held[r.Intn(len(held))])})
			}
		}
	}
	// closing sweep: every subscriber is asked again
	for i := 0; i < nsub; i++ {
		c.Ops = append(c.Ops, Op{K: "get", IP: priv(i)})
	}
	c.Ops = append(c.Ops, Op{K: "stats"})
	return c
}

// exhaustive: all effective histories (alloc fresh / alloc lowest returning subscriber / dealloc any
// current holder) to the given depth on 2 public addresses of 3 blocks each, <= 6 holders.
func genExhaustive(depth int, emit func(Case)) {
	g := geom{1, 10, 3}
	var rec func(ops []Op, held []int, released []int, next int, d int)
	idx := 0
	rec = func(ops []Op, held []int, released []int, next int, d int) {
		if d == 0 {
			c := Case{PPS: g.pps, Start: g.start, End: g.end, Log: logModes[idx%2], Buf: 10}
			idx++
			c.Ops = append(c.Ops, Op{K: "addip", IP: pub(0)}, Op{K: "addip", IP: pub(1)})
			c.Ops = append(c.Ops, ops...)
			for i := 0; i < next; i++ {
				c.Ops = append(c.Ops, Op{K: "get", IP: priv(i)})
			}
			c.Ops = append(c.Ops, Op{K: "stats"})
			emit(c)
			return
		}
		if next < 7 { // a 7th fresh subscriber meets the exhausted pool
			rec(append(ops[:len(ops):len(ops)], Op{K: "alloc", IP: priv(next)}), append(held[:len(held):len(held)], next), released, next+1, d-1)
		}
		if len(released) > 0 {
			w := released[0]
			rec(append(ops[:len(ops):len(ops)], Op{K: "alloc", IP: priv(w)}), append(held[:len(held):len(held)], w), released[1:], next, d-1)
		}
		for k, v := range held {
			h2 := append(append([]int{}, held[:k]...), held[k+1:]...)
			r2 := append(append([]int{}, released...), v)
			sort.Ints(r2)
			rec(append(ops[:len(ops):len(ops)], Op{K: "dealloc", IP: priv(v)}), h2, r2, next, d-1)
		}
	}
	rec(nil, nil, nil, 0, depth)
}

func genConc(r *vh.Rng, g geom, mode string) Case {
	c := Case{PPS: g.pps, Start: g.start, End: g.end, Log: mode, Buf: 10}
	nip := 1 + r.Intn(2)
	for i := 0; i < nip; i++ {
		c.Ops = append(c.Ops, Op{K: "addip", IP: pub(i)})
	}
	// some sequential prefix
	for i := 0; i < r.Intn(3); i++ {
		c.Ops = append(c.Ops, Op{K: "alloc", IP: priv(4 + i)})
	}
	var scripts [][]Op
	ng := 2 + r.Intn(7)
	switch r.Intn(4) {
	case 0: // every goroutine allocates the same private IP
		ng = 4 + r.Intn(13)
		for i := 0; i < ng; i++ {
			scripts = append(scripts, []Op{{K: "alloc", IP: priv(0)}})
		}
	case 3: // waves: every goroutine asks for the same three private IPs in the same order
		ng = 4 + r.Intn(9)
		for i := 0; i < ng; i++ {
			scripts = append(scripts, []Op{{K: "alloc", IP: priv(0)}, {K: "alloc", IP: priv(1)}, {K: "alloc", IP: priv(2)}})
		}
	case 1: // two or three private IPs, several callers each, allocations only
		for i := 0; i < ng; i++ {
			var sc []Op
			for k := 0; k < 1+r.Intn(3); k++ {
				sc = append(sc, Op{K: "alloc", IP: priv(r.Intn(3))})
			}
			scripts = append(scripts, sc)
		}
	default: // allocations and releases mixed
		for i := 0; i < ng; i++ {
			var sc []Op
			for k := 0; k < 2+r.Intn(4); k++ {
				kind := "alloc"
				if r.Chance(2, 5) {
					kind = "dealloc"
				}
				sc = append(sc, Op{K: kind, IP: priv(r.Intn(4))})
			}
			scripts = append(scripts, sc)
		}
	}
	c.Ops = append(c.Ops, Op{K: "conc", Scripts: scripts})
	return c
}

// genRace: same-subscriber race rounds (no releases): 2..16 callers, many rounds per case.
func genRace(r *vh.Rng, rounds int, mode string) Case {
	c := Case{PPS: 16, Start: 1024, End: 65535, Log: mode, Buf: []int{1, 5, 1000}[r.Intn(3)]}
	c.Ops = append(c.Ops, Op{K: "addip", IP: pub(0)})
	callers := []int{2, 3, 4, 6, 8, 8, 12, 16}[r.Intn(8)]
	c.Ops = append(c.Ops, Op{K: "race", IP: priv(100), Callers: callers, Rounds: rounds, Yield: r.Bool()})
	return c
}

func genEvents(r *vh.Rng, n int, held *[]int, nsub int) []Op {
	var ops []Op
	for len(ops) < n {
		if len(*held) > 0 && r.Chance(2, 5) {
			k := r.Intn(len(*held))
			ops = append(ops, Op{K: "dealloc", IP: priv((*held)[k])})
			*held = append((*held)[:k], (*held)[k+1:]...)
			continue
		}
		w := r.Intn(nsub)
		isHeld := false
		for _, h := range *held {
			if h == w {
				isHeld = true
			}
		}
		if isHeld {
			continue
		}
		ops = append(ops, Op{K: "alloc", IP: priv(w)})
		*held = append(*held, w)
	}
	return ops
}

// genGated: >= 2 buffered records, a flush held mid-batch, >= 2 events during it.
func genGated(r *vh.Rng, mode string) Case {
	c := Case{PPS: 1000, Start: 60000, End: 65535, Log: mode, Buf: 200}
	c.Ops = append(c.Ops, Op{K: "addip", IP: pub(0)}, Op{K: "addip", IP: pub(1)})
	var held []int
	pre := genEvents(r, 2+r.Intn(4), &held, 8)
	during := genEvents(r, 2+r.Intn(4), &held, 8)
	post := genEvents(r, r.Intn(3), &held, 8)
	c.Ops = append(c.Ops, Op{K: "gated", Pre: pre, During: during, Post: post})
	return c
}

// genFlusher: traditional mode, small BufferSize, a concurrent flusher behind a slow writer.
func genFlusher(r *vh.Rng, mode string) Case {
	c := Case{PPS: 1000, Start: 60000, End: 65535, Log: mode, Buf: 2 + r.Intn(3)}
	c.Ops = append(c.Ops, Op{K: "addip", IP: pub(0)}, Op{K: "addip", IP: pub(1)})
	var held []int
	c.Ops = append(c.Ops, Op{K: "flusher", Pre: genEvents(r, 20+r.Intn(40), &held, 9), Yield: r.Bool()})
	return c
}

const foreignBase = 0xC0A80000 // 192.168.0.0: keys the harness itself puts into subscriber_nat

// genKmapTiny: a subscriber_nat of 1-2 entries, partly occupied by foreign keys, so that the map
// update inside AllocateNAT fails at chosen points; then retry / GetAllocation / release / room / retry.
func genKmapTiny(r *vh.Rng, mode string) Case {
	c := Case{PPS: 1000, Start: 60000, End: 65535, Log: mode, Buf: []int{0, 10}[r.Intn(2)], KMax: 1 + r.Intn(2)}
	c.Ops = append(c.Ops, Op{K: "addip", IP: pub(0)})
	if r.Bool() {
		c.Ops = append(c.Ops, Op{K: "addip", IP: pub(1)})
	}
	nsub := 2 + r.Intn(3)
	n := 8 + r.Intn(20)
	last := 0
	for len(c.Ops) < n {
		x := r.Intn(100)
		switch {
		case x < 10:
			c.Ops = append(c.Ops, Op{K: "kput", IP: foreignBase + 1 + uint32(r.Intn(2))})
		case x < 20:
			c.Ops = append(c.Ops, Op{K: "kdel", IP: foreignBase + 1 + uint32(r.Intn(2))})
		case x < 50:
			last = r.Intn(nsub)
			c.Ops = append(c.Ops, Op{K: "alloc", IP: priv(last), FM: r.Chance(1, 5)})
		case x < 62: // ask again for the subscriber of the last AllocateNAT (a retry after a failure)
			c.Ops = append(c.Ops, Op{K: "alloc", IP: priv(last)})
		case x < 72:
			c.Ops = append(c.Ops, Op{K: "get", IP: priv(last)})
		case x < 88:
			last = r.Intn(nsub)
			c.Ops = append(c.Ops, Op{K: "dealloc", IP: priv(last), FM: r.Chance(1, 3)})
		case x < 94:
			c.Ops = append(c.Ops, Op{K: "stats"})
		default:
			c.Ops = append(c.Ops, Op{K: "get", IP: priv(r.Intn(nsub))})
		}
	}
	// make room, then everybody asks once more
	c.Ops = append(c.Ops, Op{K: "kdel", IP: foreignBase + 1}, Op{K: "kdel", IP: foreignBase + 2})
	for i := 0; i < nsub; i++ {
		c.Ops = append(c.Ops, Op{K: "alloc", IP: priv(i)}, Op{K: "get", IP: priv(i)})
	}
	c.Ops = append(c.Ops, Op{K: "stats"})
	return c
}

// genFaultExh: every fault pattern (none / map / log / both on each call) over every history of the
// given length from {alloc 0, alloc 1, dealloc 0, dealloc 1} on a roomy kernel map, 2 blocks on one
// address; then a fault-free tail: everybody retries, GetAllocation, a release, stats.
func genFaultExh(depth int, mode string, emit func(Case)) {
	kinds := []Op{{K: "alloc", IP: priv(0)}, {K: "alloc", IP: priv(1)}, {K: "dealloc", IP: priv(0)}, {K: "dealloc", IP: priv(1)}}
	var rec func(ops []Op, d int)
	rec = func(ops []Op, d int) {
		if d == 0 {
			c := Case{PPS: 4, Start: 1000, End: 1007, Log: mode, Buf: 10, KMax: 8}
			c.Ops = append(c.Ops, Op{K: "addip", IP: pub(0)})
			c.Ops = append(c.Ops, ops...)
			c.Ops = append(c.Ops, Op{K: "alloc", IP: priv(0)}, Op{K: "alloc", IP: priv(1)}, Op{K: "alloc", IP: priv(2)},
				Op{K: "get", IP: priv(0)}, Op{K: "get", IP: priv(1)}, Op{K: "dealloc", IP: priv(0)}, Op{K: "alloc", IP: priv(2)}, Op{K: "stats"})
			emit(c)
			return
		}
		for _, k := range kinds {
			for f := 0; f < 4; f++ {
				o := k
				o.FM, o.FL = f&1 != 0, f&2 != 0
				rec(append(ops[:len(ops):len(ops)], o), d-1)
			}
		}
	}
	rec(nil, depth)
}

// genFaultRandom: long histories on a roomy or a tiny kernel map with map and log faults sprinkled in.
func genFaultRandom(r *vh.Rng, mode string, logFaults bool) Case {
	c := Case{PPS: 1000, Start: 60000, End: 65535, Log: mode, Buf: []int{0, 1, 10}[r.Intn(3)], KMax: []int{2, 3, 64}[r.Intn(3)]}
	c.Ops = append(c.Ops, Op{K: "addip", IP: pub(0)})
	if r.Bool() {
		c.Ops = append(c.Ops, Op{K: "addip", IP: pub(1)})
	}
	nsub := 3 + r.Intn(4)
	n := 10 + r.Intn(30)
	for len(c.Ops) < n {
		w := priv(r.Intn(nsub))
		switch x := r.Intn(100); {
		case x < 40:
			c.Ops = append(c.Ops, Op{K: "alloc", IP: w, FM: r.Chance(1, 4), FL: logFaults && r.Chance(1, 6)})
		case x < 70:
			c.Ops = append(c.Ops, Op{K: "dealloc", IP: w, FM: r.Chance(1, 3), FL: logFaults && r.Chance(1, 6)})
		case x < 85:
			c.Ops = append(c.Ops, Op{K: "get", IP: w})
		case x < 92:
			c.Ops = append(c.Ops, Op{K: "stats"})
		default:
			c.Ops = append(c.Ops, Op{K: "addip", IP: pub(r.Intn(3))})
		}
	}
	for i := 0; i < nsub; i++ {
		c.Ops = append(c.Ops, Op{K: "alloc", IP: priv(i)}, Op{K: "get", IP: priv(i)})
	}
	c.Ops = append(c.Ops, Op{K: "stats"})
	return c
}

const kheader = `From Coq Require Import ZArith NArith List. Import ListNotations.
From Verif Require Import Model.Nat Model.NatSpec Model.NatK Model.NatKSpec Model.NatCheck.
Local Open Scope Z_scope.
Definition cases : list kcase := [
`
const kfooter = `
].
Definition R := Eval vm_compute in run_kcases cases.
Print R.
`

const header = `From Coq Require Import ZArith NArith List. Import ListNotations.
From Verif Require Import Model.Nat Model.NatSpec Model.NatCheck.
Local Open Scope Z_scope.
Definition cases : list case := [
`
const footer = `
].
Definition R := Eval vm_compute in run_cases cases.
Print R.
`

func main() {
	cfg := vh.ParseFlags()
	if cfg.Shard == 250 {
		cfg.Shard = 50 // long traces: small shards spread over the evaluation workers
	}
	if cfg.Replay != "" {
		var c Case
		if err := vh.LoadReplay(cfg.Replay, &c); err != nil {
			panic(err)
		}
		if c.KMax > 0 {
			if !kernelBPF {
				fmt.Println("kernel refuses bpf(): cannot replay a kernel-map case")
				vh.Emit(cfg, "kmap", kheader, kfooter, nil, map[string]interface{}{"kernel_bpf": false})
				return
			}
			vh.Emit(cfg, "kmap", kheader, kfooter, []vh.Case{run(c)}, map[string]interface{}{"kernel_bpf": true})
			return
		}
		vh.Emit(cfg, "cases", header, footer, []vh.Case{run(c)}, nil)
		return
	}
	r := vh.NewRng(cfg.Seed)
	var corpus, kcorpus []vh.Case
	for _, f := range vh.CorpusFiles(cfg) {
		var c Case
		if err := vh.LoadReplay(f, &c); err != nil {
			panic(err)
		}
		if c.KMax > 0 {
			if kernelBPF {
				kcorpus = append(kcorpus, run(c))
			}
			continue
		}
		corpus = append(corpus, run(c))
	}
	if len(corpus) > 0 {
		vh.Emit(cfg, "corpus", header, footer, corpus, nil)
	}
	if len(kcorpus) > 0 {
		vh.Emit(cfg, "corpus_kmap", kheader, kfooter, kcorpus, map[string]interface{}{"kernel_bpf": true})
	}

	// guarded stream 1: exhaustive effective histories
	depth := 6
	if cfg.Thorough() {
		depth = 8
	}
	var ex []vh.Case
	for d := 1; d <= depth; d++ {
		genExhaustive(d, func(c Case) { ex = append(ex, run(c)) })
	}
	vh.Emit(cfg, "exhaustive", header, footer, ex, map[string]interface{}{"exhaustive": true, "depth": depth,
		"space": "2 public addresses x 3 blocks (range 1-10, pps 3); alloc fresh / alloc lowest returning / dealloc any holder; every history of length <= depth"})

	// guarded stream 2: random long histories over the configured geometries
	nRand, maxOps := 12, 40
	if cfg.Thorough() {
		nRand, maxOps = 150, 160
	}
	var cases []vh.Case
	k := 0
	for _, rg := range ranges {
		for _, p := range ppss {
			for i := 0; i < nRand; i++ {
				cases = append(cases, run(genRandom(r.Fork(), geom{rg[0], rg[1], p}, logModes[k%len(logModes)], maxOps)))
				k++
			}
		}
	}
	for i := 0; i < nRand; i++ { // NewManager defaults (all zero)
		cases = append(cases, run(genRandom(r.Fork(), geom{0, 0, 0}, logModes[i%len(logModes)], maxOps)))
	}
	for i := 0; i < nRand; i++ { // logging off / no logger
		cases = append(cases, run(genRandom(r.Fork(), geom{60000, 65535, 1000}, []string{"off", "nil"}[i%2], maxOps)))
	}
	vh.Emit(cfg, "cases", header, footer, cases, nil)

	// defect stream: configurations outside the guard
	var og []vh.Case
	nOog := 6
	if cfg.Thorough() {
		nOog = 60
	}
	for _, g := range oog {
		for i := 0; i < nOog; i++ {
			og = append(og, run(genRandom(r.Fork(), g, logModes[i%len(logModes)], maxOps)))
		}
	}
	vh.Emit(cfg, "outside_guard", header, footer, og, nil)

	// sampled concurrent runs
	nConc := 60
	if cfg.Thorough() {
		nConc = 900
	}
	var cc []vh.Case
	for i := 0; i < nConc; i++ {
		g := geom{60000, 65535, 1000}
		if i%3 == 1 {
			g = geom{1, 10, 3}
		}
		cc = append(cc, run(genConc(r.Fork(), g, logModes[i%2])))
	}
	vh.Emit(cfg, "concurrent", header, footer, cc, map[string]interface{}{"sampled_schedules": true})

	// same-subscriber race: barrier-released rounds (sampled schedules, many rounds per case)
	if runtime.GOMAXPROCS(0) < 8 {
		runtime.GOMAXPROCS(8)
	}
	nRace, rounds := 16, 200
	if cfg.Thorough() {
		nRace = 100
	}
	var rc []vh.Case
	doubles := 0
	for i := 0; i < nRace; i++ {
		x := run(genRace(r.Fork(), rounds, logModes[i%2]))
		for _, t := range x.Tags {
			if t == "race:saw-two-blocks-for-one-subscriber" {
				doubles++
			}
		}
		rc = append(rc, x)
	}
	rcfg := cfg
	rcfg.Shard = 3
	vh.Emit(rcfg, "race", header, footer, rc, map[string]interface{}{"sampled_schedules": true, "rounds_per_case": rounds,
		"gomaxprocs": runtime.GOMAXPROCS(0)})

	// log events during an in-progress flush (deterministic gate) and beside a continuous flusher
	nFl := 40
	if cfg.Thorough() {
		nFl = 400
	}
	var fl []vh.Case
	for i := 0; i < nFl; i++ {
		mode := []string{"bulk", "trad", "trad-csv", "bulk"}[i%4]
		fl = append(fl, run(genGated(r.Fork(), mode)))
		if i%2 == 0 {
			fl = append(fl, run(genFlusher(r.Fork(), []string{"trad", "trad-csv"}[(i/2)%2])))
		}
	}
	vh.Emit(cfg, "flush", header, footer, fl, nil)

	// pool building through AddPublicIPRange: duplicate / overlapping / inverted ranges, then enough
	// subscribers to fill every entry (3 blocks per address)
	nRg := 40
	if cfg.Thorough() {
		nRg = 600
	}
	var rg []vh.Case
	for i := 0; i < nRg; i++ {
		rg = append(rg, run(genRanges(r.Fork(), logModes[i%len(logModes)])))
	}
	vh.Emit(cfg, "ranges", header, footer, rg, nil)

	// the real file logger with size-based rotation: each record index in turn crosses MaxFileSize
	var rt []vh.Case
	nRot := 1
	if cfg.Thorough() {
		nRot = 10
	}
	for rep := 0; rep < nRot; rep++ {
		for _, mode := range []string{"bulk", "trad", "trad-csv"} {
			for cross := 1; cross <= 8; cross++ {
				rt = append(rt, run(genRotate(r.Fork(), mode, cross)))
			}
		}
	}
	vh.Emit(cfg, "rotate", header, footer, rt, map[string]interface{}{"file_logger": true})

	// concurrent RELEASE callers for one subscriber (barrier-released rounds, an allocation racing in between)
	nRel, relRounds := 16, 300
	if cfg.Thorough() {
		nRel = 100
	}
	var rr []vh.Case
	for i := 0; i < nRel; i++ {
		rr = append(rr, run(genRelRace(r.Fork(), relRounds, logModes[i%2], i%2 == 1)))
	}
	vh.Emit(rcfg, "relrace", header, footer, rr, map[string]interface{}{"sampled_schedules": true, "rounds_per_case": relRounds,
		"gomaxprocs": runtime.GOMAXPROCS(0)})

	// the Manager writing into a real kernel subscriber_nat map (roomy: the map mirrors the table
	// after every op; tiny: the update inside AllocateNAT fails at chosen points)
	if !kernelBPF {
		fmt.Println("kernel refuses bpf(): kernel-map stream skipped")
		vh.Emit(cfg, "kmap", kheader, kfooter, nil, map[string]interface{}{"kernel_bpf": false})
		return
	}
	nK := 30
	if cfg.Thorough() {
		nK = 400
	}
	var km []vh.Case
	for i := 0; i < nK; i++ {
		mode := logModes[i%len(logModes)]
		km = append(km, run(genKmapTiny(r.Fork(), mode)))
		if i%3 == 0 {
			rg := ranges[(i/3)%len(ranges)]
			g := genRandom(r.Fork(), geom{rg[0], rg[1], ppss[(i/3)%len(ppss)]}, mode, 25)
			g.KMax = 64
			km = append(km, run(g))
		}
	}
	kcfg := cfg
	kcfg.Shard = 10
	vh.Emit(kcfg, "kmap", kheader, kfooter, km, map[string]interface{}{"kernel_bpf": true})

	// fault injection at every map call and every log write of AllocateNAT / DeallocateNAT:
	// small histories with every fault pattern (exhaustive), long random ones
	fdepth, nFR := 2, 30
	if cfg.Thorough() {
		fdepth, nFR = 3, 400
	}
	var fx []vh.Case
	fi := 0
	for d := 1; d <= fdepth; d++ {
		genFaultExh(d, "bulk", func(c Case) {
			c.Log = []string{"bulk", "trad", "bulk", "trad-csv"}[fi%4]
			fi++
			fx = append(fx, run(c))
		})
	}
	fcfg := cfg
	fcfg.Shard = 100
	vh.Emit(fcfg, "faults_exhaustive", kheader, kfooter, fx, map[string]interface{}{"kernel_bpf": true, "exhaustive": true, "depth": fdepth,
		"space": "calls {alloc 0, alloc 1, dealloc 0, dealloc 1} x fault {none, map, log, map+log} on each call, every history of length <= depth, 2 blocks on one address, roomy kernel map; fault-free tail"})
	var fr []vh.Case
	for i := 0; i < nFR; i++ {
		fr = append(fr, run(genFaultRandom(r.Fork(), logModes[i%len(logModes)], i%3 == 2)))
	}
	vh.Emit(kcfg, "faults", kheader, kfooter, fr, map[string]interface{}{"kernel_bpf": true})
}
