// C07 correspondence driver: every XDP/TC program of bpf/*.c is executed on generated frames
//   - natively (the same C compiled for x86-64) with the frame END flush against a PROT_NONE page, so that
//     any access beyond data_end faults (sampled: frame START flush against the leading guard page; ASan/UBSan
//     build as a second opinion),
//   - in the kernel with BPF_PROG_TEST_RUN (frames >= 14 bytes) on the object the in-kernel verifier accepted,
// with the same raw map contents.  Verdict, resulting length and the changed bytes are written, together with
// the frame and the map contents, as cases for Model/PktCheck.v (Model run + Spec acceptor inside Coq).
package main

import (
	"bufio"
	"bytes"
	"encoding/json"
	"encoding/binary"
	"fmt"
	"os"
	"path/filepath"
	"sort"
	"strings"

	"verifharness/bpfrun"
	"verifharness/vh"
)

// ---------------------------------------------------------------------------------------------- tables

type mapInfo struct {
	name  string
	id    int
	array int // > 0: array map with that value size (entry 0 always exists, zero-filled)
}
type progInfo struct {
	id   int
	obj  string
	name string
	xdp  bool
	// maps a run of this program may modify (reset before the next run)
	writes []string
}

var objMaps = map[string][]mapInfo{
	"antispoof":     {{"subscriber_bindings", 1, 0}, {"antispoof_config", 2, 8}, {"allowed_ranges_v4", 3, 0}},
	"qos_ratelimit": {{"qos_egress", 10, 0}, {"qos_ingress", 11, 0}},
	"nat44": {{"nat_sessions", 20, 0}, {"nat_reverse", 21, 0}, {"eim_table", 22, 0}, {"subscriber_nat", 23, 0},
		{"nat_config_map", 24, 16}, {"hairpin_ips", 25, 0}, {"alg_ports", 26, 0}},
	"dhcp_fastpath": {{"subscriber_pools", 30, 0}, {"vlan_subscriber_pools", 31, 0}, {"ip_pools", 32, 0},
		{"server_config", 33, 16}, {"circuit_id_subscribers", 34, 0}},
}
var progs = []progInfo{
	{1, "antispoof", "antispoof_ingress", false, nil},
	// qos: the buckets the scenarios install behave the same whatever tokens/last_update a run leaves behind
	{2, "qos_ratelimit", "qos_egress_prog", false, nil},
	{3, "qos_ratelimit", "qos_ingress_prog", false, nil},
	{4, "nat44", "nat44_egress", false, []string{"nat_sessions", "nat_reverse", "eim_table", "subscriber_nat"}},
	// ingress only moves session counters / TCP state and deletes a reverse entry whose session is gone: neither
	// changes the verdict or the bytes of a later run
	{5, "nat44", "nat44_ingress", false, nil},
	{6, "nat44", "nat44_hairpin_xdp", true, nil},
	{7, "dhcp_fastpath", "dhcp_fastpath_prog", true, nil},
}

func progByID(id int) *progInfo {
	for i := range progs {
		if progs[i].id == id {
			return &progs[i]
		}
	}
	return nil
}

const maxLen = 3520 // longest frame bpf_xdp_adjust_tail can produce under BPF_PROG_TEST_RUN and in the native runner
const baseLen = 1600

// ---------------------------------------------------------------------------------------------- cases

type Ent struct {
	M string `json:"m"`
	K []byte `json:"k"`
	V []byte `json:"v"`
}

// Desc is the replayable description of one case: either generated (Fam/Var/Seed/Len) or explicit (Frame/Ents).
type Desc struct {
	Prog  int    `json:"prog"`
	Fam   string `json:"fam,omitempty"`
	Var   int    `json:"var,omitempty"`
	Seed  uint64 `json:"seed,omitempty"`
	Len   int    `json:"len"`
	Frame []byte `json:"frame,omitempty"`
	Ents  []Ent  `json:"ents,omitempty"`
	Now   uint64 `json:"now,omitempty"`
	Via   string `json:"via,omitempty"` // which execution produced the observation: native | kernel | asan | guardstart
}

type obs struct {
	fault   bool
	verdict uint32
	data    []byte
	note    string
}

func (a obs) eq(b obs) bool {
	if a.fault || b.fault {
		return a.fault == b.fault
	}
	return a.verdict == b.verdict && bytes.Equal(a.data, b.data)
}

type objrt struct {
	name   string
	obj    *bpfrun.Object
	kernel bool
	nat    *bpfrun.Native
	asan   *bpfrun.Native
	maps   []mapInfo
}

type env struct {
	dir  string
	objs map[string]*objrt
	// counters
	kernelRefused, kernelRuns, nativeRuns, asanRuns, asanAlign, guardStartRuns, compared, disagree, faults int
	disagreeNote                                                               string
	verifierOK                                                                 map[string]bool
	kernelBPF                                                                  bool
	loadNotes                                                                  []string
	useAsan, asanAllLens                                                       bool
}

func must(err error) {
	if err != nil {
		fmt.Fprintln(os.Stderr, "c07 driver:", err)
		os.Exit(3)
	}
}

func (e *env) open() {
	e.objs = map[string]*objrt{}
	e.verifierOK = map[string]bool{}
	e.kernelBPF = true
	names := []string{"antispoof", "qos_ratelimit", "nat44", "dhcp_fastpath"}
	for _, n := range names {
		p := filepath.Join(e.dir, n+".o")
		if _, err := os.Stat(p); err != nil {
			fmt.Fprintln(os.Stderr, "c07 driver: bpf/"+n+".c did not compile for the BPF target (see build.log in", e.dir, ")")
			os.Exit(4)
		}
		o, err := bpfrun.LoadObject(p)
		must(err)
		rt := &objrt{name: n, obj: o, maps: objMaps[n]}
		rt.kernel = o.KernelBPF && o.VerifierOK
		if !o.KernelBPF {
			e.kernelBPF = false
		}
		e.verifierOK[n] = o.VerifierOK
		if o.KernelBPF && !o.VerifierOK {
			// keep going natively: the guard-page runs will show the failing input, if there is one; the check
			// reports the lost verifier acceptance by itself
			fmt.Fprintln(os.Stderr, "c07 driver: the in-kernel verifier rejected "+n+".o:", firstLine(o.LoadErr))
		}
		if o.LoadErr != "" {
			e.loadNotes = append(e.loadNotes, n+": "+o.LoadErr)
		}
		rt.nat, err = bpfrun.StartNative(e.dir, n, false)
		must(err)
		if e.useAsan {
			rt.asan, err = bpfrun.StartNative(e.dir, n, true)
			must(err)
		}
		e.objs[n] = rt
	}
}

func firstLine(s string) string {
	if i := strings.IndexByte(s, '\n'); i >= 0 {
		return s[:i]
	}
	return s
}

func (e *env) close() {
	for _, rt := range e.objs {
		rt.nat.Close()
		if rt.asan != nil {
			rt.asan.Close()
		}
		rt.obj.Close()
	}
}

func (rt *objrt) mapInfo(name string) *mapInfo {
	for i := range rt.maps {
		if rt.maps[i].name == name {
			return &rt.maps[i]
		}
	}
	return nil
}

// setMaps puts the object's maps (all of them, or only those in `only`) into the state given by ents.
func (rt *objrt) setMaps(ents []Ent, only []string) {
	want := func(n string) bool {
		if only == nil {
			return true
		}
		for _, x := range only {
			if x == n {
				return true
			}
		}
		return false
	}
	natives := []*bpfrun.Native{rt.nat}
	if rt.asan != nil {
		natives = append(natives, rt.asan)
	}
	for _, m := range rt.maps {
		if !want(m.name) {
			continue
		}
		if m.array > 0 {
			z := make([]byte, m.array)
			k := []byte{0, 0, 0, 0}
			for _, n := range natives {
				must(n.Put(m.name, k, z))
			}
			if rt.kernel {
				must(rt.obj.Put(m.name, k, z))
			}
			continue
		}
		for _, n := range natives {
			must(n.Clear(m.name))
		}
		if rt.kernel {
			must(rt.obj.Clear(m.name))
		}
	}
	for _, en := range ents {
		if !want(en.M) {
			continue
		}
		if rt.mapInfo(en.M) == nil {
			must(fmt.Errorf("unknown map %s in object %s", en.M, rt.name))
		}
		for _, n := range natives {
			must(n.Put(en.M, en.K, en.V))
		}
		if rt.kernel {
			must(rt.obj.Put(en.M, en.K, en.V))
		}
	}
}

// coqBytes writes a byte string as list literals of at most 160 elements joined by ++ (Coq's elaboration time
// grows much faster than linearly with the nesting depth of one literal)
func coqBytes(b []byte) string {
	if len(b) <= 160 {
		return vh.Bytes(b)
	}
	var parts []string
	for i := 0; i < len(b); i += 160 {
		j := i + 160
		if j > len(b) {
			j = len(b)
		}
		parts = append(parts, vh.Bytes(b[i:j]))
	}
	return "(" + strings.Join(parts, " ++ ") + ")"
}

// coqBase writes a base frame; the tail that is just the padding pattern of pad() (byte i = i*7+1) is generated
// inside Coq by PktCheck.padgen instead of being spelled out
func coqBase(b []byte) string {
	p := len(b)
	for p > 0 && b[p-1] == byte((p-1)*7+1) {
		p--
	}
	if len(b)-p < 64 {
		return coqBytes(b)
	}
	return fmt.Sprintf("(%s ++ padgen %d %d)", coqBytes(b[:p]), p, len(b)-p)
}

func coqMaps(rt *objrt, ents []Ent) string {
	var items []string
	for _, m := range rt.maps {
		var kvs []string
		have0 := false
		for _, en := range ents {
			if en.M == m.name {
				kvs = append(kvs, "kv "+vh.Bytes(en.K)+" "+vh.Bytes(en.V))
				if m.array > 0 && bytes.Equal(en.K, []byte{0, 0, 0, 0}) {
					have0 = true
				}
			}
		}
		if m.array > 0 && !have0 {
			kvs = append(kvs, "kv "+vh.Bytes([]byte{0, 0, 0, 0})+" "+vh.Bytes(make([]byte, m.array)))
		}
		items = append(items, "me "+vh.N(uint64(m.id))+" "+vh.List(kvs))
	}
	return vh.List(items)
}

func coqObs(o obs, frame []byte) string {
	if o.fault {
		return "mkobs true 0 0 []"
	}
	// runs of consecutive changed (or new) positions, at most 120 bytes per run
	var runs []string
	i := 0
	for i < len(o.data) {
		if i < len(frame) && frame[i] == o.data[i] {
			i++
			continue
		}
		j := i
		for j < len(o.data) && j-i < 120 && (j >= len(frame) || frame[j] != o.data[j]) {
			j++
		}
		runs = append(runs, fmt.Sprintf("rn %d %s", i, vh.Bytes(o.data[i:j])))
		i = j
	}
	return fmt.Sprintf("mkobs false %d %d [%s]", o.verdict, len(o.data), strings.Join(runs, "; "))
}

// a group: one program, one base frame, one map state; every requested truncation length is one case
type group struct {
	prog  int
	fam   string
	vr    int
	seed  uint64
	base  []byte
	ents  []Ent
	now   uint64
	lens  []int
	explicit bool // corpus / replay: Desc carries frame and entries
}

func (e *env) runGroup(g group, out *[]vh.Case, gid int) {
	p := progByID(g.prog)
	rt := e.objs[p.obj]
	rt.setMaps(g.ents, nil)
	must(rt.nat.Clock(g.now, 0))
	if rt.asan != nil {
		must(rt.asan.Clock(g.now, 0))
	}
	mname := fmt.Sprintf("m_%d", gid)
	bname := fmt.Sprintf("b_%d", gid)
	defs := []vh.Def{{Name: mname, Type: "list mapent", Body: coqMaps(rt, g.ents)}, {Name: bname, Type: "list N", Body: coqBase(g.base)}}
	dirty := false
	asanOff := false
	nAlign := 0
	for _, L := range g.lens {
		if L > len(g.base) {
			continue
		}
		frame := g.base[:L]
		if dirty {
			rt.setMaps(g.ents, p.writes)
			dirty = false
		}
		mayWrite := len(p.writes) > 0 && L >= 34 && !stableFam[g.fam]
		// native, guard page after the frame end
		r, err := rt.nat.Run(p.name, frame, nil)
		must(err)
		e.nativeRuns++
		no := obs{fault: r.Fault, verdict: uint32(r.Verdict), data: r.Data, note: r.FaultInfo}
		if r.Fault {
			e.faults++
		}
		emit := func(o obs, via string, tags ...string) {
			d := Desc{Prog: g.prog, Len: L, Via: via}
			if g.explicit {
				d.Frame, d.Ents, d.Now = frame, g.ents, g.now
			} else {
				d.Fam, d.Var, d.Seed = g.fam, g.vr, g.seed
			}
			coq := fmt.Sprintf("mkcase %d %s %d %d %d %s (%s)", g.prog, mname, g.now, L, maxLen, bname, coqObs(o, frame))
			t := append([]string{"prog:" + p.name, "fam:" + g.fam, "via:" + via, lenTag(L)}, tags...)
			t = append(t, obsTags(p, o, frame)...)
			*out = append(*out, vh.Case{Coq: coq, Desc: d, Tags: t, Defs: defs,
				Key: fmt.Sprintf("%d|%s|%d|%d|%d|%s", g.prog, g.fam, g.vr, g.seed, L, via)})
		}
		emit(no, "native")
		// kernel
		if rt.kernel && L >= 14 {
			var ko obs
			if p.xdp {
				v, data, err := rt.obj.RunXDP(p.name, frame)
				if err != nil {
					must(fmt.Errorf("kernel test-run %s len=%d: %v", p.name, L, err))
				}
				ko = obs{verdict: v, data: data}
			} else {
				v, data, _, err := rt.obj.RunTC(p.name, frame, nil)
				if err != nil && L < 64 {
					// this kernel's bpf_prog_test_run_skb refuses (EINVAL) short frames: a bare Ethernet header,
					// an IPv4/IPv6 ethertype without a complete IP header
					e.kernelRefused++
					goto afterKernel
				}
				if err != nil {
					must(fmt.Errorf("kernel test-run %s len=%d: %v", p.name, L, err))
				}
				ko = obs{verdict: v, data: data}
			}
			e.kernelRuns++
			e.compared++
			if !ko.eq(no) {
				e.disagree++
				if e.disagreeNote == "" {
					e.disagreeNote = fmt.Sprintf("prog=%s fam=%s var=%d len=%d native(fault=%v ret=%d len=%d) kernel(ret=%d len=%d)",
						p.name, g.fam, g.vr, L, no.fault, no.verdict, len(no.data), ko.verdict, len(ko.data))
				}
				emit(ko, "kernel", "kernel-differs-from-native")
			}
		}
	afterKernel:
		// ASan/UBSan build (second opinion on the program's own stack/global memory): an error aborts the process.
		// UBSan's alignment check is noise here (the frame start has whatever alignment the guard placement gives
		// it, and the programs use unaligned packet access on purpose): such aborts are counted, not reported.
		if rt.asan != nil && !asanOff && (L%4 == 2 || e.asanAllLens) {
			ar, err := rt.asan.Run(p.name, frame, nil)
			e.asanRuns++
			ao := obs{fault: ar.Fault, verdict: uint32(ar.Verdict), data: ar.Data}
			align := false
			if err != nil {
				align = strings.Contains(err.Error(), "misaligned address")
				if align {
					e.asanAlign++
					nAlign++
					if nAlign >= 2 {
						asanOff = true
					}
				} else {
					ao = obs{fault: true, note: err.Error()}
					fmt.Fprintln(os.Stderr, "c07 driver: sanitizer report:", err)
				}
			}
			if !align && !ao.eq(no) {
				emit(ao, "asan", "asan-differs-from-native")
			}
			if err != nil {
				// restart the process for the remaining cases
				rt.asan.Close()
				rt.asan, err = bpfrun.StartNative(e.dir, rt.name, true)
				must(err)
				rt.setMaps(g.ents, nil)
				must(rt.asan.Clock(g.now, 0))
			}
		}
		// sampled: frame start flush against the leading guard page (reads before data)
		if L%7 == 3 || L < 64 {
			if mayWrite {
				rt.setMaps(g.ents, p.writes)
				dirty = true
			}
			sr, err := rt.nat.Run(p.name, frame, &bpfrun.RunOpts{GuardStart: true})
			must(err)
			e.guardStartRuns++
			so := obs{fault: sr.Fault, verdict: uint32(sr.Verdict), data: sr.Data}
			if !so.eq(no) {
				emit(so, "guardstart", "guardstart-differs-from-native")
			}
		}
		if mayWrite && (no.fault || no.verdict != 0 || !bytes.Equal(no.data, frame)) {
			dirty = true
		}
	}
}

func lenTag(L int) string {
	switch {
	case L < 14:
		return "len:0-13"
	case L < 64:
		return "len:14-63"
	case L < 420:
		return "len:64-419"
	default:
		return "len:420-1600"
	}
}

func obsTags(p *progInfo, o obs, frame []byte) []string {
	if o.fault {
		return []string{"out:fault"}
	}
	pass := (p.xdp && o.verdict == 2) || (!p.xdp && o.verdict == 0)
	same := bytes.Equal(o.data, frame)
	t := []string{fmt.Sprintf("verdict:%d", o.verdict)}
	switch {
	case pass && same:
		t = append(t, "out:pass-untouched")
	case pass && !same:
		t = append(t, "out:pass-modified")
	case same:
		t = append(t, "out:nonpass-untouched")
	default:
		t = append(t, "out:nonpass-modified")
	}
	return t
}

// ---------------------------------------------------------------------------------------------- frames

func le32(v uint32) []byte { b := make([]byte, 4); binary.LittleEndian.PutUint32(b, v); return b }
func le16(v uint16) []byte { b := make([]byte, 2); binary.LittleEndian.PutUint16(b, v); return b }
func le64(v uint64) []byte { b := make([]byte, 8); binary.LittleEndian.PutUint64(b, v); return b }
func cat(bs ...[]byte) []byte {
	var o []byte
	for _, b := range bs {
		o = append(o, b...)
	}
	return o
}
func pad(b []byte, n int, r *vh.Rng) []byte {
	for len(b) < n {
		if r != nil {
			b = append(b, byte(r.U64()))
		} else {
			b = append(b, byte(len(b)*7+1))
		}
	}
	return b[:n]
}

var macA = []byte{2, 0, 0, 0, 0, 1}
var macB = []byte{2, 0, 0, 0, 0, 2}
var macSrv = []byte{2, 0, 0, 0, 0, 0xfe}
var bcast = []byte{255, 255, 255, 255, 255, 255}

func eth(dst, src []byte, tags [][]byte, et uint16) []byte {
	b := cat(dst, src)
	for _, t := range tags {
		b = append(b, t...)
	}
	return append(b, byte(et>>8), byte(et))
}
func vtag(tpid uint16, vid uint16) []byte {
	return []byte{byte(tpid >> 8), byte(tpid), byte(vid >> 8), byte(vid)}
}

// ipv4 header of max(20, ihl*4) bytes with the ihl nibble as given (0..15)
func ipv4(ihl int, proto byte, src, dst []byte, total int) []byte {
	n := ihl * 4
	if n < 20 {
		n = 20
	}
	h := make([]byte, n)
	h[0] = 0x40 | byte(ihl&15)
	h[2], h[3] = byte(total>>8), byte(total)
	h[8] = 64
	h[9] = proto
	copy(h[12:16], src)
	copy(h[16:20], dst)
	// header checksum over 20 bytes
	var s uint32
	for i := 0; i < 20; i += 2 {
		s += uint32(h[i])<<8 | uint32(h[i+1])
	}
	for s>>16 != 0 {
		s = s&0xffff + s>>16
	}
	h[10], h[11] = byte(^s>>8), byte(^s)
	for i := 20; i < n; i++ {
		h[i] = 1 // NOP options
	}
	return h
}
func tcpHdr(sp, dp uint16, flags byte) []byte {
	h := make([]byte, 20)
	h[0], h[1], h[2], h[3] = byte(sp>>8), byte(sp), byte(dp>>8), byte(dp)
	h[12] = 0x50
	h[13] = flags
	h[16], h[17] = 0x12, 0x34
	return h
}
func udpHdr(sp, dp uint16, csum uint16) []byte {
	return []byte{byte(sp >> 8), byte(sp), byte(dp >> 8), byte(dp), 0, 40, byte(csum >> 8), byte(csum)}
}
func icmpHdr(id uint16) []byte { return []byte{8, 0, 0xab, 0xcd, byte(id >> 8), byte(id), 0, 1} }

func ipv6(src, dst []byte, nh byte) []byte {
	h := make([]byte, 40)
	h[0] = 0x60
	h[6] = nh
	h[7] = 64
	copy(h[8:24], src)
	copy(h[24:40], dst)
	return h
}

func dhcpPayload(op, msgType byte, chaddr []byte, flags uint16, ciaddr, giaddr []byte, opts []byte) []byte {
	d := make([]byte, 240)
	d[0], d[1], d[2] = op, 1, 6
	d[4], d[5], d[6], d[7] = 0xde, 0xad, 0xbe, 0xef
	d[10], d[11] = byte(flags>>8), byte(flags)
	copy(d[12:16], ciaddr)
	copy(d[24:28], giaddr)
	copy(d[28:34], chaddr)
	for i := 44; i < 236; i++ {
		d[i] = byte('a' + i%26) // sname/file not empty, so that the memset shows
	}
	d[236], d[237], d[238], d[239] = 0x63, 0x82, 0x53, 0x63
	if opts == nil {
		opts = []byte{53, 1, msgType, 55, 4, 1, 3, 6, 15, 61, 7, 1, 2, 0, 0, 0, 0, 1, 255}
	}
	return append(d, opts...)
}

// key builders (as the C programs build them from the frame)
func macKey(m []byte) []byte {
	var v uint64
	for _, b := range m[:6] {
		v = v<<8 | uint64(b)
	}
	return le64(v)
}
func natKey(src, dst []byte, sport, dport []byte, proto byte) []byte {
	return cat(src, dst, sport, dport, []byte{proto, 0, 0, 0})
}

func binding(ip4 []byte, ip6 []byte, v4, v6, mode byte) []byte {
	b := make([]byte, 24)
	copy(b[0:4], ip4)
	copy(b[4:20], ip6)
	b[20], b[21], b[22] = v4, v6, mode
	return b
}
func tokenBucket(tokens, last, rate uint64, burst uint32, prio byte) []byte {
	b := make([]byte, 32)
	binary.LittleEndian.PutUint64(b[0:], tokens)
	binary.LittleEndian.PutUint64(b[8:], last)
	binary.LittleEndian.PutUint64(b[16:], rate)
	binary.LittleEndian.PutUint32(b[24:], burst)
	b[28] = prio
	return b
}
func subNat(pub []byte, pstart, pend uint16, next uint32) []byte {
	b := make([]byte, 64)
	copy(b[0:4], pub)
	binary.LittleEndian.PutUint16(b[4:], pstart)
	binary.LittleEndian.PutUint16(b[6:], pend)
	binary.LittleEndian.PutUint32(b[8:], next)
	binary.LittleEndian.PutUint32(b[24:], 77)
	b[28] = 10
	return b
}
func natSession(natIP []byte, natPort []byte, origPort []byte, origIP []byte) []byte {
	b := make([]byte, 80)
	copy(b[0:4], natIP)
	copy(b[4:6], natPort)
	copy(b[6:8], origPort)
	copy(b[8:12], origIP)
	return b
}
func eimMapping(ext []byte, port uint16) []byte {
	b := make([]byte, 32)
	copy(b[0:4], ext)
	binary.LittleEndian.PutUint16(b[4:], port)
	binary.LittleEndian.PutUint32(b[24:], 1)
	return b
}
func natCfg(flags uint32) []byte {
	b := make([]byte, 16)
	binary.LittleEndian.PutUint32(b, flags)
	binary.LittleEndian.PutUint16(b[4:], 1024)
	binary.LittleEndian.PutUint16(b[6:], 65535)
	return b
}
func poolAssignment(poolID uint32, ip []byte, expiry uint64) []byte {
	b := make([]byte, 25)
	binary.LittleEndian.PutUint32(b[0:], poolID)
	copy(b[4:8], ip)
	b[12] = 1
	binary.LittleEndian.PutUint64(b[13:], expiry)
	return b
}
func ipPool(prefix byte, gw, dns1, dns2 []byte, lease uint32) []byte {
	b := make([]byte, 28)
	copy(b[0:4], []byte{10, 0, 0, 0})
	b[4] = prefix
	copy(b[8:12], gw)
	copy(b[12:16], dns1)
	copy(b[16:20], dns2)
	binary.LittleEndian.PutUint32(b[20:], lease)
	return b
}
func serverCfg(mac, ip []byte) []byte {
	b := make([]byte, 16)
	copy(b[0:6], mac)
	copy(b[8:12], ip)
	binary.LittleEndian.PutUint32(b[12:], 2)
	return b
}

var ipSub = []byte{10, 0, 0, 5}
var ipSub2 = []byte{100, 64, 1, 9}
var ipPub = []byte{203, 0, 113, 7}
var ipRemote = []byte{198, 51, 100, 20}
var ip6A = []byte{0x20, 1, 0xd, 0xb8, 0, 0, 0, 0, 0, 0, 0, 0, 0, 0, 0, 5}
var ip6B = []byte{0x20, 1, 0xd, 0xb8, 0, 0, 0, 0, 0, 0, 0, 0, 0, 0, 0, 9}

type scen struct {
	fam  string
	nvar int // number of variants (0 = 1)
	prim bool
}

// families of nat44_egress whose runs do not change what a later run does (the flow's session exists
// already; only counters move): no map reset between the runs of such a group
var stableFam = map[string]bool{"tcp-session": true, "nosub": true, "public-src": true, "gre": true, "vlan": true, "ipv6": true, "empty": true, "alg": true}


var scenarios = map[int][]scen{
	1: {{"v4-bound-ok", 0, true}, {"v4-bound-spoof", 0, false}, {"v4-logonly", 0, false}, {"v4-loose", 2, false},
		{"v6-bound-ok", 0, false}, {"v6-bound-spoof", 16, false}, {"v6-loose", 0, false}, {"disabled", 0, false}, {"vlan", 0, false}, {"arp", 0, false},
		{"ihl", 16, false}, {"random", 4, true}, {"randhdr", 4, false}},
	2: {{"bound-unlimited", 0, true}, {"bound-drop", 0, false}, {"unbound", 0, false}, {"empty", 0, false}, {"vlan", 0, false},
		{"ipv6", 0, false}, {"ihl", 16, false}, {"random", 4, true}, {"randhdr", 4, false}},
	3: {{"bound-unlimited", 0, true}, {"bound-drop", 0, false}, {"unbound", 0, false}, {"empty", 0, false}, {"vlan", 0, false},
		{"ipv6", 0, false}, {"ihl", 16, false}, {"random", 4, true}, {"randhdr", 4, false}},
	4: {{"tcp-session", 0, true}, {"tcp-new", 0, false}, {"udp-new", 0, false}, {"icmp-new", 0, false}, {"udp-eim", 0, false},
		{"udp-csum0", 0, false}, {"udp-noeim", 0, false}, {"alg", 2, false}, {"exhausted", 2, false}, {"parity", 2, false}, {"nosub", 0, false},
		{"public-src", 0, false}, {"gre", 0, false}, {"ihl-tcp", 16, false}, {"ihl-udp", 16, false}, {"ihl-icmp", 16, false},
		{"vlan", 0, false}, {"ipv6", 0, false}, {"empty", 0, false}, {"random", 4, true}, {"randhdr", 6, false}},
	5: {{"tcp-rev", 0, true}, {"udp-rev", 0, true}, {"icmp-rev", 0, false}, {"udp-csum0", 0, false}, {"rev-nosession", 0, false}, {"norev", 0, false},
		{"ihl-tcp", 16, false}, {"ihl-udp", 16, false}, {"ihl-icmp", 16, false}, {"vlan", 0, false}, {"ipv6", 0, false},
		{"empty", 0, false}, {"random", 4, true}, {"randhdr", 6, false}},
	6: {{"hit", 0, true}, {"miss", 0, false}, {"disabled", 0, false}, {"public-src", 0, false}, {"vlan", 0, false}, {"ihl", 16, false},
		{"random", 4, true}, {"randhdr", 4, false}},
	7: {{"discover-mac", 0, true}, {"request-mac", 0, true}, {"relayed", 0, false}, {"unicast", 0, false}, {"bcastflag", 0, false},
		{"vlan-lookup", 0, true}, {"qinq-lookup", 0, true}, {"vlan-miss-mac", 0, false}, {"cid", 9, false}, {"cid-badlen", 4, false}, {"expired", 0, false}, {"nopool", 0, false},
		{"miss", 0, false}, {"dns2", 0, false}, {"nodns", 0, false}, {"srvip0", 0, false}, {"bootp300", 0, false}, {"ihl", 16, false}, {"ihl-vlan", 16, false},
		{"not-dhcp", 0, false}, {"reply-op", 0, false}, {"badmagic", 0, false}, {"msgpos", 8, false}, {"inform", 0, false},
		{"ipv6", 0, false}, {"triple-tag", 0, false}, {"empty", 0, false}, {"random", 4, true}, {"randhdr", 6, false}},
}

const fEIM, fHAIRPIN, fFTP, fSIP, fPARITY = 1, 4, 8, 16, 32

// l4 offset as the NAT programs compute it
func l4off(f []byte) int { return 14 + int(f[14]&15)*4 }

// scenario builds (base frame of baseLen bytes, map entries, now) for (prog, family, variant, seed)
func scenario(prog int, fam string, v int, seed uint64) ([]byte, []Ent, uint64) {
	r := vh.NewRng(seed ^ uint64(prog)<<32 ^ uint64(v)<<16)
	for _, c := range []byte(fam) {
		r = vh.NewRng(r.U64() ^ uint64(c))
	}
	now := uint64(5_000_000_000)
	var f []byte
	var ents []Ent
	add := func(m string, k, val []byte) { ents = append(ents, Ent{m, k, val}) }
	randHdr := func(valid []byte, n int) []byte {
		// a valid frame with n random single-byte changes in its first 64 (or 420 for DHCP) bytes
		g := append([]byte{}, valid...)
		span := 64
		if prog == 7 {
			span = 420
		}
		for i := 0; i < n; i++ {
			g[r.Intn(span)] = byte(r.U64())
		}
		return g
	}
	switch prog {
	case 1: // antispoof
		cfg := func(mode, log byte) { add("antispoof_config", le32(0), []byte{mode, log, 0, 0, 0, 0, 0, 0}) }
		v4 := func(src []byte, ihl int) []byte {
			return cat(eth(macSrv, macA, nil, 0x0800), ipv4(ihl, 17, src, ipRemote, 100), udpHdr(1000, 53, 0))
		}
		v6 := func(src []byte) []byte {
			return cat(eth(macSrv, macA, nil, 0x86dd), ipv6(src, ip6B, 17), udpHdr(1000, 53, 0))
		}
		switch fam {
		case "v4-bound-ok":
			cfg(1, 1)
			add("subscriber_bindings", macKey(macA), binding(ipSub, ip6A, 1, 1, 1))
			f = v4(ipSub, 5)
		case "v4-bound-spoof":
			cfg(1, 1)
			add("subscriber_bindings", macKey(macA), binding(ipSub, ip6A, 1, 1, 1))
			f = v4(ipSub2, 5)
		case "v4-logonly":
			cfg(1, 1)
			add("subscriber_bindings", macKey(macA), binding(ipSub, ip6A, 1, 1, 3))
			f = v4(ipSub2, 5)
		case "v4-loose":
			cfg(2, 0)
			add("allowed_ranges_v4", cat(le32(8), []byte{10, 0, 0, 0}), []byte{1})
			if v == 0 {
				f = v4(ipSub, 5)
			} else {
				f = v4(ipRemote, 5)
			}
		case "v6-bound-ok":
			cfg(1, 1)
			add("subscriber_bindings", macKey(macA), binding(ipSub, ip6A, 1, 1, 1))
			f = v6(ip6A)
		case "v6-bound-spoof":
			cfg(1, 1)
			add("subscriber_bindings", macKey(macA), binding(ipSub, ip6A, 1, 1, 1))
			s := append([]byte{}, ip6A...)
			s[v%16] ^= 0x40
			f = v6(s)
		case "v6-loose":
			cfg(2, 1)
			f = v6(ip6B)
		case "disabled":
			f = v4(ipSub, 5)
		case "vlan":
			cfg(1, 1)
			f = cat(eth(macSrv, macA, [][]byte{vtag(0x8100, 100)}, 0x0800), ipv4(5, 17, ipSub, ipRemote, 100))
		case "arp":
			cfg(1, 1)
			f = eth(bcast, macA, nil, 0x0806)
		case "ihl":
			cfg(1, 1)
			add("subscriber_bindings", macKey(macA), binding(ipSub, ip6A, 1, 1, 1))
			f = v4(ipSub, v)
		case "random":
			cfg(byte(1+v%3), 1)
			f = r.Bytes(baseLen)
			add("subscriber_bindings", macKey(f[6:12]), binding(f[26:30], ip6A, 1, 1, byte(v%4)))
		case "randhdr":
			cfg(byte(1+v%3), byte(v&1))
			add("subscriber_bindings", macKey(macA), binding(ipSub, ip6A, 1, 1, byte(1+v%3)))
			if v&1 == 0 {
				f = randHdr(pad(v4(ipSub, 5), baseLen, nil), 2)
			} else {
				f = randHdr(pad(v6(ip6A), baseLen, nil), 2)
			}
		}
	case 2, 3: // qos
		m := "qos_egress"
		if prog == 3 {
			m = "qos_ingress"
		}
		fr := func(sub []byte, ihl int) []byte {
			if prog == 2 {
				return cat(eth(macA, macSrv, nil, 0x0800), ipv4(ihl, 17, ipRemote, sub, 100), udpHdr(53, 1000, 0))
			}
			return cat(eth(macSrv, macA, nil, 0x0800), ipv4(ihl, 17, sub, ipRemote, 100), udpHdr(1000, 53, 0))
		}
		unl := tokenBucket(0, 0, 0, 0, 3)
		drop := tokenBucket(0, 0, 8_000_000, 0, 1)
		switch fam {
		case "bound-unlimited":
			add(m, ipSub, unl)
			add(m, ipSub2, drop)
			f = fr(ipSub, 5)
		case "bound-drop":
			add(m, ipSub, unl)
			add(m, ipSub2, drop)
			f = fr(ipSub2, 5)
		case "unbound":
			add(m, ipSub2, drop)
			f = fr(ipSub, 5)
		case "empty":
			f = fr(ipSub, 5)
		case "vlan":
			add(m, ipSub, drop)
			f = cat(eth(macA, macSrv, [][]byte{vtag(0x8100, 100)}, 0x0800), ipv4(5, 17, ipSub, ipSub, 100))
		case "ipv6":
			add(m, ipSub, drop)
			f = cat(eth(macA, macSrv, nil, 0x86dd), ipv6(ip6A, ip6B, 17))
		case "ihl":
			add(m, ipSub, tokenBucket(1<<40, 0, 8_000_000, 0xffffffff, 2))
			f = fr(ipSub, v)
		case "random":
			f = r.Bytes(baseLen)
			f[12], f[13] = 8, 0
			if v&1 == 0 {
				add(m, f[30:34], drop)
				add(m, f[26:30], unl)
			} else {
				add(m, f[30:34], unl)
				add(m, f[26:30], drop)
			}
		case "randhdr":
			add(m, ipSub, drop)
			f = randHdr(pad(fr(ipSub, 5), baseLen, nil), 2)
		}
	case 4: // nat egress
		fr := func(proto byte, ihl int, src []byte, l4 []byte) []byte {
			return cat(eth(macSrv, macA, nil, 0x0800), ipv4(ihl, proto, src, ipRemote, 100), l4, []byte("payload-payload-"))
		}
		sub := func(next uint32) { add("subscriber_nat", ipSub, subNat(ipPub, 2000, 2063, next)) }
		switch fam {
		case "tcp-new":
			add("nat_config_map", le32(0), natCfg(fEIM|fHAIRPIN))
			sub(2010)
			add("hairpin_ips", ipPub, []byte{1})
			f = fr(6, 5, ipSub, tcpHdr(40000, 443, 0x02))
		case "udp-new":
			add("nat_config_map", le32(0), natCfg(fEIM))
			sub(2063)
			f = fr(17, 5, ipSub, udpHdr(40001, 53, 0xbeef))
		case "icmp-new":
			add("nat_config_map", le32(0), natCfg(0))
			sub(70000)
			f = fr(1, 5, ipSub, icmpHdr(0x1234))
		case "tcp-session":
			add("nat_config_map", le32(0), natCfg(fEIM))
			sub(2010)
			f = fr(6, 5, ipSub, tcpHdr(40000, 443, 0x10))
			o := l4off(f)
			add("nat_sessions", natKey(ipSub, ipRemote, f[o:o+2], f[o+2:o+4], 6), natSession(ipPub, []byte{0x07, 0xe5}, f[o:o+2], ipSub))
		case "udp-eim":
			add("nat_config_map", le32(0), natCfg(fEIM))
			sub(2010)
			f = fr(17, 5, ipSub, udpHdr(40001, 53, 0xbeef))
			o := l4off(f)
			add("eim_table", cat(ipSub, f[o:o+2], []byte{17, 0}), eimMapping(ipPub, 2040))
		case "udp-csum0":
			add("nat_config_map", le32(0), natCfg(fEIM))
			sub(2010)
			f = fr(17, 5, ipSub, udpHdr(40001, 53, 0))
		case "udp-noeim":
			add("nat_config_map", le32(0), natCfg(0))
			sub(2063)
			f = fr(17, 5, ipSub, udpHdr(40001, 53, 0xffff))
		case "alg":
			add("nat_config_map", le32(0), natCfg(fEIM|fFTP|fSIP))
			sub(2010)
			if v == 0 {
				add("alg_ports", le32(21<<16|6), []byte{21, 0, 6, 1, 0, 0, 0, 0})
				f = fr(6, 5, ipSub, tcpHdr(40000, 21, 0x02))
			} else {
				add("alg_ports", le32(5060<<16|17), []byte{0xc4, 0x13, 17, 2, 0, 0, 0, 0})
				f = fr(17, 5, ipSub, udpHdr(40000, 5060, 0x1111))
			}
		case "exhausted":
			flags := uint32(0)
			if v == 1 {
				flags = fEIM
			}
			add("nat_config_map", le32(0), natCfg(flags))
			add("subscriber_nat", ipSub, subNat(ipPub, 2000, 2000, 2000))
			add("eim_table", cat(ipSub, le16(2000), []byte{17, 0}), eimMapping(ipPub, 2000))
			f = fr(17, 5, ipSub, udpHdr(40001, 53, 0xbeef))
		case "parity":
			add("nat_config_map", le32(0), natCfg(fPARITY|uint32(v)*fEIM))
			sub(2011)
			f = fr(17, 5, ipSub, udpHdr(40002, 53, 0xbeef))
		case "nosub":
			add("nat_config_map", le32(0), natCfg(fEIM))
			add("subscriber_nat", ipSub2, subNat(ipPub, 2000, 2063, 2000))
			f = fr(6, 5, ipSub, tcpHdr(40000, 443, 0x02))
		case "public-src":
			add("nat_config_map", le32(0), natCfg(fEIM))
			add("subscriber_nat", ipRemote, subNat(ipPub, 2000, 2063, 2000))
			f = fr(6, 5, ipRemote, tcpHdr(40000, 443, 0x02))
		case "gre":
			add("nat_config_map", le32(0), natCfg(fEIM))
			sub(2010)
			f = fr(47, 5, ipSub, tcpHdr(40000, 443, 0x02))
		case "ihl-tcp", "ihl-udp", "ihl-icmp":
			proto := map[string]byte{"ihl-tcp": 6, "ihl-udp": 17, "ihl-icmp": 1}[fam]
			add("nat_config_map", le32(0), natCfg(uint32(v&1)*fEIM))
			sub(2010)
			f = fr(proto, v, ipSub, tcpHdr(40000, 443, 0x02))
		case "vlan":
			add("nat_config_map", le32(0), natCfg(fEIM))
			sub(2010)
			f = cat(eth(macSrv, macA, [][]byte{vtag(0x8100, 100)}, 0x0800), ipv4(5, 6, ipSub, ipRemote, 100), tcpHdr(1, 2, 2))
		case "ipv6":
			add("nat_config_map", le32(0), natCfg(fEIM))
			sub(2010)
			f = cat(eth(macSrv, macA, nil, 0x86dd), ipv6(ip6A, ip6B, 6), tcpHdr(1, 2, 2))
		case "empty":
			f = fr(6, 5, ipSub, tcpHdr(40000, 443, 0x02))
		case "random":
			f = r.Bytes(baseLen)
			f[12], f[13] = 8, 0
			f[26] = 10
			f[23] = []byte{6, 17, 1, 47}[v%4]
			add("nat_config_map", le32(0), natCfg(uint32(r.Intn(64))))
			add("subscriber_nat", f[26:30], subNat(ipPub, 2000, 2063, uint32(2000+r.Intn(80))))
		case "randhdr":
			add("nat_config_map", le32(0), natCfg(uint32(r.Intn(64))))
			sub(uint32(2000 + r.Intn(80)))
			l4 := [][]byte{tcpHdr(40000, 443, 0x02), udpHdr(40001, 53, 0xbeef), icmpHdr(7)}[v%3]
			f = randHdr(pad(fr([]byte{6, 17, 1}[v%3], 5, ipSub, l4), baseLen, nil), 2)
		}
	case 5: // nat ingress
		fr := func(proto byte, ihl int, l4 []byte) []byte {
			return cat(eth(macA, macSrv, nil, 0x0800), ipv4(ihl, proto, ipRemote, ipPub, 100), l4, []byte("payload-payload-"))
		}
		// reverse entry + session for the flow the (full) frame carries
		rev := func(f []byte, withSession bool) {
			o := l4off(f)
			proto := f[23]
			var sp, dp []byte
			switch proto {
			case 6, 17:
				sp, dp = f[o:o+2], f[o+2:o+4]
			default:
				sp, dp = []byte{0, 0}, f[o+4:o+6]
			}
			orig := natKey(ipSub, ipRemote, []byte{0x9c, 0x40}, sp, proto)
			add("nat_reverse", natKey(f[26:30], f[30:34], sp, dp, proto), orig)
			if withSession {
				add("nat_sessions", orig, natSession(ipPub, dp, []byte{0x9c, 0x40}, ipSub))
			}
		}
		switch fam {
		case "tcp-rev":
			f = pad(fr(6, 5, tcpHdr(443, 2021, 0x12)), baseLen, nil)
			rev(f, true)
		case "udp-rev":
			f = pad(fr(17, 5, udpHdr(53, 2022, 0xbeef)), baseLen, nil)
			rev(f, true)
		case "icmp-rev":
			f = pad(fr(1, 5, icmpHdr(2023)), baseLen, nil)
			rev(f, true)
		case "udp-csum0":
			f = pad(fr(17, 5, udpHdr(53, 2022, 0)), baseLen, nil)
			rev(f, true)
		case "rev-nosession":
			f = pad(fr(6, 5, tcpHdr(443, 2021, 0x11)), baseLen, nil)
			rev(f, false)
		case "norev":
			f = pad(fr(6, 5, tcpHdr(443, 2021, 0x11)), baseLen, nil)
			add("nat_sessions", natKey(ipSub, ipRemote, []byte{1, 2}, []byte{3, 4}, 6), natSession(ipPub, []byte{1, 1}, []byte{1, 2}, ipSub))
		case "ihl-tcp", "ihl-udp", "ihl-icmp":
			proto := map[string]byte{"ihl-tcp": 6, "ihl-udp": 17, "ihl-icmp": 1}[fam]
			f = pad(fr(proto, v, tcpHdr(443, 2021, 0x10)), baseLen, nil)
			rev(f, true)
		case "vlan":
			f = pad(cat(eth(macA, macSrv, [][]byte{vtag(0x8100, 100)}, 0x0800), ipv4(5, 6, ipRemote, ipPub, 100), tcpHdr(443, 2021, 0x10)), baseLen, nil)
			rev(pad(fr(6, 5, tcpHdr(443, 2021, 0x10)), baseLen, nil), true)
		case "ipv6":
			f = cat(eth(macA, macSrv, nil, 0x86dd), ipv6(ip6B, ip6A, 6), tcpHdr(1, 2, 2))
		case "empty":
			f = fr(6, 5, tcpHdr(443, 2021, 0x10))
		case "random":
			f = r.Bytes(baseLen)
			f[12], f[13] = 8, 0
			f[23] = []byte{6, 17, 1, 47}[v%4]
			rev(f, v != 3)
		case "randhdr":
			l4 := [][]byte{tcpHdr(443, 2021, 0x10), udpHdr(53, 2022, 0xbeef), icmpHdr(2023)}[v%3]
			g := pad(fr([]byte{6, 17, 1}[v%3], 5, l4), baseLen, nil)
			rev(g, true)
			f = randHdr(g, 1)
			if v >= 3 {
				ents = nil
				rev(f, true)
			}
		}
	case 6: // nat hairpin xdp
		fr := func(src, dst []byte, ihl int) []byte {
			return cat(eth(macSrv, macA, nil, 0x0800), ipv4(ihl, 6, src, dst, 100), tcpHdr(40000, 443, 2))
		}
		switch fam {
		case "hit":
			add("nat_config_map", le32(0), natCfg(fHAIRPIN))
			add("hairpin_ips", ipPub, []byte{1})
			f = fr(ipSub, ipPub, 5)
		case "miss":
			add("nat_config_map", le32(0), natCfg(fHAIRPIN))
			add("hairpin_ips", ipPub, []byte{1})
			f = fr(ipSub, ipRemote, 5)
		case "disabled":
			add("nat_config_map", le32(0), natCfg(fEIM))
			add("hairpin_ips", ipPub, []byte{1})
			f = fr(ipSub, ipPub, 5)
		case "public-src":
			add("nat_config_map", le32(0), natCfg(fHAIRPIN))
			add("hairpin_ips", ipPub, []byte{1})
			f = fr(ipRemote, ipPub, 5)
		case "vlan":
			add("nat_config_map", le32(0), natCfg(fHAIRPIN))
			add("hairpin_ips", ipPub, []byte{1})
			f = cat(eth(macSrv, macA, [][]byte{vtag(0x88a8, 7), vtag(0x8100, 100)}, 0x0800), ipv4(5, 6, ipSub, ipPub, 100))
		case "ihl":
			add("nat_config_map", le32(0), natCfg(fHAIRPIN))
			add("hairpin_ips", ipPub, []byte{1})
			f = fr(ipSub, ipPub, v)
		case "random":
			add("nat_config_map", le32(0), natCfg(fHAIRPIN))
			f = r.Bytes(baseLen)
			f[12], f[13] = 8, 0
			f[26], f[27] = 192, 168
			add("hairpin_ips", f[30:34], []byte{1})
		case "randhdr":
			add("nat_config_map", le32(0), natCfg(fHAIRPIN))
			add("hairpin_ips", ipPub, []byte{1})
			f = randHdr(pad(fr(ipSub, ipPub, 5), baseLen, nil), 2)
		}
	case 7: // dhcp fast path
		valid := ^uint64(0)
		base := func(tags [][]byte, ihl int, dport uint16, payload []byte) []byte {
			return cat(eth(bcast, macA, tags, 0x0800), ipv4(ihl, 17, []byte{0, 0, 0, 0}, bcast[:4], 328), udpHdr(68, dport, 0x7777), payload)
		}
		std := func() {
			add("subscriber_pools", macKey(macA), poolAssignment(7, []byte{10, 0, 0, 10}, valid))
			add("ip_pools", le32(7), ipPool(24, []byte{10, 0, 0, 1}, []byte{8, 8, 8, 8}, nil, 3600))
			add("server_config", le32(0), serverCfg(macSrv, []byte{10, 0, 0, 1}))
		}
		zero4 := []byte{0, 0, 0, 0}
		big := func(msg byte) []byte { // options area long enough for the reply
			o := []byte{53, 1, msg, 55, 4, 1, 3, 6, 15, 61, 7, 1, 2, 0, 0, 0, 0, 1, 12, 4, 'h', 'o', 's', 't'}
			for len(o) < 80 {
				o = append(o, 0)
			}
			return append(o, 255)
		}
		switch fam {
		case "discover-mac":
			std()
			f = base(nil, 5, 67, dhcpPayload(1, 1, macA, 0, zero4, zero4, big(1)))
		case "request-mac":
			std()
			f = base(nil, 5, 67, dhcpPayload(1, 3, macA, 0, zero4, zero4, big(3)))
		case "relayed":
			std()
			f = base(nil, 5, 67, dhcpPayload(1, 1, macA, 0, zero4, []byte{10, 9, 9, 1}, big(1)))
		case "unicast":
			std()
			f = base(nil, 5, 67, dhcpPayload(1, 3, macA, 0, []byte{10, 0, 0, 10}, zero4, big(3)))
		case "bcastflag":
			std()
			f = base(nil, 5, 67, dhcpPayload(1, 3, macA, 0x8000, []byte{10, 0, 0, 10}, zero4, big(3)))
		case "vlan-lookup":
			std()
			add("vlan_subscriber_pools", cat(le16(100), le16(0)), poolAssignment(7, []byte{10, 0, 0, 77}, valid))
			f = base([][]byte{vtag(0x8100, 100)}, 5, 67, dhcpPayload(1, 1, macB, 0, zero4, zero4, big(1)))
		case "qinq-lookup":
			std()
			add("vlan_subscriber_pools", cat(le16(7), le16(100)), poolAssignment(7, []byte{10, 0, 0, 78}, valid))
			f = base([][]byte{vtag(0x88a8, 0x2007), vtag(0x8100, 0xe064)}, 5, 67, dhcpPayload(1, 3, macB, 0, zero4, zero4, big(3)))
		case "vlan-miss-mac":
			std()
			f = base([][]byte{vtag(0x8100, 300)}, 5, 67, dhcpPayload(1, 1, macA, 0, zero4, zero4, big(1)))
		case "cid":
			// Option 82 with circuit-id at the fixed positions the program scans: v = 0 -> position 3, else 12..19
			add("ip_pools", le32(7), ipPool(24, []byte{10, 0, 0, 1}, []byte{8, 8, 8, 8}, []byte{8, 8, 4, 4}, 3600))
			add("server_config", le32(0), serverCfg(macSrv, []byte{10, 0, 0, 1}))
			cidv := []byte("eth0/1/7:100")
			key := make([]byte, 32)
			copy(key, cidv)
			add("circuit_id_subscribers", key, poolAssignment(7, []byte{10, 0, 0, 79}, valid))
			o := []byte{53, 1, 1}
			pos := 3
			if v > 0 {
				pos = 11 + v
				o = append(o, 55, byte(pos-5))
				for len(o) < pos {
					o = append(o, 1)
				}
			}
			o = append(o, 82, byte(2+len(cidv)), 1, byte(len(cidv)))
			o = append(o, cidv...)
			for len(o) < 90 {
				o = append(o, 0)
			}
			o = append(o, 255)
			f = base(nil, 5, 67, dhcpPayload(1, 1, macB, 0, zero4, zero4, o))
		case "cid-badlen":
			std()
			o := []byte{53, 1, 1, 82, []byte{3, 200, 40, 40}[v], 1, []byte{10, 10, 0, 33}[v], 'a', 'b', 'c', 'd', 'e', 'f', 'g', 'h', 'i', 'j'}
			for len(o) < 90 {
				o = append(o, 0)
			}
			f = base(nil, 5, 67, dhcpPayload(1, 1, macA, 0, zero4, zero4, o))
		case "expired":
			add("subscriber_pools", macKey(macA), poolAssignment(7, []byte{10, 0, 0, 10}, 0))
			add("ip_pools", le32(7), ipPool(24, []byte{10, 0, 0, 1}, []byte{8, 8, 8, 8}, nil, 3600))
			add("server_config", le32(0), serverCfg(macSrv, []byte{10, 0, 0, 1}))
			f = base(nil, 5, 67, dhcpPayload(1, 1, macA, 0, zero4, zero4, big(1)))
		case "nopool":
			add("subscriber_pools", macKey(macA), poolAssignment(8, []byte{10, 0, 0, 10}, valid))
			add("ip_pools", le32(7), ipPool(24, []byte{10, 0, 0, 1}, []byte{8, 8, 8, 8}, nil, 3600))
			f = base(nil, 5, 67, dhcpPayload(1, 1, macA, 0, zero4, zero4, big(1)))
		case "miss":
			std()
			f = base(nil, 5, 67, dhcpPayload(1, 1, macB, 0, zero4, zero4, big(1)))
		case "dns2":
			add("subscriber_pools", macKey(macA), poolAssignment(7, []byte{10, 0, 0, 10}, valid))
			add("ip_pools", le32(7), ipPool(20, []byte{10, 0, 0, 1}, []byte{8, 8, 8, 8}, []byte{8, 8, 4, 4}, 0xfffffff0))
			add("server_config", le32(0), serverCfg(macSrv, []byte{10, 0, 0, 1}))
			f = base(nil, 5, 67, dhcpPayload(1, 3, macA, 0, zero4, zero4, big(3)))
		case "nodns":
			add("subscriber_pools", macKey(macA), poolAssignment(7, []byte{10, 0, 0, 10}, valid))
			add("ip_pools", le32(7), ipPool(32, []byte{10, 0, 0, 1}, nil, []byte{8, 8, 4, 4}, 60))
			add("server_config", le32(0), serverCfg(macSrv, []byte{10, 0, 0, 1}))
			f = base(nil, 5, 67, dhcpPayload(1, 3, macA, 0, zero4, zero4, big(3)))
		case "srvip0":
			add("subscriber_pools", macKey(macA), poolAssignment(7, []byte{10, 0, 0, 10}, valid))
			add("ip_pools", le32(7), ipPool(0, []byte{10, 0, 0, 254}, []byte{8, 8, 8, 8}, nil, 3600))
			add("server_config", le32(0), serverCfg(macSrv, zero4))
			f = base(nil, 5, 67, dhcpPayload(1, 1, macA, 0, zero4, zero4, big(1)))
		case "bootp300":
			// the 300-byte BOOTP minimum: 60 option bytes (witness of the defect fixed in /repo c10bfec)
			std()
			o := make([]byte, 60)
			copy(o, []byte{53, 1, 1, 55, 4, 1, 3, 6, 15, 255})
			f = base(nil, 5, 67, dhcpPayload(1, 1, macA, 0, zero4, zero4, o))
		case "ihl", "ihl-vlan":
			std()
			var tags [][]byte
			if fam == "ihl-vlan" {
				tags = [][]byte{vtag(0x8100, 300)}
			}
			f = pad(base(tags, v, 67, dhcpPayload(1, 1, macA, 0, zero4, zero4, big(1))), baseLen, nil)
			// make the bytes the program will read at its (ihl-dependent) offsets a cached DISCOVER where possible
			l3 := 14 + 4*len(tags)
			u := l3 + 4*v
			if v < 5 {
				copy(f[u:], udpHdr(68, 67, 0))
				copy(f[u+8:], dhcpPayload(1, 1, macA, 0, zero4, zero4, big(1)))
				f[l3+9] = 17
				f[l3] = 0x40 | byte(v)
			}
		case "not-dhcp":
			std()
			f = base(nil, 5, 53, dhcpPayload(1, 1, macA, 0, zero4, zero4, big(1)))
		case "reply-op":
			std()
			f = base(nil, 5, 67, dhcpPayload(2, 1, macA, 0, zero4, zero4, big(1)))
		case "badmagic":
			std()
			f = base(nil, 5, 67, dhcpPayload(1, 1, macA, 0, zero4, zero4, big(1)))
			f[14+20+8+237] ^= 1
		case "msgpos":
			std()
			o := make([]byte, 90)
			copy(o[v:], []byte{53, 1, 3})
			f = base(nil, 5, 67, dhcpPayload(1, 3, macA, 0, zero4, zero4, o))
		case "inform":
			std()
			f = base(nil, 5, 67, dhcpPayload(1, 8, macA, 0, zero4, zero4, big(8)))
		case "ipv6":
			std()
			f = cat(eth(bcast, macA, nil, 0x86dd), ipv6(ip6A, ip6B, 17), udpHdr(546, 547, 0))
		case "triple-tag":
			std()
			f = base([][]byte{vtag(0x88a8, 7), vtag(0x8100, 100), vtag(0x8100, 5)}, 5, 67, dhcpPayload(1, 1, macA, 0, zero4, zero4, big(1)))
		case "empty":
			f = base(nil, 5, 67, dhcpPayload(1, 1, macA, 0, zero4, zero4, big(1)))
		case "random":
			std()
			f = r.Bytes(baseLen)
			switch v % 4 {
			case 0:
				f[12], f[13] = 8, 0
			case 1:
				f[12], f[13] = 0x81, 0
				f[16], f[17] = 8, 0
			case 2:
				f[12], f[13] = 0x88, 0xa8
				f[16], f[17] = 0x81, 0
				f[20], f[21] = 8, 0
			}
		case "randhdr":
			std()
			g := pad(base(nil, 5, 67, dhcpPayload(1, byte(1+2*(v&1)), macA, 0, zero4, zero4, big(byte(1+2*(v&1))))), baseLen, nil)
			f = randHdr(g, 1+v/2)
		}
	}
	if f == nil {
		must(fmt.Errorf("unknown scenario prog=%d fam=%s", prog, fam))
	}
	f = pad(f, baseLen, nil)
	sort.SliceStable(ents, func(i, j int) bool { return ents[i].M < ents[j].M })
	return f, ents, now
}

// ---------------------------------------------------------------------------------------------- lengths

func allLens() []int {
	l := make([]int, 0, baseLen+1)
	for i := 0; i <= baseLen; i++ {
		l = append(l, i)
	}
	return l
}

// every length in the header region, then sparse
func headLens(head, step int) []int {
	var l []int
	for i := 0; i <= head; i++ {
		l = append(l, i)
	}
	for i := head + 1; i <= baseLen; i += step {
		l = append(l, i)
	}
	for i := baseLen - 3; i <= baseLen; i++ {
		l = append(l, i)
	}
	return l
}
func sparseLens(head, hstep, step int, off int) []int {
	var l []int
	for i := off % hstep; i <= head; i += hstep {
		l = append(l, i)
	}
	for i := head + 1 + off%step; i <= baseLen; i += step {
		l = append(l, i)
	}
	return append(l, baseLen)
}

const header = `From Coq Require Import NArith List. Import ListNotations.
From Verif Require Import Base.Word Model.PktMonad Model.PktSpec Model.PktCheck.
Local Open Scope N_scope.
`
const footer = `Definition R := Eval vm_compute in run_cases cases.
Print R.
`

// emit writes one stream like vh.Emit does (same file names, meta and cases.jsonl), but with the cases of a
// shard split into definitions of at most 60 cases that are appended afterwards.
func emit(c vh.Config, stream string, cases []vh.Case, extra map[string]interface{}) {
	nsh := 0
	tagCount := map[string]int{}
	distinct := map[string]bool{}
	jl, err := os.Create(filepath.Join(c.Out, stream+".cases.jsonl"))
	must(err)
	jw := bufio.NewWriter(jl)
	for i := 0; i < len(cases); i += c.Shard {
		j := i + c.Shard
		if j > len(cases) {
			j = len(cases)
		}
		f, err := os.Create(filepath.Join(c.Out, fmt.Sprintf("%s_%d.v", stream, nsh)))
		must(err)
		w := bufio.NewWriter(f)
		w.WriteString(header)
		written := map[string]bool{}
		for k := i; k < j; k++ {
			for _, d := range cases[k].Defs {
				if !written[d.Name] {
					written[d.Name] = true
					fmt.Fprintf(w, "Definition %s : %s := %s.\n", d.Name, d.Type, d.Body)
				}
			}
		}
		var chunks []string
		for k := i; k < j; k += 60 {
			e := k + 60
			if e > j {
				e = j
			}
			name := fmt.Sprintf("k_%d", len(chunks))
			chunks = append(chunks, name)
			fmt.Fprintf(w, "Definition %s : list case := [\n", name)
			for q := k; q < e; q++ {
				if q > k {
					w.WriteString(";\n")
				}
				w.WriteString(cases[q].Coq)
			}
			w.WriteString("].\n")
		}
		fmt.Fprintf(w, "Definition cases : list case := %s.\n", strings.Join(append(chunks, "[]"), " ++ "))
		w.WriteString(footer)
		w.Flush()
		f.Close()
		nsh++
	}
	for _, cs := range cases {
		for _, t := range cs.Tags {
			tagCount[t]++
		}
		k := cs.Key
		if k == "" {
			k = cs.Coq
		}
		distinct[k] = true
		b, _ := json.Marshal(cs)
		jw.Write(b)
		jw.WriteByte('\n')
	}
	jw.Flush()
	jl.Close()
	meta := map[string]interface{}{
		"stream": stream, "cases": len(cases), "shards": nsh, "shard_size": c.Shard,
		"distinct": len(distinct), "tags": tagCount, "seed": c.Seed, "tier": c.Tier,
	}
	for k, v := range extra {
		meta[k] = v
	}
	b, _ := json.MarshalIndent(meta, "", " ")
	must(os.WriteFile(filepath.Join(c.Out, stream+".meta.json"), b, 0o644))
}

func main() {
	cfg := vh.ParseFlags()
	if cfg.Shard == 250 {
		cfg.Shard = 1200
	}
	dir, err := bpfrun.Dir()
	must(err)
	e := &env{dir: dir, useAsan: os.Getenv("VERIF_C07_NOASAN") != "1", asanAllLens: cfg.Thorough()}
	e.open()
	defer e.close()
	extra := func() map[string]interface{} {
		return map[string]interface{}{"kernel_bpf": e.kernelBPF, "verifier_ok": e.verifierOK, "kernel_notes": e.loadNotes,
			"kernel_test_runs": e.kernelRuns, "kernel_refused_short_tc": e.kernelRefused, "native_runs": e.nativeRuns, "asan_runs": e.asanRuns, "asan_alignment_aborts_ignored": e.asanAlign, "guard_start_runs": e.guardStartRuns,
			"kernel_native_compared": e.compared, "kernel_native_disagree": e.disagree, "kernel_native_disagree_first": e.disagreeNote,
			"native_faults": e.faults, "object_dir": dir, "exhaustive_lengths": "0..1600 for the primary families of every program"}
	}
	explicitGroup := func(d Desc) group {
		if d.Frame != nil || d.Fam == "" {
			return group{prog: d.Prog, fam: "explicit", base: d.Frame, ents: d.Ents, now: d.Now, lens: []int{len(d.Frame)}, explicit: true}
		}
		b, ents, now := scenario(d.Prog, d.Fam, d.Var, d.Seed)
		return group{prog: d.Prog, fam: d.Fam, vr: d.Var, seed: d.Seed, base: b, ents: ents, now: now, lens: []int{d.Len}}
	}
	gid := 0
	if cfg.Replay != "" {
		var d Desc
		must(vh.LoadReplay(cfg.Replay, &d))
		var out []vh.Case
		e.runGroup(explicitGroup(d), &out, gid)
		emit(cfg, "cases", out, extra())
		return
	}
	var corpus []vh.Case
	for _, f := range vh.CorpusFiles(cfg) {
		var d Desc
		must(vh.LoadReplay(f, &d))
		gid++
		e.runGroup(explicitGroup(d), &corpus, gid)
	}
	if len(corpus) > 0 {
		emit(cfg, "corpus", corpus, extra())
	}
	for _, p := range progs {
		var out []vh.Case
		for si, sc := range scenarios[p.id] {
			nv := sc.nvar
			if nv == 0 {
				nv = 1
			}
			for v := 0; v < nv; v++ {
				head := 140
				if p.id == 7 {
					head = 430
				}
				var lens []int
				firstPrim := si == 0
				switch {
				case cfg.Thorough() && sc.prim:
					lens = allLens()
				case cfg.Thorough():
					lens = headLens(head, 41)
				case firstPrim && v == 0:
					lens = allLens()
				default:
					lens = sparseLens(head, 6, 397, si+v)
				}
				b, ents, now := scenario(p.id, sc.fam, v, cfg.Seed)
				gid++
				e.runGroup(group{prog: p.id, fam: sc.fam, vr: v, seed: cfg.Seed, base: b, ents: ents, now: now, lens: lens}, &out, gid)
			}
		}
		emit(cfg, p.name, out, extra())
	}
}
