// C13 correspondence driver: a real active ha.HASyncer and a real standby ha.HASyncer at the
// message layer, vs Model/HaSync.v.
//
// The driver plays (a) the session manager of the active node (store update + PushChange), (b) the
// active's broadcastLoop, one iteration at a time (hook), (c) the standby's standbyLoop sequencing:
// the real performFullSync over loopback HTTP against the active's real /ha/sessions handler, then
// the stream: the active's real handleSessionStream runs in a goroutine writing into a driver-owned
// ResponseWriter whose Flush blocks until the schedule delivers the event; the bytes written are
// split as connectToStream splits them and handed to the standby's real handleSSEData.
package main

import (
	"bytes"
	"context"
	"encoding/json"
	"fmt"
	"net/http"
	"net/http/httptest"
	"reflect"
	"sort"
	"strings"
	"sync"
	"time"

	"verifharness/vh"

	"github.com/codelaboratoryltd/bng/pkg/ha"
	"go.uber.org/zap"
)

type Op struct {
	K  string `json:"k"` // put del bcast hb sync attach deliver disc
	ID int    `json:"id,omitempty"`
	V  int64  `json:"v,omitempty"` // encoded full record (base 3, one digit per SessionState field)
	N  int    `json:"n,omitempty"` // repeat count (bursts); 0 = once
}
type Case struct {
	Ops []Op `json:"ops"`
	E2E bool `json:"e2e,omitempty"` // end-to-end schedule (ops: put del disc reconnect), real standbyLoop
}

const nIDs = 4

// ---- one shared loopback HTTP server; the handler of the case in progress is swapped in ----
var (
	srvMu  sync.Mutex
	srvCur http.HandlerFunc
	srv    *httptest.Server
)

func server() *httptest.Server {
	if srv == nil {
		mux := http.NewServeMux()
		mux.HandleFunc("/ha/sessions", func(w http.ResponseWriter, r *http.Request) {
			srvMu.Lock()
			h := srvCur
			srvMu.Unlock()
			h(w, r)
		})
		srv = httptest.NewServer(mux)
	}
	return srv
}

// ---- the driver-owned SSE response writer ----
type sseWriter struct {
	hdr     http.Header
	buf     bytes.Buffer
	pending chan []byte
	release chan struct{}
	ctx     context.Context
}

func (w *sseWriter) Header() http.Header         { return w.hdr }
func (w *sseWriter) WriteHeader(int)             {}
func (w *sseWriter) Write(b []byte) (int, error) { return w.buf.Write(b) }
func (w *sseWriter) Flush() {
	data := append([]byte(nil), w.buf.Bytes()...)
	w.buf.Reset()
	select {
	case w.pending <- data:
	case <-w.ctx.Done():
		return
	}
	select {
	case <-w.release:
	case <-w.ctx.Done():
	}
}

type world struct {
	aStore, sStore *ha.InMemorySessionStore
	active, stand  *ha.HASyncer
	link           string // down synced streaming
	w              *sseWriter
	cancel         context.CancelFunc
	done           chan struct{}
	inHand         []byte // bytes of the event the stream handler is blocked on (nil = handler idle)
	chanCount      int    // messages queued in the client channel behind it
}

func sid(id int) string { return fmt.Sprintf("sess-%d", id) }

func newWorld() *world {
	lg := zap.NewNop()
	w := &world{aStore: ha.NewInMemorySessionStore(), sStore: ha.NewInMemorySessionStore(), link: "down"}
	ac := ha.DefaultSyncConfig()
	ac.NodeID, ac.Role = "node-a", ha.RoleActive
	w.active = ha.NewHASyncer(ac, w.aStore, lg)
	sc := ha.DefaultSyncConfig()
	sc.NodeID, sc.Role = "node-b", ha.RoleStandby
	sc.Partner = &ha.PartnerInfo{NodeID: "node-a", Endpoint: strings.TrimPrefix(server().URL, "http://")}
	sc.RequestTimeout = 10 * time.Second
	w.stand = ha.NewHASyncer(sc, w.sStore, lg)
	srvMu.Lock()
	srvCur = w.active.VerifHandleGetSessions
	srvMu.Unlock()
	return w
}

func (w *world) close() {
	if w.link == "streaming" {
		w.disconnect()
	}
}

func (w *world) disconnect() {
	w.cancel()
	<-w.done
	w.w, w.inHand, w.chanCount = nil, nil, 0
}

// ---- the whole SessionState record as the session value ----
// Every field of ha.SessionState except the key takes one of three values {zero, A, B} (bool: two);
// a record is encoded as the base-3 number of its field choices, in struct order. The encoding is
// driven by reflection so that a field added to the struct is covered (or, for an unknown kind,
// reported) without touching the driver. A stored field holding anything else is flagged.
var sessType = reflect.TypeOf(ha.SessionState{})

const badValue = 999999999999

func fieldChoice(i int, f reflect.StructField, trit int) (reflect.Value, bool) {
	v := reflect.New(f.Type).Elem()
	if trit == 0 {
		return v, true
	}
	switch {
	case f.Type == reflect.TypeOf(time.Time{}):
		v.Set(reflect.ValueOf(time.Unix(int64(1700000000+1000*trit+i), 0).UTC()))
	case f.Type.Kind() == reflect.String:
		v.SetString(fmt.Sprintf("%s-%c", strings.ToLower(f.Name), 'A'+byte(trit-1)))
	case f.Type.Kind() == reflect.Bool:
		v.SetBool(true)
	case f.Type.Kind() >= reflect.Int && f.Type.Kind() <= reflect.Int64:
		v.SetInt(int64(100*trit + i))
	case f.Type.Kind() >= reflect.Uint && f.Type.Kind() <= reflect.Uint64:
		v.SetUint(uint64(100*trit + i))
	default:
		return v, false
	}
	return v, true
}

func sameField(a, b reflect.Value) bool {
	if t, ok := a.Interface().(time.Time); ok {
		return t.Equal(b.Interface().(time.Time))
	}
	return a.Interface() == b.Interface()
}

// session builds the record encoded by v for session id (the key is the only per-id field)
func session(id int, v int64) *ha.SessionState {
	s := &ha.SessionState{}
	rv := reflect.ValueOf(s).Elem()
	for i := 0; i < sessType.NumField(); i++ {
		f := sessType.Field(i)
		if f.Name == "SessionID" {
			continue
		}
		trit := int(v % 3)
		v /= 3
		fv, ok := fieldChoice(i, f, trit)
		if !ok {
			panic("SessionState field of unsupported kind: " + f.Name)
		}
		rv.Field(i).Set(fv)
	}
	s.SessionID = sid(id)
	return s
}

// encode is the inverse; badValue when a field holds none of its three values
func encode(s *ha.SessionState) int64 {
	rv := reflect.ValueOf(s).Elem()
	var v, pow int64 = 0, 1
	for i := 0; i < sessType.NumField(); i++ {
		f := sessType.Field(i)
		if f.Name == "SessionID" {
			continue
		}
		trit := -1
		for t := 0; t < 3; t++ {
			fv, _ := fieldChoice(i, f, t)
			if sameField(rv.Field(i), fv) {
				trit = t
				break
			}
		}
		if trit < 0 {
			return badValue
		}
		v += int64(trit) * pow
		pow *= 3
	}
	return v
}

func canon(v int64) int64 { return encode(session(0, v)) }

func nFields() int { return sessType.NumField() - 1 }

// the record whose every field is A (1), B (2), or the given pattern repeated
func pattern(trits ...int) int64 {
	var v, pow int64 = 0, 1
	for i := 0; i < nFields(); i++ {
		v += int64(trits[i%len(trits)]) * pow
		pow *= 3
	}
	return canon(v)
}

// table projects a store onto ids 0..nIDs-1 -> encoded FULL record, flagging anything else
func table(st *ha.InMemorySessionStore) string {
	var items []string
	n := 0
	for id := 0; id < nIDs; id++ {
		if s, ok := st.GetSession(sid(id)); ok {
			n++
			if s.SessionID != sid(id) {
				items = append(items, fmt.Sprintf("Some %d", int64(badValue)))
			} else {
				items = append(items, fmt.Sprintf("Some %d", encode(s)))
			}
		} else {
			items = append(items, "None")
		}
	}
	if st.GetSessionCount() != n {
		items = append(items, "Some 888888888888") // a session outside the id universe
	}
	return vh.List(items)
}

func recvTable(s *ha.HASyncer) string {
	var items []string
	n := 0
	for id := 0; id < nIDs; id++ {
		if x, ok := s.GetReceivedSession(sid(id)); ok {
			n++
			items = append(items, fmt.Sprintf("Some %d", encode(x)))
		} else {
			items = append(items, "None")
		}
	}
	if len(s.GetAllReceivedSessions()) != n {
		items = append(items, "Some 888888888888")
	}
	return vh.List(items)
}

func coqMsg(m *ha.SyncMessage) string {
	id := -1
	if len(m.Sessions) == 1 {
		fmt.Sscanf(m.Sessions[0].SessionID, "sess-%d", &id)
	}
	switch m.Type {
	case ha.SyncTypeAdd, ha.SyncTypeUpdate:
		return fmt.Sprintf("(MPut %d %d %d)", id, encode(&m.Sessions[0]), m.SequenceNum)
	case ha.SyncTypeDelete:
		return fmt.Sprintf("(MDel %d %d)", id, m.SequenceNum)
	case ha.SyncTypeHeartbeat:
		return "MHb"
	}
	return "(MPut 777777 0 0)"
}

// what connectToStream does with the bytes of one event
func dataLines(b []byte) [][]byte {
	var out [][]byte
	for _, line := range bytes.SplitAfter(b, []byte("\n")) {
		if bytes.HasPrefix(line, []byte("data: ")) && len(line) > 6 {
			out = append(out, line[6:len(line)-1])
		}
	}
	return out
}

func (w *world) apply(o Op) (op string, res string) {
	res = "RNone"
	switch o.K {
	case "put":
		o.V = canon(o.V)
		op = fmt.Sprintf("Put %d %d", o.ID, o.V)
		s := session(o.ID, o.V)
		typ := ha.SyncTypeAdd
		if _, ok := w.aStore.GetSession(s.SessionID); ok {
			typ = ha.SyncTypeUpdate
		}
		w.aStore.PutSession(s)
		err := w.active.PushChange(typ, s)
		res = fmt.Sprintf("RPush (MPut %d %d %d) %s", o.ID, o.V, w.seq(), vh.Bool(err == nil))
	case "del":
		op = fmt.Sprintf("Del %d", o.ID)
		w.aStore.DeleteSession(sid(o.ID))
		err := w.active.PushChange(ha.SyncTypeDelete, &ha.SessionState{SessionID: sid(o.ID)})
		res = fmt.Sprintf("RPush (MDel %d %d) %s", o.ID, w.seq(), vh.Bool(err == nil))
	case "bcast", "hb":
		_, _, _, l0, _ := w.active.VerifQueues()
		var m *ha.SyncMessage
		ms := "MHb"
		if o.K == "bcast" {
			op = "Broadcast"
			m = w.active.VerifBroadcastOne()
			if m == nil {
				return op, "RSkip"
			}
			ms = coqMsg(m)
		} else {
			op = "Heartbeat"
			w.active.VerifBroadcastHeartbeat()
		}
		switch {
		case w.link != "streaming":
			res = fmt.Sprintf("RBcast %s BNoClient", ms)
		case w.inHand == nil: // handler idle: it takes the message and blocks in Flush
			w.inHand = <-w.w.pending
			res = fmt.Sprintf("RBcast %s BQueued", ms)
		default:
			_, _, _, l1, _ := w.active.VerifQueues()
			if l1 == l0+1 {
				w.chanCount++
				res = fmt.Sprintf("RBcast %s BQueued", ms)
			} else {
				res = fmt.Sprintf("RBcast %s BDropped", ms)
			}
		}
	case "sync":
		op = "FullSync"
		if w.link == "streaming" {
			return op, "RSkip"
		}
		err := w.stand.VerifPerformFullSync()
		if err == nil {
			w.link = "synced"
		}
		res = "RSync " + vh.Bool(err == nil)
	case "attach":
		op = "Attach"
		if w.link != "synced" {
			return op, "RSkip"
		}
		ctx, cancel := context.WithCancel(context.Background())
		w.w = &sseWriter{hdr: http.Header{}, pending: make(chan []byte), release: make(chan struct{}), ctx: ctx}
		w.cancel, w.done = cancel, make(chan struct{})
		req := httptest.NewRequest("GET", "/ha/sessions/stream", nil).WithContext(ctx)
		req.RemoteAddr = "127.0.0.1:40000"
		go func(sw *sseWriter, done chan struct{}) {
			w.active.VerifHandleSessionStream(sw, req)
			close(done)
		}(w.w, w.done)
		hb := <-w.w.pending // the initial heartbeat
		for _, d := range dataLines(hb) {
			w.stand.VerifHandleSSEData(d)
		}
		w.w.release <- struct{}{}
		w.link = "streaming"
	case "deliver":
		op = "Deliver"
		if w.link != "streaming" || w.inHand == nil {
			return op, "RSkip"
		}
		ls := dataLines(w.inHand)
		var m ha.SyncMessage
		if len(ls) != 1 || json.Unmarshal(ls[0], &m) != nil {
			res = "RDeliver (MPut 666666 0 0)"
		} else {
			res = "RDeliver " + coqMsg(&m)
		}
		for _, d := range ls {
			w.stand.VerifHandleSSEData(d)
		}
		w.inHand = nil
		w.w.release <- struct{}{}
		if w.chanCount > 0 { // the handler takes the next queued message and blocks in Flush again
			w.inHand = <-w.w.pending
			w.chanCount--
		}
	case "disc":
		op = "Disconnect"
		switch w.link {
		case "down":
			return op, "RSkip"
		case "streaming":
			w.disconnect()
		}
		w.link = "down"
	default:
		panic("bad op " + o.K)
	}
	return
}

func (w *world) seq() uint64 {
	// the sequence number the push just took: read it back from the health endpoint's source of truth
	// is not exported; PushChange numbers consecutively from 1, so the driver counts the pushes.
	seqCount[w]++
	return seqCount[w]
}

var seqCount = map[*world]uint64{}

func (w *world) observe(res string) string {
	pl, _, _, cl, _ := w.active.VerifQueues()
	q := cl
	if w.inHand != nil {
		q++
	}
	lk := map[string]string{"down": "LDown", "synced": "LSynced", "streaming": "LStreaming"}[w.link]
	return fmt.Sprintf("mkOut %s %s %s %d %d %s (%s)", table(w.aStore), table(w.sStore), recvTable(w.stand), pl, q, lk, res)
}

func (w *world) fingerprint() string {
	pl, _, _, cl, _ := w.active.VerifQueues()
	return fmt.Sprintf("%s|%s|%s|%d|%d|%v|%s", table(w.aStore), table(w.sStore), recvTable(w.stand), pl, cl, w.inHand != nil, w.link)
}

func caps() (int, int) {
	w := newWorld()
	defer delete(seqCount, w)
	// attach a client to read the channel capacity
	w.apply(Op{K: "sync"})
	w.apply(Op{K: "attach"})
	_, pc, _, _, cc := w.active.VerifQueues()
	w.close()
	return pc, cc + 1
}

var pcap, ccap int

func expand(ops []Op) []Op {
	var o []Op
	for _, x := range ops {
		n := x.N
		if n <= 0 {
			n = 1
		}
		y := x
		y.N = 0
		for i := 0; i < n; i++ {
			o = append(o, y)
		}
	}
	return o
}

func run(c Case, extraTags ...string) (vh.Case, string) {
	w := newWorld()
	defer delete(seqCount, w)
	var tr []string
	tags := map[string]bool{}
	for _, o := range expand(c.Ops) {
		op, res := w.apply(o)
		tr = append(tr, vh.Pair(op, w.observe(res)))
		tags["op:"+o.K] = true
		switch {
		case strings.Contains(res, "BDropped"):
			tags["client-channel-overflow"] = true
		case strings.HasPrefix(res, "RPush") && strings.HasSuffix(res, "false"):
			tags["pending-queue-overflow"] = true
		case strings.HasPrefix(res, "RDeliver"):
			tags["delivered"] = true
		case res == "RSync true":
			tags["full-sync"] = true
		}
	}
	fp := w.fingerprint()
	w.close()
	var tl []string
	for t := range tags {
		tl = append(tl, t)
	}
	tl = append(tl, extraTags...)
	sort.Strings(tl)
	return vh.Case{Coq: fmt.Sprintf("(Build_config %d %d,\n  %s)", pcap, ccap, vh.List(tr)), Desc: c, Tags: tl}, fp
}

func alphabet(ids, vals int) []Op {
	// value 1: every field non-zero (A); value 2: every other field back to zero, the rest B
	values := []int64{pattern(1), pattern(0, 2), pattern(2, 1, 0)}
	var a []Op
	for id := 0; id < ids; id++ {
		for v := 0; v < vals; v++ {
			a = append(a, Op{K: "put", ID: id, V: values[v]})
		}
		a = append(a, Op{K: "del", ID: id})
	}
	for _, k := range []string{"bcast", "hb", "sync", "attach", "deliver", "disc"} {
		a = append(a, Op{K: k})
	}
	return a
}

// genVal: every field independently zero / A / B; often a neighbour of the previous value with a
// few fields changed (half of the changes reset a field to zero)
func genVal(r *vh.Rng, prev int64) int64 {
	var v, pow int64 = 0, 1
	near := prev > 0 && r.Chance(1, 2)
	for i := 0; i < nFields(); i++ {
		t := int64(r.Intn(3))
		if near {
			t = (prev / pow) % 3
			if r.Chance(1, 5) {
				if t != 0 && r.Bool() {
					t = 0
				} else {
					t = int64(r.Intn(3))
				}
			}
		}
		v += t * pow
		pow *= 3
	}
	return canon(v)
}

func parseOps(s string) []Op {
	var o []Op
	for _, t := range strings.Fields(s) {
		var x Op
		switch {
		case strings.HasPrefix(t, "put"):
			x.K = "put"
			fmt.Sscanf(t[3:], "%d=%d", &x.ID, &x.V)
		case strings.HasPrefix(t, "del") && t != "deliver":
			x.K = "del"
			fmt.Sscanf(t[3:], "%d", &x.ID)
		default:
			x.K = t
		}
		o = append(o, x)
	}
	return o
}

var seedPrefixes = []string{"sync attach", "put0=1 bcast sync attach", "put0=1 put1=1 sync attach disc", "sync", "put0=1 sync attach put0=2 bcast"}

// breadth-first exploration with implementation-state fingerprints (see harness/c14)
func explore(depth int, alpha []Op, seeds []string) []vh.Case {
	seen := map[string]bool{}
	var frontier [][]Op
	for _, sd := range append([]string{""}, seeds...) {
		p := parseOps(sd)
		_, fp := run(Case{Ops: p})
		if !seen[fp] {
			seen[fp] = true
			frontier = append(frontier, p)
		}
	}
	var out []vh.Case
	for d := 1; d <= depth && len(frontier) > 0; d++ {
		var next [][]Op
		for _, p := range frontier {
			for _, e := range alpha {
				seq := append(append([]Op(nil), p...), e)
				cs, fp := run(Case{Ops: seq}, fmt.Sprintf("exhaustive-depth:%d", d))
				out = append(out, cs)
				if !seen[fp] {
					seen[fp] = true
					next = append(next, seq)
				}
			}
		}
		frontier = next
	}
	return out
}

func genRandom(r *vh.Rng, maxLen int, guarded bool) Case {
	n := 4 + r.Intn(maxLen)
	var ops []Op
	link := "down"
	last := map[int]int64{}
	for len(ops) < n {
		switch x := r.Intn(24); {
		case x < 6:
			id := r.Intn(nIDs)
			last[id] = genVal(r, last[id])
			ops = append(ops, Op{K: "put", ID: id, V: last[id]})
		case x < 9:
			ops = append(ops, Op{K: "del", ID: r.Intn(nIDs)})
		case x < 13:
			if guarded && link == "synced" {
				continue // a broadcast between full sync and attach may lose a change
			}
			ops = append(ops, Op{K: "bcast"})
		case x < 14:
			ops = append(ops, Op{K: "hb"})
		case x < 16:
			ops = append(ops, Op{K: "sync"})
			if link != "streaming" {
				link = "synced"
			}
		case x < 19:
			ops = append(ops, Op{K: "attach"})
			if link == "synced" {
				link = "streaming"
			}
		case x < 22:
			ops = append(ops, Op{K: "deliver"})
		default:
			ops = append(ops, Op{K: "disc"})
			link = "down"
		}
	}
	if r.Chance(1, 2) { // drive to quiescence: reconnect if needed, flush everything
		if link == "down" {
			ops = append(ops, Op{K: "sync"})
			link = "synced"
		}
		if link == "synced" {
			ops = append(ops, Op{K: "attach"})
		}
		for i := 0; i < n+2; i++ {
			ops = append(ops, Op{K: "bcast"}, Op{K: "deliver"})
		}
		ops = append(ops, Op{K: "deliver"}, Op{K: "deliver"})
	}
	return Case{Ops: ops}
}

// ---------------------------------------------------------------- end-to-end stream
// Real standbyLoop (Start() on the standby), real connectToStream, real broadcastLoop, real HTTP
// over loopback. The driver only (a) plays the session manager, (b) cuts the link (503 gate +
// CloseClientConnections) and restores it, (c) waits with a bound for the pair to go quiet and
// then reads both stores. FullSyncInterval stays at its default: a reconnect must full-sync
// however recently the last one ran.

type e2eWorld struct {
	aStore, sStore *ha.InMemorySessionStore
	active, stand  *ha.HASyncer
	srv            *httptest.Server
	gateMu         sync.Mutex
	down           bool
	link           string
}

func newE2E() *e2eWorld {
	lg := zap.NewNop()
	w := &e2eWorld{aStore: ha.NewInMemorySessionStore(), sStore: ha.NewInMemorySessionStore(), link: "down", down: true}
	ac := ha.DefaultSyncConfig()
	ac.NodeID, ac.Role = "node-a", ha.RoleActive
	w.active = ha.NewHASyncer(ac, w.aStore, lg)
	gate := func(h http.HandlerFunc) http.HandlerFunc {
		return func(rw http.ResponseWriter, r *http.Request) {
			w.gateMu.Lock()
			d := w.down
			w.gateMu.Unlock()
			if d {
				http.Error(rw, "link down", http.StatusServiceUnavailable)
				return
			}
			h(rw, r)
		}
	}
	mux := http.NewServeMux()
	mux.HandleFunc("/ha/sessions", gate(w.active.VerifHandleGetSessions))
	mux.HandleFunc("/ha/sessions/stream", gate(w.active.VerifHandleSessionStream))
	w.srv = httptest.NewServer(mux)
	w.active.VerifStartBroadcastLoop()
	sc := ha.DefaultSyncConfig() // FullSyncInterval = 5 min (default), not shortened
	sc.NodeID, sc.Role = "node-b", ha.RoleStandby
	sc.Partner = &ha.PartnerInfo{NodeID: "node-a", Endpoint: strings.TrimPrefix(w.srv.URL, "http://")}
	w.stand = ha.NewHASyncer(sc, w.sStore, lg)
	w.stand.VerifSetBackoff(5*time.Millisecond, 20*time.Millisecond)
	if err := w.stand.Start(); err != nil { // the real standbyLoop; the link is still down
		panic(err)
	}
	return w
}

func (w *e2eWorld) close() {
	w.gateMu.Lock()
	w.down = true
	w.gateMu.Unlock()
	done := make(chan struct{})
	go func() { w.stand.Stop(); close(done) }()
	w.srv.CloseClientConnections()
	select {
	case <-done:
	case <-time.After(5 * time.Second):
	}
	w.active.Stop()
	w.srv.Close()
}

func poll(bound time.Duration, f func() bool) bool {
	dl := time.Now().Add(bound)
	for {
		if f() {
			return true
		}
		if time.Now().After(dl) {
			return false
		}
		time.Sleep(300 * time.Microsecond)
	}
}

func (w *e2eWorld) quiet() {
	if w.link == "streaming" {
		poll(1500*time.Millisecond, func() bool {
			pl, _, _, cl, _ := w.active.VerifQueues()
			return pl == 0 && cl == 0 && table(w.aStore) == table(w.sStore)
		})
	} else {
		poll(1500*time.Millisecond, func() bool { pl, _, _, _, _ := w.active.VerifQueues(); return pl == 0 })
	}
}

// apply runs one end-to-end action; returns the Model operations it stands for
func (w *e2eWorld) apply(o Op) []string {
	switch o.K {
	case "put", "del":
		var m string
		if o.K == "put" {
			o.V = canon(o.V)
			s := session(o.ID, o.V)
			typ := ha.SyncTypeAdd
			if _, ok := w.aStore.GetSession(s.SessionID); ok {
				typ = ha.SyncTypeUpdate
			}
			w.aStore.PutSession(s)
			w.active.PushChange(typ, s)
			m = fmt.Sprintf("Put %d %d", o.ID, o.V)
		} else {
			w.aStore.DeleteSession(sid(o.ID))
			w.active.PushChange(ha.SyncTypeDelete, &ha.SessionState{SessionID: sid(o.ID)})
			m = fmt.Sprintf("Del %d", o.ID)
		}
		if w.link == "streaming" {
			return []string{m, "Broadcast", "Deliver"}
		}
		return []string{m, "Broadcast"}
	case "disc":
		if w.link == "down" {
			return nil
		}
		w.gateMu.Lock()
		w.down = true
		w.gateMu.Unlock()
		w.srv.CloseClientConnections()
		poll(3*time.Second, func() bool {
			_, _, n, _, _ := w.active.VerifQueues()
			return !w.stand.IsConnected() && n == 0
		})
		w.link = "down"
		return []string{"Disconnect"}
	case "reconnect":
		if w.link != "down" {
			return nil
		}
		poll(1500*time.Millisecond, func() bool { pl, _, _, _, _ := w.active.VerifQueues(); return pl == 0 })
		w.gateMu.Lock()
		w.down = false
		w.gateMu.Unlock()
		// the standby's own loop notices: what it does on (re)connect is the code under test
		if poll(5*time.Second, func() bool {
			_, _, n, _, _ := w.active.VerifQueues()
			return w.stand.IsConnected() && n == 1
		}) {
			w.link = "streaming"
		}
		return []string{"FullSync", "Attach"} // as standbyLoop does
	}
	panic("bad e2e op " + o.K)
}

func runE2E(c Case, extraTags ...string) vh.Case {
	w := newE2E()
	var gs []string
	tags := map[string]bool{}
	outageChange := false
	for _, o := range c.Ops {
		ops := w.apply(o)
		w.quiet()
		pl, _, _, cl, _ := w.active.VerifQueues()
		lk := "LDown"
		if w.stand.IsConnected() {
			lk = "LStreaming"
		}
		gs = append(gs, fmt.Sprintf("(%s, (%s, %s, %d, %d, %s))", vh.List(ops), table(w.aStore), table(w.sStore), pl, cl, lk))
		tags["e2e:"+o.K] = true
		if (o.K == "put" || o.K == "del") && w.link == "down" {
			outageChange = true
		}
		if o.K == "reconnect" && outageChange {
			tags["reconnect-after-changes-during-outage"] = true
		}
	}
	w.close()
	var tl []string
	for t := range tags {
		tl = append(tl, t)
	}
	tl = append(tl, extraTags...)
	sort.Strings(tl)
	return vh.Case{Coq: fmt.Sprintf("(Build_config %d %d,\n  %s)", pcap, ccap, vh.List(gs)), Desc: c, Tags: tl}
}

func genE2E(r *vh.Rng) Case {
	c := Case{E2E: true}
	link := "down"
	last := map[int]int64{}
	chg := func() {
		if r.Chance(1, 3) {
			c.Ops = append(c.Ops, Op{K: "del", ID: r.Intn(nIDs)})
		} else {
			id := r.Intn(nIDs)
			last[id] = genVal(r, last[id])
			c.Ops = append(c.Ops, Op{K: "put", ID: id, V: last[id]})
		}
	}
	for k := r.Intn(3); k > 0; k-- {
		chg()
	}
	c.Ops = append(c.Ops, Op{K: "reconnect"})
	link = "streaming"
	for round := 1 + r.Intn(3); round > 0; round-- {
		for k := r.Intn(4); k > 0; k-- {
			chg()
		}
		c.Ops = append(c.Ops, Op{K: "disc"})
		link = "down"
		for k := 1 + r.Intn(3); k > 0; k-- { // changes during the outage (deletes matter most)
			chg()
		}
		c.Ops = append(c.Ops, Op{K: "reconnect"})
		link = "streaming"
		for k := r.Intn(3); k > 0; k-- {
			chg()
		}
	}
	_ = link
	return c
}

const e2eHeader = `From Coq Require Import NArith List. Import ListNotations.
From Verif Require Import Model.HaSync Model.HaSyncSpec Model.HaSyncCheck.
Local Open Scope N_scope.
Definition cases : list e2e_case := [
`
const e2eFooter = `
].
Definition R := Eval vm_compute in run_e2e_cases cases.
Print R.
`

const header = `From Coq Require Import NArith List. Import ListNotations.
From Verif Require Import Model.HaSync Model.HaSyncSpec Model.HaSyncCheck.
Local Open Scope N_scope.
Definition cases : list case := [
`
const footer = `
].
Definition R := Eval vm_compute in run_cases cases.
Print R.
`

func main() {
	cfg := vh.ParseFlags()
	defer func() {
		if srv != nil {
			srv.Close()
		}
	}()
	pcap, ccap = caps()
	if cfg.Replay != "" {
		var c Case
		if err := vh.LoadReplay(cfg.Replay, &c); err != nil {
			panic(err)
		}
		if c.E2E {
			vh.Emit(cfg, "e2e", e2eHeader, e2eFooter, []vh.Case{runE2E(c)}, nil)
			return
		}
		cs, _ := run(c)
		vh.Emit(cfg, "cases", header, footer, []vh.Case{cs}, nil)
		return
	}
	var corpus, e2e []vh.Case
	for _, f := range vh.CorpusFiles(cfg) {
		if strings.HasSuffix(f, "-heavy.json") && !cfg.Thorough() {
			continue // thousands of operations: thorough tier only
		}
		var c Case
		if err := vh.LoadReplay(f, &c); err != nil {
			panic(err)
		}
		if c.E2E {
			e2e = append(e2e, runE2E(c, "corpus"))
			continue
		}
		cs, _ := run(c, "corpus")
		corpus = append(corpus, cs)
	}
	if len(corpus) > 0 {
		vh.Emit(cfg, "corpus", header, footer, corpus, nil)
	}
	depth, nrand, maxLen := 2, 120, 16
	if cfg.Thorough() {
		depth, nrand, maxLen = 4, 2000, 40
	}
	ex := explore(depth, alphabet(2, 2), seedPrefixes)
	vh.Emit(cfg, "exhaustive", header, footer, ex, map[string]interface{}{"exhaustive": true,
		"exhaustive_note": fmt.Sprintf("breadth-first over the 12-operation alphabet (2 ids x 2 full-record values: all fields non-zero; every other field reset to zero) to depth %d from the initial state and %d seeded states; a sequence is extended only when it reaches a new implementation-state fingerprint (both stores, received map, queue lengths, link)", depth, len(seedPrefixes)),
		"pending_cap":     pcap, "client_cap_plus_in_hand": ccap})
	r := vh.NewRng(cfg.Seed)
	var cases, guarded []vh.Case
	for i := 0; i < nrand; i++ {
		cs, _ := run(genRandom(r.Fork(), maxLen, false), "random")
		cases = append(cases, cs)
	}
	vh.Emit(cfg, "cases", header, footer, cases, nil)
	for i := 0; i < nrand; i++ {
		cs, _ := run(genRandom(r.Fork(), maxLen, true), "guarded")
		guarded = append(guarded, cs)
	}
	ne2e := 30
	if cfg.Thorough() {
		ne2e = 300
	}
	for i := 0; i < ne2e; i++ {
		e2e = append(e2e, runE2E(genE2E(r.Fork()), "e2e-random"))
	}
	vh.Emit(cfg, "e2e", e2eHeader, e2eFooter, e2e, map[string]interface{}{"note": "end-to-end: real standbyLoop/connectToStream/broadcastLoop over loopback HTTP (FullSyncInterval at its default), link cut and restored by the driver, changes during the outage, stores compared at bounded-poll quiescence"})
	vh.Emit(cfg, "guarded", header, footer, guarded, map[string]interface{}{"note": "no broadcast between full sync and attach, no overflow: inside the guard of the _partial theorems"})
}
